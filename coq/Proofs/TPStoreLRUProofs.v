(* C16 under eviction: the discharge service over the capacity-bounded store of
   Model/TPStoreLRU.v.  Refinement to the unbounded model of Model/TPServer.v when the capacity
   is large enough, and the safety clauses of C16 for EVERY capacity.  No axioms. *)
From Coq Require Import List Bool NArith Arith Lia.
From Mac Require Import Model.TPServer Model.TPStoreLRU Proofs.ServerProofs.
Import ListNotations.

(* ------------------------------------------------------------------ *)
(* keys and the recency list                                           *)

Lemma key_eqb_eq a b : key_eqb a b = true <-> a = b.
Proof.
  destruct a as [x|x], b as [y|y]; cbn [key_eqb]; rewrite ?N.eqb_eq; split; intros H;
    try discriminate H; try (inversion H; reflexivity); subst; reflexivity.
Qed.

Lemma key_eqb_refl k : key_eqb k k = true.
Proof. apply key_eqb_eq. reflexivity. Qed.

Lemma key_eq_dec (a b : key) : a = b \/ a <> b.
Proof.
  destruct (key_eqb a b) eqn:E.
  - left. apply key_eqb_eq. exact E.
  - right. intros H. apply key_eqb_eq in H. congruence.
Qed.

Lemma key_cases k : k = KPoll (key_flow k) \/ k = KUser (key_flow k).
Proof. destruct k; cbn [key_flow]; auto. Qed.

Lemma c_has_In k ks : c_has k ks = true <-> In k ks.
Proof.
  unfold c_has. rewrite existsb_exists. split.
  - intros [x [Hin He]]. apply key_eqb_eq in He. subst x. exact Hin.
  - intros H. exists k. split; auto. apply key_eqb_refl.
Qed.

Lemma c_has_false k ks : c_has k ks = false <-> ~ In k ks.
Proof.
  split.
  - intros H Hin. apply c_has_In in Hin. congruence.
  - intros H. destruct (c_has k ks) eqn:E; auto. apply c_has_In in E. contradiction.
Qed.

Lemma In_c_rm x k ks : In x (c_rm k ks) <-> In x ks /\ x <> k.
Proof.
  unfold c_rm. rewrite filter_In. split; intros [H1 H2]; split; auto.
  - intros E. subst x. rewrite key_eqb_refl in H2. discriminate H2.
  - destruct (key_eqb k x) eqn:E; auto. apply key_eqb_eq in E. congruence.
Qed.

Lemma c_rm_cons_same k ks : c_rm k (k :: ks) = c_rm k ks.
Proof. unfold c_rm. cbn [filter]. rewrite key_eqb_refl. reflexivity. Qed.

Lemma c_rm_idem k ks : c_rm k (c_rm k ks) = c_rm k ks.
Proof.
  unfold c_rm. induction ks as [|x r IH]; cbn [filter]; auto.
  destruct (negb (key_eqb k x)) eqn:E; cbn [filter]; rewrite ?E, IH; reflexivity.
Qed.

Lemma c_rm_length_le k ks : List.length (c_rm k ks) <= List.length ks.
Proof.
  unfold c_rm. induction ks as [|x r IH]; cbn [filter List.length]; auto.
  destruct (negb (key_eqb k x)); cbn [List.length]; lia.
Qed.

Lemma c_rm_length_lt k ks : In k ks -> S (List.length (c_rm k ks)) <= List.length ks.
Proof.
  induction ks as [|x r IH]; intros Hin; [destruct Hin|].
  destruct (key_eqb k x) eqn:E.
  - apply key_eqb_eq in E. subst x. rewrite c_rm_cons_same.
    pose proof (c_rm_length_le k r). cbn [List.length]. lia.
  - destruct Hin as [Hin|Hin].
    + subst x. rewrite key_eqb_refl in E. discriminate E.
    + unfold c_rm in *. cbn [filter]. rewrite E. cbn [negb List.length]. specialize (IH Hin). lia.
Qed.

Lemma c_get_some k ks ks' : c_get k ks = Some ks' -> In k ks /\ ks' = k :: c_rm k ks.
Proof.
  unfold c_get. destruct (c_has k ks) eqn:E; intros H; inversion H.
  split; auto. apply c_has_In. exact E.
Qed.

Lemma c_get_hit k ks : In k ks -> c_get k ks = Some (k :: c_rm k ks).
Proof. intros H. unfold c_get. rewrite (proj2 (c_has_In k ks) H). reflexivity. Qed.

Lemma c_get_miss k ks : ~ In k ks -> c_get k ks = None.
Proof. intros H. unfold c_get. rewrite (proj2 (c_has_false k ks) H). reflexivity. Qed.

Lemma c_get_none k ks : c_get k ks = None -> ~ In k ks.
Proof.
  unfold c_get. destruct (c_has k ks) eqn:E; intros H; try discriminate H.
  apply c_has_false. exact E.
Qed.

(* a Get that hit hits again and changes nothing more *)
Lemma c_get_again k ks ks' : c_get k ks = Some ks' -> c_get k ks' = Some ks'.
Proof.
  intros H. destruct (c_get_some _ _ _ H) as [_ E]. subst ks'.
  rewrite c_get_hit by (left; reflexivity). rewrite c_rm_cons_same, c_rm_idem. reflexivity.
Qed.

Lemma In_touch x k ks : In k ks -> (In x (k :: c_rm k ks) <-> In x ks).
Proof.
  intros Hk. cbn [In]. rewrite In_c_rm. split.
  - intros [E|[H _]]; subst; auto.
  - intros H. destruct (key_eq_dec x k) as [E|E]; auto.
Qed.

Lemma touch_length k ks : In k ks -> List.length (k :: c_rm k ks) <= List.length ks.
Proof. intros H. cbn [List.length]. apply c_rm_length_lt. exact H. Qed.

Lemma drop_last_cons2 x y r : drop_last (x :: y :: r) = x :: drop_last (y :: r).
Proof. reflexivity. Qed.

Lemma In_drop_last x ks : In x (drop_last ks) -> In x ks.
Proof.
  induction ks as [|y r IH]; intros H; [destruct H|].
  destruct r as [|z r'].
  - destruct H.
  - rewrite drop_last_cons2 in H. destruct H as [H|H]; [left; exact H|right; apply IH; exact H].
Qed.

Lemma In_c_add x cap k ks : In x (c_add cap k ks) -> x = k \/ In x ks.
Proof.
  unfold c_add. destruct (c_has k ks) eqn:Eh.
  - intros [H|H]; [left; auto|]. apply In_c_rm in H. right. tauto.
  - destruct (Nat.ltb cap (S (List.length ks))).
    + intros H. apply In_drop_last in H. destruct H as [H|H]; auto.
    + intros [H|H]; auto.
Qed.

(* with room for one more key nothing is pushed out *)
Lemma c_add_room x cap k ks :
  S (List.length ks) <= cap -> (In x (c_add cap k ks) <-> x = k \/ In x ks).
Proof.
  intros Hroom. unfold c_add. destruct (c_has k ks) eqn:Eh.
  - apply c_has_In in Eh. rewrite (In_touch x k ks Eh). split; auto.
    intros [E|H]; subst; auto.
  - destruct (Nat.ltb_spec cap (S (List.length ks))) as [Hlt|Hge]; [lia|].
    cbn [In]. split; intros [H|H]; auto.
Qed.

Lemma c_add_room_length cap k ks :
  S (List.length ks) <= cap -> List.length (c_add cap k ks) <= S (List.length ks).
Proof.
  intros Hroom. unfold c_add. destruct (c_has k ks) eqn:Eh.
  - apply c_has_In in Eh. pose proof (touch_length k ks Eh). lia.
  - destruct (Nat.ltb_spec cap (S (List.length ks))) as [Hlt|Hge]; [lia|]. cbn [List.length]. lia.
Qed.

(* ------------------------------------------------------------------ *)
(* the store calls                                                     *)

Lemma s_lookup_some ls ok f fl ls1 :
  s_lookup ls ok = Some (f, fl, ls1) ->
  exists k, ok = Some k /\ key_flow k = f /\ In k (ls_keys ls) /\
    nth_error (ls_flows ls) (N.to_nat f) = Some fl /\
    ls1 = mkL (ls_flows ls) (k :: c_rm k (ls_keys ls)).
Proof.
  unfold s_lookup. destruct ok as [k|]; try discriminate.
  destruct (c_get k (ls_keys ls)) as [ks'|] eqn:Hg; try discriminate.
  destruct (nth_error (ls_flows ls) (N.to_nat (key_flow k))) as [fl0|] eqn:Hn; try discriminate.
  intros H. inversion H. subst f fl0 ls1. destruct (c_get_some _ _ _ Hg) as [Hin E]. subst ks'.
  exists k. auto.
Qed.

Lemma s_lookup_hit ls k fl :
  In k (ls_keys ls) -> nth_error (ls_flows ls) (N.to_nat (key_flow k)) = Some fl ->
  s_lookup ls (Some k) = Some (key_flow k, fl, mkL (ls_flows ls) (k :: c_rm k (ls_keys ls))).
Proof. intros Hin Hn. unfold s_lookup. rewrite (c_get_hit _ _ Hin), Hn. reflexivity. Qed.

Lemma s_lookup_miss ls k : ~ In k (ls_keys ls) -> s_lookup ls (Some k) = None.
Proof. intros H. unfold s_lookup. rewrite (c_get_miss _ _ H). reflexivity. Qed.

(* Within one handler the second store call finds what the first one found: the branches
   "500 from the poll handler" and "Update fails after Get succeeded" are dead sequentially. *)
Lemma lookup_again ls ok f fl ls1 :
  s_lookup ls ok = Some (f, fl, ls1) -> s_lookup ls1 ok = Some (f, fl, ls1).
Proof.
  intros H. destruct (s_lookup_some _ _ _ _ _ H) as [k [Hok [Hf [Hin [Hn E]]]]]. subst ok ls1 f.
  unfold s_lookup. cbn [ls_keys ls_flows].
  rewrite (c_get_again k (ls_keys ls) (k :: c_rm k (ls_keys ls)) (c_get_hit _ _ Hin)), Hn.
  reflexivity.
Qed.

Lemma set_nth_id n (st : store) fl : nth_error st n = Some fl -> set_nth n st fl = st.
Proof.
  revert st. induction n as [|n IH]; intros [|x r] H; cbn [set_nth]; try discriminate H; auto.
  - cbn [nth_error] in H. inversion H. reflexivity.
  - cbn [nth_error] in H. rewrite (IH r H). reflexivity.
Qed.

Lemma put_id st f fl : nth_error st (N.to_nat f) = Some fl -> put st f fl = st.
Proof. apply set_nth_id. Qed.

(* ------------------------------------------------------------------ *)
(* normal forms of the two step functions                              *)

Definition is_init (a : action) : bool := match a with AInit _ _ => true | _ => false end.

(* the cache key named by the secret of an action at the endpoint the action uses *)
Definition akey (a : action) : option key :=
  match a with
  | AInit _ _ => None
  | APoll s | AApprovePoll s _ | AAbortPoll s _ => pkey s
  | AUserVisit s _ | AApproveUser s _ | AAbortUser s _ => ukey s
  end.

(* the answer when the key is not there *)
Definition refused (a : action) : obs :=
  match a with
  | APoll _ | AUserVisit _ _ => ONotFound false
  | _ => OCall false
  end.

(* what an action does to the record it found: new record, "both keys are removed", answer *)
Definition eff (a : action) (fl : flow) : flow * bool * obs :=
  let tk := fl_ticket fl in
  match a with
  | AInit _ _ => (fl, false, ONotReady)
  | APoll _ =>
    match fl_resp fl with
    | None => (fl, false, ONotReady)
    | Some (status, b) => (mkFlow tk (fl_resp fl) false, true, OBody status b false)
    end
  | AUserVisit _ (DApprove cavs) => (mkFlow tk (Some (200%N, BDischarge tk cavs)) true, false, OVisited true true)
  | AUserVisit _ (DAbort msg) => (mkFlow tk (Some (200%N, BError msg)) true, false, OVisited true true)
  | AUserVisit _ DNone => (fl, false, OVisited true true)
  | AApprovePoll _ cavs | AApproveUser _ cavs =>
    (mkFlow tk (Some (200%N, BDischarge tk cavs)) true, false, OCall true)
  | AAbortPoll _ msg | AAbortUser _ msg => (mkFlow tk (Some (200%N, BError msg)) true, false, OCall true)
  end.

Definition after_hit (ls : lstore) (a : action) (f : N) (fl : flow) (ls1 : lstore) : lstore * obs :=
  match eff a fl with
  | (fl', del, o) =>
    (mkL (put (ls_flows ls) f fl')
         (if del then c_rm (KUser f) (c_rm (KPoll f) (ls_keys ls1)) else ls_keys ls1), o)
  end.

Lemma h_decide_nf ls ok mk :
  h_decide ls ok mk =
  match s_lookup ls ok with
  | None => (ls, false)
  | Some (f, fl, ls1) =>
    (mkL (put (ls_flows ls) f (mkFlow (fl_ticket fl) (Some (200%N, mk (fl_ticket fl))) true)) (ls_keys ls1), true)
  end.
Proof.
  unfold h_decide. destruct (s_lookup ls ok) as [[[f fl] ls1]|] eqn:Hl; auto.
  unfold s_update. rewrite (lookup_again _ _ _ _ _ Hl).
  destruct (s_lookup_some _ _ _ _ _ Hl) as [k [_ [_ [_ [_ E]]]]]. subst ls1. reflexivity.
Qed.

Lemma step_lru_nf cap ls a :
  is_init a = false ->
  step_lru cap ls a =
  match s_lookup ls (akey a) with
  | None => (ls, refused a)
  | Some (f, fl, ls1) => after_hit ls a f fl ls1
  end.
Proof.
  intros Hi. unfold after_hit.
  destruct a as [t m|s|s d|s cavs|s msg|s cavs|s msg]; try discriminate Hi;
    cbn [step_lru akey refused eff].
  - (* poll *)
    unfold h_poll. destruct (s_lookup ls (pkey s)) as [[[f fl] ls1]|] eqn:Hl; auto.
    destruct (s_lookup_some _ _ _ _ _ Hl) as [k [_ [_ [_ [Hn E]]]]].
    destruct (fl_resp fl) as [[status b]|] eqn:Hr.
    + unfold s_delete. rewrite (lookup_again _ _ _ _ _ Hl). subst ls1. cbn [ls_flows ls_keys]. rewrite Hr. reflexivity.
    + rewrite (put_id _ _ _ Hn). subst ls1. reflexivity.
  - (* user page *)
    unfold h_visit. destruct (s_lookup ls (ukey s)) as [[[f fl] ls1]|] eqn:Hl; auto.
    destruct (s_lookup_some _ _ _ _ _ Hl) as [k [_ [_ [_ [Hn E]]]]].
    destruct d as [cavs|msg|].
    + rewrite h_decide_nf, (lookup_again _ _ _ _ _ Hl). subst ls1. reflexivity.
    + rewrite h_decide_nf, (lookup_again _ _ _ _ _ Hl). subst ls1. reflexivity.
    + rewrite (put_id _ _ _ Hn). subst ls1. reflexivity.
  - rewrite h_decide_nf. destruct (s_lookup ls (pkey s)) as [[[f fl] ls1]|]; reflexivity.
  - rewrite h_decide_nf. destruct (s_lookup ls (pkey s)) as [[[f fl] ls1]|]; reflexivity.
  - rewrite h_decide_nf. destruct (s_lookup ls (ukey s)) as [[[f fl] ls1]|]; reflexivity.
  - rewrite h_decide_nf. destruct (s_lookup ls (ukey s)) as [[[f fl] ls1]|]; reflexivity.
Qed.

(* the unbounded model in the same shape: its lookup reads the ghost flag *)
Definition u_lookup (st : store) (ok : option key) : option (N * flow) :=
  match ok with
  | None => None
  | Some k => option_map (fun fl => (key_flow k, fl)) (get st (key_flow k))
  end.

Lemma step_nf st a :
  is_init a = false ->
  step st a =
  match u_lookup st (akey a) with
  | None => (st, refused a)
  | Some (f, fl) => match eff a fl with (fl', _, o) => (put st f fl', o) end
  end.
Proof.
  intros Hi.
  destruct a as [t m|s|s d|s cavs|s msg|s cavs|s msg]; try discriminate Hi;
    cbn [step akey refused eff]; destruct s as [g|g|]; cbn [by_poll by_user pkey ukey u_lookup key_flow];
    try reflexivity; destruct (get st g) as [fl|] eqn:Hg; cbn [option_map]; try reflexivity.
  - destruct (fl_resp fl) as [[status b]|] eqn:Hr; auto.
    rewrite (put_id st g fl); auto. apply (get_some _ _ _ Hg).
  - destruct d as [cavs|msg|]; try reflexivity.
    rewrite (put_id st g fl); auto. apply (get_some _ _ _ Hg).
Qed.

(* ------------------------------------------------------------------ *)
(* init actions                                                        *)

(* the ticket of the flow an action creates *)
Definition creates (a : action) : option N :=
  match a with
  | AInit (TValid i) MPoll | AInit (TValid i) MUser => Some i
  | _ => None
  end.

Lemma step_lru_init cap ls a :
  is_init a = true ->
  step_lru cap ls a =
    (match creates a with Some i => snd (s_insert cap ls i) | None => ls end,
     snd (step (ls_flows ls) a)) /\
  fst (step (ls_flows ls) a) =
    match creates a with Some i => ls_flows ls ++ [mkFlow i None true] | None => ls_flows ls end.
Proof.
  destruct a as [t m|s|s d|s cavs|s msg|s cavs|s msg]; try discriminate.
  intros _. destruct t; try (split; reflexivity). destruct m; split; reflexivity.
Qed.

Lemma creates_init a i : creates a = Some i -> is_init a = true.
Proof. destruct a; try discriminate. reflexivity. Qed.

Lemma creates_creation st a i :
  creates a = Some i -> creation a (snd (step st a)) (N.of_nat (List.length st)) i.
Proof.
  unfold creation. destruct a as [t m|s|s d|s cavs|s msg|s cavs|s msg]; try discriminate.
  destruct t; try discriminate. destruct m; try discriminate; intros H; inversion H; subst; cbn [step snd]; auto.
Qed.

(* ------------------------------------------------------------------ *)
(* the invariant: a key in the cache points at an existing, uncollected record *)

Definition wf (ls : lstore) : Prop :=
  forall k, In k (ls_keys ls) ->
    exists fl, nth_error (ls_flows ls) (N.to_nat (key_flow k)) = Some fl /\ fl_alive fl = true.

Lemma wf_empty : wf lempty.
Proof. intros k H. destruct H. Qed.

Lemma eff_alive a fl fl' o : eff a fl = (fl', false, o) -> fl_alive fl = true -> fl_alive fl' = true.
Proof.
  intros He Ha.
  destruct a as [t m|s|s d|s cavs|s msg|s cavs|s msg]; cbn [eff] in He.
  - inversion He. subst. exact Ha.
  - destruct (fl_resp fl) as [[status b]|]; inversion He. subst. exact Ha.
  - destruct d; inversion He; subst; auto.
  - inversion He. reflexivity.
  - inversion He. reflexivity.
  - inversion He. reflexivity.
  - inversion He. reflexivity.
Qed.

Lemma eff_del a fl fl' o : eff a fl = (fl', true, o) -> fl_alive fl' = false.
Proof.
  intros He.
  destruct a as [t m|s|s d|s cavs|s msg|s cavs|s msg]; cbn [eff] in He; try discriminate He.
  - destruct (fl_resp fl) as [[status b]|]; inversion He. reflexivity.
  - destruct d; discriminate He.
Qed.

(* membership in the key list after a hit *)
Lemma after_hit_keys ls a f fl k x :
  In k (ls_keys ls) ->
  In x (ls_keys (fst (after_hit ls a f fl (mkL (ls_flows ls) (k :: c_rm k (ls_keys ls)))))) ->
  In x (ls_keys ls) /\
  (snd (fst (eff a fl)) = true -> x <> KPoll f /\ x <> KUser f).
Proof.
  intros Hk. unfold after_hit. destruct (eff a fl) as [[fl' del] o]. cbn [fst snd ls_keys].
  destruct del.
  - intros H. apply In_c_rm in H. destruct H as [H Hu]. apply In_c_rm in H. destruct H as [H Hp].
    apply (In_touch x k _ Hk) in H. auto.
  - intros H. apply (In_touch x k _ Hk) in H. split; auto. intros E. discriminate E.
Qed.

Lemma key_flow_neq x f : x <> KPoll f -> x <> KUser f -> key_flow x <> f.
Proof. intros Hp Hu E. destruct (key_cases x) as [H|H]; rewrite E in H; contradiction. Qed.

Lemma wf_step cap ls a : wf ls -> wf (fst (step_lru cap ls a)).
Proof.
  intros Hwf. destruct (is_init a) eqn:Hi.
  - destruct (step_lru_init cap ls a Hi) as [Hs _]. rewrite Hs. cbn [fst].
    destruct (creates a) as [i|]; auto.
    intros x Hx. cbn [s_insert snd ls_keys ls_flows] in *.
    apply In_c_add in Hx. destruct Hx as [Hx|Hx].
    { subst x. cbn [key_flow]. rewrite Nat2N.id. eexists. split; [apply nth_app_last|reflexivity]. }
    apply In_c_add in Hx. destruct Hx as [Hx|Hx].
    { subst x. cbn [key_flow]. rewrite Nat2N.id. eexists. split; [apply nth_app_last|reflexivity]. }
    destruct (Hwf x Hx) as [fl [Hn Ha]]. exists fl. split; auto. apply nth_app_some. exact Hn.
  - rewrite (step_lru_nf cap ls a Hi).
    destruct (s_lookup ls (akey a)) as [[[f fl] ls1]|] eqn:Hl; [|exact Hwf].
    destruct (s_lookup_some _ _ _ _ _ Hl) as [k [Hok [Hf [Hin [Hn E]]]]]. subst ls1.
    intros x Hx. destruct (after_hit_keys ls a f fl k x Hin Hx) as [Hxin Hdel].
    unfold after_hit in *. destruct (eff a fl) as [[fl' del] o] eqn:He. cbn [fst snd ls_flows] in *.
    destruct (Hwf x Hxin) as [flx [Hnx Hax]].
    destruct (N.eq_dec (key_flow x) f) as [Ef|Ef].
    + rewrite Ef. destruct del.
      * destruct (Hdel eq_refl) as [Hp Hu]. exfalso. exact (key_flow_neq x f Hp Hu Ef).
      * exists fl'. split. { eapply nth_put_same; eauto. }
        apply (eff_alive a fl fl' o He). rewrite Ef in Hnx. congruence.
    + exists flx. split; auto. rewrite nth_put_other; auto.
Qed.

Lemma run_lru_cons cap ls a r :
  run_lru cap ls (a :: r) = snd (step_lru cap ls a) :: run_lru cap (fst (step_lru cap ls a)) r.
Proof. cbn [run_lru]. destruct (step_lru cap ls a). reflexivity. Qed.

Lemma wf_final cap ls l : wf ls -> wf (final_lru cap ls l).
Proof.
  revert ls. induction l as [|a r IH]; intros ls H; cbn [final_lru]; auto.
  apply IH. apply wf_step. exact H.
Qed.

(* ------------------------------------------------------------------ *)
(* eviction only takes answers away: every run of the bounded service is a run of the
   unbounded one in which the secrets whose key is gone are replaced by guesses *)

Definition guess_of (a : action) : action :=
  match a with
  | AInit t m => AInit t m
  | APoll _ => APoll SGuess
  | AUserVisit _ d => AUserVisit SGuess d
  | AApprovePoll _ cavs => AApprovePoll SGuess cavs
  | AAbortPoll _ msg => AAbortPoll SGuess msg
  | AApproveUser _ cavs => AApproveUser SGuess cavs
  | AAbortUser _ msg => AAbortUser SGuess msg
  end.

Definition erase1 (ls : lstore) (a : action) : action :=
  if is_init a then a
  else match s_lookup ls (akey a) with Some _ => a | None => guess_of a end.

Fixpoint erase (cap : nat) (ls : lstore) (l : list action) : list action :=
  match l with
  | [] => []
  | a :: r => erase1 ls a :: erase cap (fst (step_lru cap ls a)) r
  end.

Lemma step_guess st a : is_init a = false -> step st (guess_of a) = (st, refused a).
Proof. destruct a; try discriminate; reflexivity. Qed.

Lemma u_lookup_of_hit ls ok f fl ls1 :
  wf ls -> s_lookup ls ok = Some (f, fl, ls1) -> u_lookup (ls_flows ls) ok = Some (f, fl).
Proof.
  intros Hwf Hl. destruct (s_lookup_some _ _ _ _ _ Hl) as [k [Hok [Hf [Hin [Hn _]]]]]. subst ok f.
  destruct (Hwf k Hin) as [fl0 [Hn0 Ha]]. rewrite Hn in Hn0. inversion Hn0. subst fl0.
  cbn [u_lookup]. rewrite (get_of_nth _ _ _ Hn), Ha. reflexivity.
Qed.

Lemma sim_step cap ls a :
  wf ls ->
  ls_flows (fst (step_lru cap ls a)) = fst (step (ls_flows ls) (erase1 ls a)) /\
  snd (step_lru cap ls a) = snd (step (ls_flows ls) (erase1 ls a)).
Proof.
  intros Hwf. unfold erase1. destruct (is_init a) eqn:Hi.
  - destruct (step_lru_init cap ls a Hi) as [Hs Hf]. rewrite Hs, Hf. cbn [fst snd].
    destruct (creates a); auto.
  - rewrite (step_lru_nf cap ls a Hi).
    destruct (s_lookup ls (akey a)) as [[[f fl] ls1]|] eqn:Hl.
    + rewrite (step_nf _ a Hi), (u_lookup_of_hit _ _ _ _ _ Hwf Hl). unfold after_hit.
      destruct (eff a fl) as [[fl' del] o]. auto.
    + rewrite (step_guess _ a Hi). auto.
Qed.

Theorem run_lru_erase cap ls l :
  wf ls -> run_lru cap ls l = run (ls_flows ls) (erase cap ls l).
Proof.
  revert ls. induction l as [|a r IH]; intros ls Hwf; auto.
  cbn [erase]. rewrite run_lru_cons, run_cons.
  destruct (sim_step cap ls a Hwf) as [Hf Ho]. rewrite Ho, <- Hf.
  rewrite (IH _ (wf_step cap ls a Hwf)). reflexivity.
Qed.

Lemma final_lru_erase cap ls l :
  wf ls -> ls_flows (final_lru cap ls l) = final (ls_flows ls) (erase cap ls l).
Proof.
  revert ls. induction l as [|a r IH]; intros ls Hwf; auto.
  cbn [erase final_lru final]. destruct (sim_step cap ls a Hwf) as [Hf _]. rewrite <- Hf.
  apply IH. apply wf_step. exact Hwf.
Qed.

Lemma erase_nth cap ls l j a :
  nth_error l j = Some a ->
  nth_error (erase cap ls l) j = Some (erase1 (final_lru cap ls (firstn j l)) a).
Proof.
  revert ls j. induction l as [|x r IH]; intros ls [|j] H; try discriminate H.
  - cbn [nth_error] in H. inversion H. reflexivity.
  - cbn [erase nth_error firstn final_lru]. apply IH. exact H.
Qed.

Lemma erase_length cap ls l : List.length (erase cap ls l) = List.length l.
Proof. revert ls. induction l as [|a r IH]; intros ls; cbn [erase List.length]; auto. Qed.

Lemma erase1_cases ls a : erase1 ls a = a \/ (is_init a = false /\ erase1 ls a = guess_of a /\ s_lookup ls (akey a) = None).
Proof.
  unfold erase1. destruct (is_init a); auto. destruct (s_lookup ls (akey a)); auto.
Qed.

(* ------------------------------------------------------------------ *)
(* refinement: with room for two keys per created flow nothing is ever evicted *)

Definition full (ls : lstore) : Prop :=
  forall f fl, nth_error (ls_flows ls) (N.to_nat f) = Some fl -> fl_alive fl = true ->
    In (KPoll f) (ls_keys ls) /\ In (KUser f) (ls_keys ls).

Definition ncr (a : action) : nat := match creates a with Some _ => 1 | None => 0 end.

Fixpoint n_creating (l : list action) : nat :=
  match l with [] => 0 | a :: r => ncr a + n_creating r end.

Fixpoint n_init (l : list action) : nat :=
  match l with [] => 0 | a :: r => (if is_init a then 1 else 0) + n_init r end.

Lemma n_creating_le_init l : n_creating l <= n_init l.
Proof.
  induction l as [|a r IH]; cbn [n_creating n_init]; auto.
  assert (ncr a <= if is_init a then 1 else 0).
  { unfold ncr. destruct (creates a) as [i|] eqn:E; [rewrite (creates_init a i E); auto|lia]. }
  lia.
Qed.

Lemma step_erase_full ls a : wf ls -> full ls -> step (ls_flows ls) (erase1 ls a) = step (ls_flows ls) a.
Proof.
  intros Hwf Hfull. destruct (erase1_cases ls a) as [E|[Hi [E Hl]]]; rewrite E; auto.
  rewrite (step_guess _ a Hi), (step_nf _ a Hi).
  destruct (akey a) as [k|] eqn:Hk; auto. cbn [u_lookup].
  destruct (get (ls_flows ls) (key_flow k)) as [fl|] eqn:Hg; auto. exfalso.
  destruct (get_some _ _ _ Hg) as [Hn Ha]. destruct (Hfull _ _ Hn Ha) as [Hp Hu].
  assert (Hin : In k (ls_keys ls)). { destruct (key_cases k) as [Ek|Ek]; rewrite Ek; auto. }
  rewrite (s_lookup_hit ls k fl Hin Hn) in Hl. discriminate Hl.
Qed.

Lemma full_step cap ls a :
  wf ls -> full ls -> List.length (ls_keys ls) + 2 * ncr a <= cap ->
  full (fst (step_lru cap ls a)) /\
  List.length (ls_keys (fst (step_lru cap ls a))) <= List.length (ls_keys ls) + 2 * ncr a.
Proof.
  intros Hwf Hfull Hroom. destruct (is_init a) eqn:Hi.
  - destruct (step_lru_init cap ls a Hi) as [Hs _]. rewrite Hs. cbn [fst]. unfold ncr in *.
    destruct (creates a) as [i|]; [|split; [exact Hfull|lia]].
    cbn [s_insert snd ls_keys ls_flows].
    set (n := N.of_nat (List.length (ls_flows ls))).
    assert (H1 : S (List.length (ls_keys ls)) <= cap) by lia.
    pose proof (c_add_room_length cap (KUser n) (ls_keys ls) H1) as L1.
    assert (H2 : S (List.length (c_add cap (KUser n) (ls_keys ls))) <= cap) by lia.
    pose proof (c_add_room_length cap (KPoll n) _ H2) as L2.
    split; [|lia].
    intros f fl Hn Ha.
    assert (Hmem : forall x, In x (c_add cap (KPoll n) (c_add cap (KUser n) (ls_keys ls))) <->
                             x = KPoll n \/ x = KUser n \/ In x (ls_keys ls)).
    { intros x. rewrite (c_add_room x cap (KPoll n) _ H2), (c_add_room x cap (KUser n) _ H1). tauto. }
    rewrite !Hmem.
    destruct (nth_snoc_cases _ _ _ _ Hn) as [[_ Hold]|[Hlast _]].
    + destruct (Hfull f fl Hold Ha). auto.
    + assert (Ef : f = n). { unfold n. rewrite <- Hlast. symmetry. apply N2Nat.id. }
      subst f. auto.
  - unfold ncr in *. assert (Hc : creates a = None) by (destruct a; try discriminate Hi; reflexivity).
    rewrite Hc in *. cbn beta iota in Hroom |- *. rewrite (step_lru_nf cap ls a Hi).
    destruct (s_lookup ls (akey a)) as [[[f fl] ls1]|] eqn:Hl; [|split; [exact Hfull|]].
    2:{ cbn [fst]. lia. }
    destruct (s_lookup_some _ _ _ _ _ Hl) as [k [Hok [Hf [Hin [Hn E]]]]]. subst ls1.
    destruct (Hwf k Hin) as [fl0 [Hn0 Ha0]]. rewrite Hf, Hn in Hn0. inversion Hn0. subst fl0.
    pose proof (touch_length k _ Hin) as Lt.
    unfold after_hit. destruct (eff a fl) as [[fl' del] o] eqn:He. cbn [fst ls_keys ls_flows].
    split.
    + intros g flg Hng Hag. cbn [ls_flows ls_keys] in Hng |- *.
      assert (Hold : In (KPoll g) (ls_keys ls) /\ In (KUser g) (ls_keys ls) /\ (del = true -> g <> f)).
      { destruct (N.eq_dec g f) as [Eg|Eg].
        - subst g. rewrite (nth_put_same _ _ _ _ Hn) in Hng. inversion Hng. subst flg.
          destruct (Hfull f fl Hn Ha0). split; auto. split; auto.
          intros Ed. subst del. rewrite (eff_del _ _ _ _ He) in Hag. discriminate Hag.
        - rewrite nth_put_other in Hng by auto. destruct (Hfull g flg Hng Hag). auto. }
      destruct Hold as [Hp [Hu Hne]].
      destruct del.
      * specialize (Hne eq_refl). rewrite !In_c_rm, !(In_touch _ k _ Hin).
        repeat split; auto; intros Ex; inversion Ex; contradiction.
      * rewrite !(In_touch _ k _ Hin). auto.
    + destruct del.
      * pose proof (c_rm_length_le (KUser f) (c_rm (KPoll f) (k :: c_rm k (ls_keys ls)))).
        pose proof (c_rm_length_le (KPoll f) (k :: c_rm k (ls_keys ls))). lia.
      * lia.
Qed.

Lemma run_lru_big_cap_gen cap l : forall ls,
  wf ls -> full ls -> List.length (ls_keys ls) + 2 * n_creating l <= cap ->
  run_lru cap ls l = run (ls_flows ls) l.
Proof.
  induction l as [|a r IH]; intros ls Hwf Hfull Hroom; auto.
  cbn [n_creating] in Hroom. rewrite run_lru_cons, run_cons.
  destruct (sim_step cap ls a Hwf) as [Hf Ho].
  rewrite (step_erase_full ls a Hwf Hfull) in Hf, Ho.
  destruct (full_step cap ls a Hwf Hfull) as [Hfull' Hlen]; [lia|].
  rewrite Ho, <- Hf. rewrite IH; auto.
  - apply wf_step. exact Hwf.
  - lia.
Qed.

(* REFINEMENT.  A store with room for two keys per flow that the run creates (an init with a
   ticket that opens, answered in poll or user-interactive mode) behaves exactly like the
   unbounded store of Model/TPServer.v. *)
Theorem run_lru_big_cap_l cap l :
  2 * n_creating l <= cap -> run_lru cap lempty l = run [] l.
Proof.
  intros H. apply (run_lru_big_cap_gen cap l lempty wf_empty).
  - intros f fl Hn. destruct (N.to_nat f); discriminate Hn.
  - cbn [lempty ls_keys List.length]. lia.
Qed.

Corollary run_lru_big_cap_inits cap l :
  2 * n_init l <= cap -> run_lru cap lempty l = run [] l.
Proof. intros H. apply run_lru_big_cap_l. pose proof (n_creating_le_init l). lia. Qed.

(* ------------------------------------------------------------------ *)
(* the cache never holds more keys than its capacity                   *)

Lemma drop_last_length x r : List.length (drop_last (x :: r)) = List.length r.
Proof.
  revert x. induction r as [|y r IH]; intros x; auto.
  rewrite drop_last_cons2. cbn [List.length]. rewrite IH. reflexivity.
Qed.

Lemma c_add_bounded cap k ks : List.length ks <= cap -> List.length (c_add cap k ks) <= cap.
Proof.
  intros H. unfold c_add. destruct (c_has k ks) eqn:Eh.
  - apply c_has_In in Eh. pose proof (touch_length k ks Eh). lia.
  - destruct (Nat.ltb_spec cap (S (List.length ks))) as [Hlt|Hge].
    + rewrite drop_last_length. exact H.
    + cbn [List.length]. lia.
Qed.

Lemma keys_bounded_step cap ls a :
  List.length (ls_keys ls) <= cap -> List.length (ls_keys (fst (step_lru cap ls a))) <= cap.
Proof.
  intros H. destruct (is_init a) eqn:Hi.
  - destruct (step_lru_init cap ls a Hi) as [Hs _]. rewrite Hs. cbn [fst].
    destruct (creates a); auto. cbn [s_insert snd ls_keys]. apply c_add_bounded, c_add_bounded, H.
  - rewrite (step_lru_nf cap ls a Hi).
    destruct (s_lookup ls (akey a)) as [[[f fl] ls1]|] eqn:Hl; auto.
    destruct (s_lookup_some _ _ _ _ _ Hl) as [k [_ [_ [Hin [_ E]]]]]. subst ls1.
    pose proof (touch_length k _ Hin) as Lt. unfold after_hit.
    destruct (eff a fl) as [[fl' del] o]. cbn [fst ls_keys]. destruct del; [|lia].
    pose proof (c_rm_length_le (KUser f) (c_rm (KPoll f) (k :: c_rm k (ls_keys ls)))).
    pose proof (c_rm_length_le (KPoll f) (k :: c_rm k (ls_keys ls))). lia.
Qed.

Lemma keys_bounded cap l : List.length (ls_keys (final_lru cap lempty l)) <= cap.
Proof.
  assert (G : forall ls, List.length (ls_keys ls) <= cap ->
                         List.length (ls_keys (final_lru cap ls l)) <= cap).
  { induction l as [|a r IH]; intros ls H; cbn [final_lru]; auto.
    apply IH. apply keys_bounded_step. exact H. }
  apply G. cbn [lempty ls_keys List.length]. lia.
Qed.

(* ------------------------------------------------------------------ *)
(* positions of a run                                                  *)

Lemma run_lru_nth cap ls l n a :
  nth_error l n = Some a ->
  nth_error (run_lru cap ls l) n = Some (snd (step_lru cap (final_lru cap ls (firstn n l)) a)).
Proof.
  revert ls n. induction l as [|x r IH]; intros ls [|n] H; try discriminate H.
  - cbn [nth_error] in H. inversion H. subst. rewrite run_lru_cons. reflexivity.
  - rewrite run_lru_cons. cbn [nth_error firstn final_lru]. apply IH. exact H.
Qed.

Lemma run_lru_length cap ls l : List.length (run_lru cap ls l) = List.length l.
Proof.
  revert ls. induction l as [|a r IH]; intros ls; auto. rewrite run_lru_cons. cbn [List.length]. auto.
Qed.

Lemma final_firstn_S cap ls l j :
  final_lru cap ls (firstn (S j) l) =
  match nth_error l j with
  | Some a => fst (step_lru cap (final_lru cap ls (firstn j l)) a)
  | None => final_lru cap ls (firstn j l)
  end.
Proof.
  revert ls j. induction l as [|x r IH]; intros ls j.
  - destruct j; reflexivity.
  - destruct j as [|j].
    + reflexivity.
    + cbn [nth_error firstn final_lru]. apply IH.
Qed.

(* a property of the store kept by every step holds at all later positions *)
Lemma kept_later (P : lstore -> Prop) cap ls l i j :
  (forall s a, P s -> P (fst (step_lru cap s a))) ->
  P (final_lru cap ls (firstn i l)) -> i <= j -> P (final_lru cap ls (firstn j l)).
Proof.
  intros Hstep Hi Hle. induction Hle as [|j Hle IH]; auto.
  rewrite final_firstn_S. destruct (nth_error l j); auto.
Qed.

(* ------------------------------------------------------------------ *)
(* refusals                                                            *)

Definition secret_of (a : action) : option sref :=
  match a with
  | AInit _ _ => None
  | APoll s | AUserVisit s _ | AApprovePoll s _ | AAbortPoll s _ | AApproveUser s _ | AAbortUser s _ => Some s
  end.

(* the action presents one of the two secrets of flow [f], at either endpoint *)
Definition presents (a : action) (f : N) : Prop :=
  secret_of a = Some (SPoll f) \/ secret_of a = Some (SUser f).

Lemma presents_not_init a f : presents a f -> is_init a = false.
Proof. destruct a; auto. intros [H|H]; discriminate H. Qed.

Lemma presents_akey a f k : presents a f -> akey a = Some k -> k = KPoll f \/ k = KUser f.
Proof.
  destruct a as [t m|s|s d|s cavs|s msg|s cavs|s msg]; cbn [akey]; intros [H|H]; inversion H; subst s;
    cbn [pkey ukey]; intros E; inversion E; auto.
Qed.

Lemma targets_presents a f : targets a f -> presents a f.
Proof.
  unfold presents.
  destruct a as [t m|s|s d|s cavs|s msg|s cavs|s msg]; cbn [targets secret_of]; try contradiction;
    destruct s; try contradiction; intros E; subst; auto.
Qed.

(* no key, no answer: the action is refused and NOTHING changes (not even the recency order) *)
Lemma step_lru_refused cap ls a :
  is_init a = false -> (forall k, akey a = Some k -> ~ In k (ls_keys ls)) ->
  step_lru cap ls a = (ls, refused a).
Proof.
  intros Hi Hno. rewrite (step_lru_nf cap ls a Hi).
  destruct (akey a) as [k|]; [|reflexivity]. rewrite (s_lookup_miss ls k (Hno k eq_refl)). reflexivity.
Qed.

Lemma refused_not_accepted a : ~ accepted (refused a).
Proof. unfold accepted. destruct a; cbn [refused]; intros [H|H]; discriminate H. Qed.

Lemma refused_not_body a status b app : refused a <> OBody status b app.
Proof. destruct a; discriminate. Qed.

(* (d) a guessed secret, or a secret presented at the other endpoint, names no key at all *)
Definition names_no_key (a : action) : Prop := is_init a = false /\ akey a = None.

Definition poll_endpoint (a : action) : Prop :=
  match a with APoll _ | AApprovePoll _ _ | AAbortPoll _ _ => True | _ => False end.
Definition user_endpoint (a : action) : Prop :=
  match a with AUserVisit _ _ | AApproveUser _ _ | AAbortUser _ _ => True | _ => False end.

Lemma names_no_key_cases a :
  names_no_key a <->
  exists s, secret_of a = Some s /\
    (s = SGuess \/ (exists f, s = SUser f /\ poll_endpoint a) \/ (exists f, s = SPoll f /\ user_endpoint a)).
Proof.
  unfold names_no_key. split.
  - intros [Hi Hk]. destruct a as [t m|s|s d|s cavs|s msg|s cavs|s msg]; try discriminate Hi;
      exists s; (split; [reflexivity|]); destruct s as [g|g|]; try discriminate Hk; auto;
      right; [left|right|left|left|right|right]; exists g; cbn [poll_endpoint user_endpoint]; auto.
  - intros [s [Hs H]].
    destruct a as [t m|s0|s0 d|s0 cavs|s0 msg|s0 cavs|s0 msg]; inversion Hs; subst s0;
      destruct H as [H|[[f [E H]]|[f [E H]]]]; subst s; try contradiction; split; reflexivity.
Qed.

Theorem lru_guess_not_found_step cap ls a :
  names_no_key a -> step_lru cap ls a = (ls, refused a).
Proof.
  intros [Hi Hk]. apply step_lru_refused; auto. intros k E. rewrite Hk in E. discriminate E.
Qed.

Theorem lru_guess_not_found cap l n a :
  nth_error l n = Some a -> names_no_key a ->
  nth_error (run_lru cap lempty l) n = Some (refused a) /\
  final_lru cap lempty (firstn (S n) l) = final_lru cap lempty (firstn n l).
Proof.
  intros Hn Hg. rewrite (run_lru_nth cap lempty l n a Hn), final_firstn_S, Hn.
  rewrite (lru_guess_not_found_step cap _ a Hg). auto.
Qed.

(* a secret the store has not issued yet names no key either *)
Lemma unissued_no_key ls k : wf ls -> List.length (ls_flows ls) <= N.to_nat (key_flow k) -> ~ In k (ls_keys ls).
Proof.
  intros Hwf Hlen Hin. destruct (Hwf k Hin) as [fl [Hn _]]. apply nth_some_lt in Hn. lia.
Qed.

Theorem lru_unissued_not_found cap l n a f :
  nth_error l n = Some a -> presents a f ->
  List.length (ls_flows (final_lru cap lempty (firstn n l))) <= N.to_nat f ->
  nth_error (run_lru cap lempty l) n = Some (refused a).
Proof.
  intros Hn Hp Hlen. rewrite (run_lru_nth cap lempty l n a Hn).
  rewrite step_lru_refused; auto.
  - apply (presents_not_init a f Hp).
  - intros k Hk. apply unissued_no_key. { apply wf_final. apply wf_empty. }
    destruct (presents_akey a f k Hp Hk); subst k; exact Hlen.
Qed.

(* ------------------------------------------------------------------ *)
(* (c) once collected, gone for good                                   *)

Definition gone (f : N) (ls : lstore) : Prop :=
  ~ In (KPoll f) (ls_keys ls) /\ ~ In (KUser f) (ls_keys ls) /\ N.to_nat f < List.length (ls_flows ls).

Lemma step_lru_keys_sub cap ls a x :
  In x (ls_keys (fst (step_lru cap ls a))) ->
  In x (ls_keys ls) \/ key_flow x = N.of_nat (List.length (ls_flows ls)).
Proof.
  destruct (is_init a) eqn:Hi.
  - destruct (step_lru_init cap ls a Hi) as [Hs _]. rewrite Hs. cbn [fst].
    destruct (creates a); auto. cbn [s_insert snd ls_keys]. intros H.
    apply In_c_add in H. destruct H as [H|H]; [subst x; auto|].
    apply In_c_add in H. destruct H as [H|H]; [subst x; auto|auto].
  - rewrite (step_lru_nf cap ls a Hi).
    destruct (s_lookup ls (akey a)) as [[[f fl] ls1]|] eqn:Hl; auto.
    destruct (s_lookup_some _ _ _ _ _ Hl) as [k [_ [_ [Hin [_ E]]]]]. subst ls1.
    intros H. left. apply (after_hit_keys ls a f fl k x Hin H).
Qed.

Lemma step_lru_flows_len cap ls a :
  List.length (ls_flows ls) <= List.length (ls_flows (fst (step_lru cap ls a))).
Proof.
  destruct (is_init a) eqn:Hi.
  - destruct (step_lru_init cap ls a Hi) as [Hs _]. rewrite Hs. cbn [fst].
    destruct (creates a); auto. cbn [s_insert snd ls_flows]. rewrite app_length. lia.
  - rewrite (step_lru_nf cap ls a Hi).
    destruct (s_lookup ls (akey a)) as [[[f fl] ls1]|]; auto.
    unfold after_hit. destruct (eff a fl) as [[fl' del] o]. cbn [fst ls_flows]. rewrite length_put. auto.
Qed.

Lemma gone_step cap f ls a : gone f ls -> gone f (fst (step_lru cap ls a)).
Proof.
  intros [Hp [Hu Hlen]]. pose proof (step_lru_flows_len cap ls a) as Hmono.
  assert (Hne : f <> N.of_nat (List.length (ls_flows ls))).
  { intros E. rewrite E, Nat2N.id in Hlen. lia. }
  repeat split; try lia.
  - intros H. destruct (step_lru_keys_sub cap ls a _ H) as [H'|H']; auto.
  - intros H. destruct (step_lru_keys_sub cap ls a _ H) as [H'|H']; auto.
Qed.

Lemma gone_refused cap f ls a : gone f ls -> presents a f -> step_lru cap ls a = (ls, refused a).
Proof.
  intros [Hp [Hu _]] Hpr. apply step_lru_refused. { apply (presents_not_init a f Hpr). }
  intros k Hk. destruct (presents_akey a f k Hpr Hk); subst k; auto.
Qed.

(* only [APoll] answers with a stored body *)
Lemma eff_body a fl fl' del status b app :
  eff a fl = (fl', del, OBody status b app) ->
  (exists s, a = APoll s) /\ fl_resp fl = Some (status, b) /\ del = true /\ app = false.
Proof.
  destruct a as [t m|s|s d|s cavs|s msg|s cavs|s msg]; cbn [eff]; try discriminate.
  - destruct (fl_resp fl) as [[st0 b0]|]; intros H; inversion H. subst. eauto.
  - destruct d; discriminate.
Qed.

(* a poll that hands out a stored answer does so for the flow its secret names, from the record
   of that flow, and removes both keys *)
Lemma poll_delivers cap ls s status b app :
  snd (step_lru cap ls (APoll s)) = OBody status b app ->
  exists f fl, s = SPoll f /\ In (KPoll f) (ls_keys ls) /\
    nth_error (ls_flows ls) (N.to_nat f) = Some fl /\ fl_resp fl = Some (status, b) /\ app = false /\
    gone f (fst (step_lru cap ls (APoll s))).
Proof.
  rewrite (step_lru_nf cap ls (APoll s) eq_refl). cbn [akey].
  destruct (s_lookup ls (pkey s)) as [[[f fl] ls1]|] eqn:Hl; [|intros H; discriminate H].
  destruct (s_lookup_some _ _ _ _ _ Hl) as [k [Hok [Hf [Hin [Hn E]]]]]. subst ls1.
  destruct s as [g|g|]; try discriminate Hok. cbn [pkey] in Hok. inversion Hok. subst k.
  cbn [key_flow] in Hf. subst g.
  unfold after_hit. destruct (eff (APoll (SPoll f)) fl) as [[fl' del] o] eqn:He. cbn [fst snd].
  intros Ho. subst o. destruct (eff_body _ _ _ _ _ _ _ He) as [_ [Hr [Hd Happ]]]. subst del.
  exists f, fl. repeat split; auto; cbn [ls_keys ls_flows].
  - rewrite !In_c_rm. intros [[_ H] _]. apply H. reflexivity.
  - rewrite !In_c_rm. intros [_ H]. apply H. reflexivity.
  - rewrite length_put. eapply nth_some_lt; eauto.
Qed.

(* CLAUSE (c), with (b) inside: after a poll handed out a stored answer (discharge or error) of
   flow f, every later action presenting the poll secret or the user secret of f, at either
   endpoint, is refused (404 / failed call), for every capacity, whatever happens in between. *)
Theorem lru_collected_then_not_found cap l i s status b app :
  nth_error l i = Some (APoll s) ->
  nth_error (run_lru cap lempty l) i = Some (OBody status b app) ->
  exists f, s = SPoll f /\
    forall j a, i < j -> nth_error l j = Some a -> presents a f ->
      nth_error (run_lru cap lempty l) j = Some (refused a).
Proof.
  intros Hi Ho. rewrite (run_lru_nth cap lempty l i _ Hi) in Ho. inversion Ho as [Hobs]. clear Ho.
  destruct (poll_delivers cap _ s status b app Hobs) as [f [fl [Hs [_ [_ [_ [_ Hgone]]]]]]].
  exists f. split; auto. intros j a Hij Hj Hp.
  assert (Hg : gone f (final_lru cap lempty (firstn j l))).
  { apply (kept_later (gone f) cap lempty l (S i) j).
    - intros s0 a0. apply gone_step.
    - rewrite final_firstn_S, Hi. exact Hgone.
    - lia. }
  rewrite (run_lru_nth cap lempty l j a Hj), (gone_refused cap f _ a Hg Hp). reflexivity.
Qed.

(* CLAUSE (b): the stored answer of a flow is handed out at most once *)
Theorem lru_delivered_at_most_once cap l i j f s1 b1 app1 s2 b2 app2 :
  nth_error l i = Some (APoll (SPoll f)) -> nth_error l j = Some (APoll (SPoll f)) ->
  nth_error (run_lru cap lempty l) i = Some (OBody s1 b1 app1) ->
  nth_error (run_lru cap lempty l) j = Some (OBody s2 b2 app2) ->
  i = j.
Proof.
  assert (G : forall i j s1 b1 app1 s2 b2 app2, i < j ->
    nth_error l i = Some (APoll (SPoll f)) -> nth_error l j = Some (APoll (SPoll f)) ->
    nth_error (run_lru cap lempty l) i = Some (OBody s1 b1 app1) ->
    nth_error (run_lru cap lempty l) j = Some (OBody s2 b2 app2) -> False).
  { intros i0 j0 x1 y1 z1 x2 y2 z2 Hlt Hi Hj Hoi Hoj.
    destruct (lru_collected_then_not_found cap l i0 _ _ _ _ Hi Hoi) as [g [Hg Hlater]].
    inversion Hg. subst g.
    rewrite (Hlater j0 _ Hlt Hj (or_introl eq_refl)) in Hoj. discriminate Hoj. }
  intros Hi Hj Hoi Hoj. destruct (Nat.lt_total i j) as [H|[H|H]]; auto; exfalso; eauto.
Qed.

(* ------------------------------------------------------------------ *)
(* (a) no discharge without approval                                   *)

Lemma erase_nth_inv cap ls l j a' :
  nth_error (erase cap ls l) j = Some a' ->
  exists a, nth_error l j = Some a /\ a' = erase1 (final_lru cap ls (firstn j l)) a.
Proof.
  intros H. destruct (nth_error l j) as [a|] eqn:Hj.
  - rewrite (erase_nth cap ls l j a Hj) in H. inversion H. eauto.
  - apply nth_error_None in Hj. apply nth_some_lt in H. rewrite erase_length in H. lia.
Qed.

Lemma guess_no_decision a : decision_on (guess_of a) = None.
Proof. destruct a as [t m|s|s d|s cavs|s msg|s cavs|s msg]; reflexivity. Qed.

Lemma erase1_decision ls a f k : decision_on (erase1 ls a) = Some (f, k) -> erase1 ls a = a.
Proof.
  intros H. destruct (erase1_cases ls a) as [E|[_ [E _]]]; auto.
  rewrite E, guess_no_decision in H. discriminate H.
Qed.

Lemma erase1_init ls a t m : erase1 ls a = AInit t m -> a = AInit t m.
Proof.
  intros H. destruct (erase1_cases ls a) as [E|[Hi [E _]]]; [congruence|].
  rewrite E in H. destruct a; try discriminate Hi; discriminate H.
Qed.

Lemma erased_refused cap l j a :
  nth_error l j = Some a ->
  erase1 (final_lru cap lempty (firstn j l)) a <> a ->
  nth_error (run_lru cap lempty l) j = Some (refused a).
Proof.
  intros Hj Hne. destruct (erase1_cases (final_lru cap lempty (firstn j l)) a) as [E|[Hi [_ Hl]]];
    [contradiction|].
  rewrite (run_lru_nth cap lempty l j a Hj), (step_lru_nf cap _ a Hi), Hl. reflexivity.
Qed.

(* CLAUSE (a).  In a run of the service over a store of ANY capacity, if the poll at position n
   is answered with a discharge [BDischarge tk cavs], then
   - the secret is the poll secret of some flow f; the status is 200; the application did not run;
   - flow f was created at a position c by [AInit (TValid tk) MPoll] answered [OPollURL f] or
     [AInit (TValid tk) MUser] answered [OUserURL f];
   - at a position m, c < m < n, an approval of flow f through the matching secret with exactly
     the caveats cavs ([AApprovePoll (SPoll f) cavs], [AApproveUser (SUser f) cavs] or
     [AUserVisit (SUser f) (DApprove cavs)]) was ACCEPTED;
   - no decision addressed to f strictly between m and n was accepted.  (Under eviction a later
     decision can be refused while the flow is still collectable: its user key was pushed out,
     its poll key was not.  In the unbounded model there is no decision at all in between.) *)
Theorem lru_discharge_only_after_approval cap l n s status tk cavs app :
  nth_error l n = Some (APoll s) ->
  nth_error (run_lru cap lempty l) n = Some (OBody status (BDischarge tk cavs) app) ->
  exists f c m a o,
    s = SPoll f /\ c < m /\ m < n /\
    created_at l (run_lru cap lempty l) c f tk /\
    nth_error l m = Some a /\ nth_error (run_lru cap lempty l) m = Some o /\
    decides_with tk a f (BDischarge tk cavs) /\ accepted o /\
    (forall j a' o', m < j -> j < n -> nth_error l j = Some a' ->
       nth_error (run_lru cap lempty l) j = Some o' -> is_decision_on a' f -> ~ accepted o') /\
    status = 200%N /\ app = false.
Proof.
  intros Hl Ho.
  pose proof (run_lru_erase cap lempty l wf_empty) as HR.
  change (ls_flows lempty) with (@nil flow) in HR.
  pose proof (erase_nth cap lempty l n _ Hl) as Hl'.
  assert (Hs' : exists s', erase1 (final_lru cap lempty (firstn n l)) (APoll s) = APoll s' /\
                           (s' = s \/ s' = SGuess)).
  { destruct (erase1_cases (final_lru cap lempty (firstn n l)) (APoll s)) as [E|[_ [E _]]];
      rewrite E; [exists s|exists SGuess]; auto. }
  destruct Hs' as [s' [Es' Hs']]. rewrite Es' in Hl'.
  assert (Ho' : nth_error (run [] (erase cap lempty l)) n = Some (OBody status (BDischarge tk cavs) app))
    by (rewrite <- HR; exact Ho).
  destruct (discharge_only_after_approval_l _ n s' status tk cavs app Hl' Ho')
    as [f [c [m [a [o [Hsf [Hcm [Hmn [Hcr [Ha [Hom [Hdec [Hacc [Hbetween [Hst Happ]]]]]]]]]]]]]]].
  assert (Hs : s = SPoll f). { destruct Hs' as [E|E]; subst s'; [congruence|discriminate Hsf]. }
  (* the creating init and the approval are actions of l itself *)
  destruct Hcr as [ac [oc [Hac [Hoc Hcre]]]].
  destruct (erase_nth_inv _ _ _ _ _ Hac) as [ac0 [Hac0 Eac]].
  assert (Eac' : ac0 = ac).
  { destruct Hcre as [[E _]|[E _]]; rewrite E in Eac; symmetry in Eac; apply erase1_init in Eac; congruence. }
  subst ac0.
  destruct (erase_nth_inv _ _ _ _ _ Ha) as [a0 [Ha0 Ea]].
  assert (Ea' : a0 = a).
  { destruct Hdec as [k [Hk _]]. rewrite Ea in Hk. apply erase1_decision in Hk. congruence. }
  subst a0.
  exists f, c, m, a, o. rewrite HR. repeat split; auto.
  - exists ac, oc. auto.
  - intros j a' o' Hmj Hjn Hj Hoj Hdj Haccj.
    pose proof (erase_nth cap lempty l j a' Hj) as Hj'.
    destruct (erase1_cases (final_lru cap lempty (firstn j l)) a') as [E|[Hi [E Hlk]]].
    + rewrite E in Hj'. exact (Hbetween j a' Hmj Hjn Hj' Hdj).
    + assert (Hr : nth_error (run_lru cap lempty l) j = Some (refused a')).
      { apply erased_refused; auto. rewrite E. intros Eg. rewrite <- Eg in Hdj.
        destruct Hdj as [k Hk]. rewrite guess_no_decision in Hk. discriminate Hk. }
      rewrite HR, Hoj in Hr. inversion Hr. subst o'. exact (refused_not_accepted a' Haccj).
Qed.

(* every discharge the service ever emits is accounted for: an immediate one (the application's
   init handler approved on the spot, with these caveats, for this ticket) or a collected one *)
Theorem lru_every_discharge_accounted cap l n a status tk cavs app :
  nth_error l n = Some a ->
  nth_error (run_lru cap lempty l) n = Some (OBody status (BDischarge tk cavs) app) ->
  (a = AInit (TValid tk) (MImmediate cavs) /\ status = 201%N /\ app = true) \/
  (exists s, a = APoll s).
Proof.
  intros Hn Ho. rewrite (run_lru_nth cap lempty l n a Hn) in Ho. inversion Ho as [Hobs]. clear Ho.
  destruct (is_init a) eqn:Hi.
  - left. destruct (step_lru_init cap (final_lru cap lempty (firstn n l)) a Hi) as [Hs _].
    rewrite Hs in Hobs. cbn [snd] in Hobs.
    destruct a as [t m|s|s d|s x|s x|s x|s x]; try discriminate Hi.
    destruct t; try discriminate Hobs. destruct m; try discriminate Hobs.
    cbn [step snd] in Hobs. inversion Hobs. auto.
  - right. rewrite (step_lru_nf cap _ a Hi) in Hobs.
    destruct (s_lookup (final_lru cap lempty (firstn n l)) (akey a)) as [[[f fl] ls1]|].
    + unfold after_hit in Hobs. destruct (eff a fl) as [[fl' del] o] eqn:He. cbn [snd] in Hobs. subst o.
      apply (eff_body _ _ _ _ _ _ _ He).
    + cbn [snd] in Hobs. exfalso. exact (refused_not_body _ _ _ _ Hobs).
Qed.

(* The same for ANY stored answer (discharge, or the error message of an abort): it is the body
   of the last ACCEPTED decision on that flow.  Taken from the store invariant [hist_inv_run] of
   the unbounded model through [run_lru_erase]. *)
Theorem lru_answer_only_after_decision cap l n s status b app :
  nth_error l n = Some (APoll s) ->
  nth_error (run_lru cap lempty l) n = Some (OBody status b app) ->
  exists f tk c m a o,
    s = SPoll f /\ c < m /\ m < n /\
    created_at l (run_lru cap lempty l) c f tk /\
    nth_error l m = Some a /\ nth_error (run_lru cap lempty l) m = Some o /\
    decides_with tk a f b /\ accepted o /\
    (forall j a' o', m < j -> j < n -> nth_error l j = Some a' ->
       nth_error (run_lru cap lempty l) j = Some o' -> is_decision_on a' f -> ~ accepted o') /\
    status = 200%N /\ app = false.
Proof.
  intros Hl Ho.
  pose proof (run_lru_erase cap lempty l wf_empty) as HR.
  change (ls_flows lempty) with (@nil flow) in HR.
  pose proof (erase_nth cap lempty l n _ Hl) as Hl'.
  assert (Hs' : exists s', erase1 (final_lru cap lempty (firstn n l)) (APoll s) = APoll s' /\
                           (s' = s \/ s' = SGuess)).
  { destruct (erase1_cases (final_lru cap lempty (firstn n l)) (APoll s)) as [E|[_ [E _]]];
      rewrite E; [exists s|exists SGuess]; auto. }
  destruct Hs' as [s' [Es' Hs']]. rewrite Es' in Hl'.
  set (l' := erase cap lempty l) in *.
  assert (Ho' : nth_error (run [] l') n = Some (OBody status b app)) by (rewrite <- HR; exact Ho).
  rewrite (run_nth [] l' n _ Hl') in Ho'. inversion Ho' as [Hobs]. clear Ho'.
  destruct (poll_delivers_only_stored_l _ _ _ _ _ Hobs) as [f [fl [Hsf [Hg [Hr Happ]]]]].
  assert (Hs : s = SPoll f). { destruct Hs' as [E|E]; subst s'; [congruence|discriminate Hsf]. }
  destruct (get_some _ _ _ Hg) as [Hn Hal].
  pose proof (hist_inv_run (firstn n l') f fl Hn) as [c [Hc HI]].
  rewrite Hr in HI. destruct HI as [Hst [m [Hcm [Hdec Hlast]]]].
  rewrite run_firstn in Hc, Hdec.
  destruct Hdec as [a [o [Ha [Hob [Hdw Hacc]]]]].
  destruct (nth_firstn_some _ _ _ _ Ha) as [Hmn Ha'].
  destruct (nth_firstn_some _ _ _ _ Hob) as [_ Hob'].
  destruct Hc as [ac [oc [Hac [Hoc Hcre]]]].
  destruct (nth_firstn_some _ _ _ _ Hac) as [_ Hac'].
  destruct (nth_firstn_some _ _ _ _ Hoc) as [_ Hoc'].
  destruct (erase_nth_inv _ _ _ _ _ Hac') as [ac0 [Hac0 Eac]].
  assert (Eac' : ac0 = ac).
  { destruct Hcre as [[E _]|[E _]]; rewrite E in Eac; symmetry in Eac; apply erase1_init in Eac; congruence. }
  subst ac0.
  destruct (erase_nth_inv _ _ _ _ _ Ha') as [a0 [Ha0 Ea]].
  assert (Ea' : a0 = a).
  { destruct Hdw as [k [Hk _]]. rewrite Ea in Hk. apply erase1_decision in Hk. congruence. }
  subst a0.
  exists f, (fl_ticket fl), c, m, a, o. rewrite HR. repeat split; auto.
  - exists ac, oc. auto.
  - intros j a' o' Hmj Hjn Hj Hoj Hdj Haccj.
    pose proof (erase_nth cap lempty l j a' Hj) as Hj'. fold l' in Hj'.
    destruct (erase1_cases (final_lru cap lempty (firstn j l)) a') as [E|[Hi [E Hlk]]].
    + rewrite E in Hj'. apply (Hlast Hal j a' Hmj); auto. rewrite nth_firstn; auto.
    + assert (Hrf : nth_error (run_lru cap lempty l) j = Some (refused a')).
      { apply erased_refused; auto. rewrite E. intros Eg. rewrite <- Eg in Hdj.
        destruct Hdj as [k Hk]. rewrite guess_no_decision in Hk. discriminate Hk. }
      rewrite HR, Hoj in Hrf. inversion Hrf. subst o'. exact (refused_not_accepted a' Haccj).
Qed.

(* what a poll can be answered at all *)
Lemma poll_answers cap ls s :
  snd (step_lru cap ls (APoll s)) = ONotFound false \/
  snd (step_lru cap ls (APoll s)) = ONotReady \/
  exists status b, snd (step_lru cap ls (APoll s)) = OBody status b false.
Proof.
  rewrite (step_lru_nf cap ls (APoll s) eq_refl). cbn [akey].
  destruct (s_lookup ls (pkey s)) as [[[f fl] ls1]|]; auto.
  unfold after_hit. cbn [eff]. destruct (fl_resp fl) as [[status b]|]; cbn [snd]; eauto.
Qed.

(* "not ready" does not consume the flow: same records, same keys (only their order changes) *)
Lemma poll_not_ready_keeps cap ls s :
  snd (step_lru cap ls (APoll s)) = ONotReady ->
  ls_flows (fst (step_lru cap ls (APoll s))) = ls_flows ls /\
  forall k, In k (ls_keys (fst (step_lru cap ls (APoll s)))) <-> In k (ls_keys ls).
Proof.
  rewrite (step_lru_nf cap ls (APoll s) eq_refl). cbn [akey].
  destruct (s_lookup ls (pkey s)) as [[[f fl] ls1]|] eqn:Hl; [|intros H; discriminate H].
  destruct (s_lookup_some _ _ _ _ _ Hl) as [k [_ [_ [Hin [Hn E]]]]]. subst ls1.
  unfold after_hit. cbn [eff]. destruct (fl_resp fl) as [[status b]|]; cbn [fst snd ls_flows ls_keys].
  - intros H. discriminate H.
  - intros _. split. { apply put_id. exact Hn. } intros x. apply In_touch. exact Hin.
Qed.

(* CLAUSE "before a decision".  Before any accepted decision on the flow a poll with its secret
   is answered "not ready" - or, if its poll key was pushed out, "not found" - and never with a
   stored answer; when it is "not ready" nothing is consumed. *)
Theorem lru_poll_before_decision cap l n f :
  nth_error l n = Some (APoll (SPoll f)) ->
  (forall m a o, m < n -> nth_error l m = Some a -> nth_error (run_lru cap lempty l) m = Some o ->
     is_decision_on a f -> ~ accepted o) ->
  nth_error (run_lru cap lempty l) n = Some ONotReady \/
  nth_error (run_lru cap lempty l) n = Some (ONotFound false).
Proof.
  intros Hn Hnone. pose proof (run_lru_nth cap lempty l n _ Hn) as Ho.
  destruct (poll_answers cap (final_lru cap lempty (firstn n l)) (SPoll f)) as [E|[E|[status [b E]]]];
    rewrite E in Ho; auto.
  exfalso.
  destruct (lru_answer_only_after_decision cap l n _ _ _ _ Hn Ho)
    as [g [tk [c [m [a [o [Hs [_ [Hmn [_ [Ha [Hom [Hdw [Hacc _]]]]]]]]]]]]]].
  inversion Hs. subst g. apply (Hnone m a o Hmn Ha Hom); auto.
  eapply decides_with_is_decision; eauto.
Qed.

(* ------------------------------------------------------------------ *)
(* non-vacuity: runs in which eviction happens and changes what the client sees *)

(* Flow 0 is user-interactive; its user page is visited, so its user key is the freshest key;
   then flow 1 is created.
   capacity 4: nothing is pushed out, the run is the unbounded one.
   capacity 3: the poll key of flow 0 is pushed out, its user key survives: the application's
     approval through the user secret is ACCEPTED, but the discharge can never be collected.
   capacity 2: both keys of flow 0 are pushed out: the approval is refused as well. *)
Example lru_eviction_changes_answers :
  let l := [AInit (TValid 7%N) MUser; AUserVisit (SUser 0%N) DNone; AInit (TValid 8%N) MPoll;
            AApproveUser (SUser 0%N) [1%N]; APoll (SPoll 0%N); APoll (SPoll 1%N)] in
  run_lru 2 lempty l =
    [OUserURL 0%N; OVisited true true; OPollURL 1%N; OCall false; ONotFound false; ONotReady] /\
  run_lru 3 lempty l =
    [OUserURL 0%N; OVisited true true; OPollURL 1%N; OCall true; ONotFound false; ONotReady] /\
  run_lru 4 lempty l = run [] l /\
  run [] l =
    [OUserURL 0%N; OVisited true true; OPollURL 1%N; OCall true;
     OBody 200%N (BDischarge 7%N [1%N]) false; ONotReady].
Proof. intros l. repeat split. Qed.

(* capacity 1: Insert adds the user key, then the poll key, which pushes the user key of the
   SAME flow out: the user URL just handed out is dead on arrival; the poll secret works until
   the next flow is created. *)
Example lru_cap1_user_url_dead_on_arrival :
  run_lru 1 lempty [AInit (TValid 7%N) MUser; AUserVisit (SUser 0%N) (DApprove []); APoll (SPoll 0%N);
                    AApprovePoll (SPoll 0%N) [2%N]; AInit (TValid 8%N) MPoll; APoll (SPoll 0%N);
                    AApprovePoll (SPoll 1%N) []; APoll (SPoll 1%N); APoll (SPoll 1%N)] =
  [OUserURL 0%N; ONotFound false; ONotReady; OCall true; OPollURL 1%N; ONotFound false;
   OCall true; OBody 200%N (BDischarge 8%N []) false; ONotFound false].
Proof. reflexivity. Qed.

(* the hypotheses of clause (a) are satisfiable in a run with eviction: flow 1 is approved and
   collected after flow 0 lost its keys *)
Example lru_clause_a_nonvacuous :
  let l := [AInit (TValid 7%N) MPoll; AInit (TValid 8%N) MUser; AApprovePoll (SPoll 0%N) [];
            AUserVisit (SUser 1%N) (DApprove [1%N; 2%N]); APoll (SPoll 1%N); APoll (SPoll 1%N);
            AUserVisit (SUser 1%N) DNone] in
  run_lru 2 lempty l =
    [OPollURL 0%N; OUserURL 1%N; OCall false; OVisited true true;
     OBody 200%N (BDischarge 8%N [1%N; 2%N]) false; ONotFound false; ONotFound false].
Proof. intros l. reflexivity. Qed.

(* ------------------------------------------------------------------ *)
Print Assumptions lookup_again.
Print Assumptions step_lru_nf.
Print Assumptions wf_step.
Print Assumptions keys_bounded.
Print Assumptions run_lru_erase.
Print Assumptions run_lru_big_cap_l.
Print Assumptions run_lru_big_cap_inits.
Print Assumptions lru_discharge_only_after_approval.
Print Assumptions lru_every_discharge_accounted.
Print Assumptions lru_answer_only_after_decision.
Print Assumptions lru_poll_before_decision.
Print Assumptions poll_not_ready_keeps.
Print Assumptions lru_delivered_at_most_once.
Print Assumptions lru_collected_then_not_found.
Print Assumptions lru_guess_not_found_step.
Print Assumptions lru_guess_not_found.
Print Assumptions lru_unissued_not_found.
Print Assumptions names_no_key_cases.
