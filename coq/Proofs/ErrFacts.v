From Coq Require Import List Bool NArith ZArith String Lia.
From Mac Require Import Model.Err Model.Caveat Model.Access Model.Prohibits.
Import ListNotations.

Lemma eappend_nil_iff a b : eappend a b = None <-> a = None /\ b = None.
Proof. destruct a, b; simpl; split; intros H; try discriminate; auto; destruct H; discriminate. Qed.

Lemma eappend_None_l b : eappend None b = b.
Proof. destruct b; reflexivity. Qed.

Lemma eappend_None_r a : eappend a None = a.
Proof. destruct a; reflexivity. Qed.

Lemma eunion_assoc a b c : eunion a (eunion b c) = eunion (eunion a b) c.
Proof. destruct a, b, c; unfold eunion; simpl; f_equal; apply orb_assoc. Qed.

Lemma eunion_comm a b : eunion a b = eunion b a.
Proof. destruct a, b; unfold eunion; simpl; f_equal; apply orb_comm. Qed.

Lemma eappend_assoc a b c : eappend a (eappend b c) = eappend (eappend a b) c.
Proof. destruct a, b, c; simpl; try reflexivity. now rewrite eunion_assoc. Qed.

Lemma eappend_comm a b : eappend a b = eappend b a.
Proof. destruct a, b; simpl; try reflexivity. now rewrite eunion_comm. Qed.

Lemma mem_n_In x l : mem_n x l = true <-> In x l.
Proof.
  unfold mem_n. rewrite existsb_exists. split.
  - intros [y [Hy He]]. apply N.eqb_eq in He. now subst.
  - intros H. exists x. split; [assumption|apply N.eqb_refl].
Qed.

Lemma mem_s_In x l : mem_s x l = true <-> In x l.
Proof.
  unfold mem_s. rewrite existsb_exists. split.
  - intros [y [Hy He]]. apply String.eqb_eq in He. now subst.
  - intros H. exists x. split; [assumption|apply String.eqb_refl].
Qed.

Lemma isnil_true {A} (l : list A) : isnil l = true <-> l = [].
Proof. destruct l; simpl; split; intros; try discriminate; auto. Qed.

Lemma isnil_false {A} (l : list A) : isnil l = false <-> l <> [].
Proof. destruct l; simpl; split; intros; try discriminate; auto; congruence. Qed.

(* validate_access / validate characterisations (used by C03 and others) *)
Lemma validate_access_nil_iff cs a :
  validate_access cs a = None <->
  forall c, In c cs -> is_attestation c = false -> prohibits c a = None.
Proof.
  induction cs as [|c cs IH]; simpl.
  - split; [intros _ c []|reflexivity].
  - rewrite eappend_nil_iff, IH. split.
    + intros [H1 H2] c' [->|Hin] Hatt.
      * rewrite Hatt in H1. exact H1.
      * now apply H2.
    + intros H. split.
      * destruct (is_attestation c) eqn:E; [reflexivity|]. apply H; auto.
      * intros c' Hin Hatt. apply H; auto.
Qed.

Lemma validate_nil_iff cs accs :
  validate cs accs = None <->
  forall a, In a accs -> access_valid a = None /\
     forall c, In c cs -> is_attestation c = false -> prohibits c a = None.
Proof.
  induction accs as [|a accs IH]; simpl.
  - split; [intros _ a []|reflexivity].
  - rewrite eappend_nil_iff, IH. split.
    + intros [H1 H2] a' [->|Hin].
      * destruct (access_valid a') eqn:E; [discriminate|].
        split; [reflexivity|]. now apply validate_access_nil_iff.
      * now apply H2.
    + intros H. split.
      * destruct (H a (or_introl eq_refl)) as [Hv Hc]. rewrite Hv.
        now apply validate_access_nil_iff.
      * intros a' Hin. apply H. now right.
Qed.
