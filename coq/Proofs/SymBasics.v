(* Basics of the symbolic protocol model (task S1a):
   equality tests, MAC chains, the caveat walk, soundness of verify w.r.t. the chain. *)
From Coq Require Import List Bool NArith Lia Setoid.
From Mac Require Import Model.Sym.
Import ListNotations.
Local Open Scope N_scope.

(* ------------------------------------------------------------------ *)
(** * Equality tests are sound and complete *)

Lemma list_eqb_spec {A} (e : A -> A -> bool) :
  (forall x y, e x y = true <-> x = y) ->
  forall a b, list_eqb e a b = true <-> a = b.
Proof.
  intros He a. induction a as [|x r IH]; intros [|y s]; cbn [list_eqb].
  - split; reflexivity.
  - split; discriminate.
  - split; discriminate.
  - rewrite andb_true_iff, He, IH. split.
    + intros [Hx Hr]. subst. reflexivity.
    + intros E. injection E. auto.
Qed.

Lemma dcav_eqb_spec a b : dcav_eqb a b = true <-> a = b.
Proof.
  destruct a as [i1 a1 w1], b as [i2 a2 w2]. unfold dcav_eqb. cbn [d_id d_att d_wrap].
  rewrite !andb_true_iff, N.eqb_eq, !eqb_true_iff. split.
  - intros [[Hi Ha] Hw]. subst. reflexivity.
  - intros E. injection E. auto.
Qed.

Scheme term_mind := Induction for term Sort Prop
with msg_mind := Induction for msg Sort Prop
with pcav_mind := Induction for pcav Sort Prop.
Combined Scheme term_msg_pcav_ind from term_mind, msg_mind, pcav_mind.

Lemma list_N_eqb_spec a b : list_eqb N.eqb a b = true <-> a = b.
Proof. apply list_eqb_spec. intros x y. apply N.eqb_eq. Qed.

Lemma list_dcav_eqb_spec a b : list_eqb dcav_eqb a b = true <-> a = b.
Proof. apply list_eqb_spec. apply dcav_eqb_spec. Qed.

Lemma eqb_specs :
  (forall a b, term_eqb a b = true <-> a = b) /\
  (forall a b, msg_eqb a b = true <-> a = b) /\
  (forall a b, pcav_eqb a b = true <-> a = b).
Proof.
  apply term_msg_pcav_ind; intros;
    match goal with
    | |- _ _ ?y = true <-> _ => destruct y
    end;
    cbn [term_eqb msg_eqb pcav_eqb];
    try (split; intros Habs; discriminate Habs);
    rewrite ?andb_true_iff;
    repeat match goal with
           | IH : forall b, _ = true <-> _ |- _ => rewrite IH; clear IH
           end;
    rewrite ?N.eqb_eq, ?eqb_true_iff, ?list_N_eqb_spec, ?list_dcav_eqb_spec, ?dcav_eqb_spec;
    (split; [ intuition congruence | intros Einj; injection Einj; intuition ]).
Qed.

Lemma term_eqb_spec a b : term_eqb a b = true <-> a = b.
Proof. apply eqb_specs. Qed.
Lemma msg_eqb_spec a b : msg_eqb a b = true <-> a = b.
Proof. apply eqb_specs. Qed.
Lemma pcav_eqb_spec a b : pcav_eqb a b = true <-> a = b.
Proof. apply eqb_specs. Qed.

Lemma term_eqb_refl a : term_eqb a a = true.
Proof. apply term_eqb_spec. reflexivity. Qed.
Lemma msg_eqb_refl a : msg_eqb a a = true.
Proof. apply msg_eqb_spec. reflexivity. Qed.
Lemma pcav_eqb_refl a : pcav_eqb a a = true.
Proof. apply pcav_eqb_spec. reflexivity. Qed.
Lemma dcav_eqb_refl a : dcav_eqb a a = true.
Proof. apply dcav_eqb_spec. reflexivity. Qed.

Lemma eqb_false_of_spec {A} (e : A -> A -> bool) :
  (forall x y, e x y = true <-> x = y) -> forall a b, e a b = false <-> a <> b.
Proof.
  intros He a b. rewrite <- He. destruct (e a b); split; congruence.
Qed.

Lemma term_eqb_false a b : term_eqb a b = false <-> a <> b.
Proof. apply eqb_false_of_spec. apply term_eqb_spec. Qed.
Lemma msg_eqb_false a b : msg_eqb a b = false <-> a <> b.
Proof. apply eqb_false_of_spec. apply msg_eqb_spec. Qed.
Lemma pcav_eqb_false a b : pcav_eqb a b = false <-> a <> b.
Proof. apply eqb_false_of_spec. apply pcav_eqb_spec. Qed.
Lemma dcav_eqb_false a b : dcav_eqb a b = false <-> a <> b.
Proof. apply eqb_false_of_spec. apply dcav_eqb_spec. Qed.

(* decidable equality, handy for case splits *)
Lemma term_eq_dec (a b : term) : {a = b} + {a <> b}.
Proof.
  destruct (term_eqb a b) eqn:E.
  - left. apply term_eqb_spec. exact E.
  - right. apply term_eqb_false. exact E.
Qed.
Lemma pcav_eq_dec (a b : pcav) : {a = b} + {a <> b}.
Proof.
  destruct (pcav_eqb a b) eqn:E.
  - left. apply pcav_eqb_spec. exact E.
  - right. apply pcav_eqb_false. exact E.
Qed.

(* ------------------------------------------------------------------ *)
(** * Chains *)

Lemma chain_from_nil s : chain_from s [] = s.
Proof. reflexivity. Qed.

Lemma chain_from_cons s c cs : chain_from s (c :: cs) = chain_from (TMac s (MCav c)) cs.
Proof. reflexivity. Qed.

Lemma chain_from_app s cs cs' : chain_from s (cs ++ cs') = chain_from (chain_from s cs) cs'.
Proof. unfold chain_from. apply fold_left_app. Qed.

Lemma chain_from_snoc s cs c : chain_from s (cs ++ [c]) = TMac (chain_from s cs) (MCav c).
Proof. rewrite chain_from_app. reflexivity. Qed.

Lemma chain_nil k n : chain k n [] = TMac k (mnonce n).
Proof. reflexivity. Qed.

Lemma chain_snoc k n cs c : chain k n (cs ++ [c]) = TMac (chain k n cs) (MCav c).
Proof. unfold chain. apply chain_from_snoc. Qed.

Lemma chain_app k n cs cs' : chain k n (cs ++ cs') = chain_from (chain k n cs) cs'.
Proof. unfold chain. apply chain_from_app. Qed.

Lemma mnonce_inj n n' : mnonce n = mnonce n' -> n = n'.
Proof.
  destruct n as [a b c d], n' as [a' b' c' d']. unfold mnonce. cbn [n_kid n_rnd n_proof n_ver].
  intros E. injection E. intros. subst. reflexivity.
Qed.

Lemma chain_inj k n cs k' n' cs' :
  chain k n cs = chain k' n' cs' -> k = k' /\ mnonce n = mnonce n' /\ cs = cs'.
Proof.
  revert cs'. induction cs as [|c cs IH] using rev_ind; intros cs';
    destruct cs' as [|c' cs' _] using rev_ind; rewrite ?chain_snoc, ?chain_nil; intros E.
  - repeat split; congruence.
  - unfold mnonce in E. discriminate E.
  - unfold mnonce in E. discriminate E.
  - injection E. intros Ec Ech. destruct (IH _ Ech) as [Hk [Hn Hcs]]. subst. auto.
Qed.

(* the nonce itself is determined, too *)
Lemma chain_inj' k n cs k' n' cs' :
  chain k n cs = chain k' n' cs' -> k = k' /\ n = n' /\ cs = cs'.
Proof.
  intros E. destruct (chain_inj _ _ _ _ _ _ E) as [Hk [Hn Hcs]].
  auto using mnonce_inj.
Qed.

Lemma chain_from_inj_len2 s s' cs cs' :
  List.length cs = List.length cs' -> chain_from s cs = chain_from s' cs' -> s = s' /\ cs = cs'.
Proof.
  revert s s' cs'. induction cs as [|c cs IH]; intros s s' [|c' cs'] Hl E; try discriminate Hl.
  - auto.
  - rewrite !chain_from_cons in E. injection Hl. intros Hl'.
    destruct (IH _ _ _ Hl' E) as [Hs Hcs]. injection Hs. intros. subst. auto.
Qed.

Lemma chain_from_inj_len s cs cs' :
  List.length cs = List.length cs' -> chain_from s cs = chain_from s cs' -> cs = cs'.
Proof. intros Hl E. apply (chain_from_inj_len2 s s cs cs' Hl E). Qed.

Lemma chain_is_mac k n cs : exists x m, chain k n cs = TMac x m.
Proof.
  destruct cs as [|c cs _] using rev_ind.
  - rewrite chain_nil. eauto.
  - rewrite chain_snoc. eauto.
Qed.

Lemma fin_chain_neq k n cs k' n' cs' : TFin (chain k n cs) <> chain k' n' cs'.
Proof. destruct (chain_is_mac k' n' cs') as [x [m E]]. rewrite E. discriminate. Qed.

Lemma mac_fin_neq x c y : TMac (TFin x) (MCav c) <> TFin y.
Proof. discriminate. Qed.

(* ------------------------------------------------------------------ *)
(** * The caveat walk (loop invariant of Macaroon.verify) *)

(* what one caveat contributes to the returned list *)
Definition ret_of (trust : bool) (c : pcav) : list dcav :=
  match c with
  | PData d => if negb (d_att d) || trust then [d] else []
  | _ => []
  end.

(* the [d] of every [PData d] of [cs] with [negb (d_att d) || trust], in order.
   ([proof] is not needed to compute it; the argument is kept for a uniform signature) *)
Definition returned (proof trust : bool) (cs : list pcav) : list dcav :=
  flat_map (ret_of trust) cs.

Definition data_ok (proof : bool) (cs : list pcav) : Prop :=
  forall d, In (PData d) cs -> (d_att d = true -> proof = true) /\ d_wrap d = false.

(* the chain value after each caveat: [chain_from start (firstn 1 cs); ...; chain_from start cs] *)
Fixpoint prefix_macs (start : term) (cs : list pcav) : list term :=
  match cs with
  | [] => []
  | c :: r => TMac start (MCav c) :: prefix_macs (TMac start (MCav c)) r
  end.

(* the pending list: for each [P3P loc vk tk] at position i the pair (tk, dk) with
   [unseal (chain_from start (firstn i cs)) vk = Some dk]; [None] if some verifier key
   does not open under the chain value before it *)
Fixpoint pend_of (start : term) (cs : list pcav) : option (list (term * term)) :=
  match cs with
  | [] => Some []
  | c :: r =>
    match c with
    | P3P _ vk tk =>
      match unseal start vk with
      | Some dk =>
        match pend_of (TMac start (MCav c)) r with
        | Some pl => Some ((tk, dk) :: pl)
        | None => None
        end
      | None => None
      end
    | _ => pend_of (TMac start (MCav c)) r
    end
  end.

(* the ticket (key-id) of every third-party caveat, in order *)
Definition tickets (cs : list pcav) : list term :=
  flat_map (fun c => match c with P3P _ _ tk => [tk] | _ => [] end) cs.

(** ** unseal *)
Lemma unseal_Some k ct pt : unseal k ct = Some pt <-> exists r, ct = TSeal k r pt.
Proof.
  unfold unseal. split.
  - destruct ct as [| | | | | | |k' r p|]; try discriminate.
    destruct (term_eqb k' k) eqn:E; [|discriminate].
    apply term_eqb_spec in E. intros H. injection H. intros. subst. eauto.
  - intros [r E]. subst. rewrite term_eqb_refl. reflexivity.
Qed.

Lemma unseal_seal k r pt : unseal k (TSeal k r pt) = Some pt.
Proof. apply unseal_Some. eauto. Qed.

(** ** returned / data_ok / prefix_macs / pend_of : structural lemmas *)
Lemma returned_nil p t : returned p t [] = [].
Proof. reflexivity. Qed.
Lemma returned_cons p t c cs : returned p t (c :: cs) = ret_of t c ++ returned p t cs.
Proof. reflexivity. Qed.
Lemma returned_app p t cs cs' : returned p t (cs ++ cs') = returned p t cs ++ returned p t cs'.
Proof. unfold returned. apply flat_map_app. Qed.
Lemma returned_proof_irrel p p' t cs : returned p t cs = returned p' t cs.
Proof. reflexivity. Qed.

Lemma In_returned p t cs d :
  In d (returned p t cs) <-> In (PData d) cs /\ negb (d_att d) || t = true.
Proof.
  unfold returned. rewrite in_flat_map. split.
  - intros [c [Hc Hd]]. destruct c as [d'| |]; cbn [ret_of] in Hd; try contradiction.
    destruct (negb (d_att d') || t) eqn:E; [|contradiction].
    destruct Hd as [Hd|[]]. subst. auto.
  - intros [Hc Hd]. exists (PData d). split; [exact Hc|]. cbn [ret_of]. rewrite Hd. left. reflexivity.
Qed.

Lemma data_ok_nil p : data_ok p [].
Proof. intros d []. Qed.

Lemma data_ok_cons p c cs :
  data_ok p (c :: cs) <->
  match c with PData d => (d_att d = true -> p = true) /\ d_wrap d = false | _ => True end /\ data_ok p cs.
Proof.
  unfold data_ok. split.
  - intros H. split.
    + destruct c; auto. apply H. left. reflexivity.
    + intros d Hd. apply H. right. exact Hd.
  - intros [Hc Hcs] d [Hd|Hd].
    + subst. exact Hc.
    + apply Hcs. exact Hd.
Qed.

Lemma data_ok_app p cs cs' : data_ok p (cs ++ cs') <-> data_ok p cs /\ data_ok p cs'.
Proof.
  unfold data_ok. split.
  - intros H. split; intros d Hd; apply H; apply in_or_app; auto.
  - intros [H1 H2] d Hd. apply in_app_or in Hd. destruct Hd; auto.
Qed.

Lemma prefix_macs_length s cs : List.length (prefix_macs s cs) = List.length cs.
Proof. revert s. induction cs as [|c cs IH]; intros s; cbn [prefix_macs List.length]; auto. Qed.

Lemma prefix_macs_app s cs cs' :
  prefix_macs s (cs ++ cs') = prefix_macs s cs ++ prefix_macs (chain_from s cs) cs'.
Proof.
  revert s. induction cs as [|c cs IH]; intros s; [reflexivity|].
  rewrite <- app_comm_cons. cbn [prefix_macs]. rewrite IH. reflexivity.
Qed.

Lemma prefix_macs_snoc s cs c :
  prefix_macs s (cs ++ [c]) = prefix_macs s cs ++ [chain_from s (cs ++ [c])].
Proof. rewrite prefix_macs_app, chain_from_snoc. reflexivity. Qed.

(* the i-th entry is the chain value after caveats 0..i *)
Lemma prefix_macs_nth s cs i :
  (i < List.length cs)%nat ->
  nth_error (prefix_macs s cs) i = Some (chain_from s (firstn (S i) cs)).
Proof.
  revert s i. induction cs as [|c cs IH]; intros s i Hi; cbn [List.length] in Hi; [lia|].
  destruct i as [|i].
  - reflexivity.
  - cbn [prefix_macs nth_error]. rewrite IH by lia. reflexivity.
Qed.

Lemma In_prefix_macs s cs x :
  In x (prefix_macs s cs) <-> exists i, (i < List.length cs)%nat /\ x = chain_from s (firstn (S i) cs).
Proof.
  split.
  - intros Hx. apply In_nth_error in Hx. destruct Hx as [i Hi].
    assert (Hlt : (i < List.length cs)%nat).
    { rewrite <- (prefix_macs_length s). apply nth_error_Some. congruence. }
    rewrite prefix_macs_nth in Hi by exact Hlt. exists i. split; congruence.
  - intros [i [Hlt E]]. subst. eapply nth_error_In. apply prefix_macs_nth. exact Hlt.
Qed.

Lemma pend_of_app s cs cs' :
  pend_of s (cs ++ cs') =
  match pend_of s cs, pend_of (chain_from s cs) cs' with
  | Some a, Some b => Some (a ++ b)
  | _, _ => None
  end.
Proof.
  revert s. induction cs as [|c cs IH]; intros s.
  - cbn [app pend_of chain_from fold_left]. destruct (pend_of s cs'); reflexivity.
  - rewrite <- app_comm_cons, chain_from_cons. cbn [pend_of].
    destruct c as [d|l vk tk|b]; try apply IH.
    destruct (unseal s vk) as [dk|]; [|reflexivity].
    rewrite IH. destruct (pend_of (TMac s (MCav (P3P l vk tk))) cs); [|reflexivity].
    destruct (pend_of _ cs'); reflexivity.
Qed.

Lemma pend_of_tickets s cs pl : pend_of s cs = Some pl -> map fst pl = tickets cs.
Proof.
  revert s pl. induction cs as [|c cs IH]; intros s pl H; cbn [pend_of] in H.
  - injection H. intros. subst. reflexivity.
  - unfold tickets. cbn [flat_map]. fold (tickets cs).
    destruct c as [d|l vk tk|b]; try (apply (IH _ _ H)).
    destruct (unseal s vk) as [dk|]; [|discriminate].
    destruct (pend_of _ cs) as [pl'|] eqn:E; [|discriminate].
    injection H. intros. subst. cbn [map fst app]. f_equal. apply (IH _ _ E).
Qed.

(* every 3P caveat at position i has its verifier key sealed under the chain value before it,
   and contributes its (ticket, discharge key) pair *)
Lemma pend_of_nth s cs pl i l vk tk :
  pend_of s cs = Some pl -> nth_error cs i = Some (P3P l vk tk) ->
  exists r dk, vk = TSeal (chain_from s (firstn i cs)) r dk /\ In (tk, dk) pl.
Proof.
  revert s pl i. induction cs as [|c cs IH]; intros s pl i H Hn.
  - destruct i; discriminate Hn.
  - cbn [pend_of] in H. destruct i as [|i]; cbn [nth_error] in Hn.
    + injection Hn. intros. subst c.
      destruct (unseal s vk) as [dk|] eqn:Eu; [|discriminate].
      destruct (pend_of _ cs) as [pl'|]; [|discriminate].
      injection H. intros. subst pl. apply unseal_Some in Eu. destruct Eu as [r Er].
      exists r, dk. split; [exact Er|]. left. reflexivity.
    + cbn [firstn]. rewrite chain_from_cons.
      destruct c as [d|l' vk' tk'|b]; try (apply (IH _ _ _ H Hn)).
      destruct (unseal s vk') as [dk'|]; [|discriminate].
      destruct (pend_of _ cs) as [pl'|] eqn:E; [|discriminate].
      injection H. intros. subst pl.
      destruct (IH _ _ _ E Hn) as [r [dk [Hv Hin]]]. exists r, dk. split; [exact Hv|]. right. exact Hin.
Qed.

Lemma pend_of_In s cs pl tk dk :
  pend_of s cs = Some pl -> In (tk, dk) pl ->
  exists i l r, nth_error cs i = Some (P3P l (TSeal (chain_from s (firstn i cs)) r dk) tk).
Proof.
  revert s pl. induction cs as [|c cs IH]; intros s pl H Hin; cbn [pend_of] in H.
  - injection H. intros. subst. contradiction.
  - assert (Hrec : forall pl', pend_of (TMac s (MCav c)) cs = Some pl' -> In (tk, dk) pl' ->
        exists i l r, nth_error (c :: cs) i = Some (P3P l (TSeal (chain_from s (firstn i (c :: cs))) r dk) tk)).
    { intros pl' H' Hin'. destruct (IH _ _ H' Hin') as [i [l [r Hi]]]. exists (S i), l, r. exact Hi. }
    destruct c as [d|l vk tk'|b]; try (apply (Hrec _ H Hin)).
    destruct (unseal s vk) as [dk'|] eqn:Eu; [|discriminate].
    destruct (pend_of _ cs) as [pl'|] eqn:E; [|discriminate].
    injection H. intros. subst pl. destruct Hin as [Hhd|Hin].
    + injection Hhd. intros. subst. apply unseal_Some in Eu. destruct Eu as [r Er]. subst.
      exists 0%nat, l, r. reflexivity.
    + apply (Hrec _ eq_refl Hin).
Qed.

(* pend_of succeeds iff every verifier key is sealed under the chain value before it *)
Lemma pend_of_Some_iff s cs :
  (exists pl, pend_of s cs = Some pl) <->
  (forall i l vk tk, nth_error cs i = Some (P3P l vk tk) ->
     exists r dk, vk = TSeal (chain_from s (firstn i cs)) r dk).
Proof.
  split.
  - intros [pl H] i l vk tk Hn. destruct (pend_of_nth _ _ _ _ _ _ _ H Hn) as [r [dk [Hv _]]]. eauto.
  - revert s. induction cs as [|c cs IH]; intros s H.
    + exists []. reflexivity.
    + destruct (IH (TMac s (MCav c))) as [pl Hpl].
      { intros i l vk tk Hn. apply (H (S i) l vk tk Hn). }
      cbn [pend_of]. rewrite Hpl. destruct c as [d|l vk tk|b]; eauto.
      destruct (H 0%nat l vk tk eq_refl) as [r [dk Hv]]. cbn [firstn chain_from fold_left] in Hv.
      subst vk. rewrite unseal_seal. eauto.
Qed.

(** ** the walk *)
Lemma walk_nil p t pb hc w : walk p t pb hc [] w = Some w.
Proof. reflexivity. Qed.

Definition w_step (w : walked) (c : pcav) (ret : list dcav) (pend : list (term * term)) : walked :=
  mkW (TMac (w_mac w) (MCav c)) ret pend (w_bids w ++ [THash (TMac (w_mac w) (MCav c))]).

Lemma walk_cons p t pb hc c r w :
  walk p t pb hc (c :: r) w =
  match c with
  | P3P _ vk tk =>
    if hc tk then
      match unseal (w_mac w) vk with
      | Some dk => walk p t pb hc r (w_step w c (w_ret w) (w_pend w ++ [(tk, dk)]))
      | None => None
      end
    else None
  | PBind b =>
    if existsb (has_prefix_bid b) pb then walk p t pb hc r (w_step w c (w_ret w) (w_pend w)) else None
  | PData d =>
    if d_att d && negb p then None
    else if d_wrap d then None
    else walk p t pb hc r (w_step w c (w_ret w ++ ret_of t c) (w_pend w))
  end.
Proof.
  destruct c as [d|l vk tk|b]; cbn [walk]; try reflexivity.
  unfold w_step. cbn [ret_of]. destruct (d_att d && negb p); [reflexivity|].
  destruct (d_wrap d); [reflexivity|].
  destruct (negb (d_att d) || t); [reflexivity|]. rewrite app_nil_r. reflexivity.
Qed.

(* what [walk] computes when it succeeds *)
Definition walk_result (p t : bool) (cs : list pcav) (w : walked) (pl : list (term * term)) : walked :=
  mkW (chain_from (w_mac w) cs)
      (w_ret w ++ returned p t cs)
      (w_pend w ++ pl)
      (w_bids w ++ map THash (prefix_macs (w_mac w) cs)).

(* the conditions under which it succeeds *)
Definition walk_pre (p : bool) (pb : list term) (hc : term -> bool) (cs : list pcav) : Prop :=
  data_ok p cs /\
  (forall b, In (PBind b) cs -> existsb (has_prefix_bid b) pb = true) /\
  (forall l vk tk, In (P3P l vk tk) cs -> hc tk = true).

Lemma walk_pre_nil p pb hc : walk_pre p pb hc [].
Proof. split; [apply data_ok_nil|]. split; intros; contradiction. Qed.

Lemma walk_pre_cons p pb hc c cs :
  walk_pre p pb hc (c :: cs) <->
  match c with
  | PData d => (d_att d = true -> p = true) /\ d_wrap d = false
  | P3P _ _ tk => hc tk = true
  | PBind b => existsb (has_prefix_bid b) pb = true
  end /\ walk_pre p pb hc cs.
Proof.
  unfold walk_pre. rewrite data_ok_cons. split.
  - intros [[Hd Hdo] [Hb H3]]. split.
    + destruct c as [d|l vk tk|b]; [exact Hd| |].
      * apply (H3 l vk tk). left. reflexivity.
      * apply Hb. left. reflexivity.
    + split; [exact Hdo|]. split; intros; [apply Hb|eapply H3]; right; eassumption.
  - intros [Hc [Hdo [Hb H3]]]. split; [split; [|exact Hdo]|split].
    + destruct c; auto.
    + intros b [Hin|Hin]; [subst; exact Hc|apply Hb; exact Hin].
    + intros l vk tk [Hin|Hin]; [subst; exact Hc|eapply H3; exact Hin].
Qed.

Lemma data_cond_false p d :
  (d_att d = true -> p = true) -> d_att d && negb p = false.
Proof. destruct (d_att d), p; intros H; try reflexivity. discriminate (H eq_refl). Qed.

Lemma data_cond_false_inv p d :
  d_att d && negb p = false -> d_att d = true -> p = true.
Proof. destruct (d_att d), p; intros H H'; try reflexivity; discriminate. Qed.

(* full characterisation, soundness direction *)
Lemma walk_sound p t pb hc cs : forall w w',
  walk p t pb hc cs w = Some w' ->
  walk_pre p pb hc cs /\ exists pl, pend_of (w_mac w) cs = Some pl /\ w' = walk_result p t cs w pl.
Proof.
  induction cs as [|c cs IH]; intros w w' H.
  - rewrite walk_nil in H. injection H. intros. subst w'. split; [apply walk_pre_nil|].
    exists []. split; [reflexivity|]. unfold walk_result. cbn [returned flat_map prefix_macs map chain_from fold_left].
    rewrite !app_nil_r. destruct w; reflexivity.
  - rewrite walk_cons in H. rewrite walk_pre_cons. cbn [pend_of].
    destruct c as [d|l vk tk|b].
    + destruct (d_att d && negb p) eqn:Ea; [discriminate|].
      destruct (d_wrap d) eqn:Ew; [discriminate|].
      destruct (IH _ _ H) as [Hpre [pl [Hpl Hw']]]. cbn [w_step w_mac w_ret w_pend w_bids] in Hpl, Hw'.
      split; [split; [split; [apply data_cond_false_inv; exact Ea|reflexivity]|exact Hpre]|].
      exists pl. split; [exact Hpl|]. subst w'. unfold walk_result, w_step.
      cbn [w_mac w_ret w_pend w_bids prefix_macs map]. rewrite returned_cons, chain_from_cons, <- !app_assoc. reflexivity.
    + destruct (hc tk) eqn:Ehc; [|discriminate].
      destruct (unseal (w_mac w) vk) as [dk|] eqn:Eu; [|discriminate].
      destruct (IH _ _ H) as [Hpre [pl [Hpl Hw']]]. cbn [w_step w_mac w_ret w_pend w_bids] in Hpl, Hw'.
      split; [split; [reflexivity|exact Hpre]|].
      rewrite Hpl. exists ((tk, dk) :: pl). split; [reflexivity|]. subst w'. unfold walk_result, w_step.
      cbn [w_mac w_ret w_pend w_bids prefix_macs map]. rewrite returned_cons, chain_from_cons, <- !app_assoc. reflexivity.
    + destruct (existsb (has_prefix_bid b) pb) eqn:Eb; [|discriminate].
      destruct (IH _ _ H) as [Hpre [pl [Hpl Hw']]]. cbn [w_step w_mac w_ret w_pend w_bids] in Hpl, Hw'.
      split; [split; [reflexivity|exact Hpre]|].
      exists pl. split; [exact Hpl|]. subst w'. unfold walk_result, w_step.
      cbn [w_mac w_ret w_pend w_bids prefix_macs map]. rewrite returned_cons, chain_from_cons, <- !app_assoc. reflexivity.
Qed.

(* completeness direction *)
Lemma walk_complete p t pb hc cs : forall w pl,
  data_ok p cs ->
  (forall b, In (PBind b) cs -> existsb (has_prefix_bid b) pb = true) ->
  (forall l vk tk, In (P3P l vk tk) cs -> hc tk = true) ->
  pend_of (w_mac w) cs = Some pl ->
  walk p t pb hc cs w = Some (walk_result p t cs w pl).
Proof.
  intros w pl Hd Hb H3. assert (Hpre : walk_pre p pb hc cs) by (split; auto). clear Hd Hb H3.
  revert w pl Hpre. induction cs as [|c cs IH]; intros w pl Hpre Hpl.
  - cbn [pend_of] in Hpl. injection Hpl. intros. subst pl. rewrite walk_nil. f_equal.
    unfold walk_result. cbn [returned flat_map prefix_macs map chain_from fold_left].
    rewrite !app_nil_r. destruct w; reflexivity.
  - rewrite walk_pre_cons in Hpre. destruct Hpre as [Hc Hpre]. rewrite walk_cons. cbn [pend_of] in Hpl.
    destruct c as [d|l vk tk|b].
    + destruct Hc as [Ha Hw]. rewrite (data_cond_false _ _ Ha), Hw.
      rewrite (IH _ pl Hpre) by exact Hpl. f_equal. unfold walk_result, w_step.
      cbn [w_mac w_ret w_pend w_bids prefix_macs map]. rewrite returned_cons, chain_from_cons, <- !app_assoc. reflexivity.
    + rewrite Hc. destruct (unseal (w_mac w) vk) as [dk|]; [|discriminate].
      destruct (pend_of _ cs) as [pl'|] eqn:E; [|discriminate]. injection Hpl. intros. subst pl.
      rewrite (IH _ pl' Hpre) by exact E. f_equal. unfold walk_result, w_step.
      cbn [w_mac w_ret w_pend w_bids prefix_macs map]. rewrite returned_cons, chain_from_cons, <- !app_assoc. reflexivity.
    + rewrite Hc. rewrite (IH _ pl Hpre) by exact Hpl. f_equal. unfold walk_result, w_step.
      cbn [w_mac w_ret w_pend w_bids prefix_macs map]. rewrite returned_cons, chain_from_cons, <- !app_assoc. reflexivity.
Qed.

(* both directions together *)
Lemma walk_iff p t pb hc cs w w' :
  walk p t pb hc cs w = Some w' <->
  walk_pre p pb hc cs /\ exists pl, pend_of (w_mac w) cs = Some pl /\ w' = walk_result p t cs w pl.
Proof.
  split; [apply walk_sound|].
  intros [[Hd [Hb H3]] [pl [Hpl Hw']]]. subst w'. apply walk_complete; assumption.
Qed.

Section WalkFacts.
  Variables (proof trust : bool) (pbids : list term) (hascand : term -> bool).
  Variables (cs : list pcav) (w w' : walked).
  Hypothesis Hwalk : walk proof trust pbids hascand cs w = Some w'.

  Lemma walk_mac : w_mac w' = chain_from (w_mac w) cs.
  Proof. destruct (walk_sound _ _ _ _ _ _ _ Hwalk) as [_ [pl [_ E]]]. subst w'. reflexivity. Qed.

  Lemma walk_bids : w_bids w' = w_bids w ++ map THash (prefix_macs (w_mac w) cs).
  Proof. destruct (walk_sound _ _ _ _ _ _ _ Hwalk) as [_ [pl [_ E]]]. subst w'. reflexivity. Qed.

  Lemma walk_ret : w_ret w' = w_ret w ++ returned proof trust cs.
  Proof. destruct (walk_sound _ _ _ _ _ _ _ Hwalk) as [_ [pl [_ E]]]. subst w'. reflexivity. Qed.

  Lemma walk_data_ok : data_ok proof cs.
  Proof. destruct (walk_sound _ _ _ _ _ _ _ Hwalk) as [[Hd _] _]. exact Hd. Qed.

  Lemma walk_pend : exists pl, pend_of (w_mac w) cs = Some pl /\ w_pend w' = w_pend w ++ pl.
  Proof.
    destruct (walk_sound _ _ _ _ _ _ _ Hwalk) as [_ [pl [Hpl E]]]. subst w'. exists pl. split; [exact Hpl|reflexivity].
  Qed.

  Lemma walk_binds : forall b, In (PBind b) cs -> existsb (has_prefix_bid b) pbids = true.
  Proof. destruct (walk_sound _ _ _ _ _ _ _ Hwalk) as [[_ [Hb _]] _]. exact Hb. Qed.

  Lemma walk_3p_cand : forall l vk tk, In (P3P l vk tk) cs -> hascand tk = true.
  Proof. destruct (walk_sound _ _ _ _ _ _ _ Hwalk) as [[_ [_ H3]] _]. exact H3. Qed.
End WalkFacts.

Lemma walk_app p t pb hc cs1 cs2 w :
  walk p t pb hc (cs1 ++ cs2) w =
  match walk p t pb hc cs1 w with Some w1 => walk p t pb hc cs2 w1 | None => None end.
Proof.
  revert w. induction cs1 as [|c cs1 IH]; intros w; [reflexivity|].
  rewrite <- app_comm_cons, !walk_cons.
  destruct c as [d|l vk tk|b].
  - destruct (d_att d && negb p); [reflexivity|]. destruct (d_wrap d); [reflexivity|]. apply IH.
  - destruct (hc tk); [|reflexivity]. destruct (unseal (w_mac w) vk); [|reflexivity]. apply IH.
  - destruct (existsb (has_prefix_bid b) pb); [|reflexivity]. apply IH.
Qed.

(* ------------------------------------------------------------------ *)
(** * verify is sound w.r.t. the chain *)

(* the value the chain starts from, the token's binding ids and its pending list,
   as computed by the walk from [start_walk k t] *)
Definition tok_start (k : term) (t : token) : term := TMac k (mnonce (t_nonce t)).
Definition tok_bids (k : term) (t : token) : list term :=
  THash (tok_start k t) :: map THash (prefix_macs (tok_start k t) (t_cavs t)).
Definition tok_pend (k : term) (t : token) : option (list (term * term)) :=
  pend_of (tok_start k t) (t_cavs t).

Lemma chain_tok_start k t cs : chain_from (tok_start k t) cs = chain k (t_nonce t) cs.
Proof. reflexivity. Qed.

(* all binding ids are hashes of the chain values [chain k n (firstn i cavs)], i = 0..length *)
Lemma In_tok_bids k t x :
  In x (tok_bids k t) <->
  exists i, (i <= List.length (t_cavs t))%nat /\ x = THash (chain k (t_nonce t) (firstn i (t_cavs t))).
Proof.
  unfold tok_bids. cbn [In]. rewrite in_map_iff. split.
  - intros [E|[y [E Hy]]].
    + exists 0%nat. split; [lia|]. subst. reflexivity.
    + apply In_prefix_macs in Hy. destruct Hy as [i [Hi Ey]]. exists (S i). split; [lia|]. subst. reflexivity.
  - intros [[|i] [Hi E]].
    + left. subst. reflexivity.
    + right. exists (chain k (t_nonce t) (firstn (S i) (t_cavs t))). split; [auto|].
      apply In_prefix_macs. exists i. split; [lia|reflexivity].
Qed.

Lemma fin_if_eq_proof b x y : fin_if b x = fin_if b y -> x = y.
Proof. destruct b; cbn [fin_if]; intros E; [injection E|]; auto. Qed.

Lemma no_cand_no_3p p t pb cs w w' :
  walk p t pb (fun _ => false) cs w = Some w' -> forall l vk tk, ~ In (P3P l vk tk) cs.
Proof.
  intros H l vk tk Hin. pose proof (walk_3p_cand _ _ _ _ _ _ _ H l vk tk Hin) as Habs. discriminate Habs.
Qed.

Lemma verify_flat_sound k t pb tr S : verify_flat k t pb tr = Some S ->
  t_tail t = fin_if (n_proof (t_nonce t)) (chain k (t_nonce t) (t_cavs t)) /\
  S = returned (n_proof (t_nonce t)) tr (t_cavs t) /\ data_ok (n_proof (t_nonce t)) (t_cavs t) /\
  (forall l vk tk, ~ In (P3P l vk tk) (t_cavs t)) /\ (n_proof (t_nonce t) && t_newproof t = false).
Proof.
  unfold verify_flat. destruct (n_proof (t_nonce t) && t_newproof t) eqn:Enp; [discriminate|].
  destruct (walk _ _ _ _ _ _) as [w|] eqn:Ew; [|discriminate].
  destruct (term_eqb _ _) eqn:Et; [|discriminate]. intros H. injection H. intros HS.
  apply term_eqb_spec in Et.
  rewrite (walk_mac _ _ _ _ _ _ _ Ew) in Et. rewrite (walk_ret _ _ _ _ _ _ _ Ew) in HS.
  cbn [start_walk w_mac w_ret app] in Et, HS.
  split; [symmetry; exact Et|]. split; [symmetry; exact HS|].
  split; [apply (walk_data_ok _ _ _ _ _ _ _ Ew)|].
  split; [apply (no_cand_no_3p _ _ _ _ _ _ Ew)|reflexivity].
Qed.

(* converse: exactly when verify_flat succeeds *)
Lemma verify_flat_complete k t pb tr :
  n_proof (t_nonce t) && t_newproof t = false ->
  t_tail t = fin_if (n_proof (t_nonce t)) (chain k (t_nonce t) (t_cavs t)) ->
  data_ok (n_proof (t_nonce t)) (t_cavs t) ->
  (forall l vk tk, ~ In (P3P l vk tk) (t_cavs t)) ->
  (forall b, In (PBind b) (t_cavs t) -> existsb (has_prefix_bid b) pb = true) ->
  verify_flat k t pb tr = Some (returned (n_proof (t_nonce t)) tr (t_cavs t)).
Proof.
  intros Enp Et Hd H3 Hb. unfold verify_flat. rewrite Enp.
  destruct (pend_of_Some_iff (w_mac (start_walk k t)) (t_cavs t)) as [_ Hex].
  destruct Hex as [pl Hpl].
  { intros i l vk tk Hn. exfalso. apply (H3 l vk tk). eapply nth_error_In. exact Hn. }
  rewrite (walk_complete _ _ _ _ _ _ pl Hd Hb) by (try exact Hpl; intros l vk tk Hin; destruct (H3 _ _ _ Hin)).
  unfold walk_result. cbn [w_mac w_ret start_walk app]. rewrite Et.
  fold (chain k (t_nonce t) (t_cavs t)). rewrite term_eqb_refl. reflexivity.
Qed.

Lemma verify_inv k t ds tr S : verify k t ds tr = Some S ->
  n_proof (t_nonce t) && t_newproof t = false /\
  exists w dret,
    walk (n_proof (t_nonce t)) true []
         (fun tk => negb (match cands_for ds tk with [] => true | _ => false end))
         (t_cavs t) (start_walk k t) = Some w /\
    discharge_all (w_pend w) ds (w_bids w) tr = Some dret /\
    fin_if (n_proof (t_nonce t)) (w_mac w) = t_tail t /\
    S = w_ret w ++ dret.
Proof.
  unfold verify. destruct (n_proof (t_nonce t) && t_newproof t) eqn:Enp; [discriminate|].
  destruct (walk _ _ _ _ _ _) as [w|] eqn:Ew; [|discriminate].
  destruct (discharge_all _ _ _ _) as [dret|] eqn:Ed; [|discriminate].
  destruct (term_eqb _ _) eqn:Et; [|discriminate]. intros H. injection H. intros HS.
  apply term_eqb_spec in Et. split; [reflexivity|]. exists w, dret. auto.
Qed.

Lemma verify_sound_chain k t ds tr S : verify k t ds tr = Some S ->
  t_tail t = fin_if (n_proof (t_nonce t)) (chain k (t_nonce t) (t_cavs t)) /\
  exists pl dret,
    tok_pend k t = Some pl /\
    S = returned (n_proof (t_nonce t)) true (t_cavs t) ++ dret /\
    discharge_all pl ds (tok_bids k t) tr = Some dret.
Proof.
  intros H. destruct (verify_inv _ _ _ _ _ H) as [_ [w [dret [Ew [Ed [Et HS]]]]]].
  destruct (walk_pend _ _ _ _ _ _ _ Ew) as [pl [Hpl Hp]].
  rewrite (walk_mac _ _ _ _ _ _ _ Ew) in Et. rewrite (walk_ret _ _ _ _ _ _ _ Ew) in HS.
  rewrite (walk_bids _ _ _ _ _ _ _ Ew), Hp in Ed.
  cbn [start_walk w_mac w_ret w_pend w_bids app] in Et, HS, Ed, Hpl.
  split; [symmetry; exact Et|]. exists pl, dret. auto.
Qed.

(* further consequences of a successful verify, for convenience *)
Lemma verify_sound_more k t ds tr S : verify k t ds tr = Some S ->
  n_proof (t_nonce t) && t_newproof t = false /\
  data_ok (n_proof (t_nonce t)) (t_cavs t) /\
  (forall l vk tk, In (P3P l vk tk) (t_cavs t) -> cands_for ds tk <> []).
Proof.
  intros H. destruct (verify_inv _ _ _ _ _ H) as [Enp [w [dret [Ew _]]]].
  split; [exact Enp|]. split; [apply (walk_data_ok _ _ _ _ _ _ _ Ew)|].
  intros l vk tk Hin. pose proof (walk_3p_cand _ _ _ _ _ _ _ Ew l vk tk Hin) as Hc. cbn beta in Hc.
  destruct (cands_for ds tk); [discriminate Hc|discriminate].
Qed.

Lemma verify_no_bind_top k t ds tr S : verify k t ds tr = Some S -> forall b, ~ In (PBind b) (t_cavs t).
Proof.
  intros H b Hin. destruct (verify_inv _ _ _ _ _ H) as [_ [w [dret [Ew _]]]].
  pose proof (walk_binds _ _ _ _ _ _ _ Ew b Hin) as Habs. discriminate Habs.
Qed.

(** ** trust_check, try_cands, discharge_all *)
Lemma trust_check_trusted kas kid dk : trust_check kas kid dk = TTrusted ->
  exists ka r cavs, In ka kas /\ kid = TSeal ka r (TTicket dk cavs).
Proof.
  induction kas as [|ka kas IH]; cbn [trust_check]; [discriminate|].
  destruct (unseal ka kid) as [pt|] eqn:Eu.
  - intros H. apply unseal_Some in Eu. destruct Eu as [r Er].
    destruct pt as [| | | | | | | |dk' cavs]; try discriminate H.
    destruct (term_eqb dk' dk) eqn:E; [|discriminate]. apply term_eqb_spec in E. subst.
    exists ka, r, cavs. split; [left|]; reflexivity.
  - intros H. destruct (IH H) as [ka' [r [cavs [Hin E]]]]. exists ka', r, cavs. split; [right|]; assumption.
Qed.

(* the flag with which a candidate is verified *)
Definition cand_trust (ta : bool) (tr : trusted_map) (d : token) (dk : term) : bool :=
  ta && match trust_check (keys_for tr (t_loc d)) (n_kid (t_nonce d)) dk with TTrusted => true | _ => false end.

Lemma try_cands_sound cands dk bids ta tr S : try_cands cands dk bids ta tr = Some S ->
  exists d, In d cands /\ trust_check (keys_for tr (t_loc d)) (n_kid (t_nonce d)) dk <> TSkip /\
    verify_flat dk d bids (ta && match trust_check (keys_for tr (t_loc d)) (n_kid (t_nonce d)) dk with TTrusted => true | _ => false end) = Some S.
Proof.
  induction cands as [|d r IH]; cbn [try_cands]; [discriminate|].
  assert (Hrec : try_cands r dk bids ta tr = Some S ->
    exists d0, In d0 (d :: r) /\ trust_check (keys_for tr (t_loc d0)) (n_kid (t_nonce d0)) dk <> TSkip /\
    verify_flat dk d0 bids (ta && match trust_check (keys_for tr (t_loc d0)) (n_kid (t_nonce d0)) dk with TTrusted => true | _ => false end) = Some S).
  { intros H. destruct (IH H) as [d0 [Hin Hd0]]. exists d0. split; [right; exact Hin|exact Hd0]. }
  destruct (trust_check (keys_for tr (t_loc d)) (n_kid (t_nonce d)) dk) eqn:Etc; [exact Hrec| |].
  - destruct (verify_flat _ _ _ _) as [s|] eqn:Ev; [|exact Hrec].
    intros H. injection H. intros. subst s. exists d. rewrite Etc. split; [left; reflexivity|]. split; [discriminate|exact Ev].
  - destruct (verify_flat _ _ _ _) as [s|] eqn:Ev; [|exact Hrec].
    intros H. injection H. intros. subst s. exists d. rewrite Etc. split; [left; reflexivity|]. split; [discriminate|exact Ev].
Qed.

Lemma In_cands_for ds tk d : In d (cands_for ds tk) <-> In d ds /\ n_kid (t_nonce d) = tk.
Proof. unfold cands_for. rewrite filter_In, term_eqb_spec. reflexivity. Qed.

(* one pending ticket (tk, dk) is discharged with result S *)
Definition discharged_by (ds : list token) (bids : list term) (tr : trusted_map)
           (p : term * term) (S : list dcav) : Prop :=
  exists d, In d ds /\ n_kid (t_nonce d) = fst p /\
    trust_check (keys_for tr (t_loc d)) (fst p) (snd p) <> TSkip /\
    verify_flat (snd p) d bids (cand_trust true tr d (snd p)) = Some S.

Lemma discharge_all_sound pend ds bids tr dret : discharge_all pend ds bids tr = Some dret ->
  exists Ss, Forall2 (discharged_by ds bids tr) pend Ss /\ dret = List.concat Ss.
Proof.
  revert dret. induction pend as [|[tk dk] r IH]; intros dret; cbn [discharge_all].
  - intros H. injection H. intros. subst. exists []. split; [constructor|reflexivity].
  - destruct (try_cands _ _ _ _ _) as [s|] eqn:Etc; [|discriminate].
    destruct (discharge_all r ds bids tr) as [s'|]; [|discriminate].
    intros H. injection H. intros. subst dret.
    destruct (IH _ eq_refl) as [Ss [HF Es]]. exists (s :: Ss). split; [|cbn [List.concat]; congruence].
    constructor; [|exact HF].
    destruct (try_cands_sound _ _ _ _ _ _ Etc) as [d [Hin [Hns Hv]]].
    apply In_cands_for in Hin. destruct Hin as [Hin Hk].
    exists d. cbn [fst snd]. unfold cand_trust. rewrite Hk in Hns, Hv. rewrite Hk. auto.
Qed.

(* spelled out: each S is a verify_flat result of a presented discharge whose key-id is the ticket *)
Lemma discharge_all_sound' pend ds bids tr dret : discharge_all pend ds bids tr = Some dret ->
  exists Ss, dret = List.concat Ss /\ List.length Ss = List.length pend /\
    forall i tk dk, nth_error pend i = Some (tk, dk) ->
      exists S d, nth_error Ss i = Some S /\ In d ds /\ n_kid (t_nonce d) = tk /\
        trust_check (keys_for tr (t_loc d)) tk dk <> TSkip /\
        verify_flat dk d bids (cand_trust true tr d dk) = Some S.
Proof.
  intros H. destruct (discharge_all_sound _ _ _ _ _ H) as [Ss [HF E]]. exists Ss.
  split; [exact E|]. clear H E. induction HF as [|p S pend' Ss' Hp HF IH].
  - split; [reflexivity|]. intros [|i]; discriminate.
  - destruct IH as [Hl Hn]. split; [cbn [List.length]; congruence|].
    intros [|i] tk dk Hi; cbn [nth_error] in *.
    + injection Hi. intros. subst p. destruct Hp as [d Hd]. exists S, d. cbn [fst snd] in Hd. tauto.
    + apply (Hn _ _ _ Hi).
Qed.

(* every caveat returned by a discharge comes from a first-party caveat of a presented discharge *)
Lemma discharge_all_In pend ds bids tr dret x : discharge_all pend ds bids tr = Some dret ->
  In x dret -> exists d, In d ds /\ In (n_kid (t_nonce d)) (map fst pend) /\ In (PData x) (t_cavs d).
Proof.
  intros H Hx. destruct (discharge_all_sound _ _ _ _ _ H) as [Ss [HF E]]. subst dret. clear H.
  induction HF as [|p S pend' Ss' Hp HF IH]; [contradiction|].
  cbn [List.concat] in Hx. apply in_app_or in Hx. destruct Hx as [Hx|Hx].
  - destruct Hp as [d [Hin [Hk [_ Hv]]]]. exists d. split; [exact Hin|]. split; [left; congruence|].
    apply verify_flat_sound in Hv. destruct Hv as [_ [HS _]]. subst S. apply In_returned in Hx. tauto.
  - destruct (IH Hx) as [d [Hin [Hk Hd]]]. exists d. split; [exact Hin|]. split; [right; exact Hk|exact Hd].
Qed.

(* ------------------------------------------------------------------ *)
Print Assumptions list_eqb_spec.
Print Assumptions dcav_eqb_spec.
Print Assumptions eqb_specs.
Print Assumptions term_eqb_false.
Print Assumptions chain_inj.
Print Assumptions chain_from_inj_len.
Print Assumptions fin_chain_neq.
Print Assumptions walk_iff.
Print Assumptions walk_pend.
Print Assumptions walk_app.
Print Assumptions pend_of_In.
Print Assumptions pend_of_Some_iff.
Print Assumptions verify_flat_sound.
Print Assumptions verify_flat_complete.
Print Assumptions verify_sound_chain.
Print Assumptions verify_no_bind_top.
Print Assumptions try_cands_sound.
Print Assumptions discharge_all_sound'.
Print Assumptions discharge_all_In.
Print Assumptions trust_check_trusted.
