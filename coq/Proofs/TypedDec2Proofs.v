(* Typed lenient decoding of every caveat type and of whole caveat sets (Model.TypedDec2):
   - the typed decoder inverts the canonical encoder: per field kind, per type, for nested sets of any depth
     (dec_cav_enc_body_l, dec_body2_enc_body_l, dec_set_typed_enc_set_l);
   - Go maps as ascending association lists: [set_k] keeps the order, the encoder's sort is the identity on such lists.
   The statements about what is ACCEPTED (well-formedness of the result, the re-encoding theorem, agreement with the frame
   decoder, fuel) are in Proofs/TypedDec2Accept.v. *)
From Coq Require Import List Bool NArith ZArith String Ascii Lia ZifyN ZifyNat ZifyBool Sorted Permutation.
From Mac Require Import Model.Caveat Model.Msgpack Model.Codec Model.TypedDec Model.TypedDec2
  Proofs.CavInd Proofs.CodecProofs Proofs.CodecProofs2 Proofs.LenientProofs Proofs.TypedDecProofs.
Import ListNotations.
Ltac Zify.zify_post_hook ::= Z.div_mod_to_equations.
Local Open Scope N_scope.

(* ------------------------------------------------------------------------------------------ *)
(* Go maps as association lists in ascending key order                                         *)

Section KeyMapFacts.
  Context {K : Type} (leb : K -> K -> bool).
  Hypothesis leb_total : forall a b, leb a b = true \/ leb b a = true.
  Hypothesis leb_antisym : forall a b, leb a b = true -> leb b a = true -> a = b.
  Hypothesis leb_trans : forall a b c, leb a b = true -> leb b c = true -> leb a c = true.

  (* strictly below, on entries *)
  Definition klt (x y : K * N) : Prop := leb (fst y) (fst x) = false.
  Definition ksorted (l : list (K * N)) : Prop := StronglySorted klt l.

  Lemma klt_trans x y z : klt x y -> klt y z -> klt x z.
  Proof.
    unfold klt. intros Hxy Hyz.
    destruct (leb (fst z) (fst x)) eqn:E; [|reflexivity].
    destruct (leb_total (fst x) (fst y)) as [H|H]; [|congruence].
    rewrite (leb_trans _ _ _ E H) in Hyz. discriminate.
  Qed.

  Lemma set_k_last k v l : Forall (fun x => klt x (k, v)) l -> set_k leb k v l = l ++ [(k, v)].
  Proof.
    induction 1 as [|x l Hx _ IH]; [reflexivity|].
    cbn [set_k app]. unfold klt in Hx. cbn [fst] in Hx. rewrite Hx, IH. reflexivity.
  Qed.

  Lemma set_k_Forall (P : K * N -> Prop) k v l : P (k, v) -> Forall P l -> Forall P (set_k leb k v l).
  Proof.
    intros Hk. induction 1 as [|x l Hx Hl IH]; cbn [set_k]; [auto|].
    destruct (leb k (fst x)); [destruct (leb (fst x) k)|]; auto.
  Qed.

  Lemma set_k_sorted k v l : ksorted l -> ksorted (set_k leb k v l).
  Proof.
    unfold ksorted. induction l as [|x l IH]; intros Hs; cbn [set_k].
    - constructor; constructor.
    - apply StronglySorted_inv in Hs. destruct Hs as [Hl Hx].
      destruct (leb k (fst x)) eqn:E1; [destruct (leb (fst x) k) eqn:E2|].
      + (* same key: the mask is replaced *)
        assert (Hk : k = fst x) by (apply leb_antisym; assumption).
        constructor; [exact Hl|]. revert Hx. apply Forall_impl. intros y. unfold klt. cbn [fst]. rewrite Hk. exact (fun H => H).
      + constructor; [constructor; assumption|].
        constructor; [unfold klt; cbn [fst]; exact E2|].
        revert Hx. apply Forall_impl. intros y Hy. apply (klt_trans _ x); [unfold klt; cbn [fst]; exact E2|exact Hy].
      + constructor; [apply IH, Hl|]. apply set_k_Forall; [unfold klt; cbn [fst]; exact E1|exact Hx].
  Qed.

  Lemma set_k_length k v l : (List.length (set_k leb k v l) <= S (List.length l))%nat.
  Proof.
    induction l as [|x l IH]; cbn [set_k List.length]; [lia|].
    destruct (leb k (fst x)); [destruct (leb (fst x) k)|]; cbn [List.length]; lia.
  Qed.

  (* on an ascending list without repeated keys the encoder's sort changes nothing *)
  Lemma sort_k_sorted_id l : ksorted l -> sort_k leb l = l.
  Proof.
    unfold ksorted. induction l as [|e l IH]; intros Hs; [reflexivity|].
    apply StronglySorted_inv in Hs. destruct Hs as [Hl He].
    change (sort_k leb (e :: l)) with (ins_k leb e (sort_k leb l)). rewrite IH by exact Hl.
    destruct l as [|x r]; [reflexivity|]. cbn [ins_k].
    inversion He as [|x0 r0 Hx _]; subst. unfold klt in Hx.
    destruct (leb_total (fst e) (fst x)) as [H|H]; [rewrite H; reflexivity|congruence].
  Qed.

  Lemma sorted_app_below (a : list (K * N)) e s : ksorted (a ++ e :: s) -> Forall (fun x => klt x e) a.
  Proof.
    unfold ksorted. induction a as [|x a IH]; intros Hs; [constructor|].
    cbn [app] in Hs. apply StronglySorted_inv in Hs. destruct Hs as [Ha Hx].
    constructor; [|apply IH, Ha].
    rewrite Forall_forall in Hx. apply Hx. apply in_or_app. right. left. reflexivity.
  Qed.
End KeyMapFacts.

(* the two instances *)
Lemma klt_n x y : klt N.leb x y <-> fst x < fst y.
Proof. unfold klt. rewrite N.leb_gt. reflexivity. Qed.
Lemma klt_s x y : klt str_leb x y <-> str_lt (fst x) (fst y).
Proof.
  unfold klt, str_lt, str_leb. rewrite (String.compare_antisym (fst x) (fst y)).
  destruct (String.compare (fst y) (fst x)); cbn [CompOpp]; split; congruence.
Qed.

Lemma ksorted_of_keys {K} (R : K -> K -> Prop) (lt : K * N -> K * N -> Prop) (l : list (K * N)) :
  (forall x y, R (fst x) (fst y) -> lt x y) -> StronglySorted R (map fst l) -> StronglySorted lt l.
Proof.
  intros Himp. induction l as [|x l IH]; intros Hs; [constructor|].
  cbn [map] in Hs. apply StronglySorted_inv in Hs. destruct Hs as [Hl Hx].
  constructor; [apply IH, Hl|]. rewrite Forall_map in Hx. revert Hx. apply Forall_impl. intros y. apply Himp.
Qed.
Lemma keys_of_ksorted {K} (R : K -> K -> Prop) (lt : K * N -> K * N -> Prop) (l : list (K * N)) :
  (forall x y, lt x y -> R (fst x) (fst y)) -> StronglySorted lt l -> StronglySorted R (map fst l).
Proof.
  intros Himp. induction 1 as [|x l Hl IH Hx]; cbn [map]; constructor; [exact IH|].
  rewrite Forall_map. revert Hx. apply Forall_impl. intros y. apply Himp.
Qed.

Lemma ksorted_s_iff l : ksorted str_leb l <-> StronglySorted str_lt (map fst l).
Proof.
  split.
  - apply keys_of_ksorted. intros x y. apply klt_s.
  - apply ksorted_of_keys. intros x y. apply klt_s.
Qed.
Lemma ksorted_n_iff l : ksorted N.leb l <-> StronglySorted N.lt (map fst l).
Proof.
  split.
  - apply keys_of_ksorted. intros x y. apply klt_n.
  - apply ksorted_of_keys. intros x y. apply klt_n.
Qed.

Lemma sort_rs_s_sorted_id l : StronglySorted str_lt (map fst l) -> sort_rs_s l = l.
Proof. intros Hs. rewrite sort_rs_s_eq. apply sort_k_sorted_id; [exact str_leb_total|apply ksorted_s_iff, Hs]. Qed.
Lemma sort_rs_n_sorted_id l : StronglySorted N.lt (map fst l) -> sort_rs_n l = l.
Proof. intros Hs. rewrite sort_rs_n_eq. apply sort_k_sorted_id; [exact nleb_total|apply ksorted_n_iff, Hs]. Qed.

(* ------------------------------------------------------------------------------------------ *)
(* canonical caveats: what the decoder can return, i.e. what a Go value looks like             *)

Definition rs_canon_s (rs : rset string) : Prop :=
  StronglySorted str_lt (map fst rs) /\ Forall (fun e => snd e < 2 ^ 16) rs.
Definition rs_canon_n (rs : rset N) : Prop :=
  StronglySorted N.lt (map fst rs) /\ Forall (fun e => snd e < 2 ^ 16) rs.

(* masks fit their Go type, resource sets are listed in ascending key order without repeated keys, an unregistered caveat has
   an unregistered type and a body the generic decoder takes; the same for everything nested *)
Fixpoint canon_cav (c : cav) : Prop :=
  fits_cav c = true /\
  match c with
  | CVolumes rs | CFeatureSet rs | CMachines rs | CMachineFeatureSet rs | CClusters rs
  | CAppFeatureSet rs | CStorageObjects rs => rs_canon_s rs
  | CApps rs => rs_canon_n rs
  | CIfPresent ifs els =>
      els < 2 ^ 16 /\
      match ifs with
      | None => True
      | Some l => (fix all (l : list cav) : Prop := match l with [] => True | c' :: r => canon_cav c' /\ all r end) l
      end
  | CUnregistered ty body => reg_ty ty = false /\ gen_ok body = true
  | _ => True
  end.

Lemma canon_cav_ifs l els :
  canon_cav (CIfPresent (Some l) els) <-> els < 2 ^ 16 /\ Forall canon_cav l.
Proof.
  cbn [canon_cav fits_cav].
  assert (Hall : (fix all (l : list cav) : Prop :=
                    match l with [] => True | c' :: r => canon_cav c' /\ all r end) l <-> Forall canon_cav l).
  { induction l as [|c l IH]; [split; auto|].
    split.
    - intros [Hc Hl]. constructor; [exact Hc|apply IH, Hl].
    - intros Hcl. inversion Hcl as [|c0 l0 Hc Hl]. split; [exact Hc|apply IH, Hl]. }
  rewrite Hall. tauto.
Qed.

(* ------------------------------------------------------------------------------------------ *)
(* headers                                                                                     *)

Lemma maplen_code_fix c r : 128 <= c <= 143 -> maplen_code c r = Some (Some (c - 128), r).
Proof.
  intros Hc. unfold maplen_code. destruct (N.eqb_spec c 192); [lia|].
  destruct (N.leb_spec 128 c); [|lia]. destruct (N.leb_spec c 143); [reflexivity|lia].
Qed.
Lemma maplen_code_222 r : maplen_code 222 r = rd_be (N.of_nat 2) Some r. Proof. reflexivity. Qed.
Lemma maplen_code_223 r : maplen_code 223 r = rd_be (N.of_nat 4) Some r. Proof. reflexivity. Qed.

Lemma is_ext_map_codes c : 128 <= c <= 143 \/ c = 192 \/ c = 222 \/ c = 223 -> is_ext c = false.
Proof.
  intros Hc. unfold is_ext.
  destruct (N.leb_spec 199 c); destruct (N.leb_spec c 201); destruct (N.leb_spec 212 c); destruct (N.leb_spec c 216);
    cbn [andb orb]; try reflexivity; lia.
Qed.

Lemma dec_maplen_enc ext n rest : n < 2 ^ 32 -> dec_maplen ext (enc_map_hdr n ++ rest) = Some (Some n, rest).
Proof.
  rewrite pow_2_32. intros Hn. unfold enc_map_hdr.
  destruct (N.ltb_spec n 16) as [H1|H1].
  { cbn [app dec_maplen]. rewrite is_ext_map_codes by lia. rewrite andb_false_r.
    rewrite maplen_code_fix by lia. f_equal. f_equal. f_equal. lia. }
  destruct (N.leb_spec n 65535) as [H2|H2].
  { rewrite <- app_comm_cons. cbn [dec_maplen]. rewrite is_ext_map_codes by lia. rewrite andb_false_r.
    rewrite maplen_code_222. apply (rd_be_be 2 Some). rewrite pow_256_2. lia. }
  rewrite <- app_comm_cons. cbn [dec_maplen]. rewrite is_ext_map_codes by lia. rewrite andb_false_r.
  rewrite maplen_code_223. apply (rd_be_be 4 Some). rewrite pow_256_4. lia.
Qed.

Lemma enc_map_hdr_nonnil n rest : exists c r, enc_map_hdr n ++ rest = c :: r /\ c <> 192.
Proof.
  unfold enc_map_hdr. destruct (n <? 16) eqn:E1; [|destruct (n <=? 65535)].
  - apply N.ltb_lt in E1. exists (128 + n), rest. split; [reflexivity|lia].
  - exists 222, (be 2 n ++ rest). split; [reflexivity|lia].
  - exists 223, (be 4 n ++ rest). split; [reflexivity|lia].
Qed.
Lemma enc_arr_hdr_nonnil n rest : exists c r, enc_arr_hdr n ++ rest = c :: r /\ c <> 192.
Proof.
  unfold enc_arr_hdr. destruct (n <? 16) eqn:E1; [|destruct (n <=? 65535)].
  - apply N.ltb_lt in E1. exists (144 + n), rest. split; [reflexivity|lia].
  - exists 220, (be 2 n ++ rest). split; [reflexivity|lia].
  - exists 221, (be 4 n ++ rest). split; [reflexivity|lia].
Qed.

(* ------------------------------------------------------------------------------------------ *)
(* resource sets                                                                               *)

Lemma dk_s_enc s rest : wf_str s -> dk_s (enc_str (str_bytes s) ++ rest) = Some (s, rest).
Proof.
  unfold wf_str. intros Hs. unfold dk_s. rewrite dec_str_len_enc_str by (rewrite str_bytes_length; exact Hs).
  cbn [option_map fst snd]. rewrite bytes_str_str_bytes. reflexivity.
Qed.

Definition ent_s (e : string * N) : bytes := enc_str (str_bytes (fst e)) ++ enc_uint (snd e).
Definition ent_n (e : N * N) : bytes := enc_uint (fst e) ++ enc_uint (snd e).

Lemma ent_length_s e : (2 <= List.length (ent_s e))%nat.
Proof.
  unfold ent_s. rewrite app_length.
  pose proof (isval_nonempty _ (isval_uint (snd e))).
  assert (1 <= List.length (enc_str (str_bytes (fst e))))%nat; [|lia].
  unfold enc_str. rewrite app_length.
  destruct (N.of_nat (List.length (str_bytes (fst e))) <? 32); [cbn [List.length]; lia|].
  destruct (N.of_nat (List.length (str_bytes (fst e))) <? 256); [cbn [List.length]; lia|].
  destruct (N.of_nat (List.length (str_bytes (fst e))) <=? 65535); cbn [List.length]; lia.
Qed.
Lemma ent_length_n e : (2 <= List.length (ent_n e))%nat.
Proof.
  unfold ent_n. rewrite app_length.
  pose proof (isval_nonempty _ (isval_uint (fst e))). pose proof (isval_nonempty _ (isval_uint (snd e))). lia.
Qed.

Lemma flat_map_length_ge {A} (f : A -> bytes) l : (forall e, 2 <= List.length (f e))%nat ->
  (2 * List.length l <= List.length (flat_map f l))%nat.
Proof.
  intros Hf. induction l as [|e l IH]; [cbn; lia|]. cbn [flat_map List.length]. rewrite app_length.
  specialize (Hf e). lia.
Qed.

Lemma dec_rs_entries_enc_s s : forall acc rest,
  Forall (fun e => wf_str (fst e) /\ snd e < 2 ^ 16) s -> ksorted str_leb (acc ++ s) ->
  dec_rs_entries dk_s set_s (List.length s) acc (flat_map ent_s s ++ rest) = Some (acc ++ s, rest).
Proof.
  induction s as [|e s IH]; intros acc rest Hwf Hs.
  - cbn [List.length dec_rs_entries flat_map app]. rewrite app_nil_r. reflexivity.
  - inversion Hwf as [|e0 s0 [Hk Hv] Hwf']; subst.
    cbn [List.length dec_rs_entries flat_map]. unfold ent_s at 1. rewrite <- !app_assoc.
    rewrite dk_s_enc by exact Hk.
    rewrite dec_uint_len_enc_uint by (eapply N.lt_trans; [exact Hv|reflexivity]).
    rewrite N.mod_small by exact Hv.
    unfold set_s. rewrite set_k_last.
    + replace (fst e, snd e) with e by (destruct e; reflexivity).
      rewrite IH; [rewrite <- app_assoc; reflexivity|exact Hwf'|rewrite <- app_assoc; exact Hs].
    + replace (fst e, snd e) with e by (destruct e; reflexivity). apply (sorted_app_below _ _ _ s), Hs.
Qed.

Lemma dec_rs_entries_enc_n s : forall acc rest,
  Forall (fun e => fst e < 2 ^ 64 /\ snd e < 2 ^ 16) s -> ksorted N.leb (acc ++ s) ->
  dec_rs_entries dk_n set_n (List.length s) acc (flat_map ent_n s ++ rest) = Some (acc ++ s, rest).
Proof.
  induction s as [|e s IH]; intros acc rest Hwf Hs.
  - cbn [List.length dec_rs_entries flat_map app]. rewrite app_nil_r. reflexivity.
  - inversion Hwf as [|e0 s0 [Hk Hv] Hwf']; subst.
    cbn [List.length dec_rs_entries flat_map]. unfold ent_n at 1. rewrite <- !app_assoc.
    unfold dk_n. rewrite dec_uint_len_enc_uint by exact Hk.
    rewrite dec_uint_len_enc_uint by (eapply N.lt_trans; [exact Hv|reflexivity]).
    rewrite N.mod_small by exact Hv.
    unfold set_n. rewrite set_k_last.
    + replace (fst e, snd e) with e by (destruct e; reflexivity).
      rewrite IH; [rewrite <- app_assoc; reflexivity|exact Hwf'|rewrite <- app_assoc; exact Hs].
    + replace (fst e, snd e) with e by (destruct e; reflexivity). apply (sorted_app_below _ _ _ s), Hs.
Qed.

(* the canonical map decodes to the list itself, whatever the field held before is irrelevant when it held nothing *)
Lemma dec_rs_enc_s ext rs rest : wf_rs_s rs -> rs_canon_s rs ->
  dec_rs dk_s set_s ext None (enc_rs_s rs ++ rest) = Some (Some rs, rest).
Proof.
  intros [Hlen Hwf] [Hs Hm]. unfold enc_rs_s. rewrite sort_rs_s_sorted_id by exact Hs.
  unfold dec_rs. rewrite <- app_assoc, dec_maplen_enc by exact Hlen.
  pose proof (flat_map_length_ge ent_s rs ent_length_s) as Hge.
  fold ent_s. change (fun e : string * N => enc_str (str_bytes (fst e)) ++ enc_uint (snd e)) with ent_s.
  destruct (N.ltb_spec (N.of_nat (List.length (flat_map ent_s rs ++ rest))) (2 * N.of_nat (List.length rs))) as [Hlt|_].
  { rewrite app_length in Hlt. lia. }
  rewrite Nat2N.id. cbn [rs_list].
  rewrite (dec_rs_entries_enc_s rs [] rest); [reflexivity| |apply ksorted_s_iff, Hs].
  rewrite Forall_forall in *. intros e He. split; [apply (Hwf e He)|apply (Hm e He)].
Qed.

Lemma dec_rs_enc_n ext rs rest : wf_rs_n rs -> rs_canon_n rs ->
  dec_rs dk_n set_n ext None (enc_rs_n rs ++ rest) = Some (Some rs, rest).
Proof.
  intros [Hlen Hwf] [Hs Hm]. unfold enc_rs_n. rewrite sort_rs_n_sorted_id by exact Hs.
  unfold dec_rs. rewrite <- app_assoc, dec_maplen_enc by exact Hlen.
  pose proof (flat_map_length_ge ent_n rs ent_length_n) as Hge.
  change (fun e : N * N => enc_uint (fst e) ++ enc_uint (snd e)) with ent_n.
  destruct (N.ltb_spec (N.of_nat (List.length (flat_map ent_n rs ++ rest))) (2 * N.of_nat (List.length rs))) as [Hlt|_].
  { rewrite app_length in Hlt. lia. }
  rewrite Nat2N.id. cbn [rs_list].
  rewrite (dec_rs_entries_enc_n rs [] rest); [reflexivity| |apply ksorted_n_iff, Hs].
  rewrite Forall_forall in *. intros e He. split; [apply (Hwf e He)|apply (Hm e He)].
Qed.

(* ------------------------------------------------------------------------------------------ *)
(* []string, bool                                                                              *)

Lemma dec_strs_n_enc l : forall rest, Forall wf_str l ->
  dec_strs_n (List.length l) (flat_map (fun s => enc_str (str_bytes s)) l ++ rest) = Some (l, rest).
Proof.
  induction l as [|s l IH]; intros rest Hwf; [reflexivity|].
  inversion Hwf as [|s0 l0 Hs Hl]; subst. cbn [List.length dec_strs_n flat_map]. rewrite <- app_assoc.
  unfold wf_str in Hs. rewrite dec_str_len_enc_str by (rewrite str_bytes_length; exact Hs).
  rewrite IH by exact Hl. rewrite bytes_str_str_bytes. reflexivity.
Qed.

Lemma enc_str_length_ge s : (1 <= List.length (enc_str s))%nat.
Proof.
  unfold enc_str. rewrite app_length.
  destruct (N.of_nat (List.length s) <? 32); [cbn [List.length]; lia|].
  destruct (N.of_nat (List.length s) <? 256); [cbn [List.length]; lia|].
  destruct (N.of_nat (List.length s) <=? 65535); cbn [List.length]; lia.
Qed.

Lemma flat_map_length_ge1 {A} (f : A -> bytes) l : (forall e, 1 <= List.length (f e))%nat ->
  (List.length l <= List.length (flat_map f l))%nat.
Proof.
  intros Hf. induction l as [|e l IH]; [cbn; lia|]. cbn [flat_map List.length]. rewrite app_length.
  specialize (Hf e). lia.
Qed.

Lemma dec_strs_len_enc l rest : wf_strs l -> dec_strs_len (enc_strs l ++ rest) = Some (Some l, rest).
Proof.
  intros [Hlen Hwf]. unfold enc_strs. rewrite <- app_assoc.
  destruct (enc_arr_hdr_nonnil (N.of_nat (List.length l))
              (flat_map (fun s => enc_str (str_bytes s)) l ++ rest)) as (c & r & Heq & Hc).
  unfold dec_strs_len. rewrite Heq. destruct (N.eqb_spec c 192) as [->|_]; [contradiction|].
  rewrite <- Heq. rewrite dec_arr_hdr_enc by exact Hlen.
  pose proof (flat_map_length_ge1 (fun s => enc_str (str_bytes s)) l (fun s => enc_str_length_ge _)) as Hge.
  destruct (N.ltb_spec (N.of_nat (List.length (flat_map (fun s => enc_str (str_bytes s)) l ++ rest)))
              (N.of_nat (List.length l))) as [Hlt|_].
  { rewrite app_length in Hlt. lia. }
  rewrite Nat2N.id, dec_strs_n_enc by exact Hwf. reflexivity.
Qed.

Lemma dec_bool_len_enc b rest : dec_bool_len (enc_bool b ++ rest) = Some (b, rest).
Proof. destruct b; reflexivity. Qed.

(* ------------------------------------------------------------------------------------------ *)
(* struct fields on the canonical encoding                                                     *)

Section FieldsEnc.
  Variables (ext pz : bool) (ds : bytes -> option (list cav * bytes)).

  Lemma dec_field2_str cur s rest : wf_str s ->
    dec_field2 ext pz ds KS cur (enc_str (str_bytes s) ++ rest) = Some (WS s, rest).
  Proof.
    unfold wf_str. intros Hs. cbn [dec_field2]. rewrite dec_str_len_enc_str by (rewrite str_bytes_length; exact Hs).
    cbn [option_map fst snd]. rewrite bytes_str_str_bytes. reflexivity.
  Qed.
  Lemma dec_field2_obin cur o rest : wf_obin o -> dec_field2 ext pz ds KB cur (enc_obin o ++ rest) = Some (WB o, rest).
  Proof. intros Ho. cbn [dec_field2]. rewrite dec_bytes_len_enc_obin by exact Ho. reflexivity. Qed.
  Lemma dec_field2_uint bits cur n rest : n < 2 ^ bits -> n < 2 ^ 64 ->
    dec_field2 ext pz ds (KU bits) cur (enc_uint n ++ rest) = Some (WU n, rest).
  Proof.
    intros Hb Hn. cbn [dec_field2]. rewrite dec_uint_len_enc_uint by exact Hn. cbn [option_map fst snd].
    rewrite N.mod_small by exact Hb. reflexivity.
  Qed.
  Lemma dec_field2_ostrs o rest : wf_ostrs o -> dec_field2 ext pz ds KL (WL None) (enc_ostrs o ++ rest) = Some (WL o, rest).
  Proof.
    destruct o as [l|]; cbn [wf_ostrs enc_ostrs dec_field2].
    - intros Hl. rewrite dec_strs_len_enc by exact Hl. reflexivity.
    - intros _. reflexivity.
  Qed.
  Lemma dec_field2_bool cur b rest : dec_field2 ext pz ds KBool cur (enc_bool b ++ rest) = Some (WBool b, rest).
  Proof. cbn [dec_field2]. rewrite dec_bool_len_enc. reflexivity. Qed.
  Lemma dec_field2_rs_s rs rest : wf_rs_s rs -> rs_canon_s rs ->
    dec_field2 ext pz ds KRS (WRS None) (enc_rs_s rs ++ rest) = Some (WRS (Some rs), rest).
  Proof. intros Hwf Hc. cbn [dec_field2 cur_rs]. rewrite dec_rs_enc_s by assumption. reflexivity. Qed.
  Lemma dec_field2_rs_n rs rest : wf_rs_n rs -> rs_canon_n rs ->
    dec_field2 ext pz ds KRN (WRN None) (enc_rs_n rs ++ rest) = Some (WRN (Some rs), rest).
  Proof. intros Hwf Hc. cbn [dec_field2 cur_rn]. rewrite dec_rs_enc_n by assumption. reflexivity. Qed.
  Lemma dec_field2_set_nil rest : dec_field2 ext pz ds KSet (WSet None) (enc_nil ++ rest) = Some (WSet None, rest).
  Proof. reflexivity. Qed.
  Lemma dec_field2_set l cs rest c r : l = c :: r -> c <> 192 -> ds l = Some (cs, rest) ->
    dec_field2 ext pz ds KSet (WSet None) l = Some (WSet (Some cs), rest).
  Proof.
    intros -> Hc Hds. cbn [dec_field2]. destruct (N.eqb_spec c 192); [contradiction|].
    rewrite Hds. reflexivity.
  Qed.

  (* an array whose length is the number of fields: the fields in order *)
  Lemma dec_struct2_arr sch c r : 144 < c -> c <= 159 -> c - 144 = N.of_nat (List.length sch) ->
    dec_struct2 ext pz ds sch (c :: r) = dec_fields2 ext pz ds (map snd sch) r.
  Proof.
    intros H1 H2 Hlen. unfold dec_struct2.
    destruct (N.eqb_spec c 192); [lia|].
    destruct (N.leb_spec 128 c); [|lia]. destruct (N.leb_spec c 143); [lia|]. cbn [andb].
    destruct (N.eqb_spec c 222); [lia|]. destruct (N.eqb_spec c 223); [lia|].
    rewrite dec_arr_hdr_fix by lia.
    destruct (N.eqb_spec (c - 144) 0); [lia|].
    destruct (N.eqb_spec (c - 144) (N.of_nat (List.length sch))); [reflexivity|lia].
  Qed.
  Lemma dec_struct2_arr1 sch x : List.length sch = 1%nat ->
    dec_struct2 ext pz ds sch (arr1 ++ x) = dec_fields2 ext pz ds (map snd sch) x.
  Proof. intros Hl. unfold arr1. cbn [app]. apply dec_struct2_arr; [lia|lia|rewrite Hl; reflexivity]. Qed.
  Lemma dec_struct2_arr2 sch x : List.length sch = 2%nat ->
    dec_struct2 ext pz ds sch (arr2 ++ x) = dec_fields2 ext pz ds (map snd sch) x.
  Proof. intros Hl. unfold arr2. cbn [app]. apply dec_struct2_arr; [lia|lia|rewrite Hl; reflexivity]. Qed.
  Lemma dec_struct2_arr3 sch x : List.length sch = 3%nat ->
    dec_struct2 ext pz ds sch (arr3 ++ x) = dec_fields2 ext pz ds (map snd sch) x.
  Proof. intros Hl. unfold arr3. cbn [app]. apply dec_struct2_arr; [lia|lia|rewrite Hl; reflexivity]. Qed.

  (* ---- the non-scalar types, one by one *)
  Ltac leaf_ty := unfold dec_leaf2; cbn [N.eqb Pos.eqb].

  Lemma dec_rs_cav_enc name Kc rs rest : wf_rs_s rs -> rs_canon_s rs ->
    dec_rs_cav ext pz ds name Kc (arr1 ++ enc_rs_s rs ++ rest) = Some (Kc rs, rest).
  Proof.
    intros Hwf Hc. unfold dec_rs_cav. rewrite dec_struct2_arr1 by reflexivity.
    unfold sch_rs. cbn [map snd dec_fields2 fzero2]. rewrite dec_field2_rs_s by assumption. reflexivity.
  Qed.

  Lemma dec_leaf2_volumes rs rest : wf_rs_s rs -> rs_canon_s rs ->
    dec_leaf2 ext pz ds 2 (arr1 ++ enc_rs_s rs ++ rest) = Some (CVolumes rs, rest).
  Proof. intros. leaf_ty. apply dec_rs_cav_enc; assumption. Qed.
  Lemma dec_leaf2_features rs rest : wf_rs_s rs -> rs_canon_s rs ->
    dec_leaf2 ext pz ds 5 (arr1 ++ enc_rs_s rs ++ rest) = Some (CFeatureSet rs, rest).
  Proof. intros. leaf_ty. apply dec_rs_cav_enc; assumption. Qed.
  Lemma dec_leaf2_machines rs rest : wf_rs_s rs -> rs_canon_s rs ->
    dec_leaf2 ext pz ds 7 (arr1 ++ enc_rs_s rs ++ rest) = Some (CMachines rs, rest).
  Proof. intros. leaf_ty. apply dec_rs_cav_enc; assumption. Qed.
  Lemma dec_leaf2_machine_features rs rest : wf_rs_s rs -> rs_canon_s rs ->
    dec_leaf2 ext pz ds 14 (arr1 ++ enc_rs_s rs ++ rest) = Some (CMachineFeatureSet rs, rest).
  Proof. intros. leaf_ty. apply dec_rs_cav_enc; assumption. Qed.
  Lemma dec_leaf2_clusters rs rest : wf_rs_s rs -> rs_canon_s rs ->
    dec_leaf2 ext pz ds 16 (arr1 ++ enc_rs_s rs ++ rest) = Some (CClusters rs, rest).
  Proof. intros. leaf_ty. apply dec_rs_cav_enc; assumption. Qed.
  Lemma dec_leaf2_app_features rs rest : wf_rs_s rs -> rs_canon_s rs ->
    dec_leaf2 ext pz ds 28 (arr1 ++ enc_rs_s rs ++ rest) = Some (CAppFeatureSet rs, rest).
  Proof. intros. leaf_ty. apply dec_rs_cav_enc; assumption. Qed.
  Lemma dec_leaf2_storage rs rest : wf_rs_s rs -> rs_canon_s rs ->
    dec_leaf2 ext pz ds 29 (arr1 ++ enc_rs_s rs ++ rest) = Some (CStorageObjects rs, rest).
  Proof. intros. leaf_ty. apply dec_rs_cav_enc; assumption. Qed.

  Lemma dec_leaf2_apps rs rest : wf_rs_n rs -> rs_canon_n rs ->
    dec_leaf2 ext pz ds 3 (arr1 ++ enc_rs_n rs ++ rest) = Some (CApps rs, rest).
  Proof.
    intros Hwf Hc. leaf_ty. rewrite dec_struct2_arr1 by reflexivity.
    unfold sch_apps. cbn [map snd dec_fields2 fzero2]. rewrite dec_field2_rs_n by assumption. reflexivity.
  Qed.

  Lemma dec_leaf2_mutations o rest : wf_ostrs o ->
    dec_leaf2 ext pz ds 6 (arr1 ++ enc_ostrs o ++ rest) = Some (CMutations o, rest).
  Proof.
    intros Hwf. leaf_ty. rewrite dec_struct2_arr1 by reflexivity.
    unfold sch_mut. cbn [map snd dec_fields2 fzero2]. rewrite dec_field2_ostrs by assumption. reflexivity.
  Qed.

  Lemma dec_leaf2_3p loc vk tk rest : wf_str loc -> wf_obin vk -> wf_obin tk ->
    dec_leaf2 ext pz ds 11 (arr3 ++ enc_str (str_bytes loc) ++ enc_obin vk ++ enc_obin tk ++ rest) = Some (C3P loc vk tk, rest).
  Proof.
    intros Hl Hv Ht. leaf_ty. rewrite dec_struct2_arr3 by reflexivity.
    unfold sch_3p. cbn [map snd dec_fields2 fzero2].
    rewrite dec_field2_str by exact Hl. rewrite dec_field2_obin by exact Hv. rewrite dec_field2_obin by exact Ht.
    reflexivity.
  Qed.

  Lemma dec_leaf2_ifp_none els rest : els < 2 ^ 16 ->
    dec_leaf2 ext pz ds 13 (arr2 ++ enc_nil ++ enc_uint els ++ rest) = Some (CIfPresent None els, rest).
  Proof.
    intros He. leaf_ty. rewrite dec_struct2_arr2 by reflexivity.
    unfold sch_ifp. cbn [map snd dec_fields2 fzero2]. rewrite dec_field2_set_nil.
    rewrite dec_field2_uint; [reflexivity|exact He|eapply N.lt_trans; [exact He|reflexivity]].
  Qed.

  Lemma dec_leaf2_ifp_some l (setb : bytes) els rest c r : els < 2 ^ 16 ->
    setb ++ enc_uint els ++ rest = c :: r -> c <> 192 ->
    ds (setb ++ enc_uint els ++ rest) = Some (l, enc_uint els ++ rest) ->
    dec_leaf2 ext pz ds 13 (arr2 ++ setb ++ enc_uint els ++ rest) = Some (CIfPresent (Some l) els, rest).
  Proof.
    intros He Heq Hc Hds. leaf_ty. rewrite dec_struct2_arr2 by reflexivity.
    unfold sch_ifp. cbn [map snd dec_fields2 fzero2].
    rewrite (dec_field2_set _ l (enc_uint els ++ rest) c r Heq Hc Hds).
    rewrite dec_field2_uint; [reflexivity|exact He|eapply N.lt_trans; [exact He|reflexivity]].
  Qed.

  (* Commands *)
  Definition enc_cmd (ce : option (list string) * bool) : bytes := arr2 ++ enc_ostrs (fst ce) ++ enc_bool (snd ce).

  Lemma dec_cmds_n_enc l : forall rest, Forall (fun ce => wf_ostrs (fst ce)) l ->
    dec_cmds_n ext pz ds (List.length l) (flat_map enc_cmd l ++ rest) = Some (l, rest).
  Proof.
    induction l as [|ce l IH]; intros rest Hwf; [reflexivity|].
    inversion Hwf as [|ce0 l0 Hce Hl]; subst. cbn [List.length dec_cmds_n flat_map]. unfold enc_cmd at 1.
    rewrite <- !app_assoc. rewrite dec_struct2_arr2 by reflexivity.
    unfold sch_cmd. cbn [map snd dec_fields2 fzero2].
    rewrite dec_field2_ostrs by exact Hce. rewrite dec_field2_bool. rewrite IH by exact Hl.
    destruct ce; reflexivity.
  Qed.

  Lemma enc_cmd_length_ge ce : (1 <= List.length (enc_cmd ce))%nat.
  Proof. unfold enc_cmd, arr2. cbn [app List.length]. lia. Qed.

  Lemma dec_leaf2_commands cmds rest : wf_cav (CCommands cmds) -> forall b, enc_body (CCommands cmds) = Some b ->
    dec_leaf2 ext pz ds 27 (b ++ rest) = Some (CCommands cmds, rest).
  Proof.
    intros Hwf b Hb. leaf_ty. cbn [enc_body] in Hb. destruct cmds as [l|]; injection Hb as <-; [|reflexivity].
    cbn [wf_cav] in Hwf. destruct Hwf as [Hlen Hall]. rewrite <- app_assoc.
    change (flat_map (fun ce : option (list string) * bool => 146 :: enc_ostrs (fst ce) ++ enc_bool (snd ce)) l)
      with (flat_map enc_cmd l).
    destruct (enc_arr_hdr_nonnil (N.of_nat (List.length l)) (flat_map enc_cmd l ++ rest)) as (c & r & Heq & Hc).
    unfold dec_commands. rewrite Heq. destruct (N.eqb_spec c 192) as [->|_]; [contradiction|].
    rewrite <- Heq. rewrite dec_arr_hdr_enc by exact Hlen.
    pose proof (flat_map_length_ge1 enc_cmd l enc_cmd_length_ge) as Hge.
    destruct (N.ltb_spec (N.of_nat (List.length (flat_map enc_cmd l ++ rest))) (N.of_nat (List.length l))) as [Hlt|_].
    { rewrite app_length in Hlt. lia. }
    rewrite Nat2N.id, dec_cmds_n_enc by exact Hall. reflexivity.
  Qed.
End FieldsEnc.

(* ------------------------------------------------------------------------------------------ *)
(* caveat sets                                                                                 *)

Lemma dec_items_enc dc (bound : nat) l :
  Forall (fun c => forall b rest, enc_body c = Some b -> (List.length (b ++ rest) < bound)%nat ->
                   dc (cav_type c) (b ++ rest) = Some (c, rest)) l ->
  Forall wf_cav l -> forall inner tl, enc_frames l = Some inner -> (List.length (inner ++ tl) < bound)%nat ->
  dec_items dc (List.length l) (inner ++ tl) = Some (l, tl).
Proof.
  induction 1 as [|c l Hc _ IH]; intros Hwf inner tl Henc Hlen; cbn [enc_frames] in Henc.
  - injection Henc as <-. reflexivity.
  - inversion Hwf as [|c0 l0 Hwc Hwl]; subst.
    destruct (enc_body c) as [b|] eqn:Eb; [|discriminate].
    destruct (enc_frames l) as [restf|] eqn:Er; [|discriminate].
    injection Henc as <-. cbn [List.length dec_items]. rewrite <- !app_assoc.
    rewrite dec_uint_len_enc_uint by (apply cav_type_lt, Hwc).
    rewrite <- !app_assoc in Hlen. rewrite app_length in Hlen.
    rewrite (Hc b (restf ++ tl) eq_refl) by lia.
    rewrite (IH Hwl restf tl eq_refl); [reflexivity|]. rewrite !app_length in *. lia.
Qed.

Lemma dec_set_rest_enc dc l inner tl : Forall wf_cav l -> N.of_nat (List.length l) < 2 ^ 31 -> enc_frames l = Some inner ->
  dec_items dc (List.length l) (inner ++ tl) = Some (l, tl) ->
  dec_set_rest dc (enc_arr_hdr (2 * N.of_nat (List.length l)) ++ inner ++ tl) = Some (l, tl).
Proof.
  rewrite pow_2_31. intros Hwf Hlen Henc Hit. unfold dec_set_rest.
  pose proof (enc_frames_length l inner Hwf Henc) as Hfl.
  remember (N.of_nat (List.length l)) as m eqn:Hm.
  rewrite dec_arr_hdr_enc by (rewrite pow_2_32; lia). rewrite odd_double.
  destruct (N.ltb_spec (N.of_nat (List.length (inner ++ tl))) (2 * m)) as [Hlt|_].
  { rewrite app_length in Hlt. lia. }
  replace (2 * m / 2) with m by lia. rewrite Hm, Nat2N.id. exact Hit.
Qed.

(* ------------------------------------------------------------------------------------------ *)
(* the round trip, for every caveat and any nesting depth                                      *)

Lemma reg_ty_false ty : reg_ty ty = false -> scalar_ty ty = false /\ nonscalar_ty ty = false.
Proof. unfold reg_ty. apply orb_false_iff. Qed.

Lemma dec_unreg_enc ty body rest : skip (S (List.length body)) body = Some [] -> gen_ok body = true ->
  dec_unreg ty (body ++ rest) = Some (CUnregistered ty body, rest).
Proof.
  intros Hsk Hg. unfold dec_unreg.
  rewrite (isval_skip body rest _ (isval_unregistered body Hsk)) by lia.
  rewrite firstn_app_exact, Hg. reflexivity.
Qed.

Ltac fold_arr2 :=
  match goal with
  | |- context [145 :: ?x] => change (145 :: x) with (arr1 ++ x)
  | |- context [146 :: ?x] => change (146 :: x) with (arr2 ++ x)
  | |- context [147 :: ?x] => change (147 :: x) with (arr3 ++ x)
  | _ => idtac
  end.

Theorem dec_cav_enc_body_l ext pz c : wf_cav c -> canon_cav c -> forall b, enc_body c = Some b ->
  forall fuel rest, (List.length (b ++ rest) < fuel)%nat ->
  dec_cav ext pz fuel (cav_type c) (b ++ rest) = Some (c, rest).
Proof.
  induction c as [c Hleaf|els|l els IH] using cav_ind'.
  - (* everything but IfPresent *)
    intros Hwf Hcan b Hb fuel rest Hfuel. destruct fuel as [|f]; [lia|]. clear Hfuel.
    destruct (scalar_cav c) eqn:Hs.
    { (* the scalar-bodied types: Model.TypedDec *)
      assert (Hty : scalar_ty (cav_type c) = true) by (destruct c; try discriminate Hs; reflexivity).
      cbn [dec_cav]. rewrite Hty.
      rewrite (dec_body_rest_enc_body_l c Hs Hwf b rest Hb).
      rewrite trunc_cav_fits; [reflexivity|]. destruct c; apply Hcan. }
    destruct c; try discriminate Hs; try (exfalso; exact (Hleaf _ _ eq_refl));
      cbn [canon_cav] in Hcan; destruct Hcan as [_ Hcan];
      try (cbn [enc_body] in Hb; injection Hb as <-; cbn [cav_type dec_cav wf_cav] in *;
           cbn [scalar_ty nonscalar_ty existsb N.eqb Pos.eqb orb]; cbn [List.app]; rewrite <- ?app_assoc; fold_arr2).
    + apply dec_leaf2_volumes; assumption.
    + apply dec_leaf2_apps; assumption.
    + apply dec_leaf2_features; assumption.
    + apply dec_leaf2_mutations; assumption.
    + apply dec_leaf2_machines; assumption.
    + destruct Hwf as (Hl & Hv & Ht). apply dec_leaf2_3p; assumption.
    + apply dec_leaf2_machine_features; assumption.
    + apply dec_leaf2_clusters; assumption.
    + cbn [cav_type dec_cav]. cbn [scalar_ty nonscalar_ty existsb N.eqb Pos.eqb orb].
      apply dec_leaf2_commands; assumption.
    + apply dec_leaf2_app_features; assumption.
    + apply dec_leaf2_storage; assumption.
    + (* unregistered *)
      destruct Hcan as [Hreg Hg]. destruct (reg_ty_false _ Hreg) as [Hs1 Hs2].
      cbn [cav_type dec_cav]. rewrite Hs1, Hs2.
      cbn [wf_cav] in Hwf. destruct Hwf as [_ Hsk].
      cbn [enc_body] in Hb. destruct body as [|x body]; [discriminate|]. injection Hb as <-.
      apply dec_unreg_enc; assumption.
  - (* IfPresent without a set *)
    intros Hwf Hcan b Hb fuel rest Hfuel. destruct fuel as [|f]; [lia|].
    cbn [canon_cav] in Hcan. destruct Hcan as (_ & Hels & _).
    cbn [enc_body] in Hb. injection Hb as <-.
    cbn [cav_type dec_cav]. cbn [scalar_ty nonscalar_ty existsb N.eqb Pos.eqb orb].
    change ((146 :: 192 :: enc_uint els) ++ rest) with (arr2 ++ enc_nil ++ enc_uint els ++ rest).
    apply dec_leaf2_ifp_none, Hels.
  - (* IfPresent with a set: the members by induction *)
    rewrite wf_cav_ifs, canon_cav_ifs, enc_body_ifs. intros (Hels64 & Hlen & Hwf) (Hels & Hcan) b Hb fuel rest Hfuel.
    destruct (enc_frames l) as [inner|] eqn:Ei; [|discriminate].
    assert (Hbeq : b = arr2 ++ enc_arr_hdr (2 * N.of_nat (List.length l)) ++ inner ++ enc_uint els) by congruence.
    subst b. clear Hb.
    destruct fuel as [|f]; [lia|].
    cbn [cav_type dec_cav]. cbn [scalar_ty nonscalar_ty existsb N.eqb Pos.eqb orb]. rewrite <- !app_assoc.
    rewrite <- !app_assoc in Hfuel. unfold arr2 in Hfuel. cbn [app List.length] in Hfuel. rewrite app_length in Hfuel.
    destruct (enc_arr_hdr_nonnil (2 * N.of_nat (List.length l)) (inner ++ enc_uint els ++ rest)) as (c0 & r0 & Heq & Hc0).
    rewrite (app_assoc (enc_arr_hdr _) inner) in Heq.
    rewrite (app_assoc (enc_arr_hdr _) inner).
    apply (dec_leaf2_ifp_some ext pz _ l (enc_arr_hdr (2 * N.of_nat (List.length l)) ++ inner) els rest c0 r0 Hels Heq Hc0).
    rewrite <- app_assoc. apply dec_set_rest_enc; [exact Hwf|exact Hlen|exact Ei|].
    apply (dec_items_enc _ f); [|exact Hwf|exact Ei|lia].
    rewrite Forall_forall in *. intros c Hin b rest' Hb Hl. apply IH; [exact Hin|apply Hwf, Hin|apply Hcan, Hin|exact Hb|exact Hl].
Qed.

(* the requested statement ([fits_cav c] is part of [canon_cav c]; it is kept for symmetry with dec_body_enc_body_l) *)
Theorem dec_body2_enc_body_gen_l ext pz c : wf_cav c -> fits_cav c = true -> canon_cav c -> forall b, enc_body c = Some b ->
  dec_body2_gen ext pz (cav_type c) b = Some c.
Proof.
  intros Hwf _ Hcan b Hb. unfold dec_body2_gen, dec_body2_rest_gen. rewrite <- (app_nil_r b) at 2.
  rewrite (dec_cav_enc_body_l ext pz c Hwf Hcan b Hb); [reflexivity|]. rewrite app_nil_r. lia.
Qed.

Theorem dec_body2_enc_body_l c : wf_cav c -> fits_cav c = true -> canon_cav c -> forall b, enc_body c = Some b ->
  dec_body2 (cav_type c) b = Some c.
Proof. apply dec_body2_enc_body_gen_l. Qed.

(* followed by anything: exactly the bytes that followed are left *)
Theorem dec_body2_rest_enc_body_l c : wf_cav c -> canon_cav c -> forall b rest, enc_body c = Some b ->
  dec_body2_rest (cav_type c) (b ++ rest) = Some (c, rest).
Proof.
  intros Hwf Hcan b rest Hb. unfold dec_body2_rest, dec_body2_rest_gen. apply dec_cav_enc_body_l; [assumption..|lia].
Qed.

Theorem dec_set_typed_enc_set_gen_l ext pz cs : Forall wf_cav cs -> Forall canon_cav cs -> N.of_nat (List.length cs) < 2 ^ 31 ->
  forall b, enc_set cs = Some b -> dec_set_typed_gen ext pz b = Some cs.
Proof.
  intros Hwf Hcan Hlen b Henc. destruct (enc_set_Some cs b Henc) as (fr & Ef & ->).
  destruct (enc_arr_hdr_nonnil (2 * N.of_nat (List.length cs)) fr) as (c0 & r0 & Heq & Hc0).
  unfold dec_set_typed_gen. rewrite Heq. destruct (N.eqb_spec c0 192) as [->|_]; [contradiction|]. rewrite <- Heq.
  rewrite <- (app_nil_r fr) at 2.
  rewrite (dec_set_rest_enc _ cs fr [] Hwf Hlen Ef); [reflexivity|].
  apply (dec_items_enc _ (S (List.length (enc_arr_hdr (2 * N.of_nat (List.length cs)) ++ fr)))); [|exact Hwf|exact Ef|].
  - rewrite Forall_forall in *. intros c Hin b rest Hb Hl.
    apply dec_cav_enc_body_l; [apply Hwf, Hin|apply Hcan, Hin|exact Hb|exact Hl].
  - rewrite app_nil_r, app_length. lia.
Qed.

Theorem dec_set_typed_enc_set_l cs : Forall wf_cav cs -> Forall canon_cav cs -> N.of_nat (List.length cs) < 2 ^ 31 ->
  forall b, enc_set cs = Some b -> dec_set_typed b = Some cs.
Proof. apply dec_set_typed_enc_set_gen_l. Qed.

(* a list of any depth: the example of CodecProofs, wrapped three times *)
Example dec_set_typed_example :
  let c := CIfPresent (Some [COrganization 5 1; CUnregistered 99 [147; 1; 204; 200; 161; 65]; CVolumes [("a", 1); ("b", 3)]%string]) 1 in
  let cs := [CIfPresent (Some [CIfPresent (Some [c; CApps [(1, 2); (7, 1)]]) 0; CCommands (Some [(None, true)])]) 3; CMutations None] in
  option_map dec_set_typed (enc_set cs) = Some (Some cs).
Proof. vm_compute. reflexivity. Qed.

(* ------------------------------------------------------------------------------------------ *)
(* resource sets that are not listed in ascending order: the decoder returns the sorted list    *)

Lemma sort_rs_s_idem rs : NoDup (map fst rs) -> sort_rs_s (sort_rs_s rs) = sort_rs_s rs.
Proof. intros Hnd. apply sort_rs_s_sorted_id, sort_rs_s_sorted_strict, Hnd. Qed.
Lemma sort_rs_n_idem rs : NoDup (map fst rs) -> sort_rs_n (sort_rs_n rs) = sort_rs_n rs.
Proof. intros Hnd. apply sort_rs_n_sorted_id, sort_rs_n_sorted_strict, Hnd. Qed.

Lemma enc_rs_s_sort rs : NoDup (map fst rs) -> enc_rs_s (sort_rs_s rs) = enc_rs_s rs.
Proof. intros Hnd. unfold enc_rs_s. rewrite sort_rs_s_length, sort_rs_s_idem by exact Hnd. reflexivity. Qed.
Lemma enc_rs_n_sort rs : NoDup (map fst rs) -> enc_rs_n (sort_rs_n rs) = enc_rs_n rs.
Proof. intros Hnd. unfold enc_rs_n. rewrite sort_rs_n_length, sort_rs_n_idem by exact Hnd. reflexivity. Qed.

(* a Go map has no repeated keys; in whatever order the model lists it, the canonical bytes decode to the ascending list *)
Lemma dec_rs_enc_s_nodup ext rs rest : wf_rs_s rs -> NoDup (map fst rs) -> Forall (fun e => snd e < 2 ^ 16) rs ->
  dec_rs dk_s set_s ext None (enc_rs_s rs ++ rest) = Some (Some (sort_rs_s rs), rest).
Proof.
  intros [Hlen Hwf] Hnd Hm. rewrite <- enc_rs_s_sort by exact Hnd. apply dec_rs_enc_s.
  - split; [rewrite sort_rs_s_length; exact Hlen|apply Forall_sort_rs_s, Hwf].
  - split; [apply sort_rs_s_sorted_strict, Hnd|apply Forall_sort_rs_s, Hm].
Qed.
Lemma dec_rs_enc_n_nodup ext rs rest : wf_rs_n rs -> NoDup (map fst rs) -> Forall (fun e => snd e < 2 ^ 16) rs ->
  dec_rs dk_n set_n ext None (enc_rs_n rs ++ rest) = Some (Some (sort_rs_n rs), rest).
Proof.
  intros [Hlen Hwf] Hnd Hm. rewrite <- enc_rs_n_sort by exact Hnd. apply dec_rs_enc_n.
  - split; [rewrite sort_rs_n_length; exact Hlen|apply Forall_sort_rs_n, Hwf].
  - split; [apply sort_rs_n_sorted_strict, Hnd|apply Forall_sort_rs_n, Hm].
Qed.

(* the normal form of a top-level resource-set caveat, and the round trip up to it *)
Definition norm_cav (c : cav) : cav :=
  match c with
  | CVolumes rs => CVolumes (sort_rs_s rs) | CFeatureSet rs => CFeatureSet (sort_rs_s rs) | CMachines rs => CMachines (sort_rs_s rs)
  | CMachineFeatureSet rs => CMachineFeatureSet (sort_rs_s rs) | CClusters rs => CClusters (sort_rs_s rs)
  | CAppFeatureSet rs => CAppFeatureSet (sort_rs_s rs) | CStorageObjects rs => CStorageObjects (sort_rs_s rs)
  | CApps rs => CApps (sort_rs_n rs)
  | other => other
  end.
Definition rs_nodup (c : cav) : Prop :=
  match c with
  | CVolumes rs | CFeatureSet rs | CMachines rs | CMachineFeatureSet rs | CClusters rs | CAppFeatureSet rs
  | CStorageObjects rs => NoDup (map fst rs) /\ Forall (fun e => snd e < 2 ^ 16) rs
  | CApps rs => NoDup (map fst rs) /\ Forall (fun e => snd e < 2 ^ 16) rs
  | _ => False
  end.

Theorem dec_body2_enc_body_norm_l c : wf_cav c -> rs_nodup c -> forall b, enc_body c = Some b ->
  dec_body2 (cav_type c) b = Some (norm_cav c) /\ enc_body (norm_cav c) = Some b.
Proof.
  intros Hwf Hnd b Hb.
  assert (Henc : enc_body (norm_cav c) = Some b).
  { destruct c; try contradiction; cbn [rs_nodup] in Hnd; destruct Hnd as [Hnd _]; cbn [norm_cav enc_body] in *;
      rewrite ?enc_rs_s_sort, ?enc_rs_n_sort by exact Hnd; exact Hb. }
  split; [|exact Henc].
  assert (Hty : cav_type (norm_cav c) = cav_type c) by (destruct c; reflexivity). rewrite <- Hty.
  apply dec_body2_enc_body_l; [| |
    |exact Henc].
  - destruct c; try contradiction; cbn [rs_nodup wf_cav norm_cav] in *; destruct Hwf as [Hlen Hall];
      (split; [rewrite ?sort_rs_s_length, ?sort_rs_n_length; exact Hlen|first [apply Forall_sort_rs_s|apply Forall_sort_rs_n]; exact Hall]).
  - destruct c; try contradiction; reflexivity.
  - destruct c; try contradiction; cbn [rs_nodup norm_cav canon_cav fits_cav] in *; destruct Hnd as [Hnd Hm];
      (split; [reflexivity|split; [first [apply sort_rs_s_sorted_strict|apply sort_rs_n_sorted_strict]; exact Hnd
                                  |first [apply Forall_sort_rs_s|apply Forall_sort_rs_n]; exact Hm]]).
Qed.

(* ------------------------------------------------------------------------------------------ *)
(* the registry                                                                                *)

Example reg_ty_is_the_registry :
  forallb (fun e => reg_ty (fst (fst (fst e)))) Generated.Facts.registered = true /\
  filter reg_ty (map N.of_nat (seq 0 300)) = map (fun e => fst (fst (fst e))) Generated.Facts.registered.
Proof. vm_compute. split; reflexivity. Qed.

(* ------------------------------------------------------------------------------------------ *)
(* the surprises, with their bytes (each of these inputs is also a case of the correspondence run: t2Documented in
   harness/cmd/corr/c11_typed2.go; the library answered as the model does)                       *)

Local Open Scope string_scope.

Example surprise2_ext_header_before_map :       (* 91 d4 00 81 a1 61 01: a fixext1 header in front of the map is skipped;
                                                   likewise c7 05 00 (ext8), c8 00 05 00 (ext16), c9 00 00 00 05 00 (ext32),
                                                   and d8 07 c0: a fixext16 header in front of a NIL map *)
  dec_body2 2 [145; 212; 0; 129; 161; 97; 1] = Some (CVolumes [("a", 1)]) /\
  dec_body2 2 [145; 199; 5; 0; 129; 161; 97; 1] = Some (CVolumes [("a", 1)]) /\
  dec_body2 2 [145; 200; 0; 5; 0; 129; 161; 97; 1] = Some (CVolumes [("a", 1)]) /\
  dec_body2 2 [145; 201; 0; 0; 0; 5; 0; 129; 161; 97; 1] = Some (CVolumes [("a", 1)]) /\
  dec_body2 2 [145; 216; 7; 192] = Some (CVolumes []) /\
  dec_body2_gen false false 2 [145; 212; 0; 129; 161; 97; 1] = None.
Proof. vm_compute. repeat split. Qed.

Example surprise2_map_order_and_duplicates :    (* 91 82 a1 62 01 a1 61 02: any key order; 91 82 a1 61 01 a1 61 02: the later
                                                   mask wins; a str key and a bin key are the same key; masks are cut to 16 bits *)
  dec_body2 2 [145; 130; 161; 98; 1; 161; 97; 2] = Some (CVolumes [("a", 2); ("b", 1)]) /\
  dec_body2 2 [145; 130; 161; 97; 1; 161; 97; 2] = Some (CVolumes [("a", 2)]) /\
  dec_body2 2 [145; 130; 161; 97; 1; 196; 1; 97; 206; 0; 1; 0; 7] = Some (CVolumes [("a", 7)]).
Proof. vm_compute. repeat split. Qed.

Example surprise2_nil_keys :                    (* a nil key is "" resp. 0, a nil mask is 0, ff as a key is app 2^64-1 *)
  dec_body2 2 [145; 129; 192; 1] = Some (CVolumes [("", 1)]) /\
  dec_body2 3 [145; 129; 192; 192] = Some (CApps [(0, 0)]) /\
  dec_body2 3 [145; 129; 255; 1] = Some (CApps [(18446744073709551615, 1)]) /\
  dec_body2 3 [145; 130; 1; 1; 204; 1; 2] = Some (CApps [(1, 2)]).
Proof. vm_compute. repeat split. Qed.

Example surprise2_nil_and_empty_resource_set :  (* c0, 90, 80, 91 c0 leave a NIL map (the library re-encodes it as 91 c0), 91 80 an
                                                   empty one (re-encoded as 91 80): two canonical forms of one [rset] *)
  dec_body2 2 [192] = Some (CVolumes []) /\ dec_nilrs 2 [192] = true /\ dec_nilrs 2 [144] = true /\ dec_nilrs 2 [128] = true /\
  dec_nilrs 2 [145; 192] = true /\ dec_body2 2 [145; 128] = Some (CVolumes []) /\ dec_nilrs 2 [145; 128] = false.
Proof. vm_compute. repeat split. Qed.

Example surprise2_repeated_field_key_merges :   (* {"Volumes":{a:1},"Volumes":{b:2}} is {a:1,b:2}; a nil in between empties it *)
  dec_body2 2 [130; 167; 86; 111; 108; 117; 109; 101; 115; 129; 161; 97; 1; 167; 86; 111; 108; 117; 109; 101; 115; 129; 161; 98; 2]
    = Some (CVolumes [("a", 1); ("b", 2)]) /\
  dec_body2 2 [131; 167; 86; 111; 108; 117; 109; 101; 115; 129; 161; 97; 1; 167; 86; 111; 108; 117; 109; 101; 115; 192;
               167; 86; 111; 108; 117; 109; 101; 115; 129; 161; 98; 2] = Some (CVolumes [("b", 2)]).
Proof. vm_compute. repeat split. Qed.

Example surprise2_nil_keeps_string_slice :      (* {"Mutations":["a"],"Mutations":nil} is ["a"]; an empty array replaces it *)
  dec_body2 6 [130; 169; 77; 117; 116; 97; 116; 105; 111; 110; 115; 145; 161; 97; 169; 77; 117; 116; 97; 116; 105; 111; 110; 115; 192]
    = Some (CMutations (Some ["a"])) /\
  dec_body2 6 [130; 169; 77; 117; 116; 97; 116; 105; 111; 110; 115; 145; 161; 97; 169; 77; 117; 116; 97; 116; 105; 111; 110; 115; 144]
    = Some (CMutations (Some [])) /\
  dec_body2 6 [145; 192] = Some (CMutations None) /\ dec_body2 6 [145; 144] = Some (CMutations (Some [])) /\
  dec_body2 6 [145; 145; 192] = Some (CMutations (Some [""])).
Proof. vm_compute. repeat split. Qed.

Example surprise2_repeated_ifs_appends :        (* {"Ifs":[ConfineUser 5],"Ifs":[ConfineOrganization 6]} holds both *)
  dec_body2 13 [130; 163; 73; 102; 115; 146; 8; 145; 5; 163; 73; 102; 115; 146; 9; 145; 6]
    = Some (CIfPresent (Some [CConfineUser 5; CConfineOrganization 6]) 0).
Proof. vm_compute. reflexivity. Qed.

Example surprise2_pointer_decoder_depends_on_process_history :
  (* 82 a3 49 66 73 92 08 91 05 a3 49 66 73 c0 = {"Ifs":[ConfineUser 5],"Ifs":nil}: Ifs is nil (re-encoded 92 0d 92 c0 00) in a
     process that decoded a caveat set before it first met an IfPresent, and the EMPTY set (92 0d 92 90 00) in a process
     that encoded an IfPresent first: msgpack caches one of two different decoders for *CaveatSet *)
  let b := [130; 163; 73; 102; 115; 146; 8; 145; 5; 163; 73; 102; 115; 192] in
  dec_body2_gen true false 13 b = Some (CIfPresent None 0) /\ dec_body2_gen true true 13 b = Some (CIfPresent (Some []) 0).
Proof. vm_compute. split; reflexivity. Qed.

Example surprise2_commands_and_3p :             (* a nil / empty-array / empty-map Command is {nil,false}; Caveat3P.rn cannot be set *)
  dec_body2 27 [145; 192] = Some (CCommands (Some [(None, false)])) /\
  dec_body2 27 [145; 144] = Some (CCommands (Some [(None, false)])) /\
  dec_body2 27 [145; 128] = Some (CCommands (Some [(None, false)])) /\
  dec_body2 27 [145; 146; 144; 194] = Some (CCommands (Some [(Some [], false)])) /\
  dec_body2 27 [145; 145; 144] = None /\ dec_body2 27 [128] = None /\
  dec_body2 11 [130; 166; 84; 105; 99; 107; 101; 116; 196; 1; 9; 162; 114; 110; 196; 1; 7] = Some (C3P "" None (Some [9])).
Proof. vm_compute. repeat split. Qed.

Example surprise2_unregistered_bodies :         (* the raw bytes pass through, also non-canonical ones (de 00 01 ..) and nil; refused:
                                                   an ext that is not a timestamp, a map key that is an array / map / bin, c1 *)
  dec_body2 99 [222; 0; 1; 1; 2] = Some (CUnregistered 99 [222; 0; 1; 1; 2]) /\
  dec_body2 99 [192] = Some (CUnregistered 99 [192]) /\
  dec_body2 99 [214; 255; 0; 0; 0; 1] = Some (CUnregistered 99 [214; 255; 0; 0; 0; 1]) /\
  dec_body2 99 [214; 5; 0; 0; 0; 1] = None /\ dec_body2 99 [199; 0; 255] = None /\
  dec_body2 99 [129; 144; 1] = None /\ dec_body2 99 [129; 128; 1] = None /\ dec_body2 99 [129; 196; 0; 1] = None /\
  dec_body2 99 [129; 192; 1] = Some (CUnregistered 99 [129; 192; 1]) /\ dec_body2 99 [193] = None /\
  dec_body2 17 [1] = Some (CUnregistered 17 [1]).
Proof. vm_compute. repeat split. Qed.

Local Close Scope string_scope.

Print Assumptions dec_cav_enc_body_l.
Print Assumptions dec_body2_enc_body_l.
Print Assumptions dec_set_typed_enc_set_l.
Print Assumptions dec_body2_enc_body_norm_l.
