(* Induction principle for the nested caveat type. *)
From Coq Require Import List Bool NArith ZArith String.
From Mac Require Import Model.Caveat.
Import ListNotations.

Section CavInd.
  Variable P : cav -> Prop.
  Hypothesis H_leaf : forall c, (forall ifs els, c <> CIfPresent ifs els) -> P c.
  Hypothesis H_if_none : forall els, P (CIfPresent None els).
  Hypothesis H_if_some : forall l els, Forall P l -> P (CIfPresent (Some l) els).

  Fixpoint cav_ind' (c : cav) : P c :=
    match c as c0 return P c0 with
    | CIfPresent None els => H_if_none els
    | CIfPresent (Some l) els =>
        H_if_some l els
          ((fix go (l : list cav) : Forall P l :=
              match l with
              | [] => Forall_nil P
              | x :: r => Forall_cons x (cav_ind' x) (go r)
              end) l)
    | c0 => H_leaf c0 ltac:(intros ? ?; discriminate)
    end.
End CavInd.
