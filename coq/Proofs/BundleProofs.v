(* C13: a bundle authorises exactly what one of its own tokens authorises.
   Lemmas about Model/BundleM.v.  No axioms; see the Print Assumptions at the end.

   Two requested statements are FALSE for the model as written, because the model's
   token type allows a bundle to contain a [TVer m cs] whose location is NOT the bundle's
   (verify leaves every non-permission token untouched, hence such an entry survives Verify
   and Validate counts it):
     - bundle_decision_equiv_l   (counterexample: bundle_decision_equiv_l_counterexample)
     - foreign_never_contributes_l (counterexample: foreign_never_contributes_l_counterexample)
   For both, the exact general equation/equivalence is proved (…_gen / …_eq) and the
   requested statement is proved as …_partial under the side condition that rules the
   counterexample out.  The side condition for bundles, [ver_perm_only], is shown to be
   established by parsing tokeniser output and preserved by every bundle operation. *)
From Coq Require Import List Bool NArith Lia.
From Mac Require Import Model.BundleM.
Import ListNotations.
Local Open Scope N_scope.

(* ------------------------------------------------------------------ *)
(* generic list helpers                                                *)

Lemma existsb_false_iff {A} (f : A -> bool) l :
  existsb f l = false <-> forall x, In x l -> f x = false.
Proof.
  induction l as [|a l IH]; simpl.
  - split; [intros _ x []|reflexivity].
  - rewrite orb_false_iff, IH. split.
    + intros [Ha Hl] x [<-|Hx]; auto.
    + intros H. split; [apply H; auto|intros x Hx; apply H; auto].
Qed.

Lemma memN_In k l : existsb (N.eqb k) l = true <-> In k l.
Proof.
  rewrite existsb_exists. split.
  - intros [x [Hin He]]. apply N.eqb_eq in He. subst. exact Hin.
  - intro Hin. exists k. split; [exact Hin|apply N.eqb_refl].
Qed.

Lemma existsb_insert {A} (f : A -> bool) pre x post :
  existsb f (pre ++ x :: post) = existsb f (pre ++ post) || f x.
Proof.
  rewrite !existsb_app. simpl.
  destruct (existsb f pre), (f x), (existsb f post); reflexivity.
Qed.

Lemma nil_of_no_In {A} (l : list A) : (forall x, ~ In x l) -> l = [].
Proof.
  destruct l as [|a l]; [reflexivity|]. intro H. exfalso. apply (H a). left. reflexivity.
Qed.

Lemma filter_all_true {A} (f : A -> bool) l :
  (forall x, In x l -> f x = true) -> filter f l = l.
Proof.
  induction l as [|a l IH]; simpl; intro H; [reflexivity|].
  rewrite (H a (or_introl eq_refl)). f_equal. apply IH. intros x Hx. apply H. right. exact Hx.
Qed.

Lemma filter_filter_and {A} (f g : A -> bool) l :
  filter f (filter g l) = filter (fun x => g x && f x) l.
Proof.
  induction l as [|a l IH]; simpl; [reflexivity|].
  destruct (g a); simpl; [destruct (f a)|]; rewrite IH; reflexivity.
Qed.

Lemma filter_comm {A} (f g : A -> bool) l : filter f (filter g l) = filter g (filter f l).
Proof.
  rewrite !filter_filter_and. apply filter_ext. intro a. apply andb_comm.
Qed.

Lemma filter_flat_map {A B} (h : B -> bool) (F : A -> list B) l :
  filter h (flat_map F l) = flat_map (fun x => filter h (F x)) l.
Proof.
  induction l as [|a l IH]; simpl; [reflexivity|]. rewrite filter_app, IH. reflexivity.
Qed.

Lemma flat_map_nil {A B} (F : A -> list B) l :
  (forall x, In x l -> F x = []) -> flat_map F l = [].
Proof.
  induction l as [|a l IH]; simpl; intro H; [reflexivity|].
  rewrite (H a (or_introl eq_refl)). simpl. apply IH. intros x Hx. apply H. right. exact Hx.
Qed.

Lemma map_snd_filter {A B} (q : B -> bool) (l : list (A * B)) :
  map snd (filter (fun ab => q (snd ab)) l) = filter q (map snd l).
Proof.
  induction l as [|a l IH]; simpl; [reflexivity|].
  destruct (q (snd a)); simpl; rewrite IH; reflexivity.
Qed.

Lemma nil_match_app {A} (a b : list A) :
  match a ++ b with [] => true | _ => false end =
  (match a with [] => true | _ => false end) && (match b with [] => true | _ => false end).
Proof. destruct a; reflexivity. Qed.

Lemma all_some_map_Some {A} (l : list (option A)) ts : all_some l = Some ts -> l = map Some ts.
Proof.
  revert ts. induction l as [|[x|] l IH]; simpl; intros ts H.
  - inversion H. reflexivity.
  - destruct (all_some l) as [r|]; simpl in H; [|discriminate].
    inversion H. subst. simpl. f_equal. apply IH. reflexivity.
  - discriminate.
Qed.

Lemma all_some_None {A} (l : list (option A)) : all_some l = None <-> In None l.
Proof.
  induction l as [|[x|] l IH]; simpl.
  - split; [discriminate|intros []].
  - destruct (all_some l) as [r|]; simpl.
    + split; [discriminate|]. intros [H|H]; [discriminate|]. apply IH in H. discriminate.
    + split; [intros _; right; apply IH; reflexivity|reflexivity].
  - split; [intros _; left; reflexivity|reflexivity].
Qed.

Lemma nth_error_map_Some {A} (ts : list A) i o :
  nth_error (map Some ts) i = Some o -> exists x, o = Some x /\ nth_error ts i = Some x.
Proof.
  rewrite nth_error_map. destruct (nth_error ts i) as [x|]; simpl; intro H; [|discriminate].
  inversion H. exists x. split; reflexivity.
Qed.

(* ------------------------------------------------------------------ *)
(* basic facts about tokens                                            *)

Lemma is_perm_mac loc t m : tok_mac t = Some m -> is_perm loc t = (m_loc m =? loc).
Proof. unfold is_perm. intros ->. reflexivity. Qed.

Lemma is_perm_has_mac loc t : is_perm loc t = true -> exists m, tok_mac t = Some m.
Proof.
  unfold is_perm. destruct (tok_mac t) as [m|]; [intros _; exists m; reflexivity|discriminate].
Qed.

Lemma is_dis_mac loc t m : tok_mac t = Some m -> is_dis loc t = negb (m_loc m =? loc).
Proof. unfold is_dis. intros ->. reflexivity. Qed.

Lemma b_ts_verify vt b : b_ts (fst (verify vt b)) = map (verify_tok vt b) (b_ts b).
Proof. reflexivity. Qed.

Lemma b_loc_verify vt b : b_loc (fst (verify vt b)) = b_loc b.
Proof. reflexivity. Qed.

(* ------------------------------------------------------------------ *)
(* validate                                                            *)

Lemma validate_iff_l ct b rq :
  validate ct b rq = true <-> exists m cs, In (TVer m cs) (b_ts b) /\ clookup ct cs rq = true.
Proof.
  unfold validate. rewrite existsb_exists. split.
  - intros [t [Hin Hc]]. destruct t as [s|s|m|m cs|m]; try discriminate. exists m, cs. auto.
  - intros [m [cs [Hin Hc]]]. exists (TVer m cs). auto.
Qed.

(* ------------------------------------------------------------------ *)
(* verify_tok                                                          *)

(* non-permission tokens unchanged; a permission token becomes TVer / TFail according to
   the table (and the flag value TMal 999999 when the table has no entry) *)
Lemma verify_tok_spec_l vt b t :
  (is_perm (b_loc b) t = false /\ verify_tok vt b t = t) \/
  (exists m, is_perm (b_loc b) t = true /\ tok_mac t = Some m /\
     match vlookup vt (m_id m) (all_dis_ids b) with
     | VRes (Some cs) => verify_tok vt b t = TVer m cs
     | VRes None => verify_tok vt b t = TFail m
     | VMissing => verify_tok vt b t = TMal 999999
     end).
Proof.
  unfold verify_tok. destruct (is_perm (b_loc b) t) eqn:Hp.
  - right. destruct (is_perm_has_mac _ _ Hp) as [m Hm]. exists m. rewrite Hm.
    split; [reflexivity|]. split; [reflexivity|].
    destruct (vlookup vt (m_id m) (all_dis_ids b)) as [|[cs|]]; reflexivity.
  - left. split; reflexivity.
Qed.

Lemma verify_tok_nonperm vt b t : is_perm (b_loc b) t = false -> verify_tok vt b t = t.
Proof. unfold verify_tok. intros ->. reflexivity. Qed.

Lemma verify_tok_perm_ok vt b t m cs :
  is_perm (b_loc b) t = true -> tok_mac t = Some m ->
  vlookup vt (m_id m) (all_dis_ids b) = VRes (Some cs) -> verify_tok vt b t = TVer m cs.
Proof. unfold verify_tok. intros -> -> ->. reflexivity. Qed.

Lemma verify_tok_TVer_inv vt b t m cs :
  verify_tok vt b t = TVer m cs ->
  (is_perm (b_loc b) t = false /\ t = TVer m cs) \/
  (is_perm (b_loc b) t = true /\ tok_mac t = Some m /\
   vlookup vt (m_id m) (all_dis_ids b) = VRes (Some cs)).
Proof.
  unfold verify_tok. destruct (is_perm (b_loc b) t) eqn:Hp.
  - destruct (is_perm_has_mac _ _ Hp) as [m0 Hm]. rewrite Hm.
    destruct (vlookup vt (m_id m0) (all_dis_ids b)) as [|[c|]] eqn:Hv; intro H; try discriminate.
    inversion H. subst. right. auto.
  - intro H. left. auto.
Qed.

(* verify_tok depends on the bundle only through its location and the table's view of its
   discharge list *)
Lemma verify_tok_ext vt b b' t :
  b_loc b' = b_loc b ->
  (forall p, vlookup vt p (all_dis_ids b') = vlookup vt p (all_dis_ids b)) ->
  verify_tok vt b' t = verify_tok vt b t.
Proof.
  intros Hl Hv. unfold verify_tok. rewrite Hl.
  destruct (is_perm (b_loc b) t); [|reflexivity].
  destruct (tok_mac t) as [m|]; [|reflexivity]. rewrite Hv. reflexivity.
Qed.

(* ------------------------------------------------------------------ *)
(* the decision of a verified bundle                                   *)

(* The side condition missing from the requested statement: verified entries are permission
   tokens.  (In the library only Verify produces VerifiedMacaroon and it does so only for
   permission tokens; the model's [tok] type does not enforce this.) *)
Definition ver_perm_only (b : bundle) : Prop :=
  forall m cs, In (TVer m cs) (b_ts b) -> is_perm (b_loc b) (TVer m cs) = true.

(* EXACT characterisation, no hypotheses at all (in particular the "table has an entry"
   hypothesis of the requested statement is not needed: a missing entry yields TMal 999999,
   which never clears anything). *)
Lemma bundle_decision_equiv_gen vt ct b rq :
  validate ct (fst (verify vt b)) rq = true <->
  (exists t m cs, In t (b_ts b) /\ is_perm (b_loc b) t = true /\ tok_mac t = Some m /\
                  vlookup vt (m_id m) (all_dis_ids b) = VRes (Some cs) /\ clookup ct cs rq = true)
  \/
  (exists m cs, In (TVer m cs) (b_ts b) /\ is_perm (b_loc b) (TVer m cs) = false /\
                clookup ct cs rq = true).
Proof.
  rewrite validate_iff_l, b_ts_verify. split.
  - intros [m [cs [Hin Hc]]]. apply in_map_iff in Hin. destruct Hin as [t [Hv Hin]].
    apply verify_tok_TVer_inv in Hv. destruct Hv as [[Hp Ht]|[Hp [Hm Hv]]].
    + right. subst t. exists m, cs. auto.
    + left. exists t, m, cs. auto.
  - intros [[t [m [cs [Hin [Hp [Hm [Hv Hc]]]]]]]|[m [cs [Hin [Hp Hc]]]]];
      exists m, cs; (split; [|exact Hc]); apply in_map_iff.
    + exists t. split; [|exact Hin]. apply verify_tok_perm_ok; assumption.
    + exists (TVer m cs). split; [|exact Hin]. apply verify_tok_nonperm. exact Hp.
Qed.

(* The requested statement is false as written: a bundle holding an already-verified token of
   a foreign location.  vt = [] (no permission token, so the table hypothesis is vacuous). *)
Lemma bundle_decision_equiv_l_counterexample :
  let vt : vtable := [] in
  let ct : ctable := [(7, 3, true)] in
  let b := mkB 1 [TVer (mkMac 5 2 0 []) 7] in
  let rq := 3 in
  (forall t m, In t (b_ts b) -> is_perm (b_loc b) t = true -> tok_mac t = Some m ->
               vlookup vt (m_id m) (all_dis_ids b) <> VMissing) /\
  validate ct (fst (verify vt b)) rq = true /\
  ~ (exists t m cs, In t (b_ts b) /\ is_perm (b_loc b) t = true /\ tok_mac t = Some m /\
                    vlookup vt (m_id m) (all_dis_ids b) = VRes (Some cs) /\ clookup ct cs rq = true).
Proof.
  cbv zeta. split; [|split].
  - intros t m [<-|[]] Hp. discriminate Hp.
  - reflexivity.
  - intros [t [m [cs [[<-|[]] [Hp _]]]]]. discriminate Hp.
Qed.

(* Strongest true variant of the requested statement: requested conclusion, with the
   hypothesis [ver_perm_only b] INSTEAD of the (unnecessary) table-completeness hypothesis. *)
Lemma bundle_decision_equiv_l_partial vt ct b rq :
  ver_perm_only b ->
  (validate ct (fst (verify vt b)) rq = true <->
   exists t m cs, In t (b_ts b) /\ is_perm (b_loc b) t = true /\ tok_mac t = Some m /\
                  vlookup vt (m_id m) (all_dis_ids b) = VRes (Some cs) /\ clookup ct cs rq = true).
Proof.
  intro Hinv. rewrite bundle_decision_equiv_gen. split.
  - intros [H|[m [cs [Hin [Hp _]]]]]; [exact H|].
    rewrite (Hinv m cs Hin) in Hp. discriminate.
  - intro H. left. exact H.
Qed.

(* the requested form (both hypotheses) *)
Lemma bundle_decision_equiv_l_partial' vt ct b rq :
  ver_perm_only b ->
  (forall t m, In t (b_ts b) -> is_perm (b_loc b) t = true -> tok_mac t = Some m ->
               vlookup vt (m_id m) (all_dis_ids b) <> VMissing) ->
  (validate ct (fst (verify vt b)) rq = true <->
   exists t m cs, In t (b_ts b) /\ is_perm (b_loc b) t = true /\ tok_mac t = Some m /\
                  vlookup vt (m_id m) (all_dis_ids b) = VRes (Some cs) /\ clookup ct cs rq = true).
Proof. intros Hinv _. apply bundle_decision_equiv_l_partial. exact Hinv. Qed.

(* After Verify the side condition always holds for the result if it held before, and the
   result never contains a verified foreign token that was not there before. *)
Lemma ver_perm_only_verify vt b : ver_perm_only b -> ver_perm_only (fst (verify vt b)).
Proof.
  intros Hinv m cs Hin. rewrite b_ts_verify in Hin. rewrite b_loc_verify.
  apply in_map_iff in Hin. destruct Hin as [t [Hv Hin]].
  apply verify_tok_TVer_inv in Hv. destruct Hv as [[_ Ht]|[Hp [Hm _]]].
  - subst t. apply Hinv. exact Hin.
  - rewrite (is_perm_mac _ _ _ Hm) in Hp. exact Hp.
Qed.

(* ------------------------------------------------------------------ *)
(* verified caveat list                                                *)

(* flat_map over the token list = one entry per TVer, in bundle order *)
Lemma verified_list_l vt b :
  snd (verify vt b) =
  flat_map (fun t => match t with TVer _ cs => [cs] | _ => [] end) (b_ts (fst (verify vt b))).
Proof. reflexivity. Qed.

(* "in bundle order", explicitly: the list for pre ++ post is the list for pre followed by the
   list for post, a TVer contributes exactly its cs, anything else nothing *)
Definition ver_list (ts : list tok) : list N :=
  flat_map (fun t => match t with TVer _ cs => [cs] | _ => [] end) ts.
Lemma ver_list_app a b : ver_list (a ++ b) = ver_list a ++ ver_list b.
Proof. apply flat_map_app. Qed.
Lemma ver_list_cons t r :
  ver_list (t :: r) = match t with TVer _ cs => cs :: ver_list r | _ => ver_list r end.
Proof. destruct t; reflexivity. Qed.
Lemma verified_list_order_l vt b pre post :
  b_ts b = pre ++ post ->
  snd (verify vt b) = ver_list (map (verify_tok vt b) pre) ++ ver_list (map (verify_tok vt b) post).
Proof.
  intro H. rewrite verified_list_l, b_ts_verify, H, map_app. apply ver_list_app.
Qed.

(* ------------------------------------------------------------------ *)
(* inserted entries that are not permission tokens                     *)

Lemma all_dis_ids_insert_nondis loc pre x post :
  is_dis loc x = false ->
  all_dis_ids (mkB loc (pre ++ x :: post)) = all_dis_ids (mkB loc (pre ++ post)).
Proof.
  intro H. unfold all_dis_ids. cbn [b_loc b_ts]. rewrite !filter_app. cbn [filter].
  rewrite H. reflexivity.
Qed.

(* EXACT effect on the decision of inserting a non-permission entry the table ignores *)
Lemma insert_validate_eq vt ct b x pre post rq :
  b_ts b = pre ++ post -> is_perm (b_loc b) x = false ->
  (forall p, vlookup vt p (all_dis_ids (mkB (b_loc b) (pre ++ x :: post))) =
             vlookup vt p (all_dis_ids b)) ->
  validate ct (fst (verify vt (mkB (b_loc b) (pre ++ x :: post)))) rq =
  validate ct (fst (verify vt b)) rq || match x with TVer _ cs => clookup ct cs rq | _ => false end.
Proof.
  intros Hb Hp Hv. unfold validate. rewrite !b_ts_verify. cbn [b_ts].
  set (b' := mkB (b_loc b) (pre ++ x :: post)).
  assert (Hext : forall t, verify_tok vt b' t = verify_tok vt b t).
  { intro t. apply verify_tok_ext; [reflexivity|exact Hv]. }
  rewrite (map_ext _ _ Hext). rewrite Hb.
  rewrite (map_app _ pre (x :: post)). cbn [map]. rewrite existsb_insert.
  rewrite <- map_app. rewrite (verify_tok_nonperm vt b x Hp). reflexivity.
Qed.

Lemma non_tokens_never_contribute_l vt ct b x pre post rq s :
  b_ts b = pre ++ post -> (x = TNon s \/ x = TMal s) ->
  validate ct (fst (verify vt (mkB (b_loc b) (pre ++ x :: post)))) rq =
  validate ct (fst (verify vt b)) rq.
Proof.
  intros Hb Hx.
  assert (Hd : is_dis (b_loc b) x = false) by (destruct Hx; subst x; reflexivity).
  assert (Hp : is_perm (b_loc b) x = false) by (destruct Hx; subst x; reflexivity).
  rewrite (insert_validate_eq vt ct b x pre post rq Hb Hp).
  - destruct Hx; subst x; apply orb_false_r.
  - intro p. rewrite (all_dis_ids_insert_nondis _ _ _ _ Hd).
    unfold all_dis_ids. cbn [b_loc b_ts]. rewrite Hb. reflexivity.
Qed.

(* exact equation for a foreign token *)
Lemma foreign_insert_eq vt ct b x pre post rq :
  b_ts b = pre ++ post -> is_perm (b_loc b) x = false ->
  (forall p, vlookup vt p (all_dis_ids (mkB (b_loc b) (pre ++ x :: post))) =
             vlookup vt p (all_dis_ids b)) ->
  validate ct (fst (verify vt (mkB (b_loc b) (pre ++ x :: post)))) rq =
  validate ct (fst (verify vt b)) rq || match x with TVer _ cs => clookup ct cs rq | _ => false end.
Proof. apply insert_validate_eq. Qed.

(* The requested statement (no condition on the state of x) is false: x an already-verified
   foreign token whose caveats clear the request.  vt = [] ignores everything. *)
Lemma foreign_never_contributes_l_counterexample :
  let vt : vtable := [] in
  let ct : ctable := [(7, 3, true)] in
  let b := mkB 1 [] in
  let x := TVer (mkMac 5 2 0 []) 7 in
  let pre : list tok := [] in let post : list tok := [] in
  let rq := 3 in
  b_ts b = pre ++ post /\ is_perm (b_loc b) x = false /\
  (forall p, vlookup vt p (all_dis_ids (mkB (b_loc b) (pre ++ x :: post))) =
             vlookup vt p (all_dis_ids b)) /\
  validate ct (fst (verify vt (mkB (b_loc b) (pre ++ x :: post)))) rq = true /\
  validate ct (fst (verify vt b)) rq = false.
Proof. cbv zeta. repeat split. Qed.

(* Strongest true variant: the inserted foreign token must not be an already-verified token
   whose caveats clear the request (in particular: any TNon/TMal/TUnv/TFail is fine).  By
   foreign_insert_eq this condition is also necessary. *)
Lemma foreign_never_contributes_l_partial vt ct b x pre post rq :
  b_ts b = pre ++ post -> is_perm (b_loc b) x = false ->
  (forall m cs, x = TVer m cs -> clookup ct cs rq = false) ->
  (forall p, vlookup vt p (all_dis_ids (mkB (b_loc b) (pre ++ x :: post))) =
             vlookup vt p (all_dis_ids b)) ->
  validate ct (fst (verify vt (mkB (b_loc b) (pre ++ x :: post)))) rq =
  validate ct (fst (verify vt b)) rq.
Proof.
  intros Hb Hp Hx Hv. rewrite (insert_validate_eq vt ct b x pre post rq Hb Hp Hv).
  destruct x as [s|s|m|m cs|m]; try apply orb_false_r.
  rewrite (Hx m cs eq_refl). apply orb_false_r.
Qed.

(* the form that matters in practice: an unverified (freshly parsed / minted) foreign token *)
Lemma foreign_unverified_never_contributes_l vt ct b m pre post rq :
  b_ts b = pre ++ post -> is_perm (b_loc b) (TUnv m) = false ->
  (forall p, vlookup vt p (all_dis_ids (mkB (b_loc b) (pre ++ TUnv m :: post))) =
             vlookup vt p (all_dis_ids b)) ->
  validate ct (fst (verify vt (mkB (b_loc b) (pre ++ TUnv m :: post)))) rq =
  validate ct (fst (verify vt b)) rq.
Proof.
  intros Hb Hp Hv. apply foreign_never_contributes_l_partial; try assumption.
  intros m0 cs H. discriminate H.
Qed.

(* ------------------------------------------------------------------ *)
(* default filter, parse                                               *)

Lemma in_all_perm_tickets loc ts k :
  In k (all_perm_tickets loc ts) <->
  exists p, In p ts /\ is_perm loc p = true /\ In k (tickets_of p).
Proof.
  unfold all_perm_tickets. rewrite in_flat_map. split.
  - intros [p [Hin Hk]]. exists p. destruct (is_perm loc p); [auto|destruct Hk].
  - intros [p [Hin [Hp Hk]]]. exists p. rewrite Hp. auto.
Qed.

(* t is a well-formed non-permission macaroon whose key-id is a ticket of some permission
   token of ts *)
Definition ticket_match (loc : N) (ts : list tok) (t : tok) : Prop :=
  exists m, tok_mac t = Some m /\ is_perm loc t = false /\
            exists p, In p ts /\ is_perm loc p = true /\ In (m_kid m) (tickets_of p).

Lemma keep_mac_spec loc ts t m :
  tok_mac t = Some m ->
  (is_perm loc t ||
   match kid_of t with Some k => existsb (N.eqb k) (all_perm_tickets loc ts) | None => false end
   = true <->
   (exists s, t = TNon s) \/ is_perm loc t = true \/ ticket_match loc ts t).
Proof.
  intro Hm. unfold kid_of. rewrite Hm. cbn [option_map].
  rewrite orb_true_iff, memN_In, in_all_perm_tickets. split.
  - intros [Hp|Hex]; [right; left; exact Hp|].
    destruct (is_perm loc t) eqn:Hp; [right; left; reflexivity|].
    right. right. exists m. auto.
  - intros [[s Hs]|[Hp|[m' [Hm' [_ Hex]]]]].
    + subst t. discriminate Hm.
    + left. exact Hp.
    + right. rewrite Hm in Hm'. inversion Hm'. subst m'. exact Hex.
Qed.

Lemma default_keep_spec_l loc ts t :
  default_keep loc ts t = true <->
  (exists s, t = TNon s) \/ is_perm loc t = true \/ ticket_match loc ts t.
Proof.
  destruct t as [s|s|m|m cs|m].
  - split; [intros _; left; exists s; reflexivity|reflexivity].
  - split; [discriminate|].
    intros [[s0 H]|[H|[m [H _]]]]; discriminate H.
  - apply (keep_mac_spec loc ts (TUnv m) m). reflexivity.
  - apply (keep_mac_spec loc ts (TVer m cs) m). reflexivity.
  - apply (keep_mac_spec loc ts (TFail m) m). reflexivity.
Qed.

Lemma default_keep_mal_l loc ts s : default_keep loc ts (TMal s) = false.
Proof. reflexivity. Qed.

Lemma parse_header_l loc ts :
  header (fst (parse_bundle loc ts)) = map tok_id (filter (default_keep loc ts) ts).
Proof. reflexivity. Qed.

Lemma parse_tokens_l loc ts :
  b_ts (fst (parse_bundle loc ts)) = filter (default_keep loc ts) ts /\
  b_loc (fst (parse_bundle loc ts)) = loc.
Proof. split; reflexivity. Qed.

Lemma parse_error_l loc ts :
  snd (parse_bundle loc ts) = true <-> forall t, In t ts -> is_bad t = false.
Proof.
  unfold parse_bundle. cbn [snd]. rewrite negb_true_iff. apply existsb_false_iff.
Qed.

(* ------------------------------------------------------------------ *)
(* AddTokens                                                           *)

Lemma add_tokens_atomic_l b ts b' ok :
  add_tokens b ts = (b', ok) ->
  ((ok = false -> b' = b) /\ (ok = true -> b' = mkB (b_loc b) (b_ts b ++ ts))) /\
  (ok = false <-> exists t, In t ts /\ is_bad t = true).
Proof.
  unfold add_tokens. destruct (existsb is_bad ts) eqn:E; intro H; inversion H; subst.
  - split; [split; [reflexivity|discriminate]|].
    split; [intros _; apply existsb_exists; exact E|reflexivity].
  - split; [split; [discriminate|reflexivity]|].
    split; [discriminate|]. intro Hex. apply existsb_exists in Hex. rewrite E in Hex. discriminate.
Qed.

(* ------------------------------------------------------------------ *)
(* Attenuate                                                           *)

Lemma attenuate_atomic_l at_ cst b cl b' ok :
  attenuate at_ cst b cl = (b', ok) ->
  (ok = false -> b' = b) /\
  (ok = true ->
     b_loc b' = b_loc b /\ List.length (b_ts b') = List.length (b_ts b) /\
     forall i t, nth_error (b_ts b) i = Some t ->
       (is_perm (b_loc b) t = false -> nth_error (b_ts b') i = Some t) /\
       (is_perm (b_loc b) t = true ->
          exists t', nth_error (b_ts b') i = Some t' /\ att_tok at_ cst (b_loc b) cl t = Some t')).
Proof.
  unfold attenuate.
  destruct (all_some (map (att_tok at_ cst (b_loc b) cl) (b_ts b))) as [ts|] eqn:E;
    intro H; inversion H; subst; (split; [intro Hok; try discriminate; reflexivity|]);
    intro Hok; try discriminate.
  apply all_some_map_Some in E. cbn [b_loc b_ts]. split; [reflexivity|]. split.
  - apply (f_equal (@List.length _)) in E. rewrite !map_length in E. symmetry. exact E.
  - intros i t Hn. apply (map_nth_error (att_tok at_ cst (b_loc b) cl)) in Hn.
    rewrite E in Hn. apply nth_error_map_Some in Hn. destruct Hn as [t' [Ht' Hn']].
    split; intro Hp.
    + unfold att_tok in Ht'. rewrite Hp in Ht'. inversion Ht'. subst t'. exact Hn'.
    + exists t'. split; [exact Hn'|exact Ht'].
Qed.

(* the refusal condition: some token's Add is refused (or not in the table) *)
Lemma attenuate_fail_iff_l at_ cst b cl :
  snd (attenuate at_ cst b cl) = false <->
  exists t, In t (b_ts b) /\ att_tok at_ cst (b_loc b) cl t = None.
Proof.
  unfold attenuate.
  destruct (all_some (map (att_tok at_ cst (b_loc b) cl) (b_ts b))) as [ts|] eqn:E; cbn [snd].
  - split; [discriminate|]. intros [t [Hin Hn]]. exfalso.
    assert (HN : In None (map (att_tok at_ cst (b_loc b) cl) (b_ts b))).
    { apply in_map_iff. exists t. auto. }
    apply all_some_None in HN. rewrite E in HN. discriminate.
  - split; [intros _|reflexivity]. apply all_some_None in E. apply in_map_iff in E.
    destruct E as [t [Hn Hin]]. exists t. auto.
Qed.

Lemma att_tok_nonperm_l at_ cst loc cl t : is_perm loc t = false -> att_tok at_ cst loc cl t = Some t.
Proof. unfold att_tok. intros ->. reflexivity. Qed.

(* only a permission token can be refused *)
Lemma att_tok_None_perm_l at_ cst loc cl t : att_tok at_ cst loc cl t = None -> is_perm loc t = true.
Proof.
  destruct (is_perm loc t) eqn:Hp; [reflexivity|]. rewrite att_tok_nonperm_l by exact Hp. discriminate.
Qed.

Lemma attenuate_verified_appends_l at_ cst loc cl m cs t' :
  is_perm loc (TVer m cs) = true ->
  att_tok at_ cst loc cl (TVer m cs) = Some t' ->
  exists i, alookup at_ (m_id m) cl = VRes (Some i) /\
            t' = TVer (retag m i) (cslookup cst cs cl).
Proof.
  intros Hp. unfold att_tok. rewrite Hp.
  destruct (alookup at_ (m_id m) cl) as [|[i|]]; intro H; try discriminate.
  inversion H. exists i. split; reflexivity.
Qed.

(* every token of the attenuated bundle comes from a token of the original one *)
Lemma attenuate_In at_ cst b cl b' t' :
  attenuate at_ cst b cl = (b', true) -> In t' (b_ts b') ->
  exists t, In t (b_ts b) /\ att_tok at_ cst (b_loc b) cl t = Some t'.
Proof.
  unfold attenuate.
  destruct (all_some (map (att_tok at_ cst (b_loc b) cl) (b_ts b))) as [ts|] eqn:E;
    intro H; inversion H; subst. cbn [b_ts]. intro Hin.
  apply all_some_map_Some in E.
  assert (HS : In (Some t') (map Some ts)) by (apply in_map; exact Hin).
  rewrite <- E in HS. apply in_map_iff in HS. destruct HS as [t [Ht Hin']]. exists t. auto.
Qed.

Lemma att_tok_TVer_inv at_ cst loc cl t m' cs' :
  att_tok at_ cst loc cl t = Some (TVer m' cs') ->
  exists m cs, t = TVer m cs /\ m_loc m' = m_loc m.
Proof.
  unfold att_tok. destruct (is_perm loc t).
  - destruct t as [s|s|m|m cs|m]; try (intro H; discriminate H);
      destruct (alookup at_ (m_id m) cl) as [|[i|]]; intro H; try discriminate H.
    inversion H. exists m, cs. split; reflexivity.
  - intro H. inversion H. exists m', cs'. split; reflexivity.
Qed.

(* ------------------------------------------------------------------ *)
(* Discharge                                                           *)

Lemma discharge_atomic_l b tp ok_key first b' ok :
  discharge b tp ok_key first = (b', ok) ->
  (ok = false -> b' = b) /\
  (ok = true -> b' = b \/ b_ts b' = b_ts b ++ new_dis tp (undischarged_for b tp) first).
Proof.
  unfold discharge. destruct (undischarged_for b tp) as [|tk tks] eqn:E.
  - intro H. inversion H. subst. split; [reflexivity|]. intros _. left. reflexivity.
  - destruct ok_key; intro H; inversion H; subst.
    + split; [discriminate|]. intros _. right. reflexivity.
    + split; [reflexivity|discriminate].
Qed.

(* complete description of Discharge *)
Lemma discharge_cases_l b tp ok_key first :
  discharge b tp ok_key first =
  if match undischarged_for b tp with [] => true | _ => false end then (b, true)
  else if ok_key then (mkB (b_loc b) (b_ts b ++ new_dis tp (undischarged_for b tp) first), true)
       else (b, false).
Proof. unfold discharge. destruct (undischarged_for b tp); reflexivity. Qed.

Lemma new_dis_length_l tp tks first : List.length (new_dis tp tks first) = List.length tks.
Proof.
  revert first. induction tks as [|tk r IH]; intro first; cbn [new_dis List.length]; [reflexivity|].
  rewrite IH. reflexivity.
Qed.

(* the i-th new token is the unverified discharge with identity first+i, location tp, key-id
   the i-th ticket, and no third-party caveats of its own *)
Lemma new_dis_spec_l tp tks first i :
  nth_error (new_dis tp tks first) i =
  option_map (fun tk => TUnv (mkMac (first + N.of_nat i) tp tk [])) (nth_error tks i).
Proof.
  revert first i. induction tks as [|tk r IH]; intros first i.
  - destruct i; reflexivity.
  - destruct i as [|i]; cbn [new_dis nth_error].
    + cbn [option_map]. change (N.of_nat 0) with 0. rewrite N.add_0_r. reflexivity.
    + rewrite IH. replace (first + N.of_nat (S i)) with (first + 1 + N.of_nat i) by lia.
      reflexivity.
Qed.

Lemma new_dis_In tp tks first t :
  In t (new_dis tp tks first) -> exists id tk, In tk tks /\ t = TUnv (mkMac id tp tk []).
Proof.
  revert first. induction tks as [|tk r IH]; intro first; cbn [new_dis]; [intros []|].
  intros [<-|Hin].
  - exists first, tk. split; [left; reflexivity|reflexivity].
  - destruct (IH _ Hin) as [id [tk' [Hin' Ht]]]. exists id, tk'. split; [right; exact Hin'|exact Ht].
Qed.

Lemma new_dis_not_perm loc tp tks first t :
  tp <> loc -> In t (new_dis tp tks first) -> is_perm loc t = false.
Proof.
  intros Hne Hin. apply new_dis_In in Hin. destruct Hin as [id [tk [_ ->]]].
  unfold is_perm. cbn [tok_mac m_loc]. apply N.eqb_neq. exact Hne.
Qed.

Lemma dis_for_app loc a b k : dis_for loc (a ++ b) k = dis_for loc a k ++ dis_for loc b k.
Proof. unfold dis_for. apply filter_app. Qed.

Lemma dis_for_new_dis_nil loc tp tks first k :
  tp <> loc ->
  match dis_for loc (new_dis tp tks first) k with [] => true | _ => false end =
  negb (existsb (N.eqb k) tks).
Proof.
  intro Hne. revert first. induction tks as [|tk r IH]; intro first; [reflexivity|].
  cbn [new_dis existsb]. unfold dis_for. cbn [filter].
  unfold is_dis, kid_of. cbn [tok_mac option_map m_loc m_kid].
  apply N.eqb_neq in Hne. rewrite Hne. cbn [negb andb].
  rewrite (N.eqb_sym k tk). destruct (tk =? k); [reflexivity|].
  cbn [orb]. apply IH.
Qed.

(* effect of the appended discharges on the undischarged list: exactly the entries whose
   ticket got a new discharge disappear *)
Lemma undischarged_after_discharge b tp tks first :
  tp <> b_loc b ->
  undischarged (mkB (b_loc b) (b_ts b ++ new_dis tp tks first)) =
  filter (fun lt => negb (existsb (N.eqb (snd lt)) tks)) (undischarged b).
Proof.
  intro Hne. unfold undischarged. cbn [b_loc b_ts]. rewrite flat_map_app.
  rewrite (flat_map_nil _ (new_dis tp tks first)).
  - rewrite app_nil_r, filter_flat_map. apply flat_map_ext. intro t.
    destruct (is_perm (b_loc b) t); [|reflexivity].
    destruct (tok_mac t) as [m|]; [|reflexivity].
    rewrite filter_filter_and. apply filter_ext. intro lt.
    rewrite dis_for_app, nil_match_app, (dis_for_new_dis_nil _ _ _ _ _ Hne). reflexivity.
  - intros t Hin. rewrite (new_dis_not_perm _ _ _ _ _ Hne Hin). reflexivity.
Qed.

Lemma undischarged_for_after b tp tp' tks first :
  tp <> b_loc b ->
  undischarged_for (mkB (b_loc b) (b_ts b ++ new_dis tp tks first)) tp' =
  filter (fun tk => negb (existsb (N.eqb tk) tks)) (undischarged_for b tp').
Proof.
  intro Hne. unfold undischarged_for. rewrite (undischarged_after_discharge _ _ _ _ Hne).
  rewrite filter_comm. apply (map_snd_filter (fun tk => negb (existsb (N.eqb tk) tks))).
Qed.

(* General statement of what Discharge (with a good key) does to the undischarged tickets of
   ANY location tp' (tp' = tp included): those whose ticket value was among the undischarged
   tickets of tp are gone, the others stay, in order. *)
Lemma discharge_undischarged_l b tp tp' first b' :
  tp <> b_loc b -> discharge b tp true first = (b', true) ->
  undischarged_for b' tp' =
  filter (fun tk => negb (existsb (N.eqb tk) (undischarged_for b tp))) (undischarged_for b tp').
Proof.
  intros Hne. rewrite discharge_cases_l.
  destruct (undischarged_for b tp) as [|tk tks] eqn:E; intro H; inversion H; subst.
  - symmetry. apply filter_all_true. reflexivity.
  - exact (undischarged_for_after b tp tp' (tk :: tks) first Hne).
Qed.

Lemma discharge_effect_l b tp first b' :
  tp <> b_loc b -> discharge b tp true first = (b', true) -> undischarged_for b' tp = [].
Proof.
  intros Hne H. rewrite (discharge_undischarged_l _ _ tp _ _ Hne H).
  apply nil_of_no_In. intros tk Hin. apply filter_In in Hin. destruct Hin as [Hin Hn].
  apply memN_In in Hin. rewrite Hin in Hn. discriminate.
Qed.

(* tickets of other locations are untouched, provided none of them has the same ticket value
   as an undischarged ticket of tp (ticket values are ciphertexts, distinct in practice; when
   two coincide the new discharge matches both by key-id: see discharge_undischarged_l) *)
Lemma discharge_other_l b tp tp' first b' :
  tp <> b_loc b -> discharge b tp true first = (b', true) ->
  (forall tk, In tk (undischarged_for b tp') -> ~ In tk (undischarged_for b tp)) ->
  undischarged_for b' tp' = undischarged_for b tp'.
Proof.
  intros Hne H Hdisj. rewrite (discharge_undischarged_l _ _ tp' _ _ Hne H).
  apply filter_all_true. intros tk Hin. apply negb_true_iff.
  destruct (existsb (N.eqb tk) (undischarged_for b tp)) eqn:E; [|reflexivity].
  apply memN_In in E. exfalso. exact (Hdisj tk Hin E).
Qed.

(* exactly one new discharge per undischarged ticket *)
Lemma discharge_new_count_l b tp first b' :
  discharge b tp true first = (b', true) ->
  b_loc b' = b_loc b /\
  b_ts b' = b_ts b ++ new_dis tp (undischarged_for b tp) first /\
  List.length (b_ts b') = (List.length (b_ts b) + List.length (undischarged_for b tp))%nat.
Proof.
  rewrite discharge_cases_l.
  destruct (undischarged_for b tp) as [|tk tks] eqn:E; intro H; inversion H; subst; cbn [b_loc b_ts].
  - cbn [new_dis List.length]. rewrite app_nil_r, <- plus_n_O. auto.
  - split; [reflexivity|]. split; [reflexivity|].
    rewrite app_length. cbn [List.length]. rewrite new_dis_length_l. reflexivity.
Qed.

(* ------------------------------------------------------------------ *)
(* Select / Filter / Clone                                             *)

Lemma select_l b p : b_ts (select b p) = filter p (b_ts b) /\ b_loc (select b p) = b_loc b.
Proof. split; reflexivity. Qed.

Lemma tok_id_clone_tok t : tok_id (clone_tok t) = tok_id t.
Proof. destruct t; reflexivity. Qed.

Lemma clone_header_l b : b_ts b <> [] -> header (clone b) = header b.
Proof.
  unfold clone, header. destruct (b_ts b) as [|t r]; intro H; [congruence|].
  cbn [b_ts]. rewrite map_map. apply map_ext. exact tok_id_clone_tok.
Qed.

(* the empty bundle: its header is [] but the clone's header is [0] (one empty string) *)
Lemma clone_header_empty_l b : b_ts b = [] -> header b = [] /\ header (clone b) = [0].
Proof. unfold clone, header. intros ->. split; reflexivity. Qed.

Lemma clone_resets_l b t :
  In t (b_ts (clone b)) -> match t with TVer _ _ | TFail _ => False | _ => True end.
Proof.
  unfold clone. destruct (b_ts b) as [|t0 r]; cbn [b_ts].
  - intros [<-|[]]. exact I.
  - intro H. apply in_map_iff in H. destruct H as [u [<- _]]. destruct u; exact I.
Qed.

(* ------------------------------------------------------------------ *)
(* ver_perm_only is established by parsing tokeniser output and preserved by every operation *)

Lemma ver_perm_only_no_ver loc ts :
  (forall m cs, ~ In (TVer m cs) ts) -> ver_perm_only (mkB loc ts).
Proof. intros H m cs Hin. exfalso. exact (H m cs Hin). Qed.

Lemma ver_perm_only_parse loc ts :
  (forall m cs, ~ In (TVer m cs) ts) -> ver_perm_only (fst (parse_bundle loc ts)).
Proof.
  intros H. apply ver_perm_only_no_ver. intros m cs Hin.
  unfold default_filter in Hin. apply filter_In in Hin. exact (H m cs (proj1 Hin)).
Qed.

Lemma ver_perm_only_add b ts :
  ver_perm_only b ->
  (forall m cs, In (TVer m cs) ts -> is_perm (b_loc b) (TVer m cs) = true) ->
  ver_perm_only (fst (add_tokens b ts)).
Proof.
  intros Hinv Hts. unfold add_tokens. destruct (existsb is_bad ts); cbn [fst]; [exact Hinv|].
  intros m cs Hin. cbn [b_ts] in Hin. cbn [b_loc]. apply in_app_or in Hin.
  destruct Hin as [Hin|Hin]; [apply Hinv|apply Hts]; exact Hin.
Qed.

Lemma ver_perm_only_select b p : ver_perm_only b -> ver_perm_only (select b p).
Proof.
  intros Hinv m cs Hin. cbn [select b_ts] in Hin. apply filter_In in Hin.
  apply Hinv. exact (proj1 Hin).
Qed.

Lemma ver_perm_only_attenuate at_ cst b cl :
  ver_perm_only b -> ver_perm_only (fst (attenuate at_ cst b cl)).
Proof.
  intro Hinv. destruct (attenuate at_ cst b cl) as [b' ok] eqn:E. cbn [fst].
  destruct (attenuate_atomic_l _ _ _ _ _ _ E) as [Hf Ht].
  destruct ok; [|rewrite (Hf eq_refl); exact Hinv].
  destruct (Ht eq_refl) as [Hl _]. intros m' cs' Hin. rewrite Hl.
  destruct (attenuate_In _ _ _ _ _ _ E Hin) as [t [Hint Hatt]].
  apply att_tok_TVer_inv in Hatt. destruct Hatt as [m [cs [-> Hloc]]].
  specialize (Hinv m cs Hint). unfold is_perm in *. cbn [tok_mac] in *. rewrite Hloc. exact Hinv.
Qed.

Lemma ver_perm_only_discharge b tp key_ok first :
  ver_perm_only b -> ver_perm_only (fst (discharge b tp key_ok first)).
Proof.
  intro Hinv. rewrite discharge_cases_l.
  destruct (match undischarged_for b tp with [] => true | _ => false end); [exact Hinv|].
  destruct key_ok; [|exact Hinv]. cbn [fst]. intros m cs Hin. cbn [b_ts] in Hin. cbn [b_loc].
  apply in_app_or in Hin. destruct Hin as [Hin|Hin]; [apply Hinv; exact Hin|].
  apply new_dis_In in Hin. destruct Hin as [id [tk [_ H]]]. discriminate H.
Qed.

Lemma ver_perm_only_clone b : ver_perm_only (clone b).
Proof. intros m cs Hin. apply clone_resets_l in Hin. destruct Hin. Qed.

(* ------------------------------------------------------------------ *)
Print Assumptions validate_iff_l.
Print Assumptions verify_tok_spec_l.
Print Assumptions bundle_decision_equiv_gen.
Print Assumptions bundle_decision_equiv_l_counterexample.
Print Assumptions bundle_decision_equiv_l_partial.
Print Assumptions ver_perm_only_verify.
Print Assumptions verified_list_l.
Print Assumptions verified_list_order_l.
Print Assumptions non_tokens_never_contribute_l.
Print Assumptions foreign_insert_eq.
Print Assumptions foreign_never_contributes_l_counterexample.
Print Assumptions foreign_never_contributes_l_partial.
Print Assumptions default_keep_spec_l.
Print Assumptions parse_header_l.
Print Assumptions parse_error_l.
Print Assumptions add_tokens_atomic_l.
Print Assumptions attenuate_atomic_l.
Print Assumptions attenuate_fail_iff_l.
Print Assumptions attenuate_verified_appends_l.
Print Assumptions discharge_atomic_l.
Print Assumptions new_dis_spec_l.
Print Assumptions discharge_undischarged_l.
Print Assumptions discharge_effect_l.
Print Assumptions discharge_other_l.
Print Assumptions discharge_new_count_l.
Print Assumptions select_l.
Print Assumptions clone_header_l.
Print Assumptions clone_resets_l.
Print Assumptions ver_perm_only_parse.
Print Assumptions ver_perm_only_add.
Print Assumptions ver_perm_only_select.
Print Assumptions ver_perm_only_attenuate.
Print Assumptions ver_perm_only_discharge.
Print Assumptions ver_perm_only_clone.
