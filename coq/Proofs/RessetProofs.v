(* C09: resource sets, conditional caveats, action caveats *)
From Coq Require Import List Bool NArith ZArith String Lia Permutation.
From Mac Require Import Model.Err Model.Caveat Model.Access Model.Prohibits
  Generated.Facts Proofs.ErrFacts Proofs.CavInd.
Import ListNotations.
Local Open Scope N_scope.

(* ------------------------------------------------------------------ *)
(* Bit-mask algebra                                                    *)
(* ------------------------------------------------------------------ *)

Lemma subset_iff a b : subset a b = true <-> N.land a b = a.
Proof. unfold subset. apply N.eqb_eq. Qed.

Lemma subset_bits a b :
  subset a b = true <-> forall n, N.testbit a n = true -> N.testbit b n = true.
Proof.
  rewrite subset_iff. split.
  - intros H n Hn. rewrite <- H in Hn. rewrite N.land_spec in Hn.
    apply andb_true_iff in Hn. tauto.
  - intros H. apply N.bits_inj. intro n. rewrite N.land_spec.
    destruct (N.testbit a n) eqn:E; [|reflexivity].
    rewrite (H n E). reflexivity.
Qed.

Lemma subset_refl_l a : subset a a = true.
Proof. apply subset_iff. apply N.land_diag. Qed.

Lemma subset_trans_l a b c :
  subset a b = true -> subset b c = true -> subset a c = true.
Proof.
  rewrite !subset_bits. intros Hab Hbc n Hn. apply Hbc. apply Hab. exact Hn.
Qed.

Lemma subset_land_l a b c : subset a (N.land b c) = subset a b && subset a c.
Proof.
  apply eq_true_iff_eq. rewrite andb_true_iff, !subset_bits. split.
  - intros H. split; intros n Hn; specialize (H n Hn); rewrite N.land_spec in H;
      apply andb_true_iff in H; tauto.
  - intros [Hb Hc] n Hn. rewrite N.land_spec, (Hb n Hn), (Hc n Hn). reflexivity.
Qed.

Lemma subset_zero_l a : subset 0 a = true.
Proof. apply subset_iff. apply N.land_0_l. Qed.

(* the names exactly as written in the task *)
Definition subset_refl := subset_refl_l.
Definition subset_trans := subset_trans_l.
Definition subset_land := subset_land_l.
Definition subset_zero := subset_zero_l.

Lemma subset_fold act l init :
  subset act (fold_left N.land l init) = true <->
  subset act init = true /\ forall m, In m l -> subset act m = true.
Proof.
  revert init. induction l as [|x l IH]; intros init; simpl.
  - split; [intros H; split; [exact H|intros m []]|intros [H _]; exact H].
  - rewrite IH, subset_land_l, andb_true_iff. split.
    + intros [[Hi Hx] Hl]. split; [exact Hi|]. intros m [<-|Hm]; auto.
    + intros [Hi Hl]. split; [split|]; auto.
Qed.

(* ------------------------------------------------------------------ *)
(* List helpers (permutation invariance)                               *)
(* ------------------------------------------------------------------ *)

Lemma existsb_perm {A} (f : A -> bool) l l' :
  Permutation l l' -> existsb f l = existsb f l'.
Proof.
  intros HP. induction HP as [|x l l' HP IH|x y l|l l' l'' HP1 IH1 HP2 IH2]; simpl.
  - reflexivity.
  - now rewrite IH.
  - destruct (f x), (f y); reflexivity.
  - now rewrite IH1.
Qed.

Lemma filter_perm {A} (f : A -> bool) l l' :
  Permutation l l' -> Permutation (filter f l) (filter f l').
Proof.
  intros HP. induction HP as [|x l l' HP IH|x y l|l l' l'' HP1 IH1 HP2 IH2]; simpl.
  - apply perm_nil.
  - destruct (f x); [apply perm_skip|]; exact IH.
  - destruct (f x), (f y); try apply Permutation_refl. apply perm_swap.
  - eapply perm_trans; eassumption.
Qed.

Lemma isnil_perm {A} (l l' : list A) : Permutation l l' -> isnil l = isnil l'.
Proof.
  intros HP. destruct l as [|x l], l' as [|y l']; try reflexivity.
  - apply Permutation_nil_cons in HP. contradiction.
  - apply Permutation_sym, Permutation_nil_cons in HP. contradiction.
Qed.

Lemma fold_land_perm l l' :
  Permutation l l' -> forall init, fold_left N.land l init = fold_left N.land l' init.
Proof.
  intros HP. induction HP as [|x l l' HP IH|x y l|l l' l'' HP1 IH1 HP2 IH2];
    intros init; simpl.
  - reflexivity.
  - apply IH.
  - f_equal. rewrite <- !N.land_assoc. f_equal. apply N.land_comm.
  - rewrite IH1. apply IH2.
Qed.

(* ------------------------------------------------------------------ *)
(* Generic resource set                                                *)
(* ------------------------------------------------------------------ *)

Section RS.
  Context {I : Type} (ieqb : I -> I -> bool) (zero : I) (mtch : I -> I -> bool).
  Hypothesis ieqb_spec : forall a b, ieqb a b = true <-> a = b.

  Definition rel (e : I * N) (id : I) : Prop :=
    ieqb (fst e) zero = true \/ mtch (fst e) id = true.

  (* "some entry is relevant for id" and "every relevant entry allows act" *)
  Definition rs_some_rel (rs : rset I) (id : I) : Prop := exists e, In e rs /\ rel e id.
  Definition rs_all_allow (rs : rset I) (id : I) (act : N) : Prop :=
    subset act 65535 = true /\ forall e, In e rs -> rel e id -> subset act (snd e) = true.

  Lemma relevant_In rs id e :
    In e (rs_relevant ieqb zero mtch rs id) <-> In e rs /\ rel e id.
  Proof. unfold rs_relevant, rel. rewrite filter_In, orb_true_iff. reflexivity. Qed.

  Lemma relevant_nil_iff rs id :
    isnil (rs_relevant ieqb zero mtch rs id) = true <-> ~ rs_some_rel rs id.
  Proof.
    rewrite isnil_true. unfold rs_some_rel. split.
    - intros Hn [e He]. apply relevant_In in He. rewrite Hn in He. exact He.
    - intros Hn. destruct (rs_relevant ieqb zero mtch rs id) as [|e l] eqn:E; [reflexivity|].
      exfalso. apply Hn. exists e. apply relevant_In. rewrite E. left. reflexivity.
  Qed.

  Lemma relevant_nonnil_iff rs id :
    isnil (rs_relevant ieqb zero mtch rs id) = false <-> rs_some_rel rs id.
  Proof.
    destruct (isnil (rs_relevant ieqb zero mtch rs id)) eqn:E.
    - apply relevant_nil_iff in E. split; [discriminate|contradiction].
    - split; [intros _|reflexivity].
      apply isnil_false in E. destruct (rs_relevant ieqb zero mtch rs id) as [|e l] eqn:E2;
        [congruence|].
      exists e. apply relevant_In. rewrite E2. left. reflexivity.
  Qed.

  Lemma rs_perm_spec rs id act :
    subset act (rs_perm ieqb zero mtch rs id) = true <-> rs_all_allow rs id act.
  Proof.
    unfold rs_perm, rs_all_allow. rewrite subset_fold. split; intros [H0 H]; (split; [exact H0|]).
    - intros e He Hr. apply H. apply in_map. apply relevant_In. split; assumption.
    - intros m Hm. apply in_map_iff in Hm. destruct Hm as [e [<- He]].
      apply relevant_In in He. destruct He as [He Hr]. apply H; assumption.
  Qed.

  Lemma rs_validate_cases rs :
    rs_validate ieqb zero rs = None \/ rs_validate ieqb zero rs = Some E_badcav.
  Proof. unfold rs_validate. destruct (_ && _); [right|left]; reflexivity. Qed.

  Lemma rs_validate_spec_l rs :
    rs_validate ieqb zero rs = None <->
    (rs_has_zero ieqb zero rs = false \/ List.length rs = 1%nat).
  Proof.
    unfold rs_validate. destruct (rs_has_zero ieqb zero rs); simpl.
    - destruct (Nat.eqb_spec (List.length rs) 1) as [E|E]; simpl.
      + split; [intros _; right; exact E|reflexivity].
      + split; [discriminate|]. intros [H|H]; [discriminate|contradiction].
    - split; [intros _; left|]; reflexivity.
  Qed.

  (* the shape of rs_prohibits on a specified id once validation passes *)
  Lemma rs_prohibits_valid rs id act :
    rs_validate ieqb zero rs = None ->
    rs_prohibits ieqb zero mtch rs (Some id) act =
      if isnil (rs_relevant ieqb zero mtch rs id) then Some E_forres
      else if subset act (rs_perm ieqb zero mtch rs id) then None else Some E_foract.
  Proof. intros Hv. unfold rs_prohibits. rewrite Hv. reflexivity. Qed.

  Lemma rs_prohibits_invalid rs id act :
    rs_validate ieqb zero rs <> None ->
    rs_prohibits ieqb zero mtch rs id act = Some E_badcav.
  Proof.
    intros Hv. unfold rs_prohibits.
    destruct (rs_validate_cases rs) as [E|E]; [contradiction|]. rewrite E. reflexivity.
  Qed.

  Lemma rs_prohibits_spec_l rs id act :
    rs_prohibits ieqb zero mtch rs (Some id) act = None <->
      rs_validate ieqb zero rs = None /\ (exists e, In e rs /\ rel e id) /\
      subset act 65535 = true /\ (forall e, In e rs -> rel e id -> subset act (snd e) = true).
  Proof.
    fold (rs_some_rel rs id).
    change (rs_prohibits ieqb zero mtch rs (Some id) act = None <->
            rs_validate ieqb zero rs = None /\ rs_some_rel rs id /\ rs_all_allow rs id act).
    destruct (rs_validate_cases rs) as [Hv|Hv].
    - rewrite (rs_prohibits_valid _ _ _ Hv).
      destruct (isnil (rs_relevant ieqb zero mtch rs id)) eqn:En.
      + apply relevant_nil_iff in En. split; [discriminate|]. intros [_ [H _]]. contradiction.
      + apply relevant_nonnil_iff in En.
        destruct (subset act (rs_perm ieqb zero mtch rs id)) eqn:Es.
        * apply rs_perm_spec in Es. tauto.
        * split; [discriminate|]. intros [_ [_ H]]. apply rs_perm_spec in H. congruence.
    - rewrite rs_prohibits_invalid by congruence. rewrite Hv.
      split; [discriminate|]. intros [H _]. discriminate.
  Qed.

  Lemma rs_forres_l rs id act :
    rs_prohibits ieqb zero mtch rs (Some id) act = Some E_forres <->
      rs_validate ieqb zero rs = None /\ ~ (exists e, In e rs /\ rel e id).
  Proof.
    fold (rs_some_rel rs id).
    destruct (rs_validate_cases rs) as [Hv|Hv].
    - rewrite (rs_prohibits_valid _ _ _ Hv).
      destruct (isnil (rs_relevant ieqb zero mtch rs id)) eqn:En.
      + apply relevant_nil_iff in En. tauto.
      + apply relevant_nonnil_iff in En.
        destruct (subset act (rs_perm ieqb zero mtch rs id));
          (split; [discriminate|]); intros [_ H]; contradiction.
    - rewrite rs_prohibits_invalid by congruence. rewrite Hv.
      split; [discriminate|]. intros [H _]. discriminate.
  Qed.

  Lemma rs_foract_l rs id act :
    rs_prohibits ieqb zero mtch rs (Some id) act = Some E_foract <->
      rs_validate ieqb zero rs = None /\ (exists e, In e rs /\ rel e id) /\
      ~ (subset act 65535 = true /\
         forall e, In e rs -> rel e id -> subset act (snd e) = true).
  Proof.
    fold (rs_some_rel rs id).
    change (rs_prohibits ieqb zero mtch rs (Some id) act = Some E_foract <->
            rs_validate ieqb zero rs = None /\ rs_some_rel rs id /\ ~ rs_all_allow rs id act).
    destruct (rs_validate_cases rs) as [Hv|Hv].
    - rewrite (rs_prohibits_valid _ _ _ Hv).
      destruct (isnil (rs_relevant ieqb zero mtch rs id)) eqn:En.
      + apply relevant_nil_iff in En. split; [discriminate|]. intros [_ [H _]]. contradiction.
      + apply relevant_nonnil_iff in En.
        destruct (subset act (rs_perm ieqb zero mtch rs id)) eqn:Es.
        * apply rs_perm_spec in Es. split; [discriminate|]. intros [_ [_ H]]. contradiction.
        * split; [intros _|reflexivity]. split; [exact Hv|]. split; [exact En|].
          intros H. apply rs_perm_spec in H. congruence.
    - rewrite rs_prohibits_invalid by congruence. rewrite Hv.
      split; [discriminate|]. intros [H _]. discriminate.
  Qed.

  Lemma rs_unspecified_l rs act :
    rs_validate ieqb zero rs = None ->
    rs_prohibits ieqb zero mtch rs None act = Some E_unspec.
  Proof. intros Hv. unfold rs_prohibits. rewrite Hv. reflexivity. Qed.

  Lemma rs_zero_mixed_l rs id act :
    rs_has_zero ieqb zero rs = true -> List.length rs <> 1%nat ->
    rs_prohibits ieqb zero mtch rs id act = Some E_badcav.
  Proof.
    intros Hz Hl. apply rs_prohibits_invalid. rewrite rs_validate_spec_l.
    intros [H|H]; [congruence|contradiction].
  Qed.

  Lemma rs_lone_wildcard_l m id act :
    rs_prohibits ieqb zero mtch [(zero, m)] (Some id) act = None <->
    subset act 65535 = true /\ subset act m = true.
  Proof.
    assert (Hz : ieqb zero zero = true) by (apply ieqb_spec; reflexivity).
    rewrite rs_prohibits_spec_l. split.
    - intros [_ [_ [H0 H]]]. split; [exact H0|].
      apply (H (zero, m)); [left; reflexivity|left; exact Hz].
    - intros [H0 Hm]. split; [|split; [|split; [exact H0|]]].
      + apply rs_validate_spec_l. right. reflexivity.
      + exists (zero, m). split; [left; reflexivity|left; exact Hz].
      + intros e [<-|[]] _. exact Hm.
  Qed.

  Lemma rs_validate_perm rs rs' :
    Permutation rs rs' -> rs_validate ieqb zero rs = rs_validate ieqb zero rs'.
  Proof.
    intros HP. unfold rs_validate, rs_has_zero.
    rewrite (existsb_perm _ _ _ HP), (Permutation_length HP). reflexivity.
  Qed.

  Lemma rs_perm_invariant_l rs rs' id act :
    Permutation rs rs' ->
    rs_prohibits ieqb zero mtch rs id act = rs_prohibits ieqb zero mtch rs' id act.
  Proof.
    intros HP. unfold rs_prohibits. rewrite (rs_validate_perm _ _ HP).
    destruct (rs_validate ieqb zero rs'); [reflexivity|].
    destruct id as [i|]; [|reflexivity].
    assert (HR : Permutation (rs_relevant ieqb zero mtch rs i) (rs_relevant ieqb zero mtch rs' i))
      by (apply filter_perm; exact HP).
    rewrite (isnil_perm _ _ HR). unfold rs_perm.
    rewrite (fold_land_perm _ _ (Permutation_map snd HR)). reflexivity.
  Qed.

  Lemma rs_action_monotone_l rs id act act' :
    subset act' act = true ->
    rs_prohibits ieqb zero mtch rs id act = None ->
    rs_prohibits ieqb zero mtch rs id act' = None.
  Proof.
    intros Hs. unfold rs_prohibits.
    destruct (rs_validate ieqb zero rs); [discriminate|].
    destruct id as [i|]; [|discriminate].
    destruct (isnil (rs_relevant ieqb zero mtch rs i)); [discriminate|].
    destruct (subset act (rs_perm ieqb zero mtch rs i)) eqn:E; [|discriminate].
    intros _. rewrite (subset_trans_l _ _ _ Hs E). reflexivity.
  Qed.

  Lemma rs_class_indep_of_action_l rs id act act' :
    is_unspec (rs_prohibits ieqb zero mtch rs id act) =
    is_unspec (rs_prohibits ieqb zero mtch rs id act').
  Proof.
    unfold rs_prohibits.
    destruct (rs_validate ieqb zero rs); [reflexivity|].
    destruct id as [i|]; [|reflexivity].
    destruct (isnil (rs_relevant ieqb zero mtch rs i)); [reflexivity|].
    destruct (subset act _), (subset act' _); reflexivity.
  Qed.

  (* never "unspecified" when an id is given *)
  Lemma rs_specified_not_unspec rs id act :
    is_unspec (rs_prohibits ieqb zero mtch rs (Some id) act) = false.
  Proof.
    unfold rs_prohibits.
    destruct (rs_validate_cases rs) as [E|E]; rewrite E; [|reflexivity].
    destruct (isnil _); [reflexivity|]. destruct (subset _ _); reflexivity.
  Qed.
End RS.

(* ------------------------------------------------------------------ *)
(* Instances for the three id kinds                                    *)
(* ------------------------------------------------------------------ *)

Lemma match_n_spec a b : match_n a b = true <-> a = b.
Proof. unfold match_n. apply N.eqb_eq. Qed.

Lemma match_s_spec a b : match_s a b = true <-> a = b.
Proof. unfold match_s. apply String.eqb_eq. Qed.

Lemma match_p_spec a b : match_p a b = true <-> a = b \/ String.prefix a b = true.
Proof. unfold match_p. rewrite orb_true_iff, String.eqb_eq. reflexivity. Qed.

Lemma rel_n_iff e id : rel N.eqb 0 match_n e id <-> fst e = 0 \/ fst e = id.
Proof. unfold rel. rewrite N.eqb_eq, match_n_spec. reflexivity. Qed.

Lemma rel_s_iff e id :
  rel String.eqb EmptyString match_s e id <-> fst e = EmptyString \/ fst e = id.
Proof. unfold rel. rewrite String.eqb_eq, match_s_spec. reflexivity. Qed.

Lemma rel_p_iff e id :
  rel String.eqb EmptyString match_p e id <->
  fst e = EmptyString \/ fst e = id \/ String.prefix (fst e) id = true.
Proof. unfold rel. rewrite String.eqb_eq, match_p_spec. reflexivity. Qed.

(* -- numeric ids (Apps) *)
Lemma rs_prohibits_n_spec_l rs id act :
  rs_prohibits_n rs (Some id) act = None <->
    rs_validate N.eqb 0 rs = None /\ (exists e, In e rs /\ (fst e = 0 \/ fst e = id)) /\
    subset act 65535 = true /\
    (forall e, In e rs -> fst e = 0 \/ fst e = id -> subset act (snd e) = true).
Proof.
  unfold rs_prohibits_n. rewrite rs_prohibits_spec_l.
  setoid_rewrite rel_n_iff. reflexivity.
Qed.

Lemma rs_forres_n_l rs id act :
  rs_prohibits_n rs (Some id) act = Some E_forres <->
    rs_validate N.eqb 0 rs = None /\ ~ (exists e, In e rs /\ (fst e = 0 \/ fst e = id)).
Proof.
  unfold rs_prohibits_n. rewrite rs_forres_l. setoid_rewrite rel_n_iff. reflexivity.
Qed.

Lemma rs_foract_n_l rs id act :
  rs_prohibits_n rs (Some id) act = Some E_foract <->
    rs_validate N.eqb 0 rs = None /\ (exists e, In e rs /\ (fst e = 0 \/ fst e = id)) /\
    ~ (subset act 65535 = true /\
       forall e, In e rs -> fst e = 0 \/ fst e = id -> subset act (snd e) = true).
Proof.
  unfold rs_prohibits_n. rewrite rs_foract_l. setoid_rewrite rel_n_iff. reflexivity.
Qed.

Lemma rs_unspecified_n_l rs act :
  rs_validate N.eqb 0 rs = None -> rs_prohibits_n rs None act = Some E_unspec.
Proof. apply rs_unspecified_l. Qed.

Lemma rs_zero_mixed_n_l rs id act :
  rs_has_zero N.eqb 0 rs = true -> List.length rs <> 1%nat ->
  rs_prohibits_n rs id act = Some E_badcav.
Proof. apply rs_zero_mixed_l. Qed.

Lemma rs_lone_wildcard_n_l m id act :
  rs_prohibits_n [(0, m)] (Some id) act = None <->
  subset act 65535 = true /\ subset act m = true.
Proof. apply rs_lone_wildcard_l. exact N.eqb_eq. Qed.

Lemma rs_perm_invariant_n_l rs rs' id act :
  Permutation rs rs' -> rs_prohibits_n rs id act = rs_prohibits_n rs' id act.
Proof. apply rs_perm_invariant_l. Qed.

Lemma rs_action_monotone_n_l rs id act act' :
  subset act' act = true -> rs_prohibits_n rs id act = None -> rs_prohibits_n rs id act' = None.
Proof. apply rs_action_monotone_l. Qed.

Lemma rs_class_indep_of_action_n_l rs id act act' :
  is_unspec (rs_prohibits_n rs id act) = is_unspec (rs_prohibits_n rs id act').
Proof. apply rs_class_indep_of_action_l. Qed.

(* -- string ids, exact match (Volumes, Machines, FeatureSet, ...) *)
Lemma rs_prohibits_s_spec_l rs id act :
  rs_prohibits_s rs (Some id) act = None <->
    rs_validate String.eqb EmptyString rs = None /\
    (exists e, In e rs /\ (fst e = EmptyString \/ fst e = id)) /\
    subset act 65535 = true /\
    (forall e, In e rs -> fst e = EmptyString \/ fst e = id -> subset act (snd e) = true).
Proof.
  unfold rs_prohibits_s. rewrite rs_prohibits_spec_l.
  setoid_rewrite rel_s_iff. reflexivity.
Qed.

Lemma rs_forres_s_l rs id act :
  rs_prohibits_s rs (Some id) act = Some E_forres <->
    rs_validate String.eqb EmptyString rs = None /\
    ~ (exists e, In e rs /\ (fst e = EmptyString \/ fst e = id)).
Proof.
  unfold rs_prohibits_s. rewrite rs_forres_l. setoid_rewrite rel_s_iff. reflexivity.
Qed.

Lemma rs_foract_s_l rs id act :
  rs_prohibits_s rs (Some id) act = Some E_foract <->
    rs_validate String.eqb EmptyString rs = None /\
    (exists e, In e rs /\ (fst e = EmptyString \/ fst e = id)) /\
    ~ (subset act 65535 = true /\
       forall e, In e rs -> fst e = EmptyString \/ fst e = id -> subset act (snd e) = true).
Proof.
  unfold rs_prohibits_s. rewrite rs_foract_l. setoid_rewrite rel_s_iff. reflexivity.
Qed.

Lemma rs_unspecified_s_l rs act :
  rs_validate String.eqb EmptyString rs = None -> rs_prohibits_s rs None act = Some E_unspec.
Proof. apply rs_unspecified_l. Qed.

Lemma rs_zero_mixed_s_l rs id act :
  rs_has_zero String.eqb EmptyString rs = true -> List.length rs <> 1%nat ->
  rs_prohibits_s rs id act = Some E_badcav.
Proof. apply rs_zero_mixed_l. Qed.

Lemma rs_lone_wildcard_s_l m id act :
  rs_prohibits_s [(EmptyString, m)] (Some id) act = None <->
  subset act 65535 = true /\ subset act m = true.
Proof. apply rs_lone_wildcard_l. exact String.eqb_eq. Qed.

Lemma rs_perm_invariant_s_l rs rs' id act :
  Permutation rs rs' -> rs_prohibits_s rs id act = rs_prohibits_s rs' id act.
Proof. apply rs_perm_invariant_l. Qed.

Lemma rs_action_monotone_s_l rs id act act' :
  subset act' act = true -> rs_prohibits_s rs id act = None -> rs_prohibits_s rs id act' = None.
Proof. apply rs_action_monotone_l. Qed.

Lemma rs_class_indep_of_action_s_l rs id act act' :
  is_unspec (rs_prohibits_s rs id act) = is_unspec (rs_prohibits_s rs id act').
Proof. apply rs_class_indep_of_action_l. Qed.

(* -- string ids, prefix match (StorageObjects) *)
Lemma rs_prohibits_p_spec_l rs id act :
  rs_prohibits_p rs (Some id) act = None <->
    rs_validate String.eqb EmptyString rs = None /\
    (exists e, In e rs /\
       (fst e = EmptyString \/ fst e = id \/ String.prefix (fst e) id = true)) /\
    subset act 65535 = true /\
    (forall e, In e rs ->
       fst e = EmptyString \/ fst e = id \/ String.prefix (fst e) id = true ->
       subset act (snd e) = true).
Proof.
  unfold rs_prohibits_p. rewrite rs_prohibits_spec_l.
  setoid_rewrite rel_p_iff. reflexivity.
Qed.

Lemma rs_forres_p_l rs id act :
  rs_prohibits_p rs (Some id) act = Some E_forres <->
    rs_validate String.eqb EmptyString rs = None /\
    ~ (exists e, In e rs /\
         (fst e = EmptyString \/ fst e = id \/ String.prefix (fst e) id = true)).
Proof.
  unfold rs_prohibits_p. rewrite rs_forres_l. setoid_rewrite rel_p_iff. reflexivity.
Qed.

Lemma rs_foract_p_l rs id act :
  rs_prohibits_p rs (Some id) act = Some E_foract <->
    rs_validate String.eqb EmptyString rs = None /\
    (exists e, In e rs /\
       (fst e = EmptyString \/ fst e = id \/ String.prefix (fst e) id = true)) /\
    ~ (subset act 65535 = true /\
       forall e, In e rs ->
         fst e = EmptyString \/ fst e = id \/ String.prefix (fst e) id = true ->
         subset act (snd e) = true).
Proof.
  unfold rs_prohibits_p. rewrite rs_foract_l. setoid_rewrite rel_p_iff. reflexivity.
Qed.

Lemma rs_unspecified_p_l rs act :
  rs_validate String.eqb EmptyString rs = None -> rs_prohibits_p rs None act = Some E_unspec.
Proof. apply rs_unspecified_l. Qed.

Lemma rs_zero_mixed_p_l rs id act :
  rs_has_zero String.eqb EmptyString rs = true -> List.length rs <> 1%nat ->
  rs_prohibits_p rs id act = Some E_badcav.
Proof. apply rs_zero_mixed_l. Qed.

Lemma rs_lone_wildcard_p_l m id act :
  rs_prohibits_p [(EmptyString, m)] (Some id) act = None <->
  subset act 65535 = true /\ subset act m = true.
Proof. apply rs_lone_wildcard_l. exact String.eqb_eq. Qed.

Lemma rs_perm_invariant_p_l rs rs' id act :
  Permutation rs rs' -> rs_prohibits_p rs id act = rs_prohibits_p rs' id act.
Proof. apply rs_perm_invariant_l. Qed.

Lemma rs_action_monotone_p_l rs id act act' :
  subset act' act = true -> rs_prohibits_p rs id act = None -> rs_prohibits_p rs id act' = None.
Proof. apply rs_action_monotone_l. Qed.

Lemma rs_class_indep_of_action_p_l rs id act act' :
  is_unspec (rs_prohibits_p rs id act) = is_unspec (rs_prohibits_p rs id act').
Proof. apply rs_class_indep_of_action_l. Qed.

(* ------------------------------------------------------------------ *)
(* Conditional caveat (IfPresent) and Action caveat                    *)
(* ------------------------------------------------------------------ *)

Definition applicable (ifs : list cav) (a : access) : list cav :=
  filter (fun c => negb (is_unspec (prohibits c a))) ifs.

(* the local loop of [prohibits (CIfPresent ..)] as a top-level function *)
Definition ifgo (a : access) : list cav -> err -> bool -> err * bool :=
  fix go (l : list cav) (acc : err) (br : bool) {struct l} : err * bool :=
    match l with
    | [] => (acc, br)
    | c' :: r =>
      let e := prohibits c' a in
      if is_unspec e then go r acc br else go r (eappend acc e) true
    end.

Lemma prohibits_if_unfold ifs els a :
  prohibits (CIfPresent ifs els) a =
  match a_action a with
  | None => Some E_invalid
  | Some act =>
    let '(e, br) := match ifs with Some l => ifgo a l None false | None => (None, false) end in
    if negb br && negb (subset act els) then Some E_foract else e
  end.
Proof. reflexivity. Qed.

Definition inner_errs (l : list cav) (a : access) : list err :=
  map (fun c => prohibits c a) (applicable l a).

Lemma ifgo_spec a l acc br :
  ifgo a l acc br =
  (fold_left eappend (inner_errs l a) acc, br || negb (isnil (applicable l a))).
Proof.
  revert acc br. induction l as [|c l IH]; intros acc br.
  - simpl. rewrite orb_false_r. reflexivity.
  - unfold inner_errs, applicable. simpl.
    destruct (is_unspec (prohibits c a)) eqn:E; simpl.
    + apply IH.
    + rewrite IH. rewrite orb_true_r. reflexivity.
Qed.

(* closed form of the IfPresent result *)
Lemma prohibits_if_form ifs els a act :
  a_action a = Some act ->
  prohibits (CIfPresent ifs els) a =
  if isnil (applicable (ifs_list ifs) a) && negb (subset act els) then Some E_foract
  else fold_left eappend (inner_errs (ifs_list ifs) a) None.
Proof.
  intros Ha. rewrite prohibits_if_unfold, Ha.
  destruct ifs as [l|]; simpl ifs_list.
  - rewrite ifgo_spec. simpl orb. rewrite negb_involutive. reflexivity.
  - reflexivity.
Qed.

Lemma fold_eappend_nil_iff l acc :
  fold_left eappend l acc = None <-> acc = None /\ forall e, In e l -> e = None.
Proof.
  revert acc. induction l as [|x l IH]; intros acc; simpl.
  - split; [intros H; split; [exact H|intros e []]|intros [H _]; exact H].
  - rewrite IH, eappend_nil_iff. split.
    + intros [[Ha Hx] Hl]. split; [exact Ha|]. intros e [<-|He]; auto.
    + intros [Ha Hl]. split; [split|]; auto.
Qed.

Lemma is_unspec_eappend a b : is_unspec (eappend a b) = is_unspec a || is_unspec b.
Proof.
  destruct a as [x|], b as [y|]; simpl; try reflexivity.
  rewrite orb_false_r. reflexivity.
Qed.

Lemma fold_eappend_not_unspec l acc :
  is_unspec acc = false -> (forall e, In e l -> is_unspec e = false) ->
  is_unspec (fold_left eappend l acc) = false.
Proof.
  revert acc. induction l as [|x l IH]; intros acc Ha Hl; simpl.
  - exact Ha.
  - apply IH.
    + rewrite is_unspec_eappend, Ha, (Hl x (or_introl eq_refl)). reflexivity.
    + intros e He. apply Hl. right. exact He.
Qed.

Lemma inner_errs_In l a e :
  In e (inner_errs l a) <-> exists c, In c (applicable l a) /\ prohibits c a = e.
Proof.
  unfold inner_errs. rewrite in_map_iff. split; intros [c [H1 H2]]; exists c; tauto.
Qed.

Lemma applicable_In l a c :
  In c (applicable l a) <-> In c l /\ is_unspec (prohibits c a) = false.
Proof. unfold applicable. rewrite filter_In, negb_true_iff. reflexivity. Qed.

Lemma ifpresent_spec_l ifs els a act :
  a_action a = Some act ->
  (prohibits (CIfPresent ifs els) a = None <->
     (applicable (ifs_list ifs) a <> [] /\
      forall c, In c (applicable (ifs_list ifs) a) -> prohibits c a = None)
     \/ (applicable (ifs_list ifs) a = [] /\ subset act els = true)).
Proof.
  intros Ha. rewrite (prohibits_if_form _ _ _ _ Ha).
  destruct (isnil (applicable (ifs_list ifs) a)) eqn:En.
  - apply isnil_true in En. unfold inner_errs. rewrite En. simpl.
    destruct (subset act els); simpl.
    + split; [intros _; right; split; reflexivity|reflexivity].
    + split; [discriminate|]. intros [[H _]|[_ H]]; [contradiction|discriminate].
  - apply isnil_false in En. simpl. rewrite fold_eappend_nil_iff. split.
    + intros [_ H]. left. split; [exact En|]. intros c Hc. apply H.
      apply inner_errs_In. exists c. split; [exact Hc|reflexivity].
    + intros [[_ H]|[H _]]; [|contradiction]. split; [reflexivity|].
      intros e He. apply inner_errs_In in He. destruct He as [c [Hc <-]]. apply H. exact Hc.
Qed.

Lemma ifpresent_err_l ifs els a act :
  a_action a = Some act -> applicable (ifs_list ifs) a <> [] ->
  prohibits (CIfPresent ifs els) a =
  fold_left eappend (map (fun c => prohibits c a) (applicable (ifs_list ifs) a)) None.
Proof.
  intros Ha Hn. rewrite (prohibits_if_form _ _ _ _ Ha).
  apply isnil_false in Hn. rewrite Hn. reflexivity.
Qed.

(* companion: the else-branch *)
Lemma ifpresent_else_l ifs els a act :
  a_action a = Some act -> applicable (ifs_list ifs) a = [] ->
  prohibits (CIfPresent ifs els) a = if subset act els then None else Some E_foract.
Proof.
  intros Ha Hn. rewrite (prohibits_if_form _ _ _ _ Ha). unfold inner_errs. rewrite Hn.
  simpl. destruct (subset act els); reflexivity.
Qed.

Lemma ifpresent_no_action_l ifs els a :
  a_action a = None -> prohibits (CIfPresent ifs els) a = Some E_invalid.
Proof. intros Ha. rewrite prohibits_if_unfold, Ha. reflexivity. Qed.

Lemma ifpresent_never_unspec_l ifs els a :
  is_unspec (prohibits (CIfPresent ifs els) a) = false.
Proof.
  destruct (a_action a) as [act|] eqn:Ha.
  - rewrite (prohibits_if_form _ _ _ _ Ha).
    destruct (_ && _); [reflexivity|].
    apply fold_eappend_not_unspec; [reflexivity|].
    intros e He. apply inner_errs_In in He. destruct He as [c [Hc <-]].
    apply applicable_In in Hc. tauto.
  - rewrite (ifpresent_no_action_l _ _ _ Ha). reflexivity.
Qed.

Lemma action_caveat_spec_l m a :
  prohibits (CAction m) a = None <-> exists act, a_action a = Some act /\ subset act m = true.
Proof.
  simpl. destruct (a_action a) as [act|].
  - destruct (subset act m) eqn:E.
    + split; [intros _; exists act; split; [reflexivity|exact E]|reflexivity].
    + split; [discriminate|]. intros [act' [H1 H2]]. injection H1 as <-. congruence.
  - split; [discriminate|]. intros [act' [H1 _]]. discriminate.
Qed.

(* ------------------------------------------------------------------ *)
(* Monotonicity in the action                                          *)
(* ------------------------------------------------------------------ *)

Definition set_action (f : flyio_access) (act : N) : flyio_access :=
  mkFA act (fa_org f) (fa_app f) (fa_appfeature f) (fa_feature f) (fa_volume f)
       (fa_machine f) (fa_machinefeature f) (fa_mutation f) (fa_srcmachine f)
       (fa_srcapp f) (fa_srcorg f) (fa_cluster f) (fa_command f) (fa_storage f) (fa_now f).

Lemma fa_validate_set_action f act' : fa_validate (set_action f act') = fa_validate f.
Proof. reflexivity. Qed.

Lemma allowed_roles_not_unspec mask a : is_unspec (allowed_roles_prohibits mask a) = false.
Proof.
  unfold allowed_roles_prohibits. destruct a as [f|d|v t|m t]; try reflexivity.
  destruct (N.eqb _ _); reflexivity.
Qed.

Lemma org_unspec_indep id mask f act' :
  is_unspec (prohibits (COrganization id mask) (AFlyio f)) =
  is_unspec (prohibits (COrganization id mask) (AFlyio (set_action f act'))).
Proof.
  cbn [prohibits with_flyio]. change (fa_org (set_action f act')) with (fa_org f).
  destruct (fa_org f) as [o|]; [|reflexivity].
  destruct (_ && _); [reflexivity|].
  destruct (subset (fa_action f) mask), (subset (fa_action (set_action f act')) mask); reflexivity.
Qed.

Lemma action_unspec_indep mask f act' :
  is_unspec (prohibits (CAction mask) (AFlyio f)) =
  is_unspec (prohibits (CAction mask) (AFlyio (set_action f act'))).
Proof.
  cbn [prohibits a_action].
  destruct (subset (fa_action f) mask), (subset (fa_action (set_action f act')) mask); reflexivity.
Qed.

Lemma prohibits_unspec_indep_action_l c f act' :
  is_unspec (prohibits c (AFlyio f)) = is_unspec (prohibits c (AFlyio (set_action f act'))).
Proof.
  destruct c;
  first
  [ apply org_unspec_indep
  | exact (rs_class_indep_of_action_l N.eqb 0 match_n _ _ _ _)
  | exact (rs_class_indep_of_action_l String.eqb EmptyString match_s _ _ _ _)
  | exact (rs_class_indep_of_action_l String.eqb EmptyString match_p _ _ _ _)
  | (rewrite !ifpresent_never_unspec_l; reflexivity)
  | (transitivity false; [apply allowed_roles_not_unspec|symmetry; apply allowed_roles_not_unspec])
  | apply action_unspec_indep
  | reflexivity ].
Qed.

Lemma applicable_set_action l f act' :
  applicable l (AFlyio (set_action f act')) = applicable l (AFlyio f).
Proof.
  unfold applicable. apply filter_ext. intros c.
  rewrite <- prohibits_unspec_indep_action_l. reflexivity.
Qed.

(* GetPermittedRoles can only become weaker when the action shrinks *)
Lemma permitted_role_set_action f act' :
  subset act' (fa_action f) = true ->
  permitted_role (set_action f act') = permitted_role f \/
  (permitted_role (set_action f act') = role_member /\ permitted_role f = role_admin).
Proof.
  intros Hs. unfold permitted_role.
  change (fa_feature (set_action f act')) with (fa_feature f).
  change (fa_action (set_action f act')) with act'.
  destruct (fa_feature f) as [ft|]; [|left; reflexivity].
  destruct (assoc_s ft member_features) as [allowed|]; [|left; reflexivity].
  destruct (subset (fa_action f) allowed) eqn:E.
  - rewrite (subset_trans_l _ _ _ Hs E). left. reflexivity.
  - destruct (subset act' allowed); [right; split; reflexivity|left; reflexivity].
Qed.

Lemma role_member_sub_admin : subset role_member role_admin = true.
Proof. vm_compute. reflexivity. Qed.

Lemma admin_implies_member mask :
  N.land mask role_admin = role_admin -> N.land mask role_member = role_member.
Proof.
  intros H. rewrite N.land_comm. apply subset_iff.
  apply subset_trans_l with role_admin; [exact role_member_sub_admin|].
  apply subset_iff. rewrite N.land_comm. exact H.
Qed.

Lemma allowed_roles_monotone mask f act' :
  subset act' (fa_action f) = true ->
  allowed_roles_prohibits mask (AFlyio f) = None ->
  allowed_roles_prohibits mask (AFlyio (set_action f act')) = None.
Proof.
  intros Hs. unfold allowed_roles_prohibits.
  destruct (N.eqb (N.land mask (permitted_role f)) (permitted_role f)) eqn:E; [|discriminate].
  intros _.
  destruct (permitted_role_set_action f act' Hs) as [Hr|[Hr Ha]]; rewrite Hr.
  - rewrite E. reflexivity.
  - rewrite Ha in E. apply N.eqb_eq in E. rewrite (admin_implies_member _ E).
    rewrite N.eqb_refl. reflexivity.
Qed.

Lemma org_monotone id mask f act' :
  subset act' (fa_action f) = true ->
  prohibits (COrganization id mask) (AFlyio f) = None ->
  prohibits (COrganization id mask) (AFlyio (set_action f act')) = None.
Proof.
  intros Hs. cbn [prohibits with_flyio].
  change (fa_org (set_action f act')) with (fa_org f).
  change (fa_action (set_action f act')) with act'.
  destruct (fa_org f) as [o|]; [|discriminate].
  destruct (_ && _); [discriminate|].
  destruct (subset (fa_action f) mask) eqn:E; [|discriminate].
  intros _. rewrite (subset_trans_l _ _ _ Hs E). reflexivity.
Qed.

Lemma action_monotone_cav mask f act' :
  subset act' (fa_action f) = true ->
  prohibits (CAction mask) (AFlyio f) = None ->
  prohibits (CAction mask) (AFlyio (set_action f act')) = None.
Proof.
  intros Hs. cbn [prohibits a_action].
  change (fa_action (set_action f act')) with act'.
  destruct (subset (fa_action f) mask) eqn:E; [|discriminate].
  intros _. rewrite (subset_trans_l _ _ _ Hs E). reflexivity.
Qed.

Lemma leaf_monotone c f act' :
  (forall ifs els, c <> CIfPresent ifs els) ->
  subset act' (fa_action f) = true ->
  prohibits c (AFlyio f) = None -> prohibits c (AFlyio (set_action f act')) = None.
Proof.
  intros Hleaf Hs.
  destruct c;
  first
  [ exact (org_monotone _ _ _ _ Hs)
  | exact (rs_action_monotone_l N.eqb 0 match_n _ _ _ _ Hs)
  | exact (rs_action_monotone_l String.eqb EmptyString match_s _ _ _ _ Hs)
  | exact (rs_action_monotone_l String.eqb EmptyString match_p _ _ _ _ Hs)
  | exact (allowed_roles_monotone _ _ _ Hs)
  | exact (action_monotone_cav _ _ _ Hs)
  | (exfalso; eapply Hleaf; reflexivity)
  | (intros H; exact H) ].
Qed.

Lemma prohibits_action_monotone_l c f act' :
  subset act' (fa_action f) = true ->
  prohibits c (AFlyio f) = None -> prohibits c (AFlyio (set_action f act')) = None.
Proof.
  intros Hs. induction c as [c Hleaf|els|l els IH] using cav_ind'.
  - apply leaf_monotone; assumption.
  - intros H.
    apply (ifpresent_spec_l None els (AFlyio f) (fa_action f) eq_refl) in H.
    apply (ifpresent_spec_l None els (AFlyio (set_action f act')) act' eq_refl).
    rewrite applicable_set_action.
    destruct H as [[Hn Hall]|[Hn Hsub]].
    + exfalso. apply Hn. reflexivity.
    + right. split; [exact Hn|]. exact (subset_trans_l _ _ _ Hs Hsub).
  - intros H.
    apply (ifpresent_spec_l (Some l) els (AFlyio f) (fa_action f) eq_refl) in H.
    apply (ifpresent_spec_l (Some l) els (AFlyio (set_action f act')) act' eq_refl).
    rewrite applicable_set_action.
    destruct H as [[Hn Hall]|[Hn Hsub]].
    + left. split; [exact Hn|]. intros c Hc.
      rewrite Forall_forall in IH. apply IH.
      * apply applicable_In in Hc. simpl in Hc. tauto.
      * apply Hall. exact Hc.
    + right. split; [exact Hn|]. exact (subset_trans_l _ _ _ Hs Hsub).
Qed.

Lemma action_monotone_l cs f act' :
  subset act' (fa_action f) = true ->
  validate cs [AFlyio f] = None -> validate cs [AFlyio (set_action f act')] = None.
Proof.
  intros Hs H. rewrite validate_nil_iff in H. rewrite validate_nil_iff.
  intros a [<-|[]].
  destruct (H (AFlyio f) (or_introl eq_refl)) as [Hv Hc]. split.
  - exact Hv.
  - intros c Hin Hatt. apply prohibits_action_monotone_l; [exact Hs|]. apply Hc; assumption.
Qed.
