(* The lenient frame decoder extends the strict one: on everything the strict decoder accepts (in particular on every
   canonical encoding, CodecProofs) it returns the same frames; it accepts more only through the documented leniencies. *)
From Coq Require Import List Bool NArith Lia.
From Mac Require Import Model.Caveat Model.Msgpack Model.Codec.
Import ListNotations.
Local Open Scope N_scope.

Lemma dec_uint_len_ext l ty r : dec_uint l = Some (ty, r) -> dec_uint_len l = Some (ty, r).
Proof.
  destruct l as [|c t]; [discriminate|]. cbn [dec_uint dec_uint_len].
  destruct (c <=? 127) eqn:E1; [auto|].
  apply N.leb_gt in E1.
  destruct (c =? 204) eqn:E204.
  { apply N.eqb_eq in E204. subst c. cbn. auto. }
  destruct (c =? 205) eqn:E205.
  { apply N.eqb_eq in E205. subst c. cbn. auto. }
  destruct (c =? 206) eqn:E206.
  { apply N.eqb_eq in E206. subst c. cbn. auto. }
  destruct (c =? 207) eqn:E207.
  { apply N.eqb_eq in E207. subst c. cbn. auto. }
  discriminate.
Qed.

Lemma dec_frames_n_len_ext n : forall l fs tl,
  dec_frames_n n l = Some (fs, tl) -> dec_frames_n_len n l = Some (fs, tl).
Proof.
  induction n as [|n IH]; intros l fs tl; cbn [dec_frames_n dec_frames_n_len]; [auto|].
  destruct (dec_uint l) as [[ty r]|] eqn:U; [|discriminate].
  rewrite (dec_uint_len_ext l ty r U).
  destruct (skip (S (List.length r)) r) as [rest|]; [|discriminate].
  destruct (dec_frames_n n rest) as [[fs' tl']|] eqn:F; [|discriminate].
  rewrite (IH rest fs' tl' F). auto.
Qed.

Lemma dec_frames_len_ext_l l fs : dec_frames l = Some fs -> dec_frames_len l = Some fs.
Proof.
  unfold dec_frames, dec_frames_len.
  destruct l as [|c t]; [discriminate|].
  destruct (N.eq_dec c 192) as [->|Hc].
  - cbn. discriminate.
  - assert (E : match c :: t with 192 :: _ => Some [] | _ =>
                  match dec_arr_hdr (c :: t) with
                  | None => None
                  | Some (n, r) => if N.odd n then None else if N.of_nat (List.length r) <? n then None
                                   else option_map fst (dec_frames_n_len (N.to_nat (n / 2)) r) end end =
                match dec_arr_hdr (c :: t) with
                | None => None
                | Some (n, r) => if N.odd n then None else if N.of_nat (List.length r) <? n then None
                                 else option_map fst (dec_frames_n_len (N.to_nat (n / 2)) r) end).
    { destruct c as [|p]; [reflexivity|]. do 8 (destruct p as [p|p|]; try reflexivity). all: try (exfalso; apply Hc; reflexivity). }
    rewrite E. destruct (dec_arr_hdr (c :: t)) as [[n r]|]; [|discriminate].
    destruct (N.odd n); [discriminate|]. destruct (N.of_nat (List.length r) <? n); [discriminate|].
    destruct (dec_frames_n (N.to_nat (n / 2)) r) as [[fs' tl]|] eqn:F; [|discriminate].
    rewrite (dec_frames_n_len_ext _ _ _ _ F). auto.
Qed.

(* a nil where the whole set is expected is the empty set; a nil / negative number where a type is expected is a number *)
Lemma dec_frames_len_nil_l t : dec_frames_len (192 :: t) = Some [].
Proof. reflexivity. Qed.
Lemma dec_uint_len_nil_l r : dec_uint_len (192 :: r) = Some (0, r).
Proof. reflexivity. Qed.
Lemma dec_uint_len_negfix_l c r : 224 <= c -> c <= 255 -> dec_uint_len (c :: r) = Some (2 ^ 64 - (256 - c), r).
Proof.
  intros H1 H2. cbn [dec_uint_len].
  destruct (N.leb_spec c 127); [lia|]. destruct (N.eqb_spec c 192); [lia|].
  destruct (N.leb_spec 224 c); [reflexivity|lia].
Qed.
