(* Per-run obligation: every control-flow path of every Bundle operation, as translated
   from /repo/bundle by harness/cmd/lockprog on this run, is a flat lock program. *)
From Coq Require Import List Bool String Arith PeanoNat.
From Mac Require Import Model.RWLock Generated.LockProgs Proofs.RWLockProofs.
Import ListNotations.

Definition all_flat (l : list (string * list prog)) : bool :=
  forallb (fun e => forallb flat_out (snd e)) l.

Lemma lockprogs_flat_l : all_flat lockprogs = true.
Proof. vm_compute. reflexivity. Qed.

(* a bundle that shares token objects with the one it was derived from (Select) must share its lock,
   so that the safety theorem covers the whole family of derived bundles *)
Definition derived_share_lock (l : list (string * bool * bool)) : bool :=
  forallb (fun x => implb (snd (fst x)) (snd x)) l.

Lemma derived_share_lock_l : derived_share_lock bundle_literals = true.
Proof. vm_compute. reflexivity. Qed.

Definition all_paths : list prog := flat_map snd lockprogs.

Lemma all_paths_flat : Forall (fun p => flat_out p = true) all_paths.
Proof.
  apply Forall_forall. intros p Hin. unfold all_paths in Hin. apply in_flat_map in Hin.
  destruct Hin as [e [He Hp]]. pose proof lockprogs_flat_l as H. unfold all_flat in H.
  rewrite forallb_forall in H. specialize (H e He). rewrite forallb_forall in H. exact (H p Hp).
Qed.

(* any number of threads, each calling any sequence of Bundle operations (any of their paths) *)
Definition thread_prog (calls : list prog) : prog := List.concat calls.

Lemma thread_prog_flat calls : (forall c, In c calls -> In c all_paths) -> flat_out (thread_prog calls) = true.
Proof.
  intros H. unfold thread_prog. induction calls as [|c r IH]; [reflexivity|].
  cbn [List.concat]. apply flat_out_app.
  - pose proof all_paths_flat as F. rewrite Forall_forall in F. apply F, H. now left.
  - apply IH. intros c' Hc. apply H. now right.
Qed.

Lemma bundle_ops_safe_l (threads : list (list prog)) s :
  (forall calls, In calls threads -> forall c, In c calls -> In c all_paths) ->
  steps (init_sys (map thread_prog threads)) s ->
  linv s /\ (~ final s -> exists s', step s s') /\
  (forall pre t post, s = pre ++ t :: post ->
     (next_access t = Some true -> forall u, In u (pre ++ post) -> next_access u = None) /\
     (next_access t = Some false -> forall u, In u (pre ++ post) -> next_access u <> Some true)) /\
  (exists n s', n <= measure s /\ nsteps n s s' /\ final s').
Proof.
  intros H Hs.
  assert (F : Forall (fun p => flat_out p = true) (map thread_prog threads)).
  { apply Forall_forall. intros p Hp. apply in_map_iff in Hp. destruct Hp as [calls [<- Hc]].
    apply thread_prog_flat. exact (H calls Hc). }
  destruct (flat_safe _ _ F Hs) as [L P]. split; [exact L|]. split; [exact P|]. split.
  - intros pre t post E. exact (race_free _ _ F Hs pre t post E).
  - exact (flat_completes _ _ F Hs).
Qed.

(* ---- atomicity: every path of every operation is at most ONE critical section.  An operation whose accesses are
   spread over two sections lets another operation take effect in between: its result then mixes two states of the
   token list ("modifications take effect atomically ... readers see either the old or the new token list"). *)
Definition is_acq (i : instr) : bool := match i with Acq _ => true | _ => false end.
Definition count_acq (p : prog) : nat := List.length (filter is_acq p).
Definition all_single_section (l : list (string * list prog)) : bool :=
  forallb (fun e => forallb (fun p => Nat.leb (count_acq p) 1) (snd e)) l.

Lemma lockprogs_single_section_l : all_single_section lockprogs = true.
Proof. vm_compute. reflexivity. Qed.

Lemma flat_in_decomp m p : flat_in m p = true ->
  exists body q, p = body ++ Rel m :: q /\ Forall (fun i => i = Rd \/ i = Wr) body /\
                 (m = R -> Forall (fun i => i = Rd) body) /\ flat_out q = true.
Proof.
  induction p as [|i p IH]; cbn [flat_in]; [discriminate|].
  destruct i as [m'|m'| |].
  - discriminate.
  - intros H. exists [], p. cbn [app].
    destruct m, m'; try discriminate; (split; [reflexivity|split; [constructor|split; [intros _; constructor|exact H]]]).
  - intros H. destruct (IH H) as [body [q [-> [Hb [Hr Hq]]]]]. exists (Rd :: body), q.
    split; [reflexivity|]. split; [constructor; [now left|exact Hb]|]. split; [|exact Hq].
    intros Hm. constructor; [reflexivity|exact (Hr Hm)].
  - destruct m; [discriminate|]. intros H. destruct (IH H) as [body [q [-> [Hb [Hr Hq]]]]]. exists (Wr :: body), q.
    split; [reflexivity|]. split; [constructor; [now right|exact Hb]|]. split; [|exact Hq].
    intros Hm. discriminate Hm.
Qed.

Lemma count_acq_app a b : count_acq (a ++ b) = count_acq a + count_acq b.
Proof. unfold count_acq. now rewrite filter_app, app_length. Qed.

Lemma flat_out_no_acq q : flat_out q = true -> count_acq q = 0 -> q = [].
Proof.
  destruct q as [|i q]; [reflexivity|]. destruct i as [m|m| |]; cbn [flat_out]; try discriminate.
Qed.

(* a flat path with at most one acquisition is empty or exactly one section holding all of its accesses *)
Lemma single_section_shape_l p : flat_out p = true -> count_acq p <= 1 ->
  p = [] \/ exists m body, p = Acq m :: body ++ [Rel m] /\ Forall (fun i => i = Rd \/ i = Wr) body /\
                           (m = R -> Forall (fun i => i = Rd) body).
Proof.
  destruct p as [|i p]; [now left|]. destruct i as [m| | |]; cbn [flat_out]; try discriminate.
  intros H Hc. right. destruct (flat_in_decomp m p H) as [body [q [-> [Hb [Hr Hq]]]]].
  assert (q = []) as ->.
  { apply flat_out_no_acq; [exact Hq|].
    change (Acq m :: body ++ Rel m :: q) with ([Acq m] ++ body ++ [Rel m] ++ q) in Hc.
    rewrite !count_acq_app in Hc. unfold count_acq at 1 in Hc. cbn [filter is_acq List.length] in Hc.
    destruct (count_acq q); [reflexivity|]. exfalso.
    rewrite Nat.add_comm in Hc. cbn in Hc. rewrite !Nat.add_succ_r in Hc. inversion Hc as [|? Hc']. inversion Hc'. }
  exists m, body. repeat split; assumption.
Qed.

Lemma bundle_ops_atomic_l name paths p :
  In (name, paths) lockprogs -> In p paths ->
  p = [] \/ exists m body, p = Acq m :: body ++ [Rel m] /\ Forall (fun i => i = Rd \/ i = Wr) body /\
                           (m = R -> Forall (fun i => i = Rd) body).
Proof.
  intros He Hp. apply single_section_shape_l.
  - pose proof all_paths_flat as F. rewrite Forall_forall in F. apply F. unfold all_paths. apply in_flat_map.
    exists (name, paths). split; [exact He|exact Hp].
  - pose proof lockprogs_single_section_l as H. unfold all_single_section in H. rewrite forallb_forall in H.
    specialize (H _ He). cbn [snd] in H. rewrite forallb_forall in H. specialize (H _ Hp). now apply Nat.leb_le in H.
Qed.
