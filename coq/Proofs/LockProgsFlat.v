(* Per-run obligation: every control-flow path of every Bundle operation, as translated
   from /repo/bundle by harness/cmd/lockprog on this run, is a flat lock program. *)
From Coq Require Import List Bool String.
From Mac Require Import Model.RWLock Generated.LockProgs Proofs.RWLockProofs.
Import ListNotations.

Definition all_flat (l : list (string * list prog)) : bool :=
  forallb (fun e => forallb flat_out (snd e)) l.

Lemma lockprogs_flat_l : all_flat lockprogs = true.
Proof. vm_compute. reflexivity. Qed.

(* a bundle that shares token objects with the one it was derived from (Select) must share its lock,
   so that the safety theorem covers the whole family of derived bundles *)
Definition derived_share_lock (l : list (string * bool * bool)) : bool :=
  forallb (fun x => implb (snd (fst x)) (snd x)) l.

Lemma derived_share_lock_l : derived_share_lock bundle_literals = true.
Proof. vm_compute. reflexivity. Qed.

Definition all_paths : list prog := flat_map snd lockprogs.

Lemma all_paths_flat : Forall (fun p => flat_out p = true) all_paths.
Proof.
  apply Forall_forall. intros p Hin. unfold all_paths in Hin. apply in_flat_map in Hin.
  destruct Hin as [e [He Hp]]. pose proof lockprogs_flat_l as H. unfold all_flat in H.
  rewrite forallb_forall in H. specialize (H e He). rewrite forallb_forall in H. exact (H p Hp).
Qed.

(* any number of threads, each calling any sequence of Bundle operations (any of their paths) *)
Definition thread_prog (calls : list prog) : prog := List.concat calls.

Lemma thread_prog_flat calls : (forall c, In c calls -> In c all_paths) -> flat_out (thread_prog calls) = true.
Proof.
  intros H. unfold thread_prog. induction calls as [|c r IH]; [reflexivity|].
  cbn [List.concat]. apply flat_out_app.
  - pose proof all_paths_flat as F. rewrite Forall_forall in F. apply F, H. now left.
  - apply IH. intros c' Hc. apply H. now right.
Qed.

Lemma bundle_ops_safe_l (threads : list (list prog)) s :
  (forall calls, In calls threads -> forall c, In c calls -> In c all_paths) ->
  steps (init_sys (map thread_prog threads)) s ->
  linv s /\ (~ final s -> exists s', step s s') /\
  (forall pre t post, s = pre ++ t :: post ->
     (next_access t = Some true -> forall u, In u (pre ++ post) -> next_access u = None) /\
     (next_access t = Some false -> forall u, In u (pre ++ post) -> next_access u <> Some true)) /\
  (exists n s', n <= measure s /\ nsteps n s s' /\ final s').
Proof.
  intros H Hs.
  assert (F : Forall (fun p => flat_out p = true) (map thread_prog threads)).
  { apply Forall_forall. intros p Hp. apply in_map_iff in Hp. destruct Hp as [calls [<- Hc]].
    apply thread_prog_flat. exact (H calls Hc). }
  destruct (flat_safe _ _ F Hs) as [L P]. split; [exact L|]. split; [exact P|]. split.
  - intros pre t post E. exact (race_free _ _ F Hs pre t post E).
  - exact (flat_completes _ _ F Hs).
Qed.
