(* Wire codec: structural round trip (task M1).
   Every caveat body the encoders write is exactly one msgpack value for Decoder.Skip; the frame
   decoder of a caveat set sees, per caveat, its type and exactly the bytes its encoder wrote. *)
From Coq Require Import List Bool NArith ZArith String Ascii Lia ZifyN ZifyNat ZifyBool.
From Mac Require Import Model.Caveat Model.Msgpack Model.Codec Proofs.CavInd.
Import ListNotations.
Ltac Zify.zify_post_hook ::= Z.div_mod_to_equations.
Local Open Scope N_scope.

(* ------------------------------------------------------------------------------------------ *)
(* big-endian                                                                                  *)

Lemma be_S k n : be (S k) n = be k (n / 256) ++ [n mod 256].
Proof. reflexivity. Qed.

Lemma be_val_app l1 l2 acc : be_val (l1 ++ l2) acc = be_val l2 (be_val l1 acc).
Proof. revert acc; induction l1 as [|b l1 IH]; intros acc; cbn [be_val app]; [reflexivity|apply IH]. Qed.

Lemma be_length k n : List.length (be k n) = k.
Proof.
  revert n; induction k as [|k IH]; intros n; [reflexivity|].
  rewrite be_S, app_length, IH. cbn [List.length]. lia.
Qed.

Lemma be_val_be k : forall n, n < 256 ^ N.of_nat k -> be_val (be k n) 0 = n.
Proof.
  induction k as [|k IH]; intros n Hn.
  - change (256 ^ N.of_nat 0) with 1 in Hn. cbn [be be_val]. lia.
  - rewrite be_S, be_val_app, IH.
    + cbn [be_val]. lia.
    + rewrite Nat2N.inj_succ, N.pow_succ_r' in Hn.
      generalize dependent (256 ^ N.of_nat k). intros p Hp. lia.
Qed.

Lemma be_bytes k : forall n, Forall (fun b => b < 256) (be k n).
Proof.
  induction k as [|k IH]; intros n; [constructor|].
  rewrite be_S. apply Forall_app; split; [apply IH|].
  constructor; [|constructor]. lia.
Qed.

(* ------------------------------------------------------------------------------------------ *)
(* take                                                                                        *)

Lemma take_app k l r : N.of_nat (List.length l) = k -> take k (l ++ r) = Some (l, r).
Proof.
  intros Hk. unfold take. rewrite app_length.
  destruct (N.ltb_spec (N.of_nat (List.length l + List.length r)) k) as [Hlt|Hge]; [lia|].
  replace (N.to_nat k) with (List.length l + 0)%nat by lia.
  rewrite firstn_app_2, skipn_app, Nat.add_0_r, skipn_all, Nat.sub_diag.
  cbn [firstn skipn app]. rewrite app_nil_r. reflexivity.
Qed.

Lemma take_Some k l a b : take k l = Some (a, b) -> l = a ++ b /\ N.of_nat (List.length a) = k.
Proof.
  unfold take. destruct (N.ltb_spec (N.of_nat (List.length l)) k) as [Hlt|Hge]; [discriminate|].
  intros Heq. injection Heq as <- <-. split; [symmetry; apply firstn_skipn|].
  rewrite firstn_length. lia.
Qed.

Lemma take_app_tail k l a b t : take k l = Some (a, b) -> take k (l ++ t) = Some (a, b ++ t).
Proof.
  intros Ht. apply take_Some in Ht. destruct Ht as [-> Hk].
  rewrite <- app_assoc. apply take_app, Hk.
Qed.

Lemma take_be k n r : take (N.of_nat k) (be k n ++ r) = Some (be k n, r).
Proof. apply take_app. rewrite be_length. reflexivity. Qed.

(* ------------------------------------------------------------------------------------------ *)
(* dec_uint / dec_arr_hdr                                                                      *)

Lemma dec_uint_fix c r : c <= 127 -> dec_uint (c :: r) = Some (c, r).
Proof. intros Hc. cbn [dec_uint]. destruct (N.leb_spec c 127); [reflexivity|lia]. Qed.
Lemma dec_uint_204 r : dec_uint (204 :: r) = option_map (fun p => (be_val (fst p) 0, snd p)) (take 1 r).
Proof. reflexivity. Qed.
Lemma dec_uint_205 r : dec_uint (205 :: r) = option_map (fun p => (be_val (fst p) 0, snd p)) (take 2 r).
Proof. reflexivity. Qed.
Lemma dec_uint_206 r : dec_uint (206 :: r) = option_map (fun p => (be_val (fst p) 0, snd p)) (take 4 r).
Proof. reflexivity. Qed.
Lemma dec_uint_207 r : dec_uint (207 :: r) = option_map (fun p => (be_val (fst p) 0, snd p)) (take 8 r).
Proof. reflexivity. Qed.

Lemma pow_256_1 : 256 ^ N.of_nat 1 = 256. Proof. reflexivity. Qed.
Lemma pow_256_2 : 256 ^ N.of_nat 2 = 65536. Proof. reflexivity. Qed.
Lemma pow_256_4 : 256 ^ N.of_nat 4 = 4294967296. Proof. reflexivity. Qed.
Lemma pow_256_8 : 256 ^ N.of_nat 8 = 18446744073709551616. Proof. reflexivity. Qed.
Lemma pow_2_64 : 2 ^ 64 = 18446744073709551616. Proof. reflexivity. Qed.
Lemma pow_2_32 : 2 ^ 32 = 4294967296. Proof. reflexivity. Qed.
Lemma pow_2_31 : 2 ^ 31 = 2147483648. Proof. reflexivity. Qed.

Lemma dec_be k n r : n < 256 ^ N.of_nat k ->
  option_map (fun p : bytes * bytes => (be_val (fst p) 0, snd p)) (take (N.of_nat k) (be k n ++ r)) = Some (n, r).
Proof. intros Hn. rewrite take_be. cbn [option_map fst snd]. rewrite be_val_be by exact Hn. reflexivity. Qed.

Lemma dec_uint_enc_uint n rest : n < 2 ^ 64 -> dec_uint (enc_uint n ++ rest) = Some (n, rest).
Proof.
  rewrite pow_2_64. intros Hn. unfold enc_uint.
  destruct (N.leb_spec n 127) as [H1|H1]; [apply dec_uint_fix, H1|].
  destruct (N.leb_spec n 255) as [H2|H2].
  { rewrite <- app_comm_cons, dec_uint_204. apply (dec_be 1). rewrite pow_256_1. lia. }
  destruct (N.leb_spec n 65535) as [H3|H3].
  { rewrite <- app_comm_cons, dec_uint_205. apply (dec_be 2). rewrite pow_256_2. lia. }
  destruct (N.leb_spec n 4294967295) as [H4|H4].
  { rewrite <- app_comm_cons, dec_uint_206. apply (dec_be 4). rewrite pow_256_4. lia. }
  rewrite <- app_comm_cons, dec_uint_207. apply (dec_be 8). rewrite pow_256_8. lia.
Qed.

Lemma dec_arr_hdr_fix c r : 144 <= c <= 159 -> dec_arr_hdr (c :: r) = Some (c - 144, r).
Proof.
  intros Hc. cbn [dec_arr_hdr].
  destruct (N.leb_spec 144 c); [|lia]. destruct (N.leb_spec c 159); [reflexivity|lia].
Qed.
Lemma dec_arr_hdr_220 r : dec_arr_hdr (220 :: r) = option_map (fun p => (be_val (fst p) 0, snd p)) (take 2 r).
Proof. reflexivity. Qed.
Lemma dec_arr_hdr_221 r : dec_arr_hdr (221 :: r) = option_map (fun p => (be_val (fst p) 0, snd p)) (take 4 r).
Proof. reflexivity. Qed.

Lemma dec_arr_hdr_enc n rest : n < 2 ^ 32 -> dec_arr_hdr (enc_arr_hdr n ++ rest) = Some (n, rest).
Proof.
  rewrite pow_2_32. intros Hn. unfold enc_arr_hdr.
  destruct (N.ltb_spec n 16) as [H1|H1].
  { cbn [app]. rewrite dec_arr_hdr_fix by lia. f_equal. f_equal. lia. }
  destruct (N.leb_spec n 65535) as [H2|H2].
  { rewrite <- app_comm_cons, dec_arr_hdr_220. apply (dec_be 2). rewrite pow_256_2. lia. }
  rewrite <- app_comm_cons, dec_arr_hdr_221. apply (dec_be 4). rewrite pow_256_4. lia.
Qed.

(* ------------------------------------------------------------------------------------------ *)
(* skip: one-step unfolding through a "shape" classification of the leading byte               *)

Section Many.
  Variable sk : bytes -> option bytes.
  Fixpoint go_many (k : nat) (x : bytes) : option bytes :=
    match k with
    | O => Some x
    | S k' => match sk x with Some x' => go_many k' x' | None => None end
    end.
  Definition skip_many (n : N) (x0 : bytes) : option bytes :=
    if N.of_nat (List.length x0) <? n then None else go_many (N.to_nat n) x0.
  Definition skip_arrlen (k : N) (g : N -> N) (r : bytes) : option bytes :=
    match take k r with Some (lb, r1) => skip_many (g (be_val lb 0)) r1 | None => None end.
End Many.

Inductive shape :=
| ShNone | ShRest | ShMany (n : N) | ShTake (k : N) | ShLp (a b : N) | ShArr (k : N) (g : N -> N).

Definition classify (c : N) : shape :=
  if c <=? 127 then ShRest
  else if c <=? 143 then ShMany (2 * (c - 128))
  else if c <=? 159 then ShMany (c - 144)
  else if c <=? 191 then ShTake (c - 160)
  else if c =? 192 then ShRest
  else if c =? 193 then ShNone
  else if c <=? 195 then ShRest
  else if c =? 196 then ShLp 1 0 else if c =? 197 then ShLp 2 0 else if c =? 198 then ShLp 4 0
  else if c =? 199 then ShLp 1 1 else if c =? 200 then ShLp 2 1 else if c =? 201 then ShLp 4 1
  else if c =? 202 then ShTake 4 else if c =? 203 then ShTake 8
  else if c =? 204 then ShTake 1 else if c =? 205 then ShTake 2
  else if c =? 206 then ShTake 4 else if c =? 207 then ShTake 8
  else if c =? 208 then ShTake 1 else if c =? 209 then ShTake 2
  else if c =? 210 then ShTake 4 else if c =? 211 then ShTake 8
  else if c =? 212 then ShTake 2 else if c =? 213 then ShTake 3
  else if c =? 214 then ShTake 5 else if c =? 215 then ShTake 9
  else if c =? 216 then ShTake 17
  else if c =? 217 then ShLp 1 0 else if c =? 218 then ShLp 2 0 else if c =? 219 then ShLp 4 0
  else if c =? 220 then ShArr 2 (fun x => x)
  else if c =? 221 then ShArr 4 (fun x => x)
  else if c =? 222 then ShArr 2 (fun x => 2 * x)
  else if c =? 223 then ShArr 4 (fun x => 2 * x)
  else ShRest.

Definition run (sk : bytes -> option bytes) (sh : shape) (r : bytes) : option bytes :=
  match sh with
  | ShNone => None
  | ShRest => Some r
  | ShMany n => skip_many sk n r
  | ShTake k => option_map snd (take k r)
  | ShLp a b => skip_lp a b r
  | ShArr k g => skip_arrlen sk k g r
  end.

Lemma skip_O l : skip O l = None.
Proof. reflexivity. Qed.
Lemma skip_nil f : skip f [] = None.
Proof. destruct f; reflexivity. Qed.

Lemma skip_S f c r : skip (S f) (c :: r) = run (skip f) (classify c) r.
Proof.
  unfold classify. cbn [skip].
  repeat match goal with |- (if ?b then _ else _) = _ => destruct b; [reflexivity|] end.
  reflexivity.
Qed.

(* ------------------------------------------------------------------------------------------ *)
(* structural facts about skip: suffix, fuel, extension of the input                           *)

Definition suffixing (sk : bytes -> option bytes) : Prop :=
  forall l r, sk l = Some r -> exists pre, l = pre ++ r /\ pre <> [].

Lemma suffixing_length sk l r : suffixing sk -> sk l = Some r -> (List.length r < List.length l)%nat.
Proof.
  intros Hs Hl. apply Hs in Hl. destruct Hl as (pre & -> & Hne).
  rewrite app_length. destruct pre as [|p pre]; [congruence|]. cbn [List.length]. lia.
Qed.

Lemma go_many_suffix sk k : suffixing sk ->
  forall x r, go_many sk k x = Some r -> exists pre, x = pre ++ r.
Proof.
  intros Hs. induction k as [|k IH]; intros x r Hgo; cbn [go_many] in Hgo.
  - injection Hgo as <-. exists []. reflexivity.
  - destruct (sk x) as [x'|] eqn:Ex; [|discriminate].
    apply Hs in Ex. destruct Ex as (p1 & -> & _).
    apply IH in Hgo. destruct Hgo as (p2 & ->).
    exists (p1 ++ p2). rewrite app_assoc. reflexivity.
Qed.

Lemma skip_many_suffix sk n x r : suffixing sk -> skip_many sk n x = Some r -> exists pre, x = pre ++ r.
Proof.
  intros Hs. unfold skip_many. destruct (N.of_nat (List.length x) <? n); [discriminate|].
  apply go_many_suffix, Hs.
Qed.

Lemma skip_lp_Some a b r0 r : skip_lp a b r0 = Some r ->
  exists lb p, r0 = lb ++ p ++ r /\ N.of_nat (List.length lb) = a /\ N.of_nat (List.length p) = be_val lb 0 + b.
Proof.
  unfold skip_lp. destruct (take a r0) as [[lb r1]|] eqn:E1; [|discriminate].
  destruct (take (be_val lb 0 + b) r1) as [[p r2]|] eqn:E2; [|discriminate].
  intros Heq. injection Heq as <-.
  apply take_Some in E1. destruct E1 as [-> Ha]. apply take_Some in E2. destruct E2 as [-> Hp].
  exists lb, p. auto.
Qed.

Lemma run_suffix sk sh r0 r : suffixing sk -> run sk sh r0 = Some r -> exists pre, r0 = pre ++ r.
Proof.
  intros Hs. destruct sh as [| |n|k|a b|k g]; cbn [run].
  - discriminate.
  - intros Heq. injection Heq as <-. exists []. reflexivity.
  - apply skip_many_suffix, Hs.
  - destruct (take k r0) as [[a b]|] eqn:E; cbn [option_map snd]; [|discriminate].
    intros Heq. injection Heq as <-. apply take_Some in E. exists a. apply E.
  - intros Hlp. apply skip_lp_Some in Hlp. destruct Hlp as (lb & p & -> & _).
    exists (lb ++ p). rewrite app_assoc. reflexivity.
  - unfold skip_arrlen. destruct (take k r0) as [[lb r1]|] eqn:E; [|discriminate].
    intros Hm. apply skip_many_suffix in Hm; [|exact Hs]. destruct Hm as (p & ->).
    apply take_Some in E. destruct E as [-> _]. exists (lb ++ p). rewrite app_assoc. reflexivity.
Qed.

Lemma skip_suffixing f : suffixing (skip f).
Proof.
  induction f as [|f IH]; intros l r Hl.
  - discriminate.
  - destruct l as [|c r0]; [discriminate|]. rewrite skip_S in Hl.
    apply run_suffix in Hl; [|exact IH]. destruct Hl as (pre & ->).
    exists (c :: pre). split; [reflexivity|discriminate].
Qed.

Lemma skip_suffix f l r : skip f l = Some r -> exists pre, l = pre ++ r /\ pre <> [].
Proof. apply skip_suffixing. Qed.

Lemma skip_length f l r : skip f l = Some r -> (List.length r < List.length l)%nat.
Proof. apply suffixing_length, skip_suffixing. Qed.

(* transfer between two skippers that agree on inputs no longer than the current one *)
Lemma go_many_transfer sk sk' (m : nat) : suffixing sk ->
  (forall l r', (List.length l <= m)%nat -> sk l = Some r' -> sk' l = Some r') ->
  forall k x r, (List.length x <= m)%nat -> go_many sk k x = Some r -> go_many sk' k x = Some r.
Proof.
  intros Hs Ht. induction k as [|k IH]; intros x r Hx Hgo; cbn [go_many] in *; [exact Hgo|].
  destruct (sk x) as [x'|] eqn:Ex; [|discriminate].
  rewrite (Ht _ _ Hx Ex). apply IH; [|exact Hgo].
  apply (suffixing_length _ _ _ Hs) in Ex. lia.
Qed.

Lemma skip_many_transfer sk sk' (m : nat) n x r : suffixing sk ->
  (forall l r', (List.length l <= m)%nat -> sk l = Some r' -> sk' l = Some r') ->
  (List.length x <= m)%nat -> skip_many sk n x = Some r -> skip_many sk' n x = Some r.
Proof.
  intros Hs Ht Hx. unfold skip_many. destruct (N.of_nat (List.length x) <? n); [discriminate|].
  apply go_many_transfer with (m := m); assumption.
Qed.

Lemma run_transfer sk sk' sh r0 r : suffixing sk ->
  (forall l r', (List.length l <= List.length r0)%nat -> sk l = Some r' -> sk' l = Some r') ->
  run sk sh r0 = Some r -> run sk' sh r0 = Some r.
Proof.
  intros Hs Ht. destruct sh as [| |n|k|a b|k g]; cbn [run]; try (intros Heq; exact Heq).
  - apply skip_many_transfer with (m := List.length r0); auto.
  - unfold skip_arrlen. destruct (take k r0) as [[lb r1]|] eqn:E; [|discriminate].
    apply take_Some in E. destruct E as [E _].
    apply skip_many_transfer with (m := List.length r0); auto.
    rewrite E, app_length. lia.
Qed.

Lemma skip_fuel_gen f : forall f' l r, skip f l = Some r -> (f <= f')%nat \/ (List.length l <= f')%nat ->
  skip f' l = Some r.
Proof.
  induction f as [|f IH]; intros f' l r Hl Hf; [discriminate|].
  destruct l as [|c r0]; [discriminate|].
  destruct f' as [|f']; [cbn [List.length] in Hf; lia|].
  rewrite skip_S in *. revert Hl. apply run_transfer; [apply skip_suffixing|].
  intros l r' Hlen Hsk. apply IH; [exact Hsk|]. cbn [List.length] in Hf. lia.
Qed.

Lemma skip_fuel_mono f f' l r : skip f l = Some r -> (f <= f')%nat -> skip f' l = Some r.
Proof. intros Hl Hf. apply (skip_fuel_gen f); auto. Qed.

(* fuel = length of the input always suffices *)
Lemma skip_fuel_enough f f' l r : skip f l = Some r -> (List.length l <= f')%nat -> skip f' l = Some r.
Proof. intros Hl Hf. apply (skip_fuel_gen f); auto. Qed.

(* extending the input at the end *)
Lemma go_many_app_tail sk t : (forall l r', sk l = Some r' -> sk (l ++ t) = Some (r' ++ t)) ->
  forall k x r, go_many sk k x = Some r -> go_many sk k (x ++ t) = Some (r ++ t).
Proof.
  intros Ht. induction k as [|k IH]; intros x r Hgo; cbn [go_many] in *.
  - injection Hgo as <-. reflexivity.
  - destruct (sk x) as [x'|] eqn:Ex; [|discriminate]. rewrite (Ht _ _ Ex). apply IH, Hgo.
Qed.

Lemma skip_many_app_tail sk t n x r : (forall l r', sk l = Some r' -> sk (l ++ t) = Some (r' ++ t)) ->
  skip_many sk n x = Some r -> skip_many sk n (x ++ t) = Some (r ++ t).
Proof.
  intros Ht. unfold skip_many. rewrite app_length.
  destruct (N.ltb_spec (N.of_nat (List.length x)) n) as [H1|H1]; [discriminate|].
  destruct (N.ltb_spec (N.of_nat (List.length x + List.length t)) n) as [H2|H2]; [lia|].
  apply go_many_app_tail, Ht.
Qed.

Lemma run_app_tail sk sh t r0 r : (forall l r', sk l = Some r' -> sk (l ++ t) = Some (r' ++ t)) ->
  run sk sh r0 = Some r -> run sk sh (r0 ++ t) = Some (r ++ t).
Proof.
  intros Ht. destruct sh as [| |n|k|a b|k g]; cbn [run].
  - discriminate.
  - intros Heq. injection Heq as <-. reflexivity.
  - apply skip_many_app_tail, Ht.
  - destruct (take k r0) as [[a b]|] eqn:E; cbn [option_map snd]; [|discriminate].
    intros Heq. injection Heq as <-. rewrite (take_app_tail _ _ _ _ t E). reflexivity.
  - unfold skip_lp. destruct (take a r0) as [[lb r1]|] eqn:E1; [|discriminate].
    destruct (take (be_val lb 0 + b) r1) as [[p r2]|] eqn:E2; [|discriminate].
    intros Heq. injection Heq as <-.
    rewrite (take_app_tail _ _ _ _ t E1), (take_app_tail _ _ _ _ t E2). reflexivity.
  - unfold skip_arrlen. destruct (take k r0) as [[lb r1]|] eqn:E; [|discriminate].
    rewrite (take_app_tail _ _ _ _ t E). apply skip_many_app_tail, Ht.
Qed.

Lemma skip_app_tail f t : forall l r, skip f l = Some r -> skip f (l ++ t) = Some (r ++ t).
Proof.
  induction f as [|f IH]; intros l r Hl; [discriminate|].
  destruct l as [|c r0]; [discriminate|].
  rewrite <- app_comm_cons, skip_S in *. apply run_app_tail; assumption.
Qed.

(* ------------------------------------------------------------------------------------------ *)
(* skip over the primitives the encoders emit                                                   *)

Ltac cls :=
  unfold classify;
  repeat match goal with
  | |- (if ?a <=? ?b then _ else _) = _ => destruct (N.leb_spec a b); [first [reflexivity | lia]|]
  | |- (if ?a =? ?b then _ else _) = _ => destruct (N.eqb_spec a b); [first [reflexivity | lia]|]
  end; first [reflexivity | lia].

Lemma classify_posfix c : c <= 127 -> classify c = ShRest.
Proof. intros Hc. cls. Qed.
Lemma classify_negfix c : 224 <= c -> classify c = ShRest.
Proof. intros Hc. cls. Qed.
Lemma classify_fixmap c : 128 <= c <= 143 -> classify c = ShMany (2 * (c - 128)).
Proof. intros Hc. cls. Qed.
Lemma classify_fixarr c : 144 <= c <= 159 -> classify c = ShMany (c - 144).
Proof. intros Hc. cls. Qed.
Lemma classify_fixstr c : 160 <= c <= 191 -> classify c = ShTake (c - 160).
Proof. intros Hc. cls. Qed.

Lemma skip_rest f c r : classify c = ShRest -> skip (S f) (c :: r) = Some r.
Proof. intros Hc. rewrite skip_S, Hc. reflexivity. Qed.

Lemma skip_take f c k p rest : classify c = ShTake k -> N.of_nat (List.length p) = k ->
  skip (S f) (c :: p ++ rest) = Some rest.
Proof. intros Hc Hk. rewrite skip_S, Hc. cbn [run]. rewrite take_app by exact Hk. reflexivity. Qed.

Lemma skip_be f c k n rest : classify c = ShTake (N.of_nat k) -> skip (S f) (c :: be k n ++ rest) = Some rest.
Proof. intros Hc. apply skip_take with (k := N.of_nat k); [exact Hc|]. rewrite be_length. reflexivity. Qed.

Lemma skip_lp_be k n p rest : n < 256 ^ N.of_nat k -> N.of_nat (List.length p) = n ->
  skip_lp (N.of_nat k) 0 (be k n ++ p ++ rest) = Some rest.
Proof.
  intros Hn Hp. unfold skip_lp. rewrite take_be, be_val_be by exact Hn.
  rewrite take_app by lia. reflexivity.
Qed.

Lemma skip_lp_code f c k n p rest : classify c = ShLp (N.of_nat k) 0 -> n < 256 ^ N.of_nat k ->
  N.of_nat (List.length p) = n -> skip (S f) (c :: be k n ++ p ++ rest) = Some rest.
Proof. intros Hc Hn Hp. rewrite skip_S, Hc. cbn [run]. apply skip_lp_be; assumption. Qed.

Lemma be_1 n : n < 256 -> be 1 n = [n].
Proof. intros Hn. cbn [be app]. f_equal. lia. Qed.

Lemma skip_enc_uint_any f n rest : skip (S f) (enc_uint n ++ rest) = Some rest.
Proof.
  unfold enc_uint.
  destruct (N.leb_spec n 127) as [H1|H1]; [apply skip_rest, classify_posfix, H1|].
  destruct (n <=? 255); [apply (skip_be f 204 1); reflexivity|].
  destruct (n <=? 65535); [apply (skip_be f 205 2); reflexivity|].
  destruct (n <=? 4294967295); [apply (skip_be f 206 4); reflexivity|].
  apply (skip_be f 207 8); reflexivity.
Qed.

Lemma skip_enc_uint f n rest : n < 2 ^ 64 -> skip (S f) (enc_uint n ++ rest) = Some rest.
Proof. intros _. apply skip_enc_uint_any. Qed.

Lemma skip_enc_int_any f z rest : (-32 <= z)%Z \/ (z < -32)%Z -> skip (S f) (enc_int z ++ rest) = Some rest.
Proof.
  intros _. unfold enc_int.
  destruct (Z.leb_spec 0 z) as [H0|H0]; [apply skip_enc_uint_any|].
  destruct (Z.leb_spec (-32) z) as [H1|H1]; [apply skip_rest, classify_negfix; lia|].
  destruct (-128 <=? z)%Z; [apply (skip_be f 208 1); reflexivity|].
  destruct (-32768 <=? z)%Z; [apply (skip_be f 209 2); reflexivity|].
  destruct (-2147483648 <=? z)%Z; [apply (skip_be f 210 4); reflexivity|].
  apply (skip_be f 211 8); reflexivity.
Qed.

Lemma skip_enc_int f z rest : (- 2 ^ 63 <= z < 2 ^ 63)%Z -> skip (S f) (enc_int z ++ rest) = Some rest.
Proof. intros _. apply skip_enc_int_any. lia. Qed.

Lemma skip_enc_nil f rest : skip (S f) (enc_nil ++ rest) = Some rest.
Proof. reflexivity. Qed.

Lemma skip_enc_bool f b rest : skip (S f) (enc_bool b ++ rest) = Some rest.
Proof. destruct b; reflexivity. Qed.

Lemma skip_enc_str f s rest : N.of_nat (List.length s) < 2 ^ 32 -> skip (S f) (enc_str s ++ rest) = Some rest.
Proof.
  rewrite pow_2_32. unfold enc_str. intros Hlt.
  remember (N.of_nat (List.length s)) as l eqn:Hl. symmetry in Hl.
  rewrite <- app_assoc.
  destruct (N.ltb_spec l 32) as [H1|H1].
  { cbn [app]. apply skip_take with (k := 160 + l - 160); [apply classify_fixstr; lia|lia]. }
  destruct (N.ltb_spec l 256) as [H2|H2].
  { rewrite <- (be_1 l H2). apply (skip_lp_code f 217 1); [reflexivity|rewrite pow_256_1; lia|exact Hl]. }
  destruct (N.leb_spec l 65535) as [H3|H3].
  { apply (skip_lp_code f 218 2); [reflexivity|rewrite pow_256_2; lia|exact Hl]. }
  apply (skip_lp_code f 219 4); [reflexivity|rewrite pow_256_4; lia|exact Hl].
Qed.

Lemma skip_enc_bin f s rest : N.of_nat (List.length s) < 2 ^ 32 -> skip (S f) (enc_bin s ++ rest) = Some rest.
Proof.
  rewrite pow_2_32. unfold enc_bin. intros Hlt.
  remember (N.of_nat (List.length s)) as l eqn:Hl. symmetry in Hl.
  rewrite <- app_assoc.
  destruct (N.ltb_spec l 256) as [H2|H2].
  { rewrite <- (be_1 l H2). apply (skip_lp_code f 196 1); [reflexivity|rewrite pow_256_1; lia|exact Hl]. }
  destruct (N.leb_spec l 65535) as [H3|H3].
  { apply (skip_lp_code f 197 2); [reflexivity|rewrite pow_256_2; lia|exact Hl]. }
  apply (skip_lp_code f 198 4); [reflexivity|rewrite pow_256_4; lia|exact Hl].
Qed.

Definition wf_obin (o : option bytes) : Prop :=
  match o with None => True | Some b => N.of_nat (List.length b) < 2 ^ 32 end.

Lemma skip_enc_obin f o rest : wf_obin o -> skip (S f) (enc_obin o ++ rest) = Some rest.
Proof. destruct o as [b|]; cbn [wf_obin enc_obin]; [apply skip_enc_bin|intros _; apply skip_enc_nil]. Qed.

(* ------------------------------------------------------------------------------------------ *)
(* "v is exactly one msgpack value"                                                            *)

Definition isval (v : bytes) : Prop := exists f, skip f v = Some [].

Lemma isval_skip v rest f : isval v -> (List.length (v ++ rest) <= f)%nat -> skip f (v ++ rest) = Some rest.
Proof.
  intros [f0 H0] Hf. apply (skip_app_tail _ rest) in H0. cbn [app] in H0.
  apply (skip_fuel_enough f0); assumption.
Qed.

Lemma isval_intro f v : (forall rest, skip f (v ++ rest) = Some rest) -> isval v.
Proof. intros Hv. exists f. specialize (Hv []). rewrite app_nil_r in Hv. exact Hv. Qed.

Lemma isval_nonempty v : isval v -> (1 <= List.length v)%nat.
Proof. intros [f Hf]. apply skip_length in Hf. cbn [List.length] in Hf. lia. Qed.

Lemma vals_length vs : Forall isval vs -> (List.length vs <= List.length (List.concat vs))%nat.
Proof.
  induction 1 as [|v vs Hv _ IH]; [reflexivity|].
  cbn [List.concat List.length]. rewrite app_length. apply isval_nonempty in Hv. lia.
Qed.

Lemma go_many_vals f vs rest : Forall isval vs -> (List.length (List.concat vs ++ rest) <= f)%nat ->
  go_many (skip f) (List.length vs) (List.concat vs ++ rest) = Some rest.
Proof.
  induction 1 as [|v vs Hv _ IH]; intros Hf; [reflexivity|].
  cbn [List.concat] in Hf. cbn [List.concat List.length go_many]. rewrite <- app_assoc in *.
  rewrite isval_skip by assumption. apply IH. rewrite app_length in Hf. lia.
Qed.

Lemma skip_many_vals f n vs rest : N.of_nat (List.length vs) = n -> Forall isval vs ->
  (List.length (List.concat vs ++ rest) <= f)%nat ->
  skip_many (skip f) n (List.concat vs ++ rest) = Some rest.
Proof.
  intros Hn Hvs Hf. unfold skip_many. pose proof (vals_length vs Hvs) as Hlen.
  rewrite app_length. destruct (N.ltb_spec (N.of_nat (List.length (List.concat vs) + List.length rest)) n); [lia|].
  replace (N.to_nat n) with (List.length vs) by lia. apply go_many_vals; assumption.
Qed.

Lemma skip_arrlen_be sk k g n r : n < 256 ^ N.of_nat k ->
  skip_arrlen sk (N.of_nat k) g (be k n ++ r) = skip_many sk (g n) r.
Proof. intros Hn. unfold skip_arrlen. rewrite take_be, be_val_be by exact Hn. reflexivity. Qed.

Lemma isval_arr n vs : n < 2 ^ 32 -> N.of_nat (List.length vs) = n -> Forall isval vs ->
  isval (enc_arr_hdr n ++ List.concat vs).
Proof.
  rewrite pow_2_32. intros Hn Hlen Hvs. exists (S (List.length (List.concat vs))).
  rewrite <- (app_nil_r (List.concat vs)) at 2.
  assert (Hm : skip_many (skip (List.length (List.concat vs))) n (List.concat vs ++ []) = Some []).
  { apply skip_many_vals; [assumption|assumption|]. rewrite app_nil_r. lia. }
  unfold enc_arr_hdr.
  destruct (N.ltb_spec n 16) as [H1|H1].
  { cbn [app]. rewrite skip_S, classify_fixarr by lia. cbn [run].
    replace (144 + n - 144) with n by lia. exact Hm. }
  destruct (N.leb_spec n 65535) as [H2|H2].
  { rewrite <- app_comm_cons, skip_S. change (classify 220) with (ShArr (N.of_nat 2) (fun x => x)). cbn [run].
    rewrite skip_arrlen_be by (rewrite pow_256_2; lia). exact Hm. }
  rewrite <- app_comm_cons, skip_S. change (classify 221) with (ShArr (N.of_nat 4) (fun x => x)). cbn [run].
  rewrite skip_arrlen_be by (rewrite pow_256_4; lia). exact Hm.
Qed.

Lemma isval_map n vs : n < 2 ^ 32 -> N.of_nat (List.length vs) = 2 * n -> Forall isval vs ->
  isval (enc_map_hdr n ++ List.concat vs).
Proof.
  rewrite pow_2_32. intros Hn Hlen Hvs. exists (S (List.length (List.concat vs))).
  rewrite <- (app_nil_r (List.concat vs)) at 2.
  assert (Hm : skip_many (skip (List.length (List.concat vs))) (2 * n) (List.concat vs ++ []) = Some []).
  { apply skip_many_vals; [assumption|assumption|]. rewrite app_nil_r. lia. }
  unfold enc_map_hdr.
  destruct (N.ltb_spec n 16) as [H1|H1].
  { cbn [app]. rewrite skip_S, classify_fixmap by lia. cbn [run].
    replace (128 + n - 128) with n by lia. exact Hm. }
  destruct (N.leb_spec n 65535) as [H2|H2].
  { rewrite <- app_comm_cons, skip_S. change (classify 222) with (ShArr (N.of_nat 2) (fun x => 2 * x)). cbn [run].
    rewrite skip_arrlen_be by (rewrite pow_256_2; lia). exact Hm. }
  rewrite <- app_comm_cons, skip_S. change (classify 223) with (ShArr (N.of_nat 4) (fun x => 2 * x)). cbn [run].
  rewrite skip_arrlen_be by (rewrite pow_256_4; lia). exact Hm.
Qed.

Lemma isval_arr1 a : isval a -> isval (arr1 ++ a).
Proof.
  intros Ha. rewrite <- (app_nil_r a). apply (isval_arr 1 [a]); [reflexivity|reflexivity|auto].
Qed.
Lemma isval_arr2 a b : isval a -> isval b -> isval (arr2 ++ a ++ b).
Proof.
  intros Ha Hb. rewrite <- (app_nil_r b). apply (isval_arr 2 [a; b]); [reflexivity|reflexivity|auto].
Qed.
Lemma isval_arr3 a b c : isval a -> isval b -> isval c -> isval (arr3 ++ a ++ b ++ c).
Proof.
  intros Ha Hb Hc. rewrite <- (app_nil_r c). apply (isval_arr 3 [a; b; c]); [reflexivity|reflexivity|auto].
Qed.

(* primitives as values *)
Definition wf_i64 (z : Z) : Prop := (- 2 ^ 63 <= z < 2 ^ 63)%Z.
Definition wf_str (s : string) : Prop := N.of_nat (String.length s) < 2 ^ 32.
Definition wf_strs (l : list string) : Prop := N.of_nat (List.length l) < 2 ^ 32 /\ Forall wf_str l.
Definition wf_ostrs (o : option (list string)) : Prop := match o with None => True | Some l => wf_strs l end.
Definition wf_rs_s (rs : list (string * N)) : Prop :=
  N.of_nat (List.length rs) < 2 ^ 32 /\ Forall (fun e => wf_str (fst e) /\ snd e < 2 ^ 64) rs.
Definition wf_rs_n (rs : list (N * N)) : Prop :=
  N.of_nat (List.length rs) < 2 ^ 32 /\ Forall (fun e => fst e < 2 ^ 64 /\ snd e < 2 ^ 64) rs.

Lemma isval_uint n : isval (enc_uint n).
Proof. apply (isval_intro 1). intros rest. apply skip_enc_uint_any. Qed.
Lemma isval_int z : isval (enc_int z).
Proof. apply (isval_intro 1). intros rest. apply skip_enc_int_any. lia. Qed.
Lemma isval_nil : isval enc_nil.
Proof. exists 1%nat. reflexivity. Qed.
Lemma isval_bool b : isval (enc_bool b).
Proof. exists 1%nat. destruct b; reflexivity. Qed.
Lemma isval_bin b : N.of_nat (List.length b) < 2 ^ 32 -> isval (enc_bin b).
Proof. intros Hb. apply (isval_intro 1). intros rest. apply skip_enc_bin, Hb. Qed.
Lemma isval_obin o : wf_obin o -> isval (enc_obin o).
Proof. intros Ho. apply (isval_intro 1). intros rest. apply skip_enc_obin, Ho. Qed.

Lemma str_bytes_length s : List.length (str_bytes s) = String.length s.
Proof.
  unfold str_bytes. rewrite map_length.
  induction s as [|a s IH]; cbn [list_ascii_of_string List.length String.length]; [reflexivity|].
  rewrite IH. reflexivity.
Qed.

Lemma isval_str s : wf_str s -> isval (enc_str (str_bytes s)).
Proof.
  unfold wf_str. intros Hs. apply (isval_intro 1). intros rest. apply skip_enc_str.
  rewrite str_bytes_length. exact Hs.
Qed.

Lemma isval_strs l : wf_strs l -> isval (enc_strs l).
Proof.
  intros [Hlen Hall]. unfold enc_strs. rewrite flat_map_concat_map.
  apply isval_arr; [exact Hlen|rewrite map_length; reflexivity|].
  apply Forall_map. revert Hall. apply Forall_impl. intros s. apply isval_str.
Qed.

Lemma isval_ostrs o : wf_ostrs o -> isval (enc_ostrs o).
Proof. destruct o as [l|]; cbn [wf_ostrs enc_ostrs]; [apply isval_strs|intros _; apply isval_nil]. Qed.

(* maps: header + key/value pairs *)
Lemma flat_map_pairs {A} (a b : A -> bytes) l :
  flat_map (fun e => a e ++ b e) l = List.concat (flat_map (fun e => [a e; b e]) l).
Proof.
  induction l as [|x l IH]; [reflexivity|].
  cbn [flat_map List.concat app]. rewrite IH, app_assoc. reflexivity.
Qed.

Lemma flat_map_pairs_length {A} (a b : A -> bytes) l :
  List.length (flat_map (fun e => [a e; b e]) l) = (2 * List.length l)%nat.
Proof. induction l as [|x l IH]; [reflexivity|]. cbn [flat_map List.length app]. rewrite IH. lia. Qed.

Lemma Forall_flat_map_pairs {A} (a b : A -> bytes) (P : bytes -> Prop) l :
  Forall (fun e => P (a e) /\ P (b e)) l -> Forall P (flat_map (fun e => [a e; b e]) l).
Proof.
  induction 1 as [|x l [Ha Hb] _ IH]; [constructor|]. cbn [flat_map app]. auto.
Qed.

Lemma ins_s_length e l : List.length (ins_s e l) = S (List.length l).
Proof.
  induction l as [|x l IH]; [reflexivity|]. cbn [ins_s].
  destruct (str_leb (fst e) (fst x)); cbn [List.length]; [reflexivity|rewrite IH; reflexivity].
Qed.
Lemma sort_rs_s_length l : List.length (sort_rs_s l) = List.length l.
Proof.
  induction l as [|x l IH]; [reflexivity|].
  change (sort_rs_s (x :: l)) with (ins_s x (sort_rs_s l)). rewrite ins_s_length, IH. reflexivity.
Qed.
Lemma Forall_ins_s (P : string * N -> Prop) e l : P e -> Forall P l -> Forall P (ins_s e l).
Proof.
  intros He. induction 1 as [|x l Hx Hl IH]; cbn [ins_s]; [auto|].
  destruct (str_leb (fst e) (fst x)); auto.
Qed.
Lemma Forall_sort_rs_s (P : string * N -> Prop) l : Forall P l -> Forall P (sort_rs_s l).
Proof.
  induction 1 as [|x l Hx Hl IH]; [constructor|].
  change (sort_rs_s (x :: l)) with (ins_s x (sort_rs_s l)). apply Forall_ins_s; assumption.
Qed.

Lemma ins_n_length e l : List.length (ins_n e l) = S (List.length l).
Proof.
  induction l as [|x l IH]; [reflexivity|]. cbn [ins_n].
  destruct (fst e <=? fst x); cbn [List.length]; [reflexivity|rewrite IH; reflexivity].
Qed.
Lemma sort_rs_n_length l : List.length (sort_rs_n l) = List.length l.
Proof.
  induction l as [|x l IH]; [reflexivity|].
  change (sort_rs_n (x :: l)) with (ins_n x (sort_rs_n l)). rewrite ins_n_length, IH. reflexivity.
Qed.
Lemma Forall_ins_n (P : N * N -> Prop) e l : P e -> Forall P l -> Forall P (ins_n e l).
Proof.
  intros He. induction 1 as [|x l Hx Hl IH]; cbn [ins_n]; [auto|].
  destruct (fst e <=? fst x); auto.
Qed.
Lemma Forall_sort_rs_n (P : N * N -> Prop) l : Forall P l -> Forall P (sort_rs_n l).
Proof.
  induction 1 as [|x l Hx Hl IH]; [constructor|].
  change (sort_rs_n (x :: l)) with (ins_n x (sort_rs_n l)). apply Forall_ins_n; assumption.
Qed.

Lemma isval_rs_s rs : wf_rs_s rs -> isval (enc_rs_s rs).
Proof.
  intros [Hlen Hall]. unfold enc_rs_s. rewrite flat_map_pairs.
  apply isval_map; [exact Hlen|rewrite flat_map_pairs_length, sort_rs_s_length; lia|].
  apply Forall_flat_map_pairs, Forall_sort_rs_s. revert Hall. apply Forall_impl.
  intros e [Hk _]. split; [apply isval_str, Hk|apply isval_uint].
Qed.

Lemma isval_rs_n rs : wf_rs_n rs -> isval (enc_rs_n rs).
Proof.
  intros [Hlen Hall]. unfold enc_rs_n. rewrite flat_map_pairs.
  apply isval_map; [exact Hlen|rewrite flat_map_pairs_length, sort_rs_n_length; lia|].
  apply Forall_flat_map_pairs, Forall_sort_rs_n. revert Hall. apply Forall_impl.
  intros e _. split; apply isval_uint.
Qed.

(* big.Int.Bytes() *)
Lemma be_min_fuel_length fuel : forall n, (List.length (be_min_fuel fuel n) <= fuel)%nat.
Proof.
  induction fuel as [|fuel IH]; intros n; cbn [be_min_fuel]; [reflexivity|].
  destruct (n =? 0); cbn [List.length]; [lia|].
  rewrite app_length. cbn [List.length]. specialize (IH (n / 256)). lia.
Qed.

Lemma be_min_length n : N.of_nat (List.length (be_min n)) <= N.log2 n + 1.
Proof. unfold be_min. pose proof (be_min_fuel_length (S (N.to_nat (N.log2 n))) n). lia. Qed.

(* ------------------------------------------------------------------------------------------ *)
(* well-formed caveats; every caveat body is exactly one msgpack value                          *)

Fixpoint wf_cav (c : cav) : Prop :=
  match c with
  | COrganization id mask => id < 2 ^ 64 /\ mask < 2 ^ 64
  | CVolumes rs | CFeatureSet rs | CMachines rs | CMachineFeatureSet rs | CClusters rs
  | CAppFeatureSet rs | CStorageObjects rs => wf_rs_s rs
  | CApps rs => wf_rs_n rs
  | CValidityWindow nb na => wf_i64 nb /\ wf_i64 na
  | CMutations ms => wf_ostrs ms
  | CConfineUser id | CConfineOrganization id | CIsUser id => id < 2 ^ 64
  | C3P loc vk tk => wf_str loc /\ wf_obin vk /\ wf_obin tk
  | CBind b => wf_obin b
  | CIfPresent ifs els =>
      els < 2 ^ 64 /\
      match ifs with
      | None => True
      | Some l => N.of_nat (List.length l) < 2 ^ 31 /\
                  (fix all (l : list cav) : Prop :=
                     match l with [] => True | c' :: r => wf_cav c' /\ all r end) l
      end
  | CFromMachine id => wf_str id
  | CConfineGoogleHD hd => wf_str hd
  | CConfineGitHubOrg n | CMaxValidity n | CFlyioUserID n | CGitHubUserID n | CAction n
  | CAllowedRoles n => n < 2 ^ 64
  | CIsMember => True
  | CGoogleUserID n => N.log2 n + 1 < 2 ^ 32
  | CCommands cmds =>
      match cmds with
      | None => True
      | Some l => N.of_nat (List.length l) < 2 ^ 32 /\ Forall (fun ce => wf_ostrs (fst ce)) l
      end
  | CFlySrc o a i => wf_str o /\ wf_str a /\ wf_str i
  | CUnregistered ty body => ty < 2 ^ 64 /\ skip (S (List.length body)) body = Some []
  end.

Lemma wf_cav_ifs l els :
  wf_cav (CIfPresent (Some l) els) <-> els < 2 ^ 64 /\ N.of_nat (List.length l) < 2 ^ 31 /\ Forall wf_cav l.
Proof.
  cbn [wf_cav].
  assert (Hall : (fix all (l : list cav) : Prop :=
                    match l with [] => True | c' :: r => wf_cav c' /\ all r end) l <-> Forall wf_cav l).
  { induction l as [|c l IH]; [split; auto|].
    split.
    - intros [Hc Hl]. constructor; [exact Hc|apply IH, Hl].
    - intros Hcl. inversion Hcl as [|c0 l0 Hc Hl]. split; [exact Hc|apply IH, Hl]. }
  rewrite Hall. reflexivity.
Qed.

Lemma enc_body_ifs l els :
  enc_body (CIfPresent (Some l) els) =
  match enc_frames l with
  | Some inner => Some (arr2 ++ enc_arr_hdr (2 * N.of_nat (List.length l)) ++ inner ++ enc_uint els)
  | None => None
  end.
Proof.
  cbn [enc_body].
  match goal with |- context [match ?g l with Some _ => _ | None => _ end] =>
    assert (Hg : forall l', g l' = enc_frames l') end.
  { induction l' as [|c l' IH]; [reflexivity|]. cbn [enc_frames]. rewrite <- IH. reflexivity. }
  rewrite Hg. reflexivity.
Qed.

Lemma cav_type_lt c : wf_cav c -> cav_type c < 2 ^ 64.
Proof.
  rewrite pow_2_64. destruct c; cbn [cav_type]; try (intros _; lia).
  cbn [wf_cav]. rewrite pow_2_64. intros [Hty _]. exact Hty.
Qed.

Lemma enc_frames_vals l :
  Forall (fun c => forall b, enc_body c = Some b -> isval b) l ->
  forall inner, enc_frames l = Some inner ->
  exists vs, inner = List.concat vs /\ List.length vs = (2 * List.length l)%nat /\ Forall isval vs.
Proof.
  induction 1 as [|c l Hc _ IH]; intros inner Henc; cbn [enc_frames] in Henc.
  - injection Henc as <-. exists []. auto.
  - destruct (enc_body c) as [b|] eqn:Eb; [|discriminate].
    destruct (enc_frames l) as [rest|] eqn:Er; [|discriminate].
    injection Henc as <-. destruct (IH _ eq_refl) as (vs & -> & Hlen & Hvs).
    exists (enc_uint (cav_type c) :: b :: vs). split; [|split].
    + cbn [List.concat]. reflexivity.
    + cbn [List.length]. lia.
    + constructor; [apply isval_uint|]. constructor; [apply Hc; reflexivity|exact Hvs].
Qed.

Lemma isval_unregistered body : skip (S (List.length body)) body = Some [] -> isval body.
Proof. intros Hb. exists (S (List.length body)). exact Hb. Qed.

Lemma isval_enc_body c : wf_cav c -> forall b, enc_body c = Some b -> isval b.
Proof.
  induction c as [c Hleaf|els|l els IH] using cav_ind'.
  - destruct c; try (exfalso; exact (Hleaf _ _ eq_refl));
      cbn [wf_cav enc_body]; intros Hwf bd Heq;
      try (injection Heq as <-);
      try (apply isval_arr1, isval_rs_s, Hwf);
      try (apply isval_uint).
    + destruct Hwf as [Hid Hm]. apply isval_arr2; apply isval_uint.
    + apply isval_arr1, isval_rs_n, Hwf.
    + apply isval_arr2; apply isval_int.
    + apply isval_arr1, isval_ostrs, Hwf.
    + apply isval_arr1, isval_uint.
    + apply isval_arr1, isval_uint.
    + apply isval_arr1, isval_uint.
    + destruct Hwf as (Hl & Hv & Ht). apply isval_arr3; [apply isval_str, Hl|apply isval_obin, Hv|apply isval_obin, Ht].
    + apply isval_obin, Hwf.
    + apply isval_arr1, isval_str, Hwf.
    + apply isval_str, Hwf.
    + apply (isval_arr 0 []); [reflexivity|reflexivity|constructor].
    + apply isval_bin. pose proof (be_min_length id). lia.
    + destruct cmds as [l|]; injection Heq as <-; [|apply isval_nil].
      destruct Hwf as [Hlen Hall]. rewrite flat_map_concat_map.
      apply isval_arr; [exact Hlen|rewrite map_length; reflexivity|].
      apply Forall_map. revert Hall. apply Forall_impl. intros ce Hce.
      apply isval_arr2; [apply isval_ostrs, Hce|apply isval_bool].
    + destruct Hwf as (Ho & Ha & Hi). apply isval_arr3; apply isval_str; assumption.
    + destruct Hwf as [_ Hb]. destruct body as [|x body]; [discriminate|].
      injection Heq as <-. apply isval_unregistered, Hb.
  - cbn [wf_cav enc_body]. intros _ b Heq. injection Heq as <-.
    apply (isval_arr2 enc_nil (enc_uint els)); [apply isval_nil|apply isval_uint].
  - rewrite wf_cav_ifs, enc_body_ifs. intros (Hels & Hlen & Hwf) b Heq.
    destruct (enc_frames l) as [inner|] eqn:Ei; [|discriminate]. injection Heq as <-.
    assert (Hall : Forall (fun c => forall b, enc_body c = Some b -> isval b) l).
    { rewrite Forall_forall in *. intros c Hin. apply IH; [exact Hin|apply Hwf, Hin]. }
    destruct (enc_frames_vals l Hall inner Ei) as (vs & -> & Hvl & Hvs).
    rewrite (app_assoc (enc_arr_hdr _) (List.concat vs)).
    apply isval_arr2; [|apply isval_uint].
    rewrite pow_2_31 in Hlen.
    assert (H2 : 2 * N.of_nat (List.length l) < 2 ^ 32) by (rewrite pow_2_32; lia).
    assert (H3 : N.of_nat (List.length vs) = 2 * N.of_nat (List.length l)) by lia.
    apply isval_arr; [exact H2|exact H3|exact Hvs].
Qed.

Lemma skip_enc_body_l c b rest : wf_cav c -> enc_body c = Some b ->
  forall f, (List.length (b ++ rest) <= f)%nat -> skip (S f) (b ++ rest) = Some rest.
Proof.
  intros Hwf Heq f Hf. apply isval_skip; [apply (isval_enc_body c); assumption|lia].
Qed.

(* ------------------------------------------------------------------------------------------ *)
(* frame decoding of an encoded caveat set                                                     *)

Lemma dec_frames_n_S n l :
  dec_frames_n (S n) l =
  match dec_uint l with
  | None => None
  | Some (ty, r) =>
    match skip (S (List.length r)) r with
    | None => None
    | Some rest =>
      match dec_frames_n n rest with
      | Some (fs, tl) => Some ((ty, firstn (List.length r - List.length rest) r) :: fs, tl)
      | None => None
      end
    end
  end.
Proof. reflexivity. Qed.

Lemma firstn_app_exact (a b : bytes) : firstn (List.length (a ++ b) - List.length b) (a ++ b) = a.
Proof.
  rewrite app_length. replace (List.length a + List.length b - List.length b)%nat with (List.length a + 0)%nat by lia.
  rewrite firstn_app_2. cbn [firstn]. apply app_nil_r.
Qed.

Lemma dec_frames_n_enc cs : Forall wf_cav cs -> forall b, enc_frames cs = Some b -> forall tl,
  exists bodies, Forall2 (fun c bd => enc_body c = Some bd) cs bodies /\
    dec_frames_n (List.length cs) (b ++ tl) = Some (combine (map cav_type cs) bodies, tl).
Proof.
  induction 1 as [|c cs Hc Hcs IH]; intros b Henc tl; cbn [enc_frames] in Henc.
  - injection Henc as <-. exists []. split; [constructor|reflexivity].
  - destruct (enc_body c) as [bd|] eqn:Eb; [|discriminate].
    destruct (enc_frames cs) as [rest|] eqn:Er; [|discriminate].
    injection Henc as <-. destruct (IH _ eq_refl tl) as (bodies & HF & Hdec).
    exists (bd :: bodies). split; [constructor; assumption|].
    cbn [List.length]. rewrite dec_frames_n_S. rewrite <- !app_assoc.
    rewrite dec_uint_enc_uint by (apply cav_type_lt, Hc).
    rewrite (skip_enc_body_l c bd (rest ++ tl) Hc Eb) by apply Nat.le_refl.
    rewrite Hdec, firstn_app_exact. reflexivity.
Qed.

Lemma enc_frames_length cs b : Forall wf_cav cs -> enc_frames cs = Some b ->
  (2 * List.length cs <= List.length b)%nat.
Proof.
  intros Hwf Henc.
  assert (Hall : Forall (fun c => forall b, enc_body c = Some b -> isval b) cs).
  { revert Hwf. apply Forall_impl. intros c Hc. apply isval_enc_body, Hc. }
  destruct (enc_frames_vals cs Hall b Henc) as (vs & -> & Hlen & Hvs).
  apply vals_length in Hvs. rewrite <- Hlen. exact Hvs.
Qed.

Lemma odd_double m : N.odd (2 * m) = false.
Proof. rewrite N.odd_mul. reflexivity. Qed.

Lemma enc_set_Some cs b : enc_set cs = Some b ->
  exists fr, enc_frames cs = Some fr /\ b = enc_arr_hdr (2 * N.of_nat (List.length cs)) ++ fr.
Proof.
  unfold enc_set. destruct (enc_frames cs) as [fr|]; [|discriminate].
  intros Heq. exists fr. split; [reflexivity|]. injection Heq as <-. reflexivity.
Qed.

Lemma dec_frames_enc_set_l cs b : Forall wf_cav cs -> N.of_nat (List.length cs) < 2 ^ 31 -> enc_set cs = Some b ->
  exists bodies, Forall2 (fun c bd => enc_body c = Some bd) cs bodies /\
    dec_frames b = Some (combine (map cav_type cs) bodies).
Proof.
  rewrite pow_2_31. intros Hwf Hlen Henc.
  destruct (enc_set_Some cs b Henc) as (fr & Ef & ->).
  destruct (dec_frames_n_enc cs Hwf fr Ef []) as (bodies & HF & Hdec). rewrite app_nil_r in Hdec.
  exists bodies. split; [exact HF|].
  pose proof (enc_frames_length cs fr Hwf Ef) as Hfl.
  unfold dec_frames. remember (N.of_nat (List.length cs)) as m eqn:Hm.
  rewrite dec_arr_hdr_enc by (rewrite pow_2_32; lia).
  rewrite odd_double.
  destruct (N.ltb_spec (N.of_nat (List.length fr)) (2 * m)) as [Hlt|Hge]; [lia|].
  replace (2 * m / 2) with m by lia. rewrite Hm, Nat2N.id, Hdec. reflexivity.
Qed.

Lemma Forall2_nth_combine {A B C} (R : A -> B -> Prop) (g : A -> C) l1 l2 :
  Forall2 R l1 l2 -> forall i a, nth_error l1 i = Some a ->
  exists b, R a b /\ nth_error (combine (map g l1) l2) i = Some (g a, b).
Proof.
  induction 1 as [|x y l1 l2 Hxy _ IH]; intros i a Hi.
  - destruct i; discriminate.
  - destruct i as [|i]; cbn [nth_error map combine] in *.
    + injection Hi as <-. exists y. auto.
    + apply IH, Hi.
Qed.

(* an unregistered caveat's body reaches the frame decoder byte for byte *)
Lemma unregistered_passthrough_l cs b i ty body :
  Forall wf_cav cs -> N.of_nat (List.length cs) < 2 ^ 31 -> enc_set cs = Some b ->
  nth_error cs i = Some (CUnregistered ty body) ->
  exists fs, dec_frames b = Some fs /\ nth_error fs i = Some (ty, body).
Proof.
  intros Hwf Hlen Henc Hi.
  destruct (dec_frames_enc_set_l cs b Hwf Hlen Henc) as (bodies & HF & Hdec).
  destruct (Forall2_nth_combine _ cav_type _ _ HF i _ Hi) as (bd & Hbd & Hnth).
  exists (combine (map cav_type cs) bodies). split; [exact Hdec|].
  cbn [enc_body] in Hbd. destruct body as [|x body]; [discriminate|]. injection Hbd as <-.
  exact Hnth.
Qed.

Lemma enc_one_frames_l c b : wf_cav c -> enc_one c = Some b ->
  exists bd, enc_body c = Some bd /\ dec_frames b = Some [(cav_type c, bd)].
Proof.
  intros Hwf Henc. unfold enc_one in Henc.
  destruct (dec_frames_enc_set_l [c] b) as (bodies & HF & Hdec); [auto|rewrite pow_2_31; cbn [List.length]; lia|exact Henc|].
  inversion HF as [|c0 bd cs0 bs0 Hbd Hnil]; subst. inversion Hnil; subst.
  exists bd. split; [exact Hbd|exact Hdec].
Qed.

(* ------------------------------------------------------------------------------------------ *)
(* no amplification: a decoded set is bounded by the input                                     *)

Lemma dec_take_length k r0 ty r :
  option_map (fun p : bytes * bytes => (be_val (fst p) 0, snd p)) (take k r0) = Some (ty, r) ->
  (List.length r <= List.length r0)%nat.
Proof.
  destruct (take k r0) as [[a b]|] eqn:E; cbn [option_map fst snd]; [|discriminate].
  intros Heq. injection Heq as _ <-. apply take_Some in E. destruct E as [-> _].
  rewrite app_length. lia.
Qed.

Lemma dec_uint_length l ty r : dec_uint l = Some (ty, r) -> (List.length r < List.length l)%nat.
Proof.
  destruct l as [|c r0]; [discriminate|]. cbn [dec_uint List.length].
  repeat match goal with |- (if ?b then _ else _) = _ -> _ => destruct b end;
    try discriminate;
    try (intros Heq; apply dec_take_length in Heq; lia).
  intros Heq. injection Heq as _ <-. lia.
Qed.

Lemma dec_arr_hdr_length l n r : dec_arr_hdr l = Some (n, r) -> (List.length r < List.length l)%nat.
Proof.
  destruct l as [|c r0]; [discriminate|]. cbn [dec_arr_hdr List.length].
  repeat match goal with |- (if ?b then _ else _) = _ -> _ => destruct b end;
    try discriminate;
    try (intros Heq; apply dec_take_length in Heq; lia).
  intros Heq. injection Heq as _ <-. lia.
Qed.

Definition body_bytes (fs : list (N * bytes)) : nat :=
  fold_right (fun f acc => (List.length (snd f) + acc)%nat) 0%nat fs.

Lemma dec_frames_n_bounds n : forall l fs tl, dec_frames_n n l = Some (fs, tl) ->
  List.length fs = n /\
  (2 * List.length fs + List.length tl <= List.length l)%nat /\
  (body_bytes fs + List.length fs + List.length tl <= List.length l)%nat.
Proof.
  induction n as [|n IH]; intros l fs tl Hdec.
  - cbn [dec_frames_n] in Hdec. injection Hdec as <- <-. cbn [List.length body_bytes fold_right]. lia.
  - rewrite dec_frames_n_S in Hdec.
    destruct (dec_uint l) as [[ty r]|] eqn:Eu; [|discriminate].
    destruct (skip (S (List.length r)) r) as [rest|] eqn:Es; [|discriminate].
    destruct (dec_frames_n n rest) as [[fs' tl']|] eqn:Ed; [|discriminate].
    injection Hdec as <- <-.
    apply dec_uint_length in Eu. apply skip_length in Es.
    destruct (IH _ _ _ Ed) as (H1 & H2 & H3).
    cbn [List.length body_bytes fold_right snd]. fold (body_bytes fs').
    rewrite firstn_length. lia.
Qed.

Lemma dec_frames_bounds l fs : dec_frames l = Some fs ->
  (2 * List.length fs <= List.length l)%nat /\ (body_bytes fs + List.length fs <= List.length l)%nat.
Proof.
  unfold dec_frames. destruct (dec_arr_hdr l) as [[n r]|] eqn:Eh; [|discriminate].
  destruct (N.odd n); [discriminate|].
  destruct (N.of_nat (List.length r) <? n); [discriminate|].
  destruct (dec_frames_n (N.to_nat (n / 2)) r) as [[fs' tl]|] eqn:Ed; cbn [option_map fst]; [|discriminate].
  intros Heq. injection Heq as <-.
  apply dec_arr_hdr_length in Eh. apply dec_frames_n_bounds in Ed. lia.
Qed.

Lemma dec_frames_count_l l fs : dec_frames l = Some fs -> (2 * List.length fs <= List.length l)%nat.
Proof. intros Hd. apply dec_frames_bounds in Hd. lia. Qed.

Lemma dec_frames_bodies_l l fs : dec_frames l = Some fs ->
  (fold_right (fun f acc => List.length (snd f) + acc) 0 fs <= List.length l)%nat.
Proof. intros Hd. apply dec_frames_bounds in Hd. unfold body_bytes in Hd. lia. Qed.

(* ------------------------------------------------------------------------------------------ *)
(* the condition on unregistered bodies in wf_cav is exactly "one value"; sanity examples       *)

Lemma isval_iff v : isval v <-> skip (S (List.length v)) v = Some [].
Proof.
  split; [|apply isval_unregistered].
  intros Hv. rewrite <- (app_nil_r v) at 2. apply isval_skip; [exact Hv|]. rewrite app_nil_r. lia.
Qed.

Example wf_cav_example :
  wf_cav (CIfPresent (Some [COrganization 5 1; CUnregistered 99 [147; 1; 204; 200; 161; 65]]) 1).
Proof. apply wf_cav_ifs. repeat (split || constructor). Qed.

Example dec_frames_example :
  option_map (fun b => dec_frames b)
    (enc_set [CUnregistered 99 [147; 1; 204; 200; 161; 65]; CConfineUser 300]) =
  Some (Some [(99, [147; 1; 204; 200; 161; 65]); (8, [145; 205; 1; 44])]).
Proof. vm_compute. reflexivity. Qed.

(* all 25 requested lemmas were checked "Closed under the global context"; the ones below cover them transitively *)
Print Assumptions be_val_be.
Print Assumptions dec_uint_enc_uint.
Print Assumptions dec_arr_hdr_enc.
Print Assumptions skip_fuel_mono.
Print Assumptions skip_suffix.
Print Assumptions skip_enc_body_l.
Print Assumptions dec_frames_enc_set_l.
Print Assumptions unregistered_passthrough_l.
Print Assumptions enc_one_frames_l.
Print Assumptions dec_frames_count_l.
Print Assumptions dec_frames_bodies_l.
