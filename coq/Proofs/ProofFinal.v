(* Task S3, part 2 (C08): proof tokens are final once encoded.
   Symbolic model: Model/Sym.v; basic facts: Proofs/SymBasics.v. *)
From Coq Require Import List Bool NArith Lia.
From Mac Require Import Model.Sym Proofs.SymBasics.
Import ListNotations.
Local Open Scope N_scope.

(* ------------------------------------------------------------------ *)
(** * Add, Encode, Decode on proof tokens *)

Lemma add_refused_when_final_l t l :
  n_proof (t_nonce t) = true -> t_newproof t = false -> add t l = (t, false).
Proof. intros Hp Hn. unfold add. rewrite Hp, Hn. reflexivity. Qed.

(* every decoded copy of a proof is final *)
Lemma add_refused_decoded_l t l :
  n_proof (t_nonce t) = true -> add (decode t) l = (decode t, false).
Proof. intros Hp. apply add_refused_when_final_l; [exact Hp|reflexivity]. Qed.

Lemma encode_spec_l t :
  (n_proof (t_nonce t) && t_newproof t = true ->
     encode t = mkTok (t_nonce t) (t_loc t) (t_cavs t) (TFin (t_tail t)) false) /\
  (n_proof (t_nonce t) && t_newproof t = false -> encode t = t).
Proof. unfold encode. split; intros H; rewrite H; reflexivity. Qed.

Lemma encode_newproof_false t : n_proof (t_nonce (encode t)) && t_newproof (encode t) = false.
Proof.
  unfold encode. destruct (n_proof (t_nonce t) && t_newproof t) eqn:E.
  - cbn [t_nonce t_newproof]. apply andb_false_r.
  - exact E.
Qed.

Lemma encode_idempotent_l t : encode (encode t) = encode t.
Proof. apply (proj2 (encode_spec_l (encode t))). apply encode_newproof_false. Qed.

Lemma unfinalised_unverifiable_l k t ds tr pb ta :
  n_proof (t_nonce t) = true -> t_newproof t = true ->
  verify k t ds tr = None /\ verify_flat k t pb ta = None.
Proof. intros Hp Hn. unfold verify, verify_flat. rewrite Hp, Hn. split; reflexivity. Qed.

(* decode only clears the flag *)
Lemma decode_id t : t_newproof t = false -> decode t = t.
Proof. destruct t as [n l cs tl np]. cbn [t_newproof]. intros E. subst np. reflexivity. Qed.

Lemma encode_nonce t : t_nonce (encode t) = t_nonce t.
Proof. unfold encode. destruct (n_proof (t_nonce t) && t_newproof t); reflexivity. Qed.

Lemma encode_cavs t : t_cavs (encode t) = t_cavs t.
Proof. unfold encode. destruct (n_proof (t_nonce t) && t_newproof t); reflexivity. Qed.

(* ------------------------------------------------------------------ *)
(** * the Add loop only extends: caveats are appended and the tail is chained over them *)

Lemma add_loop_extends proof : forall l seen cavs tail cavs' tail' ok,
  add_loop proof seen cavs tail l = (cavs', tail', ok) ->
  exists extra, cavs' = cavs ++ extra /\ tail' = chain_from tail extra.
Proof.
  induction l as [|a l IH]; intros seen cavs tail cavs' tail' ok H.
  - cbn [add_loop] in H. injection H. intros. subst. exists []. rewrite app_nil_r. auto.
  - assert (Hstop : (cavs, tail, false) = (cavs', tail', ok) ->
                    exists extra, cavs' = cavs ++ extra /\ tail' = chain_from tail extra).
    { intros E. injection E. intros. subst. exists []. rewrite app_nil_r. auto. }
    assert (Hgo : forall seen' c,
               add_loop proof seen' (cavs ++ [c]) (TMac tail (MCav c)) l = (cavs', tail', ok) ->
               exists extra, cavs' = cavs ++ extra /\ tail' = chain_from tail extra).
    { intros seen' c E. destruct (IH _ _ _ _ _ _ E) as [extra [Hc Ht]].
      exists (c :: extra). rewrite chain_from_cons. rewrite <- app_assoc in Hc. auto. }
    cbn [add_loop] in H. destruct a as [d|loc rn rs tk|b].
    + destruct ((d_att d && negb proof) || d_wrap d); [apply Hstop; exact H|apply (Hgo _ _ H)].
    + destruct (existsb (N.eqb loc) seen); [apply Hstop; exact H|apply (Hgo _ _ H)].
    + apply (Hgo _ _ H).
Qed.

(* ------------------------------------------------------------------ *)
(** * operation sequences on a proof object and its copies *)

Inductive pop := PAdd (l : list addcav) | PEncode | PCloneOrig | PCloneCopy | PDecode.

Definition papply (t : token) (o : pop) : token :=
  match o with
  | PAdd l => fst (add t l)
  | PEncode => encode t
  | PCloneOrig => fst (clone t)
  | PCloneCopy => snd (clone t)
  | PDecode => decode (encode t)
  end.

Definition prun (t : token) (ops : list pop) : token := fold_left papply ops t.

Definition finalised (dk : term) (t : token) : Prop :=
  t_newproof t = false /\ t_tail t = TFin (chain dk (t_nonce t) (t_cavs t)).
Definition pending (dk : term) (t : token) : Prop :=
  t_newproof t = true /\ t_tail t = chain dk (t_nonce t) (t_cavs t).

Lemma prun_nil t : prun t [] = t.
Proof. reflexivity. Qed.
Lemma prun_cons t o ops : prun t (o :: ops) = prun (papply t o) ops.
Proof. reflexivity. Qed.

Definition is_add (o : pop) : bool := match o with PAdd _ => true | _ => false end.

(* a freshly minted proof is pending *)
Lemma mint_pending dk kid loc ver rnd : pending dk (mint dk kid loc true ver rnd).
Proof. split; reflexivity. Qed.

(* Encode of a pending proof finalises it *)
Lemma encode_pending dk t : n_proof (t_nonce t) = true -> pending dk t -> finalised dk (encode t).
Proof.
  intros Hp [Hn Ht]. unfold encode. rewrite Hp, Hn. cbn [andb].
  split; cbn [t_newproof t_tail t_nonce t_cavs]; [reflexivity|]. rewrite Ht. reflexivity.
Qed.

Lemma decode_finalised dk t : finalised dk t -> finalised dk (decode t).
Proof. intros [Hn Ht]. rewrite (decode_id _ Hn). split; assumption. Qed.

(* Add on a pending proof keeps it pending and only appends *)
Lemma add_pending dk t l : n_proof (t_nonce t) = true -> pending dk t ->
  pending dk (fst (add t l)) /\ t_nonce (fst (add t l)) = t_nonce t /\
  exists extra, t_cavs (fst (add t l)) = t_cavs t ++ extra.
Proof.
  intros Hp [Hn Ht]. unfold add. rewrite Hp, Hn. cbn [negb andb].
  destruct (add_loop true (locs3p (t_cavs t)) (t_cavs t) (t_tail t) (dedup_add (t_cavs t) l))
    as [[cavs tail] ok] eqn:E.
  destruct (add_loop_extends _ _ _ _ _ _ _ _ E) as [extra [Hc Htl]].
  unfold pending. cbn [fst t_newproof t_tail t_nonce t_cavs]. split; [split; [reflexivity|]|split; [reflexivity|]].
  - subst cavs tail. rewrite Ht, chain_app. reflexivity.
  - exists extra. exact Hc.
Qed.

(* one step from a pending proof *)
Lemma papply_pending dk t o : n_proof (t_nonce t) = true -> pending dk t ->
  (if is_add o then pending dk (papply t o) else finalised dk (papply t o)) /\
  t_nonce (papply t o) = t_nonce t /\
  exists extra, t_cavs (papply t o) = t_cavs t ++ extra.
Proof.
  intros Hp Hpe.
  assert (Hnil : exists extra, t_cavs (encode t) = t_cavs t ++ extra).
  { exists []. rewrite app_nil_r. apply encode_cavs. }
  destruct o as [l| | | |]; cbn [papply is_add clone fst snd].
  - apply (add_pending _ _ _ Hp Hpe).
  - split; [apply (encode_pending _ _ Hp Hpe)|]. split; [apply encode_nonce|exact Hnil].
  - split; [apply (encode_pending _ _ Hp Hpe)|]. split; [apply encode_nonce|exact Hnil].
  - split; [apply decode_finalised, (encode_pending _ _ Hp Hpe)|].
    split; [apply encode_nonce|exact Hnil].
  - split; [apply decode_finalised, (encode_pending _ _ Hp Hpe)|].
    split; [apply encode_nonce|exact Hnil].
Qed.

(* one step from a final proof: nothing changes *)
Lemma papply_final t o : n_proof (t_nonce t) = true -> t_newproof t = false -> papply t o = t.
Proof.
  intros Hp Hn.
  assert (He : encode t = t). { apply (proj2 (encode_spec_l t)). rewrite Hn. apply andb_false_r. }
  destruct o as [l| | | |]; cbn [papply clone fst snd]; rewrite ?He, ?(decode_id _ Hn); try reflexivity.
  rewrite (add_refused_when_final_l _ _ Hp Hn). reflexivity.
Qed.

Lemma prun_final t ops : n_proof (t_nonce t) = true -> t_newproof t = false -> prun t ops = t.
Proof.
  intros Hp Hn. induction ops as [|o ops IH]; [reflexivity|].
  rewrite prun_cons, (papply_final _ _ Hp Hn). exact IH.
Qed.

(* the state of a proof object is always one of the two, the nonce never changes,
   the caveat list only grows *)
Lemma prun_invariant dk ops : forall t, n_proof (t_nonce t) = true ->
  pending dk t \/ finalised dk t ->
  (pending dk (prun t ops) \/ finalised dk (prun t ops)) /\ t_nonce (prun t ops) = t_nonce t /\
  exists extra, t_cavs (prun t ops) = t_cavs t ++ extra.
Proof.
  induction ops as [|o ops IH]; intros t Hp Hst.
  - rewrite prun_nil. split; [exact Hst|]. split; [reflexivity|]. exists []. symmetry. apply app_nil_r.
  - destruct Hst as [Hpe|Hfi].
    + rewrite prun_cons. destruct (papply_pending dk t o Hp Hpe) as [Hst' [Hn' [ex1 Hc1]]].
      assert (Hp' : n_proof (t_nonce (papply t o)) = true) by (rewrite Hn'; exact Hp).
      assert (Hst'' : pending dk (papply t o) \/ finalised dk (papply t o)).
      { destruct (is_add o); [left|right]; exact Hst'. }
      destruct (IH _ Hp' Hst'') as [Hr [Hn [ex2 Hc2]]].
      split; [exact Hr|]. split; [congruence|]. exists (ex1 ++ ex2). rewrite Hc2, Hc1, app_assoc. reflexivity.
    + rewrite (prun_final _ _ Hp (proj1 Hfi)). split; [right; exact Hfi|]. split; [reflexivity|].
      exists []. symmetry. apply app_nil_r.
Qed.

Lemma pending_or_finalised_l dk t0 ops : n_proof (t_nonce t0) = true -> pending dk t0 ->
  let t := prun t0 ops in (pending dk t \/ finalised dk t) /\ t_nonce t = t_nonce t0.
Proof.
  intros Hp Hpe t. destruct (prun_invariant dk ops t0 Hp (or_introl Hpe)) as [H1 [H2 _]]. auto.
Qed.

Lemma prun_cavs_extend_l dk t0 ops : n_proof (t_nonce t0) = true -> pending dk t0 ->
  exists extra, t_cavs (prun t0 ops) = t_cavs t0 ++ extra.
Proof. intros Hp Hpe. apply (prun_invariant dk ops t0 Hp (or_introl Hpe)). Qed.

(* a final proof is frozen.  Since [finalised] includes [t_newproof t = false], [decode t = t]
   and the two alternatives of the requested statement coincide: the strong form is [prun t ops = t] *)
Lemma finalised_is_frozen_strong_l dk t ops :
  n_proof (t_nonce t) = true -> finalised dk t -> prun t ops = t.
Proof. intros Hp [Hn _]. apply (prun_final _ _ Hp Hn). Qed.

Lemma finalised_is_frozen_l dk t ops :
  n_proof (t_nonce t) = true -> finalised dk t -> prun t ops = t \/ prun t ops = decode t.
Proof. intros Hp Hf. left. apply (finalised_is_frozen_strong_l _ _ _ Hp Hf). Qed.

(* in particular: tail, caveats, nonce never change again; every later encoding is identical *)
Lemma finalised_fields_frozen_l dk t ops :
  n_proof (t_nonce t) = true -> finalised dk t ->
  t_tail (prun t ops) = t_tail t /\ t_cavs (prun t ops) = t_cavs t /\ t_nonce (prun t ops) = t_nonce t.
Proof. intros Hp Hf. rewrite (finalised_is_frozen_strong_l _ _ _ Hp Hf). auto. Qed.

Lemma encode_stable dk t ops :
  n_proof (t_nonce t) = true -> finalised dk t -> encode (prun t ops) = encode t /\ encode t = t.
Proof.
  intros Hp Hf. rewrite (finalised_is_frozen_strong_l _ _ _ Hp Hf). split; [reflexivity|].
  apply (proj2 (encode_spec_l t)). rewrite (proj1 Hf). apply andb_false_r.
Qed.

(* any step other than Add finalises; afterwards nothing moves *)
Lemma prun_nonadd_finalises dk ops : forall t, n_proof (t_nonce t) = true ->
  pending dk t \/ finalised dk t ->
  (exists o, In o ops /\ is_add o = false) -> finalised dk (prun t ops).
Proof.
  induction ops as [|o ops IH]; intros t Hp Hst [o' [Hin Hna]]; [contradiction|].
  destruct Hst as [Hpe|Hfi].
  - rewrite prun_cons. destruct (papply_pending dk t o Hp Hpe) as [Hst' [Hn' _]].
    assert (Hp' : n_proof (t_nonce (papply t o)) = true) by (rewrite Hn'; exact Hp).
    destruct Hin as [E|Hin].
    + subst o'. rewrite Hna in Hst'. rewrite (prun_final _ _ Hp' (proj1 Hst')). exact Hst'.
    + apply (IH _ Hp'); [destruct (is_add o); [left|right]; exact Hst'|]. exists o'. auto.
  - rewrite (prun_final _ _ Hp (proj1 Hfi)). exact Hfi.
Qed.

(* number of finalisations applied on top of a term *)
Fixpoint fin_depth (x : term) : nat := match x with TFin y => S (fin_depth y) | _ => 0%nat end.

Lemma fin_depth_chain k n cs : fin_depth (chain k n cs) = 0%nat.
Proof. destruct (chain_is_mac k n cs) as [x [m E]]. rewrite E. reflexivity. Qed.

(* the tail of a proof object derived from a pending proof by any sequence of steps carries
   no finalisation while pending and exactly one afterwards -- never [TFin (TFin _)] -- whatever
   the number of encode / clone / decode steps; and it is finalised as soon as one such step occurred *)
Lemma finalise_exactly_once_l dk t0 ops : n_proof (t_nonce t0) = true -> pending dk t0 ->
  let t := prun t0 ops in
  (forall x, t_tail t <> TFin (TFin x)) /\
  fin_depth (t_tail t) = (if t_newproof t then 0%nat else 1%nat) /\
  (t_newproof t = false -> t_tail t = TFin (chain dk (t_nonce t0) (t_cavs t))) /\
  ((exists o, In o ops /\ is_add o = false) ->
     finalised dk t /\ t_tail t = TFin (chain dk (t_nonce t0) (t_cavs t))).
Proof.
  intros Hp Hpe t. destruct (prun_invariant dk ops t0 Hp (or_introl Hpe)) as [Hst [Hn _]].
  fold t in Hst, Hn.
  assert (Hshape : (t_newproof t = true /\ t_tail t = chain dk (t_nonce t0) (t_cavs t)) \/
                   (t_newproof t = false /\ t_tail t = TFin (chain dk (t_nonce t0) (t_cavs t)))).
  { rewrite <- Hn. exact Hst. }
  split; [|split; [|split]].
  - intros x E. destruct Hshape as [[_ Ht]|[_ Ht]]; rewrite Ht in E.
    + destruct (chain_is_mac dk (t_nonce t0) (t_cavs t)) as [y [m Ey]]. rewrite Ey in E. discriminate E.
    + injection E. intros E'. destruct (chain_is_mac dk (t_nonce t0) (t_cavs t)) as [y [m Ey]].
      rewrite Ey in E'. discriminate E'.
  - destruct Hshape as [[Hnp Ht]|[Hnp Ht]]; rewrite Hnp, Ht; cbn [fin_depth]; rewrite fin_depth_chain; reflexivity.
  - intros Hnp. destruct Hshape as [[Hnp' _]|[_ Ht]]; [congruence|exact Ht].
  - intros Hex. pose proof (prun_nonadd_finalises dk ops t0 Hp (or_introl Hpe) Hex) as Hfi. fold t in Hfi.
    split; [exact Hfi|]. rewrite <- Hn. apply Hfi.
Qed.

(* ------------------------------------------------------------------ *)
(** * hand-built extensions of a finalised tail *)

Inductive derived (x : term) : term -> Prop :=
| d_base : derived x (TFin x)
| d_mac y c : derived x y -> derived x (TMac y (MCav c))
| d_macn y n : derived x y -> derived x (TMac y (mnonce n))
| d_fin y : derived x y -> derived x (TFin y)
| d_hash y : derived x y -> derived x (THash y)
| d_pre y : derived x y -> derived x (TPre16 y).

(* depth along the first argument: enough to see that a derived term is strictly bigger *)
Fixpoint tsize (x : term) : nat :=
  match x with
  | TMac k _ => S (tsize k)
  | TFin y => S (tsize y)
  | THash y => S (tsize y)
  | TPre16 y => S (tsize y)
  | _ => 0%nat
  end.

Lemma derived_size x y : derived x y -> (tsize x < tsize y)%nat.
Proof. intros H. induction H; cbn [tsize]; lia. Qed.

Lemma chain_from_size cs : forall s, (tsize s <= tsize (chain_from s cs))%nat.
Proof.
  induction cs as [|c cs IH]; intros s; [rewrite chain_from_nil; lia|].
  rewrite chain_from_cons. specialize (IH (TMac s (MCav c))). cbn [tsize] in IH. lia.
Qed.

Lemma chain_size k n cs : (tsize k < tsize (chain k n cs))%nat.
Proof. unfold chain. pose proof (chain_from_size cs (TMac k (mnonce n))) as H. cbn [tsize] in H. lia. Qed.

(* the root key of a chain is never derived from (the finalisation of) that chain *)
Lemma root_not_derived dk n cs : ~ derived (chain dk n cs) dk.
Proof. intros H. apply derived_size in H. pose proof (chain_size dk n cs). lia. Qed.

Lemma atom_not_derived x dk :
  match dk with TKey _ | TFresh _ | TLit _ => True | _ => False end -> ~ derived x dk.
Proof. intros Hat H. destruct H; exact Hat. Qed.

Lemma derived_mac_inv x k m : derived x (TMac k m) -> derived x k.
Proof. intros H. inversion H; subst; assumption. Qed.

Lemma derived_mac_nonce_inv x k n : derived x (TMac k (mnonce n)) -> derived x k.
Proof. apply derived_mac_inv. Qed.

Lemma derived_fin_inv x z : derived x (TFin z) -> z = x \/ derived x z.
Proof. intros H. inversion H; subst; auto. Qed.

(* general formulation: no term derived from [x] is a chain rooted at a key that is not itself derived
   from [x] (the only way to reach a chain would be [d_macn] applied to the root) *)
Lemma derived_not_chain_gen x dk : ~ derived x dk ->
  forall cs' y n', derived x y -> y <> chain dk n' cs'.
Proof.
  intros Hnd cs'. induction cs' as [|c cs' IH] using rev_ind; intros y n' Hy E; subst y.
  - rewrite chain_nil in Hy. apply Hnd. apply (derived_mac_inv _ _ _ Hy).
  - rewrite chain_snoc in Hy. apply derived_mac_inv in Hy. apply (IH _ n' Hy). reflexivity.
Qed.

(* for an atomic root key *)
Lemma derived_not_chain_atom_l x dk y n' cs' :
  match dk with TKey _ | TFresh _ | TLit _ => True | _ => False end ->
  derived x y -> y <> chain dk n' cs'.
Proof. intros Hat Hy. apply (derived_not_chain_gen x dk (atom_not_derived x dk Hat) cs' y n' Hy). Qed.

(* for the finalised chain itself the side condition always holds: unconditional statement *)
Lemma derived_not_chain_l dk n cs y n' cs' : derived (chain dk n cs) y -> y <> chain dk n' cs'.
Proof. intros Hy. apply (derived_not_chain_gen _ dk (root_not_derived dk n cs) cs' y n' Hy). Qed.

(* the only derived term of the shape verification expects is the finalised tail itself *)
Lemma derived_tail_shape dk n cs b n' cs' :
  derived (chain dk n cs) (fin_if b (chain dk n' cs')) -> b = true /\ n' = n /\ cs' = cs.
Proof.
  intros H. destruct b; cbn [fin_if] in H.
  - apply derived_fin_inv in H. destruct H as [E|H].
    + apply chain_inj' in E. destruct E as [_ [En Ec]]. auto.
    + exfalso. apply (derived_not_chain_l _ _ _ _ n' cs' H). reflexivity.
  - exfalso. apply (derived_not_chain_l _ _ _ _ n' cs' H). reflexivity.
Qed.

(* strongest form: a token whose tail is derived from the chain of a finalised proof verifies under dk
   only if it IS that proof (same nonce, same caveats, same tail) *)
Lemma derived_tail_accepted_only_original_flat_l dk n cs e pb ta S :
  derived (chain dk n cs) (t_tail e) -> verify_flat dk e pb ta = Some S ->
  n_proof (t_nonce e) = true /\ t_nonce e = n /\ t_cavs e = cs /\ t_tail e = TFin (chain dk n cs).
Proof.
  intros Hd Hv. destruct (verify_flat_sound _ _ _ _ _ Hv) as [Ht _].
  rewrite Ht in Hd. destruct (derived_tail_shape _ _ _ _ _ _ Hd) as [Hb [Hn Hc]].
  rewrite Hb in Ht. cbn [fin_if] in Ht. rewrite Hn, Hc in Ht. auto.
Qed.

Lemma derived_tail_accepted_only_original_l dk n cs e ds tr S :
  derived (chain dk n cs) (t_tail e) -> verify dk e ds tr = Some S ->
  n_proof (t_nonce e) = true /\ t_nonce e = n /\ t_cavs e = cs /\ t_tail e = TFin (chain dk n cs).
Proof.
  intros Hd Hv. destruct (verify_sound_chain _ _ _ _ _ Hv) as [Ht _].
  rewrite Ht in Hd. destruct (derived_tail_shape _ _ _ _ _ _ Hd) as [Hb [Hn Hc]].
  rewrite Hb in Ht. cbn [fin_if] in Ht. rewrite Hn, Hc in Ht. auto.
Qed.

Lemma app_nonnil_neq {A} (l extra : list A) : extra <> [] -> l ++ extra <> l.
Proof.
  intros Hne E. apply Hne. apply (app_inv_head l). rewrite app_nil_r. exact E.
Qed.

(* the requested statement (the hypotheses [finalised dk p], [n_proof ..] and [t_nonce e = ..] are not
   needed for the proof; no atomicity assumption on dk is needed either) *)
Lemma hand_extension_rejected_l dk p e extra pb ta :
  finalised dk p -> n_proof (t_nonce p) = true -> t_nonce e = t_nonce p ->
  t_cavs e = t_cavs p ++ extra -> extra <> [] ->
  derived (chain dk (t_nonce p) (t_cavs p)) (t_tail e) -> verify_flat dk e pb ta = None.
Proof.
  intros _ _ _ Hc Hne Hd. destruct (verify_flat dk e pb ta) as [S|] eqn:Hv; [|reflexivity].
  exfalso. destruct (derived_tail_accepted_only_original_flat_l _ _ _ _ _ _ _ Hd Hv) as [_ [_ [Hc' _]]].
  rewrite Hc in Hc'. apply (app_nonnil_neq _ _ Hne Hc').
Qed.

(* the same for full verification with discharges *)
Lemma hand_extension_rejected_verify_l dk p e extra ds tr :
  t_cavs e = t_cavs p ++ extra -> extra <> [] ->
  derived (chain dk (t_nonce p) (t_cavs p)) (t_tail e) -> verify dk e ds tr = None.
Proof.
  intros Hc Hne Hd. destruct (verify dk e ds tr) as [S|] eqn:Hv; [|reflexivity].
  exfalso. destruct (derived_tail_accepted_only_original_l _ _ _ _ _ _ _ Hd Hv) as [_ [_ [Hc' _]]].
  rewrite Hc in Hc'. apply (app_nonnil_neq _ _ Hne Hc').
Qed.

(* the two concrete shapes.  They are rejected whatever the nonce and caveat list of [e] are
   (in particular for [t_cavs e = cs ++ [c]]) *)
Lemma hand_mac_on_final_rejected_l dk n cs c e pb ta ds tr :
  t_tail e = TMac (TFin (chain dk n cs)) (MCav c) ->
  verify_flat dk e pb ta = None /\ verify dk e ds tr = None.
Proof.
  intros Ht.
  assert (Hd : derived (chain dk n cs) (t_tail e)) by (rewrite Ht; apply d_mac, d_base).
  split.
  - destruct (verify_flat dk e pb ta) as [S|] eqn:Hv; [|reflexivity]. exfalso.
    destruct (derived_tail_accepted_only_original_flat_l _ _ _ _ _ _ _ Hd Hv) as [_ [_ [_ Ht']]].
    rewrite Ht in Ht'. discriminate Ht'.
  - destruct (verify dk e ds tr) as [S|] eqn:Hv; [|reflexivity]. exfalso.
    destruct (derived_tail_accepted_only_original_l _ _ _ _ _ _ _ Hd Hv) as [_ [_ [_ Ht']]].
    rewrite Ht in Ht'. discriminate Ht'.
Qed.

Lemma hand_refinalised_mac_rejected_l dk n cs c e pb ta ds tr :
  t_tail e = TFin (TMac (TFin (chain dk n cs)) (MCav c)) ->
  verify_flat dk e pb ta = None /\ verify dk e ds tr = None.
Proof.
  intros Ht.
  assert (Hd : derived (chain dk n cs) (t_tail e)) by (rewrite Ht; apply d_fin, d_mac, d_base).
  assert (Hne : TFin (TMac (TFin (chain dk n cs)) (MCav c)) <> TFin (chain dk n cs)).
  { intros E. injection E. intros E'. apply (f_equal tsize) in E'. cbn [tsize] in E'. lia. }
  split.
  - destruct (verify_flat dk e pb ta) as [S|] eqn:Hv; [|reflexivity]. exfalso.
    destruct (derived_tail_accepted_only_original_flat_l _ _ _ _ _ _ _ Hd Hv) as [_ [_ [_ Ht']]].
    rewrite Ht in Ht'. exact (Hne Ht').
  - destruct (verify dk e ds tr) as [S|] eqn:Hv; [|reflexivity]. exfalso.
    destruct (derived_tail_accepted_only_original_l _ _ _ _ _ _ _ Hd Hv) as [_ [_ [_ Ht']]].
    rewrite Ht in Ht'. exact (Hne Ht').
Qed.

(* ------------------------------------------------------------------ *)
Print Assumptions add_refused_when_final_l.
Print Assumptions add_refused_decoded_l.
Print Assumptions encode_spec_l.
Print Assumptions encode_idempotent_l.
Print Assumptions unfinalised_unverifiable_l.
Print Assumptions pending_or_finalised_l.
Print Assumptions prun_cavs_extend_l.
Print Assumptions finalised_is_frozen_strong_l.
Print Assumptions finalised_is_frozen_l.
Print Assumptions finalised_fields_frozen_l.
Print Assumptions encode_stable.
Print Assumptions finalise_exactly_once_l.
Print Assumptions derived_not_chain_gen.
Print Assumptions derived_not_chain_atom_l.
Print Assumptions derived_not_chain_l.
Print Assumptions derived_tail_accepted_only_original_flat_l.
Print Assumptions derived_tail_accepted_only_original_l.
Print Assumptions hand_extension_rejected_l.
Print Assumptions hand_extension_rejected_verify_l.
Print Assumptions hand_mac_on_final_rejected_l.
Print Assumptions hand_refinalised_mac_rejected_l.
