(* C18: discharge-side conditions *)
From Coq Require Import List Bool NArith ZArith String Lia.
From Mac Require Import Model.Err Model.Caveat Model.Access Model.Prohibits Proofs.ErrFacts.
Import ListNotations.
Local Open Scope Z_scope.

Lemma confine_user_spec_l id d :
  prohibits (CConfineUser id) (ADischarge d) = None <->
  dr_flyio d <> [] /\ In id (map fst (dr_flyio d)).
Proof.
  simpl. destruct (isnil (dr_flyio d)) eqn:E.
  - apply isnil_true in E. split; [discriminate|]. intros [H _]. contradiction.
  - apply isnil_false in E. destruct (mem_n id (map fst (dr_flyio d))) eqn:M.
    + apply mem_n_In in M. tauto.
    + split; [discriminate|]. intros [_ H]. apply mem_n_In in H. congruence.
Qed.

Lemma confine_org_spec_l id d :
  prohibits (CConfineOrganization id) (ADischarge d) = None <->
  dr_flyio d <> [] /\ In id (flat_map snd (dr_flyio d)).
Proof.
  simpl. destruct (isnil (dr_flyio d)) eqn:E.
  - apply isnil_true in E. split; [discriminate|]. intros [H _]. contradiction.
  - apply isnil_false in E. destruct (mem_n id (flat_map snd (dr_flyio d))) eqn:M.
    + apply mem_n_In in M. tauto.
    + split; [discriminate|]. intros [_ H]. apply mem_n_In in H. congruence.
Qed.

Lemma confine_googlehd_spec_l hd d :
  prohibits (CConfineGoogleHD hd) (ADischarge d) = None <->
  dr_google d <> [] /\ In hd (dr_google d).
Proof.
  simpl. destruct (isnil (dr_google d)) eqn:E.
  - apply isnil_true in E. split; [discriminate|]. intros [H _]. contradiction.
  - apply isnil_false in E. destruct (mem_s hd (dr_google d)) eqn:M.
    + apply mem_s_In in M. tauto.
    + split; [discriminate|]. intros [_ H]. apply mem_s_In in H. congruence.
Qed.

Lemma confine_githuborg_spec_l id d :
  prohibits (CConfineGitHubOrg id) (ADischarge d) = None <->
  dr_github d <> [] /\ In id (List.concat (dr_github d)).
Proof.
  simpl. destruct (isnil (dr_github d)) eqn:E.
  - apply isnil_true in E. split; [discriminate|]. intros [H _]. contradiction.
  - apply isnil_false in E. destruct (mem_n id (List.concat (dr_github d))) eqn:M.
    + apply mem_n_In in M. tauto.
    + split; [discriminate|]. intros [_ H]. apply mem_n_In in H. congruence.
Qed.

Definition is_discharge_cond (c : cav) : bool :=
  match c with
  | CConfineUser _ | CConfineOrganization _ | CConfineGoogleHD _ | CConfineGitHubOrg _
  | CMaxValidity _ => true
  | _ => false
  end.

Lemma discharge_cond_other_access_l c a :
  is_discharge_cond c = true -> (forall d, a <> ADischarge d) ->
  prohibits c a = Some E_invalid.
Proof.
  intros Hc Ha. destruct c; try discriminate; destruct a; simpl; try reflexivity;
  exfalso; eapply Ha; reflexivity.
Qed.

(* ---- lifetime limits *)
Lemma wrap64_range z : - two63 <= wrap64 z < two63.
Proof. unfold wrap64, two63, two64. pose proof (Z.mod_pos_bound (z + 9223372036854775808) 18446744073709551616). lia. Qed.

Lemma wrap64_small z : - two63 <= z < two63 -> wrap64 z = z.
Proof. unfold wrap64, two63, two64. intros H. rewrite Z.mod_small; lia. Qed.

Lemma wrap64_le_nonneg z : 0 <= z -> wrap64 z <= z.
Proof.
  intros H. destruct (Z_lt_ge_dec z two63) as [L|G].
  - rewrite wrap64_small; [lia|]. unfold two63 in *. lia.
  - pose proof (wrap64_range z). lia.
Qed.

Lemma wrap64_even z : Z.even z = true -> Z.even (wrap64 z) = true.
Proof.
  intros H. unfold wrap64, two63, two64.
  assert (E: exists k, z = 2 * k) by (apply Z.even_spec in H; destruct H as [k ->]; now exists k).
  destruct E as [k ->].
  replace (2 * k + 9223372036854775808) with (2 * (k + 4611686018427387904)) by lia.
  replace 18446744073709551616 with (2 * 9223372036854775808) by lia.
  rewrite Zmult_mod_distr_l.
  replace (2 * ((k + 4611686018427387904) mod 9223372036854775808) - 9223372036854775808)
    with (2 * ((k + 4611686018427387904) mod 9223372036854775808 - 4611686018427387904)) by lia.
  apply Z.even_mul.
Qed.

Lemma dur_of_secs_even c : Z.even (dur_of_secs c) = true.
Proof.
  unfold dur_of_secs. apply wrap64_even.
  rewrite Z.even_mul. replace (Z.even 1000000000) with true by reflexivity. apply orb_true_r.
Qed.

Lemma dur_of_secs_ne_max c : dur_of_secs c <> max_dur.
Proof.
  intros H. pose proof (dur_of_secs_even c) as E. rewrite H in E. vm_compute in E. discriminate.
Qed.

Lemma dur_of_secs_le c : dur_of_secs c <= Z.of_N c * 1000000000.
Proof. unfold dur_of_secs. apply wrap64_le_nonneg. lia. Qed.

Lemma dur_of_secs_exact c : Z.of_N c * 1000000000 < two63 -> dur_of_secs c = Z.of_N c * 1000000000.
Proof. intros H. unfold dur_of_secs. apply wrap64_small. unfold two63 in *. lia. Qed.

Lemma sat64_spec z :
  (z < -9223372036854775808 /\ sat64 z = -9223372036854775808) \/
  (9223372036854775807 < z /\ sat64 z = 9223372036854775807) \/
  (-9223372036854775808 <= z <= 9223372036854775807 /\ sat64 z = z).
Proof.
  unfold sat64, min_dur, max_dur, two63.
  match goal with |- context [if ?a <? ?b then _ else _] => destruct (Z.ltb_spec a b) as [A|A] end.
  - left. split; [lia|reflexivity].
  - match goal with |- context [if ?a <? ?b then _ else _] => destruct (Z.ltb_spec a b) as [B|B] end.
    + right; left. split; [lia|reflexivity].
    + right; right. split; [lia|reflexivity].
Qed.

Lemma dur_of_secs_range c : -9223372036854775808 <= dur_of_secs c <= 9223372036854775806.
Proof.
  pose proof (wrap64_range (Z.of_N c * 1000000000)) as R. fold (dur_of_secs c) in R.
  pose proof (dur_of_secs_ne_max c) as M. unfold max_dur, two63 in *. lia.
Qed.

Lemma prohibits_maxvalidity c d :
  prohibits (CMaxValidity c) (ADischarge d) =
  if Z.ltb (dur_of_secs c) (sat64 (dr_delta d)) then Some E_unauth else None.
Proof. reflexivity. Qed.

Lemma max_validity_safe_l c d :
  prohibits (CMaxValidity c) (ADischarge d) = None -> dr_delta d <= Z.of_N c * 1000000000.
Proof.
  rewrite prohibits_maxvalidity.
  pose proof (dur_of_secs_le c) as H1. pose proof (dur_of_secs_range c) as H2.
  pose proof (N2Z.is_nonneg c) as H3. pose proof (sat64_spec (dr_delta d)) as H4.
  revert H1 H2 H4. generalize (dur_of_secs c) (sat64 (dr_delta d)). intros du sa H1 H2 H4.
  destruct (Z.ltb_spec du sa) as [L|G]; [discriminate|]. intros _. lia.
Qed.

Lemma max_validity_exact_l c d :
  Z.of_N c * 1000000000 < 9223372036854775808 ->
  (prohibits (CMaxValidity c) (ADischarge d) = None <-> dr_delta d <= Z.of_N c * 1000000000).
Proof.
  intros Hc. split; [apply max_validity_safe_l|].
  intros H. rewrite prohibits_maxvalidity.
  assert (E : dur_of_secs c = Z.of_N c * 1000000000) by (apply dur_of_secs_exact; unfold two63; lia).
  pose proof (sat64_spec (dr_delta d)) as H4. pose proof (N2Z.is_nonneg c) as H3.
  revert E H4. generalize (dur_of_secs c) (sat64 (dr_delta d)). intros du sa E H4.
  destruct (Z.ltb_spec du sa) as [L|G]; [exfalso; lia|reflexivity].
Qed.

(* ---- effective maximum *)
Definition mv_step (mx : Z) (s : N) : Z := if Z.ltb (dur_of_secs s) mx then dur_of_secs s else mx.

Lemma fold_mv_le l : forall m0, fold_left mv_step l m0 <= m0.
Proof.
  induction l as [|s l IH]; simpl; intros m0; [lia|].
  specialize (IH (mv_step m0 s)). unfold mv_step in *. destruct (Z.ltb_spec (dur_of_secs s) m0); lia.
Qed.

Lemma fold_mv_lower l : forall m0 s, In s l -> fold_left mv_step l m0 <= dur_of_secs s.
Proof.
  induction l as [|x l IH]; simpl; intros m0 s []; subst.
  - pose proof (fold_mv_le l (mv_step m0 s)). unfold mv_step in *.
    destruct (Z.ltb_spec (dur_of_secs s) m0); lia.
  - now apply IH.
Qed.

Lemma fold_mv_in l : forall m0, fold_left mv_step l m0 = m0 \/ In (fold_left mv_step l m0) (map dur_of_secs l).
Proof.
  induction l as [|x l IH]; simpl; intros m0; [now left|].
  destruct (IH (mv_step m0 x)) as [E|I].
  - rewrite E. unfold mv_step. destruct (Z.ltb_spec (dur_of_secs x) m0); auto.
  - auto.
Qed.

Lemma get_max_validity_spec_l cs :
  let '(m, found) := get_max_validity cs in
  (forall s, In s (max_validities cs) -> m <= dur_of_secs s /\ m <= Z.of_N s * 1000000000) /\
  (found = true -> In m (map dur_of_secs (max_validities cs))) /\
  (found = false <-> max_validities cs = []).
Proof.
  unfold get_max_validity. fold mv_step.
  set (l := max_validities cs). set (m := fold_left mv_step l max_dur).
  split; [|split].
  - intros s Hs. pose proof (fold_mv_lower l max_dur s Hs). pose proof (dur_of_secs_le s). fold m in H. lia.
  - intros Hf. apply negb_true_iff, Z.eqb_neq in Hf.
    destruct (fold_mv_in l max_dur) as [E|I]; [contradiction|exact I].
  - split.
    + intros Hf. apply negb_false_iff, Z.eqb_eq in Hf.
      destruct l as [|s l'] eqn:El; [reflexivity|exfalso].
      pose proof (fold_mv_lower (s :: l') max_dur s (or_introl eq_refl)) as Hlow.
      fold m in Hlow. rewrite Hf in Hlow.
      pose proof (dur_of_secs_range s) as R. unfold max_dur, two63 in Hlow. lia.
    + intros ->. reflexivity.
Qed.
