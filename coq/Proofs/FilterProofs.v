(* C13: the filters of the bundle API (Bundle.IsMissingDischarge, AllowsAccess, Bundle.WithDischarges) select exactly
   the tokens they name, never add or reorder any, and tie the bundle's decision to its own tokens. *)
From Coq Require Import List Bool NArith Lia.
From Mac Require Import Model.BundleM Model.BundleOps.
Import ListNotations.
Local Open Scope N_scope.

(* a filter only removes: what it returns is a sub-list of the bundle's tokens, in order, at the same location *)
Lemma select_f_spec_l ct b f :
  b_ts (select_f ct b f) = filter (filt_fn ct (b_loc b) (b_ts b) f) (b_ts b) /\ b_loc (select_f ct b f) = b_loc b.
Proof. split; reflexivity. Qed.

Lemma select_f_incl_l ct b f t : In t (b_ts (select_f ct b f)) -> In t (b_ts b).
Proof. cbn [select_f b_ts]. intros H. apply filter_In in H. tauto. Qed.

Lemma filter_length_le {A} (f : A -> bool) l : (List.length (filter f l) <= List.length l)%nat.
Proof. induction l as [|x r IH]; cbn [filter List.length]; [lia|]. destruct (f x); cbn [List.length]; lia. Qed.

Lemma select_f_length_l ct b f : (List.length (b_ts (select_f ct b f)) <= List.length (b_ts b))%nat.
Proof. cbn [select_f b_ts]. apply filter_length_le. Qed.

(* AllowsAccess selects exactly the verified tokens whose caveats clear every access *)
Lemma allows_spec_l ct rqs t :
  allows ct rqs t = true <-> exists m cs, t = TVer m cs /\ forall rq, In rq rqs -> clookup ct cs rq = true.
Proof.
  split.
  - destruct t as [s|s|m|m cs|m]; cbn [allows]; try discriminate. intros H. exists m, cs. split; [reflexivity|].
    intros rq Hin. rewrite forallb_forall in H. exact (H rq Hin).
  - intros [m [cs [-> H]]]. cbn [allows]. apply forallb_forall. exact H.
Qed.

(* the bundle clears a request exactly when the filter "tokens allowing this request" selects something:
   the decision is made by one of the bundle's own tokens *)
Definition is_nil {A} (l : list A) : bool := match l with [] => true | _ => false end.

Lemma existsb_filter_nil {A} (f : A -> bool) l : existsb f l = negb (is_nil (filter f l)).
Proof. induction l as [|x r IH]; cbn [existsb filter]; [reflexivity|]. destruct (f x); cbn [orb is_nil negb]; [reflexivity|exact IH]. Qed.

Lemma validate_iff_allows_l ct b rq :
  validate ct b rq = negb (is_nil (b_ts (select_f ct b (FAllows [rq])))).
Proof.
  unfold validate. cbn [select_f b_ts]. rewrite existsb_filter_nil. f_equal. f_equal.
  apply filter_ext. intros t. cbn [filt_fn]. destruct t; cbn [allows forallb]; try reflexivity. now rewrite andb_true_r.
Qed.

Lemma validate_many_iff_allows_l ct b rqs :
  validate_many ct b rqs = negb (is_nil (b_ts (select_f ct b (FAllows rqs)))).
Proof.
  unfold validate_many. cbn [select_f b_ts]. rewrite existsb_filter_nil.
  first [reflexivity | f_equal; f_equal; apply filter_ext; intros t; cbn [filt_fn]; destruct t; reflexivity].
Qed.

(* IsMissingDischarge(tp) selects exactly the permission tokens that have a ticket for tp which no discharge in the
   bundle answers *)
Lemma missing_for_spec_l loc ts tp t :
  missing_for loc ts tp t = true <->
  is_perm loc t = true /\ exists m k, tok_mac t = Some m /\ In (tp, k) (m_tickets m) /\ dis_for loc ts k = [].
Proof.
  unfold missing_for. split.
  - intros H. apply andb_true_iff in H. destruct H as [Hp H]. split; [exact Hp|].
    destruct (tok_mac t) as [m|]; [|discriminate]. apply existsb_exists in H. destruct H as [[l k] [Hin H]].
    cbn [fst snd] in H. apply andb_true_iff in H. destruct H as [Hl Hd]. apply N.eqb_eq in Hl. subst l.
    exists m, k. split; [reflexivity|]. split; [exact Hin|]. destruct (dis_for loc ts k); [reflexivity|discriminate].
  - intros [Hp [m [k [Hm [Hin Hd]]]]]. rewrite Hp, Hm. cbn [andb]. apply existsb_exists. exists (tp, k).
    split; [exact Hin|]. cbn [fst snd]. rewrite N.eqb_refl, Hd. reflexivity.
Qed.

(* no token is missing a discharge for tp exactly when the bundle reports no undischarged ticket for tp *)
Lemma no_missing_aux loc ts0 tp l :
  filter (missing_for loc ts0 tp) l = [] <->
  map snd (filter (fun lt : N * N => fst lt =? tp)
     (flat_map (fun t => if is_perm loc t
                         then match tok_mac t with
                              | Some m => filter (fun lt : N * N => match dis_for loc ts0 (snd lt) with [] => true | _ => false end) (m_tickets m)
                              | None => [] end
                         else []) l)) = [].
Proof.
  induction l as [|t r IH]; cbn [filter flat_map map]; [tauto|].
  unfold missing_for at 1.
  destruct (is_perm loc t) eqn:Hp; cbn [andb]; [|rewrite app_nil_l; exact IH].
  destruct (tok_mac t) as [m|] eqn:Hm; [|rewrite app_nil_l; exact IH].
  rewrite filter_app, map_app.
  assert (E : existsb (fun lt : N * N => (fst lt =? tp) && match dis_for loc ts0 (snd lt) with [] => true | _ => false end) (m_tickets m) = true
              <-> map snd (filter (fun lt : N * N => fst lt =? tp)
                     (filter (fun lt : N * N => match dis_for loc ts0 (snd lt) with [] => true | _ => false end) (m_tickets m))) <> []).
  { induction (m_tickets m) as [|[l0 k] tl IHt]; cbn [existsb filter map fst snd].
    - split; [discriminate|intros H; now contradiction H].
    - destruct (dis_for loc ts0 k) eqn:Hd; cbn [filter fst snd].
      + destruct (l0 =? tp) eqn:Hl; cbn [andb orb map].
        * split; [discriminate|reflexivity].
        * exact IHt.
      + rewrite andb_false_r. cbn [orb]. exact IHt. }
  destruct (existsb _ (m_tickets m)) eqn:Ex.
  - split; [discriminate|]. intros H. apply app_eq_nil in H. destruct H as [H _].
    destruct E as [E _]. now contradiction (E eq_refl).
  - match goal with |- _ <-> ?a ++ _ = [] => assert (N0 : a = []) end.
    { match goal with |- ?a = [] => destruct a eqn:Q; [reflexivity|] end.
      destruct E as [_ E]. assert (F : false = true) by (apply E; discriminate). discriminate F. }
    rewrite N0, app_nil_l. exact IH.
Qed.

Lemma no_missing_iff_undischarged_l ct b tp :
  b_ts (select_f ct b (FMissing tp)) = [] <-> undischarged_for b tp = [].
Proof. cbn [select_f b_ts filt_fn]. unfold undischarged_for, undischarged. apply no_missing_aux. Qed.

(* WithDischarges(g): the tokens g selects, and the discharges of the permission tokens g selects -- nothing else *)
Lemma withdis_spec_l ct loc ts g t :
  filt_fn ct loc ts (FWithDis g) t = true <->
  filt_fn ct loc ts g t = true \/
  exists p, In p ts /\ discharges_perm loc p t = true /\ filt_fn ct loc ts g p = true.
Proof.
  cbn [filt_fn]. rewrite orb_true_iff, existsb_exists. split.
  - intros [H|[p [Hin H]]]; [now left|]. right. apply andb_true_iff in H. exists p. tauto.
  - intros [H|[p [Hin [H1 H2]]]]; [now left|]. right. exists p. split; [exact Hin|]. now rewrite H1, H2.
Qed.

Lemma withdis_monotone_l ct b g t :
  In t (b_ts (select_f ct b g)) -> In t (b_ts (select_f ct b (FWithDis g))).
Proof.
  cbn [select_f b_ts]. intros H. apply filter_In in H. destruct H as [Hin H]. apply filter_In. split; [exact Hin|].
  cbn [filt_fn]. now rewrite H.
Qed.

(* a discharge is pulled in only by a permission token whose ticket is its key-id *)
Lemma discharges_perm_spec_l loc p t :
  discharges_perm loc p t = true <->
  is_perm loc p = true /\ is_dis loc t = true /\ exists k, kid_of t = Some k /\ In k (tickets_of p).
Proof.
  unfold discharges_perm. rewrite !andb_true_iff. split.
  - intros [[Hp Hd] H]. split; [exact Hp|]. split; [exact Hd|]. destruct (kid_of t) as [k|]; [|discriminate].
    apply existsb_exists in H. destruct H as [k' [Hin E]]. apply N.eqb_eq in E. subst k'. now exists k.
  - intros [Hp [Hd [k [Hk Hin]]]]. split; [now split|]. rewrite Hk. apply existsb_exists. exists k. split; [exact Hin|apply N.eqb_refl].
Qed.
