(* C20: client credentials go only to the third party they were configured for.
   Proofs about Model/TPClient.v.  No axioms. *)
From Coq Require Import List Bool NArith String Lia Permutation.
From Mac Require Import Model.TPClient.
Import ListNotations.

(* ------------------------------------------------------------------ *)
(* Specification-side definitions (independent of the fold in new_client) *)

(* credential of the LAST [WithAuth h' cred] in [opts] with h' = h *)
Fixpoint last_auth (h : string) (opts : list copt) : option string :=
  match opts with
  | [] => None
  | o :: r =>
      match last_auth h r with
      | Some v => Some v
      | None =>
          match o with
          | WithAuth h' cred => if String.eqb h' h then Some cred else None
          | _ => None
          end
      end
  end.

(* id of the last [WithHTTP id], as an option *)
Fixpoint last_http_o (opts : list copt) : option N :=
  match opts with
  | [] => None
  | o :: r =>
      match last_http_o r with
      | Some i => Some i
      | None => match o with WithHTTP id => Some id | _ => None end
      end
  end.

(* id of the last [WithHTTP id]; 0 (library default transport) if there is none *)
Definition last_http (opts : list copt) : N :=
  match last_http_o opts with Some i => i | None => 0%N end.

(* concatenation of all [WithIgnored] lists, in order *)
Fixpoint all_ignored (opts : list copt) : list N :=
  match opts with
  | [] => []
  | WithIgnored l :: r => l ++ all_ignored r
  | _ :: r => all_ignored r
  end.

(* hosts of the [WithAuth] entries, in order *)
Fixpoint auth_hosts (opts : list copt) : list string :=
  match opts with
  | [] => []
  | WithAuth h _ :: r => h :: auth_hosts r
  | _ :: r => auth_hosts r
  end.

(* ------------------------------------------------------------------ *)
(* Helper lemmas on the specification functions *)

Lemma last_auth_app h a b :
  last_auth h (a ++ b) =
  match last_auth h b with Some v => Some v | None => last_auth h a end.
Proof.
  induction a as [|o r IH]; cbn [app last_auth].
  - destruct (last_auth h b); reflexivity.
  - rewrite IH. destruct (last_auth h b); reflexivity.
Qed.

Lemma last_auth_snoc h r o :
  last_auth h (r ++ [o]) =
  match o with
  | WithAuth h' cred => if String.eqb h' h then Some cred else last_auth h r
  | _ => last_auth h r
  end.
Proof.
  rewrite last_auth_app. cbn [last_auth].
  destruct o as [id|h' cred|l|]; try reflexivity.
  destruct (String.eqb h' h); reflexivity.
Qed.

Lemma last_auth_skip_http h id r : last_auth h (WithHTTP id :: r) = last_auth h r.
Proof. cbn [last_auth]. destruct (last_auth h r); reflexivity. Qed.

Lemma last_auth_insert_http h o1 id o2 :
  last_auth h (o1 ++ WithHTTP id :: o2) = last_auth h (o1 ++ o2).
Proof. rewrite !last_auth_app, last_auth_skip_http. reflexivity. Qed.

Lemma last_auth_In h opts v : last_auth h opts = Some v -> In (WithAuth h v) opts.
Proof.
  induction opts as [|o r IH]; cbn [last_auth]; intro E; [discriminate|].
  destruct (last_auth h r) as [w|].
  - right. apply IH. exact E.
  - destruct o as [id|h' cred|l|]; try discriminate.
    destruct (String.eqb h' h) eqn:Q; [|discriminate].
    apply String.eqb_eq in Q. injection E as E. subst. left. reflexivity.
Qed.

Lemma last_auth_None h opts : (forall v, ~ In (WithAuth h v) opts) -> last_auth h opts = None.
Proof.
  intro N. destruct (last_auth h opts) as [v|] eqn:E; [|reflexivity].
  exfalso. exact (N v (last_auth_In _ _ _ E)).
Qed.

Lemma In_auth_hosts h v opts : In (WithAuth h v) opts -> In h (auth_hosts opts).
Proof.
  induction opts as [|o r IH]; intro I; [contradiction|].
  destruct I as [E|I].
  - subst o. left. reflexivity.
  - specialize (IH I). destruct o; cbn [auth_hosts]; try exact IH. right. exact IH.
Qed.

(* with pairwise distinct hosts, "last" is the same as "the" *)
Lemma last_auth_nodup h v opts :
  NoDup (auth_hosts opts) -> In (WithAuth h v) opts -> last_auth h opts = Some v.
Proof.
  induction opts as [|o r IH]; intros ND I; [contradiction|].
  destruct I as [E|I].
  - subst o. cbn [auth_hosts] in ND. inversion ND as [|x l NI ND']. subst.
    cbn [last_auth]. rewrite last_auth_None.
    + rewrite String.eqb_refl. reflexivity.
    + intros w I. apply NI. exact (In_auth_hosts _ _ _ I).
  - assert (ND' : NoDup (auth_hosts r)).
    { destruct o; cbn [auth_hosts] in ND; try exact ND. inversion ND; assumption. }
    cbn [last_auth]. rewrite (IH ND' I). reflexivity.
Qed.

Lemma auth_hosts_perm opts opts' :
  Permutation opts opts' -> Permutation (auth_hosts opts) (auth_hosts opts').
Proof.
  induction 1 as [|x l l' P IH|x y l|l l' l'' P1 IH1 P2 IH2].
  - constructor.
  - destruct x; cbn [auth_hosts]; try exact IH. constructor. exact IH.
  - destruct x, y; cbn [auth_hosts]; try apply Permutation_refl. apply perm_swap.
  - eapply Permutation_trans; eassumption.
Qed.

Lemma last_auth_perm opts opts' :
  Permutation opts opts' -> NoDup (auth_hosts opts) ->
  forall h, last_auth h opts = last_auth h opts'.
Proof.
  intros P ND h.
  assert (ND' : NoDup (auth_hosts opts')).
  { eapply Permutation_NoDup; [apply auth_hosts_perm; exact P|exact ND]. }
  destruct (last_auth h opts) as [v|] eqn:E.
  - symmetry. apply last_auth_nodup; [exact ND'|].
    eapply Permutation_in; [exact P|]. apply last_auth_In. exact E.
  - destruct (last_auth h opts') as [w|] eqn:E'; [|reflexivity].
    apply last_auth_In in E'.
    apply (Permutation_in _ (Permutation_sym P)) in E'.
    rewrite (last_auth_nodup _ _ _ ND E') in E. discriminate.
Qed.

Lemma last_http_o_app a b :
  last_http_o (a ++ b) =
  match last_http_o b with Some i => Some i | None => last_http_o a end.
Proof.
  induction a as [|o r IH]; cbn [app last_http_o].
  - destruct (last_http_o b); reflexivity.
  - rewrite IH. destruct (last_http_o b); reflexivity.
Qed.

Lemma last_http_snoc r o :
  last_http (r ++ [o]) = match o with WithHTTP id => id | _ => last_http r end.
Proof.
  unfold last_http. rewrite last_http_o_app. cbn [last_http_o].
  destruct o; reflexivity.
Qed.

Lemma all_ignored_app a b : all_ignored (a ++ b) = all_ignored a ++ all_ignored b.
Proof.
  induction a as [|o r IH]; [reflexivity|].
  destruct o as [id|h' cred|l|]; cbn [app all_ignored]; try exact IH.
  rewrite IH, app_assoc. reflexivity.
Qed.

(* ------------------------------------------------------------------ *)
(* The fold *)

Lemma new_client_snoc opts o : new_client (opts ++ [o]) = apply_opt (new_client opts) o.
Proof. unfold new_client. rewrite fold_left_app. reflexivity. Qed.

(* invariant, generalised over the start state *)
Lemma auth_empty_fold opts : forall c,
  (c_authed c = false -> c_auth c = []) ->
  c_authed (fold_left apply_opt opts c) = false -> c_auth (fold_left apply_opt opts c) = [].
Proof.
  induction opts as [|o r IH]; intros c Hc; cbn [fold_left]; [exact Hc|].
  apply IH. destruct o as [id|h' cred|l|]; cbn [apply_opt c_authed c_auth]; try exact Hc.
  destruct (c_authed c); cbn [c_authed]; intro D; discriminate.
Qed.

Lemma auth_empty_when_not_authed opts :
  c_authed (new_client opts) = false -> c_auth (new_client opts) = [].
Proof. unfold new_client. apply auth_empty_fold. reflexivity. Qed.

Lemma lookup_spec opts h :
  (if c_authed (new_client opts) then lookup_cred h (c_auth (new_client opts)) else None)
  = last_auth h opts.
Proof.
  induction opts as [|o r IH] using rev_ind; [reflexivity|].
  rewrite new_client_snoc, last_auth_snoc.
  destruct o as [id|h' cred|l|]; cbn [apply_opt c_authed c_auth]; try exact IH.
  revert IH. destruct (c_authed (new_client r)); intro IH;
    cbn [c_authed c_auth lookup_cred].
  - rewrite IH. reflexivity.
  - rewrite <- IH. reflexivity.
Qed.

Lemma attached_spec_l opts h :
  attached (new_client opts) h =
  match last_auth h opts with
  | Some v => if String.eqb v EmptyString then None else Some v
  | None => None
  end.
Proof.
  rewrite <- lookup_spec. unfold attached.
  destruct (c_authed (new_client opts)); reflexivity.
Qed.

Lemma base_spec_l opts : c_base (new_client opts) = last_http opts.
Proof.
  induction opts as [|o r IH] using rev_ind; [reflexivity|].
  rewrite new_client_snoc, last_http_snoc.
  destruct o as [id|h' cred|l|]; cbn [apply_opt c_base]; try exact IH; try reflexivity.
  destruct (c_authed (new_client r)); cbn [c_base]; exact IH.
Qed.

Lemma ignored_spec_l opts : c_ignored (new_client opts) = all_ignored opts.
Proof.
  induction opts as [|o r IH] using rev_ind; [reflexivity|].
  rewrite new_client_snoc, all_ignored_app.
  destruct o as [id|h' cred|l|]; cbn [apply_opt c_ignored all_ignored];
    rewrite ?app_nil_r; try exact IH.
  - destruct (c_authed (new_client r)); cbn [c_ignored]; exact IH.
  - rewrite IH. reflexivity.
Qed.

(* ------------------------------------------------------------------ *)
(* Consequences *)

Lemma with_http_insert_keeps_auth_l o1 o2 id h :
  attached (new_client (o1 ++ WithHTTP id :: o2)) h = attached (new_client (o1 ++ o2)) h.
Proof. rewrite !attached_spec_l, last_auth_insert_http. reflexivity. Qed.

Lemma with_http_keeps_auth_l opts id h :
  attached (new_client (opts ++ [WithHTTP id])) h = attached (new_client opts) h.
Proof.
  rewrite (with_http_insert_keeps_auth_l opts [] id h), app_nil_r. reflexivity.
Qed.

Lemma cred_only_exact_host_l opts h v :
  attached (new_client opts) h = Some v -> In (WithAuth h v) opts /\ v <> EmptyString.
Proof.
  rewrite attached_spec_l.
  destruct (last_auth h opts) as [w|] eqn:E; [|discriminate].
  destruct (String.eqb w EmptyString) eqn:Q; [discriminate|].
  intro S. injection S as S. subst w. split.
  - apply last_auth_In. exact E.
  - apply String.eqb_neq. exact Q.
Qed.

Lemma no_cred_unconfigured_l opts h :
  (forall v, ~ In (WithAuth h v) opts) -> attached (new_client opts) h = None.
Proof. intro N. rewrite attached_spec_l, (last_auth_None _ _ N). reflexivity. Qed.

Lemma options_order_irrelevant_l opts opts' :
  (forall h, last_auth h opts = last_auth h opts') ->
  forall h, attached (new_client opts) h = attached (new_client opts') h.
Proof. intros E h. rewrite !attached_spec_l, E. reflexivity. Qed.

Lemma perm_distinct_hosts_l opts opts' :
  Permutation opts opts' -> NoDup (auth_hosts opts) ->
  forall h, attached (new_client opts) h = attached (new_client opts') h.
Proof.
  intros P ND. apply options_order_irrelevant_l. apply last_auth_perm; assumption.
Qed.

(* decomposition of membership in fetch_requests *)
Lemma fetch_requests_In c tps b h a :
  In (b, h, a) (fetch_requests c tps) ->
  exists t, In t tps /\ ~ In (tp_id t) (c_ignored c) /\ (0 < tp_tickets t)%nat /\
            In h (flow_hosts (tp_host t) (tp_reply t)) /\
            b = c_base c /\ a = attached c h.
Proof.
  unfold fetch_requests, contacted. intro I.
  apply in_flat_map in I. destruct I as [t [It I]].
  apply filter_In in It. destruct It as [It Ig].
  apply in_flat_map in I. destruct I as [u [Iu I]].
  apply in_map_iff in I. destruct I as [h0 [E Ih]].
  injection E as E1 E2 E3. subst h0.
  exists t. repeat split; try assumption; try (symmetry; assumption).
  - intro J. apply negb_true_iff in Ig.
    assert (X : existsb (N.eqb (tp_id t)) (c_ignored c) = true).
    { apply existsb_exists. exists (tp_id t). split; [exact J|apply N.eqb_refl]. }
    rewrite X in Ig. discriminate.
  - destruct (tp_tickets t); [contradiction|lia].
Qed.

Lemma requests_carry_right_cred_l opts tps b h a :
  In (b, h, a) (fetch_requests (new_client opts) tps) ->
  b = last_http opts /\ a = attached (new_client opts) h.
Proof.
  intro I. apply fetch_requests_In in I.
  destruct I as [t [_ [_ [_ [_ [Eb Ea]]]]]].
  rewrite base_spec_l in Eb. split; assumption.
Qed.

Lemma request_hosts_l opts tps b h a :
  In (b, h, a) (fetch_requests (new_client opts) tps) ->
  exists t, In t tps /\ ~ In (tp_id t) (all_ignored opts) /\ (0 < tp_tickets t)%nat /\
            In h (flow_hosts (tp_host t) (tp_reply t)).
Proof.
  intro I. apply fetch_requests_In in I.
  destruct I as [t [It [Ig [Tk [Ih _]]]]].
  rewrite ignored_spec_l in Ig. exists t. repeat split; assumption.
Qed.

Lemma leak_free_l opts tps b h v :
  In (b, h, Some v) (fetch_requests (new_client opts) tps) -> In (WithAuth h v) opts.
Proof.
  intro I. apply requests_carry_right_cred_l in I. destruct I as [_ Ea].
  symmetry in Ea. apply cred_only_exact_host_l in Ea. tauto.
Qed.

Lemma flow_hosts_first_l cur r : exists rest, flow_hosts cur r = cur :: rest.
Proof. destruct r; eexists; reflexivity. Qed.

(* ------------------------------------------------------------------ *)
Print Assumptions auth_empty_when_not_authed.
Print Assumptions lookup_spec.
Print Assumptions attached_spec_l.
Print Assumptions base_spec_l.
Print Assumptions ignored_spec_l.
Print Assumptions with_http_keeps_auth_l.
Print Assumptions with_http_insert_keeps_auth_l.
Print Assumptions cred_only_exact_host_l.
Print Assumptions no_cred_unconfigured_l.
Print Assumptions options_order_irrelevant_l.
Print Assumptions perm_distinct_hosts_l.
Print Assumptions requests_carry_right_cred_l.
Print Assumptions request_hosts_l.
Print Assumptions leak_free_l.
Print Assumptions flow_hosts_first_l.
