(* C14: the verification cache is transparent.

   IMPORTANT remarks on the statements (details at the lemmas):

   (R1) [vt_matching_only] exactly as requested quantifies over ALL bundles and ALL [mac]s.
        Because a [vtable] is a finite list matched on the exact list of presented discharge ids,
        that hypothesis holds ONLY for the empty table ([vt_matching_only_iff_nil]).  The lemmas
        with the requested names are proved from it, but they are vacuous for every real table.
        The meaningful results are the [_on] versions, relativised to a domain
        [D : bundle -> mac -> Prop] of (bundle, permission token) queries; the hypothesis actually
        needed is [vt_key_sound D vt] (two queries of the domain with the same cache key have the
        same table answer), which follows from "identity determines tickets" ([id_det]) plus
        "the answer depends only on the sorted matching discharges" ([vt_matching_only_on]).
        For whole runs the domain can be taken to be exactly the queries the run makes
        ([queried T ops]), a finite, decidable condition on a concrete scenario.

   (R2) [run_transparent_l] as requested is FALSE: [BVerifyCached b f] with a cache id [f] that was
        never created by [CNew] is a no-op in [bstep], while [BVerify b] verifies the bundle
        ([run_transparent_l_false]).  The true variants ([run_transparent_l_partial],
        [run_transparent_on], [run_transparent_queried]) require that every cached verification
        names an existing cache ([declared [] ops = true], or semantically [step_has_cache]). *)
From Coq Require Import List Bool NArith ZArith Lia.
From Mac Require Import Model.BundleM Model.BundleOps.
Import ListNotations.
Local Open Scope N_scope.

(* ------------------------------------------------------------------ basic list facts *)

Lemma list_N_eqb_eq a b : list_N_eqb a b = true <-> a = b.
Proof.
  revert b; induction a as [|x a IH]; intros [|y b]; cbn [list_N_eqb]; split; intro H;
    try congruence.
  - apply andb_true_iff in H as [H1 H2]. apply N.eqb_eq in H1. apply IH in H2. congruence.
  - inversion H; subst. apply andb_true_iff; split; [apply N.eqb_refl | apply IH; reflexivity].
Qed.

Lemma list_N_eqb_refl a : list_N_eqb a a = true.
Proof. apply list_N_eqb_eq; reflexivity. Qed.

Lemma In_firstn_in {A} n (l : list A) x : In x (firstn n l) -> In x l.
Proof.
  revert l; induction n as [|n IH]; intros [|y l] H; cbn [firstn] in H; try contradiction.
  destruct H as [->|H]; [left; reflexivity | right; apply IH, H].
Qed.

Lemma firstn_len_app {A} (l r : list A) : firstn (List.length l) (l ++ r) = l.
Proof. induction l as [|x l IH]; cbn [List.length firstn app]; [destruct r|rewrite IH]; reflexivity. Qed.

(* ------------------------------------------------------------------ definitions *)

(* requested, verbatim *)
Definition vt_matching_only (vt : vtable) : Prop :=
  forall b b' m, sort_ids (matching b m) = sort_ids (matching b' m) ->
    vlookup vt (m_id m) (all_dis_ids b) = vlookup vt (m_id m) (all_dis_ids b').

Definition cache_ok (vt : vtable) (c : cache) : Prop :=
  forall e, In e (c_entries c) ->
    forall b m, cache_key b m = ce_key e ->
      vlookup vt (m_id m) (all_dis_ids b) = VRes (Some (ce_cs e)).

(* relativised to a domain of queries (bundle, permission token) *)
Definition qdom := bundle -> mac -> Prop.

Definition vt_key_sound (D : qdom) (vt : vtable) : Prop :=
  forall b b' m m', D b m -> D b' m' -> cache_key b m = cache_key b' m' ->
    vlookup vt (m_id m) (all_dis_ids b) = vlookup vt (m_id m') (all_dis_ids b').

Definition id_det (D : qdom) : Prop :=
  forall b b' m m', D b m -> D b' m' -> m_id m = m_id m' -> m_tickets m = m_tickets m'.

Definition vt_matching_only_on (D : qdom) (vt : vtable) : Prop :=
  forall b b' m m', D b m -> D b' m' -> m_id m = m_id m' -> m_tickets m = m_tickets m' ->
    sort_ids (matching b m) = sort_ids (matching b' m) ->
    vlookup vt (m_id m) (all_dis_ids b) = vlookup vt (m_id m) (all_dis_ids b').

Definition entry_ok (D : qdom) (vt : vtable) (e : centry) : Prop :=
  forall b m, D b m -> cache_key b m = ce_key e ->
    vlookup vt (m_id m) (all_dis_ids b) = VRes (Some (ce_cs e)).

Definition cache_ok_on (D : qdom) (vt : vtable) (c : cache) : Prop :=
  forall e, In e (c_entries c) -> entry_ok D vt e.

(* the permission tokens of [ts] (as seen from bundle [b]) are queries of the domain *)
Definition toks_in (D : qdom) (b : bundle) (ts : list tok) : Prop :=
  forall t m, In t ts -> is_perm (b_loc b) t = true -> tok_mac t = Some m -> D b m.
Definition perms_in (D : qdom) (b : bundle) : Prop := toks_in D b (b_ts b).

Definition Dall : qdom := fun _ _ => True.

Lemma cache_ok_iff vt c : cache_ok vt c <-> cache_ok_on Dall vt c.
Proof.
  unfold cache_ok, cache_ok_on, entry_ok, Dall; split; intros H e He b m.
  - intros _ K. exact (H e He b m K).
  - intro K. exact (H e He b m I K).
Qed.

(* ------------------------------------------------------------------ the cache key *)

Lemma cache_key_inj_l b m b' m' :
  cache_key b m = cache_key b' m' ->
  m_id m = m_id m' /\ sort_ids (matching b m) = sort_ids (matching b' m').
Proof.
  unfold cache_key; intro H. apply app_inj_tail in H as [H1 H2]. split; assumption.
Qed.

Lemma matching_tickets b m m' : m_tickets m = m_tickets m' -> matching b m = matching b m'.
Proof. unfold matching; intros ->; reflexivity. Qed.

Lemma key_sound_of_matching_only (D : qdom) vt :
  id_det D -> vt_matching_only_on D vt -> vt_key_sound D vt.
Proof.
  intros Hid Hm b b' m m' Dm Dm' K.
  apply cache_key_inj_l in K as [Kid Ks].
  pose proof (Hid _ _ _ _ Dm Dm' Kid) as Ht.
  rewrite <- (matching_tickets b' m m' Ht) in Ks.
  rewrite (Hm b b' m m' Dm Dm' Kid Ht Ks). rewrite Kid. reflexivity.
Qed.

(* ------------------------------------------------------------------ (R1): the literal hypothesis *)

Definition dis_bundle (ds : list N) : bundle := mkB 0 (map (fun i => TUnv (mkMac i 1 0 [])) ds).

Lemma all_dis_ids_dis_bundle ds : all_dis_ids (dis_bundle ds) = ds.
Proof.
  unfold all_dis_ids, dis_bundle; cbn [b_loc b_ts].
  induction ds as [|d ds IH]; [reflexivity|].
  cbn [map filter]. unfold is_dis at 1. cbn [tok_mac m_loc]. change (1 =? 0) with false.
  cbn [negb map tok_id m_id]. rewrite IH. reflexivity.
Qed.

Lemma vt_matching_only_const vt :
  vt_matching_only vt -> forall p ds ds', vlookup vt p ds = vlookup vt p ds'.
Proof.
  intros H p ds ds'.
  pose proof (H (dis_bundle ds) (dis_bundle ds') (mkMac p 0 0 []) eq_refl) as E.
  cbn [m_id] in E. rewrite !all_dis_ids_dis_bundle in E. exact E.
Qed.

Lemma list_N_eqb_length a b : list_N_eqb a b = true -> List.length a = List.length b.
Proof. intro H; apply list_N_eqb_eq in H; subst; reflexivity. Qed.

Lemma vlookup_long_missing vt p :
  exists n, forall ds, (n <= List.length ds)%nat -> vlookup vt p ds = VMissing.
Proof.
  induction vt as [|[[p' d'] r] vt [n IH]].
  - exists 0%nat; reflexivity.
  - exists (Nat.max (S (List.length d')) n); intros ds Hn. cbn [vlookup].
    destruct (list_N_eqb d' ds) eqn:E.
    + apply list_N_eqb_length in E. lia.
    + rewrite andb_false_r. apply IH. lia.
Qed.

Lemma vt_matching_only_iff_nil vt : vt_matching_only vt <-> vt = [].
Proof.
  split.
  - intro H. destruct vt as [|[[p d] r] vt]; [reflexivity|exfalso].
    destruct (vlookup_long_missing ((p, d, r) :: vt) p) as [n Hn].
    pose proof (vt_matching_only_const _ H p d (repeat 0 n)) as E.
    rewrite (Hn (repeat 0 n)) in E by (rewrite repeat_length; lia).
    cbn [vlookup] in E. rewrite N.eqb_refl, list_N_eqb_refl in E. discriminate E.
  - intros -> b b' m _. reflexivity.
Qed.

Lemma key_sound_of_literal vt : vt_matching_only vt -> vt_key_sound Dall vt.
Proof.
  intros H b b' m m' _ _ K. apply cache_key_inj_l in K as [Kid _].
  rewrite Kid. apply vt_matching_only_const, H.
Qed.

(* ------------------------------------------------------------------ cfind / cremove *)

Lemma cfind_some k l e : cfind k l = Some e -> In e l /\ ce_key e = k.
Proof.
  induction l as [|x l IH]; cbn [cfind]; intro H; [discriminate|].
  destruct (list_N_eqb (ce_key x) k) eqn:E.
  - inversion H; subst. split; [left; reflexivity | apply list_N_eqb_eq, E].
  - destruct (IH H) as [H1 H2]. split; [right|]; assumption.
Qed.

Lemma cremove_In k l e : In e (cremove k l) -> In e l.
Proof. unfold cremove; intro H; apply filter_In in H; tauto. Qed.

Lemma cremove_length k l : (List.length (cremove k l) <= List.length l)%nat.
Proof.
  unfold cremove; induction l as [|x l IH]; cbn [filter List.length]; [lia|].
  destruct (negb _); cbn [List.length]; lia.
Qed.

Lemma cfind_cremove_length k l e :
  cfind k l = Some e -> (S (List.length (cremove k l)) <= List.length l)%nat.
Proof.
  unfold cremove; induction l as [|x l IH]; cbn [cfind filter List.length]; intro H; [discriminate|].
  destruct (list_N_eqb (ce_key x) k) eqn:E; cbn [negb List.length].
  - pose proof (cremove_length k l) as L. unfold cremove in L. lia.
  - apply IH in H. lia.
Qed.

Lemma cache_get_In c k c' h e :
  cache_get c k = (c', h) -> In e (c_entries c') -> In e (c_entries c).
Proof.
  unfold cache_get; destruct (cfind k (c_entries c)) as [e0|] eqn:F; intros E He; inversion E; subst; auto.
  cbn [c_entries] in He. destruct He as [<-|He]; [apply (cfind_some _ _ _ F) | eapply cremove_In, He].
Qed.

Lemma cache_add_In c k cs e :
  In e (c_entries (cache_add c k cs)) -> e = mkCE k cs \/ In e (c_entries c).
Proof.
  unfold cache_add; cbn [c_entries]; intro H. apply In_firstn_in in H.
  destruct H as [<-|H]; [left; reflexivity | right; eapply cremove_In, H].
Qed.

(* ------------------------------------------------------------------ hits *)

Lemma hit_only_identical_l c k c' cs :
  cache_get c k = (c', Some cs) ->
  exists e, In e (c_entries c) /\ ce_key e = k /\ ce_cs e = cs /\ c_live c = true.
Proof.
  unfold cache_get; destruct (cfind k (c_entries c)) as [e|] eqn:F; intro E; [|discriminate].
  destruct (c_live c) eqn:L; inversion E; subst.
  destruct (cfind_some _ _ _ F) as [H1 H2]. exists e; auto.
Qed.

Lemma expired_not_used_l c k : c_live c = false -> snd (cache_get c k) = None.
Proof.
  unfold cache_get; intro L; destruct (cfind k (c_entries c)); cbn [snd]; [rewrite L|]; reflexivity.
Qed.

(* ------------------------------------------------------------------ capacity *)

Lemma cap_respected_l c k cs : (List.length (c_entries (cache_add c k cs)) <= c_cap c)%nat.
Proof. unfold cache_add; cbn [c_entries]. apply firstn_le_length. Qed.

Lemma cache_add_cap c k cs : c_cap (cache_add c k cs) = c_cap c.
Proof. reflexivity. Qed.

Lemma cache_get_no_grow_l c k :
  (List.length (c_entries (fst (cache_get c k))) <= List.length (c_entries c))%nat /\
  c_cap (fst (cache_get c k)) = c_cap c.
Proof.
  unfold cache_get; destruct (cfind k (c_entries c)) as [e|] eqn:F; cbn [fst c_entries c_cap List.length].
  - split; [apply (cfind_cremove_length _ _ _ F) | reflexivity].
  - split; [lia | reflexivity].
Qed.

(* ------------------------------------------------------------------ cache_ok preservation *)

Section On.
Variable D : qdom.
Variable vt : vtable.

Lemma cache_ok_on_empty cap live : cache_ok_on D vt (mkCache cap live []).
Proof. intros e He; destruct He. Qed.

Lemma cache_get_ok_on c k c' h :
  cache_ok_on D vt c -> cache_get c k = (c', h) ->
  cache_ok_on D vt c' /\
  (forall b m cs, D b m -> k = cache_key b m -> h = Some cs ->
     vlookup vt (m_id m) (all_dis_ids b) = VRes (Some cs)).
Proof.
  intros Hc E; split.
  - intros e He. apply Hc. eapply cache_get_In; eassumption.
  - intros b m cs Dm -> ->. apply hit_only_identical_l in E as (e & He & Hk & Hcs & _).
    subst cs. apply (Hc e He b m Dm). symmetry; exact Hk.
Qed.

Lemma cache_add_ok_on c b m cs :
  vt_key_sound D vt -> D b m -> cache_ok_on D vt c ->
  vlookup vt (m_id m) (all_dis_ids b) = VRes (Some cs) ->
  cache_ok_on D vt (cache_add c (cache_key b m) cs).
Proof.
  intros KS Dm Hc Hv e He. apply cache_add_In in He as [->|He]; [|apply Hc, He].
  intros b' m' Dm' K; cbn [ce_key ce_cs] in *. rewrite <- Hv. apply KS; assumption.
Qed.

(* ------------------------------------------------------------------ verify_tok *)

Lemma verify_tok_hit b t m cs :
  is_perm (b_loc b) t = true -> tok_mac t = Some m ->
  vlookup vt (m_id m) (all_dis_ids b) = VRes (Some cs) -> verify_tok vt b t = TVer m cs.
Proof. intros P M V; unfold verify_tok; rewrite P, M, V; reflexivity. Qed.

Lemma verify_tok_TVer b t m m' cs :
  is_perm (b_loc b) t = true -> tok_mac t = Some m -> verify_tok vt b t = TVer m' cs ->
  m' = m /\ vlookup vt (m_id m) (all_dis_ids b) = VRes (Some cs).
Proof.
  intros P M; unfold verify_tok; rewrite P, M.
  destruct (vlookup vt (m_id m) (all_dis_ids b)) as [|[cs0|]]; intro E; inversion E; subst; auto.
Qed.

Lemma verify_tok_nonperm b t : is_perm (b_loc b) t = false -> verify_tok vt b t = t.
Proof. intros P; unfold verify_tok; rewrite P; reflexivity. Qed.

Lemma verify_tok_nomac b t : tok_mac t = None -> verify_tok vt b t = t.
Proof. intros M; unfold verify_tok; rewrite M; destruct (is_perm (b_loc b) t); reflexivity. Qed.

(* ------------------------------------------------------------------ phase 1: look-ups *)

Definition hit_ok (b : bundle) (p : tok * option N) : Prop :=
  forall m cs, is_perm (b_loc b) (fst p) = true -> tok_mac (fst p) = Some m -> snd p = Some cs ->
    vlookup vt (m_id m) (all_dis_ids b) = VRes (Some cs).

Lemma hit_ok_none b t : hit_ok b (t, None).
Proof. intros m cs _ _ E; discriminate E. Qed.

Lemma toks_in_cons b t ts : toks_in D b (t :: ts) -> toks_in D b ts.
Proof. intros H t0 m I; apply H; right; exact I. Qed.

Lemma clookup_all_ok b ts : forall c l c1,
  cache_ok_on D vt c -> toks_in D b ts -> clookup_all b ts c = (l, c1) ->
  map fst l = ts /\ Forall (hit_ok b) l /\ cache_ok_on D vt c1.
Proof.
  induction ts as [|t r IH]; intros c l c1 Hc Hin E; cbn [clookup_all] in E.
  - inversion E; subst. auto.
  - pose proof (toks_in_cons _ _ _ Hin) as Hin'.
    destruct (is_perm (b_loc b) t) eqn:P; [destruct (tok_mac t) as [m|] eqn:M|].
    + destruct (cache_get c (cache_key b m)) as [c0 hit] eqn:G.
      destruct (clookup_all b r c0) as [rest c2] eqn:R. inversion E; subst.
      destruct (cache_get_ok_on _ _ _ _ Hc G) as [Hc0 Hhit].
      destruct (IH _ _ _ Hc0 Hin' R) as (H1 & H2 & H3).
      split; [cbn [map fst]; rewrite H1; reflexivity|]. split; [|exact H3].
      constructor; [|exact H2]. intros m0 cs _ M0 Hs; cbn [fst snd] in *.
      rewrite M in M0; inversion M0; subst m0.
      apply (Hhit b m cs); auto. apply (Hin t m); auto. left; reflexivity.
    + destruct (clookup_all b r c) as [rest c2] eqn:R. inversion E; subst.
      destruct (IH _ _ _ Hc Hin' R) as (H1 & H2 & H3).
      split; [cbn [map fst]; rewrite H1; reflexivity|]. split; [|exact H3].
      constructor; [apply hit_ok_none | exact H2].
    + destruct (clookup_all b r c) as [rest c2] eqn:R. inversion E; subst.
      destruct (IH _ _ _ Hc Hin' R) as (H1 & H2 & H3).
      split; [cbn [map fst]; rewrite H1; reflexivity|]. split; [|exact H3].
      constructor; [apply hit_ok_none | exact H2].
Qed.

(* ------------------------------------------------------------------ phase 2: misses go to the table *)

Lemma cfill_ok b (KS : vt_key_sound D vt) l : forall c ts' c' lg,
  cache_ok_on D vt c -> toks_in D b (map fst l) -> Forall (hit_ok b) l ->
  cfill vt b l c = (ts', c', lg) ->
  ts' = map (verify_tok vt b) (map fst l) /\ cache_ok_on D vt c'.
Proof.
  induction l as [|[t hit] r IH]; intros c ts' c' lg Hc Hin Hh E; cbn [cfill] in E.
  - inversion E; subst; auto.
  - cbn [map fst] in *. pose proof (toks_in_cons _ _ _ Hin) as Hin'.
    inversion Hh as [|? ? Hh1 Hh2]; subst.
    destruct (is_perm (b_loc b) t) eqn:P; [destruct (tok_mac t) as [m|] eqn:M; [destruct hit as [cs|]|]|].
    + destruct (cfill vt b r c) as [[ts0 c0] lg0] eqn:R. inversion E; subst.
      destruct (IH _ _ _ _ Hc Hin' Hh2 R) as [H1 H2]. split; [|exact H2].
      rewrite (verify_tok_hit b t m cs P M (Hh1 m cs P M eq_refl)), H1. reflexivity.
    + match type of E with context [cfill vt b r ?c1] =>
        assert (Hc1 : cache_ok_on D vt c1) end.
      { destruct (verify_tok vt b t) as [| | |m' cs|] eqn:V; try exact Hc.
        destruct (verify_tok_TVer b t m m' cs P M V) as [-> Hv].
        apply cache_add_ok_on; auto. apply (Hin t m); auto. left; reflexivity. }
      destruct (cfill vt b r _) as [[ts0 c0] lg0] eqn:R. inversion E; subst.
      destruct (IH _ _ _ _ Hc1 Hin' Hh2 R) as [H1 H2]. split; [|exact H2].
      rewrite H1; reflexivity.
    + destruct (cfill vt b r c) as [[ts0 c0] lg0] eqn:R. inversion E; subst.
      destruct (IH _ _ _ _ Hc Hin' Hh2 R) as [H1 H2]. split; [|exact H2].
      rewrite (verify_tok_nomac b t M), H1. reflexivity.
    + destruct (cfill vt b r c) as [[ts0 c0] lg0] eqn:R. inversion E; subst.
      destruct (IH _ _ _ _ Hc Hin' Hh2 R) as [H1 H2]. split; [|exact H2].
      rewrite (verify_tok_nonperm b t P), H1. reflexivity.
Qed.

(* generalised over the suffix [ts] of the bundle's tokens *)
Lemma cverify_list_ok b ts c ts' c' lg :
  vt_key_sound D vt -> cache_ok_on D vt c -> toks_in D b ts ->
  cverify_list vt b ts c = (ts', c', lg) ->
  ts' = map (verify_tok vt b) ts /\ cache_ok_on D vt c'.
Proof.
  intros KS Hc Hin E; unfold cverify_list in E.
  destruct (clookup_all b ts c) as [l c1] eqn:L.
  destruct (clookup_all_ok _ _ _ _ _ Hc Hin L) as (H1 & H2 & H3).
  rewrite <- H1 in Hin |- *. eapply cfill_ok; eassumption.
Qed.

Lemma cverify_transparent_on b c ts' c' lg :
  vt_key_sound D vt -> cache_ok_on D vt c -> perms_in D b ->
  cverify_list vt b (b_ts b) c = (ts', c', lg) ->
  ts' = map (verify_tok vt b) (b_ts b) /\ cache_ok_on D vt c'.
Proof. apply cverify_list_ok. Qed.

End On.

(* ------------------------------------------------------------------ requested names (literal hypothesis, see R1) *)

Lemma cache_ok_empty vt cap live : cache_ok vt (mkCache cap live []).
Proof. intros e He; destruct He. Qed.

Lemma cache_get_ok_l vt c k :
  cache_ok vt c ->
  cache_ok vt (fst (cache_get c k)) /\
  (forall b m cs, k = cache_key b m -> snd (cache_get c k) = Some cs ->
     vlookup vt (m_id m) (all_dis_ids b) = VRes (Some cs)).
Proof.
  intro Hc. destruct (cache_get c k) as [c' h] eqn:G; cbn [fst snd].
  apply cache_ok_iff in Hc. destruct (cache_get_ok_on Dall vt c k c' h Hc G) as [H1 H2].
  split; [apply cache_ok_iff, H1 | intros b m cs; apply H2; exact I].
Qed.

Lemma cache_add_ok_l vt c b m cs :
  vt_matching_only vt -> cache_ok vt c ->
  vlookup vt (m_id m) (all_dis_ids b) = VRes (Some cs) ->
  cache_ok vt (cache_add c (cache_key b m) cs).
Proof.
  intros H Hc Hv. apply cache_ok_iff. apply cache_add_ok_on; auto.
  - apply key_sound_of_literal, H.
  - exact I.
  - apply cache_ok_iff, Hc.
Qed.

Lemma toks_in_all b ts : toks_in Dall b ts.
Proof. intros t m _ _ _; exact I. Qed.

Lemma cverify_transparent_l vt b c ts' c' lg :
  vt_matching_only vt -> cache_ok vt c ->
  cverify_list vt b (b_ts b) c = (ts', c', lg) ->
  ts' = map (verify_tok vt b) (b_ts b) /\ cache_ok vt c'.
Proof.
  intros H Hc E. apply cache_ok_iff in Hc.
  destruct (cverify_transparent_on Dall vt b c ts' c' lg (key_sound_of_literal vt H) Hc
              (toks_in_all b _) E) as [H1 H2].
  split; [exact H1 | apply cache_ok_iff, H2].
Qed.

(* ------------------------------------------------------------------ failures are never cached *)

(* one token of phase 2: if direct verification does not accept it, the cache is untouched by it *)
Lemma failures_not_cached_l vt b t hit r c :
  (forall m cs, verify_tok vt b t <> TVer m cs) ->
  snd (fst (cfill vt b ((t, hit) :: r) c)) = snd (fst (cfill vt b r c)).
Proof.
  intro NV; cbn [cfill].
  destruct (is_perm (b_loc b) t); [destruct (tok_mac t) as [m|]; [destruct hit as [cs|]|]|].
  - destruct (cfill vt b r c) as [[ts0 c0] lg0]; reflexivity.
  - destruct (verify_tok vt b t) as [| | |m' cs|] eqn:V;
      try (destruct (cfill vt b r c) as [[ts0 c0] lg0]; reflexivity).
    exfalso; exact (NV m' cs eq_refl).
  - destruct (cfill vt b r c) as [[ts0 c0] lg0]; reflexivity.
  - destruct (cfill vt b r c) as [[ts0 c0] lg0]; reflexivity.
Qed.

(* whole phase 2: every entry of the final cache is an old entry or the accepted (TVer) result of a
   missed permission token of this bundle, stored under that token's key *)
Lemma cfill_entries_l vt b l : forall c ts' c' lg,
  cfill vt b l c = (ts', c', lg) ->
  forall e, In e (c_entries c') ->
    In e (c_entries c) \/
    exists t m, In (t, None) l /\ is_perm (b_loc b) t = true /\ tok_mac t = Some m /\
                verify_tok vt b t = TVer m (ce_cs e) /\ ce_key e = cache_key b m.
Proof.
  induction l as [|[t hit] r IH]; intros c ts' c' lg E e He; cbn [cfill] in E.
  - inversion E; subst; auto.
  - assert (Lift : forall c1, In e (c_entries c1) \/
              (exists t0 m, In (t0, None) r /\ is_perm (b_loc b) t0 = true /\ tok_mac t0 = Some m /\
                 verify_tok vt b t0 = TVer m (ce_cs e) /\ ce_key e = cache_key b m) ->
              (In e (c_entries c1) -> In e (c_entries c) \/
                 exists t0 m, In (t0, None) ((t, hit) :: r) /\ is_perm (b_loc b) t0 = true /\
                   tok_mac t0 = Some m /\ verify_tok vt b t0 = TVer m (ce_cs e) /\
                   ce_key e = cache_key b m) ->
              In e (c_entries c) \/
              exists t0 m, In (t0, None) ((t, hit) :: r) /\ is_perm (b_loc b) t0 = true /\
                tok_mac t0 = Some m /\ verify_tok vt b t0 = TVer m (ce_cs e) /\
                ce_key e = cache_key b m).
    { intros c1 [H|(t0 & m0 & H1 & H2)] K; [exact (K H)|].
      right; exists t0, m0; split; [right; exact H1 | exact H2]. }
    destruct (is_perm (b_loc b) t) eqn:P; [destruct (tok_mac t) as [m|] eqn:M; [destruct hit as [cs|]|]|].
    + destruct (cfill vt b r c) as [[ts0 c0] lg0] eqn:R. inversion E; subst.
      apply (Lift c (IH _ _ _ _ R e He)); auto.
    + destruct (cfill vt b r _) as [[ts0 c0] lg0] eqn:R in E. inversion E; subst.
      apply (Lift _ (IH _ _ _ _ R e He)). intro H.
      destruct (verify_tok vt b t) as [| | |m' cs|] eqn:V; auto.
      apply cache_add_In in H as [->|H]; auto.
      destruct (verify_tok_TVer vt b t m m' cs P M V) as [-> _].
      right; exists t, m; cbn [ce_cs ce_key]. repeat split; auto. left; reflexivity.
    + destruct (cfill vt b r c) as [[ts0 c0] lg0] eqn:R. inversion E; subst.
      apply (Lift c (IH _ _ _ _ R e He)); auto.
    + destruct (cfill vt b r c) as [[ts0 c0] lg0] eqn:R. inversion E; subst.
      apply (Lift c (IH _ _ _ _ R e He)); auto.
Qed.

(* ------------------------------------------------------------------ whole-run transparency *)

Definition erase (o : bop) : bop :=
  match o with BVerifyCached b _ => BVerify b | _ => o end.

(* drop the inner-verifier log of a cached verification: keep the first 1 + n numbers ([zl vs]) *)
Definition proj (o : bop) (ob : list Z) : list Z :=
  match o with
  | BVerifyCached _ _ => match ob with [] => [] | n :: r => n :: firstn (Z.to_nat n) r end
  | _ => ob
  end.

Fixpoint map2 {A B C} (f : A -> B -> C) (la : list A) (lb : list B) : list C :=
  match la, lb with a :: ra, b :: rb => f a b :: map2 f ra rb | _, _ => [] end.

(* (R2) the requested statement is false: a cached verification through a cache that does not exist *)
Example run_transparent_l_false :
  let T := mkTab [] [] [] [] in
  let ops := [BParseAll 0 [TUnv (mkMac 1 0 0 [])]; BVerifyCached 0 7] in
  vt_matching_only (t_v T) /\
  map2 proj ops (run_bundle T ops) = [[1%Z]; []] /\
  run_bundle T (map erase ops) = [[1%Z]; [0%Z]].
Proof. split; [apply vt_matching_only_iff_nil; reflexivity | split; vm_compute; reflexivity]. Qed.

(* side conditions on a run, checked at the state in which each operation executes *)
Definition step_has_cache (σ : bst) (o : bop) : Prop :=
  match o with
  | BVerifyCached b f => blookup b (bs σ) <> None -> blookup f (cs_ σ) <> None
  | _ => True
  end.
Definition step_in (D : qdom) (σ : bst) (o : bop) : Prop :=
  match o with
  | BVerifyCached b _ => forall bb, blookup b (bs σ) = Some bb -> perms_in D bb
  | _ => True
  end.
Fixpoint brun_all (P : bst -> bop -> Prop) (T : tables) (σ : bst) (ops : list bop) : Prop :=
  match ops with
  | [] => True
  | o :: r => P σ o /\ brun_all P T (fst (bstep T σ o)) r
  end.

(* syntactic sufficient condition for [step_has_cache]: caches are created before they are used *)
Fixpoint declared (fs : list N) (ops : list bop) : bool :=
  match ops with
  | [] => true
  | CNew f _ _ :: r => declared (f :: fs) r
  | BVerifyCached _ f :: r => existsb (N.eqb f) fs && declared fs r
  | _ :: r => declared fs r
  end.

(* the queries a run presents to the cached verifier *)
Definition perm_mac (b : bundle) (m : mac) : Prop :=
  exists t, In t (b_ts b) /\ is_perm (b_loc b) t = true /\ tok_mac t = Some m.
Definition step_query (σ : bst) (o : bop) (b : bundle) (m : mac) : Prop :=
  match o with
  | BVerifyCached b0 _ => blookup b0 (bs σ) = Some b /\ perm_mac b m
  | _ => False
  end.
Fixpoint queried_from (T : tables) (σ : bst) (ops : list bop) (b : bundle) (m : mac) : Prop :=
  match ops with
  | [] => False
  | o :: r => step_query σ o b m \/ queried_from T (fst (bstep T σ o)) r b m
  end.
Definition queried (T : tables) (ops : list bop) : qdom := queried_from T (mkBst [] []) ops.

(* ---- operations other than BVerifyCached / CNew neither read nor write the caches *)
Definition plain (o : bop) : bool :=
  match o with BVerifyCached _ _ | CNew _ _ _ | CPurge _ => false | _ => true end.

Lemma bstep_plain T σ o : plain o = true ->
  bstep T σ o = (mkBst (bs (fst (bstep T (mkBst (bs σ) []) o))) (cs_ σ),
                 snd (bstep T (mkBst (bs σ) []) o)).
Proof.
  destruct σ as [B C]; destruct o; intro P; try discriminate P; cbn [bstep bs cs_];
    repeat match goal with
           | |- context [match ?x with _ => _ end] => destruct x
           end; reflexivity.
Qed.

Lemma plain_erase o : plain o = true -> erase o = o.
Proof. destruct o; intro P; try discriminate P; reflexivity. Qed.
Lemma plain_proj o ob : plain o = true -> proj o ob = ob.
Proof. destruct o; intro P; try discriminate P; reflexivity. Qed.
Lemma plain_cs T σ o : plain o = true -> cs_ (fst (bstep T σ o)) = cs_ σ.
Proof. intro P; rewrite (bstep_plain T σ o P); reflexivity. Qed.
Lemma plain_declared fs o r : plain o = true -> declared fs (o :: r) = declared fs r.
Proof. destruct o; intro P; try discriminate P; reflexivity. Qed.

(* ---- association lists *)
Lemma blookup_In {A} k (l : list (N * A)) v : blookup k l = Some v -> In (k, v) l.
Proof.
  induction l as [|[k' v'] l IH]; cbn [blookup]; intro H; [discriminate|].
  destruct (k' =? k) eqn:E.
  - apply N.eqb_eq in E; inversion H; subst; left; reflexivity.
  - right; apply IH, H.
Qed.

Lemma In_bput {A} k (v : A) l p : In p (bput k v l) -> p = (k, v) \/ In p l.
Proof.
  unfold bput; intros [<-|H]; [left; reflexivity|]. apply filter_In in H; right; tauto.
Qed.

Lemma blookup_bput {A} k f (v : A) l :
  blookup k (bput f v l) = if f =? k then Some v else blookup k l.
Proof.
  unfold bput; cbn [blookup]. destruct (f =? k) eqn:E; [reflexivity|].
  induction l as [|[k' v'] l IH]; cbn [filter blookup fst]; [reflexivity|].
  destruct (k' =? f) eqn:E2; cbn [negb].
  - apply N.eqb_eq in E2; subst k'. rewrite E. exact IH.
  - cbn [blookup]. destruct (k' =? k); [reflexivity | exact IH].
Qed.

(* ---- observations *)
Lemma proj_cached b f vs lg : proj (BVerifyCached b f) (zl vs ++ zl lg) = zl vs.
Proof.
  unfold zl; cbn [app proj]. rewrite Nat2Z.id. rewrite <- (map_length Z.of_N vs).
  rewrite firstn_len_app. rewrite map_length. reflexivity.
Qed.

Lemma brun_cons T σ o r :
  brun T σ (o :: r) = snd (bstep T σ o) :: brun T (fst (bstep T σ o)) r.
Proof. cbn [brun]; destruct (bstep T σ o); reflexivity. Qed.

(* ---- the simulation *)
Definition sim (D : qdom) (vt : vtable) (σ1 σ2 : bst) : Prop :=
  bs σ1 = bs σ2 /\ forall f c, In (f, c) (cs_ σ1) -> cache_ok_on D vt c.

Lemma bstep_sim (D : qdom) T σ1 σ2 o :
  vt_key_sound D (t_v T) -> sim D (t_v T) σ1 σ2 -> step_has_cache σ1 o -> step_in D σ1 o ->
  sim D (t_v T) (fst (bstep T σ1 o)) (fst (bstep T σ2 (erase o))) /\
  proj o (snd (bstep T σ1 o)) = snd (bstep T σ2 (erase o)).
Proof.
  intros KS [Hbs Hcs] Hcache Hin. destruct (plain o) eqn:P.
  - rewrite (plain_erase o P), (plain_proj o _ P).
    rewrite (bstep_plain T σ1 o P), (bstep_plain T σ2 o P), Hbs; cbn [fst snd bs cs_].
    split; [split; [reflexivity | exact Hcs] | reflexivity].
  - destruct o as [? ?|? ?|? ?|? ? ?|? ?|?|vb vf|? ?|? ?|?|?|? ?|? ?|? ? ? ?|? ?|?|? ? ?|? ?|? ?|?|?|pf|nf nlive ncap]; try discriminate P;
      cbn [erase proj step_has_cache step_in] in *.
    + (* BVerifyCached *)
      cbn [bstep]. rewrite <- Hbs.
      destruct (blookup vb (bs σ1)) as [bb|] eqn:B.
      * destruct (blookup vf (cs_ σ1)) as [c|] eqn:F;
          [|exfalso; apply Hcache; [discriminate | reflexivity]].
        destruct (cverify_list (t_v T) bb (b_ts bb) c) as [[ts c'] lg] eqn:CV.
        pose proof (Hcs vf c (blookup_In _ _ _ F)) as Hc.
        destruct (cverify_transparent_on D (t_v T) bb c ts c' lg KS Hc (Hin bb eq_refl) CV)
          as [Hts Hc'].
        subst ts. unfold verify; cbn [fst snd bs cs_].
        split; [split|].
        -- rewrite Hbs; reflexivity.
        -- intros f0 c0 I0. apply In_bput in I0 as [I0|I0]; [inversion I0; subst; exact Hc'|].
           eapply Hcs, I0.
        -- apply (proj_cached vb vf).
      * cbn [fst snd]. split; [split; assumption | reflexivity].
    + (* CPurge: an emptied cache is a sound cache; nothing is observed *)
      cbn [bstep]. destruct (blookup pf (cs_ σ1)) as [c|] eqn:F1; destruct (blookup pf (cs_ σ2)) as [c2|] eqn:F2;
        cbn [fst snd bs cs_]; (split; [split; [exact Hbs|] | reflexivity]); try exact Hcs;
        intros f0 c0 I0; apply In_bput in I0 as [I0|I0]; try (eapply Hcs, I0);
        inversion I0; subst; apply cache_ok_on_empty.
    + (* CNew *)
      cbn [bstep fst snd]. split; [split; cbn [bs cs_]; [exact Hbs|] | reflexivity].
      intros f0 c0 I0. apply In_bput in I0 as [I0|I0]; [inversion I0; subst|eapply Hcs, I0].
      apply cache_ok_on_empty.
Qed.

Lemma brun_sim (D : qdom) T ops : forall σ1 σ2,
  vt_key_sound D (t_v T) -> sim D (t_v T) σ1 σ2 ->
  brun_all step_has_cache T σ1 ops -> brun_all (step_in D) T σ1 ops ->
  map2 proj ops (brun T σ1 ops) = brun T σ2 (map erase ops).
Proof.
  induction ops as [|o r IH]; intros σ1 σ2 KS S Hc Hi; [reflexivity|].
  cbn [brun_all] in Hc, Hi. destruct Hc as [Hc Hcr], Hi as [Hi Hir].
  cbn [map]. rewrite !brun_cons. cbn [map2].
  destruct (bstep_sim D T σ1 σ2 o KS S Hc Hi) as [S' E].
  rewrite E. f_equal. apply IH; assumption.
Qed.

Lemma sim_init (D : qdom) vt : sim D vt (mkBst [] []) (mkBst [] []).
Proof. split; [reflexivity | intros f c []]. Qed.

(* general form: semantic side conditions *)
Theorem run_transparent_on (D : qdom) T ops :
  vt_key_sound D (t_v T) ->
  brun_all step_has_cache T (mkBst [] []) ops ->
  brun_all (step_in D) T (mkBst [] []) ops ->
  map2 proj ops (run_bundle T ops) = run_bundle T (map erase ops).
Proof. intros KS Hc Hi; unfold run_bundle; apply (brun_sim D); auto using sim_init. Qed.

(* ---- discharging the side conditions *)
Lemma declared_has_cache T ops : forall fs σ,
  (forall f, In f fs -> blookup f (cs_ σ) <> None) ->
  declared fs ops = true -> brun_all step_has_cache T σ ops.
Proof.
  induction ops as [|o r IH]; intros fs σ Hfs Hd; [exact I|]. cbn [brun_all].
  destruct (plain o) eqn:P.
  - rewrite (plain_declared fs o r P) in Hd. split.
    + destruct o; try discriminate P; exact I.
    + apply (IH fs); [|exact Hd]. rewrite (plain_cs T σ o P). exact Hfs.
  - destruct o as [? ?|? ?|? ?|? ? ?|? ?|?|vb vf|? ?|? ?|?|?|? ?|? ?|? ? ? ?|? ?|?|? ? ?|? ?|? ?|?|?|pf|nf nlive ncap]; try discriminate P;
      cbn [declared] in Hd.
    + (* BVerifyCached *)
      apply andb_true_iff in Hd as [Hm Hd]. apply existsb_exists in Hm as (f0 & I0 & E0).
      apply N.eqb_eq in E0; subst f0. split; [intros _; apply Hfs, I0|].
      apply (IH fs); [|exact Hd]. intros f0 I1. cbn [bstep].
      destruct (blookup vb (bs σ)) as [bb|]; [|apply Hfs, I1].
      destruct (blookup vf (cs_ σ)) as [c|]; [|apply Hfs, I1].
      destruct (cverify_list _ _ _ _) as [[ts c'] lg]. cbn [fst cs_]. rewrite blookup_bput.
      destruct (vf =? f0); [discriminate | apply Hfs, I1].
    + (* CPurge *)
      split; [exact I|]. apply (IH fs); [|exact Hd]. intros f0 I1. cbn [bstep].
      destruct (blookup pf (cs_ σ)) as [c|] eqn:F; cbn [fst cs_]; [|apply Hfs, I1].
      rewrite blookup_bput. destruct (pf =? f0); [discriminate | apply Hfs, I1].
    + (* CNew *)
      split; [exact I|]. apply (IH (nf :: fs)); [|exact Hd]. intros f0 I1. cbn [bstep fst cs_].
      rewrite blookup_bput. destruct (nf =? f0) eqn:E; [discriminate|].
      destruct I1 as [->|I1]; [rewrite N.eqb_refl in E; discriminate E | apply Hfs, I1].
Qed.

Lemma queried_step_in (D : qdom) T ops : forall σ,
  (forall b m, queried_from T σ ops b m -> D b m) -> brun_all (step_in D) T σ ops.
Proof.
  induction ops as [|o r IH]; intros σ H; [exact I|]. cbn [brun_all]; split.
  - destruct o; try exact I. intros bb B t m It Pt Mt. apply H. left.
    split; [exact B | exists t; auto].
  - apply IH. intros b m Q. apply H. right. exact Q.
Qed.

Lemma step_in_all T ops σ : brun_all (step_in Dall) T σ ops.
Proof. apply queried_step_in; intros; exact I. Qed.

(* the domain is exactly the set of queries the run makes: the smallest domain, hence the weakest
   hypothesis of this form *)
Theorem run_transparent_queried T ops :
  declared [] ops = true ->
  vt_key_sound (queried T ops) (t_v T) ->
  map2 proj ops (run_bundle T ops) = run_bundle T (map erase ops).
Proof.
  intros Hd KS. apply (run_transparent_on (queried T ops)); auto.
  - apply (declared_has_cache T ops []); [intros f []|exact Hd].
  - apply queried_step_in; auto.
Qed.

Corollary run_transparent_matching T ops :
  declared [] ops = true ->
  id_det (queried T ops) -> vt_matching_only_on (queried T ops) (t_v T) ->
  map2 proj ops (run_bundle T ops) = run_bundle T (map erase ops).
Proof. intros Hd Hi Hm; apply run_transparent_queried; auto using key_sound_of_matching_only. Qed.

(* requested hypothesis (see R1) + the missing side condition (see R2) *)
Theorem run_transparent_l_partial T ops :
  vt_matching_only (t_v T) -> declared [] ops = true ->
  map2 proj ops (run_bundle T ops) = run_bundle T (map erase ops).
Proof.
  intros H Hd. apply (run_transparent_on Dall).
  - apply key_sound_of_literal, H.
  - apply (declared_has_cache T ops []); [intros f []|exact Hd].
  - apply step_in_all.
Qed.

(* ------------------------------------------------------------------ a boolean check of the hypothesis
   For a concrete scenario the hypothesis of [run_transparent_queried] is decidable: enumerate the
   queries of the run and compare the table's answers for every two queries with equal keys. *)

Definition bundle_queries (b : bundle) : list (bundle * mac) :=
  flat_map (fun t => if is_perm (b_loc b) t
                     then match tok_mac t with Some m => [(b, m)] | None => [] end
                     else []) (b_ts b).
Definition step_queries (σ : bst) (o : bop) : list (bundle * mac) :=
  match o with
  | BVerifyCached b0 _ => match blookup b0 (bs σ) with Some b => bundle_queries b | None => [] end
  | _ => []
  end.
Fixpoint queries_from (T : tables) (σ : bst) (ops : list bop) : list (bundle * mac) :=
  match ops with
  | [] => []
  | o :: r => step_queries σ o ++ queries_from T (fst (bstep T σ o)) r
  end.
Definition queries (T : tables) (ops : list bop) : list (bundle * mac) :=
  queries_from T (mkBst [] []) ops.

Definition vres_eqb (a b : vres) : bool :=
  match a, b with
  | VMissing, VMissing => true
  | VRes None, VRes None => true
  | VRes (Some x), VRes (Some y) => x =? y
  | _, _ => false
  end.
Definition query_agree (vt : vtable) (q q' : bundle * mac) : bool :=
  implb (list_N_eqb (cache_key (fst q) (snd q)) (cache_key (fst q') (snd q')))
        (vres_eqb (vlookup vt (m_id (snd q)) (all_dis_ids (fst q)))
                  (vlookup vt (m_id (snd q')) (all_dis_ids (fst q')))).
Definition key_sound_list (vt : vtable) (qs : list (bundle * mac)) : bool :=
  forallb (fun q => forallb (query_agree vt q) qs) qs.

Lemma vres_eqb_eq a b : vres_eqb a b = true -> a = b.
Proof.
  destruct a as [|[x|]], b as [|[y|]]; cbn [vres_eqb]; intro H; try discriminate H; try reflexivity.
  apply N.eqb_eq in H; subst; reflexivity.
Qed.

Lemma key_sound_list_ok vt qs :
  key_sound_list vt qs = true -> vt_key_sound (fun b m => In (b, m) qs) vt.
Proof.
  unfold key_sound_list; intros H b b' m m' Q Q' K.
  rewrite forallb_forall in H. pose proof (H _ Q) as H1. rewrite forallb_forall in H1.
  pose proof (H1 _ Q') as H2. unfold query_agree in H2; cbn [fst snd] in H2.
  rewrite K, list_N_eqb_refl in H2. cbn [implb] in H2. apply vres_eqb_eq, H2.
Qed.

Lemma key_sound_mono (D D' : qdom) vt :
  (forall b m, D b m -> D' b m) -> vt_key_sound D' vt -> vt_key_sound D vt.
Proof. intros Sub KS b b' m m' Q Q' K; apply KS; auto. Qed.

Lemma bundle_queries_In b m : perm_mac b m -> In (b, m) (bundle_queries b).
Proof.
  intros (t & It & Pt & Mt). unfold bundle_queries. apply in_flat_map. exists t; split; [exact It|].
  rewrite Pt, Mt. left; reflexivity.
Qed.

Lemma queried_queries T ops : forall σ b m,
  queried_from T σ ops b m -> In (b, m) (queries_from T σ ops).
Proof.
  induction ops as [|o r IH]; intros σ b m Q; cbn [queried_from queries_from] in *; [contradiction|].
  apply in_or_app. destruct Q as [Q|Q]; [left | right; apply IH, Q].
  destruct o; try contradiction. cbn [step_query step_queries] in *.
  destruct Q as [B PM]. rewrite B. apply bundle_queries_In, PM.
Qed.

Theorem run_transparent_check T ops :
  declared [] ops = true -> key_sound_list (t_v T) (queries T ops) = true ->
  map2 proj ops (run_bundle T ops) = run_bundle T (map erase ops).
Proof.
  intros Hd Hk. apply run_transparent_queried; [exact Hd|].
  apply (key_sound_mono _ (fun b m => In (b, m) (queries T ops))).
  - intros b m Q. apply queried_queries, Q.
  - apply key_sound_list_ok, Hk.
Qed.

(* non-vacuity: a real table (a permission token accepted only with its discharge), one bundle with
   the discharge and one without, verified through one cache, the first one twice (second time a hit:
   the inner-verifier log of the third cached verification is empty) *)
Example run_transparent_nonvacuous :
  let p := mkMac 1 0 0 [(1, 7)] in
  let d := mkMac 10 1 7 [] in
  let T := mkTab [(1, [10], Some 5); (1, [], None)] [] [] [] in
  let ops := [BParseAll 0 [TUnv p; TUnv d]; BParseAll 1 [TUnv p]; CNew 0 true 4;
              BVerifyCached 0 0; BVerifyCached 1 0; BVerifyCached 0 0; BHeader 0; BHeader 1] in
  declared [] ops = true /\ key_sound_list (t_v T) (queries T ops) = true /\
  ~ vt_matching_only (t_v T) /\
  run_bundle T ops =
    ([[1]; [1]; []; [1; 5; 1; 1]; [0; 1; 1]; [1; 5; 0]; [2; 1; 10]; [1; 1]]%Z : list (list Z)) /\
  map2 proj ops (run_bundle T ops) = run_bundle T (map erase ops).
Proof.
  cbv zeta. split; [vm_compute; reflexivity|]. split; [vm_compute; reflexivity|].
  split; [intro H; apply vt_matching_only_iff_nil in H; discriminate H|].
  split; [vm_compute; reflexivity|].
  apply run_transparent_check; vm_compute; reflexivity.
Qed.

Print Assumptions cache_ok_empty.
Print Assumptions cache_get_ok_l.
Print Assumptions cache_add_ok_l.
Print Assumptions cverify_transparent_l.
Print Assumptions cverify_transparent_on.
Print Assumptions hit_only_identical_l.
Print Assumptions cache_key_inj_l.
Print Assumptions expired_not_used_l.
Print Assumptions failures_not_cached_l.
Print Assumptions cfill_entries_l.
Print Assumptions cap_respected_l.
Print Assumptions cache_get_no_grow_l.
Print Assumptions vt_matching_only_iff_nil.
Print Assumptions run_transparent_l_false.
Print Assumptions run_transparent_on.
Print Assumptions run_transparent_queried.
Print Assumptions run_transparent_matching.
Print Assumptions run_transparent_l_partial.
Print Assumptions run_transparent_check.
Print Assumptions run_transparent_nonvacuous.
