(* C03: every caveat must clear every request; anything unclear denies. *)
From Coq Require Import List Bool NArith ZArith String Lia Permutation.
From Mac Require Import Model.Err Model.Caveat Model.Access Generated.Facts Model.Prohibits Proofs.ErrFacts.
Import ListNotations.

(* ---- error classes and their projections *)
Inductive cls := KUnauth | KInvalid | KBadCav | KUnspec | KMutex | KForRes | KForAct | KForRole.

Definition proj (k : cls) (e : ecls) : bool :=
  match k with
  | KUnauth => eUnauth e | KInvalid => eInvalid e | KBadCav => eBadCav e | KUnspec => eUnspec e
  | KMutex => eMutex e | KForRes => eForRes e | KForAct => eForAct e | KForRole => eForRole e
  end.

Definition has (k : cls) (e : err) : bool :=
  match e with None => false | Some c => proj k c end.

Lemma proj_eunion k x y : proj k (eunion x y) = proj k x || proj k y.
Proof. destruct k; reflexivity. Qed.

Lemma has_eappend_l k a b : has k (eappend a b) = has k a || has k b.
Proof.
  destruct a as [x|], b as [y|]; simpl.
  - apply proj_eunion.
  - now rewrite orb_false_r.
  - reflexivity.
  - reflexivity.
Qed.

(* ---- no failing item's class is masked *)
Lemma validate_access_err_union_l cs a k :
  has k (validate_access cs a) =
  existsb (fun c => negb (is_attestation c) && has k (prohibits c a)) cs.
Proof.
  induction cs as [|c cs IH]; simpl.
  - reflexivity.
  - rewrite has_eappend_l, IH. destruct (is_attestation c); reflexivity.
Qed.

Lemma validate_err_union_l cs accs k :
  has k (validate cs accs) =
  existsb (fun a => match access_valid a with
                    | Some e => has k (Some e)
                    | None => existsb (fun c => negb (is_attestation c) && has k (prohibits c a)) cs
                    end) accs.
Proof.
  induction accs as [|a accs IH]; simpl.
  - reflexivity.
  - rewrite has_eappend_l, IH. destruct (access_valid a) as [e|].
    + reflexivity.
    + now rewrite validate_access_err_union_l.
Qed.

(* ---- denial characterisation *)
Lemma err_dec (e : err) : {e = None} + {e <> None}.
Proof. destruct e; [right; discriminate|left; reflexivity]. Qed.

Lemma validate_access_nonnil_iff cs a :
  validate_access cs a <> None <->
  exists c, In c cs /\ is_attestation c = false /\ prohibits c a <> None.
Proof.
  induction cs as [|c cs IH]; simpl.
  - split; [intros H; now elim H|intros [c [[] _]]].
  - split.
    + intros H. destruct (is_attestation c) eqn:Hatt.
      * rewrite eappend_None_l in H. apply IH in H. destruct H as [c' [Hin Hc']].
        exists c'. split; [now right|exact Hc'].
      * destruct (err_dec (prohibits c a)) as [Hp|Hp].
        -- rewrite Hp, eappend_None_l in H. apply IH in H. destruct H as [c' [Hin Hc']].
           exists c'. split; [now right|exact Hc'].
        -- exists c. split; [now left|]. split; assumption.
    + intros [c' [[->|Hin] [Hatt Hp]]] Hnil; apply eappend_nil_iff in Hnil; destruct Hnil as [H1 H2].
      * rewrite Hatt in H1. contradiction.
      * apply (proj2 IH); [|exact H2]. exists c'. auto.
Qed.

Lemma validate_nonnil_iff_l cs accs :
  validate cs accs <> None <->
  exists a, In a accs /\
    (access_valid a <> None \/
     exists c, In c cs /\ is_attestation c = false /\ prohibits c a <> None).
Proof.
  induction accs as [|a accs IH]; simpl.
  - split; [intros H; now elim H|intros [a [[] _]]].
  - split.
    + intros H. destruct (access_valid a) as [e|] eqn:Hv.
      * exists a. split; [now left|]. left. rewrite Hv. discriminate.
      * destruct (err_dec (validate_access cs a)) as [Hp|Hp].
        -- rewrite Hp, eappend_None_l in H. apply IH in H. destruct H as [a' [Hin Ha']].
           exists a'. split; [now right|exact Ha'].
        -- exists a. split; [now left|]. right. now apply validate_access_nonnil_iff.
    + intros [a' [[->|Hin] Hd]] Hnil; apply eappend_nil_iff in Hnil; destruct Hnil as [H1 H2].
      * destruct (access_valid a') as [e|] eqn:Hv; [discriminate|].
        destruct Hd as [Hd|Hd]; [now apply Hd|].
        apply validate_access_nonnil_iff in Hd. contradiction.
      * apply (proj2 IH); [|exact H2]. exists a'. auto.
Qed.

Lemma single_denial_suffices_l cs accs a c :
  In a accs -> In c cs -> is_attestation c = false -> prohibits c a <> None ->
  validate cs accs <> None.
Proof.
  intros Ha Hc Hatt Hp. apply validate_nonnil_iff_l. exists a. split; [assumption|].
  right. exists c. auto.
Qed.

Lemma malformed_request_denies_l cs accs a :
  In a accs -> access_valid a <> None -> validate cs accs <> None.
Proof.
  intros Ha Hv. apply validate_nonnil_iff_l. exists a. auto.
Qed.

(* ---- order independence *)
Lemma eappend_swap a b c : eappend a (eappend b c) = eappend b (eappend a c).
Proof. now rewrite eappend_assoc, (eappend_comm a b), <- eappend_assoc. Qed.

Lemma validate_access_perm cs cs' a :
  Permutation cs cs' -> validate_access cs a = validate_access cs' a.
Proof.
  induction 1 as [|c l l' Hp IH|c d l|l l' l'' Hp1 IH1 Hp2 IH2]; simpl.
  - reflexivity.
  - now rewrite IH.
  - apply eappend_swap.
  - now rewrite IH1.
Qed.

Lemma validate_perm_cs cs cs' accs :
  Permutation cs cs' -> validate cs accs = validate cs' accs.
Proof.
  intros Hp. induction accs as [|a accs IH]; simpl.
  - reflexivity.
  - now rewrite IH, (validate_access_perm cs cs' a Hp).
Qed.

Lemma validate_perm_accs cs accs accs' :
  Permutation accs accs' -> validate cs accs = validate cs accs'.
Proof.
  induction 1 as [|a l l' Hp IH|a b l|l l' l'' Hp1 IH1 Hp2 IH2]; simpl.
  - reflexivity.
  - now rewrite IH.
  - apply eappend_swap.
  - now rewrite IH1.
Qed.

Lemma validate_perm_l cs cs' accs accs' :
  Permutation cs cs' -> Permutation accs accs' -> validate cs accs = validate cs' accs'.
Proof.
  intros Hc Ha. rewrite (validate_perm_cs cs cs' accs Hc). now apply validate_perm_accs.
Qed.

(* ---- caveats that cannot be evaluated deny *)
Lemma unevaluable_deny_l a :
  (forall t b, prohibits (CUnregistered t b) a = Some E_badcav) /\
  (forall l v t, prohibits (C3P l v t) a = Some E_badcav) /\
  (forall b, prohibits (CBind b) a = Some E_badcav) /\
  (forall n, prohibits (CFlyioUserID n) a = Some E_badcav /\
             prohibits (CGitHubUserID n) a = Some E_badcav /\
             prohibits (CGoogleUserID n) a = Some E_badcav).
Proof. repeat split. Qed.

(* ---- caveats that need a flyio.Access deny every other kind of request *)
Definition str_nonempty (s : string) : bool :=
  match s with EmptyString => false | String _ _ => true end.

Definition needs_flyio (c : cav) : bool :=
  match c with
  | COrganization _ _ | CApps _ | CVolumes _ | CMachines _ | CMachineFeatureSet _
  | CFeatureSet _ | CClusters _ | CAppFeatureSet _ | CStorageObjects _ | CMutations _
  | CAllowedRoles _ | CIsMember | CCommands _ | CFromMachine _ => true
  | CFlySrc o a i => str_nonempty o || str_nonempty a || str_nonempty i
  | _ => false
  end.

Lemma eqb_empty s : String.eqb s EmptyString = negb (str_nonempty s).
Proof. destruct s; reflexivity. Qed.

Lemma flysrc_wrong_kind o ap i a :
  str_nonempty o || str_nonempty ap || str_nonempty i = true -> a_flyio a = None ->
  flysrc_prohibits o ap i a = Some E_invalid.
Proof.
  intros Hne Ha. unfold flysrc_prohibits. rewrite !eqb_empty.
  destruct a as [f|d|v t|m t]; [discriminate| | |];
    destruct (str_nonempty i), (str_nonempty ap), (str_nonempty o);
    try discriminate; reflexivity.
Qed.

Lemma wrong_access_kind_denies_l c a :
  needs_flyio c = true -> a_flyio a = None -> prohibits c a = Some E_invalid.
Proof.
  intros Hc Ha. destruct c; try discriminate;
    try (destruct a; [discriminate|reflexivity|reflexivity|reflexivity]).
  simpl in Hc. now apply flysrc_wrong_kind.
Qed.

(* ---- a resource-set caveat denies a request that does not name the resource *)
Lemma rs_prohibits_missing {I} (ieqb : I -> I -> bool) zero mtch rs act :
  rs_validate ieqb zero rs = None ->
  rs_prohibits ieqb zero mtch rs None act = Some E_unspec.
Proof. intros Hv. unfold rs_prohibits. now rewrite Hv. Qed.

(* even an invalid set denies: the result is never nil *)
Lemma rs_prohibits_missing_nonnil {I} (ieqb : I -> I -> bool) zero mtch rs act :
  rs_prohibits ieqb zero mtch rs None act <> None.
Proof. unfold rs_prohibits. destruct (rs_validate ieqb zero rs); discriminate. Qed.

(* which resource field each resource-set caveat reads, and whether it is absent *)
Definition rs_field_missing (c : cav) (f : flyio_access) : option bool :=
  match c with
  | CApps _ => Some (negb (isSome (fa_app f)))
  | CVolumes _ => Some (negb (isSome (fa_volume f)))
  | CMachines _ => Some (negb (isSome (fa_machine f)))
  | CMachineFeatureSet _ => Some (negb (isSome (fa_machinefeature f)))
  | CFeatureSet _ => Some (negb (isSome (fa_feature f)))
  | CClusters _ => Some (negb (isSome (fa_cluster f)))
  | CAppFeatureSet _ => Some (negb (isSome (fa_appfeature f)))
  | CStorageObjects _ => Some (negb (isSome (fa_storage f)))
  | _ => None
  end.

Definition rs_set_valid (c : cav) : err :=
  match c with
  | CApps rs => rs_validate N.eqb 0%N rs
  | CVolumes rs | CMachines rs | CMachineFeatureSet rs | CFeatureSet rs | CClusters rs
  | CAppFeatureSet rs | CStorageObjects rs => rs_validate String.eqb EmptyString rs
  | _ => None
  end.

Lemma isSome_negb_true {A} (o : option A) : negb (isSome o) = true -> o = None.
Proof. destruct o; [discriminate|reflexivity]. Qed.

(* generic form, through the field getter *)
Lemma missing_info_denies_l c f :
  rs_field_missing c f = Some true -> rs_set_valid c = None ->
  prohibits c (AFlyio f) = Some E_unspec.
Proof.
  intros Hm Hv. destruct c; try discriminate; simpl in Hm, Hv |- *;
    injection Hm as Hm; apply isSome_negb_true in Hm; rewrite Hm;
    now apply rs_prohibits_missing.
Qed.

(* per caveat kind *)
Lemma missing_info_denies_each_l f :
  (forall rs, fa_app f = None -> rs_validate N.eqb 0%N rs = None ->
     prohibits (CApps rs) (AFlyio f) = Some E_unspec) /\
  (forall rs, fa_volume f = None -> rs_validate String.eqb EmptyString rs = None ->
     prohibits (CVolumes rs) (AFlyio f) = Some E_unspec) /\
  (forall rs, fa_machine f = None -> rs_validate String.eqb EmptyString rs = None ->
     prohibits (CMachines rs) (AFlyio f) = Some E_unspec) /\
  (forall rs, fa_machinefeature f = None -> rs_validate String.eqb EmptyString rs = None ->
     prohibits (CMachineFeatureSet rs) (AFlyio f) = Some E_unspec) /\
  (forall rs, fa_feature f = None -> rs_validate String.eqb EmptyString rs = None ->
     prohibits (CFeatureSet rs) (AFlyio f) = Some E_unspec) /\
  (forall rs, fa_cluster f = None -> rs_validate String.eqb EmptyString rs = None ->
     prohibits (CClusters rs) (AFlyio f) = Some E_unspec) /\
  (forall rs, fa_appfeature f = None -> rs_validate String.eqb EmptyString rs = None ->
     prohibits (CAppFeatureSet rs) (AFlyio f) = Some E_unspec) /\
  (forall rs, fa_storage f = None -> rs_validate String.eqb EmptyString rs = None ->
     prohibits (CStorageObjects rs) (AFlyio f) = Some E_unspec).
Proof.
  repeat split; intros rs Hf Hv; simpl; rewrite Hf; now apply rs_prohibits_missing.
Qed.

(* the organization, mutation and command caveats behave the same way *)
Lemma missing_info_denies_other_l f :
  (forall id mask, fa_org f = None -> prohibits (COrganization id mask) (AFlyio f) = Some E_unspec) /\
  (forall ms, fa_mutation f = None -> prohibits (CMutations ms) (AFlyio f) = Some E_unspec) /\
  (forall cmds, fa_command f = None -> prohibits (CCommands cmds) (AFlyio f) = Some E_unspec).
Proof.
  repeat split; [intros id mask Hf|intros ms Hf|intros cmds Hf]; simpl; now rewrite Hf.
Qed.

Lemma validate_single_nonnil c a :
  is_attestation c = false -> prohibits c a <> None -> validate [c] [a] <> None.
Proof.
  intros Hatt Hp. apply (single_denial_suffices_l [c] [a] a c); simpl; auto.
Qed.

Lemma missing_info_validate_denies_l c f :
  rs_field_missing c f = Some true -> rs_set_valid c = None ->
  validate [c] [AFlyio f] <> None.
Proof.
  intros Hm Hv. apply validate_single_nonnil.
  - destruct c; try discriminate; reflexivity.
  - rewrite (missing_info_denies_l c f Hm Hv). discriminate.
Qed.

(* without the validity hypothesis the request is still denied (E_unspec or E_badcav) *)
Lemma missing_info_validate_denies_any_l c f :
  rs_field_missing c f = Some true -> validate [c] [AFlyio f] <> None.
Proof.
  intros Hm. apply validate_single_nonnil.
  - destruct c; try discriminate; reflexivity.
  - destruct c; try discriminate; simpl in Hm |- *;
      injection Hm as Hm; apply isSome_negb_true in Hm; rewrite Hm;
      apply rs_prohibits_missing_nonnil.
Qed.

Print Assumptions has_eappend_l.
Print Assumptions validate_err_union_l.
Print Assumptions validate_nonnil_iff_l.
Print Assumptions validate_perm_l.
Print Assumptions single_denial_suffices_l.
Print Assumptions malformed_request_denies_l.
Print Assumptions unevaluable_deny_l.
Print Assumptions wrong_access_kind_denies_l.
Print Assumptions missing_info_denies_l.
Print Assumptions missing_info_denies_each_l.
Print Assumptions missing_info_denies_other_l.
Print Assumptions missing_info_validate_denies_l.
Print Assumptions missing_info_validate_denies_any_l.
