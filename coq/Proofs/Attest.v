(* Task S3, part 1 (C07): attestations surface only from trusted, finalised proofs.
   Symbolic model: Model/Sym.v; basic facts: Proofs/SymBasics.v. *)
From Coq Require Import List Bool NArith Lia.
From Mac Require Import Model.Sym Proofs.SymBasics.
Import ListNotations.
Local Open Scope N_scope.

(* ------------------------------------------------------------------ *)
(** * Helpers: where an element of a verification result comes from *)

(* an element of the discharge part of the result belongs to the result of one
   pending (ticket, key) pair *)
Lemma discharge_all_In_pair pend ds bids tr dret x :
  discharge_all pend ds bids tr = Some dret -> In x dret ->
  exists p S, In p pend /\ discharged_by ds bids tr p S /\ In x S.
Proof.
  intros H Hx. destruct (discharge_all_sound _ _ _ _ _ H) as [Ss [HF E]]. subst dret. clear H.
  induction HF as [|p S pend' Ss' Hp HF IH]; [contradiction|].
  cbn [List.concat] in Hx. apply in_app_or in Hx. destruct Hx as [Hx|Hx].
  - exists p, S. split; [left; reflexivity|]. split; assumption.
  - destruct (IH Hx) as [p' [S' [Hin [Hd HxS]]]]. exists p', S'.
    split; [right; exact Hin|]. split; assumption.
Qed.

(* everything verify_flat tells us about the discharge that produced [a] *)
Lemma discharged_elem ds bids tr tk dk S a :
  discharged_by ds bids tr (tk, dk) S -> In a S ->
  exists d, In d ds /\ n_kid (t_nonce d) = tk /\ In (PData a) (t_cavs d) /\
    data_ok (n_proof (t_nonce d)) (t_cavs d) /\
    t_tail d = fin_if (n_proof (t_nonce d)) (chain dk (t_nonce d) (t_cavs d)) /\
    n_proof (t_nonce d) && t_newproof d = false /\
    (forall l vk tk', ~ In (P3P l vk tk') (t_cavs d)) /\
    (d_att a = true -> trust_check (keys_for tr (t_loc d)) tk dk = TTrusted).
Proof.
  intros [d [Hin [Hk [Hns Hv]]]] Ha. cbn [fst snd] in Hk, Hns, Hv.
  destruct (verify_flat_sound _ _ _ _ _ Hv) as [Ht [HS [Hd [H3 Hnp]]]]. subst S.
  apply In_returned in Ha. destruct Ha as [Hc Hta].
  exists d. repeat (split; [assumption|]).
  intros Hatt. rewrite Hatt in Hta. unfold cand_trust in Hta. cbn [negb orb andb] in Hta.
  rewrite Hk in Hta. destruct (trust_check (keys_for tr (t_loc d)) tk dk); try discriminate Hta.
  reflexivity.
Qed.

(* the two sources of an element of a verification result *)
Lemma verify_result_split k t ds tr S a : verify k t ds tr = Some S -> In a S ->
  (In (PData a) (t_cavs t)) \/
  (exists pl tk dk S', tok_pend k t = Some pl /\ In (tk, dk) pl /\
      discharged_by ds (tok_bids k t) tr (tk, dk) S' /\ In a S').
Proof.
  intros H Ha. destruct (verify_sound_chain _ _ _ _ _ H) as [_ [pl [dret [Hpl [HS Hd]]]]].
  subst S. apply in_app_or in Ha. destruct Ha as [Ha|Ha].
  - left. apply In_returned in Ha. tauto.
  - right. destruct (discharge_all_In_pair _ _ _ _ _ _ Hd Ha) as [[tk dk] [S' [Hin [Hdb HaS]]]].
    exists pl, tk, dk, S'. auto.
Qed.

Lemma andb_true_l_false b c : b = true -> b && c = false -> c = false.
Proof. intros Hb. subst b. cbn [andb]. auto. Qed.

(* ------------------------------------------------------------------ *)
(** * attestation provenance *)

Lemma attestation_provenance_l k t ds tr S a :
  verify k t ds tr = Some S -> In a S -> d_att a = true ->
  (In (PData a) (t_cavs t) /\ n_proof (t_nonce t) = true /\ t_newproof t = false /\
   t_tail t = TFin (chain k (t_nonce t) (t_cavs t)))
  \/ (exists d tk dk ka r tc,
        In d ds /\ In (PData a) (t_cavs d) /\ n_proof (t_nonce d) = true /\ t_newproof d = false /\
        t_tail d = TFin (chain dk (t_nonce d) (t_cavs d)) /\
        n_kid (t_nonce d) = tk /\ tk = TSeal ka r (TTicket dk tc) /\ In ka (keys_for tr (t_loc d)) /\
        (exists pl, tok_pend k t = Some pl /\ In (tk, dk) pl)).
Proof.
  intros H Ha Hatt. destruct (verify_result_split _ _ _ _ _ _ H Ha) as [Hc|Hdis].
  - left. destruct (verify_sound_chain _ _ _ _ _ H) as [Ht _].
    destruct (verify_sound_more _ _ _ _ _ H) as [Hnp [Hd _]].
    destruct (Hd _ Hc) as [Hp _]. specialize (Hp Hatt).
    rewrite Hp in Ht. cbn [fin_if] in Ht.
    split; [exact Hc|]. split; [exact Hp|]. split; [|exact Ht].
    apply (andb_true_l_false _ _ Hp Hnp).
  - right. destruct Hdis as [pl [tk [dk [S' [Hpl [Hin [Hdb HaS]]]]]]].
    destruct (discharged_elem _ _ _ _ _ _ _ Hdb HaS) as [d [Hd [Hk [Hc [Hok [Ht [Hnp [_ Htr]]]]]]]].
    destruct (Hok _ Hc) as [Hp _]. specialize (Hp Hatt).
    destruct (trust_check_trusted _ _ _ (Htr Hatt)) as [ka [r [tc [Hka Etk]]]].
    rewrite Hp in Ht. cbn [fin_if] in Ht.
    exists d, tk, dk, ka, r, tc.
    split; [exact Hd|]. split; [exact Hc|]. split; [exact Hp|].
    split; [apply (andb_true_l_false _ _ Hp Hnp)|].
    split; [exact Ht|]. split; [exact Hk|]. split; [exact Etk|]. split; [exact Hka|].
    exists pl. auto.
Qed.

(* ------------------------------------------------------------------ *)
(** * no wrapper ever reaches a result *)

Lemma no_wrapped_in_result_l k t ds tr S a :
  verify k t ds tr = Some S -> In a S -> d_wrap a = false.
Proof.
  intros H Ha. destruct (verify_result_split _ _ _ _ _ _ H Ha) as [Hc|Hdis].
  - destruct (verify_sound_more _ _ _ _ _ H) as [_ [Hd _]]. apply (Hd _ Hc).
  - destruct Hdis as [pl [tk [dk [S' [_ [_ [Hdb HaS]]]]]]].
    destruct (discharged_elem _ _ _ _ _ _ _ Hdb HaS) as [d [_ [_ [Hc [Hok _]]]]].
    apply (Hok _ Hc).
Qed.

Lemma no_wrapped_in_flat_result_l dk d bids ta S a :
  verify_flat dk d bids ta = Some S -> In a S -> d_wrap a = false.
Proof.
  intros H Ha. destruct (verify_flat_sound _ _ _ _ _ H) as [_ [HS [Hd _]]]. subst S.
  apply In_returned in Ha. destruct Ha as [Hc _]. apply (Hd _ Hc).
Qed.

Lemma filter_ext_In {A} (f g : A -> bool) (l : list A) :
  (forall x, In x l -> f x = g x) -> filter f l = filter g l.
Proof.
  induction l as [|x l IH]; intros H; [reflexivity|].
  cbn [filter]. rewrite (H x (or_introl eq_refl)), IH; [reflexivity|].
  intros y Hy. apply H. right. exact Hy.
Qed.

(* corollary: what GetCaveats can extract from a result is exactly its attestations *)
Lemma attestations_of_result_l k t ds tr S :
  verify k t ds tr = Some S -> attestations S = filter d_att S.
Proof.
  intros H. unfold attestations. apply filter_ext_In. intros a Ha.
  rewrite (no_wrapped_in_result_l _ _ _ _ _ _ H Ha). apply orb_false_r.
Qed.

(* every attestation obtainable from a result has the provenance above *)
Lemma attestations_provenance_l k t ds tr S a :
  verify k t ds tr = Some S -> In a (attestations S) ->
  In a S /\ d_att a = true /\ d_wrap a = false.
Proof.
  intros H Ha. rewrite (attestations_of_result_l _ _ _ _ _ H) in Ha.
  apply filter_In in Ha. destruct Ha as [Hin Hatt].
  split; [exact Hin|]. split; [exact Hatt|]. apply (no_wrapped_in_result_l _ _ _ _ _ _ H Hin).
Qed.

(* ------------------------------------------------------------------ *)
(** * untrusted discharges and non-proof tokens carry no attestation *)

Lemma untrusted_discharge_no_attestation_l dk d bids S a :
  verify_flat dk d bids false = Some S -> In a S -> d_att a = false.
Proof.
  intros H Ha. destruct (verify_flat_sound _ _ _ _ _ H) as [_ [HS _]]. subst S.
  apply In_returned in Ha. destruct Ha as [_ Hta]. rewrite orb_false_r in Hta.
  apply negb_true_iff. exact Hta.
Qed.

Lemma data_ok_nonproof cs d : data_ok false cs -> In (PData d) cs -> d_att d = false.
Proof.
  intros Hok Hc. destruct (Hok _ Hc) as [Hp _]. destruct (d_att d); [|reflexivity].
  discriminate (Hp eq_refl).
Qed.

Lemma nonproof_carries_no_attestation_l k t ds tr S d :
  verify k t ds tr = Some S -> n_proof (t_nonce t) = false -> In (PData d) (t_cavs t) -> d_att d = false.
Proof.
  intros H Hp Hc. destruct (verify_sound_more _ _ _ _ _ H) as [_ [Hd _]].
  rewrite Hp in Hd. apply (data_ok_nonproof _ _ Hd Hc).
Qed.

Lemma nonproof_carries_no_attestation_flat_l k t pb ta S d :
  verify_flat k t pb ta = Some S -> n_proof (t_nonce t) = false -> In (PData d) (t_cavs t) -> d_att d = false.
Proof.
  intros H Hp Hc. destruct (verify_flat_sound _ _ _ _ _ H) as [_ [_ [Hd _]]].
  rewrite Hp in Hd. apply (data_ok_nonproof _ _ Hd Hc).
Qed.

(* consequently a non-proof discharge contributes no attestation to the result, trusted or not *)
Lemma nonproof_discharge_no_attestation_l k t pb ta S a :
  verify_flat k t pb ta = Some S -> n_proof (t_nonce t) = false -> In a S -> d_att a = false.
Proof.
  intros H Hp Ha. destruct (verify_flat_sound _ _ _ _ _ H) as [_ [HS _]].
  rewrite HS in Ha. apply In_returned in Ha. destruct Ha as [Hc _].
  apply (nonproof_carries_no_attestation_flat_l _ _ _ _ _ _ H Hp Hc).
Qed.

(* ------------------------------------------------------------------ *)
(** * the trust loop *)

Lemma trust_needs_ticket_key_l kas kid dk :
  trust_check kas kid dk = TTrusted -> exists ka r tc, In ka kas /\ kid = TSeal ka r (TTicket dk tc).
Proof. apply trust_check_trusted. Qed.

(* a key-id that is a ticket for dk' is trusted only for dk' *)
Lemma copied_ticket_trusted_same_key_l kas ka r dk' tc dk :
  trust_check kas (TSeal ka r (TTicket dk' tc)) dk = TTrusted -> dk' = dk.
Proof.
  intros H. destruct (trust_check_trusted _ _ _ H) as [ka0 [r0 [tc0 [_ E]]]].
  injection E. intros. assumption.
Qed.

Lemma unseal_seal_other k k' r pt : k' <> k -> unseal k (TSeal k' r pt) = None.
Proof. intros Hne. cbn [unseal]. apply term_eqb_false in Hne. rewrite Hne. reflexivity. Qed.

(* when the sealing key is among the listed keys, the loop stops at its first occurrence:
   the result is Trusted or Skip, never Untrusted *)
Lemma copied_ticket_not_untrusted_l kas ka r dk' tc dk :
  In ka kas -> trust_check kas (TSeal ka r (TTicket dk' tc)) dk <> TUntrusted.
Proof.
  induction kas as [|ka0 kas IH]; intros Hin; [contradiction|].
  cbn [trust_check]. destruct (term_eq_dec ka ka0) as [E|Hne].
  - subst ka0. rewrite unseal_seal. destruct (term_eqb dk' dk); discriminate.
  - rewrite (unseal_seal_other _ _ _ _ Hne). apply IH.
    destruct Hin as [E|Hin]; [|exact Hin]. exfalso. apply Hne. symmetry. exact E.
Qed.

(* together: a discharge re-using a trusted party's ticket but signed with another secret is
   skipped -- neither trusted nor verified as untrusted *)
Lemma copied_ticket_skipped_l kas ka r dk' tc dk :
  In ka kas -> dk' <> dk -> trust_check kas (TSeal ka r (TTicket dk' tc)) dk = TSkip.
Proof.
  intros Hin Hne.
  pose proof (copied_ticket_not_untrusted_l kas ka r dk' tc dk Hin) as Hnu.
  pose proof (copied_ticket_trusted_same_key_l kas ka r dk' tc dk) as Htr.
  destruct (trust_check kas (TSeal ka r (TTicket dk' tc)) dk); [reflexivity| |].
  - exfalso. apply Hne. apply Htr. reflexivity.
  - exfalso. apply Hnu. reflexivity.
Qed.

(* and a skipped candidate is never used *)
Lemma skipped_candidate_ignored_l d cands dk bids ta tr :
  trust_check (keys_for tr (t_loc d)) (n_kid (t_nonce d)) dk = TSkip ->
  try_cands (d :: cands) dk bids ta tr = try_cands cands dk bids ta tr.
Proof. intros H. cbn [try_cands]. rewrite H. reflexivity. Qed.

Lemma spoofed_location_untrusted_l kas kid dk :
  (forall ka, In ka kas -> unseal ka kid = None) -> trust_check kas kid dk = TUntrusted.
Proof.
  induction kas as [|ka kas IH]; intros H; [reflexivity|].
  cbn [trust_check]. rewrite (H ka (or_introl eq_refl)). apply IH.
  intros ka' Hin. apply H. right. exact Hin.
Qed.

(* the converse: Untrusted means no listed key opens the key-id *)
Lemma untrusted_no_key_opens_l kas kid dk :
  trust_check kas kid dk = TUntrusted -> forall ka, In ka kas -> unseal ka kid = None.
Proof.
  induction kas as [|ka0 kas IH]; intros H ka Hin; [contradiction|].
  cbn [trust_check] in H. destruct (unseal ka0 kid) as [pt|] eqn:Eu.
  - exfalso. destruct pt as [| | | | | | | |dk' cavs]; try discriminate H.
    destruct (term_eqb dk' dk); discriminate H.
  - destruct Hin as [E|Hin]; [subst; exact Eu|]. apply (IH H _ Hin).
Qed.

(* a discharge whose key-id no listed key opens (spoofed location) is verified with
   trust_att = false, hence yields no attestation *)
Lemma spoofed_discharge_no_attestation_l tr d dk bids S a :
  (forall ka, In ka (keys_for tr (t_loc d)) -> unseal ka (n_kid (t_nonce d)) = None) ->
  verify_flat dk d bids (cand_trust true tr d dk) = Some S -> In a S -> d_att a = false.
Proof.
  intros Hno Hv Ha. unfold cand_trust in Hv.
  rewrite (spoofed_location_untrusted_l _ _ dk Hno) in Hv. cbn [andb] in Hv.
  apply (untrusted_discharge_no_attestation_l _ _ _ _ _ Hv Ha).
Qed.

(* the same seen from the result: an attestation in a discharge's result means some key
   listed for the discharge's own location opens its key-id *)
Lemma attestation_needs_opening_key_l ds bids tr tk dk S a :
  discharged_by ds bids tr (tk, dk) S -> In a S -> d_att a = true ->
  exists d ka, In d ds /\ n_kid (t_nonce d) = tk /\ In ka (keys_for tr (t_loc d)) /\ unseal ka tk <> None.
Proof.
  intros Hdb Ha Hatt.
  destruct (discharged_elem _ _ _ _ _ _ _ Hdb Ha) as [d [Hd [Hk [_ [_ [_ [_ [_ Htr]]]]]]]].
  destruct (trust_check_trusted _ _ _ (Htr Hatt)) as [ka [r [tc [Hka Etk]]]].
  exists d, ka. split; [exact Hd|]. split; [exact Hk|]. split; [exact Hka|].
  rewrite Etk, unseal_seal. discriminate.
Qed.

(* ------------------------------------------------------------------ *)
Print Assumptions attestation_provenance_l.
Print Assumptions no_wrapped_in_result_l.
Print Assumptions attestations_of_result_l.
Print Assumptions attestations_provenance_l.
Print Assumptions untrusted_discharge_no_attestation_l.
Print Assumptions nonproof_carries_no_attestation_l.
Print Assumptions nonproof_carries_no_attestation_flat_l.
Print Assumptions nonproof_discharge_no_attestation_l.
Print Assumptions trust_needs_ticket_key_l.
Print Assumptions copied_ticket_trusted_same_key_l.
Print Assumptions copied_ticket_not_untrusted_l.
Print Assumptions copied_ticket_skipped_l.
Print Assumptions spoofed_location_untrusted_l.
Print Assumptions untrusted_no_key_opens_l.
Print Assumptions spoofed_discharge_no_attestation_l.
Print Assumptions attestation_needs_opening_key_l.
