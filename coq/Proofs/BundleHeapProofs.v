(* C13, object sharing: lemmas about Model/BundleHeap.v (bundles over a heap of token objects).

   1. REFINEMENT  (hrun_refines_l): on scenarios whose in-place writes (Attenuate) only ever go to objects that no
      other slot reaches ([alias_safe], a condition computed along the run; [no_select] is a syntactic sufficient
      condition), the heap model and the value model (run_bundle) produce the same observations - so the theorems of
      BundleProofs / FilterProofs / CacheProofs transfer.  Attenuate through an alias is the ONLY thing the value model
      cannot follow (Verify, AddTokens, Filter, Discharge write no existing object).
   2. THE INVARIANT UNDER SHARING, for ALL cache-free scenarios (hexact_run_l): OWNERSHIP - the base object of a
      verification wrapper is private to it: no second wrapper sits on it, no bundle holds it directly ([own]; this
      is what tokens.Verify wrapping a COPY of the token object establishes, the repair of finding F15) - and
      EXACTNESS - every wrapper [CVer u cs] in the heap sits on an unverified permission object whose identity
      derives from a verified identity by a chain of attenuations, and [cs] is the table's verified set extended by
      exactly that chain ([vexact], [xinv]).
   3. Bundle-level statements: validate_own_refs_l, bundle_decision_exact_l, attenuate_visible_through_aliases_l,
      attenuate_never_bypasses_l, select_keeps_cells_l, clone_independent_l; examples, and the pre-repair object
      graph as a refuted state (legacy_verify_shares_base_refuted).
   No axioms; a Print Assumptions follows every main lemma. *)
From Coq Require Import List Bool NArith ZArith Lia.
From Mac Require Import Model.BundleM Model.BundleOps Model.BundleHeap Proofs.BundleProofs Proofs.CacheProofs.
Import ListNotations.
Local Open Scope N_scope.

(* ------------------------------------------------------------------ *)
(* generic helpers                                                     *)

Lemma map_filter_comm {A B} (f : A -> B) (p : B -> bool) l :
  map f (filter (fun x => p (f x)) l) = filter p (map f l).
Proof.
  induction l as [|a l IH]; cbn [filter map]; [reflexivity|].
  destruct (p (f a)); cbn [map]; rewrite IH; reflexivity.
Qed.

Lemma blookup_map {A B} (f : A -> B) k (l : list (N * A)) :
  blookup k (map (fun e => (fst e, f (snd e))) l) = option_map f (blookup k l).
Proof.
  induction l as [|[k' v] l IH]; cbn [map blookup fst snd]; [reflexivity|].
  destruct (k' =? k); [reflexivity|exact IH].
Qed.

Lemma bput_map {A B} (f : A -> B) k v (l : list (N * A)) :
  map (fun e => (fst e, f (snd e))) (bput k v l) = bput k (f v) (map (fun e => (fst e, f (snd e))) l).
Proof.
  unfold bput. cbn [map fst snd]. f_equal.
  induction l as [|[k' v'] l IH]; cbn [filter map fst snd]; [reflexivity|].
  destruct (negb (k' =? k)); cbn [map fst snd]; rewrite IH; reflexivity.
Qed.

Lemma map_ext_in_slots {A B} (f g : A -> B) (l : list (N * A)) :
  (forall k v, In (k, v) l -> f v = g v) ->
  map (fun e => (fst e, f (snd e))) l = map (fun e => (fst e, g (snd e))) l.
Proof.
  intro H. apply map_ext_in. intros [k v] Hin. cbn [fst snd]. rewrite (H k v Hin). reflexivity.
Qed.

Lemma blookup_cons {A} k k' (v : A) l :
  blookup k ((k', v) :: l) = if k' =? k then Some v else blookup k l.
Proof. reflexivity. Qed.

Lemma blookup_None_notin {A} k (l : list (N * A)) : blookup k l = None -> forall v, ~ In (k, v) l.
Proof.
  induction l as [|[k' v'] l IH]; cbn [blookup]; intros H v Hin; [exact Hin|].
  destruct (k' =? k) eqn:E; [discriminate|].
  destruct Hin as [Heq|Hin]; [inversion Heq; subst; rewrite N.eqb_refl in E; discriminate|].
  exact (IH H v Hin).
Qed.

(* ------------------------------------------------------------------ *)
(* views                                                               *)

Lemma hview_loc h hb : b_loc (hview h hb) = hb_loc hb.
Proof. reflexivity. Qed.
Lemma hview_ts h hb : b_ts (hview h hb) = map (cell_tok h) (hb_refs hb).
Proof. reflexivity. Qed.

Lemma hview_hselect h hb p : hview h (hselect h hb p) = select (hview h hb) p.
Proof.
  unfold hview, hselect, select. cbn [hb_loc hb_refs b_loc b_ts]. rewrite map_filter_comm. reflexivity.
Qed.

Lemma hselect_incl h hb p r : In r (hb_refs (hselect h hb p)) -> In r (hb_refs hb).
Proof. unfold hselect. cbn [hb_refs]. intro H. apply filter_In in H. tauto. Qed.

Lemma hselect_len h hb p :
  List.length (hb_refs (hselect h hb p)) = List.length (filter p (b_ts (hview h hb))).
Proof. rewrite <- (map_length (cell_tok h)). unfold hselect. cbn [hb_refs]. rewrite map_filter_comm. reflexivity. Qed.

(* a view only depends on the cells the bundle reaches *)
Definition same_on (h h' : heap) (r : N) : Prop :=
  blookup r h' = blookup r h /\ cell_mac h' (base_of h r) = cell_mac h (base_of h r).

Lemma cell_tok_same h h' r : same_on h h' r -> cell_tok h' r = cell_tok h r.
Proof.
  intros [Hr Hm]. unfold cell_tok. rewrite Hr. unfold base_of in Hm.
  destruct (blookup r h) as [[t|u cs|u]|]; try reflexivity; rewrite Hm; reflexivity.
Qed.
Lemma base_of_same h h' r : blookup r h' = blookup r h -> base_of h' r = base_of h r.
Proof. intro Hr. unfold base_of. rewrite Hr. reflexivity. Qed.

Lemma hview_same h h' hb :
  (forall r, In r (hb_refs hb) -> same_on h h' r) -> hview h' hb = hview h hb.
Proof.
  intro H. unfold hview. f_equal. apply map_ext_in. intros r Hin. apply cell_tok_same, H, Hin.
Qed.

(* ------------------------------------------------------------------ *)
(* well-formed states; allocation                                      *)

Definition cell_ok (n : N) (c : hcell) : Prop :=
  match c with CBase _ => True | CVer u _ => u < n | CFail u => u < n end.
Definition heap_ok (n : N) (h : heap) : Prop := forall k c, In (k, c) h -> k < n /\ cell_ok n c.
Definition slots_ok (n : N) (l : list (N * hbundle)) : Prop :=
  forall k hb, In (k, hb) l -> forall r, In r (hb_refs hb) -> r < n.
Definition hwf (σ : hst) : Prop := heap_ok (h_next σ) (h_heap σ) /\ slots_ok (h_next σ) (h_bs σ).

(* h' agrees with h below n *)
Definition hext (n : N) (h h' : heap) : Prop := forall k, k < n -> blookup k h' = blookup k h.

Lemma hext_refl n h : hext n h h.
Proof. intros k _. reflexivity. Qed.
Lemma hext_trans n n' h h' h'' : n <= n' -> hext n h h' -> hext n' h' h'' -> hext n h h''.
Proof. intros Hle H1 H2 k Hk. rewrite H2 by lia. apply H1, Hk. Qed.
Lemma hext_cons n h c : hext n h ((n, c) :: h).
Proof.
  intros k Hk. rewrite blookup_cons. destruct (n =? k) eqn:E; [apply N.eqb_eq in E; lia|reflexivity].
Qed.

Lemma heap_ok_lookup n h k c : heap_ok n h -> blookup k h = Some c -> k < n /\ cell_ok n c.
Proof. intros Hok Hl. apply (Hok k c), blookup_In, Hl. Qed.

Lemma cell_ok_mono n n' c : n <= n' -> cell_ok n c -> cell_ok n' c.
Proof. destruct c; cbn [cell_ok]; intros; try exact I; lia. Qed.
Lemma heap_ok_mono n n' h : n <= n' -> heap_ok n h -> heap_ok n' h.
Proof.
  intros Hle Hok k c Hin. destruct (Hok k c Hin) as [Hk Hc]. split; [lia|exact (cell_ok_mono n n' c Hle Hc)].
Qed.
Lemma heap_ok_cons n h c : heap_ok n h -> cell_ok n c -> heap_ok (n + 1) ((n, c) :: h).
Proof.
  intros Hok Hc k c' [Heq|Hin].
  - inversion Heq; subst k c'. split; [lia|apply (cell_ok_mono n); [lia|exact Hc]].
  - destruct (Hok k c' Hin) as [Hk Hc']. split; [lia|apply (cell_ok_mono n); [lia|exact Hc']].
Qed.
Lemma slots_ok_mono n n' l : n <= n' -> slots_ok n l -> slots_ok n' l.
Proof. intros Hle Hok k hb Hin r Hr. specialize (Hok k hb Hin r Hr). lia. Qed.

Lemma hext_same n h h' r : heap_ok n h -> hext n h h' -> r < n -> same_on h h' r.
Proof.
  intros Hok Hext Hr. split; [apply Hext, Hr|].
  unfold cell_mac. rewrite Hext; [reflexivity|].
  unfold base_of. destruct (blookup r h) as [[t|u cs|u]|] eqn:E; try exact Hr;
    destruct (heap_ok_lookup n h r _ Hok E) as [_ Hc]; exact Hc.
Qed.

Lemma hext_view n h h' hb :
  heap_ok n h -> hext n h h' -> (forall r, In r (hb_refs hb) -> r < n) -> hview h' hb = hview h hb.
Proof. intros Hok Hext Hr. apply hview_same. intros r Hin. apply (hext_same n); auto. Qed.

Lemma hext_base n h h' r : hext n h h' -> r < n -> base_of h' r = base_of h r.
Proof. intros Hext Hr. apply base_of_same, Hext, Hr. Qed.

(* the slots' views survive any extension *)
Lemma hext_views n h h' (l : list (N * hbundle)) :
  heap_ok n h -> hext n h h' -> slots_ok n l ->
  map (fun e => (fst e, hview h' (snd e))) l = map (fun e => (fst e, hview h (snd e))) l.
Proof.
  intros Hok Hext Hs. apply map_ext_in_slots. intros k hb Hin.
  apply (hext_view n); auto. intros r Hr. exact (Hs k hb Hin r Hr).
Qed.

(* halloc *)
Lemma halloc_spec h n cs h' n' rs :
  halloc h n cs = (h', n', rs) ->
  n' = n + N.of_nat (List.length cs) /\ hext n h h' /\
  map (fun r => blookup r h') rs = map Some cs /\
  (forall r, In r rs -> n <= r < n') /\ NoDup rs /\
  (heap_ok n h -> Forall (cell_ok n) cs -> heap_ok n' h').
Proof.
  revert h n h' n' rs. induction cs as [|c cs IH]; intros h n h' n' rs; cbn [halloc].
  - intro H. inversion H; subst. cbn [List.length map].
    split; [lia|]. split; [apply hext_refl|]. split; [reflexivity|].
    split; [intros r []|]. split; [constructor|]. intros Hok _. exact Hok.
  - destruct (halloc ((n, c) :: h) (n + 1) cs) as [[h1 n1] rs1] eqn:E. intro H. inversion H; subst. clear H.
    destruct (IH _ _ _ _ _ E) as [Hn [Hext [Hget [Hrng [Hnd Hok]]]]].
    cbn [List.length map].
    split; [lia|]. split.
    { apply (hext_trans n (n + 1) h ((n, c) :: h) h'); [lia|apply hext_cons|exact Hext]. }
    split.
    { f_equal; [|exact Hget]. rewrite Hext by lia. rewrite blookup_cons, N.eqb_refl. reflexivity. }
    split.
    { intros r [<-|Hr]; [lia|]. apply Hrng in Hr. lia. }
    split.
    { constructor; [|exact Hnd]. intro Hin. apply Hrng in Hin. lia. }
    intros Hok0 Hall. inversion Hall; subst. apply Hok.
    + apply heap_ok_cons; assumption.
    + eapply Forall_impl; [|eassumption]. intros c0 Hc0. apply (cell_ok_mono n); [lia|exact Hc0].
Qed.

Lemma Forall_cell_ok_base n ts : Forall (cell_ok n) (map CBase ts).
Proof. apply Forall_forall. intros c Hin. apply in_map_iff in Hin. destruct Hin as [t [<- _]]. exact I. Qed.

(* fresh base cells show exactly the tokens they were made from *)
Lemma halloc_base_view h n ts h' n' rs :
  halloc h n (map CBase ts) = (h', n', rs) -> map (cell_tok h') rs = ts.
Proof.
  intro H. destruct (halloc_spec _ _ _ _ _ _ H) as [_ [_ [Hget _]]].
  clear H. revert ts Hget. induction rs as [|r rs IH]; intros [|t ts]; cbn [map]; intro Hget; try discriminate; [reflexivity|].
  inversion Hget as [[H1 H2]]. f_equal; [|apply IH; exact H2].
  unfold cell_tok. rewrite H1. reflexivity.
Qed.
Lemma halloc_base_self h n ts h' n' rs :
  halloc h n (map CBase ts) = (h', n', rs) -> forall r, In r rs -> base_of h' r = r.
Proof.
  intro H. destruct (halloc_spec _ _ _ _ _ _ H) as [_ [_ [Hget _]]].
  clear H. revert ts Hget. induction rs as [|r0 rs IH]; intros [|t ts]; cbn [map]; intros Hget r Hin; try discriminate; try contradiction.
  inversion Hget as [[H1 H2]]. destruct Hin as [<-|Hin]; [|exact (IH ts H2 r Hin)].
  unfold base_of. rewrite H1. reflexivity.
Qed.

(* ------------------------------------------------------------------ *)
(* base objects                                                        *)

(* the macaroon an entry shows is the macaroon of its base object *)
Lemma tok_mac_cell_tok h r : tok_mac (cell_tok h r) = cell_mac h (base_of h r).
Proof.
  unfold cell_tok, base_of. destruct (blookup r h) as [[t|u cs|u]|] eqn:E.
  - unfold cell_mac. rewrite E. reflexivity.
  - destruct (cell_mac h u); reflexivity.
  - destruct (cell_mac h u); reflexivity.
  - unfold cell_mac. rewrite E. reflexivity.
Qed.

Lemma is_perm_cell_tok loc h r :
  is_perm loc (cell_tok h r) = match cell_mac h (base_of h r) with Some m => m_loc m =? loc | None => false end.
Proof. unfold is_perm. rewrite tok_mac_cell_tok. reflexivity. Qed.

(* ------------------------------------------------------------------ *)
(* Verify: fresh wrappers around fresh copies                          *)

(* what a verification result for a token may be: a permission token becomes TVer / TFail of ITS macaroon (or anything
   that is neither), every other token stays *)
Definition vshape (loc : N) (t t' : tok) : Prop :=
  if is_perm loc t
  then match t' with TVer m _ => tok_mac t = Some m | TFail m => tok_mac t = Some m | _ => True end
  else t' = t.

Lemma verify_tok_shape vt b t : vshape (b_loc b) t (verify_tok vt b t).
Proof.
  unfold vshape, verify_tok. destruct (is_perm (b_loc b) t) eqn:Hp; [|reflexivity].
  destruct (tok_mac t) as [m|] eqn:Hm.
  - destruct (vlookup vt (m_id m) _) as [|[cs|]]; try exact I; reflexivity.
  - apply is_perm_has_mac in Hp. destruct Hp as [m Hm']. rewrite Hm in Hm'. discriminate.
Qed.

Lemma clookup_all_fst b ts : forall c l c1, clookup_all b ts c = (l, c1) -> map fst l = ts.
Proof.
  induction ts as [|t r IH]; intros c l c1; cbn [clookup_all].
  - intro H. inversion H. reflexivity.
  - destruct (is_perm (b_loc b) t).
    + destruct (tok_mac t) as [m|].
      * destruct (cache_get c (cache_key b m)) as [ca hit].
        destruct (clookup_all b r ca) as [rest c2] eqn:E. intro H. inversion H; subst.
        cbn [map fst]. f_equal. exact (IH _ _ _ E).
      * destruct (clookup_all b r c) as [rest c2] eqn:E. intro H. inversion H; subst.
        cbn [map fst]. f_equal. exact (IH _ _ _ E).
    + destruct (clookup_all b r c) as [rest c2] eqn:E. intro H. inversion H; subst.
      cbn [map fst]. f_equal. exact (IH _ _ _ E).
Qed.

Lemma cfill_shape vt b l : forall c ts' c' lg,
  cfill vt b l c = (ts', c', lg) -> Forall2 (vshape (b_loc b)) (map fst l) ts'.
Proof.
  induction l as [|[t hit] r IH]; intros c ts' c' lg; cbn [cfill].
  - intro H. inversion H. constructor.
  - cbn [map fst]. destruct (is_perm (b_loc b) t) eqn:Hp.
    + destruct (tok_mac t) as [m|] eqn:Hm.
      * destruct hit as [cs|].
        -- destruct (cfill vt b r c) as [[ts1 c2] lg1] eqn:E. intro H. inversion H; subst.
           constructor; [|exact (IH _ _ _ _ E)]. unfold vshape. rewrite Hp. exact Hm.
        -- match goal with |- context [cfill vt b r ?cc] => destruct (cfill vt b r cc) as [[ts1 c2] lg1] eqn:E end.
           intro H. inversion H; subst.
           constructor; [apply verify_tok_shape|exact (IH _ _ _ _ E)].
      * destruct (cfill vt b r c) as [[ts1 c2] lg1] eqn:E. intro H. inversion H; subst.
        constructor; [|exact (IH _ _ _ _ E)].
        apply is_perm_has_mac in Hp. destruct Hp as [m Hm']. rewrite Hm in Hm'. discriminate.
    + destruct (cfill vt b r c) as [[ts1 c2] lg1] eqn:E. intro H. inversion H; subst.
      constructor; [|exact (IH _ _ _ _ E)]. unfold vshape. rewrite Hp. reflexivity.
Qed.

Lemma cverify_list_shape vt b ts c ts' c' lg :
  cverify_list vt b ts c = (ts', c', lg) -> Forall2 (vshape (b_loc b)) ts ts'.
Proof.
  unfold cverify_list. destruct (clookup_all b ts c) as [l c1] eqn:E. intro H.
  rewrite <- (clookup_all_fst _ _ _ _ _ E). exact (cfill_shape _ _ _ _ _ _ _ H).
Qed.

Lemma Forall2_length {A B} (R : A -> B -> Prop) l l' : Forall2 R l l' -> List.length l = List.length l'.
Proof. induction 1; cbn [List.length]; [reflexivity|f_equal; assumption]. Qed.


(* a verification wrapper at cell k around base object u *)
Definition wrapper_at (h : heap) (k u : N) : Prop :=
  (exists cs, blookup k h = Some (CVer u cs)) \/ blookup k h = Some (CFail u).

Lemma wrap_alloc_spec h n t' h1 n1 r1 :
  wrap_alloc h n t' = (h1, n1, r1) -> heap_ok n h ->
  n < n1 /\ hext n h h1 /\ heap_ok n1 h1 /\ n <= r1 < n1 /\ cell_tok h1 r1 = t' /\
  (base_of h1 r1 = r1 \/ (base_of h1 r1 + 1 = r1 /\ n <= base_of h1 r1)) /\
  (forall k c, blookup k h1 = Some c ->
     blookup k h = Some c \/
     (n <= k /\ match c with
                | CBase t => raw_tok t = true
                | CVer u cs => k = u + 1 /\ u = n /\ r1 = k /\ exists m, t' = TVer m cs /\ blookup u h1 = Some (CBase (TUnv m))
                | CFail u => k = u + 1 /\ u = n /\ r1 = k
                end)).
Proof.
  intros H Hok.
  assert (Hne : (n + 1 =? n) = false) by (apply N.eqb_neq; lia).
  assert (G1 : forall c, hext n h ((n, c) :: h)) by (intro; apply hext_cons).
  assert (G2 : forall c1 c2, hext n h ((n + 1, c1) :: (n, c2) :: h)).
  { intros c1 c2. apply (hext_trans n (n + 1) h ((n, c2) :: h)); [lia|apply hext_cons|apply hext_cons]. }
  destruct t' as [s|s|m|m cs|m]; cbn [wrap_alloc] in H; inversion H; subst h1 n1 r1; clear H.
  all: try (split; [lia|]; split; [apply G1|]; split; [apply heap_ok_cons; [exact Hok|exact I]|]; split; [lia|];
            split; [unfold cell_tok; rewrite blookup_cons, N.eqb_refl; reflexivity|];
            split; [left; unfold base_of; rewrite blookup_cons, N.eqb_refl; reflexivity|];
            intros k c Hl; rewrite blookup_cons in Hl; destruct (n =? k) eqn:E;
            [apply N.eqb_eq in E; inversion Hl; subst; right; split; [lia|reflexivity]|left; exact Hl]).
  - (* TVer *)
    split; [lia|]. split; [apply G2|]. split.
    { replace (n + 2) with (n + 1 + 1) by lia. apply heap_ok_cons; [apply heap_ok_cons; [exact Hok|exact I]|cbn [cell_ok]; lia]. }
    split; [lia|]. split.
    { unfold cell_tok. rewrite blookup_cons, N.eqb_refl. unfold cell_mac. rewrite !blookup_cons, Hne, N.eqb_refl. reflexivity. }
    split.
    { right. unfold base_of. rewrite blookup_cons, N.eqb_refl. split; [reflexivity|lia]. }
    intros k c Hl. rewrite !blookup_cons in Hl. destruct (n + 1 =? k) eqn:E1.
    + apply N.eqb_eq in E1. inversion Hl; subst. right. split; [lia|]. split; [reflexivity|]. split; [reflexivity|].
      split; [reflexivity|]. exists m. split; [reflexivity|]. rewrite !blookup_cons, Hne, N.eqb_refl. reflexivity.
    + destruct (n =? k) eqn:E2; [|left; exact Hl].
      apply N.eqb_eq in E2. inversion Hl; subst. right. split; [lia|reflexivity].
  - (* TFail *)
    split; [lia|]. split; [apply G2|]. split.
    { replace (n + 2) with (n + 1 + 1) by lia. apply heap_ok_cons; [apply heap_ok_cons; [exact Hok|exact I]|cbn [cell_ok]; lia]. }
    split; [lia|]. split.
    { unfold cell_tok. rewrite blookup_cons, N.eqb_refl. unfold cell_mac. rewrite !blookup_cons, Hne, N.eqb_refl. reflexivity. }
    split.
    { right. unfold base_of. rewrite blookup_cons, N.eqb_refl. split; [reflexivity|lia]. }
    intros k c Hl. rewrite !blookup_cons in Hl. destruct (n + 1 =? k) eqn:E1.
    + apply N.eqb_eq in E1. inversion Hl; subst. right. split; [lia|]. split; [reflexivity|]. split; reflexivity.
    + destruct (n =? k) eqn:E2; [|left; exact Hl].
      apply N.eqb_eq in E2. inversion Hl; subst. right. split; [lia|reflexivity].
Qed.

Lemma Forall2_cons_inv {A B} (R : A -> B -> Prop) a l b l' : Forall2 R (a :: l) (b :: l') -> R a b /\ Forall2 R l l'.
Proof. intro H. inversion H; subst. auto. Qed.

Lemma wrapper_at_ext n h h' k u : hext n h h' -> k < n -> (wrapper_at h' k u <-> wrapper_at h k u).
Proof. intros Hext Hk. unfold wrapper_at. rewrite (Hext k Hk). tauto. Qed.

(* the new cells of a Verify call, as found in the final heap h' *)
Definition new_desc (loc : N) (h0 : heap) (rs : list N) (ts' : list tok) (h' : heap) (n k : N) (c : hcell) : Prop :=
  match c with
  | CBase t => raw_tok t = true
  | CVer u cs => k = u + 1 /\ n <= u /\
                 exists r m, In (r, TVer m cs) (combine rs ts') /\ is_perm loc (cell_tok h0 r) = true /\
                             blookup u h' = Some (CBase (TUnv m))
  | CFail u => k = u + 1 /\ n <= u
  end.

Lemma hrewrap_spec loc h0 n0 : heap_ok n0 h0 ->
  forall rs ts' h n h' n' rs',
  hrewrap loc h0 h n rs ts' = (h', n', rs') ->
  n0 <= n -> hext n0 h0 h -> heap_ok n h ->
  (forall r, In r rs -> r < n0) ->
  n <= n' /\ hext n h h' /\ heap_ok n' h' /\
  (forall r, In r rs' -> r < n') /\
  (List.length rs = List.length ts' -> Forall2 (vshape loc) (map (cell_tok h0) rs) ts' -> map (cell_tok h') rs' = ts') /\
  (* every new entry is an old non-permission entry or a fresh cell that is its own base or sits on a fresh base *)
  (forall r', In r' rs' ->
     (In r' rs /\ is_perm loc (cell_tok h0 r') = false) \/
     (n <= r' /\ (base_of h' r' = r' \/ (base_of h' r' + 1 = r' /\ n <= base_of h' r')))) /\
  (* the cells of the new heap *)
  (forall k c, blookup k h' = Some c -> blookup k h = Some c \/ (n <= k /\ new_desc loc h0 rs ts' h' n k c)) /\
  (* no new entry is the base object of a new wrapper *)
  (forall r' k u, In r' rs' -> n <= k -> wrapper_at h' k u -> r' <> u).
Proof.
  intro Hok0. induction rs as [|r rr IH]; intros ts' h n h' n' rs' H Hn Hext Hok Hrs.
  - cbn [hrewrap] in H. inversion H; subst.
    split; [lia|]. split; [apply hext_refl|]. split; [exact Hok|]. split; [intros r []|].
    split; [intros Hlen _; destruct ts'; [reflexivity|discriminate]|].
    split; [intros r' []|]. split; [intros k c Hl; left; exact Hl|intros r' k u []].
  - destruct ts' as [|t' tr].
    { cbn [hrewrap] in H. inversion H; subst.
      split; [lia|]. split; [apply hext_refl|]. split; [exact Hok|]. split; [intros r0 []|].
      split; [intros Hlen _; discriminate|].
      split; [intros r' []|]. split; [intros k c Hl; left; exact Hl|intros r' k u []]. }
    cbn [hrewrap] in H.
    assert (Hr : r < n0) by (apply Hrs; left; reflexivity).
    assert (Hrr : forall x, In x rr -> x < n0) by (intros x Hx; apply Hrs; right; exact Hx).
    destruct (is_perm loc (cell_tok h0 r)) eqn:Hp.
    + destruct (wrap_alloc h n t') as [[h1 n1] r1] eqn:Ew.
      destruct (hrewrap loc h0 h1 n1 rr tr) as [[h2 n2] rs1] eqn:E.
      inversion H; subst h2 n2 rs'. clear H.
      destruct (wrap_alloc_spec _ _ _ _ _ _ Ew Hok) as [Hlt1 [Hext1 [Hok1 [Hr1 [Hv1 [Hb1 Hl1]]]]]].
      assert (Hext01 : hext n0 h0 h1) by (apply (hext_trans n0 n h0 h); assumption).
      destruct (IH tr _ _ _ _ _ E ltac:(lia) Hext01 Hok1 Hrr) as [Hle [Hex' [Hok' [Hlt [Hview [Hsh [Hcells Hown]]]]]]].
      assert (Hsame1 : same_on h1 h' r1) by (apply (hext_same n1); [exact Hok1|exact Hex'|lia]).
      assert (Hbase1 : base_of h' r1 = base_of h1 r1) by (apply (hext_base n1); [exact Hex'|lia]).
      split; [lia|]. split.
      { apply (hext_trans n n1 h h1); [lia|exact Hext1|exact Hex']. }
      split; [exact Hok'|]. split.
      { intros x [<-|Hx]; [lia|apply Hlt, Hx]. }
      split.
      { intros Hlen HF. cbn [map] in HF. apply Forall2_cons_inv in HF. destruct HF as [Hg HF']. cbn [map]. f_equal.
        - rewrite (cell_tok_same _ _ _ Hsame1). exact Hv1.
        - apply Hview; [cbn [List.length] in Hlen; lia|exact HF']. }
      split.
      { intros r' [<-|Hin].
        - right. split; [lia|]. rewrite Hbase1. destruct Hb1 as [Hb1|[Hb1 Hb1']]; [left; exact Hb1|right; split; assumption].
        - destruct (Hsh r' Hin) as [[Hin' Hnp]|[Hge Hb']].
          + left. split; [right; exact Hin'|exact Hnp].
          + right. split; [lia|]. destruct Hb' as [Hb'|[Hb' Hb'']]; [left; exact Hb'|right; split; [exact Hb'|lia]]. }
      split.
      { intros k c Hl. destruct (Hcells k c Hl) as [Hl'|[Hge Hd]].
        - destruct (Hl1 k c Hl') as [Hl''|[Hge Hd]]; [left; exact Hl''|]. right. split; [exact Hge|].
          destruct c as [t|u cs|u]; cbn [new_desc].
          + exact Hd.
          + destruct Hd as [Hk [Hu [_ [m [Ht Hbu]]]]]. split; [exact Hk|]. split; [lia|].
            exists r, m. split; [left; rewrite Ht; reflexivity|]. split; [exact Hp|].
            rewrite Hex' by lia. exact Hbu.
          + destruct Hd as [Hk [Hu _]]. split; [exact Hk|lia].
        - right. split; [lia|]. destruct c as [t|u cs|u]; cbn [new_desc] in *.
          + exact Hd.
          + destruct Hd as [Hk [Hu [x [m [Hin [Hpx Hbu]]]]]]. split; [exact Hk|]. split; [lia|].
            exists x, m. split; [right; exact Hin|]. auto.
          + destruct Hd as [Hk Hu]. split; [exact Hk|lia]. }
      (* ownership *)
      assert (Hnew : forall k u, n <= k -> wrapper_at h' k u -> (u = n /\ r1 = n + 1) \/ (n1 <= k /\ n1 <= u)).
      { intros k u Hk Hw. destruct (N.lt_ge_cases k n1) as [Hk1|Hk1].
        - left. apply (wrapper_at_ext n1 h1 h' k u Hex' Hk1) in Hw.
          destruct Hw as [[cs Hw]|Hw]; destruct (Hl1 k _ Hw) as [Hold|[_ Hd]];
            try (destruct (heap_ok_lookup _ _ _ _ Hok Hold) as [Hc _]; lia).
          + destruct Hd as [Hku [Hu [Hrk _]]]. split; [exact Hu|lia].
          + destruct Hd as [Hku [Hu Hrk]]. split; [exact Hu|lia].
        - right. split; [exact Hk1|]. destruct Hw as [[cs Hw]|Hw]; destruct (Hcells k _ Hw) as [Hold|[_ Hd]];
            try (destruct (heap_ok_lookup _ _ _ _ Hok1 Hold) as [Hc _]; lia).
          + cbn [new_desc] in Hd. tauto.
          + cbn [new_desc] in Hd. tauto. }
      intros r' k u [<-|Hin] Hk Hw.
      * destruct (Hnew k u Hk Hw) as [[Hu Hrk]|[_ Hu]]; lia.
      * destruct (Hnew k u Hk Hw) as [[Hu _]|[Hk1 _]]; [|exact (Hown r' k u Hin Hk1 Hw)].
        subst u. destruct (Hsh r' Hin) as [[Hin' _]|[Hge _]]; [specialize (Hrr r' Hin')|]; lia.
    + destruct (hrewrap loc h0 h n rr tr) as [[h1 n1] rs1] eqn:E.
      inversion H; subst h1 n1 rs'. clear H.
      destruct (IH tr _ _ _ _ _ E Hn Hext Hok Hrr) as [Hle [Hex' [Hok' [Hlt [Hview [Hsh [Hcells Hown]]]]]]].
      split; [exact Hle|]. split; [exact Hex'|]. split; [exact Hok'|]. split.
      { intros x [<-|Hx]; [lia|apply Hlt, Hx]. }
      split.
      { intros Hlen HF. cbn [map] in HF. apply Forall2_cons_inv in HF. destruct HF as [Hg HF']. cbn [map]. f_equal.
        - unfold vshape in Hg. rewrite Hp in Hg. subst t'.
          apply cell_tok_same. apply (hext_same n0); [exact Hok0| |exact Hr].
          apply (hext_trans n0 n h0 h h'); [exact Hn|exact Hext|exact Hex'].
        - apply Hview; [cbn [List.length] in Hlen; lia|exact HF']. }
      split.
      { intros r' [<-|Hin].
        - left. split; [left; reflexivity|exact Hp].
        - destruct (Hsh r' Hin) as [[Hin' Hnp]|Hfresh]; [left; split; [right; exact Hin'|exact Hnp]|right; exact Hfresh]. }
      split.
      { intros k c Hl. destruct (Hcells k c Hl) as [Hl'|[Hge Hd]]; [left; exact Hl'|]. right. split; [exact Hge|].
        destruct c as [t|u cs|u]; cbn [new_desc] in *; try exact Hd.
        destruct Hd as [Hk [Hu [x [m [Hin [Hpx Hbu]]]]]]. split; [exact Hk|]. split; [exact Hu|].
        exists x, m. split; [right; exact Hin|]. auto. }
      intros r' k u [<-|Hin] Hk Hw; [|exact (Hown r' k u Hin Hk Hw)].
      destruct Hw as [[cs Hw]|Hw]; destruct (Hcells k _ Hw) as [Hold|[_ Hd]];
        try (destruct (heap_ok_lookup _ _ _ _ Hok Hold) as [Hc _]; lia); cbn [new_desc] in Hd; lia.
Qed.


(* ------------------------------------------------------------------ *)
(* Attenuate: in place                                                 *)

Lemma blookup_map_cell (f : N -> hcell -> hcell) k (l : heap) :
  blookup k (map (fun kc => (fst kc, f (fst kc) (snd kc))) l) = option_map (f k) (blookup k l).
Proof.
  induction l as [|[k0 c0] l IH]; cbn [map blookup fst snd]; [reflexivity|].
  destruct (k0 =? k) eqn:E; [apply N.eqb_eq in E; subst k0; reflexivity|exact IH].
Qed.

Section Att.
Variables (at_ : atable) (cst : cstable) (h : heap) (hb : hbundle) (cl : N).
Let loc := hb_loc hb.
Let TW := touched h hb.
Let TB := map (base_of h) TW.
Let h' := hatt_heap at_ cst h hb cl.

Lemma hatt_lookup k :
  blookup k h' = option_map (att_cell at_ cst loc cl TW TB k) (blookup k h).
Proof.
  unfold h', hatt_heap. apply (blookup_map_cell (att_cell at_ cst (hb_loc hb) cl (touched h hb) (map (base_of h) (touched h hb)))).
Qed.

Lemma hatt_base_of r : base_of h' r = base_of h r.
Proof.
  unfold base_of. rewrite hatt_lookup. destruct (blookup r h) as [[t|u cs|u]|]; cbn [option_map att_cell]; try reflexivity.
  - destruct (existsb (N.eqb r) TB); [destruct (att_tok at_ cst loc cl t)|]; reflexivity.
  - destruct (existsb (N.eqb r) TW); reflexivity.
Qed.

(* the macaroon of a base object after the call *)
Definition att_mac (u : N) (m : mac) : mac :=
  if existsb (N.eqb u) TB && (m_loc m =? loc)
  then match alookup at_ (m_id m) cl with VRes (Some i) => retag m i | _ => m end
  else m.

Lemma att_tok_mac_l t m : tok_mac t = Some m ->
  tok_mac (match att_tok at_ cst loc cl t with Some t' => t' | None => t end) =
  Some (if m_loc m =? loc then match alookup at_ (m_id m) cl with VRes (Some i) => retag m i | _ => m end else m).
Proof.
  intro Hm. unfold att_tok. rewrite (is_perm_mac loc t m Hm).
  destruct (m_loc m =? loc); [|exact Hm].
  destruct t as [s|s|m0|m0 cs|m0]; cbn [tok_mac] in Hm; try discriminate; inversion Hm; subst m0;
    destruct (alookup at_ (m_id m) cl) as [|[i|]]; reflexivity.
Qed.

Lemma hatt_cell_mac u : cell_mac h' u = option_map (att_mac u) (cell_mac h u).
Proof.
  unfold cell_mac. rewrite hatt_lookup.
  destruct (blookup u h) as [[t|u0 cs|u0]|]; cbn [option_map att_cell]; try reflexivity.
  - unfold att_mac. destruct (existsb (N.eqb u) TB); cbn [andb].
    + destruct (tok_mac t) as [m|] eqn:Hm.
      * pose proof (att_tok_mac_l t m Hm) as HA.
        destruct (att_tok at_ cst loc cl t) as [t'|]; cbv beta iota; rewrite HA; reflexivity.
      * assert (Hnp : is_perm loc t = false) by (unfold is_perm; rewrite Hm; reflexivity).
        rewrite att_tok_nonperm_l by exact Hnp. cbv beta iota. rewrite Hm. reflexivity.
    + cbv beta iota. destruct (tok_mac t); reflexivity.
  - destruct (existsb (N.eqb u) TW); reflexivity.
Qed.

Lemma In_TW r : In r TW <-> In r (hb_refs hb) /\ is_perm loc (cell_tok h r) = true.
Proof. unfold TW, touched. fold loc. apply filter_In. Qed.

Lemma In_TB_of_TW r : In r TW -> In (base_of h r) TB.
Proof. intro H. unfold TB. apply in_map. exact H. Qed.

(* every base object touched carries a permission macaroon *)
Lemma TB_perm u : In u TB -> exists m, cell_mac h u = Some m /\ (m_loc m =? loc) = true.
Proof.
  unfold TB. intro H. apply in_map_iff in H. destruct H as [r [<- Hr]]. apply In_TW in Hr. destruct Hr as [_ Hp].
  rewrite is_perm_cell_tok in Hp. destruct (cell_mac h (base_of h r)) as [m|]; [|discriminate]. exists m. auto.
Qed.

(* an entry of the bundle itself: its token after the call is the value model's attenuation of its token before *)
Lemma hatt_own r t1 :
  In r (hb_refs hb) -> att_tok at_ cst loc cl (cell_tok h r) = Some t1 -> cell_tok h' r = t1.
Proof.
  intros Hin Hatt.
  destruct (is_perm loc (cell_tok h r)) eqn:Hp.
  - assert (HW : In r TW) by (apply In_TW; auto).
    assert (HB : In (base_of h r) TB) by (apply In_TB_of_TW, HW).
    apply memN_In in HW. apply memN_In in HB.
    unfold cell_tok in *. unfold base_of in HB. rewrite hatt_lookup.
    destruct (blookup r h) as [[t|u cs|u]|] eqn:E; cbn [option_map att_cell].
    + rewrite HB, Hatt. reflexivity.
    + rewrite HW, hatt_cell_mac. destruct (cell_mac h u) as [m|] eqn:Hm; [|discriminate Hp].
      cbn [option_map]. unfold att_mac. rewrite HB.
      assert (Hl : (m_loc m =? loc) = true) by (rewrite (is_perm_mac loc (TVer m cs) m eq_refl) in Hp; exact Hp).
      rewrite Hl. cbn [andb].
      destruct (attenuate_verified_appends_l _ _ _ _ _ _ _ Hp Hatt) as [i [Ha ->]]. rewrite Ha. reflexivity.
    + rewrite hatt_cell_mac. destruct (cell_mac h u) as [m|] eqn:Hm; [|discriminate Hp].
      cbn [option_map]. unfold att_mac. rewrite HB.
      assert (Hl : (m_loc m =? loc) = true) by (rewrite (is_perm_mac loc (TFail m) m eq_refl) in Hp; exact Hp).
      rewrite Hl. cbn [andb].
      unfold att_tok in Hatt. rewrite Hp in Hatt.
      destruct (alookup at_ (m_id m) cl) as [|[i|]]; try discriminate. inversion Hatt. reflexivity.
    + discriminate Hp.
  - rewrite att_tok_nonperm_l in Hatt by exact Hp. inversion Hatt; subst t1. clear Hatt.
    assert (HW : existsb (N.eqb r) TW = false).
    { destruct (existsb (N.eqb r) TW) eqn:EW; [|reflexivity]. apply memN_In, In_TW in EW. destruct EW as [_ EW].
      rewrite Hp in EW. discriminate. }
    pose proof Hp as Hp'. rewrite is_perm_cell_tok in Hp'.
    assert (Hmac : cell_mac h' (base_of h r) = cell_mac h (base_of h r)).
    { rewrite hatt_cell_mac. destruct (cell_mac h (base_of h r)) as [m|]; [|reflexivity].
      cbn [option_map]. unfold att_mac. rewrite Hp', andb_false_r. reflexivity. }
    unfold cell_tok. unfold base_of in Hmac. rewrite hatt_lookup.
    destruct (blookup r h) as [[t|u cs|u]|] eqn:E; cbn [option_map att_cell].
    + assert (Ht : cell_tok h r = t) by (unfold cell_tok; rewrite E; reflexivity). rewrite Ht in Hp.
      destruct (existsb (N.eqb r) TB); [rewrite att_tok_nonperm_l by exact Hp|]; reflexivity.
    + rewrite HW, Hmac. reflexivity.
    + rewrite Hmac. reflexivity.
    + reflexivity.
Qed.

(* an entry that reaches nothing the call touches *)
Lemma hatt_foreign r :
  ~ In r TW -> ~ In r TB -> ~ In (base_of h r) TB -> cell_tok h' r = cell_tok h r.
Proof.
  intros HW HB HU.
  assert (EW : existsb (N.eqb r) TW = false).
  { destruct (existsb (N.eqb r) TW) eqn:E; [apply memN_In in E; contradiction|reflexivity]. }
  assert (EB : existsb (N.eqb r) TB = false).
  { destruct (existsb (N.eqb r) TB) eqn:E; [apply memN_In in E; contradiction|reflexivity]. }
  assert (EU : existsb (N.eqb (base_of h r)) TB = false).
  { destruct (existsb (N.eqb (base_of h r)) TB) eqn:E; [apply memN_In in E; contradiction|reflexivity]. }
  assert (Hmac : cell_mac h' (base_of h r) = cell_mac h (base_of h r)).
  { rewrite hatt_cell_mac. destruct (cell_mac h (base_of h r)) as [m|]; [|reflexivity].
    cbn [option_map]. unfold att_mac. rewrite EU. reflexivity. }
  unfold cell_tok. unfold base_of in Hmac. rewrite hatt_lookup.
  destruct (blookup r h) as [[t|u cs|u]|]; cbn [option_map att_cell].
  - rewrite EB. reflexivity.
  - rewrite EW, Hmac. reflexivity.
  - rewrite Hmac. reflexivity.
  - reflexivity.
Qed.

Lemma hatt_heap_ok n : heap_ok n h -> heap_ok n h'.
Proof.
  intros Hok k c Hin. unfold h', hatt_heap in Hin. apply in_map_iff in Hin.
  destruct Hin as [[k0 c0] [Heq Hin0]]. cbn [fst snd] in Heq. inversion Heq; subst k c. clear Heq.
  destruct (Hok k0 c0 Hin0) as [Hk Hc]. split; [exact Hk|].
  destruct c0 as [t|u cs|u]; cbn [att_cell].
  - destruct (existsb _ _); [destruct (att_tok _ _ _ _ t)|]; exact I.
  - destruct (existsb _ _); exact Hc.
  - exact Hc.
Qed.

End Att.

(* ------------------------------------------------------------------ *)
(* 1. REFINEMENT of the value model                                    *)

Definition slots_view (h : heap) (l : list (N * hbundle)) : list (N * bundle) :=
  map (fun e => (fst e, hview h (snd e))) l.
(* the heap state shows the value state *)
Definition hR (σ : hst) (β : bst) : Prop :=
  hwf σ /\ slots_view (h_heap σ) (h_bs σ) = bs β /\ h_cs σ = cs_ β.

Lemma hR_lookup σ β k : hR σ β -> blookup k (bs β) = option_map (hview (h_heap σ)) (blookup k (h_bs σ)).
Proof. intros [_ [Hv _]]. rewrite <- Hv. apply blookup_map. Qed.

Lemma slot_refs_lt σ k hb : hwf σ -> blookup k (h_bs σ) = Some hb -> forall r, In r (hb_refs hb) -> r < h_next σ.
Proof. intros [_ Hs] Hl. exact (Hs k hb (blookup_In _ _ _ Hl)). Qed.

Lemma slots_ok_bput n k hb l : slots_ok n l -> (forall r, In r (hb_refs hb) -> r < n) -> slots_ok n (bput k hb l).
Proof.
  intros Hs Hr k' hb' Hin. apply In_bput in Hin. destruct Hin as [Heq|Hin].
  - inversion Heq; subst. exact Hr.
  - exact (Hs k' hb' Hin).
Qed.

Lemma sim_ext σ β h' n' k hb' vb' cs' :
  hR σ β -> h_next σ <= n' -> hext (h_next σ) (h_heap σ) h' -> heap_ok n' h' ->
  (forall r, In r (hb_refs hb') -> r < n') -> hview h' hb' = vb' ->
  hR (mkHst h' n' (bput k hb' (h_bs σ)) cs') (mkBst (bput k vb' (bs β)) cs').
Proof.
  intros [[Hh Hs] [Hv Hc]] Hle Hext Hok' Hr Hview. split; [split|split]; cbn [h_heap h_next h_bs h_cs bs cs_].
  - exact Hok'.
  - apply slots_ok_bput; [apply (slots_ok_mono (h_next σ)); assumption|exact Hr].
  - unfold slots_view. rewrite bput_map, Hview. f_equal.
    rewrite <- Hv. unfold slots_view. apply (hext_views (h_next σ)); assumption.
  - reflexivity.
Qed.

Lemma sim_set σ β k hb' vb' :
  hR σ β -> (forall r, In r (hb_refs hb') -> r < h_next σ) -> hview (h_heap σ) hb' = vb' ->
  hR (mkHst (h_heap σ) (h_next σ) (bput k hb' (h_bs σ)) (h_cs σ)) (mkBst (bput k vb' (bs β)) (cs_ β)).
Proof.
  intros HR Hr Hview. destruct HR as [Hwf [Hv Hc]]. rewrite Hc.
  apply sim_ext; [split; [exact Hwf|split; [exact Hv|exact Hc]]|lia|apply hext_refl|exact (proj1 Hwf)|exact Hr|exact Hview].
Qed.

(* allocation of fresh base cells into a slot *)
Lemma sim_alloc σ β k loc old ts h' n' rs :
  hR σ β -> halloc (h_heap σ) (h_next σ) (map CBase ts) = (h', n', rs) ->
  (forall r, In r old -> r < h_next σ) ->
  hR (mkHst h' n' (bput k (mkHB loc (old ++ rs)) (h_bs σ)) (h_cs σ))
     (mkBst (bput k (mkB loc (map (cell_tok (h_heap σ)) old ++ ts)) (bs β)) (cs_ β)).
Proof.
  intros HR Ha Hold. pose proof HR as [[Hh Hs] [Hv Hc]]. rewrite Hc.
  destruct (halloc_spec _ _ _ _ _ _ Ha) as [Hn [Hext [_ [Hrng [_ Hok]]]]].
  apply sim_ext.
  - exact HR.
  - lia.
  - exact Hext.
  - apply Hok; [exact Hh|apply Forall_cell_ok_base].
  - cbn [hb_refs]. intros r Hin. apply in_app_or in Hin. destruct Hin as [Hin|Hin].
    + specialize (Hold r Hin). lia.
    + apply Hrng in Hin. lia.
  - unfold hview. cbn [hb_loc hb_refs]. rewrite map_app. f_equal. f_equal.
    + apply map_ext_in. intros r Hin. apply cell_tok_same. apply (hext_same (h_next σ)); auto.
    + exact (halloc_base_view _ _ _ _ _ _ Ha).
Qed.

Lemma isolated_disjoint σ k hb k' hb' :
  isolated σ k = true -> blookup k (h_bs σ) = Some hb -> In (k', hb') (h_bs σ) -> k' <> k ->
  forall x, In x (reach (h_heap σ) hb) -> ~ In x (reach (h_heap σ) hb').
Proof.
  unfold isolated. intros Hi Hl Hin Hne x Hx Hx'. rewrite Hl in Hi.
  rewrite forallb_forall in Hi. specialize (Hi _ Hin). cbn [fst snd] in Hi.
  destruct (k' =? k) eqn:E; [apply N.eqb_eq in E; contradiction|]. cbn [orb] in Hi.
  unfold disjointb in Hi. apply negb_true_iff in Hi.
  rewrite existsb_false_iff in Hi. specialize (Hi x Hx).
  rewrite existsb_false_iff in Hi. specialize (Hi x Hx'). rewrite N.eqb_refl in Hi. discriminate.
Qed.

Definition att_writes (h : heap) (hb : hbundle) : list N := touched h hb ++ map (base_of h) (touched h hb).
Lemma att_isolated_disjoint σ k hb k' hb' :
  att_isolated σ k = true -> blookup k (h_bs σ) = Some hb -> In (k', hb') (h_bs σ) -> k' <> k ->
  forall x, In x (att_writes (h_heap σ) hb) -> ~ In x (reach (h_heap σ) hb').
Proof.
  unfold att_isolated. intros Hi Hl Hin Hne x Hx Hx'. rewrite Hl in Hi.
  rewrite forallb_forall in Hi. specialize (Hi _ Hin). cbn [fst snd] in Hi.
  destruct (k' =? k) eqn:E; [apply N.eqb_eq in E; contradiction|]. cbn [orb] in Hi.
  unfold disjointb in Hi. apply negb_true_iff in Hi.
  rewrite existsb_false_iff in Hi. specialize (Hi x Hx).
  rewrite existsb_false_iff in Hi. specialize (Hi x Hx'). rewrite N.eqb_refl in Hi. discriminate.
Qed.

Lemma In_reach_ref h hb r : In r (hb_refs hb) -> In r (reach h hb).
Proof. intro H. unfold reach. apply in_or_app. left. exact H. Qed.
Lemma In_reach_base h hb r : In r (hb_refs hb) -> In (base_of h r) (reach h hb).
Proof. intro H. unfold reach. apply in_or_app. right. apply in_map. exact H. Qed.

(* everything an attenuation touches is reachable from the attenuated bundle *)
Lemma touched_reach h hb x :
  In x (touched h hb) \/ In x (map (base_of h) (touched h hb)) -> In x (reach h hb).
Proof.
  intros [H|H].
  - apply In_reach_ref. unfold touched in H. apply filter_In in H. tauto.
  - apply in_map_iff in H. destruct H as [r [<- Hr]]. apply In_reach_base.
    unfold touched in Hr. apply filter_In in Hr. tauto.
Qed.

Lemma bput_same_view {A} k (v : A) l : blookup k l = Some v -> forall p, In p (bput k v l) -> In p l.
Proof.
  intros Hl p Hin. apply In_bput in Hin. destruct Hin as [->|Hin]; [apply blookup_In, Hl|exact Hin].
Qed.

Lemma sim_attenuate T σ β b cl :
  hR σ β -> att_isolated σ b = true ->
  snd (hstep T σ (BAttenuate b cl)) = snd (bstep T β (BAttenuate b cl)) /\
  hR (fst (hstep T σ (BAttenuate b cl))) (fst (bstep T β (BAttenuate b cl))).
Proof.
  intros HR Hiso. pose proof HR as [[Hh Hs] [Hv Hc]].
  cbv beta iota zeta delta [hstep bstep]. rewrite (hR_lookup σ β b HR).
  destruct (blookup b (h_bs σ)) as [hb|] eqn:El; cbn [option_map]; [|split; [reflexivity|exact HR]].
  unfold hattenuate, attenuate. rewrite hview_loc.
  destruct (all_some (map (att_tok (t_a T) (t_cs T) (hb_loc hb) cl) (b_ts (hview (h_heap σ) hb)))) as [ts1|] eqn:Eall;
    cbn [fst snd]; (split; [reflexivity|]).
  - (* success *)
    split; [split|split]; cbn [h_heap h_next h_bs h_cs bs cs_].
    + apply hatt_heap_ok. exact Hh.
    + apply slots_ok_bput; [exact Hs|]. exact (Hs b hb (blookup_In _ _ _ El)).
    + rewrite <- Hv. unfold slots_view, bput. cbn [map fst snd]. f_equal.
      * (* the attenuated bundle itself *)
        f_equal. unfold hview. cbn [hb_loc hb_refs]. f_equal.
        apply all_some_map_Some in Eall. rewrite hview_ts, map_map in Eall.
        assert (HE : map Some (map (cell_tok (hatt_heap (t_a T) (t_cs T) (h_heap σ) hb cl)) (hb_refs hb)) = map Some ts1).
        { rewrite <- Eall, map_map. apply map_ext_in. intros r Hin.
          destruct (att_tok (t_a T) (t_cs T) (hb_loc hb) cl (cell_tok (h_heap σ) r)) as [t1|] eqn:Ea.
          - f_equal. apply hatt_own; assumption.
          - exfalso. assert (HN : In None (map (fun x => att_tok (t_a T) (t_cs T) (hb_loc hb) cl (cell_tok (h_heap σ) x)) (hb_refs hb))).
            { apply in_map_iff. exists r. auto. }
            rewrite Eall in HN. apply in_map_iff in HN. destruct HN as [? [? _]]. discriminate. }
        revert HE. generalize (map (cell_tok (hatt_heap (t_a T) (t_cs T) (h_heap σ) hb cl)) (hb_refs hb)).
        clear. intro l. revert ts1. induction l as [|a l IH]; intros [|t ts1]; cbn [map]; intro H; try discriminate; [reflexivity|].
        inversion H. f_equal. apply IH. assumption.
      * (* every other slot *)
        assert (HF : forall l, (forall p, In p l -> In p (h_bs σ)) ->
                  map (fun e => (fst e, hview (hatt_heap (t_a T) (t_cs T) (h_heap σ) hb cl) (snd e))) (filter (fun e => negb (fst e =? b)) l) =
                  filter (fun e => negb (fst e =? b)) (map (fun e => (fst e, hview (h_heap σ) (snd e))) l)).
        { induction l as [|[k' hb'] l IH]; intro Hsub; cbn [filter map fst snd]; [reflexivity|].
          destruct (k' =? b) eqn:Ek; cbn [negb].
          - apply IH. intros p Hp. apply Hsub. right. exact Hp.
          - cbn [map fst snd]. f_equal; [|apply IH; intros p Hp; apply Hsub; right; exact Hp].
            f_equal. apply hview_same. intros r Hr.
            assert (Hne : k' <> b) by (intro; subst; rewrite N.eqb_refl in Ek; discriminate).
            assert (Hin' : In (k', hb') (h_bs σ)) by (apply Hsub; left; reflexivity).
            pose proof (att_isolated_disjoint σ b hb k' hb' Hiso El Hin' Hne) as Hd. unfold att_writes in Hd.
            assert (EW : existsb (N.eqb r) (touched (h_heap σ) hb) = false).
            { apply not_true_is_false. intro E. apply memN_In in E.
              exact (Hd r (in_or_app _ _ _ (or_introl E)) (In_reach_ref _ _ _ Hr)). }
            assert (EB : existsb (N.eqb r) (map (base_of (h_heap σ)) (touched (h_heap σ) hb)) = false).
            { apply not_true_is_false. intro E. apply memN_In in E.
              exact (Hd r (in_or_app _ _ _ (or_intror E)) (In_reach_ref _ _ _ Hr)). }
            assert (EU : existsb (N.eqb (base_of (h_heap σ) r)) (map (base_of (h_heap σ)) (touched (h_heap σ) hb)) = false).
            { apply not_true_is_false. intro E. apply memN_In in E.
              exact (Hd _ (in_or_app _ _ _ (or_intror E)) (In_reach_base _ _ _ Hr)). }
            (* same_on: the cell and its base's macaroon *)
            split.
            + rewrite hatt_lookup.
              destruct (blookup r (h_heap σ)) as [[t|u cs|u]|]; cbn [option_map att_cell]; rewrite ?EW, ?EB; reflexivity.
            + rewrite hatt_cell_mac.
              destruct (cell_mac (h_heap σ) (base_of (h_heap σ) r)) as [m|]; [|reflexivity].
              cbn [option_map]. unfold att_mac. rewrite EU. reflexivity. }
        apply HF. auto.
    + exact Hc.
  - (* refused: nothing changes *)
    apply sim_set; [exact HR|exact (slot_refs_lt σ b hb (proj1 HR) El)|reflexivity].
Qed.

Lemma sim_verify_gen σ β b hb ts' cs' :
  hR σ β -> blookup b (h_bs σ) = Some hb ->
  Forall2 (vshape (hb_loc hb)) (b_ts (hview (h_heap σ) hb)) ts' ->
  forall h' n' rs, hrewrap (hb_loc hb) (h_heap σ) (h_heap σ) (h_next σ) (hb_refs hb) ts' = (h', n', rs) ->
  hR (mkHst h' n' (bput b (mkHB (hb_loc hb) rs) (h_bs σ)) cs')
     (mkBst (bput b (mkB (hb_loc hb) ts') (bs β)) cs').
Proof.
  intros HR El Hsh h' n' rs Hrw. pose proof HR as [[Hh Hs] _].
  pose proof (slot_refs_lt σ b hb (proj1 HR) El) as Hlt.
  destruct (hrewrap_spec (hb_loc hb) (h_heap σ) (h_next σ) Hh _ _ _ _ _ _ _ Hrw (N.le_refl _) (hext_refl _ _) Hh Hlt)
    as [Hle [Hext [Hok' [Hlt' [Hview _]]]]].
  apply sim_ext; try assumption.
  unfold hview. cbn [hb_loc hb_refs]. f_equal. apply Hview.
  - rewrite <- (Forall2_length _ _ _ Hsh), hview_ts, map_length. reflexivity.
  - rewrite <- hview_ts. exact Hsh.
Qed.

Lemma verify_shape vt vb : Forall2 (vshape (b_loc vb)) (b_ts vb) (map (verify_tok vt vb) (b_ts vb)).
Proof.
  induction (b_ts vb) as [|t ts IH]; cbn [map]; constructor; [apply verify_tok_shape|exact IH].
Qed.

Theorem hstep_sim_l T σ β o :
  hR σ β -> alias_safe_step σ o = true ->
  snd (hstep T σ o) = snd (bstep T β o) /\ hR (fst (hstep T σ o)) (fst (bstep T β o)).
Proof.
  intros HR Hsafe. pose proof HR as [[Hh Hs] [Hv Hc]].
  destruct o as [b ts|b ts|b ts|dst b p|b p|b|b f|b rq|b rqs|b|b|b p|b cl|b tp key_ok first|dst b|b|dst b f|b f|b f|b|b|f|f live cap].
  - (* BParse *)
    cbv beta iota zeta delta [hstep bstep parse_bundle].
    destruct (halloc (h_heap σ) (h_next σ) (map CBase (b_ts (mkB 0 (default_filter 0 ts))))) as [[h' n'] rs] eqn:Ea.
    cbn [fst snd]. split; [reflexivity|].
    exact (sim_alloc σ β b 0 [] _ _ _ _ HR Ea (fun r (F : In r []) => match F with end)).
  - (* BParseAll *)
    cbv beta iota zeta delta [hstep bstep].
    destruct (halloc (h_heap σ) (h_next σ) (map CBase ts)) as [[h' n'] rs] eqn:Ea.
    cbn [fst snd]. split; [reflexivity|].
    exact (sim_alloc σ β b 0 [] _ _ _ _ HR Ea (fun r (F : In r []) => match F with end)).
  - (* BAdd *)
    cbv beta iota zeta delta [hstep bstep]. rewrite (hR_lookup σ β b HR).
    destruct (blookup b (h_bs σ)) as [hb|] eqn:El; cbn [option_map]; [|split; [reflexivity|exact HR]].
    unfold add_tokens. destruct (existsb is_bad ts).
    + cbn [fst snd]. split; [reflexivity|].
      apply sim_set; [exact HR|exact (slot_refs_lt σ b hb (proj1 HR) El)|reflexivity].
    + destruct (halloc (h_heap σ) (h_next σ) (map CBase ts)) as [[h' n'] rs] eqn:Ea.
      cbn [fst snd]. split; [reflexivity|].
      exact (sim_alloc σ β b (hb_loc hb) (hb_refs hb) _ _ _ _ HR Ea (slot_refs_lt σ b hb (proj1 HR) El)).
  - (* BSelect *)
    cbv beta iota zeta delta [hstep bstep]. rewrite (hR_lookup σ β b HR).
    destruct (blookup b (h_bs σ)) as [hb|] eqn:El; cbn [option_map fst snd]; (split; [reflexivity|]); [|exact HR].
    apply sim_set; [exact HR| |apply hview_hselect].
    intros r Hr. apply hselect_incl in Hr. exact (slot_refs_lt σ b hb (proj1 HR) El r Hr).
  - (* BFilter *)
    cbv beta iota zeta delta [hstep bstep]. rewrite (hR_lookup σ β b HR).
    destruct (blookup b (h_bs σ)) as [hb|] eqn:El; cbn [option_map fst snd]; (split; [reflexivity|]); [|exact HR].
    apply sim_set; [exact HR| |apply hview_hselect].
    intros r Hr. apply hselect_incl in Hr. exact (slot_refs_lt σ b hb (proj1 HR) El r Hr).
  - (* BVerify *)
    cbv beta iota zeta delta [hstep bstep verify]. rewrite (hR_lookup σ β b HR).
    destruct (blookup b (h_bs σ)) as [hb|] eqn:El; cbn [option_map]; [|split; [reflexivity|exact HR]].
    rewrite hview_loc.
    destruct (hrewrap (hb_loc hb) (h_heap σ) (h_heap σ) (h_next σ) (hb_refs hb)
                (b_ts (mkB (hb_loc hb) (map (verify_tok (t_v T) (hview (h_heap σ) hb)) (b_ts (hview (h_heap σ) hb))))))
      as [[h' n'] rs] eqn:Erw.
    cbn [fst snd]. split; [reflexivity|]. rewrite Hc. cbn [b_ts] in Erw.
    apply (sim_verify_gen σ β b hb _ (cs_ β) HR El); [|exact Erw].
    exact (verify_shape (t_v T) (hview (h_heap σ) hb)).
  - (* BVerifyCached *)
    cbv beta iota zeta delta [hstep bstep]. rewrite (hR_lookup σ β b HR). rewrite <- Hc.
    destruct (blookup b (h_bs σ)) as [hb|] eqn:El; cbn [option_map]; [|split; [reflexivity|exact HR]].
    destruct (blookup f (h_cs σ)) as [c|] eqn:Ef; [|split; [reflexivity|exact HR]].
    destruct (cverify_list (t_v T) (hview (h_heap σ) hb) (b_ts (hview (h_heap σ) hb)) c) as [[ts' c'] lg] eqn:Ecv.
    rewrite hview_loc.
    destruct (hrewrap (hb_loc hb) (h_heap σ) (h_heap σ) (h_next σ) (hb_refs hb) ts') as [[h' n'] rs] eqn:Erw.
    cbn [fst snd]. split; [reflexivity|].
    apply (sim_verify_gen σ β b hb ts' _ HR El); [|exact Erw].
    exact (cverify_list_shape _ _ _ _ _ _ _ Ecv).
  - (* BValidate *)
    cbv beta iota zeta delta [hstep bstep]. rewrite (hR_lookup σ β b HR).
    destruct (blookup b (h_bs σ)) as [hb|]; cbn [option_map fst snd]; split; try reflexivity; exact HR.
  - (* BValidateMany *)
    cbv beta iota zeta delta [hstep bstep]. rewrite (hR_lookup σ β b HR).
    destruct (blookup b (h_bs σ)) as [hb|]; cbn [option_map fst snd]; split; try reflexivity; exact HR.
  - (* BHeader *)
    cbv beta iota zeta delta [hstep bstep]. rewrite (hR_lookup σ β b HR).
    destruct (blookup b (h_bs σ)) as [hb|]; cbn [option_map fst snd]; split; try reflexivity; exact HR.
  - (* BLen *)
    cbv beta iota zeta delta [hstep bstep]. rewrite (hR_lookup σ β b HR).
    destruct (blookup b (h_bs σ)) as [hb|]; cbn [option_map fst snd]; split; try reflexivity; try exact HR.
    rewrite hview_ts, map_length. reflexivity.
  - (* BCount *)
    cbv beta iota zeta delta [hstep bstep]. rewrite (hR_lookup σ β b HR).
    destruct (blookup b (h_bs σ)) as [hb|]; cbn [option_map fst snd]; split; try reflexivity; try exact HR.
    rewrite hselect_len, hview_loc. reflexivity.
  - (* BAttenuate *)
    apply sim_attenuate; [exact HR|exact Hsafe].
  - (* BDischarge *)
    cbv beta iota zeta delta [hstep bstep]. rewrite (hR_lookup σ β b HR).
    destruct (blookup b (h_bs σ)) as [hb|] eqn:El; cbn [option_map]; [|split; [reflexivity|exact HR]].
    unfold discharge.
    destruct (undischarged_for (hview (h_heap σ) hb) tp) as [|tk tks] eqn:Eu.
    + cbn [fst snd]. split; [reflexivity|].
      apply sim_set; [exact HR|exact (slot_refs_lt σ b hb (proj1 HR) El)|reflexivity].
    + destruct key_ok.
      * destruct (halloc (h_heap σ) (h_next σ) (map CBase (new_dis tp (tk :: tks) first))) as [[h' n'] rs] eqn:Ea.
        cbn [fst snd]. split; [reflexivity|]. rewrite hview_loc.
        exact (sim_alloc σ β b (hb_loc hb) (hb_refs hb) _ _ _ _ HR Ea (slot_refs_lt σ b hb (proj1 HR) El)).
      * cbn [fst snd]. split; [reflexivity|].
        apply sim_set; [exact HR|exact (slot_refs_lt σ b hb (proj1 HR) El)|reflexivity].
  - (* BClone *)
    cbv beta iota zeta delta [hstep bstep]. rewrite (hR_lookup σ β b HR).
    destruct (blookup b (h_bs σ)) as [hb|] eqn:El; cbn [option_map]; [|split; [reflexivity|exact HR]].
    destruct (halloc (h_heap σ) (h_next σ) (map CBase (b_ts (clone (hview (h_heap σ) hb))))) as [[h' n'] rs] eqn:Ea.
    cbn [fst snd]. split; [reflexivity|].
    assert (Hcl : clone (hview (h_heap σ) hb) = mkB (hb_loc hb) (map (cell_tok (h_heap σ)) [] ++ b_ts (clone (hview (h_heap σ) hb)))).
    { unfold clone. cbn [map app]. rewrite hview_loc. destruct (b_ts (hview (h_heap σ) hb)); reflexivity. }
    rewrite Hcl at 1.
    exact (sim_alloc σ β dst (hb_loc hb) [] _ _ _ _ HR Ea (fun r (F : In r []) => match F with end)).
  - (* BUndischarged *)
    cbv beta iota zeta delta [hstep bstep]. rewrite (hR_lookup σ β b HR).
    destruct (blookup b (h_bs σ)) as [hb|]; cbn [option_map fst snd]; split; try reflexivity; exact HR.
  - (* BSelectF *)
    cbv beta iota zeta delta [hstep bstep]. rewrite (hR_lookup σ β b HR).
    destruct (blookup b (h_bs σ)) as [hb|] eqn:El; cbn [option_map fst snd]; (split; [reflexivity|]); [|exact HR].
    apply sim_set; [exact HR| |apply hview_hselect].
    intros r Hr. apply hselect_incl in Hr. exact (slot_refs_lt σ b hb (proj1 HR) El r Hr).
  - (* BFilterF *)
    cbv beta iota zeta delta [hstep bstep]. rewrite (hR_lookup σ β b HR).
    destruct (blookup b (h_bs σ)) as [hb|] eqn:El; cbn [option_map fst snd]; (split; [reflexivity|]); [|exact HR].
    apply sim_set; [exact HR| |apply hview_hselect].
    intros r Hr. apply hselect_incl in Hr. exact (slot_refs_lt σ b hb (proj1 HR) El r Hr).
  - (* BCountF *)
    cbv beta iota zeta delta [hstep bstep]. rewrite (hR_lookup σ β b HR).
    destruct (blookup b (h_bs σ)) as [hb|]; cbn [option_map fst snd]; split; try reflexivity; try exact HR.
    rewrite hselect_len. reflexivity.
  - (* BIsEmpty *)
    cbv beta iota zeta delta [hstep bstep]. rewrite (hR_lookup σ β b HR).
    destruct (blookup b (h_bs σ)) as [hb|]; cbn [option_map fst snd]; split; try reflexivity; try exact HR.
    rewrite hview_ts. destruct (hb_refs hb); reflexivity.
  - (* BError *)
    cbv beta iota zeta delta [hstep bstep]. rewrite (hR_lookup σ β b HR).
    destruct (blookup b (h_bs σ)) as [hb|]; cbn [option_map fst snd]; split; try reflexivity; exact HR.
  - (* CPurge *)
    cbv beta iota zeta delta [hstep bstep]. rewrite <- Hc.
    destruct (blookup f (h_cs σ)) as [c|]; cbn [fst snd]; split; try reflexivity; try exact HR.
    split; [split; assumption|split; [exact Hv|reflexivity]].
  - (* CNew *)
    cbv beta iota zeta delta [hstep bstep]. rewrite <- Hc. cbn [fst snd]. split; [reflexivity|].
    split; [split; assumption|split; [exact Hv|reflexivity]].
Qed.
Print Assumptions hstep_sim_l.

Lemma hR_init : hR hinit (mkBst [] []).
Proof.
  split; [split|split]; cbn [hinit h_heap h_next h_bs h_cs bs cs_]; try reflexivity.
  - intros k c [].
  - intros k hb [].
Qed.

Lemma hrun_sim_l T ops : forall σ β,
  hR σ β -> alias_safe_from T σ ops = true -> hrun_from T σ ops = brun T β ops.
Proof.
  induction ops as [|o r IH]; intros σ β HR Hs; cbn [hrun_from brun alias_safe_from] in *; [reflexivity|].
  apply andb_true_iff in Hs. destruct Hs as [Hs1 Hs2].
  destruct (hstep_sim_l T σ β o HR Hs1) as [Hobs HR'].
  destruct (hstep T σ o) as [σ' ob] eqn:Eh. destruct (bstep T β o) as [β' ob'] eqn:Eb.
  cbn [fst snd] in *. subst ob'. f_equal. apply IH; assumption.
Qed.

(* REFINEMENT: on alias-safe scenarios the heap model IS the value model *)
Theorem hrun_refines_l T ops : alias_safe T ops = true -> hrun T ops = run_bundle T ops.
Proof. intro H. unfold hrun, run_bundle. apply hrun_sim_l; [apply hR_init|exact H]. Qed.
Print Assumptions hrun_refines_l.

(* ------------------------------------------------------------------ *)
(* the six kinds of steps (what a step does to the object graph)       *)

Record kflags := mkKF { kf_sel : bool; kf_cached : bool; kf_raw : bool; kf_vslot : option N }.
Definition verified_slot (o : bop) : option N :=
  match o with BVerify b => Some b | BVerifyCached b _ => Some b | _ => None end.
Definition op_flags (o : bop) : kflags := mkKF (is_select o) (is_verify_cached o) (raw_op o) (verified_slot o).

Inductive hkind (T : tables) (F : kflags) (σ σ' : hst) : Prop :=
| K_same :                                    (* reads, cache administration *)
    h_heap σ' = h_heap σ -> h_next σ' = h_next σ -> h_bs σ' = h_bs σ -> hkind T F σ σ'
| K_fresh k loc ts rs :                       (* ParseBundle, Clone: a slot of fresh unverified objects *)
    halloc (h_heap σ) (h_next σ) (map CBase ts) = (h_heap σ', h_next σ', rs) ->
    (kf_raw F = true -> forallb raw_tok ts = true) ->
    (loc = 0 \/ exists k0 hb0, blookup k0 (h_bs σ) = Some hb0 /\ loc = hb_loc hb0) ->
    h_bs σ' = bput k (mkHB loc rs) (h_bs σ) -> hkind T F σ σ'
| K_grow k hb ts rs :                         (* AddTokens, Discharge: fresh objects appended *)
    blookup k (h_bs σ) = Some hb ->
    halloc (h_heap σ) (h_next σ) (map CBase ts) = (h_heap σ', h_next σ', rs) ->
    (kf_raw F = true -> forallb raw_tok ts = true) ->
    h_bs σ' = bput k (mkHB (hb_loc hb) (hb_refs hb ++ rs)) (h_bs σ) -> hkind T F σ σ'
| K_sub dst k hb q :                          (* Select (dst is another slot), Filter (dst = k), refused calls *)
    blookup k (h_bs σ) = Some hb -> (kf_sel F = false -> dst = k) ->
    h_heap σ' = h_heap σ -> h_next σ' = h_next σ ->
    h_bs σ' = bput dst (mkHB (hb_loc hb) (filter q (hb_refs hb))) (h_bs σ) -> hkind T F σ σ'
| K_wrap k hb ts' rs :        (* Verify: fresh wrappers for the permission entries *)
    blookup k (h_bs σ) = Some hb -> kf_vslot F = Some k ->
    Forall2 (vshape (hb_loc hb)) (b_ts (hview (h_heap σ) hb)) ts' ->
    (kf_cached F = false -> ts' = map (verify_tok (t_v T) (hview (h_heap σ) hb)) (b_ts (hview (h_heap σ) hb))) ->
    hrewrap (hb_loc hb) (h_heap σ) (h_heap σ) (h_next σ) (hb_refs hb) ts' = (h_heap σ', h_next σ', rs) ->
    h_bs σ' = bput k (mkHB (hb_loc hb) rs) (h_bs σ) -> hkind T F σ σ'
| K_att k hb cl ts1 :                         (* Attenuate, accepted: in place *)
    blookup k (h_bs σ) = Some hb ->
    all_some (map (att_tok (t_a T) (t_cs T) (hb_loc hb) cl) (b_ts (hview (h_heap σ) hb))) = Some ts1 ->
    h_heap σ' = hatt_heap (t_a T) (t_cs T) (h_heap σ) hb cl -> h_next σ' = h_next σ ->
    h_bs σ' = bput k hb (h_bs σ) -> hkind T F σ σ'.

Lemma filter_true_id {A} (l : list A) : filter (fun _ => true) l = l.
Proof. induction l as [|a l IH]; cbn [filter]; [reflexivity|f_equal; exact IH]. Qed.

Lemma hbundle_eta hb : mkHB (hb_loc hb) (hb_refs hb) = hb.
Proof. destruct hb; reflexivity. Qed.

(* a refused call puts the bundle back into its slot *)
Lemma K_put_back T F σ σ' k hb :
  blookup k (h_bs σ) = Some hb -> h_heap σ' = h_heap σ -> h_next σ' = h_next σ ->
  h_bs σ' = bput k hb (h_bs σ) -> hkind T F σ σ'.
Proof.
  intros El Hh Hn Hb. apply (K_sub T F σ σ' k k hb (fun _ => true) El (fun _ => eq_refl) Hh Hn).
  rewrite filter_true_id, hbundle_eta. exact Hb.
Qed.

Lemma forallb_filter {A} (p q : A -> bool) l : forallb p l = true -> forallb p (filter q l) = true.
Proof.
  intro H. apply forallb_forall. intros x Hx. apply filter_In in Hx. rewrite forallb_forall in H. apply H. tauto.
Qed.
Lemma raw_new_dis tp tks first : forallb raw_tok (new_dis tp tks first) = true.
Proof. revert first. induction tks as [|tk r IH]; intro first; cbn [new_dis forallb raw_tok andb]; [reflexivity|apply IH]. Qed.
Lemma raw_clone b : forallb raw_tok (b_ts (clone b)) = true.
Proof.
  unfold clone. destruct (b_ts b) as [|t ts] eqn:E; [reflexivity|]. cbn [b_ts]. apply forallb_forall. intros x Hx.
  apply in_map_iff in Hx. destruct Hx as [t0 [<- _]]. destruct t0; reflexivity.
Qed.

Lemma hstep_kind_l T σ o : hkind T (op_flags o) σ (fst (hstep T σ o)).
Proof.
  destruct o as [b ts|b ts|b ts|dst b p|b p|b|b f|b rq|b rqs|b|b|b p|b cl|b tp key_ok first|dst b|b|dst b f|b f|b f|b|b|f|f live cap];
    cbv beta iota zeta delta [hstep op_flags is_select is_verify_cached raw_op verified_slot].
  - unfold parse_bundle.
    destruct (halloc (h_heap σ) (h_next σ) (map CBase (b_ts (mkB 0 (default_filter 0 ts))))) as [[h' n'] rs] eqn:Ea.
    cbn [fst]. eapply (K_fresh T _ σ _ b 0); cbn [h_heap h_next h_bs kf_raw]; [exact Ea| |left; reflexivity|reflexivity].
    cbn [b_ts]. unfold default_filter. apply forallb_filter.
  - destruct (halloc (h_heap σ) (h_next σ) (map CBase ts)) as [[h' n'] rs] eqn:Ea.
    cbn [fst]. eapply (K_fresh T _ σ _ b 0); cbn [h_heap h_next h_bs kf_raw]; [exact Ea|exact (fun H => H)|left; reflexivity|reflexivity].
  - destruct (blookup b (h_bs σ)) as [hb|] eqn:El; [|apply K_same; reflexivity].
    destruct (existsb is_bad ts).
    + cbn [fst]. apply (K_put_back T _ σ _ b hb El); reflexivity.
    + destruct (halloc (h_heap σ) (h_next σ) (map CBase ts)) as [[h' n'] rs] eqn:Ea.
      cbn [fst]. eapply (K_grow T _ σ _ b hb); cbn [h_heap h_next h_bs kf_raw]; [exact El|exact Ea|exact (fun H => H)|reflexivity].
  - destruct (blookup b (h_bs σ)) as [hb|] eqn:El; [|apply K_same; reflexivity].
    cbn [fst]. eapply (K_sub T _ σ _ dst b hb); [exact El|cbn [kf_sel]; discriminate|reflexivity|reflexivity|reflexivity].
  - destruct (blookup b (h_bs σ)) as [hb|] eqn:El; [|apply K_same; reflexivity].
    cbn [fst]. eapply (K_sub T _ σ _ b b hb); [exact El|reflexivity|reflexivity|reflexivity|reflexivity].
  - destruct (blookup b (h_bs σ)) as [hb|] eqn:El; [|apply K_same; reflexivity].
    unfold verify. rewrite hview_loc. cbn [b_ts].
    destruct (hrewrap (hb_loc hb) (h_heap σ) (h_heap σ) (h_next σ) (hb_refs hb)
                (map (verify_tok (t_v T) (hview (h_heap σ) hb)) (b_ts (hview (h_heap σ) hb)))) as [[h' n'] rs] eqn:Erw.
    cbn [fst]. eapply (K_wrap T _ σ _ b hb _ rs El); cbn [h_heap h_next h_bs]; [reflexivity| |reflexivity|exact Erw|reflexivity].
    exact (verify_shape (t_v T) (hview (h_heap σ) hb)).
  - destruct (blookup b (h_bs σ)) as [hb|] eqn:El; [|apply K_same; reflexivity].
    destruct (blookup f (h_cs σ)) as [c|] eqn:Ef; [|apply K_same; reflexivity].
    destruct (cverify_list (t_v T) (hview (h_heap σ) hb) (b_ts (hview (h_heap σ) hb)) c) as [[ts' c'] lg] eqn:Ecv.
    destruct (hrewrap (hb_loc hb) (h_heap σ) (h_heap σ) (h_next σ) (hb_refs hb) ts') as [[h' n'] rs] eqn:Erw.
    cbn [fst]. eapply (K_wrap T _ σ _ b hb ts' rs El); cbn [h_heap h_next h_bs kf_cached]; [reflexivity| |discriminate|exact Erw|reflexivity].
    exact (cverify_list_shape _ _ _ _ _ _ _ Ecv).
  - destruct (blookup b (h_bs σ)) as [hb|]; apply K_same; reflexivity.
  - destruct (blookup b (h_bs σ)) as [hb|]; apply K_same; reflexivity.
  - destruct (blookup b (h_bs σ)) as [hb|]; apply K_same; reflexivity.
  - destruct (blookup b (h_bs σ)) as [hb|]; apply K_same; reflexivity.
  - destruct (blookup b (h_bs σ)) as [hb|]; apply K_same; reflexivity.
  - destruct (blookup b (h_bs σ)) as [hb|] eqn:El; [|apply K_same; reflexivity].
    unfold hattenuate.
    destruct (all_some (map (att_tok (t_a T) (t_cs T) (hb_loc hb) cl) (b_ts (hview (h_heap σ) hb)))) as [ts1|] eqn:Eall; cbn [fst].
    + apply (K_att T _ σ _ b hb cl ts1 El Eall); reflexivity.
    + apply (K_put_back T _ σ _ b hb El); reflexivity.
  - destruct (blookup b (h_bs σ)) as [hb|] eqn:El; [|apply K_same; reflexivity].
    destruct (undischarged_for (hview (h_heap σ) hb) tp) as [|tk tks].
    + cbn [fst]. apply (K_put_back T _ σ _ b hb El); reflexivity.
    + destruct key_ok.
      * destruct (halloc (h_heap σ) (h_next σ) (map CBase (new_dis tp (tk :: tks) first))) as [[h' n'] rs] eqn:Ea.
        cbn [fst]. eapply (K_grow T _ σ _ b hb); cbn [h_heap h_next h_bs]; [exact El|exact Ea|intros _; apply raw_new_dis|reflexivity].
      * cbn [fst]. apply (K_put_back T _ σ _ b hb El); reflexivity.
  - destruct (blookup b (h_bs σ)) as [hb|] eqn:El; [|apply K_same; reflexivity].
    destruct (halloc (h_heap σ) (h_next σ) (map CBase (b_ts (clone (hview (h_heap σ) hb))))) as [[h' n'] rs] eqn:Ea.
    cbn [fst]. eapply (K_fresh T _ σ _ dst (hb_loc hb)); cbn [h_heap h_next h_bs]; [exact Ea|intros _; apply raw_clone|right; exists b, hb; auto|reflexivity].
  - destruct (blookup b (h_bs σ)) as [hb|]; apply K_same; reflexivity.
  - destruct (blookup b (h_bs σ)) as [hb|] eqn:El; [|apply K_same; reflexivity].
    cbn [fst]. eapply (K_sub T _ σ _ dst b hb); [exact El|cbn [kf_sel]; discriminate|reflexivity|reflexivity|reflexivity].
  - destruct (blookup b (h_bs σ)) as [hb|] eqn:El; [|apply K_same; reflexivity].
    cbn [fst]. eapply (K_sub T _ σ _ b b hb); [exact El|reflexivity|reflexivity|reflexivity|reflexivity].
  - destruct (blookup b (h_bs σ)) as [hb|]; apply K_same; reflexivity.
  - destruct (blookup b (h_bs σ)) as [hb|]; apply K_same; reflexivity.
  - destruct (blookup b (h_bs σ)) as [hb|]; apply K_same; reflexivity.
  - destruct (blookup f (h_cs σ)) as [c|]; apply K_same; reflexivity.
  - apply K_same; reflexivity.
Qed.

(* ---- well-formedness is an invariant *)
Lemma base_of_lt n h r : heap_ok n h -> r < n -> base_of h r < n.
Proof.
  intros Hok Hr. unfold base_of. destruct (blookup r h) as [[t|u cs|u]|] eqn:E; try exact Hr;
    destruct (heap_ok_lookup n h r _ Hok E) as [_ Hc]; exact Hc.
Qed.

Lemma hwf_kind_l T F σ σ' : hkind T F σ σ' -> hwf σ -> hwf σ'.
Proof.
  intros K [Hh Hs]. unfold hwf.
  destruct K as [E1 E2 E3|k loc ts rs Ea _ _ E3|k hb ts rs El Ea _ E3|dst k hb q El _ E1 E2 E3|k hb ts' rs El _ Hsh _ Erw E3|k hb cl ts1 El Eall E1 E2 E3].
  - rewrite E1, E2, E3. split; assumption.
  - destruct (halloc_spec _ _ _ _ _ _ Ea) as [Hn [Hext [_ [Hrng [_ Hok]]]]]. rewrite E3. split.
    + apply Hok; [exact Hh|apply Forall_cell_ok_base].
    + apply slots_ok_bput; [apply (slots_ok_mono (h_next σ)); [lia|exact Hs]|].
      cbn [hb_refs]. intros r Hr. apply Hrng in Hr. lia.
  - destruct (halloc_spec _ _ _ _ _ _ Ea) as [Hn [Hext [_ [Hrng [_ Hok]]]]]. rewrite E3. split.
    + apply Hok; [exact Hh|apply Forall_cell_ok_base].
    + apply slots_ok_bput; [apply (slots_ok_mono (h_next σ)); [lia|exact Hs]|].
      cbn [hb_refs]. intros r Hr. apply in_app_or in Hr. destruct Hr as [Hr|Hr].
      * pose proof (Hs k hb (blookup_In _ _ _ El) r Hr). lia.
      * apply Hrng in Hr. lia.
  - rewrite E1, E2, E3. split; [exact Hh|]. apply slots_ok_bput; [exact Hs|].
    cbn [hb_refs]. intros r Hr. apply filter_In in Hr. exact (Hs k hb (blookup_In _ _ _ El) r (proj1 Hr)).
  - destruct (hrewrap_spec (hb_loc hb) (h_heap σ) (h_next σ) Hh _ _ _ _ _ _ _ Erw (N.le_refl _) (hext_refl _ _) Hh
                (Hs k hb (blookup_In _ _ _ El))) as [Hle [Hext [Hok' [Hlt' _]]]].
    rewrite E3. split; [exact Hok'|]. apply slots_ok_bput; [apply (slots_ok_mono (h_next σ)); assumption|exact Hlt'].
  - rewrite E1, E2, E3. split; [apply hatt_heap_ok; exact Hh|].
    apply slots_ok_bput; [exact Hs|exact (Hs k hb (blookup_In _ _ _ El))].
Qed.

Lemma hwf_step_l T σ o : hwf σ -> hwf (fst (hstep T σ o)).
Proof. apply (hwf_kind_l T (op_flags o)), hstep_kind_l. Qed.

Lemma hwf_init : hwf hinit.
Proof. split; [intros k c []|intros k hb []]. Qed.

Lemma hwf_after_l T ops : forall σ, hwf σ -> hwf (hstate_after T σ ops).
Proof. induction ops as [|o r IH]; intros σ H; cbn [hstate_after]; [exact H|]. apply IH, hwf_step_l, H. Qed.
Print Assumptions hwf_after_l.

(* ---- separation: without Select no two slots ever reach a common object *)
Definition pairwise (h : heap) (l : list (N * hbundle)) : Prop :=
  forall k1 hb1 k2 hb2, In (k1, hb1) l -> In (k2, hb2) l -> k1 <> k2 ->
  forall x, In x (reach h hb1) -> In x (reach h hb2) -> False.

Lemma reach_lt n h hb : heap_ok n h -> (forall r, In r (hb_refs hb) -> r < n) -> forall x, In x (reach h hb) -> x < n.
Proof.
  intros Hok Hr x Hx. unfold reach in Hx. apply in_app_or in Hx. destruct Hx as [Hx|Hx]; [exact (Hr x Hx)|].
  apply in_map_iff in Hx. destruct Hx as [r [<- Hin]]. apply base_of_lt; [exact Hok|exact (Hr r Hin)].
Qed.

Lemma reach_ext n h h' hb : hext n h h' -> (forall r, In r (hb_refs hb) -> r < n) -> reach h' hb = reach h hb.
Proof.
  intros Hext Hr. unfold reach. f_equal. apply map_ext_in. intros r Hin. apply (hext_base n); [exact Hext|exact (Hr r Hin)].
Qed.

Lemma sep_update n h h' l k hb' :
  pairwise h l ->
  (forall k2 hb2, In (k2, hb2) l -> forall x, In x (reach h hb2) -> x < n) ->
  (forall k2 hb2, In (k2, hb2) l -> reach h' hb2 = reach h hb2) ->
  (forall x, In x (reach h' hb') -> n <= x \/ exists hb0, In (k, hb0) l /\ In x (reach h hb0)) ->
  pairwise h' (bput k hb' l).
Proof.
  intros Hp Hlt Hsame Hnew k1 hb1 k2 hb2 H1 H2 Hne x Hx1 Hx2.
  apply In_bput in H1. apply In_bput in H2.
  assert (Hold : forall ka hba, In (ka, hba) l -> ka <> k -> In x (reach h' hb') -> In x (reach h' hba) -> False).
  { intros ka hba Hin Hk Hxn Hxo. rewrite (Hsame ka hba Hin) in Hxo.
    destruct (Hnew x Hxn) as [Hge|[hb0 [Hin0 Hx0]]].
    - pose proof (Hlt ka hba Hin x Hxo). lia.
    - exact (Hp k hb0 ka hba Hin0 Hin (fun E => Hk (eq_sym E)) x Hx0 Hxo). }
  destruct H1 as [E1|H1]; destruct H2 as [E2|H2].
  - inversion E1; inversion E2; subst. apply Hne. reflexivity.
  - inversion E1; subst k1 hb1. exact (Hold k2 hb2 H2 (fun E => Hne (eq_sym E)) Hx1 Hx2).
  - inversion E2; subst k2 hb2. exact (Hold k1 hb1 H1 Hne Hx2 Hx1).
  - rewrite (Hsame k1 hb1 H1) in Hx1. rewrite (Hsame k2 hb2 H2) in Hx2. exact (Hp k1 hb1 k2 hb2 H1 H2 Hne x Hx1 Hx2).
Qed.

Lemma pairwise_kind_l T F σ σ' : kf_sel F = false -> hkind T F σ σ' -> hwf σ -> pairwise (h_heap σ) (h_bs σ) -> pairwise (h_heap σ') (h_bs σ').
Proof.
  intros HF K [Hh Hs] Hp.
  assert (Hlt : forall k2 hb2, In (k2, hb2) (h_bs σ) -> forall x, In x (reach (h_heap σ) hb2) -> x < h_next σ).
  { intros k2 hb2 Hin. apply reach_lt; [exact Hh|exact (Hs k2 hb2 Hin)]. }
  destruct K as [E1 E2 E3|k loc ts rs Ea _ _ E3|k hb ts rs El Ea _ E3|dst k hb q El Hdst E1 E2 E3|k hb ts' rs El _ Hsh _ Erw E3|k hb cl ts1 El Eall E1 E2 E3].
  - rewrite E1, E3. exact Hp.
  - destruct (halloc_spec _ _ _ _ _ _ Ea) as [Hn [Hext [_ [Hrng _]]]]. rewrite E3.
    apply (sep_update (h_next σ) (h_heap σ)); try assumption.
    + intros k2 hb2 Hin. apply (reach_ext (h_next σ)); [exact Hext|exact (Hs k2 hb2 Hin)].
    + intros x Hx. left. unfold reach in Hx. cbn [hb_refs] in Hx. apply in_app_or in Hx. destruct Hx as [Hx|Hx].
      * apply Hrng in Hx. lia.
      * apply in_map_iff in Hx. destruct Hx as [r [<- Hr]]. rewrite (halloc_base_self _ _ _ _ _ _ Ea r Hr).
        apply Hrng in Hr. lia.
  - destruct (halloc_spec _ _ _ _ _ _ Ea) as [Hn [Hext [_ [Hrng _]]]]. rewrite E3.
    pose proof (blookup_In _ _ _ El) as Hin0.
    apply (sep_update (h_next σ) (h_heap σ)); try assumption.
    + intros k2 hb2 Hin. apply (reach_ext (h_next σ)); [exact Hext|exact (Hs k2 hb2 Hin)].
    + intros x Hx. unfold reach in Hx. cbn [hb_refs] in Hx. rewrite map_app in Hx.
      apply in_app_or in Hx. destruct Hx as [Hx|Hx]; apply in_app_or in Hx; destruct Hx as [Hx|Hx].
      * right. exists hb. split; [exact Hin0|apply In_reach_ref, Hx].
      * left. apply Hrng in Hx. lia.
      * right. exists hb. split; [exact Hin0|]. apply in_map_iff in Hx. destruct Hx as [r [<- Hr]].
        rewrite (hext_base (h_next σ) _ _ r Hext (Hs k hb Hin0 r Hr)). apply In_reach_base, Hr.
      * left. apply in_map_iff in Hx. destruct Hx as [r [<- Hr]]. rewrite (halloc_base_self _ _ _ _ _ _ Ea r Hr).
        apply Hrng in Hr. lia.
  - rewrite E1, E3. rewrite (Hdst HF). pose proof (blookup_In _ _ _ El) as Hin0.
    apply (sep_update (h_next σ) (h_heap σ)); try assumption; [reflexivity|].
    intros x Hx. right. exists hb. split; [exact Hin0|].
    unfold reach in Hx |- *. cbn [hb_refs] in Hx. apply in_app_or in Hx. apply in_or_app. destruct Hx as [Hx|Hx].
    + left. apply filter_In in Hx. tauto.
    + right. apply in_map_iff in Hx. destruct Hx as [r [<- Hr]]. apply in_map. apply filter_In in Hr. tauto.
  - pose proof (blookup_In _ _ _ El) as Hin0.
    destruct (hrewrap_spec (hb_loc hb) (h_heap σ) (h_next σ) Hh _ _ _ _ _ _ _ Erw (N.le_refl _) (hext_refl _ _) Hh
                (Hs k hb Hin0)) as [Hle [Hext [Hok' [Hlt' [_ [Hsh' _]]]]]].
    rewrite E3. apply (sep_update (h_next σ) (h_heap σ)); try assumption.
    + intros k2 hb2 Hin. apply (reach_ext (h_next σ)); [exact Hext|exact (Hs k2 hb2 Hin)].
    + intros x Hx. unfold reach in Hx. cbn [hb_refs] in Hx. apply in_app_or in Hx. destruct Hx as [Hx|Hx].
      * destruct (Hsh' x Hx) as [[Hin' _]|[Hge _]]; [|left; exact Hge].
        right. exists hb. split; [exact Hin0|apply In_reach_ref, Hin'].
      * apply in_map_iff in Hx. destruct Hx as [r' [<- Hr']].
        destruct (Hsh' r' Hr') as [[Hin' _]|[Hge [Hb|[_ Hb]]]].
        -- right. exists hb. split; [exact Hin0|].
           rewrite (hext_base (h_next σ) _ _ r' Hext (Hs k hb Hin0 r' Hin')). apply In_reach_base, Hin'.
        -- left. rewrite Hb. exact Hge.
        -- left. exact Hb.
  - rewrite E1, E3. pose proof (blookup_In _ _ _ El) as Hin0.
    assert (Hre : forall hb2, reach (hatt_heap (t_a T) (t_cs T) (h_heap σ) hb cl) hb2 = reach (h_heap σ) hb2).
    { intro hb2. unfold reach. f_equal. apply map_ext. intro r. apply hatt_base_of. }
    apply (sep_update (h_next σ) (h_heap σ)); try assumption.
    + intros k2 hb2 _. apply Hre.
    + intros x Hx. right. exists hb. split; [exact Hin0|]. rewrite Hre in Hx. exact Hx.
Qed.

Lemma isolated_att_isolated σ k : isolated σ k = true -> att_isolated σ k = true.
Proof.
  unfold isolated, att_isolated. destruct (blookup k (h_bs σ)) as [hb|]; [|reflexivity].
  intro H. apply forallb_forall. intros e He. rewrite forallb_forall in H. specialize (H e He).
  destruct (fst e =? k); [reflexivity|]. cbn [orb] in *. unfold disjointb in *. apply negb_true_iff in H. apply negb_true_iff.
  apply existsb_false_iff. intros x Hx. rewrite existsb_false_iff in H. apply H.
  apply touched_reach. apply in_app_or in Hx. exact Hx.
Qed.

Lemma pairwise_isolated σ k : pairwise (h_heap σ) (h_bs σ) -> isolated σ k = true.
Proof.
  intro Hp. unfold isolated. destruct (blookup k (h_bs σ)) as [hb|] eqn:El; [|reflexivity].
  apply forallb_forall. intros [k' hb'] Hin. cbn [fst snd].
  destruct (k' =? k) eqn:E; [reflexivity|]. cbn [orb].
  assert (Hne : k <> k') by (intro; subst; rewrite N.eqb_refl in E; discriminate).
  unfold disjointb. apply negb_true_iff. apply existsb_false_iff. intros x Hx.
  apply existsb_false_iff. intros y Hy. destruct (x =? y) eqn:Exy; [|reflexivity].
  apply N.eqb_eq in Exy. subst y. exfalso.
  exact (Hp k hb k' hb' (blookup_In _ _ _ El) Hin Hne x Hx Hy).
Qed.

Lemma no_select_safe_from T ops : forall σ,
  hwf σ -> pairwise (h_heap σ) (h_bs σ) -> existsb is_select ops = false -> alias_safe_from T σ ops = true.
Proof.
  induction ops as [|o r IH]; intros σ Hwf Hp Hns; cbn [alias_safe_from existsb] in *; [reflexivity|].
  apply orb_false_iff in Hns. destruct Hns as [Ho Hr].
  apply andb_true_iff. split.
  - destruct o; try reflexivity. cbn [alias_safe_step]. apply isolated_att_isolated, pairwise_isolated, Hp.
  - apply IH; [apply hwf_step_l, Hwf| |exact Hr].
    apply (pairwise_kind_l T (op_flags o) σ); [exact Ho|apply hstep_kind_l|exact Hwf|exact Hp].
Qed.

(* the syntactic condition: scenarios that never derive a bundle by Select *)
Theorem no_select_alias_safe_l T ops : no_select ops = true -> alias_safe T ops = true.
Proof.
  unfold no_select, alias_safe. intro H. apply negb_true_iff in H.
  apply no_select_safe_from; [apply hwf_init| |exact H]. intros k1 hb1 k2 hb2 [].
Qed.
Print Assumptions no_select_alias_safe_l.

Corollary no_select_refines_l T ops : no_select ops = true -> hrun T ops = run_bundle T ops.
Proof. intro H. apply hrun_refines_l, no_select_alias_safe_l, H. Qed.
Print Assumptions no_select_refines_l.

(* ------------------------------------------------------------------ *)
(* 2. THE INVARIANT UNDER SHARING                                      *)

(* [vexact T id cs]: cs is the table's verified set of an ancestor id0 of the token id, extended by exactly the
   attenuations that lead from id0 to id *)
Inductive vexact (T : tables) : N -> N -> Prop :=
| vx_ver id ds cs : vlookup (t_v T) id ds = VRes (Some cs) -> vexact T id cs
| vx_att id cs cl i : vexact T id cs -> alookup (t_a T) id cl = VRes (Some i) -> vexact T i (cslookup (t_cs T) cs cl).

(* the same as a chain of caveat lists *)
Fixpoint chain_id (at_ : atable) (id : N) (cls : list N) : option N :=
  match cls with
  | [] => Some id
  | cl :: r => match alookup at_ id cl with VRes (Some i) => chain_id at_ i r | _ => None end
  end.
Fixpoint chain_cs (cst : cstable) (cs : N) (cls : list N) : N :=
  match cls with
  | [] => cs
  | cl :: r => chain_cs cst (cslookup cst cs cl) r
  end.

Lemma chain_id_app at_ id a b :
  chain_id at_ id (a ++ b) = match chain_id at_ id a with Some i => chain_id at_ i b | None => None end.
Proof.
  revert id. induction a as [|cl a IH]; intro id; cbn [app chain_id]; [reflexivity|].
  destruct (alookup at_ id cl) as [|[i|]]; try reflexivity. apply IH.
Qed.
Lemma chain_cs_app cst cs a b : chain_cs cst cs (a ++ b) = chain_cs cst (chain_cs cst cs a) b.
Proof. revert cs. induction a as [|cl a IH]; intro cs; cbn [app chain_cs]; [reflexivity|apply IH]. Qed.

Lemma vexact_chain_l T id cs :
  vexact T id cs <->
  exists id0 ds cs0 cls, vlookup (t_v T) id0 ds = VRes (Some cs0) /\
    chain_id (t_a T) id0 cls = Some id /\ chain_cs (t_cs T) cs0 cls = cs.
Proof.
  split.
  - induction 1 as [id ds cs Hv|id cs cl i _ [id0 [ds [cs0 [cls [Hv [Hi Hc]]]]]] Ha].
    + exists id, ds, cs, []. auto.
    + exists id0, ds, cs0, (cls ++ [cl]). split; [exact Hv|]. split.
      * rewrite chain_id_app, Hi. cbn [chain_id]. rewrite Ha. reflexivity.
      * rewrite chain_cs_app, Hc. reflexivity.
  - intros [id0 [ds [cs0 [cls [Hv [Hi Hc]]]]]].
    assert (G : forall cls a c, vexact T a c -> chain_id (t_a T) a cls = Some id -> vexact T id (chain_cs (t_cs T) c cls)).
    { clear. induction cls as [|cl r IH]; intros a c Hl Hi; cbn [chain_id chain_cs] in *.
      - inversion Hi; subst. exact Hl.
      - destruct (alookup (t_a T) a cl) as [|[i|]] eqn:Ha; try discriminate.
        apply (IH i); [|exact Hi]. eapply vx_att; eassumption. }
    rewrite <- Hc. apply (G cls id0 cs0); [eapply vx_ver; exact Hv|exact Hi].
Qed.
Print Assumptions vexact_chain_l.

(* ---- what a lookup in the new heap can find *)
Lemma halloc_lookup h n cs h' n' rs : halloc h n cs = (h', n', rs) ->
  forall k c, blookup k h' = Some c -> blookup k h = Some c \/ In c cs.
Proof.
  revert h n h' n' rs. induction cs as [|c0 cs IH]; intros h n h' n' rs; cbn [halloc].
  - intro H. inversion H; subst. auto.
  - destruct (halloc ((n, c0) :: h) (n + 1) cs) as [[h1 n1] rs1] eqn:E. intro H. inversion H; subst. clear H.
    intros k c Hl. destruct (IH _ _ _ _ _ E k c Hl) as [Hl'|Hin]; [|right; right; exact Hin].
    rewrite blookup_cons in Hl'. destruct (n =? k); [inversion Hl'; right; left; reflexivity|left; exact Hl'].
Qed.

Lemma In_combine_map {A B} (f : A -> B) l a b : In (a, b) (combine l (map f l)) -> b = f a.
Proof.
  induction l as [|x l IH]; cbn [map combine]; intro H; [contradiction|].
  destruct H as [H|H]; [inversion H; reflexivity|exact (IH H)].
Qed.

(* ---- the invariants *)
Definition locs0 (σ : hst) : Prop := forall k hb, In (k, hb) (h_bs σ) -> hb_loc hb = 0.
Lemma locs0_kind_l T F σ σ' : hkind T F σ σ' -> locs0 σ -> locs0 σ'.
Proof.
  intros K H0. unfold locs0.
  assert (Hput : forall k hb', hb_loc hb' = 0 -> forall k2 hb2, In (k2, hb2) (bput k hb' (h_bs σ)) -> hb_loc hb2 = 0).
  { intros k hb' Hl k2 hb2 Hin. apply In_bput in Hin. destruct Hin as [E|Hin]; [inversion E; subst; exact Hl|exact (H0 k2 hb2 Hin)]. }
  destruct K as [E1 E2 E3|k loc ts rs Ea _ Hloc E3|k hb ts rs El Ea _ E3|dst k hb q El _ E1 E2 E3|k hb ts' rs El _ Hsh _ Erw E3|k hb cl ts1 El Eall E1 E2 E3];
    rewrite E3; try exact H0; apply Hput; cbn [hb_loc];
    try exact (H0 k hb (blookup_In _ _ _ El)).
  destruct Hloc as [->|[k0 [hb0 [El0 ->]]]]; [reflexivity|exact (H0 k0 hb0 (blookup_In _ _ _ El0))].
Qed.

Lemma att_tok_perm_alookup at_ cst loc cl t t1 m :
  att_tok at_ cst loc cl t = Some t1 -> is_perm loc t = true -> tok_mac t = Some m ->
  exists i, alookup at_ (m_id m) cl = VRes (Some i).
Proof.
  unfold att_tok. intros H Hp Hm. rewrite Hp in H.
  destruct t as [s|s|m0|m0 cs|m0]; cbn [tok_mac] in Hm; try discriminate; inversion Hm; subst m0;
    destruct (alookup at_ (m_id m) cl) as [|[i|]]; try discriminate; exists i; reflexivity.
Qed.

Lemma all_some_In {A B} (f : A -> option B) l ts x : all_some (map f l) = Some ts -> In x l -> exists y, f x = Some y.
Proof.
  intros H Hin. destruct (f x) as [y|] eqn:E; [exists y; reflexivity|].
  exfalso. assert (HN : In None (map f l)) by (apply in_map_iff; exists x; auto).
  apply all_some_None in HN. rewrite H in HN. discriminate.
Qed.

(* OWNERSHIP: a verification wrapper's base object is private to it - no other wrapper sits on it and no bundle
   holds it directly (what the repair of F15 establishes: Verify wraps a fresh copy) *)
Definition own (σ : hst) : Prop :=
  (forall w1 w2 u, wrapper_at (h_heap σ) w1 u -> wrapper_at (h_heap σ) w2 u -> w1 = w2) /\
  (forall k hb r w u, In (k, hb) (h_bs σ) -> In r (hb_refs hb) -> wrapper_at (h_heap σ) w u -> r <> u).

Lemma wrapper_at_lt n h w u : heap_ok n h -> wrapper_at h w u -> w < n /\ u < n.
Proof.
  intros Hok [[cs Hw]|Hw]; destruct (heap_ok_lookup _ _ _ _ Hok Hw) as [Hk Hc]; cbn [cell_ok] in Hc; auto.
Qed.

Lemma hatt_wrapper_at at_ cst h hb cl w u : wrapper_at (hatt_heap at_ cst h hb cl) w u <-> wrapper_at h w u.
Proof.
  unfold wrapper_at. rewrite hatt_lookup.
  destruct (blookup w h) as [[t|u0 cs0|u0]|]; cbn [option_map att_cell].
  - destruct (existsb _ _); [destruct (att_tok _ _ _ _ t)|]; split; intros [[cs H]|H]; discriminate.
  - destruct (existsb _ _); split; intros [[cs H]|H]; try discriminate; inversion H; subst; left; eexists; reflexivity.
  - tauto.
  - tauto.
Qed.

(* an entry of a bundle whose base object carries a wrapper IS that wrapper *)
Lemma own_entry σ k hb r w u :
  own σ -> In (k, hb) (h_bs σ) -> In r (hb_refs hb) -> wrapper_at (h_heap σ) w u -> base_of (h_heap σ) r = u -> r = w.
Proof.
  intros [O1 O2] Hin Hr Hw Hb. unfold base_of in Hb.
  destruct (blookup r (h_heap σ)) as [[t|u0 cs0|u0]|] eqn:E.
  - exfalso. exact (O2 k hb r w u Hin Hr Hw Hb).
  - subst u0. apply (O1 r w u); [left; exists cs0; exact E|exact Hw].
  - subst u0. apply (O1 r w u); [right; exact E|exact Hw].
  - exfalso. exact (O2 k hb r w u Hin Hr Hw Hb).
Qed.

Lemma own_kind_l T F σ σ' : hkind T F σ σ' -> hwf σ -> own σ -> own σ'.
Proof.
  intros K [Hh Hs] [O1 O2]. unfold own.
  (* wrappers of an extended heap whose new cells are unverified objects *)
  assert (Halloc : forall ts rs, halloc (h_heap σ) (h_next σ) (map CBase ts) = (h_heap σ', h_next σ', rs) ->
            forall w u, wrapper_at (h_heap σ') w u -> wrapper_at (h_heap σ) w u).
  { intros ts rs Ea w u [[cs Hw]|Hw]; destruct (halloc_lookup _ _ _ _ _ _ Ea w _ Hw) as [Hl|Hin];
      try (apply in_map_iff in Hin; destruct Hin as [t [Ht _]]; discriminate); [left; exists cs; exact Hl|right; exact Hl]. }
  assert (Hput : forall (W : N -> N -> Prop) k hb',
            (forall k2 hb2 r w u, In (k2, hb2) (h_bs σ) -> In r (hb_refs hb2) -> W w u -> r <> u) ->
            (forall r w u, In r (hb_refs hb') -> W w u -> r <> u) ->
            forall k2 hb2 r w u, In (k2, hb2) (bput k hb' (h_bs σ)) -> In r (hb_refs hb2) -> W w u -> r <> u).
  { intros W k hb' Hold Hnew k2 hb2 r w u Hin Hr Hw. apply In_bput in Hin. destruct Hin as [E|Hin].
    - inversion E; subst. exact (Hnew r w u Hr Hw).
    - exact (Hold k2 hb2 r w u Hin Hr Hw). }
  destruct K as [E1 E2 E3|k loc ts rs Ea _ _ E3|k hb ts rs El Ea _ E3|dst k hb q El _ E1 E2 E3|k hb ts' rs El _ Hsh _ Erw E3|k hb cl ts1 El Eall E1 E2 E3].
  - rewrite E1, E3. split; assumption.
  - destruct (halloc_spec _ _ _ _ _ _ Ea) as [_ [_ [_ [Hrng _]]]]. split.
    + intros w1 w2 u H1 H2. exact (O1 w1 w2 u (Halloc _ _ Ea _ _ H1) (Halloc _ _ Ea _ _ H2)).
    + rewrite E3. apply Hput.
      * intros k2 hb2 r w u Hin Hr Hw. exact (O2 k2 hb2 r w u Hin Hr (Halloc _ _ Ea _ _ Hw)).
      * cbn [hb_refs]. intros r w u Hr Hw. apply Hrng in Hr.
        destruct (wrapper_at_lt _ _ _ _ Hh (Halloc _ _ Ea _ _ Hw)). lia.
  - destruct (halloc_spec _ _ _ _ _ _ Ea) as [_ [_ [_ [Hrng _]]]]. pose proof (blookup_In _ _ _ El) as Hin0. split.
    + intros w1 w2 u H1 H2. exact (O1 w1 w2 u (Halloc _ _ Ea _ _ H1) (Halloc _ _ Ea _ _ H2)).
    + rewrite E3. apply Hput.
      * intros k2 hb2 r w u Hin Hr Hw. exact (O2 k2 hb2 r w u Hin Hr (Halloc _ _ Ea _ _ Hw)).
      * cbn [hb_refs]. intros r w u Hr Hw. apply in_app_or in Hr. destruct Hr as [Hr|Hr].
        -- exact (O2 k hb r w u Hin0 Hr (Halloc _ _ Ea _ _ Hw)).
        -- apply Hrng in Hr. destruct (wrapper_at_lt _ _ _ _ Hh (Halloc _ _ Ea _ _ Hw)). lia.
  - rewrite E1, E3. pose proof (blookup_In _ _ _ El) as Hin0. split; [exact O1|]. apply Hput; [exact O2|].
    cbn [hb_refs]. intros r w u Hr Hw. apply filter_In in Hr. exact (O2 k hb r w u Hin0 (proj1 Hr) Hw).
  - pose proof (blookup_In _ _ _ El) as Hin0.
    destruct (hrewrap_spec (hb_loc hb) (h_heap σ) (h_next σ) Hh _ _ _ _ _ _ _ Erw (N.le_refl _) (hext_refl _ _) Hh
                (Hs k hb Hin0)) as [_ [Hext [_ [_ [_ [Hsh' [Hcells Hown]]]]]]].
    (* a wrapper of the new heap is an old one or a new one *)
    assert (Hw' : forall w u, wrapper_at (h_heap σ') w u ->
              (w < h_next σ /\ wrapper_at (h_heap σ) w u) \/ (h_next σ <= w /\ w = u + 1 /\ h_next σ <= u)).
    { intros w u Hw. destruct (N.lt_ge_cases w (h_next σ)) as [Hlt|Hge].
      - left. split; [exact Hlt|]. apply (wrapper_at_ext (h_next σ) (h_heap σ) (h_heap σ') w u Hext Hlt). exact Hw.
      - right. split; [exact Hge|]. destruct Hw as [[cs Hw]|Hw]; destruct (Hcells w _ Hw) as [Hold|[_ Hd]];
          try (destruct (heap_ok_lookup _ _ _ _ Hh Hold) as [Hc _]; lia); cbn [new_desc] in Hd; tauto. }
    split.
    + intros w1 w2 u H1 H2. destruct (Hw' w1 u H1) as [[_ H1']|[_ [H1' H1'']]]; destruct (Hw' w2 u H2) as [[_ H2']|[_ [H2' H2'']]].
      * exact (O1 w1 w2 u H1' H2').
      * destruct (wrapper_at_lt _ _ _ _ Hh H1'). lia.
      * destruct (wrapper_at_lt _ _ _ _ Hh H2'). lia.
      * lia.
    + rewrite E3. apply Hput.
      * intros k2 hb2 r w u Hin Hr Hw. destruct (Hw' w u Hw) as [[_ Hw0]|[_ [_ Hu]]].
        -- exact (O2 k2 hb2 r w u Hin Hr Hw0).
        -- pose proof (Hs k2 hb2 Hin r Hr). lia.
      * cbn [hb_refs]. intros r w u Hr Hw. destruct (Hw' w u Hw) as [[_ Hw0]|[Hge _]].
        -- destruct (Hsh' r Hr) as [[Hin' _]|[Hge _]].
           ++ exact (O2 k hb r w u Hin0 Hin' Hw0).
           ++ destruct (wrapper_at_lt _ _ _ _ Hh Hw0). lia.
        -- exact (Hown r w u Hr Hge Hw).
  - rewrite E1, E3. pose proof (blookup_In _ _ _ El) as Hin0. split.
    + intros w1 w2 u H1 H2. apply hatt_wrapper_at in H1. apply hatt_wrapper_at in H2. exact (O1 w1 w2 u H1 H2).
    + apply Hput.
      * intros k2 hb2 r w u Hin Hr Hw. apply hatt_wrapper_at in Hw. exact (O2 k2 hb2 r w u Hin Hr Hw).
      * intros r w u Hr Hw. apply hatt_wrapper_at in Hw. exact (O2 k hb r w u Hin0 Hr Hw).
Qed.
Print Assumptions own_kind_l.

(* EXACTNESS: every verification wrapper in the heap sits on an unverified permission object, and its caveat set is
   the table's verified set extended by exactly the attenuations of that object *)
Definition xinv (T : tables) (σ : hst) : Prop :=
  forall k u cs, blookup k (h_heap σ) = Some (CVer u cs) ->
  exists m, cell_mac (h_heap σ) u = Some m /\ m_loc m = 0 /\ vexact T (m_id m) cs.

Lemma xinv_kind_l T F σ σ' :
  hkind T F σ σ' -> kf_cached F = false -> hwf σ -> locs0 σ -> own σ -> xinv T σ -> xinv T σ'.
Proof.
  intros K HF [Hh Hs] H0 HO HW. unfold xinv.
  (* old wrappers in an extended heap *)
  assert (Hold : forall h', hext (h_next σ) (h_heap σ) h' -> forall k u cs, blookup k (h_heap σ) = Some (CVer u cs) ->
            exists m, cell_mac h' u = Some m /\ m_loc m = 0 /\ vexact T (m_id m) cs).
  { intros h' Hext k u cs Hl. destruct (HW k u cs Hl) as [m [Hm Hrest]]. exists m. split; [|exact Hrest].
    destruct (heap_ok_lookup _ _ _ _ Hh Hl) as [_ Hu]. cbn [cell_ok] in Hu.
    unfold cell_mac in *. rewrite (Hext u Hu). exact Hm. }
  destruct K as [E1 E2 E3|k loc ts rs Ea _ _ E3|k hb ts rs El Ea _ E3|dst k hb q El _ E1 E2 E3|k hb ts' rs El _ Hsh Hts Erw E3|k hb cl ts1 El Eall E1 E2 E3].
  - rewrite E1. exact HW.
  - destruct (halloc_spec _ _ _ _ _ _ Ea) as [_ [Hext _]]. intros k0 u cs Hl.
    destruct (halloc_lookup _ _ _ _ _ _ Ea k0 _ Hl) as [Hl'|Hin]; [exact (Hold _ Hext k0 u cs Hl')|].
    apply in_map_iff in Hin. destruct Hin as [t [Ht _]]. discriminate.
  - destruct (halloc_spec _ _ _ _ _ _ Ea) as [_ [Hext _]]. intros k0 u cs Hl.
    destruct (halloc_lookup _ _ _ _ _ _ Ea k0 _ Hl) as [Hl'|Hin]; [exact (Hold _ Hext k0 u cs Hl')|].
    apply in_map_iff in Hin. destruct Hin as [t [Ht _]]. discriminate.
  - rewrite E1. exact HW.
  - pose proof (blookup_In _ _ _ El) as Hin0.
    destruct (hrewrap_spec (hb_loc hb) (h_heap σ) (h_next σ) Hh _ _ _ _ _ _ _ Erw (N.le_refl _) (hext_refl _ _) Hh
                (Hs k hb Hin0)) as [_ [Hext [_ [_ [_ [_ [Hcells _]]]]]]].
    intros k0 u cs Hl.
    destruct (Hcells k0 _ Hl) as [Hl'|[_ Hd]]; [exact (Hold _ Hext k0 u cs Hl')|].
    cbn [new_desc] in Hd. destruct Hd as [_ [_ [r [m [Hin [Hp Hbu]]]]]].
    rewrite (Hts HF), hview_ts, map_map in Hin. apply In_combine_map in Hin.
    symmetry in Hin. apply verify_tok_TVer_inv in Hin. rewrite hview_loc in Hin.
    destruct Hin as [[Hnp _]|[_ [Hm Hv]]]; [rewrite Hp in Hnp; discriminate|].
    exists m. split; [unfold cell_mac; rewrite Hbu; reflexivity|]. split; [|eapply vx_ver; exact Hv].
    rewrite (is_perm_mac _ _ _ Hm) in Hp. apply N.eqb_eq in Hp. rewrite Hp. exact (H0 k hb Hin0).
  - pose proof (blookup_In _ _ _ El) as Hin0. pose proof (H0 k hb Hin0) as Hloc.
    intros k0 u cs' Hl. rewrite E1, hatt_lookup in Hl.
    destruct (blookup k0 (h_heap σ)) as [[t|u0 cs0|u0]|] eqn:Ek; cbn [option_map att_cell] in Hl; try discriminate.
    { destruct (existsb _ _) in Hl; [destruct (att_tok _ _ _ _ t) in Hl|]; discriminate. }
    destruct (HW k0 u0 cs0 Ek) as [m [Hm [Hml Hvl]]].
    assert (Hmac' : cell_mac (h_heap σ') u0 = Some (att_mac (t_a T) (h_heap σ) hb cl u0 m)).
    { rewrite E1, hatt_cell_mac, Hm. reflexivity. }
    assert (Hloc' : forall i, m_loc (retag m i) = 0) by (intro; exact Hml).
    assert (Hwk : wrapper_at (h_heap σ) k0 u0) by (left; exists cs0; exact Ek).
    (* the base object is touched only through THIS wrapper (ownership), and then its attenuation is in the table *)
    assert (Htb : In u0 (map (base_of (h_heap σ)) (touched (h_heap σ) hb)) ->
                  In k0 (touched (h_heap σ) hb) /\ exists i, alookup (t_a T) (m_id m) cl = VRes (Some i)).
    { intro HB. apply in_map_iff in HB. destruct HB as [r [Hb Hr]]. pose proof Hr as Hr0.
      apply In_TW in Hr. destruct Hr as [Hr Hp].
      assert (r = k0) by exact (own_entry σ k hb r k0 u0 HO Hin0 Hr Hwk Hb). subst r.
      split; [exact Hr0|].
      destruct (all_some_In _ _ _ (cell_tok (h_heap σ) k0) Eall) as [y Hy]; [rewrite hview_ts; apply in_map; exact Hr|].
      apply (att_tok_perm_alookup _ _ _ _ _ _ m Hy Hp). rewrite tok_mac_cell_tok, Hb. exact Hm. }
    destruct (existsb (N.eqb k0) (touched (h_heap σ) hb)) eqn:EW in Hl; inversion Hl; subst u cs'; clear Hl.
    + apply memN_In in EW. pose proof (In_TB_of_TW _ _ _ EW) as HB.
      assert (Hb : base_of (h_heap σ) k0 = u0) by (unfold base_of; rewrite Ek; reflexivity). rewrite Hb in HB.
      destruct (Htb HB) as [_ [i Ha]].
      apply In_TW in EW. destruct EW as [_ Hp].
      assert (Hpl : (m_loc m =? hb_loc hb) = true) by (rewrite is_perm_cell_tok, Hb, Hm in Hp; exact Hp).
      exists (retag m i). split; [|split; [apply Hloc'|]].
      * rewrite Hmac'. unfold att_mac. apply memN_In in HB. rewrite HB, Hpl, Ha. reflexivity.
      * cbn [retag m_id]. eapply vx_att; eassumption.
    + unfold att_mac in Hmac'.
      destruct (existsb (N.eqb u0) (map (base_of (h_heap σ)) (touched (h_heap σ) hb)) && (m_loc m =? hb_loc hb)) eqn:EB.
      * apply andb_true_iff in EB. destruct EB as [EB _]. apply memN_In in EB. destruct (Htb EB) as [Hk0 _].
        apply memN_In in Hk0. rewrite Hk0 in EW. discriminate.
      * exists m. auto.
Qed.
Print Assumptions xinv_kind_l.

Definition hinv (T : tables) (σ : hst) : Prop := hwf σ /\ locs0 σ /\ own σ /\ xinv T σ.

Lemma hinv_init T : hinv T hinit.
Proof.
  split; [apply hwf_init|]. split; [intros k hb []|]. split.
  - split.
    + intros w1 w2 u [[cs H]|H]; discriminate H.
    + intros k hb r w u [].
  - intros k u cs H. discriminate H.
Qed.

Lemma hinv_step_l T σ o : is_verify_cached o = false -> hinv T σ -> hinv T (fst (hstep T σ o)).
Proof.
  intros Hc [Hwf [H0 [HO HX]]]. pose proof (hstep_kind_l T σ o) as K.
  split; [exact (hwf_kind_l _ _ _ _ K Hwf)|]. split; [exact (locs0_kind_l _ _ _ _ K H0)|].
  split; [exact (own_kind_l _ _ _ _ K Hwf HO)|]. exact (xinv_kind_l _ _ _ _ K Hc Hwf H0 HO HX).
Qed.

Lemma hinv_after_l T ops : forall σ,
  existsb is_verify_cached ops = false -> hinv T σ -> hinv T (hstate_after T σ ops).
Proof.
  induction ops as [|o r IH]; intros σ Hc H; cbn [hstate_after existsb] in *; [exact H|].
  apply orb_false_iff in Hc. destruct Hc as [Ho Hr]. apply IH; [exact Hr|]. apply hinv_step_l; assumption.
Qed.

(* THE INVARIANT, for every cache-free scenario, whatever it shares: ownership and exactness *)
Theorem hexact_run_l T ops : cache_free ops = true -> hinv T (hstate_after T hinit ops).
Proof. unfold cache_free. intro H. apply negb_true_iff in H. apply hinv_after_l; [exact H|apply hinv_init]. Qed.
Print Assumptions hexact_run_l.

(* ---- unverified objects stay raw: a token shown as verified is shown through a wrapper *)
Definition rawh (σ : hst) : Prop := forall k t, blookup k (h_heap σ) = Some (CBase t) -> raw_tok t = true.

Lemma att_tok_raw at_ cst loc cl t t' : att_tok at_ cst loc cl t = Some t' -> raw_tok t = true -> raw_tok t' = true.
Proof.
  unfold att_tok. destruct (is_perm loc t); [|intro H; inversion H; subst; auto].
  destruct t as [s|s|m|m cs|m]; intros H Hr; try discriminate Hr; try (inversion H; subst; reflexivity).
  destruct (alookup at_ (m_id m) cl) as [|[i|]]; try discriminate H. inversion H. reflexivity.
Qed.

Lemma rawh_kind_l T F σ σ' : hkind T F σ σ' -> kf_raw F = true -> hwf σ -> rawh σ -> rawh σ'.
Proof.
  intros K HF [Hh Hs] HR. unfold rawh.
  destruct K as [E1 E2 E3|k loc ts rs Ea Hraw _ E3|k hb ts rs El Ea Hraw E3|dst k hb q El _ E1 E2 E3|k hb ts' rs El _ Hsh Hts Erw E3|k hb cl ts1 El Eall E1 E2 E3].
  - rewrite E1. exact HR.
  - intros k0 t Hl. destruct (halloc_lookup _ _ _ _ _ _ Ea k0 _ Hl) as [Hl'|Hin]; [exact (HR k0 t Hl')|].
    apply in_map_iff in Hin. destruct Hin as [t0 [Ht Hin]]. inversion Ht; subst t0.
    specialize (Hraw HF). rewrite forallb_forall in Hraw. exact (Hraw t Hin).
  - intros k0 t Hl. destruct (halloc_lookup _ _ _ _ _ _ Ea k0 _ Hl) as [Hl'|Hin]; [exact (HR k0 t Hl')|].
    apply in_map_iff in Hin. destruct Hin as [t0 [Ht Hin]]. inversion Ht; subst t0.
    specialize (Hraw HF). rewrite forallb_forall in Hraw. exact (Hraw t Hin).
  - rewrite E1. exact HR.
  - pose proof (blookup_In _ _ _ El) as Hin0.
    destruct (hrewrap_spec (hb_loc hb) (h_heap σ) (h_next σ) Hh _ _ _ _ _ _ _ Erw (N.le_refl _) (hext_refl _ _) Hh
                (Hs k hb Hin0)) as [_ [_ [_ [_ [_ [_ [Hcells _]]]]]]].
    intros k0 t Hl. destruct (Hcells k0 _ Hl) as [Hl'|[_ Hd]]; [exact (HR k0 t Hl')|exact Hd].
  - intros k0 t Hl. rewrite E1, hatt_lookup in Hl.
    destruct (blookup k0 (h_heap σ)) as [[t0|u0 cs0|u0]|] eqn:Ek; cbn [option_map att_cell] in Hl; try discriminate.
    + pose proof (HR k0 t0 Ek) as Hr0.
      destruct (existsb _ _) in Hl; [|inversion Hl; subst; exact Hr0].
      destruct (att_tok (t_a T) (t_cs T) (hb_loc hb) cl t0) as [t1|] eqn:Ea; inversion Hl; subst; [|exact Hr0].
      exact (att_tok_raw _ _ _ _ _ _ Ea Hr0).
    + destruct (existsb _ _) in Hl; discriminate.
Qed.

Lemma rawh_after_l T ops : forall σ, forallb raw_op ops = true -> hwf σ -> rawh σ -> rawh (hstate_after T σ ops).
Proof.
  induction ops as [|o r IH]; intros σ Hr Hwf H; cbn [hstate_after forallb] in *; [exact H|].
  apply andb_true_iff in Hr. destruct Hr as [Ho Hr]. apply IH; [exact Hr|apply hwf_step_l, Hwf|].
  exact (rawh_kind_l T (op_flags o) _ _ (hstep_kind_l T σ o) Ho Hwf H).
Qed.

Theorem rawh_run_l T ops : raw_ops ops = true -> rawh (hstate_after T hinit ops).
Proof. intro H. apply rawh_after_l; [exact H|apply hwf_init|]. intros k t Hl. discriminate Hl. Qed.
Print Assumptions rawh_run_l.

(* in a raw heap a token is shown as verified exactly through a wrapper *)
Lemma cell_tok_TVer_inv σ r m cs : rawh σ -> cell_tok (h_heap σ) r = TVer m cs ->
  exists u, blookup r (h_heap σ) = Some (CVer u cs) /\ cell_mac (h_heap σ) u = Some m.
Proof.
  intros HR. unfold cell_tok. destruct (blookup r (h_heap σ)) as [[t|u cs0|u]|] eqn:E.
  - intro Ht. subst t. specialize (HR r _ E). discriminate HR.
  - destruct (cell_mac (h_heap σ) u) as [m0|] eqn:Em; intro Ht; inversion Ht; subst. exists u. auto.
  - destruct (cell_mac (h_heap σ) u); discriminate.
  - discriminate.
Qed.

Lemma halloc_fresh_base h n ts h' n' rs :
  halloc h n (map CBase ts) = (h', n', rs) -> forall r, In r rs -> exists t, blookup r h' = Some (CBase t).
Proof.
  intro H. destruct (halloc_spec _ _ _ _ _ _ H) as [_ [_ [Hget _]]].
  clear H. revert ts Hget. induction rs as [|r0 rs IH]; intros [|t ts]; cbn [map]; intros Hget r Hin; try discriminate; try contradiction.
  inversion Hget as [[H1 H2]]. destruct Hin as [<-|Hin]; [exists t; exact H1|exact (IH ts H2 r Hin)].
Qed.

Lemma map_base_fresh h n ts h' n' rs :
  halloc h n (map CBase ts) = (h', n', rs) -> map (base_of h') rs = rs.
Proof.
  intro H. rewrite <- (map_id rs) at 2. apply map_ext_in. intros r Hr. exact (halloc_base_self _ _ _ _ _ _ H r Hr).
Qed.


(* ------------------------------------------------------------------ *)
(* 3. bundle-level statements                                          *)

(* a bundle - parent or derived - clears a request iff one of ITS OWN entries is a verified token whose CURRENT
   caveat set clears it *)
Theorem validate_own_refs_l ct h hb rq :
  validate ct (hview h hb) rq = true <->
  exists r m cs, In r (hb_refs hb) /\ cell_tok h r = TVer m cs /\ clookup ct cs rq = true.
Proof.
  rewrite validate_iff_l, hview_ts. split.
  - intros [m [cs [Hin Hc]]]. apply in_map_iff in Hin. destruct Hin as [r [Hr Hin]]. exists r, m, cs. auto.
  - intros [r [m [cs [Hin [Hr Hc]]]]]. exists m, cs. split; [|exact Hc]. rewrite <- Hr. apply in_map. exact Hin.
Qed.
Print Assumptions validate_own_refs_l.

Lemma cell_tok_of_wrapper h r u cs m :
  blookup r h = Some (CVer u cs) -> cell_mac h u = Some m -> cell_tok h r = TVer m cs.
Proof. intros Hr Hm. unfold cell_tok. rewrite Hr, Hm. reflexivity. Qed.

(* ... and, in every cache-free scenario, that entry is a verification wrapper on a permission object of its own, whose
   caveat set is the table's verified set of an ancestor of the token extended by exactly the attenuations since *)
Theorem bundle_decision_exact_l T ops k hb rq :
  raw_ops ops = true -> cache_free ops = true ->
  let σ := hstate_after T hinit ops in
  In (k, hb) (h_bs σ) ->
  (validate (t_c T) (hview (h_heap σ) hb) rq = true <->
   exists r u cs m, In r (hb_refs hb) /\ blookup r (h_heap σ) = Some (CVer u cs) /\ cell_mac (h_heap σ) u = Some m /\
     is_perm (hb_loc hb) (TVer m cs) = true /\ vexact T (m_id m) cs /\ clookup (t_c T) cs rq = true).
Proof.
  intros Hraw Hcf σ Hin.
  pose proof (rawh_run_l T ops Hraw) as HR. destruct (hexact_run_l T ops Hcf) as [_ [H0 [_ HW]]]. fold σ in HR, H0, HW.
  rewrite validate_own_refs_l. split.
  - intros [r [m [cs [Hr [Ht Hc]]]]]. destruct (cell_tok_TVer_inv σ r m cs HR Ht) as [u [Hl Hm]].
    destruct (HW r u cs Hl) as [m' [Hm' [Hloc Hv]]]. rewrite Hm in Hm'. inversion Hm'; subst m'.
    exists r, u, cs, m. repeat (split; [assumption|]). split; [|split; assumption].
    unfold is_perm. cbn [tok_mac]. rewrite Hloc, (H0 k hb Hin). reflexivity.
  - intros [r [u [cs [m [Hr [Hl [Hm [_ [_ Hc]]]]]]]]]. exists r, m, cs. split; [exact Hr|]. split; [|exact Hc].
    exact (cell_tok_of_wrapper _ _ _ _ _ Hl Hm).
Qed.
Print Assumptions bundle_decision_exact_l.

(* ---- attenuation through one alias *)
Lemma hattenuate_ok at_ cst h hb cl h' :
  hattenuate at_ cst h hb cl = (h', true) ->
  h' = hatt_heap at_ cst h hb cl /\
  exists ts1, all_some (map (att_tok at_ cst (hb_loc hb) cl) (b_ts (hview h hb))) = Some ts1.
Proof.
  unfold hattenuate. destruct (all_some _) as [ts1|] eqn:E; intro H; inversion H. split; [reflexivity|]. exists ts1. reflexivity.
Qed.

(* every permission entry of the attenuated bundle shows, from now on and through EVERY bundle holding that entry,
   the value model's attenuation of what it showed before: the new identity and - for a verified entry - the
   extended caveat set *)
Theorem attenuate_visible_through_aliases_l at_ cst h hb cl h' hb' r :
  hattenuate at_ cst h hb cl = (h', true) ->
  In r (hb_refs hb) -> In r (hb_refs hb') ->
  exists t1, att_tok at_ cst (hb_loc hb) cl (cell_tok h r) = Some t1 /\
             cell_tok h' r = t1 /\ In t1 (b_ts (hview h' hb)) /\ In t1 (b_ts (hview h' hb')).
Proof.
  intros Ha Hr Hr'. destruct (hattenuate_ok _ _ _ _ _ _ Ha) as [-> [ts1 Eall]].
  destruct (all_some_In _ _ _ (cell_tok h r) Eall) as [t1 Ht1]; [rewrite hview_ts; apply in_map; exact Hr|].
  exists t1. split; [exact Ht1|].
  pose proof (hatt_own at_ cst h hb cl r t1 Hr Ht1) as Hc. split; [exact Hc|].
  rewrite !hview_ts, <- Hc. split; apply in_map; assumption.
Qed.
Print Assumptions attenuate_visible_through_aliases_l.

Corollary attenuate_verified_alias_l at_ cst h hb cl h' hb' r m cs :
  hattenuate at_ cst h hb cl = (h', true) ->
  In r (hb_refs hb) -> In r (hb_refs hb') ->
  cell_tok h r = TVer m cs -> is_perm (hb_loc hb) (TVer m cs) = true ->
  exists i, alookup at_ (m_id m) cl = VRes (Some i) /\
            cell_tok h' r = TVer (retag m i) (cslookup cst cs cl) /\
            In (TVer (retag m i) (cslookup cst cs cl)) (b_ts (hview h' hb')).
Proof.
  intros Ha Hr Hr' Ht Hp.
  destruct (attenuate_visible_through_aliases_l _ _ _ _ _ _ _ _ Ha Hr Hr') as [t1 [Ht1 [Hc [_ Hin]]]].
  rewrite Ht in Ht1. destruct (attenuate_verified_appends_l _ _ _ _ _ _ _ Hp Ht1) as [i [Hi ->]].
  exists i. auto.
Qed.
Print Assumptions attenuate_verified_alias_l.

(* NO BYPASS: whatever bundle an accepted Attenuate goes through, every verification wrapper of the heap moves in step
   with its token: either both stay, or the token gets its new identity AND the caveat set is extended *)
Theorem attenuate_never_bypasses_l at_ cst σ k hb cl h' w u cs m :
  own σ -> In (k, hb) (h_bs σ) ->
  hattenuate at_ cst (h_heap σ) hb cl = (h', true) ->
  blookup w (h_heap σ) = Some (CVer u cs) -> cell_mac (h_heap σ) u = Some m ->
  cell_tok (h_heap σ) w = TVer m cs /\
  (cell_tok h' w = TVer m cs \/
   exists i, alookup at_ (m_id m) cl = VRes (Some i) /\ cell_tok h' w = TVer (retag m i) (cslookup cst cs cl)).
Proof.
  intros HO Hin Ha Hw Hm. destruct (hattenuate_ok _ _ _ _ _ _ Ha) as [-> [ts1 Eall]].
  split; [exact (cell_tok_of_wrapper _ _ _ _ _ Hw Hm)|].
  assert (Hwk : wrapper_at (h_heap σ) w u) by (left; exists cs; exact Hw).
  assert (Hb : base_of (h_heap σ) w = u) by (unfold base_of; rewrite Hw; reflexivity).
  assert (Hmac' : cell_mac (hatt_heap at_ cst (h_heap σ) hb cl) u = Some (att_mac at_ (h_heap σ) hb cl u m)).
  { rewrite hatt_cell_mac, Hm. reflexivity. }
  assert (Hct : cell_tok (hatt_heap at_ cst (h_heap σ) hb cl) w =
                TVer (att_mac at_ (h_heap σ) hb cl u m)
                     (if existsb (N.eqb w) (touched (h_heap σ) hb) then cslookup cst cs cl else cs)).
  { unfold cell_tok. rewrite hatt_lookup, Hw. cbn [option_map att_cell].
    destruct (existsb (N.eqb w) (touched (h_heap σ) hb)); rewrite Hmac'; reflexivity. }
  rewrite Hct. clear Hct. unfold att_mac.
  destruct (existsb (N.eqb w) (touched (h_heap σ) hb)) eqn:EW.
  - right. apply memN_In in EW. pose proof (In_TB_of_TW _ _ _ EW) as HB. rewrite Hb in HB.
    apply In_TW in EW. destruct EW as [Hr Hp].
    destruct (all_some_In _ _ _ (cell_tok (h_heap σ) w) Eall) as [y Hy]; [rewrite hview_ts; apply in_map; exact Hr|].
    assert (Hmw : tok_mac (cell_tok (h_heap σ) w) = Some m) by (rewrite tok_mac_cell_tok, Hb; exact Hm).
    destruct (att_tok_perm_alookup _ _ _ _ _ _ m Hy Hp Hmw) as [i Hi]. exists i. split; [exact Hi|].
    assert (Hpl : (m_loc m =? hb_loc hb) = true) by (rewrite is_perm_cell_tok, Hb, Hm in Hp; exact Hp).
    apply memN_In in HB. rewrite HB, Hpl, Hi. reflexivity.
  - left.
    destruct (existsb (N.eqb u) (map (base_of (h_heap σ)) (touched (h_heap σ) hb)) && (m_loc m =? hb_loc hb)) eqn:EB; [|reflexivity].
    exfalso. apply andb_true_iff in EB. destruct EB as [EB _]. apply memN_In in EB.
    apply in_map_iff in EB. destruct EB as [r [Hbr Hr]]. pose proof Hr as Hr0. apply In_TW in Hr. destruct Hr as [Hr _].
    assert (r = w) by exact (own_entry σ k hb r w u HO Hin Hr Hwk Hbr). subst r.
    apply memN_In in Hr0. rewrite Hr0 in EW. discriminate.
Qed.
Print Assumptions attenuate_never_bypasses_l.

(* ---- Select / Filter never lose an attenuation: they touch no object, the derived bundle holds the very entries
   of its parent, in their current state *)
Theorem select_keeps_cells_l T σ dst b p hb :
  blookup b (h_bs σ) = Some hb ->
  let σ' := fst (hstep T σ (BSelect dst b p)) in
  h_heap σ' = h_heap σ /\
  exists hd, blookup dst (h_bs σ') = Some hd /\
    (forall r, In r (hb_refs hd) <-> In r (hb_refs hb) /\ pred_fn (hb_loc hb) p (cell_tok (h_heap σ) r) = true) /\
    hview (h_heap σ') hd = select (hview (h_heap σ) hb) (pred_fn (hb_loc hb) p).
Proof.
  intro El. cbv beta iota zeta delta [hstep]. rewrite El. cbn [fst h_heap h_bs].
  split; [reflexivity|]. exists (hselect (h_heap σ) hb (pred_fn (hb_loc hb) p)).
  split; [rewrite blookup_bput, N.eqb_refl; reflexivity|]. split; [|apply hview_hselect].
  intro r. unfold hselect. cbn [hb_refs]. apply filter_In.
Qed.
Print Assumptions select_keeps_cells_l.

(* ---- frames: an attenuation leaves every bundle alone that reaches none of the objects it touches *)
Lemma hatt_frame_l at_ cst h hb cl hb' :
  (forall x, In x (reach h hb) -> ~ In x (reach h hb')) ->
  hview (hatt_heap at_ cst h hb cl) hb' = hview h hb'.
Proof.
  intro Hd. unfold hview. f_equal. apply map_ext_in. intros r Hr.
  assert (H1 : ~ In r (reach h hb)) by (intro Hx; exact (Hd r Hx (In_reach_ref _ _ _ Hr))).
  assert (H2 : ~ In (base_of h r) (reach h hb)) by (intro Hx; exact (Hd _ Hx (In_reach_base _ _ _ Hr))).
  apply hatt_foreign.
  - intro Hx. apply H1, touched_reach. left. exact Hx.
  - intro Hx. apply H1, touched_reach. right. exact Hx.
  - intro Hx. apply H2, touched_reach. right. exact Hx.
Qed.

Lemma isolated_intro σ k hb :
  blookup k (h_bs σ) = Some hb ->
  (forall k' hb', In (k', hb') (h_bs σ) -> k' <> k -> forall x, In x (reach (h_heap σ) hb) -> ~ In x (reach (h_heap σ) hb')) ->
  isolated σ k = true.
Proof.
  intros El Hd. unfold isolated. rewrite El. apply forallb_forall. intros [k' hb'] Hin. cbn [fst snd].
  destruct (k' =? k) eqn:E; [reflexivity|]. cbn [orb].
  assert (Hne : k' <> k) by (intro; subst; rewrite N.eqb_refl in E; discriminate).
  unfold disjointb. apply negb_true_iff. apply existsb_false_iff. intros x Hx.
  apply existsb_false_iff. intros y Hy. destruct (x =? y) eqn:Exy; [|reflexivity].
  apply N.eqb_eq in Exy. subst y. exfalso. exact (Hd k' hb' Hin Hne x Hx Hy).
Qed.

Lemma clone_eta vb : mkB (b_loc vb) (b_ts (clone vb)) = clone vb.
Proof. unfold clone. destruct (b_ts vb); reflexivity. Qed.

(* ---- Clone: fresh objects; nothing done through any other bundle shows in the clone, and vice versa *)
Theorem clone_independent_l T σ dst b hb :
  hwf σ -> blookup b (h_bs σ) = Some hb ->
  let σ1 := fst (hstep T σ (BClone dst b)) in
  exists hd, blookup dst (h_bs σ1) = Some hd /\
    hview (h_heap σ1) hd = clone (hview (h_heap σ) hb) /\
    isolated σ1 dst = true /\
    forall k' hb' cl, In (k', hb') (h_bs σ1) -> k' <> dst ->
      hview (hatt_heap (t_a T) (t_cs T) (h_heap σ1) hb' cl) hd = hview (h_heap σ1) hd /\
      hview (hatt_heap (t_a T) (t_cs T) (h_heap σ1) hd cl) hb' = hview (h_heap σ1) hb'.
Proof.
  intros [Hh Hs] El. cbv beta iota zeta delta [hstep]. rewrite El.
  destruct (halloc (h_heap σ) (h_next σ) (map CBase (b_ts (clone (hview (h_heap σ) hb))))) as [[h' n'] rs] eqn:Ea.
  cbn [fst h_heap h_bs h_next].
  destruct (halloc_spec _ _ _ _ _ _ Ea) as [Hn [Hext [_ [Hrng _]]]].
  exists (mkHB (hb_loc hb) rs). split; [rewrite blookup_bput, N.eqb_refl; reflexivity|].
  assert (Hview : hview h' (mkHB (hb_loc hb) rs) = clone (hview (h_heap σ) hb)).
  { unfold hview at 1. cbn [hb_loc hb_refs]. rewrite (halloc_base_view _ _ _ _ _ _ Ea).
    exact (clone_eta (hview (h_heap σ) hb)). }
  split; [exact Hview|].
  (* the clone reaches only fresh cells, every other slot only old ones *)
  assert (Hnew : forall x, In x (reach h' (mkHB (hb_loc hb) rs)) -> h_next σ <= x).
  { intros x Hx. unfold reach in Hx. cbn [hb_refs] in Hx. rewrite (map_base_fresh _ _ _ _ _ _ Ea) in Hx.
    apply in_app_or in Hx. destruct Hx as [Hx|Hx]; apply Hrng in Hx; lia. }
  assert (Hold : forall k' hb', In (k', hb') (bput dst (mkHB (hb_loc hb) rs) (h_bs σ)) -> k' <> dst ->
            forall x, In x (reach h' hb') -> x < h_next σ).
  { intros k' hb' Hin Hne x Hx. apply In_bput in Hin. destruct Hin as [E|Hin]; [inversion E; contradiction|].
    rewrite (reach_ext (h_next σ) _ _ _ Hext (Hs k' hb' Hin)) in Hx.
    exact (reach_lt _ _ _ Hh (Hs k' hb' Hin) x Hx). }
  split.
  - apply (isolated_intro _ dst (mkHB (hb_loc hb) rs)); cbn [h_bs h_heap].
    + rewrite blookup_bput, N.eqb_refl. reflexivity.
    + intros k' hb' Hin Hne x Hx Hx'. pose proof (Hnew x Hx). pose proof (Hold k' hb' Hin Hne x Hx'). lia.
  - intros k' hb' cl Hin Hne. split; apply hatt_frame_l; intros x Hx Hx'.
    + pose proof (Hnew x Hx'). pose proof (Hold k' hb' Hin Hne x Hx). lia.
    + pose proof (Hnew x Hx). pose proof (Hold k' hb' Hin Hne x Hx'). lia.
Qed.
Print Assumptions clone_independent_l.

(* ------------------------------------------------------------------ *)
(* examples (by computation)                                           *)

Module HeapExamples.
Local Open Scope Z_scope.
(* one permission token, identity 1; verified alone it has caveat set 10, which clears requests 0 (read) and 1
   (write); attenuating it with caveat list 0 ("read only") gives identity 2 / caveat set 11, which clears only 0;
   the attenuated token verified afresh has caveat set 11 *)
Definition m1 : mac := mkMac 1 0 1000 [].
Definition T1 : tables :=
  mkTab [(1%N, [], Some 10%N); (2%N, [], Some 11%N)]
        [(10%N, 0%N, true); (10%N, 1%N, true); (11%N, 0%N, true); (11%N, 1%N, false)]
        [(1%N, 0%N, Some 2%N)]
        [(10%N, 0%N, 11%N)].

(* Verify, Select, Attenuate through the PARENT: the derived bundle holds the same *VerifiedMacaroon, so it sees the
   new caveat set and prints the new token; the value model (a copy at Select time) does not *)
Definition ex_alias : list bop :=
  [BParse 0 [TUnv m1]; BVerify 0; BSelect 1 0 PAll; BAttenuate 0 0;
   BValidate 0 1; BValidate 1 1; BHeader 0; BHeader 1].
Example aliased_attenuation_seen_by_both :
  hrun T1 ex_alias = [[1]; [1; 10]; []; [1]; [0]; [0]; [1; 2]; [1; 2]] /\
  run_bundle T1 ex_alias = [[1]; [1; 10]; []; [1]; [0]; [1]; [1; 2]; [1; 1]] /\
  alias_safe T1 ex_alias = false.
Proof. vm_compute. auto. Qed.

(* Select, then Verify on the parent: the parent's slice gets a fresh wrapper around a fresh copy of the token object;
   the earlier-derived bundle still holds the unverified object and clears nothing *)
Definition ex_verify_after_select : list bop :=
  [BParse 0 [TUnv m1]; BSelect 1 0 PAll; BVerify 0;
   BValidate 0 0; BValidate 1 0; BCount 0 PVerified; BCount 1 PVerified].
Example verify_not_seen_by_derived :
  hrun T1 ex_verify_after_select = [[1]; []; [1; 10]; [1]; [0]; [1]; [0]].
Proof. vm_compute. reflexivity. Qed.

(* ... now Attenuate through the derived bundle (what was finding F15 before the repair): it reaches only the object
   the derived bundle holds.  The parent stays CONSISTENT: it prints the unattenuated token (identity 1) and decides by
   that token's verified caveats; a clone of the parent verified afresh decides the same. *)
Definition ex_derived_attenuates : list bop :=
  ex_verify_after_select ++
  [BAttenuate 1 0; BHeader 0; BHeader 1; BValidate 0 1; BClone 2 0; BVerify 2; BValidate 2 1; BValidate 2 0].
Example attenuation_through_derived_leaves_parent_consistent :
  hrun T1 ex_derived_attenuates =
    [[1]; []; [1; 10]; [1]; [0]; [1]; [0]; [1]; [1; 1]; [1; 2]; [1]; []; [1; 10]; [1]; [1]].
Proof. vm_compute. reflexivity. Qed.

(* ... and the parent may be attenuated although it still shares objects (not the verified ones) with a derived bundle:
   the value model follows *)
Definition ex_private_after_verify : list bop :=
  [BParse 0 [TUnv m1]; BSelect 1 0 PAll; BVerify 0; BAttenuate 0 0; BValidate 0 1; BHeader 0; BHeader 1].
Example verify_makes_entries_private :
  alias_safe T1 ex_private_after_verify = true /\
  hrun T1 ex_private_after_verify = [[1]; []; [1; 10]; [1]; [0]; [1; 2]; [1; 1]].
Proof. vm_compute. auto. Qed.

(* verifying AGAIN decouples a bundle from the bundles derived from it after its first Verify: they no longer share the
   verified token, an attenuation through one is not seen through the other (each stays consistent) *)
Definition ex_reverify : list bop :=
  [BParse 0 [TUnv m1]; BVerify 0; BSelect 1 0 PAll; BVerify 0; BAttenuate 0 0;
   BValidate 0 1; BValidate 1 1; BHeader 0; BHeader 1].
Example reverify_decouples :
  hrun T1 ex_reverify = [[1]; [1; 10]; []; [1; 10]; [1]; [0]; [1]; [1; 2]; [1; 1]] /\
  alias_safe T1 ex_reverify = true.
Proof. vm_compute. auto. Qed.

(* a scenario with a Clone: both models agree *)
Definition ex_clone : list bop :=
  [BParse 0 [TUnv m1]; BVerify 0; BClone 1 0; BAttenuate 0 0; BVerify 1; BValidate 0 1; BValidate 1 1; BHeader 1].
Example clone_is_independent :
  alias_safe T1 ex_clone = true /\
  hrun T1 ex_clone = [[1]; [1; 10]; []; [1]; [1; 10]; [0]; [1]; [1; 1]].
Proof. vm_compute. auto. Qed.

(* LEGACY (before the repair of F15, tokens.Verify wrapped the token object itself): the state after
   "P = parse; D = P.Select; P.Verify" then had P's wrapper (cell 1) on the very object D holds (cell 0).  Such a
   state violates ownership, and from it an Attenuate through D makes P print the read-only token (identity 2) while
   still clearing the write (request 1), which the table refuses for token 2 (verified set 11) *)
Definition legacy_state : hst :=
  mkHst [(1%N, CVer 0 10); (0%N, CBase (TUnv m1))] 2 [(0%N, mkHB 0 [1%N]); (1%N, mkHB 0 [0%N])] [].
Example legacy_verify_shares_base_refuted :
  ~ own legacy_state /\
  hrun_from T1 legacy_state [BAttenuate 1 0; BHeader 0; BValidate 0 1] = [[1]; [1; 2]; [1]] /\
  vlookup (t_v T1) 2 [] = VRes (Some 11%N) /\ clookup (t_c T1) 11 1 = false.
Proof.
  split; [|vm_compute; auto].
  intros [_ O2]. apply (O2 1%N (mkHB 0 [0%N]) 0%N 1%N 0%N).
  - right. left. reflexivity.
  - left. reflexivity.
  - left. exists 10%N. reflexivity.
  - reflexivity.
Qed.
End HeapExamples.

(* ------------------------------------------------------------------ *)
Print Assumptions HeapExamples.aliased_attenuation_seen_by_both.
Print Assumptions HeapExamples.attenuation_through_derived_leaves_parent_consistent.
Print Assumptions HeapExamples.legacy_verify_shares_base_refuted.
