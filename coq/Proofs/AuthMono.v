(* C18 - attenuation and the discharge-side conditions: appending caveats to a
   third-party caveat's set can only tighten what the third party is held to. *)
From Coq Require Import List Bool NArith ZArith Lia.
From Mac Require Import Model.Err Model.Caveat Model.Access Model.Prohibits
  Proofs.ErrFacts Proofs.AuthProofs.
Import ListNotations.
Local Open Scope Z_scope.

Lemma max_validities_app cs cs' :
  max_validities (cs ++ cs') = max_validities cs ++ max_validities cs'.
Proof. unfold max_validities, flat_all. now rewrite !flat_map_app. Qed.

(* the effective lifetime limit never grows when caveats are appended *)
Lemma get_max_validity_app_le_l cs cs' :
  fst (get_max_validity (cs ++ cs')) <= fst (get_max_validity cs).
Proof.
  unfold get_max_validity. fold mv_step. cbn [fst].
  rewrite max_validities_app, fold_left_app. apply fold_mv_le.
Qed.

(* a limit, once present, stays reported *)
Lemma get_max_validity_app_found_l cs cs' :
  snd (get_max_validity cs) = true -> snd (get_max_validity (cs ++ cs')) = true.
Proof.
  intros H.
  pose proof (get_max_validity_spec_l cs) as S.
  pose proof (get_max_validity_spec_l (cs ++ cs')) as S'.
  destruct (get_max_validity cs) as [m f]. destruct (get_max_validity (cs ++ cs')) as [m' f'].
  cbn [snd] in *. subst f.
  destruct S as (_ & _ & Sf). destruct S' as (_ & _ & Sf').
  destruct f'; [reflexivity|exfalso].
  assert (E : max_validities (cs ++ cs') = []) by now apply Sf'.
  rewrite max_validities_app in E. apply app_eq_nil in E. destruct E as [E _].
  apply Sf in E. discriminate.
Qed.

(* a discharge request cleared by an attenuated set was cleared before attenuation *)
Lemma discharge_set_attenuate_l cs cs' d :
  validate (cs ++ cs') [ADischarge d] = None -> validate cs [ADischarge d] = None.
Proof.
  rewrite !validate_nil_iff. intros H a Ha. destruct (H a Ha) as [Hv Hc]. split; [exact Hv|].
  intros c Hin. apply Hc. apply in_or_app. now left.
Qed.

(* ... and a request denied by a set stays denied however the set is extended *)
Lemma discharge_set_denied_stays_l cs cs' d :
  validate cs [ADischarge d] <> None -> validate (cs ++ cs') [ADischarge d] <> None.
Proof. intros H H'. apply H. exact (discharge_set_attenuate_l _ _ _ H'). Qed.
