(* NO AMPLIFICATION at the typed level (property C12): the VALUE that the typed lenient decoder of Model.TypedDec2 leaves
   behind is never larger than a small multiple of the bytes it consumed, whatever the bytes, for every setting of the
   ext-header leniency [ext], of the *CaveatSet decoder variant [pz] and of the fuel.
     cav_weight c   (Model.CavSize: memory units of the decoded value)   2 * w <= 3 * consumed + 3, hence w <= 2 * consumed + 1
     cav_count c    (caveats in the value, nested ones included)         2 * n <= consumed + 1
     cav_depth c    (nesting depth = depth of the decoder's recursion)   d <= n, hence d <= consumed
   and for a whole set read from [b]: 2 * set_weight cs <= 3 * |b|, 2 * set_count cs <= |b|.
   No leniency amplifies: a nil struct costs the struct's integers (the +3 / +1), a repeated key of a map-encoded struct
   replaces (strings, byte strings, integers, []string), merges (resource sets: at most one new entry per entry read) or
   appends (Ifs: every appended caveat was read), an ext header only consumes, an unregistered body is kept as it was read.
   The factor 3/2 is reached by scalar structs written as nil inside a set: 2 bytes (type, c0) for 3 units. *)
From Coq Require Import List Bool NArith ZArith String Ascii Lia ZifyN ZifyNat ZifyBool.
From Mac Require Import Model.Caveat Model.Msgpack Model.Codec Model.TypedDec Model.TypedDec2 Model.CavSize
  Proofs.CavInd Proofs.CodecProofs Proofs.TypedDecProofs Proofs.TypedDec2Accept Proofs.TypedDec2Frames.
Import ListNotations.
Local Open Scope N_scope.

Local Notation len := (@List.length N).

(* ------------------------------------------------------------------------------------------ *)
(* sums                                                                                        *)

Lemma list_sum_map_app {A} (f : A -> nat) a b : list_sum (map f (a ++ b)) = (list_sum (map f a) + list_sum (map f b))%nat.
Proof. rewrite map_app, list_sum_app. reflexivity. Qed.

Lemma set_weight_app a b : set_weight (a ++ b) = (set_weight a + set_weight b)%nat.
Proof. apply list_sum_map_app. Qed.
Lemma set_weight_cons c cs : set_weight (c :: cs) = (cav_weight c + set_weight cs)%nat.
Proof. reflexivity. Qed.
Lemma set_count_app a b : set_count (a ++ b) = (set_count a + set_count b)%nat.
Proof. unfold set_count, flat_all. rewrite flat_map_app, app_length. reflexivity. Qed.
Lemma set_count_cons c cs : set_count (c :: cs) = (cav_count c + set_count cs)%nat.
Proof. unfold set_count, cav_count, flat_all. cbn [flat_map]. apply app_length. Qed.
Lemma set_count_length cs : (List.length cs <= set_count cs)%nat.
Proof.
  induction cs as [|c cs IH]; [cbn; lia|]. rewrite set_count_cons. unfold cav_count. destruct c; cbn [flat List.length]; lia.
Qed.

Lemma cav_weight_ifs ifs els : cav_weight (CIfPresent ifs els) = (2 + set_weight (ifs_list ifs))%nat.
Proof. destruct ifs; reflexivity. Qed.
Lemma cav_count_ifs ifs els : cav_count (CIfPresent ifs els) = (1 + set_count (ifs_list ifs))%nat.
Proof. destruct ifs; reflexivity. Qed.

(* ------------------------------------------------------------------------------------------ *)
(* strings, byte strings                                                                       *)

Lemma dec_bytes_len_sz l o r : dec_bytes_len l = Some (o, r) -> (obytes_w o + len r < len l)%nat.
Proof.
  unfold dec_bytes_len. destruct (dec_blen l) as [[[n|] r1]|] eqn:E; [| |discriminate];
    apply (consumes_length _ _ _ _ dec_blen_consumes) in E.
  - destruct (take n r1) as [[p r2]|] eqn:E2; [|discriminate]. intros H. injection H as <- <-.
    apply take_Some in E2. destruct E2 as [-> _]. rewrite app_length in E. cbn [obytes_w]. lia.
  - intros H. injection H as <- <-. cbn [obytes_w]. lia.
Qed.

Lemma dec_str_len_sz l p r : dec_str_len l = Some (p, r) -> (len p + len r < len l)%nat.
Proof.
  unfold dec_str_len. destruct (dec_bytes_len l) as [[[q|] r1]|] eqn:E; [| |discriminate];
    apply dec_bytes_len_sz in E; intros H; injection H as <- <-; cbn [obytes_w List.length] in *; lia.
Qed.

Lemma dk_s_sz l k r : dk_s l = Some (k, r) -> (String.length k + len r < len l)%nat.
Proof.
  unfold dk_s. destruct (dec_str_len l) as [[p r1]|] eqn:E; [|discriminate]. cbn [option_map fst snd].
  intros H. injection H as <- <-. rewrite bytes_str_length. apply (dec_str_len_sz _ _ _ E).
Qed.

Lemma dec_uint_len_sz l n r : dec_uint_len l = Some (n, r) -> (len r < len l)%nat.
Proof. apply (consumes_length _ _ _ _ dec_uint_len_consumes). Qed.

(* ------------------------------------------------------------------------------------------ *)
(* resource sets: a duplicate key replaces, a new key adds one entry; either way the entry was read *)

Section RSSize.
  Context {K : Type} (leb : K -> K -> bool) (dk : bytes -> option (K * bytes)) (kw : K -> nat).
  Hypothesis dk_sz : forall l k r, dk l = Some (k, r) -> (kw k + len r < len l)%nat.

  Definition rs_w (m : list (K * N)) : nat := list_sum (map (fun e => S (kw (fst e))) m).

  Lemma rs_w_cons x m : rs_w (x :: m) = (S (kw (fst x)) + rs_w m)%nat.
  Proof. reflexivity. Qed.

  Lemma set_k_w k v m : (rs_w (set_k leb k v m) <= S (kw k) + rs_w m)%nat.
  Proof.
    induction m as [|x m IH]; cbn [set_k].
    - rewrite rs_w_cons. cbn [fst]. lia.
    - destruct (leb k (fst x)).
      + destruct (leb (fst x) k); rewrite !rs_w_cons; cbn [fst]; lia.
      + rewrite !rs_w_cons. lia.
  Qed.

  Lemma dec_rs_entries_sz n : forall acc l m r, dec_rs_entries dk (set_k leb) n acc l = Some (m, r) ->
    (len r <= len l)%nat /\ (rs_w m + len r <= rs_w acc + len l)%nat.
  Proof.
    induction n as [|n IH]; intros acc l m r; cbn [dec_rs_entries].
    - intros H. injection H as <- <-. lia.
    - destruct (dk l) as [[k r1]|] eqn:Ek; [|discriminate]. destruct (dec_uint_len r1) as [[v r2]|] eqn:Ev; [|discriminate].
      apply dk_sz in Ek. apply dec_uint_len_sz in Ev. intros H. apply IH in H.
      pose proof (set_k_w k (v mod 2 ^ 16) acc) as Hs. lia.
  Qed.

  Lemma dec_rs_sz ext cur l o r : dec_rs dk (set_k leb) ext cur l = Some (o, r) ->
    (len r < len l)%nat /\ (rs_w (rs_list o) + len r < rs_w (rs_list cur) + len l)%nat.
  Proof.
    unfold dec_rs. destruct (dec_maplen ext l) as [[[n|] r1]|] eqn:Em; [| |discriminate];
      apply (consumes_length _ _ _ _ (dec_maplen_consumes ext)) in Em.
    - destruct (N.of_nat (len r1) <? 2 * n); [discriminate|].
      destruct (dec_rs_entries dk (set_k leb) (N.to_nat n) (rs_list cur) r1) as [[m r2]|] eqn:Ee; [|discriminate].
      apply dec_rs_entries_sz in Ee. intros H. injection H as <- <-. cbn [rs_list]. lia.
    - intros H. injection H as <- <-. unfold rs_w at 1. cbn [rs_list map list_sum fold_right]. lia.
  Qed.
End RSSize.

Lemma rs_w_s rs : rs_w (fun k : string => String.length k) rs = rs_s_w rs.
Proof. reflexivity. Qed.
Lemma rs_w_n (rs : rset N) : rs_w (fun _ : N => 0%nat) rs = rs_n_w rs.
Proof. unfold rs_n_w. induction rs as [|e rs IH]; [reflexivity|]. rewrite rs_w_cons, IH. reflexivity. Qed.

Lemma dec_rs_s_sz ext cur l o r : dec_rs dk_s set_s ext cur l = Some (o, r) ->
  (len r < len l)%nat /\ (rs_s_w (rs_list o) + len r < rs_s_w (rs_list cur) + len l)%nat.
Proof. intros H. rewrite <- !rs_w_s. revert H. apply dec_rs_sz. exact dk_s_sz. Qed.

Lemma dec_rs_n_sz ext cur l o r : dec_rs dk_n set_n ext cur l = Some (o, r) ->
  (len r < len l)%nat /\ (rs_n_w (rs_list o) + len r < rs_n_w (rs_list cur) + len l)%nat.
Proof.
  intros H. rewrite <- !rs_w_n. revert H. apply dec_rs_sz. intros l0 k r0 H0. apply dec_uint_len_sz in H0. lia.
Qed.

(* ------------------------------------------------------------------------------------------ *)
(* []string                                                                                    *)

Lemma strs_w_cons s ss : strs_w (s :: ss) = (S (String.length s) + strs_w ss)%nat.
Proof. reflexivity. Qed.

Lemma dec_strs_n_sz n : forall l ss r, dec_strs_n n l = Some (ss, r) -> (strs_w ss + len r <= len l)%nat.
Proof.
  induction n as [|n IH]; intros l ss r; cbn [dec_strs_n].
  - intros H. injection H as <- <-. cbn. lia.
  - destruct (dec_str_len l) as [[s r1]|] eqn:E; [|discriminate]. destruct (dec_strs_n n r1) as [[ss' r2]|] eqn:E2; [|discriminate].
    apply dec_str_len_sz in E. apply IH in E2. intros H. injection H as <- <-.
    rewrite strs_w_cons, bytes_str_length. lia.
Qed.

Lemma dec_strs_len_sz l o r : dec_strs_len l = Some (o, r) -> (ostrs_w o + len r < len l)%nat.
Proof.
  unfold dec_strs_len. destruct l as [|c l0]; [discriminate|].
  destruct (c =? 192). { intros H. injection H as <- <-. cbn [ostrs_w List.length]. lia. }
  destruct (dec_arr_hdr (c :: l0)) as [[n r1]|] eqn:Eh; [|discriminate].
  destruct (N.of_nat (len r1) <? n); [discriminate|].
  destruct (dec_strs_n (N.to_nat n) r1) as [[ss r2]|] eqn:E; [|discriminate]. intros H. injection H as <- <-.
  apply (consumes_length _ _ _ _ dec_arr_hdr_consumes) in Eh. apply dec_strs_n_sz in E. cbn [ostrs_w]. lia.
Qed.

(* ------------------------------------------------------------------------------------------ *)
(* struct fields (Model.TypedDec2): weight [fw] and number of caveats [fn] held by a field value *)

Definition fw (v : fval2) : nat :=
  match v with
  | WS s => String.length s | WB o => obytes_w o | WU _ => 0%nat | WL o => ostrs_w o | WBool _ => 0%nat
  | WRS o => rs_s_w (rs_list o) | WRN o => rs_n_w (rs_list o) | WSet o => set_weight (ifs_list o)
  end.
Definition fn (v : fval2) : nat := match v with WSet o => set_count (ifs_list o) | _ => 0%nat end.
Definition sumf (f : fval2 -> nat) (vs : list fval2) : nat := list_sum (map f vs).

Lemma sumf_cons f v vs : sumf f (v :: vs) = (f v + sumf f vs)%nat.
Proof. reflexivity. Qed.
Lemma fw_zero k : fw (fzero2 k) = 0%nat. Proof. destruct k; reflexivity. Qed.
Lemma fn_zero k : fn (fzero2 k) = 0%nat. Proof. destruct k; reflexivity. Qed.
Lemma sumf_zeros f sch : (forall k, f (fzero2 k) = 0%nat) -> sumf f (fzeros2 sch) = 0%nat.
Proof. intros Hz. unfold fzeros2. induction sch as [|e sch IH]; [reflexivity|]. cbn [map]. rewrite sumf_cons, Hz, IH. reflexivity. Qed.

(* replacing the i-th field: what was there goes, the new value comes *)
Lemma sumf_set_nth2 f d v : f d = 0%nat -> forall vs i,
  (sumf f (set_nth2 i v vs) + f (nth i vs d) <= sumf f vs + f v)%nat.
Proof.
  intros Hd. induction vs as [|x vs IH]; intros i.
  - destruct i; cbn [set_nth2 nth]; rewrite Hd; lia.
  - destruct i as [|i]; cbn [set_nth2 nth]; rewrite !sumf_cons; [lia|]. specialize (IH i). lia.
Qed.

(* what a decoder of nested sets has to guarantee: a non-empty prefix is read; 3 bytes pay for 2 units; 1 byte for 2 caveats *)
Definition ds_sz (ds : bytes -> option (list cav * bytes)) : Prop :=
  forall l cs r, ds l = Some (cs, r) ->
  (len r < len l)%nat /\ (2 * set_weight cs + 3 * len r <= 3 * len l)%nat /\ (2 * set_count cs + len r <= len l)%nat.

Section FieldSize.
  Variables (ext pz : bool) (ds : bytes -> option (list cav * bytes)).
  Hypothesis Hds : ds_sz ds.

  (* one field, decoded into [cur]: whatever it holds beyond what [cur] held was read now *)
  Lemma dec_field2_sz k cur l v r : dec_field2 ext pz ds k cur l = Some (v, r) ->
    (len r < len l)%nat /\ (2 * fw v + 3 * len r <= 2 * fw cur + 3 * len l)%nat /\ (2 * fn v + len r <= 2 * fn cur + len l)%nat.
  Proof.
    destruct k as [| |bits| | | | |]; cbn [dec_field2].
    - destruct (dec_str_len l) as [[p r1]|] eqn:E; [|discriminate]. cbn [option_map fst snd]. intros H. injection H as <- <-.
      apply dec_str_len_sz in E. cbn [fw fn]. rewrite bytes_str_length. lia.
    - destruct (dec_bytes_len l) as [[o r1]|] eqn:E; [|discriminate]. cbn [option_map fst snd]. intros H. injection H as <- <-.
      apply dec_bytes_len_sz in E. cbn [fw fn]. lia.
    - destruct (dec_uint_len l) as [[n r1]|] eqn:E; [|discriminate]. cbn [option_map fst snd]. intros H. injection H as <- <-.
      apply dec_uint_len_sz in E. cbn [fw fn]. lia.
    - destruct (dec_strs_len l) as [[[ss|] r1]|] eqn:E; [| |discriminate]; intros H; injection H as <- <-;
        apply dec_strs_len_sz in E; cbn [fw fn ostrs_w] in *; lia.
    - destruct (dec_bool_len l) as [[b r1]|] eqn:E; [|discriminate]. cbn [option_map fst snd]. intros H. injection H as <- <-.
      apply (consumes_length _ _ _ _ dec_bool_len_consumes) in E. cbn [fw fn]. lia.
    - destruct (dec_rs dk_s set_s ext (cur_rs cur) l) as [[o r1]|] eqn:E; [|discriminate].
      cbn [option_map fst snd]. intros H. injection H as <- <-. apply dec_rs_s_sz in E.
      assert (Hc : (rs_s_w (rs_list (cur_rs cur)) <= fw cur)%nat) by (destruct cur; cbn [cur_rs rs_list fw]; cbn; lia).
      cbn [fw fn]. lia.
    - destruct (dec_rs dk_n set_n ext (cur_rn cur) l) as [[o r1]|] eqn:E; [|discriminate].
      cbn [option_map fst snd]. intros H. injection H as <- <-. apply dec_rs_n_sz in E.
      assert (Hc : (rs_n_w (rs_list (cur_rn cur)) <= fw cur)%nat) by (destruct cur; cbn [cur_rn rs_list fw]; cbn; lia).
      cbn [fw fn]. lia.
    - destruct l as [|c l0]; [discriminate|]. destruct (c =? 192).
      { intros H. injection H as <- <-.
        assert (Hz : forall o' : option (list cav), (o' = None \/ o' = Some []) -> fw (WSet o') = 0%nat /\ fn (WSet o') = 0%nat)
          by (intros o' [->| ->]; split; reflexivity).
        match goal with |- context [WSet ?o'] => destruct (Hz o') as [Hw Hn] end.
        { destruct cur as [| | | | | | |[o|]]; auto. destruct pz; auto. }
        rewrite Hw, Hn. cbn [List.length]. lia. }
      destruct (ds (c :: l0)) as [[cs r1]|] eqn:E; [|discriminate]. cbn [option_map fst snd]. intros H. injection H as <- <-.
      destruct (Hds _ _ _ E) as (H1 & H2 & H3).
      assert (Hc : (set_weight (cur_set cur) <= fw cur)%nat /\ (set_count (cur_set cur) <= fn cur)%nat).
      { destruct cur; cbn [cur_set fw fn]; split; try lia; cbn; lia. }
      cbn [fw fn ifs_list]. rewrite set_weight_app, set_count_app. lia.
  Qed.

  (* array form *)
  Lemma dec_fields2_sz ks : forall l vs r, dec_fields2 ext pz ds ks l = Some (vs, r) ->
    (len r <= len l)%nat /\ (2 * sumf fw vs + 3 * len r <= 3 * len l)%nat /\ (2 * sumf fn vs + len r <= len l)%nat.
  Proof.
    induction ks as [|k ks IH]; intros l vs r; cbn [dec_fields2].
    - intros H. injection H as <- <-. cbn. lia.
    - destruct (dec_field2 ext pz ds k (fzero2 k) l) as [[v r1]|] eqn:E; [|discriminate].
      destruct (dec_fields2 ext pz ds ks r1) as [[vs' r2]|] eqn:E2; [|discriminate]. intros H. injection H as <- <-.
      apply dec_field2_sz in E. rewrite fw_zero, fn_zero in E. apply IH in E2. rewrite !sumf_cons. lia.
  Qed.

  (* map form: a key that comes again meets what the earlier occurrence left *)
  Lemma dec_map_entries2_sz sch n : forall vs l vs' r, dec_map_entries2 ext pz ds sch n vs l = Some (vs', r) ->
    (len r <= len l)%nat /\ (2 * sumf fw vs' + 3 * len r <= 2 * sumf fw vs + 3 * len l)%nat /\
    (2 * sumf fn vs' + len r <= 2 * sumf fn vs + len l)%nat.
  Proof.
    induction n as [|n IH]; intros vs l vs' r; cbn [dec_map_entries2].
    - intros H. injection H as <- <-. lia.
    - destruct (dec_str_len l) as [[name r1]|] eqn:E; [|discriminate]. apply dec_str_len_sz in E.
      destruct (find_field2 sch name 0) as [[i k]|].
      + destruct (dec_field2 ext pz ds k (nth i vs (fzero2 k)) r1) as [[v r2]|] eqn:E2; [|discriminate].
        apply dec_field2_sz in E2. intros H. apply IH in H.
        pose proof (sumf_set_nth2 fw (fzero2 k) v (fw_zero k) vs i) as Hw.
        pose proof (sumf_set_nth2 fn (fzero2 k) v (fn_zero k) vs i) as Hn. lia.
      + destruct (skip (S (len r1)) r1) as [r2|] eqn:E2; [|discriminate]. apply skip_length in E2.
        intros H. apply IH in H. lia.
  Qed.

  (* decodeStructValue: the header takes a byte *)
  Lemma dec_struct2_sz sch l vs r : dec_struct2 ext pz ds sch l = Some (vs, r) ->
    (len r < len l)%nat /\ (2 * sumf fw vs + 3 * len r + 3 <= 3 * len l)%nat /\ (2 * sumf fn vs + len r + 1 <= len l)%nat.
  Proof.
    destruct l as [|c l0]; [discriminate|]. unfold dec_struct2.
    pose proof (sumf_zeros fw sch fw_zero) as Hzw. pose proof (sumf_zeros fn sch fn_zero) as Hzn.
    assert (Hmap : forall n (l1 : bytes), (len l1 <= len l0)%nat -> dec_map2 ext pz ds sch n l1 = Some (vs, r) ->
              (len r < len (c :: l0))%nat /\ (2 * sumf fw vs + 3 * len r + 3 <= 3 * len (c :: l0))%nat /\
              (2 * sumf fn vs + len r + 1 <= len (c :: l0))%nat).
    { intros n l1 Hl1 H. unfold dec_map2 in H. destruct (N.of_nat (len l1) <? 2 * n); [discriminate|].
      apply dec_map_entries2_sz in H. rewrite Hzw, Hzn in H. cbn [List.length]. lia. }
    destruct (c =? 192). { intros H. injection H as <- <-. rewrite Hzw, Hzn. cbn [List.length]. lia. }
    destruct ((128 <=? c) && (c <=? 143)). { apply Hmap. lia. }
    destruct (c =? 222).
    { destruct (take 2 l0) as [[lb r1]|] eqn:E; [|discriminate]. apply take_Some in E. destruct E as [-> _]. apply Hmap.
      rewrite app_length. lia. }
    destruct (c =? 223).
    { destruct (take 4 l0) as [[lb r1]|] eqn:E; [|discriminate]. apply take_Some in E. destruct E as [-> _]. apply Hmap.
      rewrite app_length. lia. }
    destruct (dec_arr_hdr (c :: l0)) as [[n r1]|] eqn:E; [|discriminate].
    apply (consumes_length _ _ _ _ dec_arr_hdr_consumes) in E.
    destruct (n =? 0). { intros H. injection H as <- <-. rewrite Hzw, Hzn. lia. }
    destruct (n =? N.of_nat (List.length sch)); [|discriminate]. intros H. apply dec_fields2_sz in H. lia.
  Qed.
End FieldSize.

(* ------------------------------------------------------------------------------------------ *)
(* the scalar-bodied types (Model.TypedDec): only strings weigh; a repeated key replaces        *)

Definition fw1 (v : fval) : nat := match v with VS s => len s | _ => 0%nat end.
Definition sumf1 (vs : list fval) : nat := list_sum (map fw1 vs).
Lemma sumf1_cons v vs : sumf1 (v :: vs) = (fw1 v + sumf1 vs)%nat.
Proof. reflexivity. Qed.
Lemma fw1_zero k : fw1 (fzero k) = 0%nat. Proof. destruct k; reflexivity. Qed.
Lemma sumf1_zeros sch : sumf1 (fzeros sch) = 0%nat.
Proof. unfold fzeros. induction sch as [|e sch IH]; [reflexivity|]. cbn [map]. rewrite sumf1_cons, fw1_zero, IH. reflexivity. Qed.

Lemma sumf1_set_nth v : forall vs i, (sumf1 (set_nth i v vs) <= sumf1 vs + fw1 v)%nat.
Proof.
  induction vs as [|x vs IH]; intros i.
  - destruct i; cbn [set_nth]; lia.
  - destruct i as [|i]; cbn [set_nth]; rewrite !sumf1_cons; [lia|]. specialize (IH i). lia.
Qed.

Lemma dec_field_sz k l v r : dec_field k l = Some (v, r) -> (fw1 v + len r < len l)%nat.
Proof.
  destruct k as [bits| |]; cbn [dec_field].
  - unfold dec_uint64_len. destruct (dec_uint_len l) as [[n r1]|] eqn:E; [|discriminate].
    cbn [option_map fst snd]. intros H. injection H as <- <-. apply dec_uint_len_sz in E. cbn [fw1]. lia.
  - destruct (dec_int64_len l) as [[z r1]|] eqn:E; [|discriminate].
    cbn [option_map fst snd]. intros H. injection H as <- <-. apply (consumes_length _ _ _ _ dec_int64_len_consumes) in E. cbn [fw1]. lia.
  - destruct (dec_str_len l) as [[p r1]|] eqn:E; [|discriminate].
    cbn [option_map fst snd]. intros H. injection H as <- <-. apply dec_str_len_sz in E. cbn [fw1]. lia.
Qed.

Lemma dec_fields_sz ks : forall l vs r, dec_fields ks l = Some (vs, r) -> (sumf1 vs + len r <= len l)%nat.
Proof.
  induction ks as [|k ks IH]; intros l vs r; cbn [dec_fields].
  - intros H. injection H as <- <-. cbn. lia.
  - destruct (dec_field k l) as [[v r1]|] eqn:E; [|discriminate].
    destruct (dec_fields ks r1) as [[vs' r2]|] eqn:E2; [|discriminate]. intros H. injection H as <- <-.
    apply dec_field_sz in E. apply IH in E2. rewrite sumf1_cons. lia.
Qed.

Lemma dec_map_entries_sz sch n : forall vs l vs' r, dec_map_entries sch n vs l = Some (vs', r) ->
  (sumf1 vs' + len r <= sumf1 vs + len l)%nat.
Proof.
  induction n as [|n IH]; intros vs l vs' r; cbn [dec_map_entries].
  - intros H. injection H as <- <-. lia.
  - destruct (dec_str_len l) as [[name r1]|] eqn:E; [|discriminate]. apply dec_str_len_sz in E.
    destruct (find_field sch name 0) as [[i k]|].
    + destruct (dec_field k r1) as [[v r2]|] eqn:E2; [|discriminate]. apply dec_field_sz in E2.
      intros H. apply IH in H. pose proof (sumf1_set_nth v vs i). lia.
    + destruct (skip (S (len r1)) r1) as [r2|] eqn:E2; [|discriminate]. apply skip_length in E2.
      intros H. apply IH in H. lia.
Qed.

Lemma dec_struct_sz sch l vs r : dec_struct sch l = Some (vs, r) -> (sumf1 vs + len r < len l)%nat.
Proof.
  destruct l as [|c l0]; [discriminate|]. unfold dec_struct. pose proof (sumf1_zeros sch) as Hz.
  assert (Hmap : forall n (l1 : bytes), (len l1 <= len l0)%nat -> dec_map sch n l1 = Some (vs, r) ->
            (sumf1 vs + len r < len (c :: l0))%nat).
  { intros n l1 Hl1 H. unfold dec_map in H. destruct (N.of_nat (len l1) <? 2 * n); [discriminate|].
    apply dec_map_entries_sz in H. rewrite Hz in H. cbn [List.length]. lia. }
  destruct (c =? 192). { intros H. injection H as <- <-. rewrite Hz. cbn [List.length]. lia. }
  destruct ((128 <=? c) && (c <=? 143)). { apply Hmap. lia. }
  destruct (c =? 222).
  { destruct (take 2 l0) as [[lb r1]|] eqn:E; [|discriminate]. apply take_Some in E. destruct E as [-> _]. apply Hmap.
    rewrite app_length. lia. }
  destruct (c =? 223).
  { destruct (take 4 l0) as [[lb r1]|] eqn:E; [|discriminate]. apply take_Some in E. destruct E as [-> _]. apply Hmap.
    rewrite app_length. lia. }
  destruct (dec_arr_hdr (c :: l0)) as [[n r1]|] eqn:E; [|discriminate].
  apply (consumes_length _ _ _ _ dec_arr_hdr_consumes) in E.
  destruct (n =? 0). { intros H. injection H as <- <-. rewrite Hz. lia. }
  destruct (n =? N.of_nat (List.length sch)); [|discriminate]. intros H. apply dec_fields_sz in H. lia.
Qed.

Lemma bare_uint_sz bits Kc l c r : bare_uint bits Kc l = Some (c, r) -> (len r < len l)%nat /\ exists n, c = Kc n.
Proof.
  unfold bare_uint, dec_uint64_len. destruct (dec_uint_len l) as [[n r1]|] eqn:E; [|discriminate].
  cbn [option_map fst snd]. intros H. injection H as <- <-. apply dec_uint_len_sz in E. split; [exact E|eexists; reflexivity].
Qed.

Ltac struct_sz sch b :=
  let E := fresh "E" in let vs := fresh "vs" in let r1 := fresh "r1" in
  destruct (dec_struct sch b) as [[vs r1]|] eqn:E; [|discriminate];
  apply dec_struct_sz in E;
  repeat match goal with |- match ?v with _ => _ end = _ -> _ => is_var v; destruct v end;
  try discriminate;
  let H := fresh "H" in intros H; injection H as <- <-;
  rewrite ?sumf1_cons in E; cbn [fw1 cav_weight] in *; rewrite ?bytes_str_length;
  change (sumf1 []) with 0%nat in E; (split; [reflexivity|lia]).

(* a scalar-bodied caveat: one caveat, and never more than the bytes read plus the struct and its (at most two) integers *)
Lemma dec_body_rest_sz ty b c r : dec_body_rest ty b = Some (c, r) ->
  cav_count c = 1%nat /\ (len r < len b)%nat /\ (cav_weight c + len r <= len b + 2)%nat.
Proof.
  unfold dec_body_rest.
  assert (Hbare : forall bits Kc, (forall n, cav_count (Kc n) = 1%nat /\ cav_weight (Kc n) = 2%nat) ->
            bare_uint bits Kc b = Some (c, r) ->
            cav_count c = 1%nat /\ (len r < len b)%nat /\ (cav_weight c + len r <= len b + 2)%nat).
  { intros bits Kc HK H. apply bare_uint_sz in H. destruct H as (Hl & n & ->). destruct (HK n) as [-> ->]. lia. }
  destruct (ty =? 0). { struct_sz sch_org b. }
  destruct (ty =? 4). { struct_sz sch_vw b. }
  destruct (ty =? 8). { struct_sz sch_id b. }
  destruct (ty =? 9). { struct_sz sch_id b. }
  destruct (ty =? 10). { struct_sz sch_id b. }
  destruct (ty =? 12).
  { destruct (dec_bytes_len b) as [[o r1]|] eqn:E; [|discriminate]. apply dec_bytes_len_sz in E.
    cbn [option_map fst snd]. intros H. injection H as <- <-. cbn [cav_weight]. split; [reflexivity|lia]. }
  destruct (ty =? 15). { struct_sz sch_sid b. }
  destruct (ty =? 19).
  { destruct (dec_str_len b) as [[p r1]|] eqn:E; [|discriminate]. apply dec_str_len_sz in E.
    cbn [option_map fst snd]. intros H. injection H as <- <-. cbn [cav_weight]. rewrite bytes_str_length. split; [reflexivity|lia]. }
  destruct (ty =? 20). { apply Hbare. intros n. split; reflexivity. }
  destruct (ty =? 21). { apply Hbare. intros n. split; reflexivity. }
  destruct (ty =? 22). { struct_sz sch_none b. }
  destruct (ty =? 23). { apply Hbare. intros n. split; reflexivity. }
  destruct (ty =? 24). { apply Hbare. intros n. split; reflexivity. }
  destruct (ty =? 25).
  { destruct (dec_bytes_len b) as [[[p|] r1]|] eqn:E; [| |discriminate]; apply dec_bytes_len_sz in E;
      intros H; injection H as <- <-; cbn [cav_weight obytes_w] in *; (split; [reflexivity|lia]). }
  destruct (ty =? 26). { apply Hbare. intros n. split; reflexivity. }
  destruct (ty =? 30). { apply Hbare. intros n. split; reflexivity. }
  destruct (ty =? 31). { struct_sz sch_src b. }
  discriminate.
Qed.

(* auth.GoogleUserID is a *big.Int: its magnitude has at most 8 bits per payload byte read (cav_weight counts it as one
   integer; the words of the big.Int are at most one per 8 bytes of input) *)
Lemma dec_bytes_len_payload_in l p r : dec_bytes_len l = Some (Some p, r) -> exists h, l = h ++ p ++ r /\ h <> [].
Proof.
  unfold dec_bytes_len. destruct (dec_blen l) as [[[n|] r1]|] eqn:E; [| |discriminate]; [|discriminate].
  apply dec_blen_consumes in E. destruct E as (h & -> & Hne).
  destruct (take n r1) as [[q r2]|] eqn:E2; [|discriminate]. intros H. injection H as <- <-.
  apply take_Some in E2. destruct E2 as [-> _]. exists h. auto.
Qed.

Theorem google_uid_bits_l b n r : byte_list b -> dec_body_rest 25 b = Some (CGoogleUserID n, r) ->
  N.log2 n < 8 * N.of_nat (len b - len r).
Proof.
  intros Hb. unfold dec_body_rest. cbn [N.eqb Pos.eqb].
  destruct (dec_bytes_len b) as [[[p|] r1]|] eqn:E; [| |discriminate]; intros H; injection H as <- <-.
  - pose proof (dec_bytes_len_sz _ _ _ E) as Hsz. cbn [obytes_w] in Hsz.
    destruct (dec_bytes_len_payload_in _ _ _ E) as (h & Hh & _).
    assert (Hp : byte_list p). { rewrite Hh in Hb. apply byte_list_app in Hb. destruct Hb as [_ Hb]. apply byte_list_app in Hb. apply Hb. }
    pose proof (log2_be_val p Hp). lia.
  - pose proof (dec_bytes_len_sz _ _ _ E) as Hsz. cbn [obytes_w N.log2] in *. lia.
Qed.

(* ------------------------------------------------------------------------------------------ *)
(* the non-scalar registered types                                                             *)

(* what is proved of one caveat read from [b] with [r] left *)
Definition cav_sz (b : bytes) (c : cav) (r : bytes) : Prop :=
  (len r < len b)%nat /\ (2 * cav_weight c + 3 * len r <= 3 * len b + 3)%nat /\ (2 * cav_count c + len r <= len b + 1)%nat.

Section LeafSize.
  Variables (ext pz : bool) (ds : bytes -> option (list cav * bytes)).
  Hypothesis Hds : ds_sz ds.

  Lemma cmds_w_cons e cs : cmds_w (e :: cs) = (S (ostrs_w (fst e)) + cmds_w cs)%nat.
  Proof. reflexivity. Qed.

  Lemma dec_cmds_n_sz n : forall l cs r, dec_cmds_n ext pz ds n l = Some (cs, r) ->
    (len r <= len l)%nat /\ (2 * cmds_w cs + 3 * len r <= 3 * len l)%nat.
  Proof.
    induction n as [|n IH]; intros l cs r; cbn [dec_cmds_n].
    - intros H. injection H as <- <-. cbn. lia.
    - destruct (dec_struct2 ext pz ds sch_cmd l) as [[vs r1]|] eqn:E; [|discriminate].
      apply (dec_struct2_sz ext pz ds Hds) in E.
      destruct vs as [|[| | |a| | | |] [|[| | | |e| | |] [|? ?]]]; try discriminate.
      destruct (dec_cmds_n ext pz ds n r1) as [[cs' r2]|] eqn:E2; [|discriminate]. apply IH in E2.
      intros H. injection H as <- <-. rewrite cmds_w_cons. cbn [fst].
      rewrite !sumf_cons in E. cbn [fw fn] in E. change (sumf fw []) with 0%nat in E. lia.
  Qed.

  Lemma dec_commands_sz b c r : dec_commands ext pz ds b = Some (c, r) -> cav_sz b c r.
  Proof.
    unfold dec_commands, cav_sz. destruct b as [|x b0]; [discriminate|].
    destruct (x =? 192). { intros H. injection H as <- <-. cbn. lia. }
    destruct (dec_arr_hdr (x :: b0)) as [[n r1]|] eqn:Eh; [|discriminate].
    destruct (N.of_nat (len r1) <? n); [discriminate|].
    destruct (dec_cmds_n ext pz ds (N.to_nat n) r1) as [[cs r2]|] eqn:E; [|discriminate]. intros H. injection H as <- <-.
    apply (consumes_length _ _ _ _ dec_arr_hdr_consumes) in Eh. apply dec_cmds_n_sz in E.
    change (cav_count (CCommands (Some cs))) with 1%nat. cbn [cav_weight ocmds_w]. lia.
  Qed.

  Ltac struct2_sz sch b :=
    let E := fresh "E" in let vs := fresh "vs" in let r1 := fresh "r1" in
    destruct (dec_struct2 ext pz ds sch b) as [[vs r1]|] eqn:E; [|discriminate];
    apply (dec_struct2_sz ext pz ds Hds) in E;
    repeat match goal with |- match ?v with _ => _ end = _ -> _ => is_var v; destruct v end;
    try discriminate;
    let H := fresh "H" in intros H; injection H as <- <-;
    rewrite ?sumf_cons in E; cbn [fw fn] in E; change (sumf fw []) with 0%nat in E; change (sumf fn []) with 0%nat in E;
    rewrite ?cav_weight_ifs, ?cav_count_ifs;
    repeat match goal with |- context [cav_count ?c] =>
             lazymatch c with CIfPresent _ _ => fail | _ => change (cav_count c) with 1%nat end end;
    cbn [cav_weight]; lia.

  Lemma dec_leaf2_sz ty b c r : dec_leaf2 ext pz ds ty b = Some (c, r) -> cav_sz b c r.
  Proof.
    unfold dec_leaf2, dec_rs_cav, cav_sz.
    destruct (ty =? 2). { struct2_sz (sch_rs "Volumes") b. }
    destruct (ty =? 3). { struct2_sz sch_apps b. }
    destruct (ty =? 5). { struct2_sz (sch_rs "Features") b. }
    destruct (ty =? 6). { struct2_sz sch_mut b. }
    destruct (ty =? 7). { struct2_sz (sch_rs "Machines") b. }
    destruct (ty =? 11). { struct2_sz sch_3p b. }
    destruct (ty =? 13). { struct2_sz sch_ifp b. }
    destruct (ty =? 14). { struct2_sz (sch_rs "Features") b. }
    destruct (ty =? 16). { struct2_sz (sch_rs "Clusters") b. }
    destruct (ty =? 27). { apply dec_commands_sz. }
    destruct (ty =? 28). { struct2_sz (sch_rs "Features") b. }
    destruct (ty =? 29). { struct2_sz (sch_rs "Prefixes") b. }
    discriminate.
  Qed.
End LeafSize.

(* an unregistered type: the raw body is the span that was skipped *)
Lemma dec_unreg_sz ty b c r : dec_unreg ty b = Some (c, r) -> cav_sz b c r.
Proof.
  unfold dec_unreg, cav_sz. destruct (skip (S (len b)) b) as [rest|] eqn:Es; [|discriminate].
  destruct (gen_ok _); [|discriminate]. intros H. injection H as <- <-. apply skip_length in Es.
  change (cav_count (CUnregistered ty (firstn (len b - len rest) b))) with 1%nat.
  cbn [cav_weight]. rewrite firstn_length. lia.
Qed.

(* ------------------------------------------------------------------------------------------ *)
(* sets and the recursion                                                                      *)

Definition dc_sz (dc : N -> bytes -> option (cav * bytes)) : Prop := forall ty b c r, dc ty b = Some (c, r) -> cav_sz b c r.

Lemma dec_items_sz dc n : dc_sz dc -> forall l cs r, dec_items dc n l = Some (cs, r) ->
  (len r <= len l)%nat /\ (2 * set_weight cs + 3 * len r <= 3 * len l)%nat /\ (2 * set_count cs + len r <= len l)%nat.
Proof.
  intros Hdc. induction n as [|n IH]; intros l cs r; cbn [dec_items].
  - intros H. injection H as <- <-. cbn. lia.
  - destruct (dec_uint_len l) as [[ty r1]|] eqn:Et; [|discriminate]. destruct (dc ty r1) as [[c r2]|] eqn:Ec; [|discriminate].
    destruct (dec_items dc n r2) as [[cs' r3]|] eqn:Ei; [|discriminate]. intros H. injection H as <- <-.
    apply dec_uint_len_sz in Et. apply Hdc in Ec. destruct Ec as (H1 & H2 & H3). apply IH in Ei.
    rewrite set_weight_cons, set_count_cons. lia.
Qed.

Lemma dec_set_rest_sz dc : dc_sz dc -> ds_sz (dec_set_rest dc).
Proof.
  intros Hdc l cs r. unfold dec_set_rest. destruct (dec_arr_hdr l) as [[n r1]|] eqn:Eh; [|discriminate].
  destruct (N.odd n); [discriminate|]. destruct (N.of_nat (len r1) <? n); [discriminate|].
  intros H. apply (consumes_length _ _ _ _ dec_arr_hdr_consumes) in Eh. apply (dec_items_sz _ _ Hdc) in H. lia.
Qed.

Lemma dec_cav_sz ext pz fuel : dc_sz (dec_cav ext pz fuel).
Proof.
  induction fuel as [|f IH]; intros ty b c r; cbn [dec_cav]; [discriminate|].
  destruct (scalar_ty ty).
  { intros H. apply dec_body_rest_sz in H. destruct H as (Hn & Hl & Hw). unfold cav_sz. rewrite Hn. lia. }
  destruct (nonscalar_ty ty). { apply dec_leaf2_sz. apply dec_set_rest_sz, IH. }
  apply dec_unreg_sz.
Qed.

(* depth <= number of caveats *)
Lemma cav_depth_count c : (cav_depth c <= cav_count c)%nat.
Proof.
  induction c as [c Hleaf|els|l els IH] using cav_ind'.
  - destruct c; try (exfalso; exact (Hleaf _ _ eq_refl)); cbn; lia.
  - cbn. lia.
  - rewrite cav_count_ifs. cbn [cav_depth ifs_list]. apply le_n_S.
    induction IH as [|x l Hx _ IHl]; [cbn; lia|]. rewrite set_count_cons.
    change (list_max (map cav_depth (x :: l))) with (Nat.max (cav_depth x) (list_max (map cav_depth l))). lia.
Qed.
Lemma cav_depth_pos c : (1 <= cav_depth c)%nat.
Proof. destruct c as [| | | | | | | | | | | |[l|] els| | | | | | | | | | | | | | | | |]; cbn [cav_depth]; lia. Qed.

(* ------------------------------------------------------------------------------------------ *)
(* THE statements                                                                              *)

(* sharp form: 3 bytes pay for 2 units, plus the 3 units of a struct with two integers that a single nil byte stands for *)
Theorem dec_cav_weight_sharp_l ext pz fuel ty b c r : dec_cav ext pz fuel ty b = Some (c, r) ->
  (2 * cav_weight c <= 3 * (len b - len r) + 3)%nat.
Proof. intros H. apply dec_cav_sz in H. destruct H as (H1 & H2 & H3). lia. Qed.

(* K1 = 2, K0 = 1 *)
Theorem dec_cav_weight_l ext pz fuel ty b c r : dec_cav ext pz fuel ty b = Some (c, r) ->
  (cav_weight c <= 2 * (len b - len r) + 1)%nat.
Proof. intros H. apply dec_cav_sz in H. destruct H as (H1 & H2 & H3). lia. Qed.

(* a non-empty prefix is read (no side condition on the bytes) *)
Theorem dec_cav_consumed_l ext pz fuel ty b c r : dec_cav ext pz fuel ty b = Some (c, r) -> (len r < len b)%nat.
Proof. intros H. apply dec_cav_sz in H. apply H. Qed.

(* caveats in the value, nested ones included: two per byte read, but for the top one *)
Theorem dec_cav_count_l ext pz fuel ty b c r : dec_cav ext pz fuel ty b = Some (c, r) ->
  (2 * cav_count c <= (len b - len r) + 1)%nat.
Proof. intros H. apply dec_cav_sz in H. destruct H as (H1 & H2 & H3). lia. Qed.

(* nesting: the value is never nested deeper than the number of bytes read - nor, then, is the recursion of the decoder
   (one level of IfPresent per level of recursion), of GetCaveats, of Validate or of the clearing loop over the value *)
Theorem dec_cav_depth_l ext pz fuel ty b c r : dec_cav ext pz fuel ty b = Some (c, r) ->
  (cav_depth c <= len b - len r)%nat.
Proof.
  intros H. apply dec_cav_sz in H. destruct H as (H1 & H2 & H3). pose proof (cav_depth_count c). pose proof (cav_depth_pos c). lia.
Qed.
Theorem dec_cav_depth_half_l ext pz fuel ty b c r : dec_cav ext pz fuel ty b = Some (c, r) ->
  (2 * cav_depth c <= (len b - len r) + 1)%nat.
Proof. intros H. apply dec_cav_sz in H. destruct H as (H1 & H2 & H3). pose proof (cav_depth_count c). lia. Qed.

(* the fuel of dec_body2 / dec_set_typed: S (length b) is more than any accepted value needs *)
Theorem dec_body2_depth_l ext pz ty b c r : dec_body2_rest_gen ext pz ty b = Some (c, r) -> (cav_depth c <= len b)%nat.
Proof. unfold dec_body2_rest_gen. intros H. apply dec_cav_depth_l in H. lia. Qed.

(* whole sets *)
Lemma dec_set_typed_sz ext pz b cs : dec_set_typed_gen ext pz b = Some cs ->
  (2 * set_weight cs <= 3 * len b)%nat /\ (2 * set_count cs <= len b)%nat.
Proof.
  unfold dec_set_typed_gen. destruct b as [|x b0]; [discriminate|].
  destruct (x =? 192). { intros H. injection H as <-. cbn. lia. }
  destruct (dec_set_rest (dec_cav ext pz (S (len (x :: b0)))) (x :: b0)) as [[cs' r]|] eqn:E; [|discriminate].
  cbn [option_map fst]. intros H. injection H as <-.
  apply (dec_set_rest_sz _ (dec_cav_sz ext pz _)) in E. lia.
Qed.

Theorem dec_set_typed_weight_sharp_l ext pz b cs : dec_set_typed_gen ext pz b = Some cs -> (2 * set_weight cs <= 3 * len b)%nat.
Proof. intros H. apply (dec_set_typed_sz _ _ _ _ H). Qed.

(* K1 = 2, K0' = 0 *)
Theorem dec_set_typed_weight_l ext pz b cs : dec_set_typed_gen ext pz b = Some cs -> (set_weight cs <= 2 * len b)%nat.
Proof. intros H. apply dec_set_typed_sz in H. lia. Qed.

(* the count bound at the typed level, for the caveats of the set and for all the caveats in it *)
Theorem dec_set_typed_count_all_l ext pz b cs : dec_set_typed_gen ext pz b = Some cs ->
  (List.length (flat_all cs) <= len b / 2)%nat.
Proof.
  intros H. apply dec_set_typed_sz in H. destruct H as [_ H]. apply Nat.div_le_lower_bound; [discriminate|exact H].
Qed.
Theorem dec_set_typed_count_l ext pz b cs : dec_set_typed_gen ext pz b = Some cs -> (List.length cs <= len b / 2)%nat.
Proof.
  intros H. apply dec_set_typed_count_all_l in H. pose proof (set_count_length cs) as Hc. unfold set_count in Hc. lia.
Qed.
Theorem dec_set_typed_depth_l ext pz b cs : dec_set_typed_gen ext pz b = Some cs ->
  Forall (fun c => (cav_depth c <= len b / 2)%nat) cs.
Proof.
  intros H. apply dec_set_typed_count_all_l in H. apply Forall_forall. intros c Hin.
  pose proof (cav_depth_count c) as Hd. unfold cav_count in Hd.
  assert (Hle : (List.length (flat c) <= List.length (flat_all cs))%nat).
  { clear H Hd. induction cs as [|x cs IH]; [destruct Hin|]. unfold flat_all in *. cbn [flat_map]. rewrite app_length.
    destruct Hin as [->|Hin]; [lia|]. specialize (IH Hin). lia. }
  lia.
Qed.

(* ------------------------------------------------------------------------------------------ *)
(* the fuel is a budget of recursion depth: with fuel f no value nested deeper than f comes out.  (With dec_cav_depth_l and
   Proofs.TypedDec2Frames.dec_cav_fuel_enough_l: the depth a value needs is at most the bytes it takes, and fuel above the
   length of the input is never the reason for a refusal.)                                     *)

Section NestedAll.
  Variables (ext pz : bool) (ds : bytes -> option (list cav * bytes)) (P : cav -> Prop).
  Hypothesis Hds : forall l cs r, ds l = Some (cs, r) -> Forall P cs.

  Definition fP (v : fval2) : Prop := match v with WSet o => Forall P (ifs_list o) | _ => True end.
  Lemma fP_zero k : fP (fzero2 k). Proof. destruct k; cbn [fzero2 fP ifs_list]; auto. Qed.

  Lemma dec_field2_all k cur l v r : fP cur -> dec_field2 ext pz ds k cur l = Some (v, r) -> fP v.
  Proof.
    intros Hcur. destruct k as [| |bits| | | | |]; cbn [dec_field2].
    - destruct (dec_str_len l) as [[p r1]|]; [|discriminate]. cbn [option_map]. intros H. injection H as <- _. exact I.
    - destruct (dec_bytes_len l) as [[o r1]|]; [|discriminate]. cbn [option_map]. intros H. injection H as <- _. exact I.
    - destruct (dec_uint_len l) as [[n r1]|]; [|discriminate]. cbn [option_map]. intros H. injection H as <- _. exact I.
    - destruct (dec_strs_len l) as [[[ss|] r1]|]; [| |discriminate]; intros H; injection H as <- _; [exact I|exact Hcur].
    - destruct (dec_bool_len l) as [[b r1]|]; [|discriminate]. cbn [option_map]. intros H. injection H as <- _. exact I.
    - destruct (dec_rs dk_s set_s ext (cur_rs cur) l) as [[o r1]|]; [|discriminate]. cbn [option_map]. intros H. injection H as <- _. exact I.
    - destruct (dec_rs dk_n set_n ext (cur_rn cur) l) as [[o r1]|]; [|discriminate]. cbn [option_map]. intros H. injection H as <- _. exact I.
    - destruct l as [|c l0]; [discriminate|]. destruct (c =? 192).
      { intros H. injection H as <- _. destruct cur as [| | | | | | |[o|]]; cbn [fP ifs_list]; auto. destruct pz; cbn [ifs_list]; auto. }
      destruct (ds (c :: l0)) as [[cs r1]|] eqn:E; [|discriminate]. cbn [option_map fst snd]. intros H. injection H as <- _.
      cbn [fP ifs_list]. apply Forall_app. split; [|apply (Hds _ _ _ E)].
      destruct cur; cbn [cur_set]; auto.
  Qed.

  Lemma dec_fields2_all ks : forall l vs r, dec_fields2 ext pz ds ks l = Some (vs, r) -> Forall fP vs.
  Proof.
    induction ks as [|k ks IH]; intros l vs r; cbn [dec_fields2].
    - intros H. injection H as <- _. constructor.
    - destruct (dec_field2 ext pz ds k (fzero2 k) l) as [[v r1]|] eqn:E; [|discriminate].
      destruct (dec_fields2 ext pz ds ks r1) as [[vs' r2]|] eqn:E2; [|discriminate]. intros H. injection H as <- _.
      constructor; [apply (dec_field2_all _ _ _ _ _ (fP_zero k) E)|apply (IH _ _ _ E2)].
  Qed.

  Lemma nth_all d : fP d -> forall vs i, Forall fP vs -> fP (nth i vs d).
  Proof.
    intros Hd. induction vs as [|x vs IH]; intros i Hvs; [destruct i; exact Hd|].
    inversion Hvs as [|x0 vs0 Hx Hvs']; subst. destruct i as [|i]; cbn [nth]; [exact Hx|apply IH, Hvs'].
  Qed.
  Lemma set_nth2_all v : fP v -> forall vs i, Forall fP vs -> Forall fP (set_nth2 i v vs).
  Proof.
    intros Hv. induction vs as [|x vs IH]; intros i Hvs; [destruct i; constructor|].
    inversion Hvs as [|x0 vs0 Hx Hvs']; subst. destruct i as [|i]; cbn [set_nth2]; constructor; auto.
  Qed.

  Lemma dec_map_entries2_all sch n : forall vs l vs' r, Forall fP vs -> dec_map_entries2 ext pz ds sch n vs l = Some (vs', r) ->
    Forall fP vs'.
  Proof.
    induction n as [|n IH]; intros vs l vs' r Hvs; cbn [dec_map_entries2].
    - intros H. injection H as <- _. exact Hvs.
    - destruct (dec_str_len l) as [[name r1]|]; [|discriminate].
      destruct (find_field2 sch name 0) as [[i k]|].
      + destruct (dec_field2 ext pz ds k (nth i vs (fzero2 k)) r1) as [[v r2]|] eqn:E2; [|discriminate].
        apply IH, set_nth2_all; [|exact Hvs]. apply (dec_field2_all _ _ _ _ _ (nth_all _ (fP_zero k) _ _ Hvs) E2).
      + destruct (skip (S (len r1)) r1) as [r2|]; [|discriminate]. apply IH, Hvs.
  Qed.

  Lemma fzeros2_all sch : Forall fP (fzeros2 sch).
  Proof. unfold fzeros2. induction sch as [|e sch IH]; cbn [map]; constructor; [apply fP_zero|exact IH]. Qed.

  Lemma dec_struct2_all sch l vs r : dec_struct2 ext pz ds sch l = Some (vs, r) -> Forall fP vs.
  Proof.
    destruct l as [|c l0]; [discriminate|]. unfold dec_struct2.
    assert (Hmap : forall n (l1 : bytes), dec_map2 ext pz ds sch n l1 = Some (vs, r) -> Forall fP vs).
    { intros n l1 H. unfold dec_map2 in H. destruct (N.of_nat (len l1) <? 2 * n); [discriminate|].
      apply (dec_map_entries2_all _ _ _ _ _ _ (fzeros2_all sch) H). }
    destruct (c =? 192). { intros H. injection H as <- _. apply fzeros2_all. }
    destruct ((128 <=? c) && (c <=? 143)). { apply Hmap. }
    destruct (c =? 222). { destruct (take 2 l0) as [[lb r1]|]; [|discriminate]. apply Hmap. }
    destruct (c =? 223). { destruct (take 4 l0) as [[lb r1]|]; [|discriminate]. apply Hmap. }
    destruct (dec_arr_hdr (c :: l0)) as [[n r1]|]; [|discriminate].
    destruct (n =? 0). { intros H. injection H as <- _. apply fzeros2_all. }
    destruct (n =? N.of_nat (List.length sch)); [|discriminate]. apply dec_fields2_all.
  Qed.

  (* a non-scalar registered caveat either wraps nothing or is an IfPresent whose members all satisfy P *)
  Lemma dec_leaf2_all ty b c r : dec_leaf2 ext pz ds ty b = Some (c, r) ->
    cav_depth c = 1%nat \/ exists ifs els, c = CIfPresent ifs els /\ Forall P (ifs_list ifs).
  Proof.
    unfold dec_leaf2, dec_rs_cav, dec_commands.
    repeat match goal with |- (if ?t then _ else _) = _ -> _ => destruct t end; try discriminate;
    try (match goal with |- match dec_struct2 _ _ _ ?sch ?b with _ => _ end = _ -> _ =>
           let E := fresh "E" in let vs := fresh "vs" in let r1 := fresh "r1" in
           destruct (dec_struct2 ext pz ds sch b) as [[vs r1]|] eqn:E; [|discriminate];
           apply dec_struct2_all in E;
           repeat match goal with |- match ?v with _ => _ end = _ -> _ => is_var v; destruct v end;
           try discriminate;
           let H := fresh "H" in intros H; injection H as <- _ end);
    try (left; reflexivity).
    - right. eexists _, _. split; [reflexivity|]. inversion E as [|v0 vs0 Hv _]; subst. exact Hv.
    - destruct b as [|x b0]; [discriminate|]. destruct (x =? 192). { intros H. injection H as <- _. left. reflexivity. }
      destruct (dec_arr_hdr (x :: b0)) as [[n r1]|]; [|discriminate]. destruct (N.of_nat (len r1) <? n); [discriminate|].
      destruct (dec_cmds_n ext pz ds (N.to_nat n) r1) as [[cs r2]|]; [|discriminate]. intros H. injection H as <- _. left. reflexivity.
  Qed.
End NestedAll.

Lemma dec_items_all dc (P : cav -> Prop) n : (forall ty b c r, dc ty b = Some (c, r) -> P c) ->
  forall l cs r, dec_items dc n l = Some (cs, r) -> Forall P cs.
Proof.
  intros Hdc. induction n as [|n IH]; intros l cs r; cbn [dec_items].
  - intros H. injection H as <- _. constructor.
  - destruct (dec_uint_len l) as [[ty r1]|]; [|discriminate]. destruct (dc ty r1) as [[c r2]|] eqn:Ec; [|discriminate].
    destruct (dec_items dc n r2) as [[cs' r3]|] eqn:Ei; [|discriminate]. intros H. injection H as <- _.
    constructor; [apply (Hdc _ _ _ _ Ec)|apply (IH _ _ _ Ei)].
Qed.

Lemma list_max_Forall_le (f : cav -> nat) m l : Forall (fun c => (f c <= m)%nat) l -> (list_max (map f l) <= m)%nat.
Proof.
  induction 1 as [|x l Hx _ IH]; [cbn; lia|].
  change (list_max (map f (x :: l))) with (Nat.max (f x) (list_max (map f l))). lia.
Qed.

Theorem dec_cav_depth_fuel_l ext pz fuel : forall ty b c r, dec_cav ext pz fuel ty b = Some (c, r) -> (cav_depth c <= fuel)%nat.
Proof.
  induction fuel as [|f IH]; intros ty b c r; cbn [dec_cav]; [discriminate|].
  destruct (scalar_ty ty).
  { intros H. apply dec_body_rest_sz in H. destruct H as (Hn & _). pose proof (cav_depth_count c). pose proof (cav_depth_pos c). lia. }
  destruct (nonscalar_ty ty).
  { intros H. apply (dec_leaf2_all ext pz _ (fun c => (cav_depth c <= f)%nat)) in H.
    - destruct H as [->|(ifs & els & -> & Hall)]; [lia|]. destruct ifs as [l|]; cbn [cav_depth ifs_list] in *; [|lia].
      apply le_n_S, list_max_Forall_le, Hall.
    - intros l cs r0. unfold dec_set_rest. destruct (dec_arr_hdr l) as [[n r1]|]; [|discriminate].
      destruct (N.odd n); [discriminate|]. destruct (N.of_nat (len r1) <? n); [discriminate|].
      apply dec_items_all. exact IH. }
  unfold dec_unreg. destruct (skip (S (len b)) b) as [rest|]; [|discriminate]. destruct (gen_ok _); [|discriminate].
  intros H. injection H as <- _. cbn [cav_depth]. lia.
Qed.

(* ------------------------------------------------------------------------------------------ *)
(* the bounds are reached, and smaller constants are refuted                                   *)

Definition nil_orgs (n : nat) : bytes := flat_map (fun _ : unit => [0; 192]) (repeat tt n).      (* n times: type 0, body nil *)

(* one nil byte read as an Organization: 3 units for 1 byte - both forms of the bound hold with equality *)
Example dec_cav_weight_tight :
  dec_cav true false 2 0 [192] = Some (COrganization 0 0, []) /\
  cav_weight (COrganization 0 0) = 3%nat /\ (3 = 2 * (1 - 0) + 1)%nat /\ (2 * 3 = 3 * (1 - 0) + 3)%nat.
Proof. vm_compute. repeat split. Qed.

(* a set of 1000 nil Organizations: 2003 bytes, 3000 units - the factor 3/2 cannot be lowered, and the count reaches |b| / 2 *)
Example dec_set_typed_weight_tight :
  exists cs, dec_set_typed ([220; 7; 208] ++ nil_orgs 1000) = Some cs /\ len ([220; 7; 208] ++ nil_orgs 1000) = 2003%nat /\
    set_weight cs = 3000%nat /\ List.length cs = 1000%nat /\ (2003 / 2 = 1001)%nat.
Proof. eexists. vm_compute. repeat split. Qed.

(* K1 = 1 is refuted for every K0 <= 8 (and, with longer inputs, for any K0): an IfPresent of 12 nil Organizations,
   92 dc 00 18 (00 c0)x12 c0, is 29 bytes and weighs 38 > 29 + 8; with 1000 members: 2005 bytes, 3002 units *)
Example dec_cav_weight_K1_is_1_refuted :
  exists c, dec_cav true false 30 13 ([146; 220; 0; 24] ++ nil_orgs 12 ++ [192]) = Some (c, []) /\
    len ([146; 220; 0; 24] ++ nil_orgs 12 ++ [192]) = 29%nat /\ cav_weight c = 38%nat /\ (cav_weight c > 1 * (29 - 0) + 8)%nat.
Proof. eexists. vm_compute. repeat split; lia. Qed.
Example dec_cav_weight_K1_is_1_refuted_far :
  exists c, dec_cav true false 3 13 ([146; 220; 7; 208] ++ nil_orgs 1000 ++ [192]) = Some (c, []) /\
    len ([146; 220; 7; 208] ++ nil_orgs 1000 ++ [192]) = 2005%nat /\ cav_weight c = 3002%nat.
Proof. eexists. vm_compute. repeat split. Qed.

(* the leniencies, on concrete inputs: a map-encoded IfPresent whose key "Ifs" comes twice APPENDS (21 bytes, 8 units);
   a resource set with a duplicate key keeps one entry for it (11 bytes, 5 units); an ext header before the map header only
   consumes (7 bytes, 3 units); three levels of IfPresent take 9 bytes *)
Example dec_cav_repeated_ifs :
  dec_cav true false 22 13 [131; 163;73;102;115; 146; 0;192; 163;73;102;115; 146; 4;192; 164;69;108;115;101; 1]
    = Some (CIfPresent (Some [COrganization 0 0; CValidityWindow 0 0]) 1, []) /\
  cav_weight (CIfPresent (Some [COrganization 0 0; CValidityWindow 0 0]) 1) = 8%nat.
Proof. vm_compute. repeat split. Qed.
Example dec_cav_duplicate_key :
  dec_cav true false 12 2 [145; 131; 161;97;1; 161;97;2; 161;98;3] = Some (CVolumes [("a"%string, 2); ("b"%string, 3)], []) /\
  cav_weight (CVolumes [("a"%string, 2); ("b"%string, 3)]) = 5%nat.
Proof. vm_compute. repeat split. Qed.
Example dec_cav_ext_header :
  dec_cav true false 8 2 [145; 212; 0; 129; 161;97;1] = Some (CVolumes [("a"%string, 1)], []) /\
  cav_weight (CVolumes [("a"%string, 1)]) = 3%nat.
Proof. vm_compute. repeat split. Qed.
Example dec_cav_nested_3 :
  dec_cav true false 3 13 [146; 146; 13; 146; 146; 13; 192; 192; 192] =
    Some (CIfPresent (Some [CIfPresent (Some [CIfPresent None 0]) 0]) 0, []) /\
  cav_depth (CIfPresent (Some [CIfPresent (Some [CIfPresent None 0]) 0]) 0) = 3%nat /\
  dec_cav true false 2 13 [146; 146; 13; 146; 146; 13; 192; 192; 192] = None.
Proof. vm_compute. repeat split. Qed.

Print Assumptions dec_cav_weight_sharp_l.
Print Assumptions dec_cav_weight_l.
Print Assumptions dec_cav_consumed_l.
Print Assumptions dec_cav_count_l.
Print Assumptions dec_cav_depth_l.
Print Assumptions dec_cav_depth_half_l.
Print Assumptions dec_body2_depth_l.
Print Assumptions dec_cav_depth_fuel_l.
Print Assumptions google_uid_bits_l.
Print Assumptions dec_set_typed_weight_sharp_l.
Print Assumptions dec_set_typed_weight_l.
Print Assumptions dec_set_typed_count_all_l.
Print Assumptions dec_set_typed_count_l.
Print Assumptions dec_set_typed_depth_l.
Print Assumptions dec_set_typed_weight_tight.
Print Assumptions dec_cav_weight_K1_is_1_refuted.
