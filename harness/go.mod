module verifharness

go 1.20

require github.com/superfly/macaroon v0.0.0

replace github.com/superfly/macaroon => /repo
