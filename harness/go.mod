module verifharness

go 1.20

require (
	github.com/superfly/macaroon v0.0.0
	github.com/vmihailenco/msgpack/v5 v5.3.5
)

require (
	github.com/google/uuid v1.3.0 // indirect
	github.com/hashicorp/go-cleanhttp v0.5.2 // indirect
	github.com/hashicorp/golang-lru/v2 v2.0.7 // indirect
	github.com/sirupsen/logrus v1.9.3 // indirect
	github.com/vmihailenco/tagparser/v2 v2.0.0 // indirect
	golang.org/x/crypto v0.12.0 // indirect
	golang.org/x/exp v0.0.0-20230713183714-613f0c0eb8a1 // indirect
	golang.org/x/sys v0.11.0 // indirect
)

replace github.com/superfly/macaroon => /repo
