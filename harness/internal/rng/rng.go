// Package rng is the single PRNG (splitmix64) that drives every random choice.
package rng

type R struct{ s uint64 }

func New(seed uint64) *R { return &R{s: seed*0x9E3779B97F4A7C15 + 0x1234567} }

func (r *R) U64() uint64 {
	r.s += 0x9E3779B97F4A7C15
	z := r.s
	z = (z ^ (z >> 30)) * 0xBF58476D1CE4E5B9
	z = (z ^ (z >> 27)) * 0x94D049BB133111EB
	return z ^ (z >> 31)
}

// Intn returns a value in [0,n).
func (r *R) Intn(n int) int {
	if n <= 0 {
		return 0
	}
	return int(r.U64() % uint64(n))
}

func (r *R) Bool() bool { return r.U64()&1 == 1 }

// P returns true with probability num/den.
func (r *R) P(num, den int) bool { return r.Intn(den) < num }

func Pick[T any](r *R, xs []T) T { return xs[r.Intn(len(xs))] }

func (r *R) Bytes(n int) []byte {
	b := make([]byte, n)
	for i := range b {
		b[i] = byte(r.U64())
	}
	return b
}

// Fork derives an independent generator (for per-case reproducibility).
func (r *R) Fork() *R { return New(r.U64()) }
