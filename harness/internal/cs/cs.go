// Package cs collects correspondence cases and writes the Coq case files,
// their JSON side files and the run summary.
package cs

import (
	"crypto/sha256"
	"encoding/hex"
	"encoding/json"
	"fmt"
	"os"
	"path/filepath"
	"sort"
)

type Case struct {
	Coq        string `json:"-"`
	Desc       any    `json:"desc"`             // human/replay description: inputs and what the implementation did
	Class      string `json:"class"`            // coverage class (for the distribution histogram)
	Nontrivial bool   `json:"nontrivial"`       // by the stream's stated rule
	OracleFail string `json:"oracle,omitempty"` // implementation-side property oracle failed: what
	Known      string `json:"known,omitempty"`  // id of a known finding this case is an instance of
	Index      int    `json:"index"`
	Stream     string `json:"stream"`
	Shard      int    `json:"shard"`
}

type Stream struct {
	Name     string
	Import   string // Coq module providing the case type and the runner
	Run      string // runner function name
	PerShard int
	Cases    []*Case
}

type Set struct {
	Prop    string
	Tier    string
	Seed    uint64
	Streams []*Stream
	Notes   map[string]any
}

func NewSet(prop, tier string, seed uint64) *Set {
	return &Set{Prop: prop, Tier: tier, Seed: seed, Notes: map[string]any{}}
}

func (s *Set) Stream(name, imp, run string, perShard int) *Stream {
	st := &Stream{Name: name, Import: imp, Run: run, PerShard: perShard}
	s.Streams = append(s.Streams, st)
	return st
}

func (st *Stream) Add(c *Case) {
	c.Stream = st.Name
	c.Index = len(st.Cases)
	st.Cases = append(st.Cases, c)
}

type Summary struct {
	Prop        string         `json:"prop"`
	Tier        string         `json:"tier"`
	Seed        uint64         `json:"seed"`
	Evaluations int            `json:"evaluations"`
	Distinct    int            `json:"distinct"`
	DistinctNT  int            `json:"distinct_nontrivial"`
	Classes     map[string]int `json:"classes"`
	Shards      []ShardInfo    `json:"shards"`
	OracleFails []*Case        `json:"oracle_fails"`
	KnownHits   map[string]int `json:"known_hits"`
	Samples     []any          `json:"samples"`
	Notes       map[string]any `json:"notes"`
}

type ShardInfo struct {
	Stream string `json:"stream"`
	File   string `json:"file"`
	JSONL  string `json:"jsonl"`
	Count  int    `json:"count"`
}

// Write emits the case files under dir and summary.json.
func (s *Set) Write(dir string) error {
	if err := os.RemoveAll(dir); err != nil {
		return err
	}
	if err := os.MkdirAll(dir, 0o755); err != nil {
		return err
	}
	sum := &Summary{Prop: s.Prop, Tier: s.Tier, Seed: s.Seed, Classes: map[string]int{}, KnownHits: map[string]int{}, Notes: s.Notes}
	seen := map[string]bool{}
	for _, st := range s.Streams {
		per := st.PerShard
		if per <= 0 {
			per = 1000
		}
		for sh := 0; sh*per < len(st.Cases); sh++ {
			lo, hi := sh*per, (sh+1)*per
			if hi > len(st.Cases) {
				hi = len(st.Cases)
			}
			base := fmt.Sprintf("%s_%s_%d", s.Prop, sanitize(st.Name), sh)
			vf, err := os.Create(filepath.Join(dir, base+".v"))
			if err != nil {
				return err
			}
			jf, err := os.Create(filepath.Join(dir, base+".jsonl"))
			if err != nil {
				return err
			}
			fmt.Fprintf(vf, "From Mac Require Import %s.\nLocal Open Scope string_scope.\nDefinition cases := [\n", st.Import)
			enc := json.NewEncoder(jf)
			for i, c := range st.Cases[lo:hi] {
				c.Shard = sh
				sep := ";"
				if i == hi-lo-1 {
					sep = ""
				}
				fmt.Fprintf(vf, "  %s%s\n", c.Coq, sep)
				c.Index = i
				if err := enc.Encode(c); err != nil {
					return err
				}
			}
			fmt.Fprintf(vf, "].\nDefinition M := Eval vm_compute in %s cases.\nPrint M.\n", st.Run)
			vf.Close()
			jf.Close()
			sum.Shards = append(sum.Shards, ShardInfo{st.Name, base + ".v", base + ".jsonl", hi - lo})
		}
		for _, c := range st.Cases {
			sum.Evaluations++
			sum.Classes[st.Name+"/"+c.Class]++
			h := sha256.Sum256([]byte(st.Name + "\x00" + c.Coq))
			k := hex.EncodeToString(h[:8])
			if !seen[k] {
				seen[k] = true
				sum.Distinct++
				if c.Nontrivial {
					sum.DistinctNT++
				}
			}
			if c.OracleFail != "" && c.Known == "" {
				sum.OracleFails = append(sum.OracleFails, c)
			}
			if c.Known != "" {
				sum.KnownHits[c.Known]++
			}
		}
		// a few samples per stream: first, middle, last
		n := len(st.Cases)
		for _, i := range uniq([]int{0, n / 3, 2 * n / 3, n - 1}) {
			if i >= 0 && i < n {
				sum.Samples = append(sum.Samples, map[string]any{"stream": st.Name, "case": st.Cases[i].Desc, "class": st.Cases[i].Class})
			}
		}
	}
	b, err := json.MarshalIndent(sum, "", " ")
	if err != nil {
		return err
	}
	return os.WriteFile(filepath.Join(dir, "summary.json"), b, 0o644)
}

func uniq(xs []int) []int {
	sort.Ints(xs)
	var o []int
	for i, x := range xs {
		if i == 0 || x != xs[i-1] {
			o = append(o, x)
		}
	}
	return o
}

func sanitize(s string) string {
	b := []byte(s)
	for i, c := range b {
		if !(c >= 'a' && c <= 'z' || c >= 'A' && c <= 'Z' || c >= '0' && c <= '9') {
			b[i] = '_'
		}
	}
	return string(b)
}
