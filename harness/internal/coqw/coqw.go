// Package coqw prints Coq terms for the case files.
package coqw

import (
	"fmt"
	"math/big"
	"strings"
)

func N(x uint64) string { return fmt.Sprintf("%d%%N", x) }
func Nat(x int) string  { return fmt.Sprintf("%d%%nat", x) }
func Z(x int64) string {
	if x < 0 {
		return fmt.Sprintf("(%d)%%Z", x)
	}
	return fmt.Sprintf("%d%%Z", x)
}
func BigZ(x *big.Int) string {
	if x.Sign() < 0 {
		return fmt.Sprintf("(%s)%%Z", x.String())
	}
	return fmt.Sprintf("%s%%Z", x.String())
}
func BigN(x *big.Int) string { return fmt.Sprintf("%s%%N", x.String()) }
func Bool(b bool) string {
	if b {
		return "true"
	}
	return "false"
}

// Str prints a Coq string literal; only printable ASCII without '"' is
// emitted literally, anything else goes through an explicit byte list.
func Str(s string) string {
	ok := true
	for i := 0; i < len(s); i++ {
		c := s[i]
		if c < 32 || c > 126 || c == '"' {
			ok = false
			break
		}
	}
	if ok {
		return `"` + s + `"%string`
	}
	parts := make([]string, len(s))
	for i := 0; i < len(s); i++ {
		parts[i] = fmt.Sprintf("%d", s[i])
	}
	return "(str_of_codes [" + strings.Join(parts, ";") + "]%N)"
}

func List(xs []string) string { return "[" + strings.Join(xs, "; ") + "]" }

func ListOf[T any](xs []T, f func(T) string) string {
	ps := make([]string, len(xs))
	for i, x := range xs {
		ps[i] = f(x)
	}
	return List(ps)
}

func Opt(present bool, s string) string {
	if !present {
		return "None"
	}
	return "(Some " + s + ")"
}

func OptStr(p *string) string {
	if p == nil {
		return "None"
	}
	return "(Some " + Str(*p) + ")"
}

func OptN(p *uint64) string {
	if p == nil {
		return "None"
	}
	return "(Some " + N(*p) + ")"
}

func Pair(a, b string) string { return "(" + a + ", " + b + ")" }

func App(f string, args ...string) string {
	if len(args) == 0 {
		return f
	}
	return "(" + f + " " + strings.Join(args, " ") + ")"
}

// Bytes prints a byte string as a plain list of N (short strings only).
func Bytes(b []byte) string {
	parts := make([]string, len(b))
	for i, c := range b {
		parts[i] = fmt.Sprintf("%d", c)
	}
	return "[" + strings.Join(parts, ";") + "]%N"
}

// Packed prints a byte string as (len, [7 bytes per Uint63 literal]) for the
// transport-only unpack function (see DESIGN section 3.3).
func Packed(b []byte) string {
	var parts []string
	for i := 0; i < len(b); i += 7 {
		var v uint64
		for j := 0; j < 7; j++ {
			v <<= 8
			if i+j < len(b) {
				v |= uint64(b[i+j])
			}
		}
		parts = append(parts, fmt.Sprintf("%d", v))
	}
	return fmt.Sprintf("(unpack %d%%nat [%s]%%uint63)", len(b), strings.Join(parts, ";"))
}
