package m

import (
	"errors"
	"fmt"
	"math/big"
	"time"

	"github.com/superfly/macaroon"
	"github.com/superfly/macaroon/auth"
	"github.com/superfly/macaroon/flyio"
	"github.com/superfly/macaroon/resset"

	"verifharness/internal/coqw"
)

// T is a clock value given as time.Unix(Sec, Nsec), 0 <= Nsec < 1e9.
type T struct {
	Sec  int64
	Nsec int64
}

func (t T) Go() time.Time { return time.Unix(t.Sec, t.Nsec) }
func (t T) Coq() string   { return coqw.App("unixT", coqw.Z(t.Sec), coqw.Z(t.Nsec)) }

type FlyioAuth struct {
	User uint64
	Orgs []uint64
}

// Acc is one access request of the model.
type Acc struct {
	Kind string // AFlyio | ADischarge | ABare | AActionOnly
	// AFlyio
	Action                                                 uint16
	Org, App                                               *uint64
	AppFeature, Feature, Volume, Machine, MachineFeature   *string
	Mutation, SrcMachine, SrcApp, SrcOrg, Cluster, Storage *string
	Command                                                *[]string
	Now                                                    T
	// ADischarge
	Flyio   []FlyioAuth
	Google  []string
	GitHub  [][]uint64
	DeltaNs *big.Int // true Expiry-Now in ns (model input)
	Expiry  time.Time
	// ABare
	Valid bool
}

func (a Acc) Coq() string {
	switch a.Kind {
	case "AFlyio":
		cmd := "None"
		if a.Command != nil {
			cmd = "(Some " + coqw.ListOf(*a.Command, coqw.Str) + ")"
		}
		return "(AFlyio " + coqw.App("mkFA", coqw.N(uint64(a.Action)), coqw.OptN(a.Org), coqw.OptN(a.App),
			coqw.OptStr(a.AppFeature), coqw.OptStr(a.Feature), coqw.OptStr(a.Volume), coqw.OptStr(a.Machine),
			coqw.OptStr(a.MachineFeature), coqw.OptStr(a.Mutation), coqw.OptStr(a.SrcMachine), coqw.OptStr(a.SrcApp),
			coqw.OptStr(a.SrcOrg), coqw.OptStr(a.Cluster), cmd, coqw.OptStr(a.Storage), a.Now.Coq()) + ")"
	case "ADischarge":
		fl := coqw.ListOf(a.Flyio, func(f FlyioAuth) string {
			return coqw.Pair(coqw.N(f.User), coqw.ListOf(f.Orgs, coqw.N))
		})
		gh := coqw.ListOf(a.GitHub, func(o []uint64) string { return coqw.ListOf(o, coqw.N) })
		return "(ADischarge " + coqw.App("mkDR", fl, coqw.ListOf(a.Google, coqw.Str), gh, a.Now.Coq(), coqw.BigZ(a.DeltaNs)) + ")"
	case "ABare":
		return coqw.App("ABare", coqw.Bool(a.Valid), a.Now.Coq())
	case "AActionOnly":
		return coqw.App("AActionOnly", coqw.N(uint64(a.Action)), a.Now.Coq())
	}
	panic("Acc.Coq: unknown kind " + a.Kind)
}

func AccsCoq(as []Acc) string { return coqw.ListOf(as, Acc.Coq) }

// clockAccess is a flyio.Access whose clock is an input.
type clockAccess struct {
	*flyio.Access
	now time.Time
}

func (c *clockAccess) Now() time.Time { return c.now }

type bareAccess struct {
	valid bool
	now   time.Time
}

func (b *bareAccess) Now() time.Time { return b.now }
func (b *bareAccess) Validate() error {
	if b.valid {
		return nil
	}
	return fmt.Errorf("%w: harness bare access", macaroon.ErrInvalidAccess)
}

type actionOnlyAccess struct {
	act resset.Action
	now time.Time
}

func (b *actionOnlyAccess) Now() time.Time           { return b.now }
func (b *actionOnlyAccess) Validate() error          { return nil }
func (b *actionOnlyAccess) GetAction() resset.Action { return b.act }

func (a Acc) Go() macaroon.Access {
	switch a.Kind {
	case "AFlyio":
		f := &flyio.Access{
			Action: resset.Action(a.Action), OrgID: a.Org, AppID: a.App, AppFeature: a.AppFeature,
			Feature: a.Feature, Volume: a.Volume, Machine: a.Machine, MachineFeature: a.MachineFeature,
			Mutation: a.Mutation, SourceMachine: a.SrcMachine, SourceApp: a.SrcApp,
			SourceOrganization: a.SrcOrg, Cluster: a.Cluster,
		}
		if a.Command != nil {
			f.Command = append([]string{}, *a.Command...)
		}
		if a.Storage != nil {
			p := resset.Prefix(*a.Storage)
			f.StorageObject = &p
		}
		return &clockAccess{f, a.Now.Go()}
	case "ADischarge":
		d := &auth.DischargeRequest{Expiry: a.Expiry}
		for _, f := range a.Flyio {
			d.Flyio = append(d.Flyio, &auth.FlyioAuth{UserID: f.User, OrganizationIDs: f.Orgs})
		}
		for _, g := range a.Google {
			d.Google = append(d.Google, &auth.GoogleAuth{HD: g, Email: "u@a.com"}) // the e-mail address is no hosted-domain claim
		}
		for _, g := range a.GitHub {
			d.GitHub = append(d.GitHub, &auth.GitHubAuth{OrgIDs: g, UserID: 1, Login: "1"})
		}
		return d
	case "ABare":
		return &bareAccess{a.Valid, a.Now.Go()}
	case "AActionOnly":
		return &actionOnlyAccess{resset.Action(a.Action), a.Now.Go()}
	}
	panic("Acc.Go: unknown kind " + a.Kind)
}

func AccsGo(as []Acc) []macaroon.Access {
	r := make([]macaroon.Access, 0, len(as))
	for _, a := range as {
		r = append(r, a.Go())
	}
	return r
}

// ErrCode projects an error to the observable the model predicts:
// 0 for nil, else 1 + 2*bitset of the sentinel classes errors.Is reports.
func ErrCode(e error) uint64 {
	if e == nil {
		return 0
	}
	var b uint64
	if errors.Is(e, macaroon.ErrUnauthorized) {
		b |= 1
	}
	if errors.Is(e, macaroon.ErrInvalidAccess) {
		b |= 2
	}
	if errors.Is(e, macaroon.ErrBadCaveat) {
		b |= 4
	}
	if errors.Is(e, resset.ErrResourceUnspecified) {
		b |= 8
	}
	if errors.Is(e, resset.ErrResourcesMutuallyExclusive) {
		b |= 16
	}
	if errors.Is(e, resset.ErrUnauthorizedForResource) {
		b |= 32
	}
	if errors.Is(e, resset.ErrUnauthorizedForAction) {
		b |= 64
	}
	if errors.Is(e, flyio.ErrUnauthorizedForRole) {
		b |= 128
	}
	return 1 + 2*b
}
