// Package m mirrors the Coq model's value types (caveats, accesses) on the Go
// side: every value can be printed as a Coq term and turned into the real
// library value.
package m

import (
	"math/big"
	"sort"

	"github.com/superfly/macaroon"
	"github.com/superfly/macaroon/auth"
	"github.com/superfly/macaroon/flyio"
	"github.com/superfly/macaroon/resset"

	"verifharness/internal/coqw"
)

type EntN struct {
	K uint64
	M uint16
}
type EntS struct {
	K string
	M uint16
}
type Cmd struct {
	Args  *[]string // nil = nil slice
	Exact bool
}

// Cav is one caveat of the model. Kind is the Coq constructor name.
type Cav struct {
	Kind string
	ID   uint64 // id / mask-like single number
	Mask uint64
	NB   int64
	NA   int64
	S    [3]string
	RSN  []EntN
	RSS  []EntS
	Strs *[]string
	Cmds *[]Cmd
	Ifs  *[]Cav
	B1   *[]byte
	B2   *[]byte
	Body []byte
}

func sortN(e []EntN) []EntN {
	o := append([]EntN(nil), e...)
	sort.Slice(o, func(i, j int) bool { return o[i].K < o[j].K })
	return o
}
func sortS(e []EntS) []EntS {
	o := append([]EntS(nil), e...)
	sort.Slice(o, func(i, j int) bool { return o[i].K < o[j].K })
	return o
}

func rsnCoq(e []EntN) string {
	return coqw.ListOf(sortN(e), func(x EntN) string { return coqw.Pair(coqw.N(x.K), coqw.N(uint64(x.M))) })
}
func rssCoq(e []EntS) string {
	return coqw.ListOf(sortS(e), func(x EntS) string { return coqw.Pair(coqw.Str(x.K), coqw.N(uint64(x.M))) })
}
func optBytes(b *[]byte) string {
	if b == nil {
		return "None"
	}
	return "(Some " + coqw.Bytes(*b) + ")"
}
func optStrs(p *[]string) string {
	if p == nil {
		return "None"
	}
	return "(Some " + coqw.ListOf(*p, coqw.Str) + ")"
}

func (c Cav) Coq() string {
	switch c.Kind {
	case "COrganization":
		return coqw.App(c.Kind, coqw.N(c.ID), coqw.N(c.Mask))
	case "CApps":
		return coqw.App(c.Kind, rsnCoq(c.RSN))
	case "CVolumes", "CMachines", "CMachineFeatureSet", "CFeatureSet", "CClusters", "CAppFeatureSet", "CStorageObjects":
		return coqw.App(c.Kind, rssCoq(c.RSS))
	case "CValidityWindow":
		return coqw.App(c.Kind, coqw.Z(c.NB), coqw.Z(c.NA))
	case "CMutations":
		return coqw.App(c.Kind, optStrs(c.Strs))
	case "CConfineUser", "CConfineOrganization", "CIsUser", "CConfineGitHubOrg", "CMaxValidity",
		"CFlyioUserID", "CGitHubUserID", "CGoogleUserID":
		return coqw.App(c.Kind, coqw.N(c.ID))
	case "CAction", "CAllowedRoles":
		return coqw.App(c.Kind, coqw.N(c.Mask))
	case "C3P":
		return coqw.App(c.Kind, coqw.Str(c.S[0]), optBytes(c.B1), optBytes(c.B2))
	case "CBind":
		return coqw.App(c.Kind, optBytes(c.B1))
	case "CIfPresent":
		ifs := "None"
		if c.Ifs != nil {
			ifs = "(Some " + coqw.ListOf(*c.Ifs, Cav.Coq) + ")"
		}
		return coqw.App(c.Kind, ifs, coqw.N(c.Mask))
	case "CFromMachine", "CConfineGoogleHD":
		return coqw.App(c.Kind, coqw.Str(c.S[0]))
	case "CIsMember":
		return c.Kind
	case "CCommands":
		if c.Cmds == nil {
			return coqw.App(c.Kind, "None")
		}
		return coqw.App(c.Kind, "(Some "+coqw.ListOf(*c.Cmds, func(x Cmd) string {
			return coqw.Pair(optStrs(x.Args), coqw.Bool(x.Exact))
		})+")")
	case "CFlySrc":
		return coqw.App(c.Kind, coqw.Str(c.S[0]), coqw.Str(c.S[1]), coqw.Str(c.S[2]))
	case "CUnregistered":
		return coqw.App(c.Kind, coqw.N(c.ID), coqw.Bytes(c.Body))
	}
	panic("Cav.Coq: unknown kind " + c.Kind)
}

func CavsCoq(cs []Cav) string { return coqw.ListOf(cs, Cav.Coq) }

func rsnGo(e []EntN) resset.ResourceSet[uint64, resset.Action] {
	r := resset.ResourceSet[uint64, resset.Action]{}
	for _, x := range e {
		r[x.K] = resset.Action(x.M)
	}
	return r
}
func rssGo(e []EntS) resset.ResourceSet[string, resset.Action] {
	r := resset.ResourceSet[string, resset.Action]{}
	for _, x := range e {
		r[x.K] = resset.Action(x.M)
	}
	return r
}
func rspGo(e []EntS) resset.ResourceSet[resset.Prefix, resset.Action] {
	r := resset.ResourceSet[resset.Prefix, resset.Action]{}
	for _, x := range e {
		r[resset.Prefix(x.K)] = resset.Action(x.M)
	}
	return r
}

// UnregisteredMaker builds an unregistered caveat from wire type and body; it
// is set by the caller (it needs the msgpack decoder path).
var UnregisteredMaker func(ty uint64, body []byte) macaroon.Caveat

// Go builds the real caveat value.
func (c Cav) Go() macaroon.Caveat {
	switch c.Kind {
	case "COrganization":
		return &flyio.Organization{ID: c.ID, Mask: resset.Action(c.Mask)}
	case "CApps":
		return &flyio.Apps{Apps: rsnGo(c.RSN)}
	case "CVolumes":
		return &flyio.Volumes{Volumes: rssGo(c.RSS)}
	case "CMachines":
		return &flyio.Machines{Machines: rssGo(c.RSS)}
	case "CMachineFeatureSet":
		return &flyio.MachineFeatureSet{Features: rssGo(c.RSS)}
	case "CFeatureSet":
		return &flyio.FeatureSet{Features: rssGo(c.RSS)}
	case "CClusters":
		return &flyio.Clusters{Clusters: rssGo(c.RSS)}
	case "CAppFeatureSet":
		return &flyio.AppFeatureSet{Features: rssGo(c.RSS)}
	case "CStorageObjects":
		return &flyio.StorageObjects{Prefixes: rspGo(c.RSS)}
	case "CValidityWindow":
		return &macaroon.ValidityWindow{NotBefore: c.NB, NotAfter: c.NA}
	case "CMutations":
		if c.Strs == nil {
			return &flyio.Mutations{}
		}
		return &flyio.Mutations{Mutations: append([]string{}, *c.Strs...)}
	case "CConfineUser":
		if c.ID%2 == 0 {
			return auth.RequireUser(c.ID) // the constructors applications use
		}
		return &auth.ConfineUser{ID: c.ID}
	case "CConfineOrganization":
		if c.ID%2 == 0 {
			return auth.RequireOrganization(c.ID)
		}
		return &auth.ConfineOrganization{ID: c.ID}
	case "CIsUser":
		return &flyio.IsUser{ID: c.ID}
	case "CConfineGitHubOrg":
		if c.ID%2 == 0 {
			return auth.RequireGitHubOrg(c.ID)
		}
		v := auth.ConfineGitHubOrg(c.ID)
		return &v
	case "CMaxValidity":
		v := auth.MaxValidity(c.ID)
		return &v
	case "CFlyioUserID":
		v := auth.FlyioUserID(c.ID)
		return &v
	case "CGitHubUserID":
		v := auth.GitHubUserID(c.ID)
		return &v
	case "CGoogleUserID":
		v := new(big.Int).SetUint64(c.ID)
		return (*auth.GoogleUserID)(v)
	case "CAction":
		v := resset.Action(c.Mask)
		return &v
	case "CAllowedRoles":
		v := flyio.AllowedRoles(c.Mask)
		return &v
	case "C3P":
		r := &macaroon.Caveat3P{Location: c.S[0]}
		if c.B1 != nil {
			r.VerifierKey = append([]byte{}, *c.B1...)
		}
		if c.B2 != nil {
			r.Ticket = append([]byte{}, *c.B2...)
		}
		return r
	case "CBind":
		var v macaroon.BindToParentToken
		if c.B1 != nil {
			v = append(macaroon.BindToParentToken{}, *c.B1...)
		}
		return &v
	case "CIfPresent":
		r := &resset.IfPresent{Else: resset.Action(c.Mask)}
		if c.Ifs != nil {
			r.Ifs = macaroon.NewCaveatSet(CavsGo(*c.Ifs)...)
		}
		return r
	case "CFromMachine":
		return &flyio.FromMachine{ID: c.S[0]}
	case "CConfineGoogleHD":
		if len(c.S[0])%2 == 0 {
			return auth.RequireGoogleHD(c.S[0])
		}
		v := auth.ConfineGoogleHD(c.S[0])
		return &v
	case "CIsMember":
		return &flyio.IsMember{}
	case "CCommands":
		if c.Cmds == nil {
			var v flyio.Commands
			return &v
		}
		v := flyio.Commands{}
		for _, x := range *c.Cmds {
			cmd := flyio.Command{Exact: x.Exact}
			if x.Args != nil {
				cmd.Args = append([]string{}, *x.Args...)
			}
			v = append(v, cmd)
		}
		return &v
	case "CFlySrc":
		return &flyio.FlySrc{Organization: c.S[0], App: c.S[1], Instance: c.S[2]}
	case "CUnregistered":
		return UnregisteredMaker(c.ID, c.Body)
	}
	panic("Cav.Go: unknown kind " + c.Kind)
}

func CavsGo(cs []Cav) []macaroon.Caveat {
	r := make([]macaroon.Caveat, 0, len(cs))
	for _, c := range cs {
		r = append(r, c.Go())
	}
	return r
}
