//go:build verif

// Package sym interprets scenarios (the op language of coq/Model/Ops.v) on the
// real library with real cryptography.
package sym

import (
	"bytes"
	"crypto/sha256"
	"encoding/binary"
	"encoding/hex"
	"fmt"
	"math/big"

	"github.com/superfly/macaroon"
	"github.com/superfly/macaroon/auth"
	"github.com/superfly/macaroon/flyio"
	"github.com/superfly/macaroon/resset"

	"verifharness/internal/coqw"
)

// D is a data caveat of the model: table index + flags.
type D struct {
	ID   uint64
	Att  bool
	Wrap bool
}

func (d D) Coq() string { return coqw.App("mkD", coqw.N(d.ID), coqw.Bool(d.Att), coqw.Bool(d.Wrap)) }

func ptr[T any](v T) *T { return &v }

// Table of concrete data caveats. Fresh objects on every call.
var Table = []func() macaroon.Caveat{
	0: func() macaroon.Caveat { return &flyio.Organization{ID: 1, Mask: resset.ActionAll} },
	1: func() macaroon.Caveat { return ptr(resset.ActionRead) },
	2: func() macaroon.Caveat { return &macaroon.ValidityWindow{NotBefore: 0, NotAfter: 1 << 40} },
	3: func() macaroon.Caveat { return ptr(auth.FlyioUserID(7)) },
	4: func() macaroon.Caveat { return ptr(auth.GitHubUserID(9)) },
	5: func() macaroon.Caveat {
		return &resset.IfPresent{Ifs: macaroon.NewCaveatSet(ptr(auth.FlyioUserID(7))), Else: resset.ActionAll}
	},
	6: func() macaroon.Caveat {
		return &resset.IfPresent{Ifs: macaroon.NewCaveatSet(ptr(resset.ActionRead)), Else: resset.ActionRead}
	},
	7: func() macaroon.Caveat {
		return &flyio.Apps{Apps: resset.ResourceSet[uint64, resset.Action]{5: resset.ActionRead, 9: resset.ActionAll}}
	},
	8: func() macaroon.Caveat { return &auth.ConfineUser{ID: 77} },
	9: func() macaroon.Caveat { return (*auth.GoogleUserID)(big.NewInt(123456789)) },
	10: func() macaroon.Caveat {
		return &resset.IfPresent{Ifs: macaroon.NewCaveatSet(&resset.IfPresent{Ifs: macaroon.NewCaveatSet(ptr(auth.GitHubUserID(9))), Else: 0}), Else: 0}
	},
	11: func() macaroon.Caveat { return &flyio.Organization{ID: 1, Mask: resset.ActionRead} }, // near-duplicate of 0
	12: func() macaroon.Caveat { return &flyio.Organization{ID: 2, Mask: resset.ActionAll} },  // near-duplicate of 0
	13: func() macaroon.Caveat { return &flyio.Mutations{Mutations: []string{"m"}} },
	14: func() macaroon.Caveat { return &flyio.IsUser{ID: 5} },
	15: func() macaroon.Caveat { return ptr(auth.MaxValidity(3600)) },
	// different types whose BODIES encode identically (dedup must key on type + body)
	18: func() macaroon.Caveat { return ptr(flyio.AllowedRoles(1)) },        // body 01, like 1 (Action r)
	19: func() macaroon.Caveat { return &auth.ConfineOrganization{ID: 77} }, // body 91 4d, like 8 (ConfineUser 77)
	// wrappers in which a clean nested wrapper comes BEFORE the attestation
	16: func() macaroon.Caveat {
		return &resset.IfPresent{Ifs: macaroon.NewCaveatSet(&resset.IfPresent{Ifs: macaroon.NewCaveatSet(ptr(resset.ActionRead)), Else: 0}, ptr(auth.FlyioUserID(7))), Else: resset.ActionAll}
	},
	17: func() macaroon.Caveat {
		return &resset.IfPresent{Ifs: macaroon.NewCaveatSet(ptr(resset.ActionRead), &resset.IfPresent{Ifs: macaroon.NewCaveatSet(&flyio.Organization{ID: 1, Mask: resset.ActionAll}), Else: 0},
			&resset.IfPresent{Ifs: macaroon.NewCaveatSet((*auth.GoogleUserID)(big.NewInt(5))), Else: 0}), Else: resset.ActionAll}
	},
}

var Flags = map[uint64][2]bool{3: {true, false}, 4: {true, false}, 9: {true, false}, 5: {false, true}, 10: {false, true}, 16: {false, true}, 17: {false, true}, 20: {false, true}}

func init() {
	// an attestation under 40 nested conditional caveats: "at any nesting depth"
	Table = append(Table, func() macaroon.Caveat {
		var c macaroon.Caveat = ptr(auth.FlyioUserID(7))
		for i := 0; i < 40; i++ {
			c = &resset.IfPresent{Ifs: macaroon.NewCaveatSet(c), Else: resset.ActionAll}
		}
		return c
	})
	if len(Table) != 21 {
		panic("sym.Table: id 20 expected")
	}
}

func DOf(id uint64) D { f := Flags[id]; return D{id, f[0], f[1]} }

var encToID = map[string]uint64{}

func encCav(c macaroon.Caveat) []byte {
	b, err := macaroon.NewCaveatSet(c).MarshalMsgpack()
	if err != nil {
		panic(err)
	}
	return b
}

func init() {
	for i, f := range Table {
		encToID[hex.EncodeToString(encCav(f()))] = uint64(i)
	}
}

func idOf(c macaroon.Caveat) int64 {
	b, err := macaroon.NewCaveatSet(c).MarshalMsgpack()
	if err != nil {
		return 998
	}
	if id, ok := encToID[hex.EncodeToString(b)]; ok {
		return int64(id)
	}
	return 999
}

type TailX struct {
	Kind string // XTail XMacCav XMacNonce XFin XDigest XPre16 XLit XKey
	X    *TailX
	S, I uint64
	B    []byte
}

func (x TailX) Coq() string {
	switch x.Kind {
	case "XTail":
		return coqw.App("XTail", coqw.N(x.S))
	case "XMacCav":
		return coqw.App("XMacCav", x.X.Coq(), coqw.N(x.S), coqw.N(x.I))
	case "XMacNonce":
		return coqw.App("XMacNonce", x.X.Coq(), coqw.N(x.S))
	case "XFin", "XDigest", "XPre16":
		return coqw.App(x.Kind, x.X.Coq())
	case "XLit":
		return coqw.App("XLit", coqw.Bytes(x.B))
	case "XKey":
		return coqw.App("XKey", coqw.N(x.S))
	}
	panic("tailx")
}

type ACav struct {
	Is3P   bool
	D      D
	EncKey uint64
	Loc    uint64
	TCavs  []D
}

func (a ACav) Coq() string {
	if a.Is3P {
		return coqw.App("C3", coqw.N(a.EncKey), coqw.N(a.Loc), coqw.ListOf(a.TCavs, D.Coq))
	}
	return coqw.App("CD", a.D.Coq())
}

type Trust struct {
	Loc  uint64
	Keys []uint64
}

type Op struct {
	Kind          string
	S, K, I, J    uint64 // slot, key, indices
	Dst, Src, Loc uint64
	Pos, V        uint64
	Kid           []byte
	Proof, Direct bool
	B             bool
	Adds          []ACav
	Ds            []D
	Slots         []uint64
	Tr            []Trust
	X             *TailX
}

func (o Op) Coq() string {
	n := coqw.N
	switch o.Kind {
	case "OMint":
		return coqw.App(o.Kind, n(o.S), n(o.K), coqw.Bytes(o.Kid), n(o.Loc), coqw.Bool(o.Proof), n(o.V))
	case "OAdd":
		return coqw.App(o.Kind, n(o.S), coqw.ListOf(o.Adds, ACav.Coq))
	case "OEncode":
		return coqw.App(o.Kind, n(o.S))
	case "OClone", "ODecodeRaw":
		return coqw.App(o.Kind, n(o.Dst), n(o.Src))
	case "ODischarge":
		return coqw.App(o.Kind, n(o.Dst), n(o.Src), n(o.I), n(o.K), n(o.Loc), coqw.Bool(o.Proof), coqw.ListOf(o.Ds, D.Coq))
	case "OBind":
		return coqw.App(o.Kind, n(o.S), n(o.Src))
	case "OVerify":
		tr := coqw.ListOf(o.Tr, func(t Trust) string { return coqw.Pair(n(t.Loc), coqw.ListOf(t.Keys, coqw.N)) })
		return coqw.App(o.Kind, n(o.S), n(o.K), coqw.ListOf(o.Slots, coqw.N), tr, coqw.Bool(o.Direct))
	case "OVerifyObjs":
		tr := coqw.ListOf(o.Tr, func(t Trust) string { return coqw.Pair(n(t.Loc), coqw.ListOf(t.Keys, coqw.N)) })
		return coqw.App(o.Kind, n(o.S), n(o.K), coqw.ListOf(o.Slots, coqw.N), tr)
	case "OSameWire":
		return coqw.App(o.Kind, n(o.S), n(o.Src))
	case "OSetTail":
		return coqw.App(o.Kind, n(o.S), o.X.Coq())
	case "ODropCav":
		return coqw.App(o.Kind, n(o.S), n(o.I))
	case "OSwapCav":
		return coqw.App(o.Kind, n(o.S), n(o.I), n(o.J))
	case "OCopyCav":
		return coqw.App(o.Kind, n(o.Dst), n(o.Pos), n(o.Src), n(o.I))
	case "OAppendData":
		return coqw.App(o.Kind, n(o.S), o.Ds[0].Coq())
	case "OSetKid":
		return coqw.App(o.Kind, n(o.S), coqw.Bytes(o.Kid))
	case "OCopyKid", "OCopyRnd":
		return coqw.App(o.Kind, n(o.S), n(o.Src))
	case "OFlipProof":
		return coqw.App(o.Kind, n(o.S))
	case "OSetVer":
		return coqw.App(o.Kind, n(o.S), n(o.V))
	case "OSetNewProof":
		return coqw.App(o.Kind, n(o.S), coqw.Bool(o.B))
	case "OSetLoc":
		return coqw.App(o.Kind, n(o.S), n(o.Loc))
	case "OCopyVK", "OCopyTicket":
		return coqw.App(o.Kind, n(o.Dst), n(o.I), n(o.Src), n(o.J))
	case "OAdd3PWithTicket":
		return coqw.App(o.Kind, n(o.S), n(o.Loc), n(o.K), n(o.Src), n(o.J))
	case "OMintForTicket":
		return coqw.App(o.Kind, n(o.Dst), n(o.Src), n(o.J), n(o.K), n(o.Loc), coqw.Bool(o.Proof))
	case "OCopyVal":
		return coqw.App(o.Kind, n(o.Dst), n(o.Src))
	}
	panic("Op.Coq: " + o.Kind)
}

func OpsCoq(ops []Op) string { return coqw.ListOf(ops, Op.Coq) }

// SealNonces records the 12-byte AEAD nonce of every verifier key and ticket the library sealed in this process;
// DupSeal is set when one repeats ("sealing the same content twice never yields the same bytes", C04)
var (
	SealNonces = map[string]bool{}
	DupSeal    string
	Seals      int
)

// MintNonces records the random part of the nonce of every token the library minted in this process (root tokens and
// discharges); DupNonce is set when one repeats ("independently minted tokens never share a nonce", C01)
var (
	MintNonces = map[string]int{}
	DupNonce   string
	Mints      int
)

func noteNonce(m *macaroon.Macaroon) {
	_, rnd, _, _ := macaroon.VerifNonceFields(m.Nonce)
	Mints++
	k := string(rnd)
	if first, seen := MintNonces[k]; seen && DupNonce == "" {
		DupNonce = fmt.Sprintf("token #%d minted in this process carries the same random nonce part %x as token #%d", Mints, rnd, first)
	}
	if _, seen := MintNonces[k]; !seen {
		MintNonces[k] = Mints
	}
}

// TicketHelperFail: the ticket helpers (package-level TicketsForThirdParty / ThirdPartyTicket on the encoded token, the
// methods on the parsed one) must hand out exactly the ticket bytes the third-party caveat carries
var TicketHelperFail string

func noteTicketHelpers(m *macaroon.Macaroon, c3 *macaroon.Caveat3P) {
	if m == nil || TicketHelperFail != "" {
		return
	}
	enc := rawEncode(m)
	has := func(l [][]byte) bool {
		for _, t := range l {
			if bytes.Equal(t, c3.Ticket) {
				return true
			}
		}
		return false
	}
	var want [][]byte
	for _, c := range macaroon.GetCaveats[*macaroon.Caveat3P](&m.UnsafeCaveats) {
		if c.Location == c3.Location {
			want = append(want, c.Ticket)
		}
	}
	if l, err := macaroon.TicketsForThirdParty(enc, c3.Location); err != nil || !has(l) || len(l) != len(want) {
		TicketHelperFail = fmt.Sprintf("TicketsForThirdParty(encoded token, %q) = %d tickets (err %v), the token has %d for that location and they must include %x", c3.Location, len(l), err, len(want), c3.Ticket[:8])
	}
	if l := m.TicketsForThirdParty(c3.Location); !has(l) || len(l) != len(want) {
		TicketHelperFail = fmt.Sprintf("Macaroon.TicketsForThirdParty(%q) misses the caveat's ticket", c3.Location)
	}
	if len(want) > 0 {
		if t, err := macaroon.ThirdPartyTicket(enc, c3.Location); err == nil && t != nil && !bytes.Equal(t, want[0]) {
			TicketHelperFail = fmt.Sprintf("ThirdPartyTicket(encoded token, %q) returns bytes that are not the first ticket for that location", c3.Location)
		}
	}
}

// noteUndischarged: AllThirdPartyTickets(existing discharges) lists, per location, exactly the tickets of the token's
// third-party caveats that none of the decodable discharges answers; the deprecated ThirdPartyTickets gives the single
// ticket per location and refuses a token with two for one location
func noteUndischarged(m *macaroon.Macaroon, ds [][]byte) {
	if TicketHelperFail != "" {
		return
	}
	answered := map[string]bool{}
	for _, d := range ds {
		if n, err := macaroon.DecodeNonce(d); err == nil {
			answered[string(n.KID)] = true
		}
	}
	want := map[string][][]byte{}
	for _, c := range macaroon.GetCaveats[*macaroon.Caveat3P](&m.UnsafeCaveats) {
		if !answered[string(c.Ticket)] {
			want[c.Location] = append(want[c.Location], c.Ticket)
		}
	}
	got := m.AllThirdPartyTickets(ds...)
	if len(got) != len(want) {
		TicketHelperFail = fmt.Sprintf("AllThirdPartyTickets lists %d locations, %d have undischarged tickets", len(got), len(want))
		return
	}
	dup := false
	for loc, w := range want {
		g := got[loc]
		if len(g) != len(w) {
			TicketHelperFail = fmt.Sprintf("AllThirdPartyTickets(%q) = %d tickets, want %d", loc, len(g), len(w))
			return
		}
		for i := range w {
			if !bytes.Equal(g[i], w[i]) {
				TicketHelperFail = fmt.Sprintf("AllThirdPartyTickets(%q)[%d] is not the caveat's ticket", loc, i)
				return
			}
		}
		dup = dup || len(w) > 1
	}
	single, err := m.ThirdPartyTickets(ds...)
	if dup != (err != nil) {
		TicketHelperFail = fmt.Sprintf("ThirdPartyTickets: error=%v although some location has two undischarged tickets=%v", err, dup)
		return
	}
	if err == nil {
		for loc, w := range want {
			if !bytes.Equal(single[loc], w[0]) {
				TicketHelperFail = fmt.Sprintf("ThirdPartyTickets()[%q] is not that location's ticket", loc)
			}
		}
	}
}

func noteSeals(m *macaroon.Macaroon) {
	for _, c := range m.UnsafeCaveats.Caveats {
		c3, ok := c.(*macaroon.Caveat3P)
		if !ok {
			continue
		}
		for _, b := range [][]byte{c3.VerifierKey, c3.Ticket} {
			if len(b) < 12 {
				continue
			}
			k := string(b) // the whole sealed value: repeats only if nonce AND content repeat
			n := "n:" + string(b[:12])
			if SealNonces[n] && !SealNonces[k] && DupSeal == "" {
				DupSeal = fmt.Sprintf("AEAD nonce %x used for two different seals (after %d seals in this process)", b[:12], Seals)
			}
			if !SealNonces[k] {
				Seals++
			}
			SealNonces[k] = true
			SealNonces[n] = true
		}
	}
}

// ---- interpreter
type Env struct {
	Slots map[uint64]*macaroon.Macaroon
	seed  uint64
}

func NewEnv(seed uint64) *Env { return &Env{Slots: map[uint64]*macaroon.Macaroon{}, seed: seed} }

// KeyEmpty is the zero-length key: what Add seals into a hand-built Caveat3P{Location, Ticket} (no discharge key
// was ever drawn for it) and a key every attacker knows. In the model it is just another key atom.
const KeyEmpty = 30

func (e *Env) Key(k uint64) []byte {
	if k == KeyEmpty {
		return []byte{}
	}
	var b [16]byte
	binary.BigEndian.PutUint64(b[:8], e.seed)
	binary.BigEndian.PutUint64(b[8:], k)
	h := sha256.Sum256(b[:])
	return h[:]
}

func LocStr(l uint64) string { return fmt.Sprintf("https://loc%d.example", l) }

func cavs(ds []D) []macaroon.Caveat {
	var o []macaroon.Caveat
	for _, d := range ds {
		o = append(o, Table[d.ID]())
	}
	return o
}

func rawEncode(m *macaroon.Macaroon) []byte {
	b, err := macaroon.VerifEncode(m)
	if err != nil {
		return nil
	}
	return b
}

func (e *Env) tailx(x *TailX) ([]byte, bool) {
	switch x.Kind {
	case "XTail":
		m, ok := e.Slots[x.S]
		if !ok {
			return nil, false
		}
		return append([]byte{}, m.Tail...), true
	case "XMacCav":
		v, ok := e.tailx(x.X)
		m, ok2 := e.Slots[x.S]
		if !ok || !ok2 || int(x.I) >= len(m.UnsafeCaveats.Caveats) {
			return nil, false
		}
		return macaroon.VerifSign(v, encCav(m.UnsafeCaveats.Caveats[x.I])), true
	case "XMacNonce":
		v, ok := e.tailx(x.X)
		m, ok2 := e.Slots[x.S]
		if !ok || !ok2 {
			return nil, false
		}
		return macaroon.VerifSign(v, m.Nonce.MustEncode()), true
	case "XFin":
		v, ok := e.tailx(x.X)
		if !ok {
			return nil, false
		}
		return macaroon.VerifFinalize(v), true
	case "XDigest":
		v, ok := e.tailx(x.X)
		if !ok {
			return nil, false
		}
		return macaroon.VerifDigest(v), true
	case "XPre16":
		v, ok := e.tailx(x.X)
		if !ok {
			return nil, false
		}
		if len(v) > macaroon.VerifBindingIdLength {
			v = v[:macaroon.VerifBindingIdLength]
		}
		return v, true
	case "XLit":
		return append([]byte{}, x.B...), true
	case "XKey":
		return e.Key(x.S), true
	}
	return nil, false
}

func b2i(b bool) int64 {
	if b {
		return 1
	}
	return 0
}

func copyMac(m *macaroon.Macaroon) *macaroon.Macaroon {
	c := *m
	c.UnsafeCaveats.Caveats = append([]macaroon.Caveat{}, m.UnsafeCaveats.Caveats...)
	c.Tail = append([]byte{}, m.Tail...)
	c.VerifSetNewProof(m.VerifNewProof())
	return &c
}

func ticketOf(m *macaroon.Macaroon, i uint64) (*macaroon.Caveat3P, bool) {
	if m == nil || int(i) >= len(m.UnsafeCaveats.Caveats) {
		return nil, false
	}
	c, ok := m.UnsafeCaveats.Caveats[i].(*macaroon.Caveat3P)
	return c, ok
}

func hasAtt(c macaroon.Caveat) bool {
	if macaroon.IsAttestation(c) {
		return true
	}
	cs := macaroon.NewCaveatSet(c)
	return len(macaroon.GetCaveats[*auth.FlyioUserID](cs))+len(macaroon.GetCaveats[*auth.GitHubUserID](cs))+len(macaroon.GetCaveats[*auth.GoogleUserID](cs)) > 0
}

// Step executes one op and returns its observation.
func (e *Env) Step(o Op) []int64 {
	switch o.Kind {
	case "OMint":
		m, _ := macaroon.VerifNewMacaroon(o.Kid, LocStr(o.Loc), e.Key(o.K), o.Proof)
		if o.V == 0 {
			kid, rnd, _, _ := macaroon.VerifNonceFields(m.Nonce)
			m.Nonce = macaroon.VerifNonce(kid, rnd, o.Proof, 0)
			m.Tail = macaroon.VerifSign(e.Key(o.K), m.Nonce.MustEncode())
		}
		noteNonce(m)
		e.Slots[o.S] = m
		return nil
	case "OAdd":
		m, ok := e.Slots[o.S]
		if !ok {
			return nil
		}
		if len(o.Adds) == 1 && o.Adds[0].Is3P {
			// a lone third-party caveat goes through the Add3P helper (the other public way to add one)
			a := o.Adds[0]
			err := m.Add3P(e.Key(a.EncKey), LocStr(a.Loc), cavs(a.TCavs)...)
			noteSeals(m)
			return []int64{b2i(err == nil)}
		}
		var cs []macaroon.Caveat
		for _, a := range o.Adds {
			if a.Is3P {
				c, err := macaroon.NewCaveat3P(e.Key(a.EncKey), LocStr(a.Loc), cavs(a.TCavs)...)
				if err != nil {
					panic(err)
				}
				cs = append(cs, c)
			} else {
				cs = append(cs, Table[a.D.ID]())
			}
		}
		err := m.Add(cs...)
		noteSeals(m)
		return []int64{b2i(err == nil)}
	case "OEncode":
		m, ok := e.Slots[o.S]
		if !ok {
			return nil
		}
		before := append([]byte{}, m.Tail...)
		if _, err := m.Encode(); err != nil {
			panic(err)
		}
		return []int64{b2i(!bytes.Equal(before, m.Tail))}
	case "OClone":
		m, ok := e.Slots[o.Src]
		if !ok {
			return nil
		}
		c, err := m.Clone()
		if err != nil {
			panic(err)
		}
		e.Slots[o.Dst] = c
		return nil
	case "ODecodeRaw":
		m, ok := e.Slots[o.Src]
		if !ok {
			return nil
		}
		c, err := macaroon.Decode(rawEncode(m))
		if err != nil {
			panic(err)
		}
		e.Slots[o.Dst] = c
		return nil
	case "ODischarge":
		c3, ok := ticketOf(e.Slots[o.Src], o.I)
		if !ok {
			return nil
		}
		noteTicketHelpers(e.Slots[o.Src], c3)
		_, dm, err := macaroon.VerifDischargeTicket(e.Key(o.K), LocStr(o.Loc), c3.Ticket, o.Proof)
		if err != nil {
			return []int64{0}
		}
		noteNonce(dm)
		err = dm.Add(cavs(o.Ds)...)
		e.Slots[o.Dst] = dm
		return []int64{1, b2i(err == nil)}
	case "OBind":
		d, ok := e.Slots[o.S]
		p, ok2 := e.Slots[o.Src]
		if !ok || !ok2 {
			return nil
		}
		before := len(d.UnsafeCaveats.Caveats)
		var err error
		if o.Src%2 == 1 {
			err = d.Bind(rawEncode(p)) // the byte-level entry point
		} else {
			err = d.BindToParentMacaroon(p)
		}
		// the binding id is the first half of SHA-256(parent tail), computed here without the library
		if err == nil && len(d.UnsafeCaveats.Caveats) == before+1 && TicketHelperFail == "" {
			if bc, ok := d.UnsafeCaveats.Caveats[before].(*macaroon.BindToParentToken); ok {
				h := sha256.Sum256(p.Tail)
				if !bytes.Equal([]byte(*bc), h[:16]) {
					TicketHelperFail = fmt.Sprintf("binding caveat %x is not the first 16 bytes of SHA-256(parent tail) %x", []byte(*bc), h[:16])
				}
			}
		}
		return []int64{b2i(err == nil)}
	case "OVerify":
		m, ok := e.Slots[o.S]
		if !ok {
			return nil
		}
		var ds [][]byte
		// presented alongside: entries that are not tokens at all (ignored by the verifier, wherever they stand)
		if o.S%3 == 1 {
			ds = append(ds, []byte("not a token"), []byte{0xc1})
		}
		for i, s := range o.Slots {
			if d, ok := e.Slots[s]; ok {
				ds = append(ds, rawEncode(d))
			}
			if i == 0 && o.S%3 == 2 {
				ds = append(ds, []byte{0x94, 0xc0})
			}
		}
		tr := map[string][]macaroon.EncryptionKey{}
		for _, t := range o.Tr {
			for _, k := range t.Keys {
				tr[LocStr(t.Loc)] = append(tr[LocStr(t.Loc)], e.Key(k))
			}
		}
		vm := m
		if !o.Direct {
			var err error
			vm, err = macaroon.Decode(rawEncode(m))
			if err != nil {
				panic(err)
			}
		}
		noteUndischarged(vm, ds)
		set, err := vm.Verify(e.Key(o.K), ds, tr)
		if err != nil {
			return []int64{0}
		}
		out := []int64{1, int64(len(set.Caveats))}
		var atts []int64
		for _, c := range set.Caveats {
			out = append(out, idOf(c))
			if hasAtt(c) {
				atts = append(atts, idOf(c))
			}
		}
		out = append(out, int64(len(atts)))
		return append(out, atts...)
	case "OVerifyObjs":
		m, ok := e.Slots[o.S]
		if !ok {
			return nil
		}
		var ds []*macaroon.Macaroon
		for _, s := range o.Slots {
			if d, ok := e.Slots[s]; ok {
				ds = append(ds, d)
			}
		}
		tr := map[string][]macaroon.EncryptionKey{}
		for _, t := range o.Tr {
			for _, k := range t.Keys {
				tr[LocStr(t.Loc)] = append(tr[LocStr(t.Loc)], e.Key(k))
			}
		}
		set, err := m.VerifyParsed(e.Key(o.K), ds, tr)
		if err != nil {
			return []int64{0}
		}
		out := []int64{1, int64(len(set.Caveats))}
		var atts []int64
		for _, c := range set.Caveats {
			out = append(out, idOf(c))
			if hasAtt(c) {
				atts = append(atts, idOf(c))
			}
		}
		out = append(out, int64(len(atts)))
		return append(out, atts...)
	case "OSameWire":
		a, ok := e.Slots[o.S]
		b, ok2 := e.Slots[o.Src]
		if !ok || !ok2 {
			return nil
		}
		return []int64{b2i(bytes.Equal(rawEncode(a), rawEncode(b)))}
	case "OSetTail":
		m, ok := e.Slots[o.S]
		v, ok2 := e.tailx(o.X)
		if !ok || !ok2 {
			return nil
		}
		m = copyMac(m)
		m.Tail = v
		e.Slots[o.S] = m
		return nil
	case "ODropCav":
		m, ok := e.Slots[o.S]
		if !ok {
			return nil
		}
		m = copyMac(m)
		if int(o.I) < len(m.UnsafeCaveats.Caveats) {
			m.UnsafeCaveats.Caveats = append(m.UnsafeCaveats.Caveats[:o.I], m.UnsafeCaveats.Caveats[o.I+1:]...)
		}
		e.Slots[o.S] = m
		return nil
	case "OSwapCav":
		m, ok := e.Slots[o.S]
		if !ok {
			return nil
		}
		m = copyMac(m)
		cs := m.UnsafeCaveats.Caveats
		if int(o.I) < len(cs) && int(o.J) < len(cs) {
			cs[o.I], cs[o.J] = cs[o.J], cs[o.I]
		}
		e.Slots[o.S] = m
		return nil
	case "OCopyCav":
		d, ok := e.Slots[o.Dst]
		s, ok2 := e.Slots[o.Src]
		if !ok || !ok2 || int(o.I) >= len(s.UnsafeCaveats.Caveats) {
			return nil
		}
		d = copyMac(d)
		c := s.UnsafeCaveats.Caveats[o.I]
		cs := d.UnsafeCaveats.Caveats
		pos := int(o.Pos)
		if pos > len(cs) {
			pos = len(cs)
		}
		cs = append(cs[:pos], append([]macaroon.Caveat{c}, cs[pos:]...)...)
		d.UnsafeCaveats.Caveats = cs
		e.Slots[o.Dst] = d
		return nil
	case "OAppendData":
		m, ok := e.Slots[o.S]
		if !ok {
			return nil
		}
		m = copyMac(m)
		m.UnsafeCaveats.Caveats = append(m.UnsafeCaveats.Caveats, Table[o.Ds[0].ID]())
		e.Slots[o.S] = m
		return nil
	case "OSetKid", "OCopyKid", "OCopyRnd", "OFlipProof", "OSetVer":
		m, ok := e.Slots[o.S]
		if !ok {
			return nil
		}
		kid, rnd, proof, ver := macaroon.VerifNonceFields(m.Nonce)
		switch o.Kind {
		case "OSetKid":
			kid = o.Kid
		case "OCopyKid", "OCopyRnd":
			s, ok := e.Slots[o.Src]
			if !ok {
				return nil
			}
			k2, r2, _, _ := macaroon.VerifNonceFields(s.Nonce)
			if o.Kind == "OCopyKid" {
				kid = k2
			} else {
				rnd = r2
			}
		case "OFlipProof":
			proof = !proof
		case "OSetVer":
			ver = int(o.V)
			if ver == 0 {
				proof = false
			}
		}
		m = copyMac(m)
		m.Nonce = macaroon.VerifNonce(kid, rnd, proof, ver)
		e.Slots[o.S] = m
		return nil
	case "OSetNewProof":
		m, ok := e.Slots[o.S]
		if !ok {
			return nil
		}
		m = copyMac(m)
		m.VerifSetNewProof(o.B)
		e.Slots[o.S] = m
		return nil
	case "OSetLoc":
		m, ok := e.Slots[o.S]
		if !ok {
			return nil
		}
		m = copyMac(m)
		m.Location = LocStr(o.Loc)
		e.Slots[o.S] = m
		return nil
	case "OCopyVK", "OCopyTicket":
		d, ok := e.Slots[o.Dst]
		s, ok2 := e.Slots[o.Src]
		if !ok || !ok2 {
			return nil
		}
		cd, okd := ticketOf(d, o.I)
		csrc, oks := ticketOf(s, o.J)
		if !okd || !oks {
			return nil
		}
		d = copyMac(d)
		nc := &macaroon.Caveat3P{Location: cd.Location, VerifierKey: cd.VerifierKey, Ticket: cd.Ticket}
		if o.Kind == "OCopyVK" {
			nc.VerifierKey = csrc.VerifierKey
		} else {
			nc.Ticket = csrc.Ticket
		}
		d.UnsafeCaveats.Caveats[o.I] = nc
		e.Slots[o.Dst] = d
		return nil
	case "OAdd3PWithTicket":
		m, ok := e.Slots[o.S]
		csrc, oks := ticketOf(e.Slots[o.Src], o.J)
		if !ok || !oks {
			return nil
		}
		m = copyMac(m)
		c := &macaroon.Caveat3P{Location: LocStr(o.Loc), VerifierKey: macaroon.VerifSeal(m.Tail, e.Key(o.K)), Ticket: csrc.Ticket}
		m.UnsafeCaveats.Caveats = append(m.UnsafeCaveats.Caveats, c)
		m.Tail = macaroon.VerifSign(m.Tail, encCav(c))
		e.Slots[o.S] = m
		return nil
	case "OCopyVal":
		m, ok := e.Slots[o.Src]
		if !ok {
			return nil
		}
		cp := *m // what `for _, t := range []macaroon.Macaroon{...}` or `cp := *m` does: slices (the tail!) are shared
		e.Slots[o.Dst] = &cp
		return nil
	case "OMintForTicket":
		csrc, oks := ticketOf(e.Slots[o.Src], o.J)
		if !oks {
			return nil
		}
		m, _ := macaroon.VerifNewMacaroon(csrc.Ticket, LocStr(o.Loc), e.Key(o.K), o.Proof)
		e.Slots[o.Dst] = m
		return nil
	}
	panic("Step: " + o.Kind)
}

func Run(seed uint64, ops []Op) [][]int64 {
	e := NewEnv(seed)
	out := make([][]int64, 0, len(ops))
	for _, o := range ops {
		out = append(out, e.Step(o))
	}
	return out
}

func ObsCoq(obs [][]int64) string {
	return coqw.ListOf(obs, func(o []int64) string { return coqw.ListOf(o, coqw.Z) })
}
