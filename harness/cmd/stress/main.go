// Command stress searches for a concrete schedule on which concurrent Bundle
// operations deadlock (watchdog) or race (when built with -race).  It is
// support for C15: used to exhibit a failing schedule, never as the proof.
package main

import (
	"context"
	"flag"
	"fmt"
	"net/http"
	"net/http/httptest"
	"os"
	"strings"
	"sync"
	"sync/atomic"
	"time"

	"github.com/superfly/macaroon"
	"github.com/superfly/macaroon/bundle"
	"github.com/superfly/macaroon/flyio"
	"github.com/superfly/macaroon/resset"
	"github.com/superfly/macaroon/tp"
)

type opfn struct {
	name string
	f    func(b *bundle.Bundle)
}

func main() {
	dur := flag.Duration("dur", 1500*time.Millisecond, "duration per pair")
	flag.Parse()
	key := macaroon.NewSigningKey()
	ka := macaroon.NewEncryptionKey()
	m, _ := macaroon.New([]byte("kid"), "loc", key)
	m.Add(&flyio.Organization{ID: 1, Mask: resset.ActionAll})
	m.Add3P(ka, "tp")
	hdr, _ := m.String()
	extra, _ := macaroon.New([]byte("kid2"), "loc", key)
	extraHdr, _ := extra.String()
	isPerm := bundle.LocationFilter("loc").Predicate()
	ops := []opfn{
		{"Any", func(b *bundle.Bundle) { b.Any(isPerm) }},
		{"AnyFilter", func(b *bundle.Bundle) { b.Any(bundle.LocationFilter("loc")) }},
		{"Count", func(b *bundle.Bundle) { b.Count(bundle.LocationFilter("loc")) }},
		{"CountPred", func(b *bundle.Bundle) { b.Count(isPerm) }},
		{"Clone", func(b *bundle.Bundle) { b.Clone() }},
		{"UndischargedFor", func(b *bundle.Bundle) { b.UndischargedTicketsForThirdParty("tp") }},
		{"Undischarged", func(b *bundle.Bundle) { b.UndischargedThirdPartyTickets() }},
		{"Header", func(b *bundle.Bundle) { _ = b.Header() }},
		{"Len", func(b *bundle.Bundle) { b.Len() }},
		{"Select", func(b *bundle.Bundle) { b.Select(isPerm).Len() }},
		{"Validate", func(b *bundle.Bundle) { b.Validate(&flyio.Access{OrgID: ptr(uint64(1)), Action: resset.ActionRead}) }},
		{"Filter", func(b *bundle.Bundle) { b.Filter(bundle.KeepAll) }},
		{"AddTokens", func(b *bundle.Bundle) {
			if b.Len() < 64 {
				b.AddTokens(extraHdr)
			}
		}},
		{"Attenuate", func(b *bundle.Bundle) {
			if b.Len() < 64 {
				b.Attenuate(&flyio.Organization{ID: 1, Mask: resset.ActionRead})
			}
		}},
		{"Verify", func(b *bundle.Bundle) { b.Verify(context.Background(), bundle.WithKey([]byte("kid"), key, nil)) }},
		{"Discharge", func(b *bundle.Bundle) {
			if b.Len() < 64 {
				b.Discharge("tp", ka, func(c []macaroon.Caveat) ([]macaroon.Caveat, error) { return nil, nil })
			}
		}},
		{"ForEach", func(b *bundle.Bundle) { bundle.ForEach(b, func(t bundle.Token) {}) }},
	}
	bad := 0
	for i := range ops {
		for j := range ops {
			if j < i {
				continue
			}
			b, _ := bundle.ParseBundle("loc", hdr)
			sel := b.Select(bundle.KeepAll) // shares the lock
			var progress int64
			var stop int32
			var wg sync.WaitGroup
			run := func(bb *bundle.Bundle, o opfn) {
				defer wg.Done()
				for atomic.LoadInt32(&stop) == 0 {
					o.f(bb)
					atomic.AddInt64(&progress, 1)
				}
			}
			wg.Add(4)
			go run(b, ops[i])
			go run(b, ops[j])
			go run(sel, ops[i])
			go run(b, ops[j])
			deadline := time.Now().Add(*dur)
			last := int64(-1)
			stuck := 0
			for time.Now().Before(deadline) {
				time.Sleep(100 * time.Millisecond)
				p := atomic.LoadInt64(&progress)
				if p == last {
					stuck++
				} else {
					stuck = 0
				}
				last = p
				if stuck >= 5 {
					break
				}
			}
			atomic.StoreInt32(&stop, 1)
			// all four goroutines must come back once asked to stop
			done := make(chan struct{})
			go func() { wg.Wait(); close(done) }()
			select {
			case <-done:
			case <-time.After(3 * time.Second):
				fmt.Printf("DEADLOCK ops=%s||%s goroutines never returned (%d calls completed before the hang)\n", ops[i].name, ops[j].name, atomic.LoadInt64(&progress))
				bad++
			}
		}
	}
	bad += clientFanOut(key)
	if bad > 0 {
		os.Exit(1)
	}
	fmt.Println("no deadlock observed")
}

// clientFanOut: the library's own concurrent user of a bundle: the discharge client fetches the discharges of N tickets in
// parallel and adds each to the bundle as it arrives. For every N the call returns and all N discharges are present.
func clientFanOut(key macaroon.SigningKey) int {
	ka := macaroon.NewEncryptionKey()
	mux := http.NewServeMux()
	srv := httptest.NewServer(mux)
	defer srv.Close()
	svc := &tp.TP{Location: srv.URL, Key: ka}
	mux.Handle(tp.InitPath, svc.InitRequestMiddleware(http.HandlerFunc(func(w http.ResponseWriter, r *http.Request) {
		svc.RespondDischarge(w, r)
	})))
	bad := 0
	for _, n := range []int{1, 2, 8, 9, 16, 17, 40, 100} {
		var hdrs []string
		for i := 0; i < n; i++ {
			m, _ := macaroon.New([]byte{byte(i), byte(i >> 8)}, "loc", key)
			m.Add(&flyio.Organization{ID: uint64(i + 1), Mask: resset.ActionAll})
			m.Add3P(ka, srv.URL)
			s, _ := m.String()
			hdrs = append(hdrs, s)
		}
		hdr := "FlyV1 " + strings.Join(hdrs, ",")
		client := tp.NewClient("loc")
		type res struct {
			out string
			err error
		}
		ch := make(chan res, 1)
		go func() {
			ctx, cancel := context.WithTimeout(context.Background(), 4*time.Second)
			defer cancel()
			out, err := client.FetchDischargeTokens(ctx, hdr)
			ch <- res{out, err}
		}()
		select {
		case r := <-ch:
			b, perr := bundle.ParseBundle("loc", r.out)
			if r.err != nil || perr != nil {
				fmt.Printf("DEADLOCK-OR-LOSS client FetchDischargeTokens with %d tickets fails: %v %v\n", n, r.err, perr)
				bad++
			} else if got := b.Len(); got != 2*n {
				fmt.Printf("DEADLOCK-OR-LOSS client FetchDischargeTokens with %d tickets returns %d tokens, not %d (discharges added concurrently are not all present)\n", n, got, 2*n)
				bad++
			} else if left := len(b.UndischargedThirdPartyTickets()); left != 0 {
				fmt.Printf("DEADLOCK-OR-LOSS client FetchDischargeTokens with %d tickets leaves %d locations undischarged\n", n, left)
				bad++
			}
		case <-time.After(6 * time.Second):
			fmt.Printf("DEADLOCK client FetchDischargeTokens with %d tickets never returned\n", n)
			bad++
		}
	}
	return bad
}

func ptr[T any](v T) *T { return &v }
