// Command facts regenerates coq/Generated/Facts.v from the library's source
// (through the compiled packages): tables and constants the model depends on.
package main

import (
	"path/filepath"
	"regexp"
	"fmt"
	"os"
	"reflect"
	"sort"
	"strings"

	"github.com/superfly/macaroon"
	"github.com/superfly/macaroon/auth"
	"github.com/superfly/macaroon/flyio"
	"github.com/superfly/macaroon/resset"
	"github.com/superfly/macaroon/tp"
)

type reg struct {
	c    macaroon.Caveat
	ctor string // model constructor
}

func main() {
	var b strings.Builder
	b.WriteString("(* GENERATED from /repo by harness/cmd/facts on every run - do not edit *)\n")
	b.WriteString("From Coq Require Import List NArith String.\nImport ListNotations.\nLocal Open Scope string_scope.\nLocal Open Scope N_scope.\n\n")

	// flyio.MemberFeatures
	keys := make([]string, 0)
	for k := range flyio.MemberFeatures {
		keys = append(keys, k)
	}
	sort.Strings(keys)
	b.WriteString("Definition member_features : list (string * N) := [\n")
	for i, k := range keys {
		sep := ";"
		if i == len(keys)-1 {
			sep = ""
		}
		fmt.Fprintf(&b, "  (%q, %d)%s\n", k, uint16(flyio.MemberFeatures[k]), sep)
	}
	b.WriteString("].\n\n")

	fmt.Fprintf(&b, "Definition f_feature_lfsc : string := %q.\n", flyio.FeatureLFSC)
	fmt.Fprintf(&b, "Definition f_role_member : N := %d.\nDefinition f_role_admin : N := %d.\n", uint32(flyio.RoleMember), uint32(flyio.RoleAdmin))
	fmt.Fprintf(&b, "Definition f_action_read : N := %d.\nDefinition f_action_write : N := %d.\nDefinition f_action_create : N := %d.\nDefinition f_action_delete : N := %d.\nDefinition f_action_control : N := %d.\nDefinition f_action_all : N := %d.\n",
		resset.ActionRead, resset.ActionWrite, resset.ActionCreate, resset.ActionDelete, resset.ActionControl, resset.ActionAll)

	// registered caveat types: number, JSON name, attestation flag, Go kind and msgpack field layout
	regs := []macaroon.Caveat{
		&flyio.Organization{}, &flyio.Volumes{}, &flyio.Apps{}, &macaroon.ValidityWindow{}, &flyio.FeatureSet{},
		&flyio.Mutations{}, &flyio.Machines{}, &auth.ConfineUser{}, &auth.ConfineOrganization{}, &flyio.IsUser{},
		&macaroon.Caveat3P{}, new(macaroon.BindToParentToken), &resset.IfPresent{}, &flyio.MachineFeatureSet{},
		&flyio.FromMachine{}, &flyio.Clusters{}, new(auth.ConfineGoogleHD), new(auth.ConfineGitHubOrg),
		new(auth.MaxValidity), &flyio.IsMember{}, new(auth.FlyioUserID), new(auth.GitHubUserID),
		new(auth.GoogleUserID), new(resset.Action), new(flyio.Commands), &flyio.AppFeatureSet{},
		&flyio.StorageObjects{}, new(flyio.AllowedRoles), &flyio.FlySrc{},
	}
	b.WriteString("\n(* (type number, name, is attestation, msgpack shape) *)\nDefinition registered : list (N * string * bool * string) := [\n")
	for i, c := range regs {
		sep := ";"
		if i == len(regs)-1 {
			sep = ""
		}
		fmt.Fprintf(&b, "  (%d, %q, %v, %q)%s\n", uint64(c.CaveatType()), c.Name(), macaroon.IsAttestation(c), shape(reflect.TypeOf(c).Elem()), sep)
	}
	b.WriteString("].\n\n")

	// JSON aliases: further names accepted when READING a caveat type.  Read off the source text (calls
	// RegisterCaveatJSONAlias(Cav<Name>, "alias") ); the constant is resolved through the registered caveat of that name.
	b.WriteString("(* (alias, type number) from the RegisterCaveatJSONAlias calls in the source *)\nDefinition json_aliases : list (string * N) := [\n")
	var aliasLines []string
	reAlias := regexp.MustCompile(`RegisterCaveatJSONAlias\(\s*(?:[A-Za-z_]+\.)?Cav([A-Za-z0-9_]+)\s*,\s*"([^"]+)"\s*\)`)
	filepath.WalkDir("/repo", func(path string, d os.DirEntry, err error) error {
		if err != nil || d.IsDir() || !strings.HasSuffix(path, ".go") || strings.HasSuffix(path, "_test.go") {
			return nil
		}
		src, _ := os.ReadFile(path)
		for _, m := range reAlias.FindAllStringSubmatch(string(src), -1) {
			for _, c := range regs {
				if c.Name() == m[1] {
					aliasLines = append(aliasLines, fmt.Sprintf("  (%q, %d)", m[2], uint64(c.CaveatType())))
				}
			}
		}
		return nil
	})
	sort.Strings(aliasLines)
	b.WriteString(strings.Join(aliasLines, ";\n"))
	b.WriteString("\n].\n\n")
	fmt.Fprintf(&b, "Definition f_cav_min_user_defined : N := %d.\nDefinition f_cav_max_user_defined : N := %d.\nDefinition f_cav_unregistered : N := %d.\n",
		uint64(macaroon.CavMinUserDefined), uint64(macaroon.CavMaxUserDefined), uint64(macaroon.CavUnregistered))
	fmt.Fprintf(&b, "Definition f_scheme_flyv1 : string := %q.\n", macaroon.AuthorizationSchemeFlyV1)
	fmt.Fprintf(&b, "Definition f_init_path : string := %q.\nDefinition f_poll_path_prefix : string := %q.\n", tp.InitPath, tp.PollPathPrefix)
	fmt.Fprintf(&b, "Definition f_encryption_key_size : N := %d.\n", macaroon.EncryptionKeySize)
	fmt.Fprintf(&b, "Definition f_loc_permission : string := %q.\n", flyio.LocationPermission)
	os.Stdout.WriteString(b.String())
}

// shape describes how msgpack (array-encoded structs) lays the type out.
func shape(t reflect.Type) string {
	if _, ok := reflect.PointerTo(t).MethodByName("EncodeMsgpack"); ok {
		return "custom:" + t.Name()
	}
	if _, ok := t.MethodByName("EncodeMsgpack"); ok {
		return "custom:" + strings.SplitN(t.Name(), "[", 2)[0] + "<" + keyKind(t) + ">"
	}
	switch t.Kind() {
	case reflect.Struct:
		var fs []string
		for i := 0; i < t.NumField(); i++ {
			f := t.Field(i)
			if !f.IsExported() || f.Tag.Get("msgpack") == "-" {
				continue
			}
			fs = append(fs, shape(f.Type))
		}
		return "struct{" + strings.Join(fs, ",") + "}"
	case reflect.Slice:
		if t.Elem().Kind() == reflect.Uint8 {
			return "bytes"
		}
		return "[]" + shape(t.Elem())
	case reflect.Pointer:
		return "*" + shape(t.Elem())
	case reflect.Map:
		return "map[" + shape(t.Key()) + "]" + shape(t.Elem())
	default:
		return t.Kind().String()
	}
}

func keyKind(t reflect.Type) string {
	if t.Kind() == reflect.Map {
		return t.Key().Kind().String() + ":" + t.Key().Name()
	}
	return ""
}
