// Command lockprog translates the lock discipline of package bundle into Coq:
// for every Bundle method and every generic helper taking a *Bundle it emits
// the set of control-flow paths as sequences of Acq/Rel/Rd/Wr events on the
// bundle's RWMutex and token list (callee bodies inlined, deferred releases
// placed at return).  Unknown constructs make it fail loudly.
package main

import (
	"fmt"
	"go/ast"
	"go/parser"
	"go/token"
	"os"
	"sort"
	"strings"
)

var dir = func() string {
	if d := os.Getenv("LOCKPROG_DIR"); d != "" {
		return d
	}
	return "/repo/bundle"
}()

type path struct {
	ev     []string
	defers []string
	done   bool // returned
	brk    bool // break/continue: skip to loop end
}

func (p path) clone() path {
	return path{append([]string{}, p.ev...), append([]string{}, p.defers...), p.done, p.brk}
}

type fn struct {
	name string
	recv string // name of the *Bundle variable
	decl *ast.FuncDecl
	// local variables that alias the bundle's token list (ts := b.ts, ts := b.current()): a slice header copied out of
	// the bundle shares its backing array, so every later use of the variable is an access to the shared list
	aliases map[string]bool
}

// returnsTokens: a Bundle method whose result is the token list type hands out an alias of b.ts
func returnsTokens(fd *ast.FuncDecl) bool {
	if fd == nil || fd.Type.Results == nil {
		return false
	}
	for _, r := range fd.Type.Results.List {
		if id, ok := r.Type.(*ast.Ident); ok && id.Name == "tokens" {
			return true
		}
	}
	return false
}

// aliasSource: the expression evaluates to (a slice of) the receiver's token list without copying the elements
func aliasSource(f *fn, e ast.Expr) bool {
	switch x := e.(type) {
	case *ast.ParenExpr:
		return aliasSource(f, x.X)
	case *ast.SliceExpr:
		return aliasSource(f, x.X)
	case *ast.Ident:
		return f.aliases[x.Name]
	case *ast.SelectorExpr:
		return isSel(x, f.recv, "ts")
	case *ast.CallExpr:
		if s, ok := x.Fun.(*ast.SelectorExpr); ok {
			if id, ok := s.X.(*ast.Ident); ok && id.Name == f.recv {
				if callee, ok := funcs[s.Sel.Name]; ok && callee.decl.Recv != nil {
					return returnsTokens(callee.decl)
				}
			}
		}
	}
	return false
}

func noteAliases(f *fn, lhs []ast.Expr, rhs []ast.Expr) {
	if len(lhs) != len(rhs) {
		return
	}
	for i := range lhs {
		if id, ok := lhs[i].(*ast.Ident); ok && id.Name != "_" && aliasSource(f, rhs[i]) {
			if f.aliases == nil {
				f.aliases = map[string]bool{}
			}
			f.aliases[id.Name] = true
		}
	}
}

var (
	fset       = token.NewFileSet()
	funcs      = map[string]*fn{} // "Header" (method) or "Reduce" (helper)
	tokWrites  = map[string]bool{}
	tokMethods = map[string]bool{}
	maxPaths   = 4096
)

func fail(pos token.Pos, f string, a ...any) {
	fmt.Fprintf(os.Stderr, "lockprog: %s: %s\n", fset.Position(pos), fmt.Sprintf(f, a...))
	os.Exit(1)
}

func isBundlePtr(e ast.Expr) bool {
	s, ok := e.(*ast.StarExpr)
	if !ok {
		return false
	}
	id, ok := s.X.(*ast.Ident)
	return ok && id.Name == "Bundle"
}

func main() {
	pkgs, err := parser.ParseDir(fset, dir, func(fi os.FileInfo) bool { return !strings.HasSuffix(fi.Name(), "_test.go") }, 0)
	if err != nil {
		fmt.Fprintln(os.Stderr, "lockprog:", err)
		os.Exit(1)
	}
	pkg := pkgs["bundle"]
	if pkg == nil {
		fmt.Fprintln(os.Stderr, "lockprog: package bundle not found")
		os.Exit(1)
	}
	for _, f := range pkg.Files {
		for _, d := range f.Decls {
			fd, ok := d.(*ast.FuncDecl)
			if !ok || fd.Body == nil {
				continue
			}
			if fd.Recv != nil && len(fd.Recv.List) == 1 {
				r := fd.Recv.List[0]
				if isBundlePtr(r.Type) && len(r.Names) == 1 {
					funcs[fd.Name.Name] = &fn{name: fd.Name.Name, recv: r.Names[0].Name, decl: fd}
				}
				// methods of type tokens: classify read/write
				if isTokens(r.Type) {
					tokMethods[fd.Name.Name] = true
					if _, ptr := r.Type.(*ast.StarExpr); ptr || mutatesTokens(fd, r) {
						tokWrites[fd.Name.Name] = true
					}
				}
				continue
			}
			if fd.Type.Params != nil && len(fd.Type.Params.List) > 0 {
				p := fd.Type.Params.List[0]
				if isBundlePtr(p.Type) && len(p.Names) == 1 {
					funcs[fd.Name.Name] = &fn{name: fd.Name.Name, recv: p.Names[0].Name, decl: fd}
				}
			}
		}
	}
	names := make([]string, 0, len(funcs))
	for n := range funcs {
		names = append(names, n)
	}
	sort.Strings(names)
	var b strings.Builder
	b.WriteString("(* GENERATED from /repo/bundle by harness/cmd/lockprog on every run - do not edit *)\n")
	b.WriteString("From Coq Require Import List String.\nFrom Mac Require Import Model.RWLock.\nImport ListNotations.\nLocal Open Scope string_scope.\n\n")
	b.WriteString("(* every control-flow path of every Bundle operation as a lock program *)\nDefinition lockprogs : list (string * list prog) := [\n")
	for i, n := range names {
		ps := pathsOf(funcs[n], 0)
		seen := map[string]bool{}
		var strs []string
		for _, p := range ps {
			s := "[" + strings.Join(p.ev, "; ") + "]"
			if !seen[s] {
				seen[s] = true
				strs = append(strs, s)
			}
		}
		sort.Strings(strs)
		sep := ";"
		if i == len(names)-1 {
			sep = ""
		}
		fmt.Fprintf(&b, "  (%q, [%s])%s\n", n, strings.Join(strs, "; "), sep)
	}
	b.WriteString("].\n\n")
	// every Bundle composite literal inside these functions: does the new bundle share token objects with the
	// receiver (its ts derives from the receiver's ts without re-parsing) and does it share the receiver's lock?
	b.WriteString("(* (function, shares token objects with the receiver, shares the receiver's lock) for every Bundle literal *)\nDefinition bundle_literals : list (string * bool * bool) := [\n")
	var lits []string
	for _, n := range names {
		f := funcs[n]
		ast.Inspect(f.decl.Body, func(x ast.Node) bool {
			cl, ok := x.(*ast.CompositeLit)
			if !ok {
				return true
			}
			if id, ok := cl.Type.(*ast.Ident); !ok || id.Name != "Bundle" {
				return true
			}
			sharesObj, sharesLock, sawM := false, false, false
			for _, el := range cl.Elts {
				kv, ok := el.(*ast.KeyValueExpr)
				if !ok {
					fail(cl.Pos(), "positional Bundle literal")
				}
				switch kv.Key.(*ast.Ident).Name {
				case "m":
					sawM = true
					sharesLock = isSel(kv.Value, f.recv, "m")
				case "ts":
					reparsed := false
					ast.Inspect(kv.Value, func(y ast.Node) bool {
						if c, ok := y.(*ast.CallExpr); ok && calleeName(c.Fun) == "parseToks" {
							reparsed = true
						}
						return true
					})
					sharesObj = mentions(kv.Value, f.recv) && !reparsed
				}
			}
			if !sawM {
				fail(cl.Pos(), "Bundle literal without a lock")
			}
			lits = append(lits, fmt.Sprintf("  (%q, %v, %v)", n, sharesObj, sharesLock))
			return true
		})
	}
	b.WriteString(strings.Join(lits, ";\n") + "\n].\n\n")
	var w []string
	for n := range tokWrites {
		w = append(w, n)
	}
	sort.Strings(w)
	fmt.Fprintf(&b, "(* methods of the token list classified as writes (pointer receiver, element assignment or in-place update of tokens): %s *)\n", strings.Join(w, ", "))
	os.Stdout.WriteString(b.String())
}

func isTokens(e ast.Expr) bool {
	if s, ok := e.(*ast.StarExpr); ok {
		e = s.X
	}
	id, ok := e.(*ast.Ident)
	return ok && id.Name == "tokens"
}

// mutatesTokens: a value-receiver method of tokens writes if it assigns to an element of the
// receiver or to a field of a variable bound by a type switch (in-place update of a token object)
func mutatesTokens(fd *ast.FuncDecl, r *ast.Field) bool {
	recv := ""
	if len(r.Names) == 1 {
		recv = r.Names[0].Name
	}
	tsBound := map[string]bool{}
	ast.Inspect(fd.Body, func(n ast.Node) bool {
		if ts, ok := n.(*ast.TypeSwitchStmt); ok {
			if as, ok := ts.Assign.(*ast.AssignStmt); ok && len(as.Lhs) == 1 {
				if id, ok := as.Lhs[0].(*ast.Ident); ok {
					tsBound[id.Name] = true
				}
			}
		}
		return true
	})
	mut := false
	ast.Inspect(fd.Body, func(n ast.Node) bool {
		as, ok := n.(*ast.AssignStmt)
		if !ok {
			return true
		}
		for _, l := range as.Lhs {
			switch x := l.(type) {
			case *ast.IndexExpr:
				if id, ok := x.X.(*ast.Ident); ok && id.Name == recv {
					mut = true
				}
			case *ast.SelectorExpr:
				if id, ok := x.X.(*ast.Ident); ok && tsBound[id.Name] {
					mut = true
				}
			}
		}
		return true
	})
	return mut
}

func pathsOf(f *fn, depth int) []path {
	if depth > 6 {
		fail(f.decl.Pos(), "call depth exceeded inlining %s", f.name)
	}
	ps := walkStmts(f, f.decl.Body.List, []path{{}}, depth)
	for i := range ps {
		if !ps[i].done {
			ps[i] = finish(ps[i])
		}
	}
	return ps
}

func finish(p path) path {
	for i := len(p.defers) - 1; i >= 0; i-- {
		p.ev = append(p.ev, p.defers[i])
	}
	p.defers = nil
	p.done = true
	return p
}

func live(ps []path) (act, rest []path) {
	for _, p := range ps {
		if p.done || p.brk {
			rest = append(rest, p)
		} else {
			act = append(act, p)
		}
	}
	return
}

func walkStmts(f *fn, stmts []ast.Stmt, ps []path, depth int) []path {
	for _, s := range stmts {
		act, rest := live(ps)
		if len(act) == 0 {
			return ps
		}
		ps = append(rest, walkStmt(f, s, act, depth)...)
		if len(ps) > maxPaths {
			fail(s.Pos(), "too many paths")
		}
	}
	return ps
}

func addEv(ps []path, evs ...string) []path {
	for i := range ps {
		ps[i].ev = append(ps[i].ev, evs...)
	}
	return ps
}

func cross(ps []path, callee []path) []path {
	var out []path
	for _, p := range ps {
		for _, c := range callee {
			q := p.clone()
			q.ev = append(q.ev, c.ev...)
			out = append(out, q)
		}
	}
	return out
}

func walkStmt(f *fn, s ast.Stmt, ps []path, depth int) []path {
	switch st := s.(type) {
	case nil:
		return ps
	case *ast.ExprStmt:
		return evalExpr(f, st.X, ps, depth)
	case *ast.AssignStmt:
		for _, r := range st.Rhs {
			ps = evalExpr(f, r, ps, depth)
		}
		noteAliases(f, st.Lhs, st.Rhs)
		for _, l := range st.Lhs {
			if id, ok := l.(*ast.Ident); ok && f.aliases[id.Name] {
				continue // (re)binding the local name is not an access
			}
			if ix, ok := l.(*ast.IndexExpr); ok {
				if id, ok := ix.X.(*ast.Ident); ok && f.aliases[id.Name] {
					ps = addEv(evalExpr(f, ix.Index, ps, depth), "Wr") // element store through the alias
					continue
				}
			}
			if isSel(l, f.recv, "ts") {
				ps = addEv(ps, "Wr")
			} else if isSel(l, f.recv, "m") {
				fail(l.Pos(), "assignment to the mutex")
			} else {
				ps = evalExpr(f, l, ps, depth)
			}
		}
		return ps
	case *ast.DeclStmt:
		ast.Inspect(st, func(n ast.Node) bool {
			if vs, ok := n.(*ast.ValueSpec); ok {
				for _, v := range vs.Values {
					ps = evalExpr(f, v, ps, depth)
				}
				var lhs []ast.Expr
				for _, nm := range vs.Names {
					lhs = append(lhs, nm)
				}
				noteAliases(f, lhs, vs.Values)
				return false
			}
			return true
		})
		return ps
	case *ast.ReturnStmt:
		for _, r := range st.Results {
			ps = evalExpr(f, r, ps, depth)
		}
		for i := range ps {
			ps[i] = finish(ps[i])
		}
		return ps
	case *ast.DeferStmt:
		ev, ok := lockCall(f, st.Call)
		if !ok || !strings.HasPrefix(ev, "Rel") {
			if mentions(st.Call, f.recv) {
				fail(st.Pos(), "unsupported defer involving the bundle")
			}
			return ps
		}
		for i := range ps {
			ps[i].defers = append(ps[i].defers, ev)
		}
		return ps
	case *ast.IfStmt:
		ps = walkStmt(f, st.Init, ps, depth)
		ps = evalExpr(f, st.Cond, ps, depth)
		var thenPs, elsePs []path
		for _, p := range ps {
			thenPs = append(thenPs, p.clone())
			elsePs = append(elsePs, p.clone())
		}
		thenPs = walkStmts(f, st.Body.List, thenPs, depth)
		if st.Else != nil {
			elsePs = walkStmt(f, st.Else, elsePs, depth)
		}
		return append(thenPs, elsePs...)
	case *ast.BlockStmt:
		return walkStmts(f, st.List, ps, depth)
	case *ast.ForStmt, *ast.RangeStmt:
		var body *ast.BlockStmt
		iterReads := false
		switch l := st.(type) {
		case *ast.ForStmt:
			ps = walkStmt(f, l.Init, ps, depth)
			if l.Cond != nil {
				ps = evalExpr(f, l.Cond, ps, depth)
			}
			body = l.Body
		case *ast.RangeStmt:
			ps = evalExpr(f, l.X, ps, depth)
			body = l.Body
			// ranging over an alias of the token list reads the shared backing array in every iteration
			if _, direct := l.X.(*ast.SelectorExpr); !direct && aliasSource(f, l.X) {
				iterReads = true
			}
		}
		// 0, 1 or 2 iterations
		out := clonePaths(ps)
		cur := ps
		for it := 0; it < 2; it++ {
			if iterReads {
				cur = addEv(clonePaths(cur), "Rd")
			}
			cur = walkStmts(f, body.List, clonePaths(cur), depth)
			var next []path
			for _, p := range cur {
				if p.done {
					out = append(out, p)
					continue
				}
				p.brk = false
				next = append(next, p)
			}
			out = append(out, clonePaths(next)...)
			cur = next
			if len(cur) == 0 {
				break
			}
		}
		return out
	case *ast.SwitchStmt, *ast.TypeSwitchStmt:
		var body *ast.BlockStmt
		switch w := st.(type) {
		case *ast.SwitchStmt:
			ps = walkStmt(f, w.Init, ps, depth)
			if w.Tag != nil {
				ps = evalExpr(f, w.Tag, ps, depth)
			}
			body = w.Body
		case *ast.TypeSwitchStmt:
			ps = walkStmt(f, w.Init, ps, depth)
			ps = walkStmt(f, w.Assign, ps, depth)
			body = w.Body
		}
		out := []path{}
		hasDefault := false
		for _, c := range body.List {
			cc := c.(*ast.CaseClause)
			if cc.List == nil {
				hasDefault = true
			}
			br := clonePaths(ps)
			for _, e := range cc.List {
				br = evalExpr(f, e, br, depth)
			}
			br = walkStmts(f, cc.Body, br, depth)
			for i := range br {
				br[i].brk = false
			}
			out = append(out, br...)
		}
		if !hasDefault {
			out = append(out, clonePaths(ps)...)
		}
		return out
	case *ast.BranchStmt:
		if st.Tok == token.GOTO || st.Label != nil {
			fail(st.Pos(), "unsupported branch statement")
		}
		for i := range ps {
			ps[i].brk = true
		}
		return ps
	case *ast.IncDecStmt:
		return evalExpr(f, st.X, ps, depth)
	case *ast.EmptyStmt:
		return ps
	default:
		if mentions(s, f.recv) {
			fail(s.Pos(), "unsupported statement %T involving the bundle", s)
		}
		return ps
	}
}

func clonePaths(ps []path) []path {
	out := make([]path, len(ps))
	for i, p := range ps {
		out[i] = p.clone()
	}
	return out
}

func isSel(e ast.Expr, base, sel string) bool {
	s, ok := e.(*ast.SelectorExpr)
	if !ok || s.Sel.Name != sel {
		return false
	}
	id, ok := s.X.(*ast.Ident)
	return ok && id.Name == base
}

func mentions(n ast.Node, name string) bool {
	found := false
	ast.Inspect(n, func(x ast.Node) bool {
		if id, ok := x.(*ast.Ident); ok && id.Name == name {
			found = true
		}
		return !found
	})
	return found
}

// lockCall recognises rv.m.RLock() etc.
func lockCall(f *fn, c *ast.CallExpr) (string, bool) {
	s, ok := c.Fun.(*ast.SelectorExpr)
	if !ok || !isSel(s.X, f.recv, "m") {
		return "", false
	}
	switch s.Sel.Name {
	case "RLock":
		return "Acq R", true
	case "RUnlock":
		return "Rel R", true
	case "Lock":
		return "Acq W", true
	case "Unlock":
		return "Rel W", true
	}
	fail(c.Pos(), "unknown mutex operation %s", s.Sel.Name)
	return "", false
}

func calleeName(e ast.Expr) string {
	switch x := e.(type) {
	case *ast.Ident:
		return x.Name
	case *ast.IndexExpr:
		return calleeName(x.X)
	case *ast.IndexListExpr:
		return calleeName(x.X)
	}
	return ""
}

// evalExpr appends, in evaluation order, the events of an expression
func evalExpr(f *fn, e ast.Expr, ps []path, depth int) []path {
	switch x := e.(type) {
	case nil:
		return ps
	case *ast.CallExpr:
		if ev, ok := lockCall(f, x); ok {
			return addEv(ps, ev)
		}
		// method on the same bundle: inline
		if s, ok := x.Fun.(*ast.SelectorExpr); ok {
			if id, ok := s.X.(*ast.Ident); ok && id.Name == f.recv {
				for _, a := range x.Args {
					ps = evalExpr(f, a, ps, depth)
				}
				if callee, ok := funcs[s.Sel.Name]; ok && callee.decl.Recv != nil {
					return cross(ps, pathsOf(callee, depth+1))
				}
				fail(x.Pos(), "call of unknown bundle method %s", s.Sel.Name)
			}
			// method of the token list
			if isSel(s.X, f.recv, "ts") {
				for _, a := range x.Args {
					ps = evalExpr(f, a, ps, depth)
				}
				if !tokMethods[s.Sel.Name] {
					fail(x.Pos(), "unknown method %s of the token list", s.Sel.Name)
				}
				if tokWrites[s.Sel.Name] {
					return addEv(ps, "Wr")
				}
				return addEv(ps, "Rd")
			}
			// method of the token list called through a local alias
			if id, ok := s.X.(*ast.Ident); ok && f.aliases[id.Name] && tokMethods[s.Sel.Name] {
				for _, a := range x.Args {
					ps = evalExpr(f, a, ps, depth)
				}
				if tokWrites[s.Sel.Name] {
					return addEv(ps, "Wr")
				}
				return addEv(ps, "Rd")
			}
			// x.Apply(rv.ts): in-place filter
			if s.Sel.Name == "Apply" {
				ps = evalExpr(f, s.X, ps, depth)
				for _, a := range x.Args {
					if isSel(a, f.recv, "ts") {
						ps = addEv(ps, "Wr")
					} else {
						ps = evalExpr(f, a, ps, depth)
					}
				}
				return ps
			}
		}
		// generic helper taking the bundle first
		if n := calleeName(x.Fun); n != "" {
			if callee, ok := funcs[n]; ok && callee.decl.Recv == nil && len(x.Args) > 0 {
				if id, ok := x.Args[0].(*ast.Ident); ok && id.Name == f.recv {
					for _, a := range x.Args[1:] {
						ps = evalExpr(f, a, ps, depth)
					}
					return cross(ps, pathsOf(callee, depth+1))
				}
			}
		}
		ps = evalExpr(f, x.Fun, ps, depth)
		for _, a := range x.Args {
			ps = evalExpr(f, a, ps, depth)
		}
		return ps
	case *ast.SelectorExpr:
		if isSel(x, f.recv, "ts") {
			return addEv(ps, "Rd")
		}
		if isSel(x, f.recv, "m") || isSel(x, f.recv, "IsPermissionToken") {
			return ps
		}
		return evalExpr(f, x.X, ps, depth)
	case *ast.UnaryExpr:
		if x.Op == token.AND && isSel(x.X, f.recv, "ts") {
			return addEv(ps, "Wr")
		}
		return evalExpr(f, x.X, ps, depth)
	case *ast.FuncLit:
		if mentions(x.Body, f.recv) {
			fail(x.Pos(), "closure captures the bundle")
		}
		return ps
	case *ast.Ident:
		if f.aliases[x.Name] {
			return addEv(ps, "Rd")
		}
		if x.Name == f.recv {
			// the bundle itself escapes (passed on): not understood
			fail(x.Pos(), "bundle value escapes")
		}
		return ps
	case *ast.BasicLit:
		return ps
	case *ast.BinaryExpr:
		return evalExpr(f, x.Y, evalExpr(f, x.X, ps, depth), depth)
	case *ast.ParenExpr:
		return evalExpr(f, x.X, ps, depth)
	case *ast.StarExpr:
		return evalExpr(f, x.X, ps, depth)
	case *ast.IndexExpr:
		return evalExpr(f, x.Index, evalExpr(f, x.X, ps, depth), depth)
	case *ast.IndexListExpr:
		return evalExpr(f, x.X, ps, depth)
	case *ast.SliceExpr:
		ps = evalExpr(f, x.X, ps, depth)
		ps = evalExpr(f, x.Low, ps, depth)
		ps = evalExpr(f, x.High, ps, depth)
		return evalExpr(f, x.Max, ps, depth)
	case *ast.TypeAssertExpr:
		return evalExpr(f, x.X, ps, depth)
	case *ast.CompositeLit:
		for _, el := range x.Elts {
			if kv, ok := el.(*ast.KeyValueExpr); ok {
				ps = evalExpr(f, kv.Value, ps, depth)
			} else {
				ps = evalExpr(f, el, ps, depth)
			}
		}
		return ps
	case *ast.KeyValueExpr:
		return evalExpr(f, x.Value, ps, depth)
	case *ast.ArrayType, *ast.MapType, *ast.FuncType, *ast.InterfaceType, *ast.StructType, *ast.ChanType, *ast.Ellipsis:
		return ps
	default:
		if mentions(e, f.recv) {
			fail(e.Pos(), "unsupported expression %T involving the bundle", e)
		}
		return ps
	}
}
