//go:build verif

package main

import (
	"bytes"
	"context"
	"encoding/json"
	"fmt"
	"net/http"
	"net/http/httptest"
	"strings"
	"sync"
	"sync/atomic"
	"time"

	"github.com/superfly/macaroon"
	"github.com/superfly/macaroon/tp"

	"verifharness/internal/coqw"
	"verifharness/internal/cs"
	"verifharness/internal/rng"
	"verifharness/internal/sym"
)

func init() { props["C16"] = genC16 }

const (
	c16TPLoc    = "https://tp.test"
	c16First    = "https://first.test"
	c16UserPref = "/user/"
)

type c16World struct {
	tp      *tp.TP
	key     macaroon.SigningKey
	ka      macaroon.EncryptionKey
	roots   []*macaroon.Macaroon
	tickets [][]byte
	foreign []byte
	pollSec []string // per created flow
	userSec []string
	appRan  bool
	appOK   bool
	lastCtx context.Context // context of the latest request that reached the application (carries that request's flow data)
	cavFail string
}

func cavList(ids []uint64) []macaroon.Caveat {
	var o []macaroon.Caveat
	for _, id := range ids {
		o = append(o, sym.Table[id]())
	}
	return o
}

func nl(ids []uint64) string { return coqw.ListOf(ids, coqw.N) }

func newC16World(r *rng.R) *c16World {
	w := &c16World{key: macaroon.NewSigningKey(), ka: macaroon.NewEncryptionKey()}
	store, _ := tp.NewMemoryStore(tp.PrefixMunger(c16UserPref), 1000)
	w.tp = &tp.TP{Location: c16TPLoc, Key: w.ka, Store: store}
	if r.P(1, 3) {
		w.tp.Location = c16TPLoc + "/" // the same third party written with a trailing slash: URLs it hands out must not double it
	}
	for i := 0; i < 3; i++ {
		m, _ := macaroon.New([]byte{byte(i)}, c16First, w.key)
		m.Add(sym.Table[0]())
		m.Add3P(w.ka, c16TPLoc, &macaroon.ValidityWindow{NotBefore: int64(i), NotAfter: 1 << 41}) // the ticket's own caveats: distinct per ticket
		w.roots = append(w.roots, m)
		w.tickets = append(w.tickets, m.TicketsForThirdParty(c16TPLoc)[0])
	}
	o, _ := macaroon.New([]byte{9}, c16First, w.key)
	oka := macaroon.NewEncryptionKey()
	o.Add3P(oka, c16TPLoc)
	w.foreign = o.TicketsForThirdParty(c16TPLoc)[0]
	// the other third party (same process, its own key) has opened and served that ticket before: this service, with its
	// key, still cannot open it
	for k := 0; k < 3; k++ {
		if _, _, err := macaroon.DischargeTicket(oka, c16TPLoc, w.foreign); err != nil {
			panic("setup: the rightful third party cannot open its ticket: " + err.Error())
		}
	}
	return w
}

// checkTicketCaveats: what the application is shown as "the caveats of the ticket of this request's flow" are that
// ticket's caveats (ticket i carries ValidityWindow{NotBefore: i}); want < 0: any one of the known tickets
func (w *c16World) checkTicketCaveats(rq *http.Request, want int64) {
	cavs, err := tp.CaveatsFromRequest(rq)
	if w.cavFail != "" {
		return
	}
	if err != nil {
		w.cavFail = "CaveatsFromRequest fails inside the application handler: " + err.Error()
		return
	}
	if len(cavs) != 1 {
		w.cavFail = fmt.Sprintf("CaveatsFromRequest returns %d caveats, the ticket carries 1", len(cavs))
		return
	}
	vw, ok := cavs[0].(*macaroon.ValidityWindow)
	if !ok || vw.NotBefore < 0 || vw.NotBefore > 2 || (want >= 0 && vw.NotBefore != want) {
		w.cavFail = fmt.Sprintf("CaveatsFromRequest returns %v, not the caveats of ticket %d", cavs[0], want)
	}
}

// classify a JSON response body
func (w *c16World) bodyObs(status int, body []byte, app bool) []int64 {
	var jr struct {
		Error           string `json:"error"`
		Discharge       string `json:"discharge"`
		PollURL         string `json:"poll_url"`
		UserInteractive *struct {
			PollURL string `json:"poll_url"`
			UserURL string `json:"user_url"`
		} `json:"user_interactive"`
	}
	json.Unmarshal(body, &jr)
	switch {
	case jr.Discharge != "":
		toks, err := macaroon.Parse(jr.Discharge)
		if err != nil || len(toks) != 1 {
			return []int64{int64(status), b2i64(app), 9, 0}
		}
		// which root token does it discharge, and which caveats does it add
		which, n := int64(99), 0
		var ids []int64
		for i, root := range w.roots {
			rc, _ := root.Clone()
			set, err := rc.Verify(w.key, toks, map[string][]macaroon.EncryptionKey{c16TPLoc: {w.ka}})
			if err == nil {
				n++
				which = int64(i)
				ids = nil
				for _, c := range set.Caveats[1:] { // [0] is the root's own caveat
					ids = append(ids, symID(c))
				}
			}
		}
		if n != 1 {
			which = 99
		}
		out := []int64{int64(status), b2i64(app), 1, which, int64(len(ids))}
		return append(out, ids...)
	case jr.PollURL != "" || jr.UserInteractive != nil:
		kind := int64(10)
		pu := jr.PollURL
		us := ""
		if jr.UserInteractive != nil {
			kind = 11
			pu = jr.UserInteractive.PollURL
			us = strings.TrimPrefix(jr.UserInteractive.UserURL, c16UserPref)
		}
		if want := c16TPLoc + tp.PollPathPrefix; !strings.HasPrefix(pu, want) || strings.Contains(pu[len("https://"):], "//") || len(pu) <= len(want) {
			if w.cavFail == "" {
				w.cavFail = fmt.Sprintf("poll URL %q handed out by the third party at %q is not %q + secret", pu, w.tp.Location, want)
			}
		}
		w.pollSec = append(w.pollSec, pu[strings.LastIndex(pu, "/")+1:])
		w.userSec = append(w.userSec, us)
		return []int64{int64(status), kind, int64(len(w.pollSec) - 1)}
	case strings.HasPrefix(jr.Error, "msg"):
		var m int64
		fmt.Sscanf(jr.Error, "msg%d", &m)
		return []int64{int64(status), b2i64(app), 2, m}
	case jr.Error == "not found" && status == 404:
		return []int64{404, b2i64(app)}
	case status == 500:
		return []int64{500, b2i64(app)}
	case status == 202:
		return []int64{202}
	}
	return []int64{int64(status), b2i64(app), 7}
}

func b2i64(b bool) int64 {
	if b {
		return 1
	}
	return 0
}

func symID(c macaroon.Caveat) int64 {
	b, err := macaroon.NewCaveatSet(c).MarshalMsgpack()
	if err != nil {
		return 998
	}
	for i, f := range sym.Table {
		bb, _ := macaroon.NewCaveatSet(f()).MarshalMsgpack()
		if bytes.Equal(b, bb) {
			return int64(i)
		}
	}
	return 999
}

type c16Act struct {
	Kind    string
	T       string // tref kind
	TI      uint64
	Mode    string
	Cavs    []uint64
	Status  uint64
	Msg     uint64
	S       string // sref kind
	F       uint64
	Dec     string
	Refused bool // Go-side only: scripted approval whose caveat list the discharge cannot take (see the refused-caveats branch)
	InCtx   bool // background decision made with the context of the latest request the application handled (another flow's, usually)
}

func (a c16Act) tref() string {
	switch a.T {
	case "TValid", "TTampered":
		return coqw.App(a.T, coqw.N(a.TI))
	}
	return a.T
}
func (a c16Act) sref() string {
	if a.S == "SGuess" {
		return "SGuess"
	}
	return coqw.App(a.S, coqw.N(a.F))
}
func (a c16Act) Coq() string {
	switch a.Kind {
	case "AInit":
		var m string
		switch a.Mode {
		case "MImmediate":
			m = coqw.App("MImmediate", nl(a.Cavs))
		case "MError":
			m = coqw.App("MError", coqw.N(a.Status), coqw.N(a.Msg))
		default:
			m = a.Mode
		}
		return coqw.App("AInit", a.tref(), m)
	case "APoll":
		return coqw.App("APoll", a.sref())
	case "AUserVisit":
		var d string
		switch a.Dec {
		case "DApprove":
			d = coqw.App("DApprove", nl(a.Cavs))
		case "DAbort":
			d = coqw.App("DAbort", coqw.N(a.Msg))
		default:
			d = "DNone"
		}
		return coqw.App("AUserVisit", a.sref(), d)
	case "AApprovePoll", "AApproveUser":
		return coqw.App(a.Kind, a.sref(), nl(a.Cavs))
	case "AAbortPoll", "AAbortUser":
		return coqw.App(a.Kind, a.sref(), coqw.N(a.Msg))
	}
	panic("c16Act")
}

func (w *c16World) secret(a c16Act, r *rng.R) string {
	switch a.S {
	case "SPoll":
		return w.pollSec[a.F]
	case "SUser":
		return w.userSec[a.F]
	}
	return fmt.Sprintf("%x", r.Bytes(16))
}

func (w *c16World) do(a c16Act, r *rng.R) []int64 {
	ctx := context.Background()
	if a.InCtx && w.lastCtx != nil {
		// the application decides about the flow named by the secret while serving a request of (usually) another flow:
		// the decision concerns the flow the secret names, whatever the request context carries
		ctx = w.lastCtx
	}
	switch a.Kind {
	case "AInit":
		var ticket []byte
		switch a.T {
		case "TValid":
			ticket = w.tickets[a.TI]
		case "TTampered":
			ticket = append([]byte{}, w.tickets[a.TI]...)
			ticket[len(ticket)/2] ^= 0x40
		case "TForeign":
			ticket = w.foreign
		}
		body, _ := json.Marshal(map[string]any{"ticket": ticket})
		req := httptest.NewRequest(http.MethodPost, c16TPLoc+tp.InitPath, bytes.NewReader(body))
		rec := httptest.NewRecorder()
		w.appRan = false
		app := http.HandlerFunc(func(rw http.ResponseWriter, rq *http.Request) {
			w.appRan = true
			w.lastCtx = rq.Context()
			w.checkTicketCaveats(rq, int64(a.TI))
			switch a.Mode {
			case "MImmediate":
				w.tp.RespondDischarge(rw, rq, cavList(a.Cavs)...)
			case "MPoll":
				w.tp.RespondPoll(rw, rq)
			case "MUser":
				w.tp.RespondUserInteractive(rw, rq)
			case "MError":
				w.tp.RespondError(rw, rq, int(a.Status), fmt.Sprintf("msg%d", a.Msg))
			}
		})
		w.tp.InitRequestMiddleware(app).ServeHTTP(rec, req)
		return w.bodyObs(rec.Code, rec.Body.Bytes(), w.appRan)
	case "APoll":
		req := httptest.NewRequest(http.MethodGet, c16TPLoc+tp.PollPathPrefix+w.secret(a, r), nil)
		rec := httptest.NewRecorder()
		w.tp.HandlePollRequest(rec, req)
		return w.bodyObs(rec.Code, rec.Body.Bytes(), false)
	case "AUserVisit":
		req := httptest.NewRequest(http.MethodGet, "https://tp.test"+c16UserPref+w.secret(a, r), nil)
		rec := httptest.NewRecorder()
		w.appRan, w.appOK = false, true
		app := http.HandlerFunc(func(rw http.ResponseWriter, rq *http.Request) {
			w.appRan = true
			w.lastCtx = rq.Context()
			w.checkTicketCaveats(rq, -1)
			us, err := w.tp.Store.UserSecretFromRequest(rq)
			if err != nil {
				w.appOK = false
				return
			}
			switch a.Dec {
			case "DApprove":
				w.appOK = w.tp.DischargeUserInteractive(rq.Context(), us, cavList(a.Cavs)...) == nil
			case "DAbort":
				w.appOK = w.tp.AbortUserInteractive(rq.Context(), us, fmt.Sprintf("msg%d", a.Msg)) == nil
			}
			rw.WriteHeader(200)
		})
		w.tp.UserRequestMiddleware(app).ServeHTTP(rec, req)
		if !w.appRan {
			return w.bodyObs(rec.Code, rec.Body.Bytes(), false)
		}
		return []int64{1001, 1, b2i64(w.appOK)}
	case "AApprovePoll":
		return []int64{1000, b2i64(w.tp.DischargePoll(ctx, w.secret(a, r), cavList(a.Cavs)...) == nil)}
	case "AAbortPoll":
		return []int64{1000, b2i64(w.tp.AbortPoll(ctx, w.secret(a, r), fmt.Sprintf("msg%d", a.Msg)) == nil)}
	case "AApproveUser":
		return []int64{1000, b2i64(w.tp.DischargeUserInteractive(ctx, w.secret(a, r), cavList(a.Cavs)...) == nil)}
	case "AAbortUser":
		return []int64{1000, b2i64(w.tp.AbortUserInteractive(ctx, w.secret(a, r), fmt.Sprintf("msg%d", a.Msg)) == nil)}
	}
	panic("c16 do")
}

// barrierStore forces the interleaving "both polls have looked the flow up before either deletes it" without
// changing any answer of the wrapped store.
type barrierStore struct {
	tp.Store
	mu      sync.Mutex
	arrived int
	gate    chan struct{}
	delMu   sync.Mutex
}

func (b *barrierStore) GetByPollSecret(ctx context.Context, s string) (*tp.StoreData, error) {
	sd, err := b.Store.GetByPollSecret(ctx, s)
	b.mu.Lock()
	b.arrived++
	if b.arrived == 2 {
		close(b.gate)
	}
	b.mu.Unlock()
	select {
	case <-b.gate:
	case <-time.After(2 * time.Second):
	}
	return sd, err
}

func (b *barrierStore) DeleteByPollSecret(ctx context.Context, s string) error {
	b.delMu.Lock()
	defer b.delMu.Unlock()
	return b.Store.DeleteByPollSecret(ctx, s)
}

// concurrentPollOracle: two polls racing on one approved flow deliver the discharge at most once
func concurrentPollOracle(r *rng.R) string {
	w := newC16World(r)
	w.do(c16Act{Kind: "AInit", T: "TValid", TI: 0, Mode: "MPoll"}, r)
	w.do(c16Act{Kind: "AApprovePoll", S: "SPoll", F: 0, Cavs: []uint64{1}}, r)
	bs := &barrierStore{Store: w.tp.Store, gate: make(chan struct{})}
	w.tp.Store = bs
	var wg sync.WaitGroup
	delivered := int32(0)
	codes := make([]int, 2)
	for i := 0; i < 2; i++ {
		wg.Add(1)
		go func(i int) {
			defer wg.Done()
			req := httptest.NewRequest(http.MethodGet, c16TPLoc+tp.PollPathPrefix+w.pollSec[0], nil)
			rec := httptest.NewRecorder()
			w.tp.HandlePollRequest(rec, req)
			codes[i] = rec.Code
			if strings.Contains(rec.Body.String(), "\"discharge\"") {
				atomic.AddInt32(&delivered, 1)
			}
		}(i)
	}
	wg.Wait()
	if delivered > 1 {
		return fmt.Sprintf("two polls racing on one approved flow both received the discharge (statuses %v)", codes)
	}
	return ""
}

// outsideMiddlewareOracle: the helpers that need the flow of the current request fail cleanly when no middleware ran, and a
// user URL without the configured prefix names no flow
func outsideMiddlewareOracle(r *rng.R) (fail string) {
	defer func() {
		if p := recover(); p != nil {
			fail = fmt.Sprintf("panic outside the middleware: %v", p)
		}
	}()
	w := newC16World(r)
	bare := httptest.NewRequest(http.MethodGet, c16TPLoc+"/anything", nil)
	if cavs, err := tp.CaveatsFromRequest(bare); err == nil {
		return fmt.Sprintf("CaveatsFromRequest on a request no middleware handled returns %v without error", cavs)
	}
	for name, f := range map[string]func(http.ResponseWriter, *http.Request){
		"RespondDischarge":       func(rw http.ResponseWriter, rq *http.Request) { w.tp.RespondDischarge(rw, rq) },
		"RespondPoll":            func(rw http.ResponseWriter, rq *http.Request) { w.tp.RespondPoll(rw, rq) },
		"RespondUserInteractive": func(rw http.ResponseWriter, rq *http.Request) { w.tp.RespondUserInteractive(rw, rq) },
		"RespondError":           func(rw http.ResponseWriter, rq *http.Request) { w.tp.RespondError(rw, rq, 403, "no") },
	} {
		rec := httptest.NewRecorder()
		f(rec, bare)
		var jr struct {
			Discharge string `json:"discharge"`
			PollURL   string `json:"poll_url"`
		}
		json.Unmarshal(rec.Body.Bytes(), &jr)
		if jr.Discharge != "" || jr.PollURL != "" {
			return name + " outside the middleware hands out a discharge / poll URL"
		}
		if name != "RespondError" && rec.Code != http.StatusInternalServerError {
			return fmt.Sprintf("%s outside the middleware answers %d, not an internal error", name, rec.Code)
		}
	}
	// a user-interactive flow exists; its secret presented under a path WITHOUT the configured prefix must not reach the application
	w.do(c16Act{Kind: "AInit", T: "TValid", TI: 0, Mode: "MUser"}, r)
	if len(w.userSec) == 1 && w.userSec[0] != "" {
		ran := false
		req := httptest.NewRequest(http.MethodGet, "https://tp.test/other/"+w.userSec[0], nil)
		rec := httptest.NewRecorder()
		w.tp.UserRequestMiddleware(http.HandlerFunc(func(http.ResponseWriter, *http.Request) { ran = true })).ServeHTTP(rec, req)
		if ran {
			return "a user secret presented under a path without the configured prefix reached the application"
		}
	}
	return ""
}

func genC16(c *ctx) {
	st := c.set.Stream("tp-hist", "Corr.RunT", "run_cases", 200)
	if f := outsideMiddlewareOracle(c.r.Fork()); f != "" {
		st.Add(&cs.Case{Coq: "(KTP [] [])", Class: "outside-middleware", Nontrivial: true, Desc: map[string]any{"what": "helpers called without a middleware; user URL without the prefix"}, OracleFail: f})
	}
	n := 400
	if c.thorough {
		n = 10000
	}
	for i := 0; i < 3; i++ {
		if f := concurrentPollOracle(c.r.Fork()); f != "" {
			st.Add(&cs.Case{Coq: "(KTP [] [])", Class: "concurrent-polls", Nontrivial: true, Desc: map[string]any{"what": "two polls race on one approved flow (lookups before deletes)"}, OracleFail: f})
			break
		}
	}
	cavPool := []uint64{1, 2, 6, 7, 13, 14}
	// round 8: after the n random histories, a fixed block of scripted ones from their own generator (so the streams of the
	// random histories do not move): a flow is decided (aborted or approved), THEN the application attempts an approval whose
	// caveats the discharge refuses, on the same flow; the stored decision must survive the failed attempt and be collected once
	const refusedAfterDecision = 16
	for i := 0; i < n+refusedAfterDecision; i++ {
		var r *rng.R
		if i < n {
			r = c.r.Fork()
		} else {
			r = rng.New(0xC16A8000 + uint64(i-n))
		}
		w := newC16World(r)
		var acts []c16Act
		var obs [][]int64
		var desc []string
		// approvals[f] = pending decision? used by the implementation-side oracle
		approved := map[uint64]bool{}
		oracle := ""
		randCavs := func() []uint64 {
			var o []uint64
			seen := map[uint64]bool{}
			for k := r.Intn(3); k > 0; k-- {
				id := rng.Pick(r, cavPool)
				if !seen[id] {
					seen[id] = true
					o = append(o, id)
				}
			}
			return o
		}
		sref := func(kind string) (string, uint64) {
			nf := len(w.pollSec)
			if nf == 0 || r.P(1, 7) {
				return "SGuess", 0
			}
			f := uint64(r.Intn(nf))
			k := kind
			if r.P(1, 6) { // crossed secret
				if k == "SPoll" {
					k = "SUser"
				} else {
					k = "SPoll"
				}
			}
			if k == "SUser" && w.userSec[f] == "" {
				k = "SPoll" // the user secret of a poll-only flow was never disclosed
				if kind == "SUser" {
					return "SGuess", 0
				}
			}
			return k, f
		}
		steps := 3 + r.Intn(10)
		// scripted opening for one history in five: two background flows pending at once, both decided before either is
		// collected, then both collected (stored answers must not interfere); the random steps follow
		var script []c16Act
		if r.P(1, 5) {
			m1, m2 := rng.Pick(r, []string{"MPoll", "MUser"}), rng.Pick(r, []string{"MPoll", "MUser"})
			decide := func(f uint64, mode string) c16Act {
				kinds := []string{"AApprovePoll", "AAbortPoll"}
				sk := "SPoll"
				if mode == "MUser" && r.Bool() {
					kinds, sk = []string{"AApproveUser", "AAbortUser"}, "SUser"
				}
				return c16Act{Kind: rng.Pick(r, kinds), Cavs: randCavs(), Msg: uint64(r.Intn(5)), S: sk, F: f, InCtx: r.Bool()}
			}
			script = []c16Act{
				{Kind: "AInit", T: "TValid", TI: 0, Mode: m1},
				{Kind: "AInit", T: "TValid", TI: 1, Mode: m2},
				decide(0, m1), decide(1, m2),
				{Kind: "APoll", S: "SPoll", F: 0}, {Kind: "APoll", S: "SPoll", F: 1},
				{Kind: "APoll", S: "SPoll", F: 0},
			}
			if r.Bool() {
				script[4], script[5] = script[5], script[4]
			}
			steps += len(script)
		}
		if i >= n {
			j := i - n
			mode := []string{"MPoll", "MUser"}[j%2]
			first := []string{"AAbortPoll", "AApprovePoll"}[(j/2)%2]
			refK, refS := "AApprovePoll", "SPoll"
			if mode == "MUser" && (j/4)%2 == 1 {
				refK, refS = "AApproveUser", "SUser"
			}
			script = []c16Act{
				{Kind: "AInit", T: "TValid", TI: 0, Mode: mode},
				{Kind: first, Cavs: randCavs(), Msg: uint64(j % 5), S: "SPoll", F: 0},
				{Kind: refK, Cavs: randCavs(), S: refS, F: 0, Refused: true},
				{Kind: "APoll", S: "SPoll", F: 0}, {Kind: "APoll", S: "SPoll", F: 0},
			}
			if (j/8)%2 == 1 { // the refused attempt twice, and a second flow opened in between
				script = append(script[:3], append([]c16Act{{Kind: "AInit", T: "TValid", TI: 1, Mode: "MPoll"}, {Kind: refK, Cavs: randCavs(), S: refS, F: 0, Refused: true}}, script[3:]...)...)
			}
			steps = len(script) + r.Intn(4)
		}
		for k := 0; k < steps; k++ {
			var a c16Act
			if k < len(script) {
				a = script[k]
			} else {
				switch x := r.Intn(12); {
				case x < 3:
					a = c16Act{Kind: "AInit", T: "TValid", TI: uint64(r.Intn(3)), Mode: rng.Pick(r, []string{"MPoll", "MUser", "MPoll", "MUser", "MImmediate", "MError"})}
					if r.P(1, 5) {
						a.T = rng.Pick(r, []string{"TTampered", "TForeign", "TEmpty"})
					}
					a.Cavs, a.Status, a.Msg = randCavs(), rng.Pick(r, []uint64{400, 403, 500}), uint64(r.Intn(5))
				case x < 6:
					a = c16Act{Kind: "APoll"}
					a.S, a.F = sref("SPoll")
				case x < 8:
					a = c16Act{Kind: "AUserVisit", Dec: rng.Pick(r, []string{"DApprove", "DAbort", "DNone"}), Cavs: randCavs(), Msg: uint64(r.Intn(5))}
					a.S, a.F = sref("SUser")
				case x < 10:
					a = c16Act{Kind: rng.Pick(r, []string{"AApprovePoll", "AAbortPoll"}), Cavs: randCavs(), Msg: uint64(r.Intn(5)), InCtx: r.Bool()}
					a.S, a.F = sref("SPoll")
				default:
					a = c16Act{Kind: rng.Pick(r, []string{"AApproveUser", "AAbortUser"}), Cavs: randCavs(), Msg: uint64(r.Intn(5)), InCtx: r.Bool()}
					a.S, a.F = sref("SUser")
				}
			}
			// caveats the discharge cannot take (table entry 5: a conditional wrapping an attestation): the decision fails as a
			// whole. Immediate mode has no model action for it (nothing is stored either way): it is run on the implementation
			// only and must answer an internal error without releasing anything. A background approval with such caveats
			// behaves like an approval for an unknown secret (fails, changes nothing), which is the action the model is given.
			if (a.Refused || (k >= len(script) && r.P(1, 8))) && (a.Kind == "AApprovePoll" || a.Kind == "AApproveUser" || (a.Kind == "AInit" && a.Mode == "MImmediate" && a.T == "TValid")) {
				bad := a
				bad.Cavs = append(append([]uint64{}, a.Cavs...), 5)
				if r.Bool() {
					bad.Cavs = append([]uint64{5}, a.Cavs...)
				}
				ob := w.do(bad, r)
				if bad.Kind == "AInit" {
					if !(len(ob) >= 1 && ob[0] == 500) && oracle == "" {
						oracle = fmt.Sprintf("immediate discharge with a caveat list the discharge refuses answered %v instead of an internal error (a discharge carrying only part of the application's caveats was released?)", ob)
					}
					continue
				}
				a = c16Act{Kind: bad.Kind, Cavs: bad.Cavs, S: "SGuess", InCtx: bad.InCtx}
				acts = append(acts, a)
				obs = append(obs, ob)
				desc = append(desc, fmt.Sprintf("%s (refused caveats on flow %d) -> %v", a.Coq(), bad.F, ob))
				continue
			}
			ob := w.do(a, r)
			acts = append(acts, a)
			obs = append(obs, ob)
			desc = append(desc, fmt.Sprintf("%s -> %v", a.Coq(), ob))
			// implementation-side oracle: a poll never delivers a discharge for a flow nobody approved
			switch a.Kind {
			case "AApprovePoll", "AApproveUser":
				if ob[1] == 1 {
					approved[a.F] = true
				}
			case "AUserVisit":
				if a.Dec == "DApprove" && len(ob) == 3 && ob[2] == 1 {
					approved[a.F] = true
				}
			case "APoll":
				if len(ob) > 2 && ob[2] == 1 && a.S == "SPoll" && !approved[a.F] && oracle == "" {
					oracle = fmt.Sprintf("poll on flow %d delivered a discharge although the application never approved it", a.F)
				}
				if len(ob) > 2 && ob[2] == 1 && a.S != "SPoll" && oracle == "" {
					oracle = "a guessed or crossed secret obtained a discharge"
				}
			}
		}
		if oracle == "" {
			oracle = w.cavFail
		}
		st.Add(&cs.Case{
			Coq:        coqw.App("KTP", coqw.ListOf(acts, c16Act.Coq), sym.ObsCoq(obs)),
			Desc:       map[string]any{"history": desc},
			Class:      fmt.Sprintf("hist/%dsteps", steps),
			Nontrivial: len(w.pollSec) > 0,
			OracleFail: oracle,
		})
	}
	genLRUStore(c, st) // the same service over a MemoryStore of 1..6 keys (c16_lru.go): case kind KTPLRU
}
