//go:build verif

package main

// C13, object sharing: scenarios in which bundles derived by Select stay LIVE and are mutated (Attenuate, Verify,
// AddTokens, Filter, Discharge) together with their parents, in every order, with nested derivations and Clones in
// between.  After every step every live bundle is observed (Validate for every request, Header, Len, Count of
// verified tokens).  The cases are evaluated by the heap model (coq/Model/BundleHeap.v, [hrun]) -- case kind KBunH.

import (
	"context"
	"fmt"
	"sort"
	"strings"

	"github.com/superfly/macaroon"
	"github.com/superfly/macaroon/bundle"
	"github.com/superfly/macaroon/flyio"
	"github.com/superfly/macaroon/resset"

	"verifharness/internal/coqw"
	"verifharness/internal/cs"
	"verifharness/internal/rng"
)

// hScen is one heap scenario being built: the concrete bundles and the op / observation lists
type hScen struct {
	w      *bWorld
	r      *rng.R
	ops    []string
	obs    [][]int64
	desc   []string
	nslots uint64
	live   []uint64 // slots that hold a bundle, in creation order
	// attenuation-table conflicts: (verified set, caveat list) is not a function when a wrapper is stale (see recordAttH)
	conflicts int
	stale     string // first observation of a bundle whose decision disagrees with its own header (what finding F15 was)
}

func (h *hScen) rec(op string, ob []int64) {
	h.ops = append(h.ops, op)
	h.obs = append(h.obs, ob)
	h.desc = append(h.desc, fmt.Sprintf("%s -> %v", op, ob))
}

func (h *hScen) newSlot(b *bundle.Bundle) uint64 {
	s := h.nslots
	h.nslots++
	h.w.slots[s] = b
	h.live = append(h.live, s)
	return s
}

func (h *hScen) setSlot(s uint64, b *bundle.Bundle) {
	h.w.slots[s] = b
	// the model's bput moves the slot to the front; only membership matters here
	for _, x := range h.live {
		if x == s {
			return
		}
	}
	h.live = append(h.live, s)
}

func (h *hScen) toksOf(hdr string) string {
	all, _ := bundle.ParseBundleWithFilter(bLocs[0], hdr, bundle.KeepAll)
	var ts []string
	bundle.ForEach(all, func(t bundle.Token) { ts = append(ts, h.w.tokCoq(t)) })
	return coqw.List(ts)
}

func (h *hScen) parse(hdr string, keepAll bool) uint64 {
	ts := h.toksOf(hdr)
	s := h.nslots
	if keepAll {
		b, err := bundle.ParseBundleWithFilter(bLocs[0], hdr, bundle.KeepAll)
		h.newSlot(b)
		h.rec(coqw.App("BParseAll", coqw.N(s), ts), []int64{b2i64x(err == nil)})
	} else {
		b, err := bundle.ParseBundle(bLocs[0], hdr)
		h.newSlot(b)
		h.rec(coqw.App("BParse", coqw.N(s), ts), []int64{b2i64x(err == nil)})
	}
	return s
}

// observe every live bundle: the decisions for all requests, the header, the length, the number of verified tokens
func (h *hScen) observeAll() {
	w := h.w
	for _, s := range h.live {
		b := w.slots[s]
		for q := range w.reqs {
			h.rec(coqw.App("BValidate", coqw.N(s), coqw.N(uint64(q))), []int64{b2i64x(b.Validate(w.reqs[q]) == nil)})
		}
		h.rec(coqw.App("BHeader", coqw.N(s)), w.headerObs(b))
		h.rec(coqw.App("BLen", coqw.N(s)), []int64{int64(b.Len())})
		h.rec(coqw.App("BCount", coqw.N(s), "PVerified"), []int64{int64(b.Count(bundle.IsVerifiedMacaroon))})
		h.staleOracle(s, b)
	}
}

// implementation-side oracle (hard; it found F15): whatever a bundle clears must also be cleared by the tokens it PRINTS
// (its own Header(), parsed and verified afresh with the same keys).  Fails exactly when a *VerifiedMacaroon's Caveats
// lag behind the string of the *UnverifiedMacaroon it embeds.
func (h *hScen) staleOracle(s uint64, b *bundle.Bundle) {
	if h.stale != "" {
		return
	}
	w := h.w
	// the tokens b prints, plus every discharge the scenario has seen: a derived bundle may hold a verified token without
	// the discharges it was verified with (Select(permission tokens)); that is inheritance of the verified state, not
	// staleness.  Two different discharges for one ticket would make "verified afresh" ambiguous (F7b): skip then.
	hdr := b.Header()
	have := map[string]bool{}
	byTicket := map[string]int{}
	note := func(t bundle.Macaroon) {
		if t.Location() == bLocs[0] || have[t.String()] {
			return
		}
		have[t.String()] = true
		byTicket[string(t.Nonce().KID)]++
	}
	bundle.ForEach(b, note)
	var extra []string
	ids := make([]uint64, 0, len(w.strs))
	for id := range w.strs {
		ids = append(ids, id)
	}
	sort.Slice(ids, func(a, c int) bool { return ids[a] < ids[c] })
	for _, id := range ids { // every token string the scenario has seen so far
		str := w.strs[id]
		if m := macOf(str); m != nil && m.Location != bLocs[0] && !have[str] {
			have[str] = true
			byTicket[string(m.Nonce.KID)]++
			extra = append(extra, str)
		}
	}
	for _, n := range byTicket {
		if n > 1 {
			return
		}
	}
	if hdr == "" {
		return
	}
	fresh, _ := bundle.ParseBundleWithFilter(bLocs[0], strings.Join(append([]string{hdr}, extra...), ","), bundle.KeepAll)
	fresh.Verify(context.Background(), w.resolver())
	for q := range w.reqs {
		if b.Validate(w.reqs[q]) == nil && fresh.Validate(w.reqs[q]) != nil {
			h.stale = fmt.Sprintf("after step %d: bundle in slot %d clears request %d, but the tokens of its own Header(), verified afresh (with every discharge in the scenario), do not", len(h.ops), s, q)
			return
		}
	}
}

func (h *hScen) verify(s uint64) {
	w := h.w
	b := w.slots[s]
	w.recordDirect(b)
	sets, _ := b.Verify(context.Background(), w.resolver())
	var ids []uint64
	for _, set := range sets {
		ids = append(ids, w.csID(set))
	}
	h.rec(coqw.App("BVerify", coqw.N(s)), zl(ids))
}

// recordAttH: like recordAtt, for the permission tokens of b, but refuses (returns false, records nothing) when an entry
// of the verified-set table would CHANGE: the table is keyed by (verified set, caveat list), while what Attenuate appends
// to a wrapper is "the caveats Add really appended to the TOKEN": two different tokens can have the same verified set
// (one carries a caveat itself, the other gets it from its discharge), and then a duplicate is skipped for one and
// appended for the other.  (Before the repair of F15 a wrapper lagging behind its token produced this, too.)
func (w *bWorld) recordAttH(b *bundle.Bundle, cl uint64) bool {
	at := map[string]string{}
	cst := map[string]string{}
	ok := true
	bundle.ForEach(b, func(t bundle.Macaroon) {
		if t.Location() != bLocs[0] {
			return
		}
		key := fmt.Sprintf("%d/%d", w.id(t.String()), cl)
		m := macOf(t.String())
		before := len(m.UnsafeCaveats.Caveats)
		err := m.Add(w.cavLists[cl]...)
		res := "None"
		if err == nil {
			s, _ := m.String()
			res = "(Some " + coqw.N(w.id(s)) + ")"
			if vm, isV := t.(*bundle.VerifiedMacaroon); isV {
				old := w.csID(vm.Caveats)
				cp, _ := vm.Caveats.Clone()
				cp.Caveats = append(cp.Caveats, m.UnsafeCaveats.Caveats[before:]...)
				k := fmt.Sprintf("%d/%d", old, cl)
				v := coqw.Pair(coqw.Pair(coqw.N(old), coqw.N(cl)), coqw.N(w.csID(cp)))
				if prev, have := w.cst[k]; have && prev != v {
					ok = false
				}
				if prev, have := cst[k]; have && prev != v {
					ok = false
				}
				cst[k] = v
			}
		}
		v := coqw.Pair(coqw.Pair(coqw.N(w.id(t.String())), coqw.N(cl)), res)
		if prev, have := w.at[key]; have && prev != v {
			ok = false
		}
		at[key] = v
	})
	if !ok {
		return false
	}
	for k, v := range at {
		w.at[k] = v
	}
	for k, v := range cst {
		w.cst[k] = v
	}
	return true
}

func (h *hScen) attenuate(s, cl uint64) {
	w := h.w
	b := w.slots[s]
	if !w.recordAttH(b, cl) {
		h.conflicts++
		return
	}
	err := b.Attenuate(w.cavLists[cl]...)
	h.rec(coqw.App("BAttenuate", coqw.N(s), coqw.N(cl)), []int64{b2i64x(err == nil)})
}

func (h *hScen) discharge(s, tp uint64, good bool) {
	w, r := h.w, h.r
	b := w.slots[s]
	key := w.tpKeys[bLocs[tp]]
	if !good {
		key = macaroon.NewEncryptionKey()
	}
	bundle.ForEach(b, func(t bundle.Token) { w.tokCoq(t) })
	for _, tk := range b.UndischargedTicketsForThirdParty(bLocs[tp]) {
		if _, _, derr := macaroon.DischargeTicket(key, bLocs[tp], tk); derr != nil {
			good = false
		}
	}
	first := w.nextID
	before := b.Len()
	cb := func(cv []macaroon.Caveat) ([]macaroon.Caveat, error) { return nil, nil }
	if len(b.UndischargedTicketsForThirdParty(bLocs[tp])) > 0 && r.P(1, 6) {
		cb = func([]macaroon.Caveat) ([]macaroon.Caveat, error) { return nil, fmt.Errorf("user said no") }
		good = false
	}
	err := b.Discharge(bLocs[tp], key, cb)
	idx := 0
	bundle.ForEach(b, func(t bundle.Token) {
		if idx >= before {
			w.id(t.String())
		}
		idx++
	})
	h.rec(coqw.App("BDischarge", coqw.N(s), coqw.N(tp), coqw.Bool(good), coqw.N(first)), []int64{b2i64x(err == nil)})
}

var hPreds = []string{"PAll", "PAll", "PPerm", "PPerm", "PNotPerm", "PWellFormed", "PVerified", "PNonMac", "PLoc", "PHas3P", "PNone"}

// derive: Select into a slot (a new one, or rarely an existing one -- also the source itself)
func (h *hScen) derive(s uint64) uint64 {
	w, r := h.w, h.r
	b := w.slots[s]
	dst := h.nslots
	fresh := true
	if r.P(1, 8) && len(h.live) > 1 {
		dst = rng.Pick(r, h.live)
		fresh = false
	}
	if r.P(1, 4) {
		f, fc := w.randFilt(r, b, 2)
		nb := b.Select(f)
		if fresh {
			h.newSlot(nb)
		} else {
			h.setSlot(dst, nb)
		}
		h.rec(coqw.App("BSelectF", coqw.N(dst), coqw.N(s), fc), nil)
		return dst
	}
	p, pc := predOf(rng.Pick(r, hPreds), uint64(r.Intn(4)))
	nb := b.Select(p)
	if fresh {
		h.newSlot(nb)
	} else {
		h.setSlot(dst, nb)
	}
	h.rec(coqw.App("BSelect", coqw.N(dst), coqw.N(s), pc), nil)
	return dst
}

func (h *hScen) filter(s uint64) {
	w, r := h.w, h.r
	b := w.slots[s]
	if r.P(1, 4) {
		f, fc := w.randFilt(r, b, 2)
		b.Filter(f)
		h.rec(coqw.App("BFilterF", coqw.N(s), fc), nil)
		return
	}
	p, pc := predOf(rng.Pick(r, []string{"PAll", "PPerm", "PWellFormed", "PVerified", "PNotPerm", "PLoc", "PHas3P"}), uint64(r.Intn(4)))
	b.Filter(p)
	h.rec(coqw.App("BFilter", coqw.N(s), pc), nil)
}

func (h *hScen) clone(s uint64) uint64 {
	d := h.nslots
	h.newSlot(h.w.slots[s].Clone())
	h.rec(coqw.App("BClone", coqw.N(d), coqw.N(s)), nil)
	return d
}

func (h *hScen) add(s uint64, hdr string) {
	ts := h.toksOf(hdr)
	err := h.w.slots[s].AddTokens(hdr)
	h.rec(coqw.App("BAdd", coqw.N(s), ts), []int64{b2i64x(err == nil)})
}

// mutate: one mutating (or deriving) operation on slot s, chosen by k
func (h *hScen) mutate(s uint64, k int, hdrs func() string) {
	r := h.r
	switch k {
	case 0:
		h.attenuate(s, uint64(r.Intn(4)))
	case 1:
		h.verify(s)
	case 2:
		h.add(s, hdrs())
	case 3:
		h.filter(s)
	case 4:
		h.discharge(s, uint64(1+r.Intn(2)), !r.P(1, 5))
	case 5:
		h.derive(s)
	case 6:
		h.clone(s)
	}
}

func genBundleHeap(c *ctx, st *cs.Stream) {
	n := 360
	if c.thorough {
		n = 5000
	}
	// the scripted scenarios that reproduced finding F15 before its repair: now plain regression cases
	for v := 0; v < 4; v++ {
		regressionF15(c, st, v)
	}
	totalConf, totalStale, nPairs := 0, 0, 0
	for i := 0; i < n; i++ {
		r := c.r.Fork()
		w := newBWorld(r)
		perms, dis, junk := w.pool()
		for _, ps := range perms {
			if m := macOf(ps); m != nil {
				for _, c3 := range macaroon.GetCaveats[*macaroon.Caveat3P](&m.UnsafeCaveats) {
					w.ticketID(c3.Ticket)
				}
			}
		}
		h := &hScen{w: w, r: r}
		// headers: mostly genuine tokens (so that verification and attenuation matter), their discharges, some junk.
		// d1 and the same-nonce variants are all valid for p1's ticket: at most one of them per header (F7b)
		good := []string{perms[0], perms[1], perms[2], perms[3], perms[7], w.p5, w.pbare}
		group := map[string]bool{dis[0]: true, w.sameNonce[0]: true, w.sameNonce[1]: true}
		hdr := func(forAdd bool) string {
			var parts []string
			for k := 1 + r.Intn(3); k > 0; k-- {
				if r.P(1, 5) {
					parts = append(parts, rng.Pick(r, perms))
				} else {
					parts = append(parts, rng.Pick(r, good))
				}
			}
			used := forAdd
			for k := r.Intn(4); k > 0; k-- {
				d := rng.Pick(r, dis)
				if r.Bool() {
					d = rng.Pick(r, dis[:3])
				}
				if group[d] {
					if used {
						continue
					}
					used = true
				}
				parts = append(parts, d)
			}
			if r.P(1, 3) {
				parts = append(parts, rng.Pick(r, junk))
			}
			r2 := r.Fork()
			sort.Slice(parts, func(a, b int) bool { return r2.Bool() })
			s := strings.Join(parts, ",")
			if r.Bool() {
				s = "FlyV1 " + s
			}
			return s
		}
		addHdr := func() string { return hdr(true) }
		class := ""
		P := h.parse(hdr(false), r.P(1, 6))
		h.observeAll()
		switch i % 6 {
		case 0, 1:
			// Select first, then two mutations in both orders on parent and derived bundle
			class = "select-then-mutate"
			D := h.derive(P)
			h.observeAll()
			// every pair of {Attenuate, Verify, AddTokens, Filter, Discharge} x both orders of (parent, derived), in turn
			j := nPairs
			nPairs++
			k1, k2 := j%5, (j/5)%5
			a, b := P, D
			if (j/25)%2 == 1 {
				a, b = D, P
			}
			class = fmt.Sprintf("select-then-mutate/%d-%d-%d", k1, k2, (j/25)%2)
			h.mutate(a, k1, addHdr)
			h.observeAll()
			h.mutate(b, k2, addHdr)
			h.observeAll()
		case 2:
			// Verify, Select, then Attenuate through one and observe through the other; re-verify one side; attenuate again
			class = "verify-select-attenuate"
			h.verify(P)
			D := h.derive(P)
			h.observeAll()
			a, b := P, D
			if r.Bool() {
				a, b = D, P
			}
			h.attenuate(a, uint64(r.Intn(4)))
			h.observeAll()
			h.verify(b)
			h.observeAll()
			h.attenuate(rng.Pick(r, []uint64{a, b}), uint64(r.Intn(4)))
			h.observeAll()
		case 3:
			// Select, Verify on ONE side, Attenuate through the other (the alias that bypasses the wrapper), verify the other
			class = "select-verify-one-side"
			D := h.derive(P)
			a, b := P, D
			if r.Bool() {
				a, b = D, P
			}
			h.verify(a)
			h.observeAll()
			h.attenuate(b, uint64(r.Intn(4)))
			h.observeAll()
			h.attenuate(a, uint64(r.Intn(4)))
			h.observeAll()
			h.verify(b)
			h.observeAll()
		case 4:
			// nested derivations with a Clone in between
			class = "nested-clone"
			D1 := h.derive(P)
			h.verify(rng.Pick(r, []uint64{P, D1}))
			D2 := h.derive(D1)
			C := h.clone(rng.Pick(r, []uint64{P, D1, D2}))
			h.observeAll()
			for _, s := range []uint64{P, D1, D2, C} {
				if r.Bool() {
					h.mutate(s, r.Intn(5), addHdr)
					h.observeAll()
				}
			}
		default:
			class = "free"
		}
		steps := 3 + r.Intn(7)
		for k := 0; k < steps && len(h.ops) < 900; k++ {
			s := rng.Pick(r, h.live)
			x := r.Intn(12)
			switch {
			case x < 3:
				h.mutate(s, 0, addHdr)
			case x < 5:
				h.mutate(s, 1, addHdr)
			case x < 8 && len(h.live) < 6:
				h.mutate(s, 5, addHdr)
			case x == 11 && len(h.live) < 6:
				if r.Bool() {
					h.parse(hdr(false), false)
				} else {
					h.mutate(s, 6, addHdr)
				}
			default:
				h.mutate(s, 2+r.Intn(3), addHdr)
			}
			h.observeAll()
		}
		totalConf += h.conflicts
		tab := coqw.App("mkTab", coqw.List(sortedVals(w.vt)), coqw.List(sortedVals(w.ct)), coqw.List(sortedVals(w.at)), coqw.List(sortedVals(w.cst)))
		cse := &cs.Case{
			Coq:        coqw.App("KBunH", tab, coqw.List(h.ops), obsCoq(h.obs)),
			Desc:       map[string]any{"history": h.desc, "tokens": len(w.ids), "live_bundles": len(h.live), "skipped_attenuations_table_conflict": h.conflicts},
			Class:      "heap/" + class,
			Nontrivial: len(w.vt) > 0 && len(h.live) > 1,
		}
		if h.stale != "" {
			totalStale++
			cse.OracleFail = h.stale
			cse.Desc.(map[string]any)["kind"] = "stale-verified-caveats-through-alias"
		}
		st.Add(cse)
	}
	c.set.Notes["heap_scenarios"] = n
	c.set.Notes["heap_scenarios_with_stale_decision"] = totalStale
	c.set.Notes["heap_skipped_attenuations_table_conflict"] = totalConf
}

// regressionF15: the four scenarios that reproduced finding F15 (a bundle clearing a write although the token it holds
// and prints had been attenuated to read-only through a bundle sharing the token object), as model cases AND with the
// implementation-side oracle; since the repair (Verify re-wraps every result around its own copy of the token object)
// the bundle that was NOT attenuated keeps printing and deciding by the unattenuated token:
//
//	0: P = parse(tok); D = P.Select(all); P.Verify; D.Attenuate(read only)           -> P: old token, clears the write; D: read-only token, unverified
//	1: P = parse(tok); D = P.Select(all); P.Verify; D.Verify; P.Attenuate(read only) -> D: old token, clears the write
//	2: P = parse(tok); P.Verify; D = P.Select(all); P.Verify; D.Attenuate(read only) -> P: old token, clears the write
//	3: variant 0, then P.Attenuate(read only) through P itself                        -> P: read-only token, refuses the write
func regressionF15(c *ctx, st *cs.Stream, variant int) {
	r := c.r.Fork()
	w := newBWorld(r)
	m, _ := macaroon.New([]byte("k1"), bLocs[0], w.keys["k1"])
	m.Add(&flyio.Organization{ID: 1, Mask: resset.ActionAll})
	tok, _ := m.String()
	h := &hScen{w: w, r: r}
	P := h.parse(tok, false)
	sel := func(s uint64) uint64 {
		d := h.nslots
		h.newSlot(w.slots[s].Select(bundle.KeepAll))
		h.rec(coqw.App("BSelect", coqw.N(d), coqw.N(s), "PAll"), nil)
		return d
	}
	var D uint64
	victim := P
	switch variant {
	case 0, 3:
		D = sel(P)
		h.verify(P)
		h.observeAll()
		h.attenuate(D, 0)
		if variant == 3 {
			h.observeAll()
			h.attenuate(P, 0)
		}
	case 1:
		D = sel(P)
		h.verify(P)
		h.verify(D)
		h.observeAll()
		h.attenuate(P, 0)
		victim = D
	case 2:
		h.verify(P)
		D = sel(P)
		h.verify(P)
		h.observeAll()
		h.attenuate(D, 0)
	}
	h.observeAll()
	// request 1 is "write in organisation 1": the attenuation (read only) forbids it
	b := w.slots[victim]
	clearsWrite := b.Validate(w.reqs[1]) == nil
	fresh, _ := bundle.ParseBundle(bLocs[0], b.Header())
	fresh.Verify(context.Background(), w.resolver())
	headerClearsWrite := fresh.Validate(w.reqs[1]) == nil
	tab := coqw.App("mkTab", coqw.List(sortedVals(w.vt)), coqw.List(sortedVals(w.ct)), coqw.List(sortedVals(w.at)), coqw.List(sortedVals(w.cst)))
	cse := &cs.Case{
		Coq:        coqw.App("KBunH", tab, coqw.List(h.ops), obsCoq(h.obs)),
		Class:      fmt.Sprintf("regression/F15-v%d", variant),
		Nontrivial: true,
		Desc: map[string]any{"kind": "stale-verified-caveats-through-alias", "variant": variant, "history": h.desc,
			"bundle_clears_write": clearsWrite, "its_header_verified_afresh_clears_write": headerClearsWrite},
	}
	if h.stale != "" {
		cse.OracleFail = h.stale
	} else if clearsWrite != headerClearsWrite {
		cse.OracleFail = "a bundle's decision about a write differs from the decision of the token it holds (and prints) verified afresh: the *VerifiedMacaroon's Caveats and its token went out of step (F15)"
	}
	st.Add(cse)
}
