package main

import (
	"encoding/json"
	"fmt"
	"time"

	"github.com/superfly/macaroon"
	"github.com/superfly/macaroon/bundle"
	"github.com/superfly/macaroon/flyio"
	"github.com/superfly/macaroon/resset"

	"verifharness/internal/coqw"
	"verifharness/internal/cs"
	"verifharness/internal/m"
	"verifharness/internal/rng"
)

func init() {
	props["C03"] = genC03
	props["C09"] = genC09
	props["C10"] = genC10
	props["C17"] = genC17
}

type aStream struct{ st *cs.Stream }

func (s aStream) prohibits(cv m.Cav, a m.Acc, class string, nt bool) uint64 {
	err := cv.Go().Prohibits(a.Go())
	code := m.ErrCode(err)
	s.st.Add(&cs.Case{
		Coq:        coqw.App("KProhibits", cv.Coq(), a.Coq(), coqw.N(code)),
		Desc:       map[string]any{"op": "Prohibits", "caveat": cv.Coq(), "access": a.Coq(), "impl_err_code": code, "impl_err": errStr(err), "go": map[string]any{"cav": cv, "acc": a}},
		Class:      class,
		Nontrivial: nt,
	})
	return code
}

func (s aStream) validate(set []m.Cav, as []m.Acc, class string, nt bool) uint64 {
	gset := macaroon.NewCaveatSet(m.CavsGo(set)...)
	reqs := m.AccsGo(as)
	orig := append([]macaroon.Access{}, reqs...)
	err := gset.Validate(reqs...)
	code := m.ErrCode(err)
	// the caller's request list is his: clearing it again (same slice, as an application that retries or a bundle that asks
	// each of its tokens would) must give the same answer, and the list must still hold the same requests
	oracle := ""
	for k := 2; k <= 3 && oracle == ""; k++ {
		if c2 := m.ErrCode(gset.Validate(reqs...)); c2 != code {
			oracle = fmt.Sprintf("clearing the same request list again (use %d) answers code %d instead of %d", k, c2, code)
		}
	}
	for i := range orig {
		if reqs[i] != orig[i] && oracle == "" {
			oracle = fmt.Sprintf("Validate replaced request %d of the caller's list", i)
		}
	}
	s.st.Add(&cs.Case{
		Coq:        coqw.App("KValidate", m.CavsCoq(set), m.AccsCoq(as), coqw.N(code)),
		Desc:       map[string]any{"op": "Validate", "caveats": m.CavsCoq(set), "accesses": m.AccsCoq(as), "impl_err_code": code, "impl_err": errStr(err), "go": map[string]any{"cavs": set, "accs": as}},
		Class:      class,
		Nontrivial: nt,
		OracleFail: oracle,
	})
	return code
}

func (s aStream) accessValid(a m.Acc, class string) uint64 {
	err := a.Go().Validate()
	code := m.ErrCode(err)
	s.st.Add(&cs.Case{
		Coq:        coqw.App("KAccessValid", a.Coq(), coqw.N(code)),
		Desc:       map[string]any{"op": "Access.Validate", "access": a.Coq(), "impl_err_code": code, "impl_err": errStr(err), "go": map[string]any{"acc": a}},
		Class:      class,
		Nontrivial: true,
	})
	return code
}

// ---------------------------------------------------------------- C03
func genC03(c *ctx) {
	s := aStream{c.set.Stream("clear", "Corr.RunA", "run", 700)}
	r := c.r
	n := 1500
	if c.thorough {
		n = 40000
	}
	for i := 0; i < n; i++ {
		now := randNow(r)
		set := randCavs(r, 6, 2, now)
		na := 1 + r.Intn(4)
		as := make([]m.Acc, 0, na)
		for j := 0; j < na; j++ {
			as = append(as, randAccess(r, now))
		}
		code := s.validate(set, as, fmt.Sprintf("validate/%dcav-%dacc", len(set), na), len(set) > 0)
		// implementation-side oracle: a set clears a group iff it clears every request alone
		// and iff every single caveat clears every request (no masking).
		allOK := true
		gs := m.CavsGo(set)
		for _, a := range as {
			ga := a.Go()
			if ga.Validate() != nil {
				allOK = false
			}
			for _, g := range gs {
				if !macaroon.IsAttestation(g) && g.Prohibits(ga) != nil {
					allOK = false
				}
			}
		}
		if last := s.st.Cases[len(s.st.Cases)-1]; allOK != (code == 0) && last.OracleFail == "" {
			last.OracleFail = fmt.Sprintf("Validate returned code %d but per-caveat/per-request clearing says cleared=%v", code, allOK)
		}
	}
	if f := sameLengthMutationOracle(); f != "" {
		s.st.Add(&cs.Case{Coq: coqw.App("KAccessValid", m.Acc{Kind: "ABare", Valid: true}.Coq(), coqw.N(0)), Desc: map[string]any{"op": "a set validated before, then changed at the same length"}, Class: "set-changed-in-place", Nontrivial: true, OracleFail: f})
	}
	if f := declinedAttestationOracle(); f != "" {
		s.st.Add(&cs.Case{Coq: coqw.App("KAccessValid", m.Acc{Kind: "ABare", Valid: true}.Coq(), coqw.N(0)), Desc: map[string]any{"op": "a caveat type with an IsAttestation method that answers false"}, Class: "declined-attestation", Nontrivial: true, OracleFail: f})
	}
	// unevaluable caveats and wrong access kinds, one by one
	now := m.T{Sec: 1700000000}
	for _, k := range append(append([]string{}, flyioKinds...), otherKinds...) {
		for i := 0; i < 6; i++ {
			cv := randCavOf(r, k, 1, now)
			for _, a := range []m.Acc{{Kind: "ABare", Valid: true, Now: now}, {Kind: "AActionOnly", Action: 1, Now: now}, randFlyioAccess(r, now), mkDR(r, 1, 1, 1, "rel", 60)} {
				s.prohibits(cv, a, "single/"+k+"/"+a.Kind, true)
			}
		}
	}
}

// a user-defined caveat type that HAS the IsAttestation method and answers false: it is an ordinary caveat, every request it
// prohibits is denied (only caveats that answer true are skipped by clearing)
type hcDeclined struct {
	V uint64 `json:"v"`
}

func (*hcDeclined) CaveatType() macaroon.CaveatType { return macaroon.CavMinUserDefined + 41 }
func (*hcDeclined) Name() string                    { return "HarnessDeclined" }
func (*hcDeclined) IsAttestation() bool             { return false }
func (c *hcDeclined) Prohibits(macaroon.Access) error {
	if c.V == 0 {
		return nil
	}
	return fmt.Errorf("%w: harness caveat", macaroon.ErrUnauthorized)
}

var hcDeclinedOnce bool

func declinedAttestationOracle() string {
	if !hcDeclinedOnce {
		hcDeclinedOnce = true
		macaroon.RegisterCaveatType(&hcDeclined{})
	}
	deny, allow := &hcDeclined{V: 1}, &hcDeclined{V: 0}
	acc := m.Acc{Kind: "ABare", Valid: true, Now: m.T{Sec: 1700000000}}.Go()
	if macaroon.IsAttestation(deny) {
		return "IsAttestation reports true for a caveat whose IsAttestation method answers false"
	}
	if macaroon.NewCaveatSet(deny).Validate(acc) == nil {
		return "a prohibiting caveat whose IsAttestation method answers false is skipped by clearing"
	}
	if err := macaroon.NewCaveatSet(allow).Validate(acc); err != nil {
		return "a permitting caveat whose IsAttestation method answers false denies: " + err.Error()
	}
	key := macaroon.NewSigningKey()
	tok, _ := macaroon.New([]byte("k"), "https://declined.test", key)
	if err := tok.Add(deny); err != nil {
		return "an ordinary caveat (IsAttestation answers false) cannot be added to a permission token: " + err.Error()
	}
	enc, _ := tok.Encode()
	dm, err := macaroon.Decode(enc)
	if err != nil {
		return "setup: " + err.Error()
	}
	set, err := dm.Verify(key, nil, nil)
	if err != nil {
		return "a genuine token with such a caveat is rejected: " + err.Error()
	}
	if set.Validate(acc) == nil {
		return "a verified token clears a request that its caveat (IsAttestation answers false) prohibits"
	}
	return ""
}

// ---------------------------------------------------------------- C09
// actionTextOracle: the textual form of action masks ("rwcdC", "*" = everything) means what it says: "*" grants every
// defined action, each letter its own bit, and a mask printed by the library reads back as the same defined bits
func actionTextOracle() string {
	if a := resset.ActionFromString("*"); a&resset.ActionAll != resset.ActionAll {
		return fmt.Sprintf(`ActionFromString("*") = %#x does not contain every defined action`, uint16(a))
	}
	for i, l := range "rwcdC" {
		if a := resset.ActionFromString(string(l)); a != resset.Action(1)<<uint(i) {
			return fmt.Sprintf("ActionFromString(%q) = %#x", string(l), uint16(a))
		}
	}
	for m := resset.Action(0); m <= resset.ActionAll; m++ {
		if back := resset.ActionFromString(m.String()); back&resset.ActionAll != m {
			return fmt.Sprintf("mask %#x prints as %q which reads back as %#x", uint16(m), m.String(), uint16(back))
		}
	}
	set := macaroon.NewCaveatSet()
	if err := json.Unmarshal([]byte(`[{"type":"Apps","body":{"apps":{"7":"*"}}}]`), set); err != nil {
		return "JSON Apps caveat with the mask \"*\" does not parse: " + err.Error()
	}
	org, app := uint64(1), uint64(7)
	if err := set.Validate(&flyio.Access{OrgID: &org, AppID: &app, Action: resset.ActionAll}); err != nil {
		return "an Apps caveat read from JSON with the mask \"*\" does not permit every defined action on that app: " + err.Error()
	}
	return ""
}

func genC09(c *ctx) {
	s := aStream{c.set.Stream("resset", "Corr.RunA", "run", 1500)}
	if f := actionTextOracle(); f != "" {
		s.st.Add(&cs.Case{Coq: coqw.App("KAccessValid", m.Acc{Kind: "ABare", Valid: true}.Coq(), coqw.N(0)), Desc: map[string]any{"op": "action mask text"}, Class: "action-text", Nontrivial: true, OracleFail: f})
	}
	r := c.r
	now := m.T{Sec: 1700000000}
	masks := []uint16{0, 1, 3, 31, 0xffff}
	acts := []uint16{0, 1, 2, 3, 31, 32, 0xffff}
	if !c.thorough {
		masks = []uint16{0, 1, 3, 0xffff}
		acts = []uint16{0, 1, 2, 3, 0xffff}
	}
	org := pN(1)
	// exhaustive: string / prefix / integer sets with <= 2 entries (quick) or <= 3 (thorough)
	ids := []string{"", "a", "ab", "b", "a/"}
	var subsets [][]string
	var rec func(start int, cur []string)
	maxE := 2
	if c.thorough {
		maxE = 3
	}
	rec = func(start int, cur []string) {
		subsets = append(subsets, append([]string{}, cur...))
		if len(cur) == maxE {
			return
		}
		for i := start; i < len(ids); i++ {
			rec(i+1, append(cur, ids[i]))
		}
	}
	rec(0, nil)
	reqs := []*string{nil, pS(""), pS("a"), pS("ab"), pS("abc"), pS("b"), pS("c"), pS("a/"), pS("a/b"), pS("a//")}
	for _, sub := range subsets {
		// mask assignments: all combos for |sub| <= 2, sampled otherwise
		var assigns [][]uint16
		switch len(sub) {
		case 0:
			assigns = [][]uint16{{}}
		case 1:
			for _, a := range masks {
				assigns = append(assigns, []uint16{a})
			}
		case 2:
			for _, a := range masks {
				for _, b := range masks {
					assigns = append(assigns, []uint16{a, b})
				}
			}
		default:
			for k := 0; k < 12; k++ {
				assigns = append(assigns, []uint16{rng.Pick(r, masks), rng.Pick(r, masks), rng.Pick(r, masks)})
			}
		}
		for _, as := range assigns {
			var es []m.EntS
			var en []m.EntN
			for i, k := range sub {
				es = append(es, m.EntS{K: k, M: as[i]})
				en = append(en, m.EntN{K: uint64(len(k)), M: as[i]}) // "", a, ab -> 0,1,2 ; b -> 1 (dup dropped below)
			}
			for _, rq := range reqs {
				for _, act := range acts {
					s.prohibits(m.Cav{Kind: "CVolumes", RSS: es}, m.Acc{Kind: "AFlyio", Org: org, App: pN(1), Volume: rq, Action: act, Now: now}, "exh/string", true)
					s.prohibits(m.Cav{Kind: "CStorageObjects", RSS: es}, m.Acc{Kind: "AFlyio", Org: org, Storage: rq, Action: act, Now: now}, "exh/prefix", true)
				}
			}
			// integer ids (skip subsets whose integer keys collide)
			seen := map[uint64]bool{}
			dup := false
			for _, e := range en {
				if seen[e.K] {
					dup = true
				}
				seen[e.K] = true
			}
			if !dup {
				for _, rq := range []*uint64{nil, pN(0), pN(1), pN(2), pN(3)} {
					for _, act := range acts {
						s.prohibits(m.Cav{Kind: "CApps", RSN: en}, m.Acc{Kind: "AFlyio", Org: org, App: rq, Action: act, Now: now}, "exh/int", true)
					}
				}
			}
		}
	}
	// action caveat: exhaustive over the small mask/action universes
	for _, mk := range uMask {
		for _, act := range uAction {
			s.prohibits(m.Cav{Kind: "CAction", Mask: uint64(mk)}, m.Acc{Kind: "AFlyio", Org: org, Action: act, Now: now}, "action", true)
			s.prohibits(m.Cav{Kind: "CAction", Mask: uint64(mk)}, m.Acc{Kind: "AActionOnly", Action: act, Now: now}, "action", true)
		}
		s.prohibits(m.Cav{Kind: "CAction", Mask: uint64(mk)}, m.Acc{Kind: "ABare", Valid: true, Now: now}, "action/wrong-access", false)
	}
	// conditional caveats, nested to depth 3, with monotonicity oracle
	n := 1200
	if c.thorough {
		n = 30000
	}
	for i := 0; i < n; i++ {
		cv := randCavOf(r, "CIfPresent", 3, now)
		a := randFlyioAccess(r, now)
		code := s.prohibits(cv, a, "ifpresent/nested", cv.Ifs != nil && len(*cv.Ifs) > 0)
		if code == 0 && a.Action != 0 {
			// monotone in the action: every subset of a permitted action is permitted
			sub := a
			sub.Action = a.Action & uint16(r.U64())
			if e := cv.Go().Prohibits(sub.Go()); e != nil {
				last := s.st.Cases[len(s.st.Cases)-1]
				last.OracleFail = fmt.Sprintf("action %d permitted but subset %d denied: %v", a.Action, sub.Action, e)
			}
		}
		set := randCavs(r, 4, 2, now)
		code = s.validate(set, []m.Acc{a}, "set-monotone", len(set) > 0)
		if code == 0 && a.Action != 0 {
			sub := a
			sub.Action = a.Action & uint16(r.U64())
			if e := macaroon.NewCaveatSet(m.CavsGo(set)...).Validate(sub.Go()); e != nil {
				last := s.st.Cases[len(s.st.Cases)-1]
				last.OracleFail = fmt.Sprintf("set clears action %d but not its subset %d: %v", a.Action, sub.Action, e)
			}
		}
	}
	scaleSets(s, c, true)
	// map iteration order must not matter: evaluate the same set many times
	for i := 0; i < 40; i++ {
		es := []m.EntS{{K: "a", M: 1}, {K: "ab", M: 3}, {K: "b", M: 31}, {K: "abc", M: 2}}
		cv := m.Cav{Kind: "CStorageObjects", RSS: es}
		s.prohibits(cv, m.Acc{Kind: "AFlyio", Org: org, Storage: pS("abcd"), Action: uint16(i % 4), Now: now}, "order", true)
	}
}

// scaleSets: resource sets and conditionals far beyond every small size (9, 17, 33, 65, 100, 257, 300 entries / members):
// the rule is the same at every size. Prefix sets keep a narrow enclosing prefix and a wider named entry among the fillers;
// string and integer sets are asked about their first, a middle, their last and an unlisted id; conditionals have all but
// the last member permitting. Every question is asked three times (Go walks maps in random order).
func scaleSets(s aStream, c *ctx, withIf bool) {
	now := m.T{Sec: 1700000000}
	org := pN(1)
	sizes := []int{9, 17, 33, 65, 100, 257}
	if c.thorough {
		sizes = append(sizes, 300, 1000)
	}
	for _, n := range sizes {
		es := []m.EntS{{K: "data/", M: 1}, {K: "data/reports", M: 3}}
		for i := 0; len(es) < n; i++ {
			es = append(es, m.EntS{K: fmt.Sprintf("f%04d/", i), M: 31})
		}
		lastF := es[len(es)-1].K
		for rep := 0; rep < 3; rep++ {
			for _, obj := range []string{"data/reports", "data/reports/x", "data/x", "f0005/a", lastF + "z", lastF, "zzz", "data"} {
				for _, act := range []uint16{1, 2, 3} {
					s.prohibits(m.Cav{Kind: "CStorageObjects", RSS: es}, m.Acc{Kind: "AFlyio", Org: org, Storage: pS(obj), Action: act, Now: now}, "scale/prefix", true)
				}
			}
		}
		var vs []m.EntS
		var as []m.EntN
		for i := 0; i < n; i++ {
			vs = append(vs, m.EntS{K: fmt.Sprintf("v%04d", i), M: uint16(1 + i%3)})
			as = append(as, m.EntN{K: uint64(i + 1), M: uint16(1 + i%3)})
		}
		for rep := 0; rep < 3; rep++ {
			for _, i := range []int{0, 1, n / 2, n - 2, n - 1, n, n + 7} {
				for _, act := range []uint16{1, 2, 3} {
					s.prohibits(m.Cav{Kind: "CVolumes", RSS: vs}, m.Acc{Kind: "AFlyio", Org: org, App: pN(1), Volume: pS(fmt.Sprintf("v%04d", i)), Action: act, Now: now}, "scale/string", true)
					s.prohibits(m.Cav{Kind: "CApps", RSN: as}, m.Acc{Kind: "AFlyio", Org: org, App: pN(uint64(i + 1)), Action: act, Now: now}, "scale/integer", true)
				}
			}
		}
		if withIf {
			for _, denyAt := range []int{n - 1, n / 2, -1} {
				ifs := make([]m.Cav, 0, n)
				for i := 0; i < n; i++ {
					mk := uint16(3)
					if i == denyAt {
						mk = 1
					}
					ifs = append(ifs, m.Cav{Kind: "CApps", RSN: []m.EntN{{K: 7, M: mk}, {K: uint64(100 + i), M: 31}}})
				}
				cv := m.Cav{Kind: "CIfPresent", Ifs: &ifs, Mask: 1}
				for _, act := range []uint16{1, 2, 3} {
					s.prohibits(cv, m.Acc{Kind: "AFlyio", Org: org, App: pN(7), Action: act, Now: now}, "scale/conditional", true)
					s.validate([]m.Cav{cv}, []m.Acc{{Kind: "AFlyio", Org: org, App: pN(7), Action: act, Now: now}}, "scale/conditional-set", true)
				}
				s.prohibits(cv, m.Acc{Kind: "AFlyio", Org: org, Action: 2, Now: now}, "scale/conditional", true)
			}
		}
	}
}

// ---------------------------------------------------------------- C10
func genC10(c *ctx) {
	s := aStream{c.set.Stream("flyio-rules", "Corr.RunA", "run", 1500)}
	r := c.r
	// request well-formedness: every presence pattern of the hierarchy fields x feature value
	for bits := 0; bits < 1<<10; bits++ {
		for fi, feat := range []string{"litefs-cloud", "wg", "litefs-cloud", ""} {
			if bits&4 == 0 && feat == "wg" {
				continue
			}
			// fourth round: every named string field is present and EMPTY (a pointer to ""): still named
			emptyStr := fi == 3
			if emptyStr && bits&(4|8|16|32|64|128|512) == 0 {
				continue
			}
			// third round: the command is present but EMPTY (non-nil empty slice) - only where a command is named
			emptyCmd := fi == 2
			if emptyCmd && bits&256 == 0 {
				continue
			}
			a := m.Acc{Kind: "AFlyio", Action: 1, Now: m.T{Sec: 1700000000}}
			if bits&1 != 0 {
				a.Org = pN(1)
			}
			if bits&2 != 0 {
				a.App = pN(2)
			}
			if bits&4 != 0 {
				a.Feature = pS(feat)
			}
			if bits&8 != 0 {
				a.Storage = pS("s")
			}
			if bits&16 != 0 {
				a.Machine = pS("m")
			}
			if bits&32 != 0 {
				a.Volume = pS("v")
			}
			if bits&64 != 0 {
				a.AppFeature = pS("af")
			}
			if bits&128 != 0 {
				a.Cluster = pS("c")
			}
			if bits&256 != 0 {
				a.Command = &[]string{"ls"}
				if emptyCmd {
					a.Command = &[]string{}
				}
			}
			if bits&512 != 0 {
				a.MachineFeature = pS("mf")
			}
			if emptyStr {
				for _, f := range []**string{&a.Storage, &a.Machine, &a.Volume, &a.AppFeature, &a.Cluster, &a.MachineFeature} {
					if *f != nil {
						*f = pS("")
					}
				}
			}
			s.accessValid(a, "wellformed/exhaustive")
		}
	}
	s.accessValid(m.Acc{Kind: "AFlyio", Org: pN(1), App: pN(1), Machine: pS("m"), Command: &[]string{}, Now: m.T{}}, "wellformed/empty-command")
	// every Fly.io caveat type against targeted requests
	n := 150
	if c.thorough {
		n = 2500
	}
	for _, k := range flyioKinds {
		if k == "CIfPresent" || k == "CAction" {
			continue
		}
		for i := 0; i < n; i++ {
			now := randNow(r)
			cv := randCavOf(r, k, 0, now)
			a := randFlyioAccess(r, now)
			// steer the request towards the caveat's resource
			switch k {
			case "COrganization":
				a.Org = pN(rng.Pick(r, uOrg))
				if r.P(1, 8) {
					a.Org = nil
				}
			case "CMutations":
				a.Mutation = optStr(r, uStr, 5, 6)
			case "CCommands":
				if r.P(5, 6) {
					cmd := randStrs(r, uCmdArg, 4)
					a.Command = cmd
				}
			case "CAllowedRoles", "CIsMember":
				a.Feature = optStr(r, uFeat, 3, 4)
				a.Action = rng.Pick(r, uAction)
			case "CFromMachine", "CFlySrc":
				a.SrcMachine, a.SrcApp, a.SrcOrg = optStr(r, uStr[:3], 3, 4), optStr(r, uStr[:3], 3, 4), optStr(r, uStr[:3], 3, 4)
			}
			s.prohibits(cv, a, "rule/"+k, true)
		}
		now := m.T{Sec: 1700000000}
		s.prohibits(randCavOf(r, k, 0, now), m.Acc{Kind: "ABare", Valid: true, Now: now}, "rule/"+k+"/wrong-access", false)
		s.prohibits(randCavOf(r, k, 0, now), m.Acc{Kind: "AActionOnly", Action: 1, Now: now}, "rule/"+k+"/wrong-access", false)
	}
	// validity window end points: +-1 s, +-1 ns around both ends, and int64 extremes
	for _, base := range []int64{0, 1700000000, -62135596800, 9223372036854775807 - 62135596800, -9223372036854775808} {
		for _, dn := range []int64{-1, 0, 1} {
			for _, ns := range []int64{0, 1, 999999999} {
				nowSec := base + dn
				if (base > 0 && nowSec < 0 && dn > 0) || (base < 0 && nowSec > 0 && dn < 0) {
					continue // int64 overflow of the harness arithmetic itself
				}
				now := m.T{Sec: nowSec, Nsec: ns}
				for _, w := range [][2]int64{{base, base}, {base - 1, base}, {base, base + 1}, {-9223372036854775808, base}, {base, 9223372036854775807}, {base + 1, base - 1}} {
					if (base == -9223372036854775808 && (w[0] > 0 || w[1] > 0 && w[1] != 9223372036854775807)) || (base > 9000000000000000000 && (w[1] < 0 && w[1] != -9223372036854775808)) {
						continue
					}
					s.prohibits(m.Cav{Kind: "CValidityWindow", NB: w[0], NA: w[1]}, m.Acc{Kind: "AFlyio", Org: pN(1), Now: now}, "window/boundary", true)
				}
			}
		}
	}
	// storage objects: nested prefixes with different masks; the object requested is a prefix itself, lies below one, or is shorter
	{
		now := m.T{Sec: 1700000000}
		pfx := []string{"", "b", "b/", "b/f", "b/f/x", "c"}
		for i := 0; i < len(pfx); i++ {
			for j := 0; j < len(pfx); j++ {
				if i == j {
					continue
				}
				for _, ms := range [][2]uint16{{1, 3}, {3, 1}, {31, 1}, {1, 31}, {0, 31}} {
					es := []m.EntS{{K: pfx[i], M: ms[0]}, {K: pfx[j], M: ms[1]}}
					for _, obj := range []string{"b", "b/", "b/f", "b/f/x", "b/f/x/y", "c", "a"} {
						for _, act := range []uint16{1, 2, 3} {
							s.prohibits(m.Cav{Kind: "CStorageObjects", RSS: es}, m.Acc{Kind: "AFlyio", Org: pN(1), Storage: pS(obj), Action: act, Now: now}, "storage/nested-prefixes", true)
						}
					}
				}
			}
		}
	}
	// role table: every member feature x every action bit pattern below 64
	for ft := range flyio.MemberFeatures {
		for act := 0; act < 64; act += 1 {
			for _, roles := range []uint64{1, 2, 0xFFFFFFFF, 0} {
				s.prohibits(m.Cav{Kind: "CAllowedRoles", Mask: roles}, m.Acc{Kind: "AFlyio", Org: pN(1), Feature: pS(ft), Action: uint16(act), Now: m.T{}}, "roles/table", true)
			}
		}
	}
	// masks with undefined bits ("*" is 0xffff) print like masks without them: asked right after each other, in both orders
	for ft := range flyio.MemberFeatures {
		for _, pair := range [][2]uint16{{0x1f, 0xffff}, {0xffff, 0x1f}, {1, 0x101}, {0x101, 1}, {0, 0x8000}, {0x8000, 0}, {3, 0x23}} {
			for _, act := range pair {
				for _, roles := range []uint64{1, 2, 0xFFFFFFFF} {
					s.prohibits(m.Cav{Kind: "CAllowedRoles", Mask: roles}, m.Acc{Kind: "AFlyio", Org: pN(1), Feature: pS(ft), Action: act, Now: m.T{}}, "roles/undefined-bits", true)
					s.prohibits(m.Cav{Kind: "CIsMember"}, m.Acc{Kind: "AFlyio", Org: pN(1), Feature: pS(ft), Action: act, Now: m.T{}}, "roles/undefined-bits", true)
				}
			}
		}
	}
	scaleSets(s, c, false)
	_ = resset.ActionAll
}

// ---------------------------------------------------------------- C17
func genC17(c *ctx) {
	st := c.set.Stream("scope", "Corr.RunA", "run", 500)
	r := c.r
	n := 600
	if c.thorough {
		n = 15000
	}
	realNow := time.Now()
	now := m.T{Sec: realNow.Unix(), Nsec: 0}
	scopeKinds := []string{"COrganization", "COrganization", "CApps", "CApps", "CClusters", "CClusters", "CFeatureSet", "CIfPresent", "CValidityWindow", "CAction", "CIsUser", "CFlyioUserID", "CVolumes"}
	var mk func(depth int) m.Cav
	mk = func(depth int) m.Cav {
		k := rng.Pick(r, scopeKinds)
		cv := randCavOf(r, k, 0, now)
		switch k {
		case "CIfPresent":
			nn := r.Intn(3)
			ifs := make([]m.Cav, 0, nn)
			if depth > 0 {
				for i := 0; i < nn; i++ {
					ifs = append(ifs, mk(depth-1))
				}
			}
			cv.Ifs = &ifs
		case "CValidityWindow":
			// keep both ends at least an hour away from the wall clock (helpers read time.Now())
			cv.NB = now.Sec - 3600 - int64(r.Intn(100000))
			cv.NA = now.Sec + 3600 + int64(r.Intn(100000))
			if r.P(1, 5) {
				cv.NA = now.Sec - 3600 - int64(r.Intn(1000))
			}
			if r.P(1, 8) {
				cv.NA = rng.Pick(r, int64Edges)
				if cv.NA > now.Sec-3600 && cv.NA < now.Sec+3600 {
					cv.NA = 0
				}
			}
		case "CClusters":
			cv.RSS = randRSS(r, []string{"", "a", "b", "c"})
		}
		return cv
	}
	// scripted large sets: one Apps / Clusters caveat with 33, 65, 257, 300 and 600 entries, two that overlap in half, the
	// same under a conditional, and next to an organization caveat
	var scopeScale [][]m.Cav
	for _, k := range []int{33, 65, 257, 300, 600} {
		var a1, a2 []m.EntN
		var c1 []m.EntS
		for j := 0; j < k; j++ {
			a1 = append(a1, m.EntN{K: uint64(j + 1), M: uint16(1 + j%3)})
			a2 = append(a2, m.EntN{K: uint64(j + 1 + k/2), M: 31})
			c1 = append(c1, m.EntS{K: fmt.Sprintf("c%04d", j), M: uint16(1 + j%3)})
		}
		ifs := []m.Cav{{Kind: "CApps", RSN: a1}}
		scopeScale = append(scopeScale,
			[]m.Cav{{Kind: "CApps", RSN: a1}},
			[]m.Cav{{Kind: "CApps", RSN: a1}, {Kind: "CApps", RSN: a2}},
			[]m.Cav{{Kind: "COrganization", ID: 1, Mask: 31}, {Kind: "CIfPresent", Ifs: &ifs, Mask: 1}},
			[]m.Cav{{Kind: "COrganization", ID: 1, Mask: 31}, {Kind: "CFeatureSet", RSS: []m.EntS{{K: "litefs-cloud", M: 31}}}, {Kind: "CClusters", RSS: c1}},
		)
	}
	for i := 0; i < n+len(scopeScale); i++ {
		var set []m.Cav
		if i < n {
			nc := r.Intn(6)
			set = make([]m.Cav, 0, nc)
			for j := 0; j < nc; j++ {
				set = append(set, mk(2))
			}
		} else {
			set = scopeScale[i-n] // scale: the helpers' answers for sets far beyond every small size
		}
		gs := macaroon.NewCaveatSet(m.CavsGo(set)...)
		setCoq := m.CavsCoq(set)
		desc := func(op string, extra map[string]any) map[string]any {
			d := map[string]any{"op": op, "caveats": setCoq, "go": map[string]any{"cavs": set}}
			for k, v := range extra {
				d[k] = v
			}
			return d
		}
		// OrganizationScope
		oid, oerr := flyio.OrganizationScope(gs)
		v := oid
		if oerr != nil {
			v = m.ErrCode(oerr)
		}
		cse := &cs.Case{Coq: coqw.App("KOrgScope", setCoq, now.Coq(), coqw.Bool(oerr == nil), coqw.N(v)),
			Desc: desc("OrganizationScope", map[string]any{"impl_id": oid, "impl_err": errStr(oerr)}), Class: "orgscope", Nontrivial: hasKind(set, "COrganization")}
		if oerr == nil && oid != 0 {
			// oracle: an access naming another org must not clear
			other := oid + 1
			if e := gs.Validate(&flyio.Access{OrgID: &other, Action: 0}); e == nil {
				cse.OracleFail = fmt.Sprintf("OrganizationScope=%d but org %d clears", oid, other)
			}
		}
		st.Add(cse)
		// AppScope
		as := flyio.AppScope(gs)
		cse = &cs.Case{Coq: coqw.App("KAppScope", setCoq, now.Coq(), coqw.Bool(as == nil), coqw.ListOf(as, coqw.N)),
			Desc: desc("AppScope", map[string]any{"impl": as, "impl_nil": as == nil}), Class: "appscope", Nontrivial: hasKind(set, "CApps")}
		appCavs := macaroon.GetCaveats[*flyio.Apps](gs)
		appOnly := macaroon.NewCaveatSet()
		for _, ac := range appCavs {
			appOnly.Caveats = append(appOnly.Caveats, ac)
		}
		for _, id := range []uint64{0, 1, 2, 3, 4} {
			clears := appOnly.Validate(&flyio.Access{OrgID: pN(999), AppID: pN(id), Action: 0}) == nil
			in := false
			for _, x := range as {
				in = in || x == id
			}
			switch {
			case as == nil && !clears && len(appCavs) > 0:
				cse.OracleFail = fmt.Sprintf("AppScope unrestricted but app %d does not clear the Apps caveats", id)
			case as != nil && in && !clears:
				cse.OracleFail = fmt.Sprintf("AppScope lists %d which does not clear", id)
			case as != nil && !in && clears:
				cse.OracleFail = fmt.Sprintf("AppScope leaves out %d which clears", id)
			}
		}
		st.Add(cse)
		// ClusterScope
		cl := flyio.ClusterScope(gs)
		cse = &cs.Case{Coq: coqw.App("KClusterScope", setCoq, now.Coq(), coqw.Bool(cl == nil), coqw.ListOf(cl, coqw.Str)),
			Desc: desc("ClusterScope", map[string]any{"impl": cl, "impl_nil": cl == nil}), Class: "clusterscope", Nontrivial: hasKind(set, "CClusters")}
		clCavs := macaroon.GetCaveats[*flyio.Clusters](gs)
		clOnly := macaroon.NewCaveatSet()
		for _, cc := range clCavs {
			clOnly.Caveats = append(clOnly.Caveats, cc)
		}
		for _, id := range []string{"", "a", "b", "c", "d"} {
			clears := clOnly.Validate(&flyio.Access{OrgID: pN(999), Feature: pS(flyio.FeatureLFSC), Cluster: pS(id), Action: 0}) == nil
			in := false
			for _, x := range cl {
				in = in || x == id
			}
			switch {
			case cl == nil && !clears && len(clCavs) > 0:
				cse.OracleFail = fmt.Sprintf("ClusterScope unrestricted but cluster %q does not clear the Clusters caveats", id)
			case cl != nil && in && !clears:
				cse.OracleFail = fmt.Sprintf("ClusterScope lists %q which does not clear", id)
			case cl != nil && !in && clears:
				cse.OracleFail = fmt.Sprintf("ClusterScope leaves out %q which clears", id)
			}
		}
		st.Add(cse)
		// AppsAllowing
		act := rng.Pick(r, []uint16{0, 1, 2, 3, 31})
		org, ids, aerr := flyio.AppsAllowing(gs, resset.Action(act))
		cse = &cs.Case{Coq: coqw.App("KAppsAllowing", setCoq, coqw.N(uint64(act)), now.Coq(), coqw.N(org), coqw.Bool(ids == nil), coqw.ListOf(ids, coqw.N), coqw.N(m.ErrCode(aerr))),
			Desc: desc("AppsAllowing", map[string]any{"action": act, "impl_org": org, "impl_ids": ids, "impl_nil": ids == nil, "impl_err": errStr(aerr)}), Class: "appsallowing", Nontrivial: hasKind(set, "CApps") && hasKind(set, "COrganization")}
		if aerr == nil {
			for _, id := range []uint64{1, 2, 3, 4} {
				clears := gs.Validate(&flyio.Access{OrgID: &org, AppID: pN(id), Action: resset.Action(act)}) == nil
				in := false
				for _, x := range ids {
					in = in || x == id
				}
				if ids != nil && in && !clears {
					cse.OracleFail = fmt.Sprintf("AppsAllowing lists app %d which does not clear action %d", id, act)
				}
				if ids == nil && !clears {
					cse.OracleFail = fmt.Sprintf("AppsAllowing says any app but app %d does not clear action %d", id, act)
				}
			}
		}
		st.Add(cse)
		// Expiration
		mac, _ := macaroon.New([]byte("k"), "loc", macaroon.NewSigningKey())
		mac.UnsafeCaveats = *gs
		exp := mac.Expiration()
		cse = &cs.Case{Coq: coqw.App("KExpiration", setCoq, coqw.Z(exp.Unix()), coqw.Z(int64(exp.Nanosecond()))),
			Desc: desc("Expiration", map[string]any{"impl_unix": exp.Unix(), "impl_nsec": exp.Nanosecond()}), Class: "expiration", Nontrivial: hasKind(set, "CValidityWindow")}
		if exp.Before(realNow.Add(-time.Minute)) {
			// oracle: after the computed expiry nothing clears
			if e := gs.Validate(&flyio.Access{OrgID: pN(1), Action: 0}); e == nil {
				cse.OracleFail = "Expiration is in the past but the set still clears a request"
			}
		}
		st.Add(cse)
		// the bundle layer computes the expiry of a verified token on its own: same answer required
		bexp := (&bundle.VerifiedMacaroon{Caveats: gs}).Expiration()
		bcse := &cs.Case{Coq: coqw.App("KExpiration", setCoq, coqw.Z(bexp.Unix()), coqw.Z(int64(bexp.Nanosecond()))),
			Desc: desc("bundle.VerifiedMacaroon.Expiration", map[string]any{"impl_unix": bexp.Unix(), "impl_nsec": bexp.Nanosecond()}), Class: "expiration/bundle", Nontrivial: true}
		if !bexp.Equal(exp) {
			bcse.OracleFail = fmt.Sprintf("bundle.VerifiedMacaroon.Expiration (%v) and Macaroon.Expiration (%v) disagree on the same caveats", bexp.Unix(), exp.Unix())
		} else if bexp.Before(realNow.Add(-time.Minute)) {
			if e := gs.Validate(&flyio.Access{OrgID: pN(1), Action: 0}); e == nil {
				bcse.OracleFail = "verified token's Expiration is in the past but its caveats still clear a request"
			}
		}
		st.Add(bcse)
		// DangerousUserID
		uid, uerr := flyio.DangerousUserID(gs)
		st.Add(&cs.Case{Coq: coqw.App("KUserID", setCoq, coqw.Bool(uerr == nil), coqw.N(uid)),
			Desc: desc("DangerousUserID", map[string]any{"impl_id": uid, "impl_err": errStr(uerr)}), Class: "userid", Nontrivial: hasKind(set, "CIsUser", "CFlyioUserID")})
	}
	if f := expiryInRealTimeOracle(); f != "" {
		st.Add(&cs.Case{Coq: coqw.App("KUserID", "[]", coqw.Bool(false), coqw.N(0)), Desc: map[string]any{"op": "the computed expiry passes while one request object is checked again and again"}, Class: "expiry-real-time", Nontrivial: true, OracleFail: f})
	}
}

// expiryInRealTimeOracle (C17, "the expiry computed for a token is a time after which it no longer clears anything"): a token
// that expires in about a second; ONE request object is checked before and, again and again, until after the computed
// expiry (a poll loop, a long-lived connection): once the expiry has passed it clears nothing, whatever was cleared before.
func expiryInRealTimeOracle() string {
	key := macaroon.NewSigningKey()
	for attempt := 0; attempt < 3; attempt++ {
		na := time.Now().Unix() + 1
		tok, _ := macaroon.New([]byte("k"), "https://perm.expiry.test", key)
		tok.Add(&flyio.Organization{ID: 1, Mask: resset.ActionAll}, &macaroon.ValidityWindow{NotBefore: 0, NotAfter: na})
		enc, _ := tok.Encode()
		dm, _ := macaroon.Decode(enc)
		set, err := dm.Verify(key, nil, nil)
		if err != nil {
			return "setup: " + err.Error()
		}
		exp := dm.Expiration()
		acc := &flyio.Access{OrgID: pN(1), Action: resset.ActionRead}
		if set.Validate(acc) != nil {
			continue // the second ticked over already: try again
		}
		deadline := time.Now().Add(3 * time.Second)
		for time.Now().Before(deadline) {
			cleared := set.Validate(acc) == nil
			if now := time.Now(); cleared && now.After(exp.Add(1100*time.Millisecond)) {
				return fmt.Sprintf("a request object first checked while the token was valid is still cleared %v after the token's computed expiry", now.Sub(exp).Round(time.Millisecond))
			}
			if !cleared {
				if fresh := (&flyio.Access{OrgID: pN(1), Action: resset.ActionRead}); set.Validate(fresh) == nil && time.Now().After(exp.Add(1100*time.Millisecond)) {
					return "a fresh request object is cleared after the computed expiry"
				}
				return ""
			}
			time.Sleep(50 * time.Millisecond)
		}
		return "a token expiring in one second still clears three seconds later"
	}
	return ""
}
