package main

import (
	"context"
	"encoding/hex"
	"fmt"
	"sort"
	"strings"
	"time"

	"github.com/superfly/macaroon"
	"github.com/superfly/macaroon/auth"
	"github.com/superfly/macaroon/bundle"
	"github.com/superfly/macaroon/flyio"
	"github.com/superfly/macaroon/resset"

	"verifharness/internal/coqw"
	"verifharness/internal/cs"
	"verifharness/internal/rng"
)

func init() {
	props["C13"] = func(c *ctx) { genBundle(c, false) }
	props["C14"] = func(c *ctx) { genBundle(c, true) }
}

var bLocs = []string{flyio.LocationPermission, "https://tp1.test", "https://tp2.test", "https://other.test"}

func bLocID(l string) uint64 {
	for i, x := range bLocs {
		if x == l {
			return uint64(i)
		}
	}
	return 9
}

// bWorld holds the concrete side of one bundle scenario
type bWorld struct {
	r         *rng.R
	keys      map[string]macaroon.SigningKey // kid -> key known to the resolver
	tpKeys    map[string]macaroon.EncryptionKey
	ids       map[string]uint64 // token string -> identity
	strs      map[uint64]string
	nextID    uint64
	tickets   map[string]uint64
	kids      map[string]uint64
	csIDs     map[string]uint64
	csSets    map[uint64]*macaroon.CaveatSet
	vt, ct    map[string]string // table entries, keyed for dedup
	at, cst   map[string]string
	slots     map[uint64]*bundle.Bundle
	caches    map[uint64]*bundle.VerificationCache
	innerLog  []uint64
	reqs      []*flyio.Access
	cavLists  [][]macaroon.Caveat
	sameNonce []string
	sameTail  []string
	p5        string // a plain token with three caveats (its verified set has spare capacity)
	pbare     string // a genuine token without caveats
}

func newBWorld(r *rng.R) *bWorld {
	w := &bWorld{r: r, keys: map[string]macaroon.SigningKey{}, tpKeys: map[string]macaroon.EncryptionKey{},
		ids: map[string]uint64{"": 0}, strs: map[uint64]string{0: ""}, nextID: 1, tickets: map[string]uint64{}, kids: map[string]uint64{},
		csIDs: map[string]uint64{}, csSets: map[uint64]*macaroon.CaveatSet{}, vt: map[string]string{}, ct: map[string]string{}, at: map[string]string{}, cst: map[string]string{},
		slots: map[uint64]*bundle.Bundle{}, caches: map[uint64]*bundle.VerificationCache{}}
	w.keys["k1"] = macaroon.NewSigningKey()
	w.keys["k2"] = macaroon.NewSigningKey()
	w.tpKeys[bLocs[1]] = macaroon.NewEncryptionKey()
	w.tpKeys[bLocs[2]] = macaroon.NewEncryptionKey()
	one, two := uint64(1), uint64(2)
	w.reqs = []*flyio.Access{{OrgID: &one, Action: resset.ActionRead}, {OrgID: &one, Action: resset.ActionWrite}, {OrgID: &two, Action: resset.ActionRead}, {OrgID: &one, Action: resset.ActionNone}}
	rd := resset.ActionRead
	w.cavLists = [][]macaroon.Caveat{
		{&rd},
		{&flyio.Organization{ID: 1, Mask: resset.ActionRead}},
		{&flyio.Organization{ID: 1, Mask: resset.ActionAll}},        // often a duplicate of an existing caveat
		{&macaroon.ValidityWindow{NotBefore: 2, NotAfter: 1 << 41}}, // harmless
	}
	// scripted only (index 4): a restrictive caveat followed by a third-party caveat for tp1 -- Add refuses it on every token
	// that already has a tp1 caveat, so Bundle.Attenuate fails as a whole on a bundle holding such a token
	none := resset.ActionNone
	c3, _ := macaroon.NewCaveat3P(w.tpKeys[bLocs[1]], bLocs[1])
	w.cavLists = append(w.cavLists, []macaroon.Caveat{&none, c3})
	return w
}

func (w *bWorld) id(s string) uint64 {
	if v, ok := w.ids[s]; ok {
		return v
	}
	w.ids[s] = w.nextID
	w.strs[w.nextID] = s
	w.nextID++
	return w.nextID - 1
}

func (w *bWorld) ticketID(t []byte) uint64 {
	k := string(t)
	if v, ok := w.tickets[k]; ok {
		return v
	}
	w.tickets[k] = uint64(len(w.tickets) + 1)
	return w.tickets[k]
}

func (w *bWorld) kidID(m *macaroon.Macaroon) uint64 {
	if m.Location != bLocs[0] {
		// a discharge's key-id is a ticket (or junk that equals no ticket)
		if v, ok := w.tickets[string(m.Nonce.KID)]; ok {
			return v
		}
	}
	k := string(m.Nonce.KID)
	if v, ok := w.kids[k]; ok {
		return v
	}
	w.kids[k] = uint64(1000 + len(w.kids))
	return w.kids[k]
}

func (w *bWorld) csID(set *macaroon.CaveatSet) uint64 {
	b, err := set.MarshalMsgpack()
	k := hex.EncodeToString(b)
	if err != nil {
		k = "err"
	}
	if v, ok := w.csIDs[k]; ok {
		return v
	}
	id := uint64(len(w.csIDs) + 1)
	w.csIDs[k] = id
	w.csSets[id] = set
	for ri, rq := range w.reqs {
		ok := set.Validate(rq) == nil
		w.ct[fmt.Sprintf("%d/%d", id, ri)] = coqw.Pair(coqw.Pair(coqw.N(id), coqw.N(uint64(ri))), coqw.Bool(ok))
	}
	return id
}

func macOf(str string) *macaroon.Macaroon {
	toks, err := macaroon.Parse(str)
	if err != nil || len(toks) != 1 {
		return nil
	}
	m, err := macaroon.Decode(toks[0])
	if err != nil {
		return nil
	}
	return m
}

// model term of a concrete bundle token
func (w *bWorld) tokCoq(t bundle.Token) string {
	id := w.id(t.String())
	switch tt := t.(type) {
	case bundle.NonMacaroon:
		return coqw.App("TNon", coqw.N(id))
	case *bundle.MalformedMacaroon:
		return coqw.App("TMal", coqw.N(id))
	case bundle.Macaroon:
		m := tt.UnsafeMacaroon()
		// register tickets first so that discharges' key-ids resolve
		var tks []string
		for _, c := range macaroon.GetCaveats[*macaroon.Caveat3P](&m.UnsafeCaveats) {
			tks = append(tks, coqw.Pair(coqw.N(bLocID(c.Location)), coqw.N(w.ticketID(c.Ticket))))
		}
		mc := coqw.App("mkMac", coqw.N(id), coqw.N(bLocID(m.Location)), coqw.N(w.kidID(m)), coqw.List(tks))
		return coqw.App("TUnv", mc)
	}
	panic("tokCoq")
}

func (w *bWorld) resolver() bundle.KeyResolver {
	return bundle.WithKeys(map[string]macaroon.SigningKey{"k1": w.keys["k1"], "k2": w.keys["k2"]}, map[string][]macaroon.EncryptionKey{bLocs[1]: {w.tpKeys[bLocs[1]]}, bLocs[2]: {w.tpKeys[bLocs[2]]}})
}

// direct (outside any bundle) verification of every permission token currently in b with all of b's discharges
func (w *bWorld) recordDirect(b *bundle.Bundle) {
	var perms []string
	var disIDs []uint64
	var disBytes [][]byte
	bundle.ForEach(b, func(t bundle.Macaroon) {
		if t.Location() == bLocs[0] {
			perms = append(perms, t.String())
		} else {
			disIDs = append(disIDs, w.id(t.String()))
			toks, _ := macaroon.Parse(t.String())
			disBytes = append(disBytes, toks[0])
		}
	})
	for _, p := range perms {
		key := fmt.Sprintf("%d/%v", w.id(p), disIDs)
		if _, ok := w.vt[key]; ok {
			continue
		}
		res := "None"
		if m := macOf(p); m != nil {
			if k, ok := w.keys[string(m.Nonce.KID)]; ok {
				if set, err := m.Verify(k, disBytes, map[string][]macaroon.EncryptionKey{bLocs[1]: {w.tpKeys[bLocs[1]]}, bLocs[2]: {w.tpKeys[bLocs[2]]}}); err == nil {
					res = "(Some " + coqw.N(w.csID(set)) + ")"
				}
			}
		}
		w.vt[key] = coqw.Pair(coqw.Pair(coqw.N(w.id(p)), coqw.ListOf(disIDs, coqw.N)), res)
	}
}

// direct attenuation of every permission token in b with caveat list cl
func (w *bWorld) recordAtt(b *bundle.Bundle, cl uint64) {
	bundle.ForEach(b, func(t bundle.Macaroon) {
		if t.Location() != bLocs[0] {
			return
		}
		key := fmt.Sprintf("%d/%d", w.id(t.String()), cl)
		m := macOf(t.String())
		before := len(m.UnsafeCaveats.Caveats)
		err := m.Add(w.cavLists[cl]...)
		res := "None"
		if err == nil {
			s, _ := m.String()
			res = "(Some " + coqw.N(w.id(s)) + ")"
			if vm, ok := t.(*bundle.VerifiedMacaroon); ok {
				old := w.csID(vm.Caveats)
				cp, _ := vm.Caveats.Clone()
				cp.Caveats = append(cp.Caveats, m.UnsafeCaveats.Caveats[before:]...)
				w.cst[fmt.Sprintf("%d/%d", old, cl)] = coqw.Pair(coqw.Pair(coqw.N(old), coqw.N(cl)), coqw.N(w.csID(cp)))
			}
		}
		w.at[key] = coqw.Pair(coqw.Pair(coqw.N(w.id(t.String())), coqw.N(cl)), res)
	})
}

type loggingVerifier struct {
	w     *bWorld
	inner bundle.Verifier
}

func (l *loggingVerifier) Verify(ctx context.Context, d map[bundle.Macaroon][]bundle.Macaroon) map[bundle.Macaroon]bundle.VerificationResult {
	for p := range d {
		l.w.innerLog = append(l.w.innerLog, l.w.id(p.String()))
	}
	return l.inner.Verify(ctx, d)
}

func predOf(p string, loc uint64) (bundle.Filter, string) {
	switch p {
	case "PAll":
		return bundle.KeepAll, p
	case "PNone":
		return bundle.KeepNone, p
	case "PPerm":
		return bundle.LocationFilter(bLocs[0]).Predicate(), p
	case "PNotPerm":
		return bundle.Not(bundle.LocationFilter(bLocs[0]).Predicate()), p
	case "PWellFormed":
		return bundle.IsWellFormedMacaroon, p
	case "PVerified":
		return bundle.IsVerifiedMacaroon, p
	case "PNonMac":
		return bundle.IsNonMacaroon, p
	case "PHas3P":
		return bundle.Predicate(bundle.HasCaveat[*macaroon.Caveat3P]), p
	}
	return bundle.LocationFilter(bLocs[loc]), coqw.App("PLoc", coqw.N(loc)) // a non-Predicate Filter (exercises Count's other branch)
}

// randFilt: a Filter of the bundle API and its model term
func (w *bWorld) randFilt(r *rng.R, b *bundle.Bundle, depth int) (bundle.Filter, string) {
	k := r.Intn(4)
	if depth <= 0 && k == 3 {
		k = r.Intn(3)
	}
	switch k {
	case 0:
		p, pc := predOf(rng.Pick(r, []string{"PAll", "PNone", "PPerm", "PNotPerm", "PWellFormed", "PVerified", "PNonMac", "PLoc", "PHas3P"}), uint64(r.Intn(4)))
		return p, coqw.App("FPred", pc)
	case 1:
		tp := uint64(1 + r.Intn(2))
		return b.IsMissingDischarge(bLocs[tp]), coqw.App("FMissing", coqw.N(tp))
	case 2:
		var rqs []uint64
		var accs []macaroon.Access
		for n := 1 + r.Intn(2); n > 0; n-- {
			q := uint64(r.Intn(len(w.reqs)))
			rqs = append(rqs, q)
			accs = append(accs, w.reqs[q])
		}
		if len(rqs) == 1 && rqs[0] == 3 && r.Bool() {
			// flyio.IsForOrg(o) is AllowsAccess for the org-level request without an action (request 3)
			return flyio.IsForOrg(1), coqw.App("FAllows", coqw.ListOf(rqs, coqw.N))
		}
		return bundle.AllowsAccess(accs...), coqw.App("FAllows", coqw.ListOf(rqs, coqw.N))
	}
	f, fc := w.randFilt(r, b, depth-1)
	return b.WithDischarges(f), coqw.App("FWithDis", fc)
}

func zl(ids []uint64) []int64 {
	o := []int64{int64(len(ids))}
	for _, x := range ids {
		o = append(o, int64(x))
	}
	return o
}

func obsCoq(obs [][]int64) string {
	return coqw.ListOf(obs, func(o []int64) string { return coqw.ListOf(o, coqw.Z) })
}

func sortedVals(m map[string]string) []string {
	ks := make([]string, 0, len(m))
	for k := range m {
		ks = append(ks, k)
	}
	sort.Strings(ks)
	o := make([]string, 0, len(ks))
	for _, k := range ks {
		o = append(o, m[k])
	}
	return o
}

// pool of token strings for one scenario
func (w *bWorld) pool() (perms, dis, junk []string) {
	r := w.r
	mk := func(kid string, key macaroon.SigningKey, loc string, tps ...string) *macaroon.Macaroon {
		m, _ := macaroon.New([]byte(kid), loc, key)
		m.Add(&flyio.Organization{ID: 1, Mask: resset.ActionAll})
		for _, tp := range tps {
			m.Add3P(w.tpKeys[tp], tp)
		}
		return m
	}
	str := func(m *macaroon.Macaroon) string { s, _ := m.String(); return s }
	discharge := func(m *macaroon.Macaroon, tp string, key macaroon.EncryptionKey, cavs ...macaroon.Caveat) string {
		tks := m.TicketsForThirdParty(tp)
		if len(tks) == 0 {
			return ""
		}
		_, dm, err := macaroon.DischargeTicket(key, tp, tks[0])
		if err != nil {
			return ""
		}
		dm.Add(cavs...)
		return str(dm)
	}
	rd := resset.ActionRead
	p0 := mk("k1", w.keys["k1"], bLocs[0])                     // plain
	p1 := mk("k1", w.keys["k1"], bLocs[0], bLocs[1])           // needs tp1
	p2 := mk("k2", w.keys["k2"], bLocs[0], bLocs[1], bLocs[2]) // needs tp1 and tp2
	w.tpKeys["other-tp1"] = macaroon.NewEncryptionKey()
	p3, _ := macaroon.New([]byte("k1"), bLocs[0], w.keys["k1"])
	p3.Add(&flyio.Organization{ID: 1, Mask: resset.ActionAll})
	p3.Add3P(w.tpKeys["other-tp1"], bLocs[1]) // a tp1 ticket that tp1's key cannot open
	p4, _ := macaroon.New([]byte("k1"), bLocs[0], w.keys["k1"])
	p4.Add(&flyio.Organization{ID: 2, Mask: resset.ActionAll}) // clears only requests about organisation 2
	p1a, _ := p1.Clone()
	p1a.Add(&rd)                                                                                      // attenuated variant of p1
	pbad := mk("k1", macaroon.NewSigningKey(), bLocs[0])                                              // wrongly keyed
	punk := mk("zz", w.keys["k1"], bLocs[0])                                                          // unknown key-id
	pempty := mk("zy", macaroon.SigningKey{}, bLocs[0])                                               // unknown key-id, signed under the empty key (what a missing map entry yields)
	pkid, _ := macaroon.New(p1.TicketsForThirdParty(bLocs[1])[0], bLocs[0], macaroon.NewSigningKey()) // a PERMISSION-location token whose key-id is a ticket: never a discharge
	pforeign := mk("k1", w.keys["k1"], bLocs[3])                                                      // foreign location: never a permission token
	p5, _ := macaroon.New([]byte("k1"), bLocs[0], w.keys["k1"])
	p5.Add(&flyio.Organization{ID: 1, Mask: resset.ActionAll}, &macaroon.ValidityWindow{NotBefore: 0, NotAfter: 1 << 41}, &macaroon.ValidityWindow{NotBefore: 1, NotAfter: 1 << 41})
	w.p5 = str(p5)
	pbare, _ := macaroon.New([]byte("k1"), bLocs[0], w.keys["k1"]) // genuine and without any caveat: its verified caveat set is empty
	w.pbare = str(pbare)
	perms = []string{str(p0), str(p1), str(p2), str(p1a), str(pbad), str(punk), str(p3), str(p4), str(p4), str(pempty), str(pkid)}
	d1 := discharge(p1, bLocs[1], w.tpKeys[bLocs[1]])
	d2a := discharge(p2, bLocs[1], w.tpKeys[bLocs[1]], &rd)
	d2b := discharge(p2, bLocs[2], w.tpKeys[bLocs[2]])
	// a discharge for a ticket of a token that is not in the header pool (extraneous)
	px := mk("k1", w.keys["k1"], bLocs[0], bLocs[1])
	dx := discharge(px, bLocs[1], w.tpKeys[bLocs[1]])
	// variants of one discharge sharing its nonce (same ticket, same random part): an extra caveat; a corrupted tail
	_, dv, _ := macaroon.DischargeTicket(w.tpKeys[bLocs[1]], bLocs[1], p1.TicketsForThirdParty(bLocs[1])[0])
	dvCopy := *dv
	dvCopy.UnsafeCaveats = *macaroon.NewCaveatSet()
	dvCopy.Add(&macaroon.ValidityWindow{NotBefore: 1, NotAfter: 2}) // expired window: clears nothing
	dvBad := *dv
	dvBad.UnsafeCaveats = *macaroon.NewCaveatSet()
	sA, sB := str(dv), str(&dvCopy)
	dvBad.Tail = append([]byte{}, dv.Tail...)
	dvBad.Tail[0] ^= 1
	sBad := str(&dvBad)
	// right ticket, wrong secret
	fake, _ := macaroon.New(p1.TicketsForThirdParty(bLocs[1])[0], bLocs[1], macaroon.NewSigningKey())
	// same nonce AND same tail as the genuine discharge, but an extra (unsigned) caveat: never verifies
	dvTail := *dv
	dvTail.UnsafeCaveats = *macaroon.NewCaveatSet(&macaroon.ValidityWindow{NotBefore: 1, NotAfter: 1 << 40})
	dvTail.Tail = append([]byte{}, dv.Tail...)
	sTail := str(&dvTail)
	dis = []string{d1, d2a, d2b, dx, str(fake), str(pforeign), sA, sB, sBad, sTail}
	w.sameNonce = []string{sA, sB, sBad, sTail}
	// forgeries of the plain permission token that keep its nonce and tail: caveats stripped / one appended without signing
	pStrip := *p0
	pStrip.UnsafeCaveats = *macaroon.NewCaveatSet()
	pStrip.Tail = append([]byte{}, p0.Tail...)
	pPlus := *p0
	pPlus.UnsafeCaveats = *macaroon.NewCaveatSet(append(append([]macaroon.Caveat{}, p0.UnsafeCaveats.Caveats...), &flyio.Organization{ID: 2, Mask: resset.ActionAll})...)
	pPlus.Tail = append([]byte{}, p0.Tail...)
	w.sameTail = []string{str(p0), str(&pStrip), str(&pPlus)}
	perms = append(perms, str(&pStrip))
	junk = []string{"fo1_abc", "hello", "fm2_!!!", "fm2_" + "AAAA", "", "fm1r_" + strings.TrimPrefix(str(p0), "fm2_")}
	_ = r
	return
}

func genBundle(c *ctx, cached bool) {
	name := "bundle-hist"
	if cached {
		name = "cache-hist"
	}
	st := c.set.Stream(name, "Corr.RunB", "run", 60)
	n := 250
	if c.thorough {
		n = 6000
	}
	if cached {
		knownF7b(c, st)
		if f := cacheTTLOracle(c); f != "" {
			st.Add(&cs.Case{Coq: "(KBun (mkTab [] [] [] []) [] [])", Class: "ttl-expiry", Nontrivial: true, Desc: map[string]any{"what": "real-time TTL: miss, hit inside the TTL, then a presentation after the first entry's expiry"}, OracleFail: f})
		} else {
			st.Add(&cs.Case{Coq: "(KBun (mkTab [] [] [] []) [CNew 0%N true 1%nat] [[]])", Class: "ttl-expiry", Nontrivial: true, Desc: map[string]any{"what": "real-time TTL scenario (1 s): passed"}})
		}
	}
	if cached {
		if f := cacheVsPlainOnAliases(); f != "" {
			st.Add(&cs.Case{Coq: "(KBun (mkTab [] [] [] []) [] [])", Class: "cache-vs-plain-aliases", Nontrivial: true, Desc: map[string]any{"what": "bundles sharing token objects, verified and attenuated in turn: cache answer = plain verifier's answer"}, OracleFail: f})
		}
	}
	for name, f := range map[string]string{"small-cache": smallCacheOracle(), "spare-capacity-aliases": spareCapacityAliasOracle(), "non-canonical-tokens-in-bundle": nonCanonicalInBundleOracle()} {
		if f != "" {
			st.Add(&cs.Case{Coq: "(KBun (mkTab [] [] [] []) [] [])", Class: name, Nontrivial: true, Desc: map[string]any{"what": name}, OracleFail: f})
		}
	}
	// a verifier that caches is a verifier: the attacker's presentations get the plain verifier's answer (also with a discharge of
	// several KiB, so that cache keys are long)
	{
		for i := 0; i < 12; i++ {
			if f := cacheDischargeOracle(c.r.Fork()); f != "" {
				st.Add(&cs.Case{Coq: "(KBun (mkTab [] [] [] []) [] [])", Class: "cache-vs-plain-discharges", Nontrivial: true, Desc: map[string]any{"what": "genuine presentation cached, then the attacker's presentations: cache answer = plain verifier's answer"}, OracleFail: f})
				break
			}
		}
	}
	if !cached {
		// Verify, Attenuate with a third-party caveat, Validate without verifying again: the bundle's only token now has an
		// undischarged third-party caveat, so the bundle must refuse (the attenuated token's string is random -- fresh seal
		// nonces -- hence an implementation-side oracle rather than a model operation)
		for i := 0; i < 10; i++ {
			if f := bundleAttenuate3P(c.r.Fork()); f != "" {
				st.Add(&cs.Case{Coq: "(KBun (mkTab [] [] [] []) [] [])", Class: "attenuate-3p", Nontrivial: true, Desc: map[string]any{"what": "Verify; Attenuate(third-party caveat); Validate"}, OracleFail: f})
				break
			}
		}
		for i := 0; i < 6; i++ {
			if f := partialVerifierOracle(c.r.Fork()); f != "" {
				st.Add(&cs.Case{Coq: "(KBun (mkTab [] [] [] []) [] [])", Class: "partial-verifier", Nontrivial: true, Desc: map[string]any{"what": "Verify with a Verifier that answers for only some tokens"}, OracleFail: f})
				break
			}
		}
		if f := bundleAttenuateFailed(c.r.Fork()); f != "" {
			st.Add(&cs.Case{Coq: "(KBun (mkTab [] [] [] []) [] [])", Class: "attenuate-failed-token", Nontrivial: true, Desc: map[string]any{"what": "Verify (fails); Attenuate; Discharge; Verify; Validate"}, OracleFail: f})
		}
	}
	for i := 0; i < n; i++ {
		r := c.r.Fork()
		w := newBWorld(r)
		perms, dis, junk := w.pool()
		// register every ticket of the pool up front so that a discharge's key-id resolves wherever it appears
		for _, ps := range perms {
			if m := macOf(ps); m != nil {
				for _, c3 := range macaroon.GetCaveats[*macaroon.Caveat3P](&m.UnsafeCaveats) {
					w.ticketID(c3.Ticket)
				}
			}
		}
		var ops []string
		var obs [][]int64
		var desc []string
		oracle := ""
		rec := func(op string, ob []int64) {
			ops = append(ops, op)
			obs = append(obs, ob)
			desc = append(desc, fmt.Sprintf("%s -> %v", op, ob))
		}
		// d1 and the same-nonce variants are all valid for p1's ticket: at most one of them per bundle
		// (two different valid discharges for one ticket is known finding F7b, reproduced by its own case)
		group := map[string]bool{dis[0]: true}
		for _, g := range w.sameNonce[:2] {
			group[g] = true
		}
		randHeaderG := func(onePerm, allowGroup bool) string {
			var parts []string
			np := 1 + r.Intn(3)
			if onePerm {
				np = 1
			}
			for k := 0; k < np; k++ {
				parts = append(parts, rng.Pick(r, perms))
			}
			usedGroup := !allowGroup
			for k := r.Intn(4); k > 0; k-- {
				d := rng.Pick(r, dis)
				if group[d] {
					if usedGroup {
						continue
					}
					usedGroup = true
				}
				parts = append(parts, d)
			}
			if !cached {
				for k := r.Intn(3); k > 0; k-- {
					parts = append(parts, rng.Pick(r, junk))
				}
			}
			r2 := r.Fork()
			sort.Slice(parts, func(a, b int) bool { return r2.Bool() })
			h := strings.Join(parts, ",")
			if r.Bool() {
				h = "FlyV1 " + h
			}
			return h
		}
		randHeader := func(onePerm bool) string { return randHeaderG(onePerm, true) }
		toksOf := func(hdr string) string {
			all, _ := bundle.ParseBundleWithFilter(bLocs[0], hdr, bundle.KeepAll)
			var ts []string
			bundle.ForEach(all, func(t bundle.Token) { ts = append(ts, w.tokCoq(t)) })
			return coqw.List(ts)
		}
		nslots := uint64(0)
		newSlot := func() uint64 { nslots++; return nslots - 1 }
		smallCache := false
		if cached {
			cap := rng.Pick(r, []int{1, 2, 8})
			live := !r.P(1, 4)
			ttl := time.Hour
			if !live {
				ttl = -time.Hour
			}
			smallCache = cap < 8
			w.caches[0] = bundle.NewVerificationCache(&loggingVerifier{w, w.resolver()}, ttl, cap)
			rec(coqw.App("CNew", coqw.N(0), coqw.Bool(live), coqw.Nat(cap)), nil)
		}
		var hdrs []string
		parse := func() uint64 {
			s := newSlot()
			hdr := randHeader(smallCache)
			if cached && len(hdrs) > 0 && r.Bool() {
				hdr = rng.Pick(r, hdrs) // the same header in several bundles: cache hits, aliasing
			}
			hdrs = append(hdrs, hdr)
			ts := toksOf(hdr)
			if r.P(1, 5) && !cached {
				b, err := bundle.ParseBundleWithFilter(bLocs[0], hdr, bundle.KeepAll)
				w.slots[s] = b
				rec(coqw.App("BParseAll", coqw.N(s), ts), []int64{b2i64x(err == nil)})
			} else {
				b, err := bundle.ParseBundle(bLocs[0], hdr)
				w.slots[s] = b
				rec(coqw.App("BParse", coqw.N(s), ts), []int64{b2i64x(err == nil)})
			}
			return s
		}
		parseHdr := func(hdr string) uint64 {
			s := newSlot()
			hdrs = append(hdrs, hdr)
			ts := toksOf(hdr)
			b, err := bundle.ParseBundle(bLocs[0], hdr)
			w.slots[s] = b
			rec(coqw.App("BParse", coqw.N(s), ts), []int64{b2i64x(err == nil)})
			return s
		}
		verifyCached := func(s uint64) {
			b := w.slots[s]
			w.recordDirect(b)
			w.innerLog = nil
			sets, _ := b.Verify(context.Background(), w.caches[0])
			var ids []uint64
			for _, set := range sets {
				ids = append(ids, w.csID(set))
			}
			lg := append([]uint64{}, w.innerLog...)
			sort.Slice(lg, func(a, b int) bool { return lg[a] < lg[b] })
			rec(coqw.App("BVerifyCached", coqw.N(s), coqw.N(0)), append(zl(ids), zl(lg)...))
		}
		doDischarge := func(s, tp uint64, good bool) {
			b := w.slots[s]
			key := w.tpKeys[bLocs[tp]]
			if !good {
				key = macaroon.NewEncryptionKey()
			}
			// make sure every ticket of the bundle is registered before the new discharges are read
			bundle.ForEach(b, func(t bundle.Token) { w.tokCoq(t) })
			// the model's key_ok: the key opens EVERY undischarged ticket of that location (else nothing is added)
			for _, tk := range b.UndischargedTicketsForThirdParty(bLocs[tp]) {
				if _, _, derr := macaroon.DischargeTicket(key, bLocs[tp], tk); derr != nil {
					good = false
				}
			}
			first := w.nextID
			before := b.Len()
			// the third party's decision: approve with no caveats; refuse; or hand back caveats the discharge cannot take
			// (two third-party caveats for one location) -- any failure means the whole Discharge fails and adds nothing
			cb := func(cv []macaroon.Caveat) ([]macaroon.Caveat, error) { return nil, nil }
			if len(b.UndischargedTicketsForThirdParty(bLocs[tp])) > 0 {
				switch r.Intn(6) {
				case 0:
					cb = func([]macaroon.Caveat) ([]macaroon.Caveat, error) { return nil, fmt.Errorf("user said no") }
					good = false
				case 1:
					cb = func([]macaroon.Caveat) ([]macaroon.Caveat, error) {
						c1, _ := macaroon.NewCaveat3P(macaroon.NewEncryptionKey(), "https://nested.test")
						c2, _ := macaroon.NewCaveat3P(macaroon.NewEncryptionKey(), "https://nested.test")
						return []macaroon.Caveat{c1, c2}, nil
					}
					good = false
				}
			}
			err := b.Discharge(bLocs[tp], key, cb)
			idx := 0
			bundle.ForEach(b, func(t bundle.Token) {
				if idx >= before {
					w.id(t.String())
				}
				idx++
			})
			rec(coqw.App("BDischarge", coqw.N(s), coqw.N(tp), coqw.Bool(good), coqw.N(first)), []int64{b2i64x(err == nil)})
		}
		if !cached && r.P(1, 6) {
			// all or nothing: two tokens with a ticket for tp1, one of which tp1's key cannot open -- Discharge must fail and
			// leave the bundle as it was; then the same with only the openable one
			s1 := parseHdr(perms[1] + "," + perms[6])
			doDischarge(s1, 1, true)
			rec(coqw.App("BLen", coqw.N(s1)), []int64{int64(w.slots[s1].Len())})
			rec(coqw.App("BHeader", coqw.N(s1)), w.headerObs(w.slots[s1]))
			s2 := parseHdr(perms[1] + "," + perms[2])
			doDischarge(s2, 1, true)
			rec(coqw.App("BLen", coqw.N(s2)), []int64{int64(w.slots[s2].Len())})
			doDischarge(s2, 2, r.Bool())
			rec(coqw.App("BHeader", coqw.N(s2)), w.headerObs(w.slots[s2]))
		}
		validateAll := func(s uint64) {
			for q := range w.reqs {
				rec(coqw.App("BValidate", coqw.N(s), coqw.N(uint64(q))), []int64{b2i64x(w.slots[s].Validate(w.reqs[q]) == nil)})
			}
		}
		if !cached && r.P(1, 6) {
			// a failed Attenuate leaves the bundle as it was: verified plain token + a token that already has a tp1 caveat;
			// attenuating with [no action, third-party caveat for tp1] fails on the second one
			// (the second token stays undischarged, so only the plain one can clear anything)
			s := parseHdr(perms[0] + "," + perms[1])
			b := w.slots[s]
			w.recordDirect(b)
			sets, _ := b.Verify(context.Background(), w.resolver())
			var ids []uint64
			for _, set := range sets {
				ids = append(ids, w.csID(set))
			}
			rec(coqw.App("BVerify", coqw.N(s)), zl(ids))
			validateAll(s)
			w.recordAtt(b, 4)
			err := b.Attenuate(w.cavLists[4]...)
			rec(coqw.App("BAttenuate", coqw.N(s), coqw.N(4)), []int64{b2i64x(err == nil)})
			validateAll(s)
			rec(coqw.App("BHeader", coqw.N(s)), w.headerObs(b))
		}
		if !cached && r.P(1, 8) {
			// the bundle of an empty header (one empty non-macaroon entry) and its copies (finding F14)
			s := parseHdr(rng.Pick(r, []string{"", "FlyV1 ", " ", ",", "FlyV1"}))
			rec(coqw.App("BLen", coqw.N(s)), []int64{int64(w.slots[s].Len())})
			rec(coqw.App("BHeader", coqw.N(s)), w.headerObs(w.slots[s]))
			d := newSlot()
			w.slots[d] = w.slots[s].Clone()
			rec(coqw.App("BClone", coqw.N(d), coqw.N(s)), nil)
			rec(coqw.App("BLen", coqw.N(d)), []int64{int64(w.slots[d].Len())})
			rec(coqw.App("BHeader", coqw.N(d)), w.headerObs(w.slots[d]))
		}
		if !cached && r.P(1, 6) {
			// ONE token must clear all the accesses of a call: two verified tokens for different organisations, a request
			// about each -- every request is cleared by some token, no token clears both
			s := parseHdr(perms[0] + "," + perms[7])
			b := w.slots[s]
			w.recordDirect(b)
			sets, _ := b.Verify(context.Background(), w.resolver())
			var ids []uint64
			for _, set := range sets {
				ids = append(ids, w.csID(set))
			}
			rec(coqw.App("BVerify", coqw.N(s)), zl(ids))
			validateAll(s)
			for _, pair := range [][]uint64{{0, 2}, {2, 0}, {0, 1}, {2, 2}} {
				rec(coqw.App("BValidateMany", coqw.N(s), coqw.ListOf(pair, coqw.N)), []int64{b2i64x(b.Validate(w.reqs[pair[0]], w.reqs[pair[1]]) == nil)})
			}
		}
		if cached && smallCache == false && r.P(1, 4) {
			// two permission tokens that share a nonce (a token and its attenuation; a token and a forgery of it) verified in
			// ONE call, then each presented alone: every result belongs to its own token
			pair := rng.Pick(r, [][2]string{{perms[1], perms[3]}, {w.sameTail[0], w.sameTail[1]}, {w.sameTail[0], w.sameTail[2]}})
			tail := ""
			if pair[0] == perms[1] {
				tail = "," + dis[0]
			}
			first := pair[0] + "," + pair[1]
			if r.Bool() {
				first = pair[1] + "," + pair[0]
			}
			s := parseHdr(first + tail)
			verifyCached(s)
			for _, alone := range []string{pair[1], pair[0]} {
				s2 := parseHdr(alone + tail)
				verifyCached(s2)
				validateAll(s2)
			}
		}
		if cached && r.P(1, 4) {
			// two bundles get the same token's result through one cache and then attenuate differently: what one adds never
			// shows up in (or disappears from) the other
			tok := w.p5
			if i%2 == 1 {
				tok = w.pbare
			}
			s1, s2 := parseHdr(tok), parseHdr(tok)
			verifyCached(s1)
			verifyCached(s2)
			for _, sc := range [][2]uint64{{s1, 0}, {s2, 3}} {
				w.recordAtt(w.slots[sc[0]], sc[1])
				err := w.slots[sc[0]].Attenuate(w.cavLists[sc[1]]...)
				rec(coqw.App("BAttenuate", coqw.N(sc[0]), coqw.N(sc[1])), []int64{b2i64x(err == nil)})
			}
			validateAll(s1)
			validateAll(s2)
			// and a later presentation of the unattenuated token gets what the verifier gives it
			s3 := parseHdr(tok)
			verifyCached(s3)
			validateAll(s3)
		}
		if cached && r.P(1, 4) {
			// the same permission token with discharges that share a nonce but differ in caveats / signature
			order := append([]string{}, w.sameNonce...)
			r3 := r.Fork()
			sort.Slice(order, func(a, b int) bool { return r3.Bool() })
			for _, d := range order {
				s := parseHdr(perms[1] + "," + d)
				verifyCached(s)
				rec(coqw.App("BValidate", coqw.N(s), coqw.N(0)), []int64{b2i64x(w.slots[s].Validate(w.reqs[0]) == nil)})
			}
		} else if cached && r.P(1, 4) {
			// permission tokens that share nonce and tail (the genuine one and forgeries of it) through one cache
			order := append([]string{}, w.sameTail...)
			r3 := r.Fork()
			sort.Slice(order, func(a, b int) bool { return r3.Bool() })
			for _, t := range order {
				s := parseHdr(t)
				verifyCached(s)
				q := uint64(r.Intn(len(w.reqs)))
				rec(coqw.App("BValidate", coqw.N(s), coqw.N(q)), []int64{b2i64x(w.slots[s].Validate(w.reqs[q]) == nil)})
			}
		} else {
			parse()
		}
		steps := 4 + r.Intn(8)
		for k := 0; k < steps; k++ {
			s := uint64(r.Intn(int(nslots)))
			b := w.slots[s]
			x := r.Intn(17)
			if cached && x > 9 && x < 14 {
				x = 3
			}
			switch x {
			case 14:
				// filters that are not predicates: missing discharges, the tokens a request is allowed by, "... and their discharges"
				f, fc := w.randFilt(r, b, 2)
				switch r.Intn(3) {
				case 0:
					d := newSlot()
					w.slots[d] = b.Select(f)
					rec(coqw.App("BSelectF", coqw.N(d), coqw.N(s), fc), nil)
					rec(coqw.App("BHeader", coqw.N(d)), w.headerObs(w.slots[d]))
					nslots-- // derived bundles share token objects with their parent: scenarios only read them
					delete(w.slots, d)
				case 1:
					b.Filter(f)
					rec(coqw.App("BFilterF", coqw.N(s), fc), nil)
				default:
					rec(coqw.App("BCountF", coqw.N(s), fc), []int64{int64(b.Count(f)), b2i64x(b.Any(f))})
				}
			case 15:
				if r.Bool() {
					rec(coqw.App("BIsEmpty", coqw.N(s)), []int64{b2i64x(b.IsEmpty())})
				} else {
					rec(coqw.App("BError", coqw.N(s)), []int64{b2i64x(b.Error() != nil)})
				}
			case 16:
				if cached {
					w.caches[0].Purge()
					rec(coqw.App("CPurge", coqw.N(0)), nil)
				} else {
					rec(coqw.App("BIsEmpty", coqw.N(s)), []int64{b2i64x(b.IsEmpty())})
				}
			case 0:
				parse()
			case 1:
				hdr := randHeaderG(false, false)
				ts := toksOf(hdr)
				err := b.AddTokens(hdr)
				rec(coqw.App("BAdd", coqw.N(s), ts), []int64{b2i64x(err == nil)})
			case 2:
				p, pc := predOf(rng.Pick(r, []string{"PAll", "PNone", "PPerm", "PNotPerm", "PWellFormed", "PVerified", "PNonMac", "PLoc", "PHas3P"}), uint64(r.Intn(4)))
				if r.Bool() {
					d := newSlot()
					w.slots[d] = b.Select(p)
					// derived bundles share token objects with their parent: scenarios only read them
					rec(coqw.App("BSelect", coqw.N(d), coqw.N(s), pc), nil)
					rec(coqw.App("BHeader", coqw.N(d)), w.headerObs(w.slots[d]))
					nslots-- // not addressable by later mutating steps
					delete(w.slots, d)
				} else {
					b.Filter(p)
					rec(coqw.App("BFilter", coqw.N(s), pc), nil)
				}
			case 3, 4:
				if smallCache && bundle.Reduce(b, func(n int, t bundle.Macaroon) int {
					if t.Location() == bLocs[0] {
						return n + 1
					}
					return n
				}) > 1 {
					continue // with a tiny LRU the order in which a bundle's permission tokens hit the cache is map-order random
				}
				w.recordDirect(b)
				var sets []*macaroon.CaveatSet
				if cached {
					w.innerLog = nil
					sets, _ = b.Verify(context.Background(), w.caches[0])
				} else {
					sets, _ = b.Verify(context.Background(), w.resolver())
				}
				var ids []uint64
				for _, set := range sets {
					ids = append(ids, w.csID(set))
				}
				if cached {
					lg := append([]uint64{}, w.innerLog...)
					sort.Slice(lg, func(a, b int) bool { return lg[a] < lg[b] })
					rec(coqw.App("BVerifyCached", coqw.N(s), coqw.N(0)), append(zl(ids), zl(lg)...))
				} else {
					rec(coqw.App("BVerify", coqw.N(s)), zl(ids))
				}
				// implementation-side oracle: the bundle clears a request iff some verified set (from the direct calls) clears it
				for ri, rq := range w.reqs {
					got := b.Validate(rq) == nil
					want := false
					for _, set := range sets {
						want = want || set.Validate(rq) == nil
					}
					if got != want && oracle == "" {
						oracle = fmt.Sprintf("bundle decision for request %d is %v but its verified tokens say %v", ri, got, want)
					}
				}
			case 5, 6:
				rq := uint64(r.Intn(len(w.reqs)))
				rec(coqw.App("BValidate", coqw.N(s), coqw.N(rq)), []int64{b2i64x(b.Validate(w.reqs[rq]) == nil)})
			case 7:
				if r.Bool() {
					rq1, rq2 := uint64(r.Intn(len(w.reqs))), uint64(r.Intn(len(w.reqs)))
					rec(coqw.App("BValidateMany", coqw.N(s), coqw.ListOf([]uint64{rq1, rq2}, coqw.N)), []int64{b2i64x(b.Validate(w.reqs[rq1], w.reqs[rq2]) == nil)})
				} else {
					rec(coqw.App("BHeader", coqw.N(s)), w.headerObs(b))
				}
			case 8:
				rec(coqw.App("BLen", coqw.N(s)), []int64{int64(b.Len())})
				// Map / ForEach / Reduce visit exactly the tokens, in order
				strs := bundle.Map(b, func(t bundle.Token) string { return t.String() })
				cnt := bundle.Reduce(b, func(n int, t bundle.Token) int { return n + 1 })
				if nmac := bundle.Reduce(b, func(n int, t bundle.Macaroon) int { _ = t.String(); return n + 1 }); nmac != b.Count(bundle.IsWellFormedMacaroon) && oracle == "" {
					oracle = fmt.Sprintf("Reduce over the macaroons visits %d tokens, Count(IsWellFormedMacaroon) = %d", nmac, b.Count(bundle.IsWellFormedMacaroon))
				}
				if (len(strs) > 0 && "FlyV1 "+strings.Join(strs, ",") != b.Header()) || cnt != b.Len() || len(strs) != b.Len() {
					if oracle == "" {
						oracle = fmt.Sprintf("Map/Reduce over the bundle disagree with Header()/Len(): %d strings, count %d, Len %d", len(strs), cnt, b.Len())
					}
				}
				// flyio.IsForOrgUnverified(o): the permission tokens whose caveats, read without verification, scope them to o
				for _, o := range []uint64{1, 2, 3} {
					want := 0
					bundle.ForEach(b, func(t bundle.Macaroon) {
						if t.Location() != bLocs[0] {
							return
						}
						if os, err := flyio.OrganizationScope(&t.UnsafeMacaroon().UnsafeCaveats); err == nil && os == o {
							want++
						}
					})
					if got := b.Count(flyio.IsForOrgUnverified(o)); got != want && oracle == "" && bLocs[0] == flyio.LocationPermission {
						oracle = fmt.Sprintf("flyio.IsForOrgUnverified(%d) selects %d tokens; %d permission tokens are scoped to that organisation", o, got, want)
					}
				}
				nm := bundle.Map(b, func(t bundle.Macaroon) string { return t.String() })
				if want := b.Count(bundle.IsWellFormedMacaroon); len(nm) != want && oracle == "" {
					oracle = fmt.Sprintf("Map over the macaroons of the bundle yields %d entries, Count(IsWellFormedMacaroon) = %d", len(nm), want)
				}
			case 9:
				cl := uint64(r.Intn(4)) // (list 4 is used by the scripted failing attenuation only)
				w.recordAtt(b, cl)
				err := b.Attenuate(w.cavLists[cl]...)
				rec(coqw.App("BAttenuate", coqw.N(s), coqw.N(cl)), []int64{b2i64x(err == nil)})
			case 10:
				doDischarge(s, uint64(1+r.Intn(2)), !r.P(1, 4))
			case 11:
				d := newSlot()
				w.slots[d] = b.Clone()
				rec(coqw.App("BClone", coqw.N(d), coqw.N(s)), nil)
			case 12:
				var o []int64
				bundle.ForEach(b, func(t bundle.Token) { w.tokCoq(t) })
				und := b.UndischargedThirdPartyTickets()
				for _, tp := range []int{1, 2} {
					var ids []uint64
					for _, tk := range und[bLocs[tp]] {
						ids = append(ids, w.ticketID(tk))
					}
					o = append(o, zl(ids)...)
				}
				rec(coqw.App("BUndischarged", coqw.N(s)), o)
			case 13:
				p, pc := predOf(rng.Pick(r, []string{"PAll", "PPerm", "PWellFormed", "PVerified", "PLoc"}), uint64(r.Intn(4)))
				rec(coqw.App("BCount", coqw.N(s), pc), []int64{int64(b.Count(p))})
			}
		}
		tab := coqw.App("mkTab", coqw.List(sortedVals(w.vt)), coqw.List(sortedVals(w.ct)), coqw.List(sortedVals(w.at)), coqw.List(sortedVals(w.cst)))
		st.Add(&cs.Case{
			Coq:        coqw.App("KBun", tab, coqw.List(ops), obsCoq(obs)),
			Desc:       map[string]any{"history": desc, "tokens": len(w.ids)},
			Class:      fmt.Sprintf("%s/%dsteps", name, steps),
			Nontrivial: len(w.vt) > 0,
			OracleFail: oracle,
		})
	}
	if !cached {
		// object sharing between a bundle and the bundles derived from it: evaluated on the heap model (c13_heap.go)
		genBundleHeap(c, c.set.Stream("bundle-heap", "Corr.RunB", "run", 40))
	}
}

// knownF7b reproduces the recorded finding F7b on every run: two distinct valid discharges for one ticket,
// header order different from their sorted order: the cache sorts the discharge list, direct verification does not.
func knownF7b(c *ctx, st *cs.Stream) {
	w := newBWorld(c.r.Fork())
	m, _ := macaroon.New([]byte("k1"), bLocs[0], w.keys["k1"])
	m.Add3P(w.tpKeys[bLocs[1]], bLocs[1])
	tk := m.TicketsForThirdParty(bLocs[1])[0]
	rd := resset.ActionRead
	mk := func(cavs ...macaroon.Caveat) string {
		_, dm, _ := macaroon.DischargeTicket(w.tpKeys[bLocs[1]], bLocs[1], tk)
		dm.Add(cavs...)
		s, _ := dm.String()
		return s
	}
	da, db := mk(), mk(&rd)
	if da > db {
		da, db = db, da
	}
	ps, _ := m.String()
	hdr := db + "," + da + "," + ps // header order is the reverse of the sorted order
	direct, _ := bundle.ParseBundle(bLocs[0], hdr)
	viaCache, _ := bundle.ParseBundle(bLocs[0], hdr)
	s1, _ := direct.Verify(context.Background(), w.resolver())
	s2, _ := viaCache.Verify(context.Background(), bundle.NewVerificationCache(w.resolver(), time.Hour, 8))
	differs := len(s1) != len(s2)
	if !differs && len(s1) == 1 {
		differs = w.csID(s1[0]) != w.csID(s2[0])
	}
	cse := &cs.Case{Coq: "(KBun (mkTab [] [] [] []) [] [])", Class: "known/F7b", Nontrivial: true,
		Desc: map[string]any{"what": "two valid discharges for one ticket in non-sorted header order: direct vs cached verification", "differs": differs, "header_tokens": 3}}
	if differs {
		cse.Known = "F7b"
		cse.OracleFail = "cached verification merges a different discharge's caveats than direct verification"
	}
	st.Add(cse)
}

// cacheTTLOracle: an acceptance is reused only until it expires - a hit must not renew the entry.
// TTL 900 ms; verify at 0 (miss), at ~500 ms (hit), at ~1100 ms: the inner verifier must be consulted again.
func cacheTTLOracle(c *ctx) string {
	w := newBWorld(c.r.Fork())
	m, _ := macaroon.New([]byte("k1"), bLocs[0], w.keys["k1"])
	hdr, _ := m.String()
	lv := &loggingVerifier{w, w.resolver()}
	cache := bundle.NewVerificationCache(lv, 900*time.Millisecond, 8)
	verify := func() int {
		w.innerLog = nil
		b, _ := bundle.ParseBundle(bLocs[0], hdr)
		b.Verify(context.Background(), cache)
		return len(w.innerLog)
	}
	t0 := time.Now()
	if verify() != 1 {
		return "first presentation did not reach the inner verifier"
	}
	time.Sleep(500*time.Millisecond - time.Since(t0))
	if verify() != 0 {
		return "second presentation inside the TTL was not served from the cache"
	}
	time.Sleep(1100*time.Millisecond - time.Since(t0))
	if verify() != 1 {
		return "presentation after the entry's expiry (t=1.1 s, TTL 0.9 s, last hit at 0.5 s) was served from the cache: a hit renewed the entry"
	}
	return ""
}

func b2i64x(b bool) int64 {
	if b {
		return 1
	}
	return 0
}

func (w *bWorld) headerObs(b *bundle.Bundle) []int64 {
	var ids []uint64
	bundle.ForEach(b, func(t bundle.Token) { ids = append(ids, w.id(t.String())) })
	// Header() must be exactly "FlyV1 " + the tokens joined in order (or empty)
	want := ""
	var ss []string
	bundle.ForEach(b, func(t bundle.Token) { ss = append(ss, t.String()) })
	if len(ss) > 0 {
		want = "FlyV1 " + strings.Join(ss, ",")
	}
	if b.Header() != want {
		ids = append(ids, 777777)
	}
	return zl(ids)
}

// bundleAttenuate3P: the bundle-level half of "an added third-party caveat makes the token demand its discharge":
// Verify, then Attenuate with a third-party caveat, then Validate WITHOUT verifying again must refuse; and after a fresh
// Verify without the new discharge the token fails.  Implementation-side oracle (returns "" when fine).
func bundleAttenuate3P(r *rng.R) string {
	key := macaroon.NewSigningKey()
	ka := macaroon.NewEncryptionKey()
	m, _ := macaroon.New([]byte("k"), "https://perm.test", key)
	m.Add(&flyio.Organization{ID: 1, Mask: resset.ActionAll})
	hdr, _ := m.String()
	b, _ := bundle.ParseBundle("https://perm.test", hdr)
	if _, err := b.Verify(context.Background(), bundle.WithKey([]byte("k"), key, nil)); err != nil {
		return "setup: " + err.Error()
	}
	one := uint64(1)
	acc := &flyio.Access{OrgID: &one, Action: resset.ActionRead}
	if b.Validate(acc) != nil {
		return "setup: verified token does not clear"
	}
	c3, _ := macaroon.NewCaveat3P(ka, "https://tp.test")
	extra := []macaroon.Caveat{c3}
	if r.Bool() {
		rd := resset.ActionRead
		extra = append([]macaroon.Caveat{&rd}, extra...)
	}
	if err := b.Attenuate(extra...); err != nil {
		return "setup: attenuate: " + err.Error()
	}
	if b.Validate(acc) == nil {
		return "bundle clears a request right after Attenuate added a third-party caveat (no discharge presented, not re-verified)"
	}
	if len(b.UndischargedTicketsForThirdParty("https://tp.test")) != 1 {
		return "attenuated bundle does not report the new undischarged ticket"
	}
	if _, err := b.Verify(context.Background(), bundle.WithKey([]byte("k"), key, nil)); err == nil {
		return "attenuated token verifies without the discharge for the added third-party caveat"
	}
	return ""
}

// bundleAttenuateFailed: a caveat added through Bundle.Attenuate sticks to EVERY permission token, also to one whose earlier
// verification failed (say, its discharge had not been fetched yet): Verify fails; Attenuate(read only) succeeds; Discharge;
// Verify succeeds; then a write must be refused by the bundle and by a server re-parsing its header.
// partialVerifierOracle: a Verifier that answers for only SOME of the permission tokens it is asked about (or for none):
// the unanswered tokens stay as they were, nothing crashes, and only answered-and-accepted tokens clear requests
func partialVerifierOracle(r *rng.R) (fail string) {
	defer func() {
		if p := recover(); p != nil {
			fail = fmt.Sprintf("panic after a Verifier answered for only some tokens: %v", p)
		}
	}()
	key := macaroon.NewSigningKey()
	var hdrs []string
	for i := 0; i < 3; i++ {
		m, _ := macaroon.New([]byte{'k', byte(i)}, bLocs[0], key)
		m.Add(&flyio.Organization{ID: uint64(i + 1), Mask: resset.ActionAll})
		s, _ := m.String()
		hdrs = append(hdrs, s)
	}
	b, _ := bundle.ParseBundle(bLocs[0], strings.Join(hdrs, ","))
	inner := bundle.WithKeys(map[string]macaroon.SigningKey{"k\x00": key, "k\x01": key, "k\x02": key}, nil)
	skip := r.Intn(3)
	partial := bundle.VerifierFunc(nil)
	_ = partial
	v := verifierOmitting{inner: inner, omitKID: []byte{'k', byte(skip)}, none: r.P(1, 4)}
	b.Verify(context.Background(), v)
	if b.Len() != 3 {
		return fmt.Sprintf("bundle has %d tokens after a partial verification, had 3", b.Len())
	}
	_ = b.Header()
	for i := 0; i < 3; i++ {
		o := uint64(i + 1)
		ok := b.Validate(&flyio.Access{OrgID: &o, Action: resset.ActionRead}) == nil
		want := i != skip && !v.none
		if ok != want {
			return fmt.Sprintf("after a Verifier that left token %d unanswered (none=%v), the request for organisation %d is cleared=%v", skip, v.none, o, ok)
		}
	}
	return ""
}

type verifierOmitting struct {
	inner   bundle.Verifier
	omitKID []byte
	none    bool
}

func (v verifierOmitting) Verify(ctx context.Context, d map[bundle.Macaroon][]bundle.Macaroon) map[bundle.Macaroon]bundle.VerificationResult {
	if v.none {
		return nil
	}
	res := v.inner.Verify(ctx, d)
	for p := range res {
		if string(p.Nonce().KID) == string(v.omitKID) {
			delete(res, p)
		}
	}
	return res
}

func bundleAttenuateFailed(r *rng.R) string {
	key := macaroon.NewSigningKey()
	ka := macaroon.NewEncryptionKey()
	m, _ := macaroon.New([]byte("k"), "https://perm.test", key)
	m.Add(&flyio.Organization{ID: 1, Mask: resset.ActionAll})
	m.Add3P(ka, "https://tp.test")
	hdr, _ := m.String()
	b, _ := bundle.ParseBundle("https://perm.test", hdr)
	ver := bundle.WithKey([]byte("k"), key, nil)
	if _, err := b.Verify(context.Background(), ver); err == nil {
		return "setup: token verified without its discharge"
	}
	rd := resset.ActionRead
	if err := b.Attenuate(&rd); err != nil {
		return "setup: attenuate: " + err.Error()
	}
	if err := b.Discharge("https://tp.test", ka, func([]macaroon.Caveat) ([]macaroon.Caveat, error) { return nil, nil }); err != nil {
		return "setup: discharge: " + err.Error()
	}
	if _, err := b.Verify(context.Background(), ver); err != nil {
		return "setup: verify after discharge: " + err.Error()
	}
	one := uint64(1)
	write := &flyio.Access{OrgID: &one, Action: resset.ActionWrite}
	if b.Validate(write) == nil {
		return "Attenuate returned nil but the caveat was not added to a token whose earlier verification had failed: the bundle clears a write after being attenuated to read-only"
	}
	fresh, _ := bundle.ParseBundle("https://perm.test", b.Header())
	if _, err := fresh.Verify(context.Background(), ver); err == nil && fresh.Validate(write) == nil {
		return "the header of a bundle attenuated to read-only clears a write at the server"
	}
	return ""
}

// cacheForgeryOracle (C01 through the caching verifier): after a genuine token was accepted through a VerificationCache,
// tokens that keep its nonce but not its caveat sequence / signature are still rejected, and an honest attenuation of it
// gets its own caveats back.
func cacheForgeryOracle(r *rng.R) string {
	key := macaroon.NewSigningKey()
	m, _ := macaroon.New([]byte("k"), bLocs[0], key)
	m.Add(&flyio.Organization{ID: 1, Mask: resset.ActionRead})
	hdr, _ := m.String()
	cache := bundle.NewVerificationCache(bundle.WithKey([]byte("k"), key, nil), time.Hour, 16)
	b, _ := bundle.ParseBundle(bLocs[0], hdr)
	if _, err := b.Verify(context.Background(), cache); err != nil {
		return "setup: genuine token rejected: " + err.Error()
	}
	att, _ := m.Clone()
	att.Add(&macaroon.ValidityWindow{NotBefore: 1, NotAfter: 2})
	ahdr, _ := att.String()
	ab, _ := bundle.ParseBundle(bLocs[0], ahdr)
	sets, err := ab.Verify(context.Background(), cache)
	if err != nil || len(sets) != 1 || len(sets[0].Caveats) != 2 {
		return fmt.Sprintf("an honest attenuation verified through the same cache yields %v (err %v), not its own two caveats", sets, err)
	}
	// the same token with a third-party caveat added demands its discharge, also from a cache that knows the original
	if c3, err := macaroon.NewCaveat3P(macaroon.NewEncryptionKey(), "https://tp.cacheforge.test"); err == nil {
		a3, _ := m.Clone()
		a3.Add(c3)
		h3, _ := a3.String()
		b3, _ := bundle.ParseBundle(bLocs[0], h3)
		if _, err := b3.Verify(context.Background(), cache); err == nil {
			return "after the original was accepted through the cache, the same token with a third-party caveat added is accepted without its discharge"
		}
	}
	forged := *m
	forged.UnsafeCaveats = *macaroon.NewCaveatSet()
	forged.Tail = make([]byte, 32)
	if r.Bool() {
		forged.Tail = append([]byte{}, m.Tail...)
	}
	fhdr, _ := (&forged).String()
	fb, _ := bundle.ParseBundle(bLocs[0], fhdr)
	if _, err := fb.Verify(context.Background(), cache); err == nil {
		return "a token with the genuine nonce, no caveats and a made-up tail is accepted through the verification cache"
	}
	return ""
}

// sliceReuseOracle (C02): Add must not disturb the slice its caller passed (variadic arguments alias it): the same slice is
// then added to a second token, which has to carry every caveat of it.
func sliceReuseOracle() string {
	key := macaroon.NewSigningKey()
	a := &flyio.Organization{ID: 1, Mask: resset.ActionRead}
	rd := resset.ActionRead
	w := &macaroon.ValidityWindow{NotBefore: 0, NotAfter: 1 << 41}
	cavs := []macaroon.Caveat{a, &rd, w}
	t1, _ := macaroon.New([]byte("k"), bLocs[0], key)
	t1.Add(a) // t1 already carries the first caveat: the next Add drops it as a duplicate
	if err := t1.Add(cavs...); err != nil {
		return "setup: " + err.Error()
	}
	if cavs[0] != macaroon.Caveat(a) || cavs[1] != macaroon.Caveat(&rd) || cavs[2] != macaroon.Caveat(w) {
		return "Add rearranged the caller's caveat slice"
	}
	t2, _ := macaroon.New([]byte("k"), bLocs[0], key)
	if err := t2.Add(cavs...); err != nil {
		return "setup: " + err.Error()
	}
	enc, _ := t2.Encode()
	dm, _ := macaroon.Decode(enc)
	set, err := dm.Verify(key, nil, nil)
	if err != nil || len(set.Caveats) != 3 {
		return fmt.Sprintf("a token attenuated with a 3-caveat slice (used before on another token) carries %d caveats (err %v)", len(set.Caveats), err)
	}
	return ""
}

// cacheDischargeOracle (C04, C06, C07, C14 through the caching verifier): a token with a third-party caveat is accepted
// through a VerificationCache together with its genuine discharge (which carries an attestation); afterwards the same cache is
// shown the presentations an attacker holding these tokens can make — no discharge, a discharge for the same ticket under a
// foreign secret, one with the genuine nonce and other contents, an attenuated discharge, a discharge bound to a descendant
// shown with the ancestor or with a sibling — and every answer (accepted or not, and the verified caveats) has to be the
// answer of the plain verifier, whose behaviour the model-correspondence streams check.
func cacheDischargeOracle(r *rng.R) (fail string) {
	defer func() {
		if p := recover(); p != nil {
			fail = fmt.Sprintf("panic verifying through the cache: %v", p)
		}
	}()
	loc, tpLoc := bLocs[0], "https://tp.cache.test"
	key, ka := macaroon.NewSigningKey(), macaroon.NewEncryptionKey()
	trusted := map[string][]macaroon.EncryptionKey{}
	if r.Bool() {
		trusted[tpLoc] = []macaroon.EncryptionKey{ka}
	}
	m, _ := macaroon.New([]byte("k"), loc, key)
	m.Add(&flyio.Organization{ID: 1, Mask: resset.ActionAll})
	if err := m.Add3P(ka, tpLoc); err != nil {
		return "setup: " + err.Error()
	}
	ticket, err := m.ThirdPartyTicket(tpLoc)
	if err != nil {
		return "setup: " + err.Error()
	}
	proof := r.Bool()
	big := r.P(1, 3)
	mkDis := func(uid uint64, bindTo *macaroon.Macaroon) *macaroon.Macaroon {
		_, dm, err := macaroon.VerifDischargeTicket(ka, tpLoc, ticket, proof)
		if err != nil {
			panic("setup: " + err.Error())
		}
		u := auth.FlyioUserID(uid)
		dm.Add(&u)
		if big { // a discharge of several KiB: cache keys built from printed tokens get long
			for k := 0; k < 600; k++ {
				dm.Add(&macaroon.ValidityWindow{NotBefore: int64(k), NotAfter: 1 << 40})
			}
		}
		if bindTo != nil {
			if err := dm.BindToParentMacaroon(bindTo); err != nil {
				panic("setup: bind: " + err.Error())
			}
		}
		return dm
	}
	str := func(ms ...*macaroon.Macaroon) string {
		var parts []string
		for _, x := range ms {
			c, _ := x.Clone()
			s, err := c.String()
			if err != nil {
				panic("setup: " + err.Error())
			}
			parts = append(parts, s)
		}
		if len(parts) > 1 && r.Bool() {
			parts[0], parts[len(parts)-1] = parts[len(parts)-1], parts[0]
		}
		return strings.Join(parts, ",")
	}
	dm := mkDis(7, nil)
	child, _ := m.Clone()
	rd := resset.ActionRead
	child.Add(&rd)
	sib, _ := m.Clone()
	wr := resset.ActionWrite
	sib.Add(&wr)
	dmBound := mkDis(7, child)
	// forgeries
	evil := macaroon.NewSigningKey()
	forgedKID, _ := macaroon.VerifNewMacaroon(ticket, tpLoc, evil, proof)
	u8 := auth.FlyioUserID(8)
	forgedKID.Add(&u8)
	sameNonce, _ := dm.Clone()
	sameNonce.UnsafeCaveats = *macaroon.NewCaveatSet(&u8)
	sameNonce.Tail = make([]byte, len(dm.Tail))
	type pres struct{ what, hdr string }
	prime := []pres{
		{"the token with its genuine discharge", str(m, dm)},
		{"an attenuated token with a discharge bound to it", str(child, dmBound)},
	}
	attack := []pres{
		{"the token without any discharge", str(m)},
		{"the token with a discharge minted for its ticket under a foreign secret", str(m, forgedKID)},
		{"the token with a discharge that has the genuine nonce, other caveats and a made-up tail", str(m, sameNonce)},
		{"the less-attenuated ancestor with a discharge bound to its descendant", str(m, dmBound)},
		{"a sibling attenuation with a discharge bound to another attenuation", str(sib, dmBound)},
		{"the attenuated token with the unbound discharge", str(child, dm)},
		{"the sibling attenuation with the unbound discharge", str(sib, dm)},
		{"the token with the genuine and a foreign discharge", str(m, dm, forgedKID)},
		{"the attenuated token without any discharge", str(child)},
	}
	if !proof {
		att, _ := dm.Clone()
		att.Add(&macaroon.ValidityWindow{NotBefore: 1, NotAfter: 2})
		attack = append(attack, pres{"the token with an attenuated copy of its discharge", str(m, att)})
	}
	for i := len(attack) - 1; i > 0; i-- {
		j := r.Intn(i + 1)
		attack[i], attack[j] = attack[j], attack[i]
	}
	plain := bundle.WithKey([]byte("k"), key, trusted)
	cache := bundle.NewVerificationCache(plain, time.Hour, 64)
	answer := func(v bundle.Verifier, hdr string) string {
		b, err := bundle.ParseBundle(loc, hdr)
		if err != nil {
			return "parse error"
		}
		sets, err := b.Verify(context.Background(), v)
		if err != nil {
			return "rejected"
		}
		out := "accepted"
		for _, s := range sets {
			enc, _ := s.MarshalMsgpack()
			out += fmt.Sprintf(" %x", enc)
		}
		return out
	}
	for i, p := range prime {
		if a := answer(cache, p.hdr); !strings.HasPrefix(a, "accepted") {
			return fmt.Sprintf("setup: %s is %s", p.what, a)
		}
		if i == 0 && r.Bool() {
			break
		}
	}
	for _, p := range attack {
		got, want := answer(cache, p.hdr), answer(plain, p.hdr)
		if got != want {
			if len(got) > 80 {
				got = got[:80] + "…"
			}
			if len(want) > 80 {
				want = want[:80] + "…"
			}
			return fmt.Sprintf("after a genuine presentation was accepted through the verification cache, %s is answered %q by the cache and %q by the verifier behind it", p.what, got, want)
		}
	}
	return ""
}
