//go:build verif

package main

import (
	"bytes"
	"encoding/hex"
	"fmt"
	"sort"

	"github.com/superfly/macaroon"
	"github.com/superfly/macaroon/flyio"
	"github.com/superfly/macaroon/resset"

	"verifharness/internal/coqw"
	"verifharness/internal/cs"
	"verifharness/internal/rng"
	"verifharness/internal/sym"
)

func init() {
	props["C01"] = genC01
	props["C02"] = genC02
	props["C04"] = genC04
	props["C05"] = genC05
	props["C06"] = genC06
	props["C07"] = genC07
	props["C08"] = genC08
}

// builder generates a scenario while executing it, so that generators can look at the real objects
type builder struct {
	env  *sym.Env
	ops  []sym.Op
	obs  [][]int64
	r    *rng.R
	next uint64 // next free slot
}

func newBuilder(r *rng.R) *builder {
	return &builder{env: sym.NewEnv(r.U64()), r: r, next: 0}
}

func (b *builder) do(o sym.Op) []int64 {
	ob := b.env.Step(o)
	b.ops = append(b.ops, o)
	b.obs = append(b.obs, ob)
	return ob
}

func (b *builder) slot() uint64 { b.next++; return b.next - 1 }

func (b *builder) emit(st *cs.Stream, class string, nt bool, oracle string) {
	short := make([]string, len(b.ops))
	for i, o := range b.ops {
		short[i] = fmt.Sprintf("%s -> %v", o.Coq(), b.obs[i])
	}
	st.Add(&cs.Case{
		Coq:        coqw.App("KScen", sym.OpsCoq(b.ops), sym.ObsCoq(b.obs)),
		Desc:       map[string]any{"scenario": short, "go": map[string]any{"ops": b.ops}},
		Class:      class,
		Nontrivial: nt,
		OracleFail: oracle,
	})
}

const (
	keyRoot  = 1
	keyRoot2 = 2
	keyTP1   = 10
	keyTP2   = 11
	keyEvil  = 20
	keyEvil2 = 21
)

var dataIDs = []uint64{0, 1, 2, 6, 7, 11, 12, 13, 14, 18, 1, 18}
var attIDs = []uint64{3, 4, 9}
var wrapIDs = []uint64{5, 10, 16, 17, 20}
var ticketCavIDs = []uint64{8, 15, 19}

func (b *builder) randData(n int) []sym.ACav {
	var o []sym.ACav
	for i := 0; i < n; i++ {
		o = append(o, sym.ACav{D: sym.DOf(rng.Pick(b.r, dataIDs))})
	}
	return o
}

func (b *builder) tcavs() []sym.D {
	var o []sym.D
	for i := b.r.Intn(3); i > 0; i-- {
		o = append(o, sym.DOf(rng.Pick(b.r, ticketCavIDs)))
	}
	return o
}

// family builds an honest family: root token, attenuations, discharges. It returns the slot
// of the most attenuated token, all token slots in ancestor order, and discharge slots per 3P caveat.
type family struct {
	chain      []uint64 // root ... most attenuated
	discharges []uint64 // one per 3P caveat of the last token, in caveat order
	tpLocs     []uint64
	tpKeys     []uint64
	proofRoot  bool
	ver        uint64
}

func (b *builder) threePIdx(s uint64) []uint64 {
	var o []uint64
	for i, c := range b.env.Slots[s].UnsafeCaveats.Caveats {
		if _, ok := c.(*macaroon.Caveat3P); ok {
			o = append(o, uint64(i))
		}
	}
	return o
}

type famOpts struct {
	n3p       int  // number of third-party caveats (0-2)
	steps     int  // attenuation steps
	proofDis  int  // 0 never, 1 always, 2 random
	attest    bool // discharges carry attestations (only sticks on proofs)
	bind      bool // bind discharges to the final token (or an ancestor)
	proofRoot bool
	v0        bool
	disCavs   bool
	ownLoc    bool // the first third-party caveat names the token\'s own location
}

func (b *builder) family(o famOpts) family {
	f := family{proofRoot: o.proofRoot}
	root := b.slot()
	f.ver = 1
	if o.v0 && !o.proofRoot {
		f.ver = 0
	}
	b.do(sym.Op{Kind: "OMint", S: root, K: keyRoot, Kid: []byte{'k', byte(b.r.Intn(3))}, Loc: 0, Proof: o.proofRoot, V: f.ver})
	f.chain = []uint64{root}
	cur := root
	placed := 0
	for step := 0; step <= o.steps; step++ {
		adds := b.randData(b.r.Intn(3))
		if placed < o.n3p && (b.r.Bool() || step == o.steps) {
			loc, key := uint64(1+placed), uint64(keyTP1+placed)
			if o.ownLoc && placed == 0 {
				loc = 0 // a third party that lives at the token's own location: its discharge is a discharge all the same
			}
			c3 := sym.ACav{Is3P: true, EncKey: key, Loc: loc, TCavs: b.tcavs()}
			pos := b.r.Intn(len(adds) + 1)
			adds = append(adds[:pos], append([]sym.ACav{c3}, adds[pos:]...)...)
			f.tpLocs = append(f.tpLocs, loc)
			f.tpKeys = append(f.tpKeys, key)
			placed++
		}
		if len(adds) > 0 {
			b.do(sym.Op{Kind: "OAdd", S: cur, Adds: adds})
		}
		if step < o.steps {
			nxt := b.slot()
			b.do(sym.Op{Kind: "OClone", Dst: nxt, Src: cur})
			f.chain = append(f.chain, nxt)
			cur = nxt
		}
	}
	last := f.chain[len(f.chain)-1]
	for k, idx := range b.threePIdx(last) {
		d := b.slot()
		proof := o.proofDis == 1 || (o.proofDis == 2 && b.r.Bool())
		var ds []sym.D
		if o.disCavs {
			for i := b.r.Intn(3); i > 0; i-- {
				ds = append(ds, sym.DOf(rng.Pick(b.r, dataIDs)))
			}
		}
		if o.attest {
			ds = append(ds, sym.DOf(rng.Pick(b.r, attIDs)))
		}
		b.do(sym.Op{Kind: "ODischarge", Dst: d, Src: last, I: idx, K: f.tpKeys[k], Loc: f.tpLocs[k], Proof: proof, Ds: ds})
		if o.bind && !proof && !o.proofRoot { // a finalised proof root cannot be bound to (not reachable through the public API)
			b.do(sym.Op{Kind: "OBind", S: d, Src: f.chain[b.r.Intn(len(f.chain))]})
		}
		b.do(sym.Op{Kind: "OEncode", S: d})
		f.discharges = append(f.discharges, d)
	}
	if o.proofRoot {
		b.do(sym.Op{Kind: "OEncode", S: last})
	}
	return f
}

func (f family) trust() []sym.Trust {
	var t []sym.Trust
	for i := range f.tpLocs {
		t = append(t, sym.Trust{Loc: f.tpLocs[i], Keys: []uint64{f.tpKeys[i]}})
	}
	return t
}

func accepted(ob []int64) bool { return len(ob) > 0 && ob[0] == 1 }

// snapshot of an honest token for the no-forgery oracle
type snap struct {
	nonce []byte
	cavs  []string
}

func snapOf(m *macaroon.Macaroon) snap {
	s := snap{nonce: m.Nonce.MustEncode()}
	for _, c := range m.UnsafeCaveats.Caveats {
		b, _ := macaroon.NewCaveatSet(c).MarshalMsgpack()
		s.cavs = append(s.cavs, hex.EncodeToString(b))
	}
	return s
}

func extends(t, h snap) bool {
	if !bytes.Equal(t.nonce, h.nonce) || len(h.cavs) > len(t.cavs) {
		return false
	}
	for i := range h.cavs {
		if h.cavs[i] != t.cavs[i] {
			return false
		}
	}
	return true
}

// ---------------------------------------------------------------- C05: honest histories
func genC05(c *ctx) {
	st := c.set.Stream("sym-honest", "Corr.RunS", "run", 150)
	n := 400
	if c.thorough {
		n = 12000
	}
	for i := 0; i < n; i++ {
		b := newBuilder(c.r.Fork())
		o := famOpts{n3p: b.r.Intn(3), steps: b.r.Intn(4), proofDis: b.r.Intn(3), attest: b.r.P(1, 3), bind: b.r.P(1, 2), proofRoot: b.r.P(1, 8), v0: b.r.P(1, 4), disCavs: true, ownLoc: b.r.P(1, 5)}
		f := b.family(o)
		last := f.chain[len(f.chain)-1]
		oracle := ""
		// every token of the chain that carries all the 3P caveats verifies with the discharges;
		// the final one always does
		ob := b.do(sym.Op{Kind: "OVerify", S: last, K: keyRoot, Slots: f.discharges, Tr: f.trust(), Direct: b.r.P(1, 4)})
		if !accepted(ob) {
			oracle = "honestly produced token with its discharges was rejected"
		}
		// a holder re-encodes / clones: still accepted, same result
		cl := b.slot()
		b.do(sym.Op{Kind: "OClone", Dst: cl, Src: last})
		ob2 := b.do(sym.Op{Kind: "OVerify", S: cl, K: keyRoot, Slots: f.discharges, Tr: f.trust()})
		if fmt.Sprint(ob) != fmt.Sprint(ob2) && oracle == "" {
			oracle = "clone of an accepted token verifies differently"
		}
		// without trusted keys: accepted too, attestations of discharges dropped
		b.do(sym.Op{Kind: "OVerify", S: last, K: keyRoot, Slots: f.discharges})
		// wrong key: rejected
		b.do(sym.Op{Kind: "OVerify", S: last, K: keyRoot2, Slots: f.discharges, Tr: f.trust()})
		if b.r.P(1, 6) {
			// one Add call carrying two third-party caveats for one location (refused as a whole), then one for a location
			// the token already has
			t2 := b.slot()
			b.do(sym.Op{Kind: "OClone", Dst: t2, Src: last})
			b.do(sym.Op{Kind: "OAdd", S: t2, Adds: []sym.ACav{{Is3P: true, EncKey: keyTP2, Loc: 7}, {D: sym.DOf(12)}, {Is3P: true, EncKey: keyTP2, Loc: 7}}})
			b.do(sym.Op{Kind: "OVerify", S: t2, K: keyRoot, Slots: f.discharges, Tr: f.trust()})
			b.do(sym.Op{Kind: "OAdd", S: t2, Adds: []sym.ACav{{D: sym.DOf(13)}, {Is3P: true, EncKey: keyTP2, Loc: 1}}})
			b.do(sym.Op{Kind: "OVerify", S: t2, K: keyRoot, Slots: f.discharges, Tr: f.trust()})
		}
		b.emit(st, fmt.Sprintf("honest/%d3p-%dsteps-v%d", o.n3p, o.steps, f.ver), true, oracle)
	}
	// any number of attenuation steps by holders working only from the encoded token: a chain well past every internal
	// size hint (the decoder pre-sizes for at most 64 caveats)
	if f := f8Oracle(); f != "" {
		b := newBuilder(c.r.Fork())
		b.emit(st, "honest/negative-google-user-id", true, f)
	}
	if f := longChainOracle(c.r.Fork()); f != "" {
		b := newBuilder(c.r.Fork())
		b.emit(st, "honest/long-chain", true, f)
	}
	{
		b := newBuilder(c.r.Fork())
		b.emit(st, "honest/zero-valued-fields", true, zeroFieldsOracle())
	}
	{
		b := newBuilder(c.r.Fork())
		b.emit(st, "honest/one-caveat-object-many-tokens", true, caveatObjectReuseOracle())
	}
	{
		b := newBuilder(c.r.Fork())
		b.emit(st, "honest/repeated-discharge-nonce", true, repeatedDischargeNonceOracle())
	}
}

// zeroFieldsOracle (C05, "any field values"): caveats whose fields are nil / empty (a conditional without conditions, nil
// and empty maps and lists). The token is built twice -- by the library's Add, and by hand from the encoding of a fresh value
// and the HMAC chain -- and both have to be the same token, accepted under the minting key, with the value handed back
// encoding to the signed bytes; adding the same value again is collapsed.
func zeroFieldsOracle() (fail string) {
	what := ""
	defer func() {
		if p := recover(); p != nil {
			fail = fmt.Sprintf("panic on %s: %v", what, p)
		}
	}()
	makers := map[string]func() macaroon.Caveat{
		"IfPresent{Ifs: nil}": func() macaroon.Caveat { return &resset.IfPresent{Else: resset.ActionRead} },
		"IfPresent{Ifs: empty set}": func() macaroon.Caveat {
			return &resset.IfPresent{Ifs: macaroon.NewCaveatSet(), Else: resset.ActionRead}
		},
		"IfPresent{Ifs: nil, Else 0}": func() macaroon.Caveat { return &resset.IfPresent{} },
		"Apps{nil}":                   func() macaroon.Caveat { return &flyio.Apps{} },
		"Apps{empty}":                 func() macaroon.Caveat { return &flyio.Apps{Apps: resset.ResourceSet[uint64, resset.Action]{}} },
		"FeatureSet{nil}":             func() macaroon.Caveat { return &flyio.FeatureSet{} },
		"Mutations{nil}":              func() macaroon.Caveat { return &flyio.Mutations{} },
		"Commands{nil}":               func() macaroon.Caveat { return &flyio.Commands{} },
		"Commands{empty}":             func() macaroon.Caveat { return &flyio.Commands{} },
		"Clusters{nil}":               func() macaroon.Caveat { return &flyio.Clusters{} },
		"ValidityWindow{0,0}":         func() macaroon.Caveat { return &macaroon.ValidityWindow{} },
		"Organization{0,0}":           func() macaroon.Caveat { return &flyio.Organization{} },
	}
	names := make([]string, 0, len(makers))
	for k := range makers {
		names = append(names, k)
	}
	sort.Strings(names)
	key := macaroon.NewSigningKey()
	for _, name := range names {
		what = "a token with the caveat " + name
		mk := makers[name]
		base, _ := macaroon.New([]byte("k"), "https://zero.test", key)
		opc, err := macaroon.VerifEncode(macaroon.NewCaveatSet(mk()))
		if err != nil {
			continue
		}
		hand := *base
		hand.UnsafeCaveats = *macaroon.NewCaveatSet(mk())
		hand.Tail = macaroon.VerifSign(base.Tail, opc)
		hw, err := macaroon.VerifEncode(&hand)
		if err != nil {
			return "setup: " + err.Error()
		}
		lib, _ := base.Clone()
		if err := lib.Add(mk()); err != nil {
			return what + ": Add refuses it: " + err.Error()
		}
		if err := lib.Add(mk()); err != nil {
			return what + ": adding it again fails: " + err.Error()
		}
		if n := len(lib.UnsafeCaveats.Caveats); n != 1 {
			return fmt.Sprintf("%s: adding the same value twice leaves %d caveats", what, n)
		}
		lw, _ := lib.Encode()
		if !bytes.Equal(lw, hw) {
			return fmt.Sprintf("%s: Add produces %x, the encoding of the value chained by hand is %x", what, lw, hw)
		}
		for _, wire := range [][]byte{hw, lw} {
			dm, err := macaroon.Decode(wire)
			if err != nil {
				return what + " does not decode: " + err.Error()
			}
			// a holder looks at the token before presenting it
			dm.ThirdPartyTickets()
			macaroon.GetCaveats[*macaroon.ValidityWindow](&dm.UnsafeCaveats)
			set, err := dm.Verify(key, nil, nil)
			if err != nil {
				return what + " (minted and chained honestly) is rejected: " + err.Error()
			}
			back, err := set.MarshalMsgpack()
			if err != nil || !bytes.Equal(back, opc) {
				return fmt.Sprintf("%s: verification hands back a caveat encoding to %x, signed was %x", what, back, opc)
			}
			// a second holder attenuates from the encoded token
			if err := dm.Add(mk(), &macaroon.ValidityWindow{NotBefore: 1, NotAfter: 1 << 40}); err != nil {
				return what + ": a holder cannot attenuate it: " + err.Error()
			}
			w2, _ := dm.Encode()
			dm2, err := macaroon.Decode(w2)
			if err != nil {
				return what + " attenuated does not decode: " + err.Error()
			}
			set2, err := dm2.Verify(key, nil, nil)
			if err != nil {
				return what + ", attenuated by a holder working from the encoded token, is rejected: " + err.Error()
			}
			if len(set2.Caveats) != 2 {
				return fmt.Sprintf("%s, attenuated with the same value and a window: verification yields %d caveats, not 2", what, len(set2.Caveats))
			}
		}
	}
	return ""
}

func longChainOracle(r *rng.R) string {
	key := macaroon.NewSigningKey()
	m, err := macaroon.New([]byte("k"), "https://perm.test", key)
	if err != nil {
		return "setup: " + err.Error()
	}
	wire, _ := m.Encode()
	n := 64 + 1 + r.Intn(80)
	for i := 0; i < n; i++ {
		dm, err := macaroon.Decode(wire)
		if err != nil {
			return fmt.Sprintf("honest token with %d caveats does not decode: %v", i, err)
		}
		if err := dm.Add(&macaroon.ValidityWindow{NotBefore: int64(i), NotAfter: 1 << 41}); err != nil {
			return fmt.Sprintf("attenuation step %d refused: %v", i, err)
		}
		if wire, err = dm.Encode(); err != nil {
			return fmt.Sprintf("token with %d caveats does not encode: %v", i+1, err)
		}
	}
	fm, err := macaroon.Decode(wire)
	if err != nil {
		return fmt.Sprintf("honest token with %d caveats does not decode: %v", n, err)
	}
	set, err := fm.Verify(key, nil, nil)
	if err != nil {
		return fmt.Sprintf("honest token with %d caveats rejected: %v", n, err)
	}
	if len(set.Caveats) != n {
		return fmt.Sprintf("verification of a token with %d caveats yields %d", n, len(set.Caveats))
	}
	return ""
}

// ---------------------------------------------------------------- C01: forgery attempts
func (b *builder) attack(target uint64, held []uint64) string {
	r := b.r
	m := b.env.Slots[target]
	nc := uint64(len(m.UnsafeCaveats.Caveats))
	other := rng.Pick(r, held)
	tailOf := func() *sym.TailX { return &sym.TailX{Kind: "XTail", S: rng.Pick(r, held)} }
	switch k := r.Intn(16); k {
	case 0:
		if nc == 0 {
			return "noop"
		}
		b.do(sym.Op{Kind: "ODropCav", S: target, I: uint64(r.Intn(int(nc)))})
		return "drop"
	case 1:
		if nc < 2 {
			return "noop"
		}
		b.do(sym.Op{Kind: "OSwapCav", S: target, I: uint64(r.Intn(int(nc))), J: uint64(r.Intn(int(nc)))})
		return "swap"
	case 2:
		b.do(sym.Op{Kind: "OAppendData", S: target, Ds: []sym.D{sym.DOf(rng.Pick(r, dataIDs))}})
		return "append-nomac"
	case 3:
		on := uint64(len(b.env.Slots[other].UnsafeCaveats.Caveats))
		if on == 0 {
			return "noop"
		}
		b.do(sym.Op{Kind: "OCopyCav", Dst: target, Pos: uint64(r.Intn(int(nc) + 1)), Src: other, I: uint64(r.Intn(int(on)))})
		return "copycav"
	case 4:
		b.do(sym.Op{Kind: "OSetTail", S: target, X: tailOf()})
		return "tail-of-held"
	case 5:
		x := tailOf()
		if nc > 0 {
			x = &sym.TailX{Kind: "XMacCav", X: x, S: target, I: uint64(r.Intn(int(nc)))}
		}
		b.do(sym.Op{Kind: "OSetTail", S: target, X: x})
		return "tail-chain-from-held"
	case 6:
		b.do(sym.Op{Kind: "OSetTail", S: target, X: &sym.TailX{Kind: rng.Pick(r, []string{"XFin", "XDigest", "XPre16"}), X: tailOf()}})
		return "tail-derived"
	case 7:
		b.do(sym.Op{Kind: "OSetTail", S: target, X: &sym.TailX{Kind: "XLit", B: r.Bytes(rng.Pick(r, []int{0, 16, 32}))}})
		return "tail-literal"
	case 8:
		// recompute the whole chain from an attacker key
		x := &sym.TailX{Kind: "XMacNonce", X: &sym.TailX{Kind: "XKey", S: keyEvil}, S: target}
		for i := uint64(0); i < nc; i++ {
			x = &sym.TailX{Kind: "XMacCav", X: x, S: target, I: i}
		}
		b.do(sym.Op{Kind: "OSetTail", S: target, X: x})
		return "tail-own-key-chain"
	case 9:
		b.do(sym.Op{Kind: "OSetKid", S: target, Kid: []byte{'k', byte(r.Intn(4))}})
		return "kid"
	case 10:
		b.do(sym.Op{Kind: "OCopyRnd", S: target, Src: other})
		return "rnd"
	case 11:
		_, _, _, ver := macaroon.VerifNonceFields(m.Nonce)
		if ver == 0 {
			return "noop"
		}
		b.do(sym.Op{Kind: "OFlipProof", S: target})
		return "proof-flag"
	case 12:
		_, _, proof, ver := macaroon.VerifNonceFields(m.Nonce)
		if proof {
			return "noop"
		}
		b.do(sym.Op{Kind: "OSetVer", S: target, V: uint64(1 - ver)})
		return "version"
	case 13:
		b.do(sym.Op{Kind: "OSetLoc", S: target, Loc: uint64(r.Intn(4))})
		return "location"
	case 14:
		// rebuild a shorter chain: drop the last caveat and use a held tail (ancestor replay is legitimate)
		if nc == 0 {
			return "noop"
		}
		b.do(sym.Op{Kind: "ODropCav", S: target, I: nc - 1})
		b.do(sym.Op{Kind: "OSetTail", S: target, X: tailOf()})
		return "truncate+held-tail"
	default:
		// proper extension by the attacker (always allowed): add a caveat with correct MAC
		b.do(sym.Op{Kind: "OAdd", S: target, Adds: b.randData(1)})
		return "extend"
	}
}

func genC01(c *ctx) {
	st := c.set.Stream("sym-forge", "Corr.RunS", "run", 150)
	n := 600
	if c.thorough {
		n = 20000
	}
	for i := 0; i < n; i++ {
		b := newBuilder(c.r.Fork())
		o := famOpts{n3p: b.r.Intn(2), steps: 1 + b.r.Intn(3), proofDis: 2, attest: false, bind: false, proofRoot: b.r.P(1, 6), v0: b.r.P(1, 4), disCavs: b.r.Bool()}
		f := b.family(o)
		// a sibling family under the same key (independently minted token)
		sib := b.slot()
		b.do(sym.Op{Kind: "OMint", S: sib, K: keyRoot, Kid: []byte{'k', 0}, Loc: 0, Proof: false, V: 1})
		b.do(sym.Op{Kind: "OAdd", S: sib, Adds: b.randData(1 + b.r.Intn(2))})
		// the attacker holds a subset: the most attenuated tokens and the sibling, never the root
		held := []uint64{sib}
		from := 1 + b.r.Intn(len(f.chain)-1)
		for _, s := range f.chain[from:] {
			held = append(held, s)
		}
		var snaps []snap
		for _, s := range held {
			snaps = append(snaps, snapOf(b.env.Slots[s]))
		}
		// the held tokens are in ordinary use: each has been verified before the attacker starts
		for _, hs := range held {
			b.do(sym.Op{Kind: "OVerify", S: hs, K: keyRoot, Slots: f.discharges, Tr: f.trust()})
		}
		target := b.slot()
		b.do(sym.Op{Kind: "ODecodeRaw", Dst: target, Src: rng.Pick(b.r, held)})
		class := ""
		for k := 1 + b.r.Intn(3); k > 0; k-- {
			class += b.attack(target, held) + "+"
		}
		// discharges as the attacker presents them: possibly with forged copies of the genuine ones (same nonce, an extra
		// caveat, tail kept or junk) placed in front -- a rejected candidate must leave no trace in the result
		present := f.discharges
		nForged := 0
		if len(f.discharges) > 0 && b.r.P(1, 2) {
			var forged []uint64
			for _, g := range f.discharges {
				fd := b.slot()
				b.do(sym.Op{Kind: "ODecodeRaw", Dst: fd, Src: g})
				b.do(sym.Op{Kind: "OAppendData", S: fd, Ds: []sym.D{sym.DOf(rng.Pick(b.r, append(append([]uint64{}, dataIDs...), attIDs...)))}})
				if b.r.Bool() {
					b.do(sym.Op{Kind: "OSetTail", S: fd, X: &sym.TailX{Kind: "XLit", B: b.r.Bytes(32)}})
				}
				forged = append(forged, fd)
			}
			nForged = len(forged)
			present = append(forged, f.discharges...)
			class += "forged-discharge-first+"
		}
		ob := b.do(sym.Op{Kind: "OVerify", S: target, K: keyRoot, Slots: present, Tr: f.trust()})
		oracle := ""
		if nForged > 0 {
			ref := b.do(sym.Op{Kind: "OVerify", S: target, K: keyRoot, Slots: f.discharges, Tr: f.trust()})
			if accepted(ref) && fmt.Sprint(ref) != fmt.Sprint(ob) {
				oracle = fmt.Sprintf("rejected forged discharges presented in front change the verification result: %v instead of %v", ob, ref)
			}
		}
		if accepted(ob) {
			t := snapOf(b.env.Slots[target])
			ok := false
			for _, h := range snaps {
				ok = ok || extends(t, h)
			}
			if !ok {
				oracle = "accepted token does not extend any held token (nonce or an original caveat differs)"
			}
		}
		b.emit(st, "forge/"+class, true, oracle)
	}
	// byte-level mutation of held wire tokens: oracle only (no model), reported through a trivially-true scenario
	nm := 3000
	if c.thorough {
		nm = 100000
	}
	muts, accepts := 0, 0
	var fail string
	for i := 0; i < nm; i++ {
		b := newBuilder(c.r.Fork())
		f := b.family(famOpts{n3p: 0, steps: 1 + b.r.Intn(2), v0: b.r.P(1, 4)})
		last := f.chain[len(f.chain)-1]
		m := b.env.Slots[last]
		wire, _ := m.Encode()
		h := snapOf(m)
		mw := append([]byte{}, wire...)
		for k := 1 + b.r.Intn(2); k > 0; k-- {
			p := b.r.Intn(len(mw))
			if b.r.Bool() {
				mw[p] ^= 1 << uint(b.r.Intn(8))
			} else {
				mw[p] = byte(b.r.U64())
			}
		}
		if bytes.Equal(mw, wire) {
			continue
		}
		muts++
		dm, err := macaroon.Decode(mw)
		if err != nil {
			continue
		}
		if _, err := dm.Verify(b.env.Key(keyRoot), nil, nil); err == nil {
			accepts++
			if !extends(snapOf(dm), h) && fail == "" {
				fail = fmt.Sprintf("mutated wire token accepted with different nonce/caveats: %x -> %x", wire, mw)
			}
		}
	}
	c.set.Notes["byte_mutations"] = map[string]any{"tried": muts, "accepted_and_equivalent": accepts, "violation": fail}
	// several discharges minted for ONE ticket (the other mint path): each has its own nonce
	{
		b := newBuilder(c.r.Fork())
		root := b.slot()
		b.do(sym.Op{Kind: "OMint", S: root, K: keyRoot, Kid: []byte{'k'}, Loc: 0, V: 1})
		b.do(sym.Op{Kind: "OAdd", S: root, Adds: []sym.ACav{{Is3P: true, EncKey: keyTP1, Loc: 1}}})
		var ds []uint64
		for k := 0; k < 4; k++ {
			d := b.slot()
			b.do(sym.Op{Kind: "ODischarge", Dst: d, Src: root, I: 0, K: keyTP1, Loc: 1, Proof: k%2 == 0, Ds: []sym.D{sym.DOf(uint64(k))}})
			b.do(sym.Op{Kind: "OEncode", S: d})
			ds = append(ds, d)
		}
		for _, d := range ds {
			b.do(sym.Op{Kind: "OVerify", S: root, K: keyRoot, Slots: []uint64{d}})
		}
		b.emit(st, "several-discharges-one-ticket", true, "")
	}
	// forgery against a verifier that caches: a held token is verified through a VerificationCache, then same-nonce forgeries
	// of it are presented to the same cache
	for i := 0; i < 5; i++ {
		if f := cacheForgeryOracle(c.r.Fork()); f != "" {
			b := newBuilder(c.r.Fork())
			b.emit(st, "forge/through-verification-cache", true, f)
			break
		}
	}
	// caveats of a type the verifier has no Go type for are signed and handed back as they are, also with an empty (nil) body:
	// their type number cannot be rewritten on the wire
	for i := 0; i < 14; i++ {
		if f := unknownTypeForgeryOracle(c.r.Fork(), i); f != "" {
			b := newBuilder(c.r.Fork())
			b.emit(st, "forge/unknown-type-number", true, f)
			break
		}
	}
	// "independently minted tokens never share a nonce": over every token minted in this run
	c.set.Notes["minted_nonces"] = map[string]any{"minted": sym.Mints, "distinct": len(sym.MintNonces), "violation": sym.DupNonce}
	if sym.DupNonce != "" {
		b := newBuilder(c.r.Fork())
		b.emit(st, "nonce-reuse", true, sym.DupNonce)
	}
	if fail != "" {
		b := newBuilder(c.r.Fork())
		b.emit(st, "byte-mutate", true, fail)
	}
}

func unknownTypeForgeryOracle(r *rng.R, i int) (fail string) {
	defer func() {
		if p := recover(); p != nil {
			fail = fmt.Sprintf("panic: %v", p)
		}
	}()
	key := macaroon.NewSigningKey()
	types := []uint64{1 << 33, 1<<33 + 1, 77777, 1<<47 + 5, 200}
	bodies := [][]byte{{0xc0}, {0xc0}, {0x90}, {0x01}, {0xa1, 'x'}, {0x80}, {0xc3}}
	t1 := types[r.Intn(len(types))]
	t2 := t1
	for t2 == t1 {
		t2 = types[r.Intn(len(types))]
	}
	body := bodies[i%len(bodies)]
	m, _ := macaroon.New([]byte("k"), "https://unk.test", key)
	var cavs []macaroon.Caveat
	at := r.Intn(3)
	for i := 0; i < 3; i++ {
		if i == at {
			cavs = append(cavs, &macaroon.UnregisteredCaveat{Type: macaroon.CaveatType(t1), RawMsgpack: body})
		} else {
			cavs = append(cavs, &macaroon.ValidityWindow{NotBefore: int64(i), NotAfter: 1 << 40})
		}
	}
	if err := m.Add(cavs...); err != nil {
		return "" // the type happens to be registered in this process
	}
	wire, err := m.Encode()
	if err != nil {
		return "setup: " + err.Error()
	}
	dm, err := macaroon.Decode(wire)
	if err != nil {
		return fmt.Sprintf("token with a caveat of unknown type %d and body %x does not decode: %v", t1, body, err)
	}
	set, err := dm.Verify(key, nil, nil)
	if err != nil {
		return fmt.Sprintf("genuine token with a caveat of unknown type %d and body %x is rejected: %v", t1, body, err)
	}
	if len(set.Caveats) != 3 {
		return fmt.Sprintf("verification of a 3-caveat token returns %d caveats", len(set.Caveats))
	}
	uc, ok := set.Caveats[at].(*macaroon.UnregisteredCaveat)
	if !ok || uint64(uc.Type) != t1 || !bytes.Equal(uc.RawMsgpack, body) {
		return fmt.Sprintf("verification hands back %T %+v for the caveat of unknown type %d with body %x", set.Caveats[at], set.Caveats[at], t1, body)
	}
	forged := *dm
	fc := append([]macaroon.Caveat{}, cavs...)
	fc[at] = &macaroon.UnregisteredCaveat{Type: macaroon.CaveatType(t2), RawMsgpack: body}
	forged.UnsafeCaveats = *macaroon.NewCaveatSet(fc...)
	forged.Tail = append([]byte{}, m.Tail...)
	fw, err := macaroon.VerifEncode(&forged)
	if err != nil {
		return ""
	}
	fm, err := macaroon.Decode(fw)
	if err != nil {
		return ""
	}
	if _, err := fm.Verify(key, nil, nil); err == nil {
		return fmt.Sprintf("a token whose caveat type number was rewritten on the wire from %d to %d (body %x, same tail) is accepted", t1, t2, body)
	}
	return ""
}

// ---------------------------------------------------------------- C02: attenuation only restricts
func genC02(c *ctx) {
	st := c.set.Stream("sym-atten", "Corr.RunS", "run", 150)
	n := 400
	if c.thorough {
		n = 12000
	}
	for i := 0; i < n; i++ {
		b := newBuilder(c.r.Fork())
		f := b.family(famOpts{n3p: b.r.Intn(2), steps: b.r.Intn(2), proofDis: 2, disCavs: true, v0: b.r.P(1, 5)})
		parent := f.chain[len(f.chain)-1]
		oracle := ""
		for step := 0; step < 1+b.r.Intn(3); step++ {
			child := b.slot()
			b.do(sym.Op{Kind: "OClone", Dst: child, Src: parent})
			adds := b.randData(1 + b.r.Intn(2))
			if b.r.P(1, 5) { // near-duplicate / exact duplicate of an existing caveat
				adds = append(adds, adds[0])
			}
			if b.r.P(1, 3) && len(f.tpLocs) < 2 && len(b.threePIdx(parent)) < 2 {
				adds = append(adds, sym.ACav{Is3P: true, EncKey: keyTP2, Loc: 2, TCavs: b.tcavs()})
			}
			b.do(sym.Op{Kind: "OAdd", S: child, Adds: adds})
			before := b.slot()
			b.do(sym.Op{Kind: "ODecodeRaw", Dst: before, Src: child})
			// re-adding byte-identical caveats leaves the token unchanged
			b.do(sym.Op{Kind: "OAdd", S: child, Adds: adds[:1]})
			same := b.do(sym.Op{Kind: "OSameWire", S: child, Src: before})
			if len(same) == 1 && same[0] != 1 && !adds[0].Is3P && oracle == "" {
				oracle = "re-adding an identical caveat changed the token"
			}
			dis := append([]uint64{}, f.discharges...)
			for _, idx := range b.threePIdx(child) {
				c3 := b.env.Slots[child].UnsafeCaveats.Caveats[idx].(*macaroon.Caveat3P)
				if c3.Location == sym.LocStr(2) {
					d := b.slot()
					b.do(sym.Op{Kind: "ODischarge", Dst: d, Src: child, I: idx, K: keyTP2, Loc: 2, Proof: b.r.Bool()})
					b.do(sym.Op{Kind: "OEncode", S: d})
					dis = append(dis, d)
				}
			}
			// an added third-party caveat demands ITS discharge: a token minted for its (public) ticket under another key
			// does not do, also when the caveats before it are genuinely discharged
			for _, idx := range b.threePIdx(child) {
				c3 := b.env.Slots[child].UnsafeCaveats.Caveats[idx].(*macaroon.Caveat3P)
				if c3.Location == sym.LocStr(2) {
					fd := b.slot()
					b.do(sym.Op{Kind: "OMintForTicket", Dst: fd, Src: child, J: idx, K: keyEvil, Loc: 2, Proof: b.r.Bool()})
					b.do(sym.Op{Kind: "OEncode", S: fd})
					of := b.do(sym.Op{Kind: "OVerify", S: child, K: keyRoot, Slots: append(append([]uint64{}, f.discharges...), fd), Tr: f.trust()})
					if accepted(of) && oracle == "" {
						oracle = "added third-party caveat was satisfied by a token minted for its ticket under a foreign key"
					}
					on := b.do(sym.Op{Kind: "OVerify", S: child, K: keyRoot, Slots: f.discharges, Tr: f.trust()})
					if accepted(on) && oracle == "" {
						oracle = "token verifies without the discharge of the third-party caveat that was added"
					}
				}
			}
			oc := b.do(sym.Op{Kind: "OVerify", S: child, K: keyRoot, Slots: dis, Tr: f.trust()})
			op := b.do(sym.Op{Kind: "OVerify", S: parent, K: keyRoot, Slots: dis, Tr: f.trust()})
			if accepted(oc) && !accepted(op) && oracle == "" {
				oracle = "child accepted but the token it was derived from is rejected"
			}
			if accepted(oc) && accepted(op) && oracle == "" {
				// the parent's returned caveats are a sub-multiset of the child's
				cnt := map[int64]int{}
				for _, id := range oc[2 : 2+oc[1]] {
					cnt[id]++
				}
				for _, id := range op[2 : 2+op[1]] {
					cnt[id]--
					if cnt[id] < 0 {
						oracle = "parent returns a caveat the child does not (attenuation lost a restriction)"
					}
				}
			}
			parent = child
		}
		b.emit(st, "atten", true, oracle)
	}
	for i := 0; i < 20; i++ {
		if f := bundleAttenuate3P(c.r.Fork()); f != "" {
			b := newBuilder(c.r.Fork())
			b.emit(st, "bundle-attenuate-3p", true, f)
			break
		}
	}
	if f := bundleAttenuateFailed(c.r.Fork()); f != "" {
		b := newBuilder(c.r.Fork())
		b.emit(st, "bundle-attenuate-failed-token", true, f)
	}
	{
		b := newBuilder(c.r.Fork())
		b.emit(st, "add-after-refused-batch", true, failedBatchOracle())
	}
	for i := 0; i < 5; i++ {
		if f := cacheForgeryOracle(c.r.Fork()); f != "" {
			b := newBuilder(c.r.Fork())
			b.emit(st, "atten/through-verification-cache", true, f)
			break
		}
	}
	if f := sliceReuseOracle(); f != "" {
		b := newBuilder(c.r.Fork())
		b.emit(st, "add-reuses-callers-slice", true, f)
	}
}

// ---------------------------------------------------------------- C04: third-party caveats and their discharges
func genC04(c *ctx) {
	st := c.set.Stream("sym-3p", "Corr.RunS", "run", 150)
	n := 500
	if c.thorough {
		n = 15000
	}
	for i := 0; i < n; i++ {
		b := newBuilder(c.r.Fork())
		f := b.family(famOpts{n3p: 1 + b.r.Intn(2), steps: b.r.Intn(3), proofDis: 2, disCavs: true, attest: b.r.P(1, 4), v0: b.r.P(1, 5)})
		last := f.chain[len(f.chain)-1]
		// an unrelated token with a 3P caveat for the same third party, and its discharge
		other := b.slot()
		b.do(sym.Op{Kind: "OMint", S: other, K: keyRoot, Kid: []byte{'o'}, Loc: 0, V: 1})
		b.do(sym.Op{Kind: "OAdd", S: other, Adds: []sym.ACav{{Is3P: true, EncKey: keyTP1, Loc: 1}}})
		dOther := b.slot()
		b.do(sym.Op{Kind: "ODischarge", Dst: dOther, Src: other, I: 0, K: keyTP1, Loc: 1, Proof: b.r.Bool()})
		b.do(sym.Op{Kind: "OEncode", S: dOther})
		pool := append([]uint64{}, f.discharges...)
		idx3 := b.threePIdx(last)
		var present []uint64
		class := ""
		oracle04 := ""
		for k := b.r.Intn(5); k > 0; k-- {
			switch b.r.Intn(9) {
			case 0:
				present = append(present, dOther)
				class += "other-ticket+"
			case 1: // re-keyed: right ticket, wrong signing key
				d := b.slot()
				b.do(sym.Op{Kind: "OMintForTicket", Dst: d, Src: last, J: rng.Pick(b.r, idx3), K: keyEvil, Loc: 1, Proof: b.r.Bool()})
				b.do(sym.Op{Kind: "OEncode", S: d})
				present = append(present, d)
				class += "rekeyed+"
			case 2: // tampered copy of a genuine discharge
				d := b.slot()
				b.do(sym.Op{Kind: "ODecodeRaw", Dst: d, Src: rng.Pick(b.r, pool)})
				b.attack(d, pool)
				present = append(present, d)
				class += "tampered+"
			case 3: // nested: a genuine non-proof discharge that itself demands a discharge
				d := b.slot()
				b.do(sym.Op{Kind: "ODecodeRaw", Dst: d, Src: rng.Pick(b.r, pool)})
				b.do(sym.Op{Kind: "OAdd", S: d, Adds: []sym.ACav{{Is3P: true, EncKey: keyTP2, Loc: 3}}})
				present = append(present, d)
				class += "nested+"
			case 4: // extended genuine discharge (fine for non-proofs, refused on finalised proofs)
				d := b.slot()
				b.do(sym.Op{Kind: "ODecodeRaw", Dst: d, Src: rng.Pick(b.r, pool)})
				b.do(sym.Op{Kind: "OAdd", S: d, Adds: b.randData(1)})
				present = append(present, d)
				class += "extended+"
			case 5: // duplicate
				present = append(present, rng.Pick(b.r, pool))
				class += "dup+"
			case 6: // discharge with the wrong third-party key: must fail at the third party
				d := b.slot()
				b.do(sym.Op{Kind: "ODischarge", Dst: d, Src: last, I: rng.Pick(b.r, idx3), K: keyEvil, Loc: 1, Proof: true})
				class += "wrong-tp-key+"
			case 7: // spliced ticket / verifier key between caveats of two tokens
				t := b.slot()
				b.do(sym.Op{Kind: "ODecodeRaw", Dst: t, Src: last})
				kind := rng.Pick(b.r, []string{"OCopyVK", "OCopyTicket"})
				b.do(sym.Op{Kind: kind, Dst: t, I: rng.Pick(b.r, idx3), Src: other, J: 0})
				b.do(sym.Op{Kind: "OVerify", S: t, K: keyRoot, Slots: append(append([]uint64{}, pool...), dOther), Tr: f.trust()})
				class += "splice+"
			default:
				present = append(present, rng.Pick(b.r, pool))
				class += "genuine+"
			}
		}
		if b.r.P(1, 4) {
			// the holder attenuates with an own third-party caveat that re-uses the ticket of a genuine one (other location,
			// verifier key sealing a key he knows -- the empty key is what Add seals into a hand-built caveat) and presents a
			// token minted for that ticket under his key: the genuine caveat is still undischarged
			t := b.slot()
			b.do(sym.Op{Kind: "ODecodeRaw", Dst: t, Src: last})
			j := rng.Pick(b.r, idx3)
			k := rng.Pick(b.r, []uint64{keyEvil, sym.KeyEmpty})
			b.do(sym.Op{Kind: "OAdd3PWithTicket", S: t, Loc: uint64(4 + b.r.Intn(2)), K: k, Src: last, J: j})
			d := b.slot()
			b.do(sym.Op{Kind: "OMintForTicket", Dst: d, Src: last, J: j, K: k, Loc: 1, Proof: b.r.Bool()})
			b.do(sym.Op{Kind: "OEncode", S: d})
			var others []uint64 // genuine discharges of the other caveats
			for q, g := range pool {
				if idx3[q] != j {
					others = append(others, g)
				}
			}
			ob := b.do(sym.Op{Kind: "OVerify", S: t, K: keyRoot, Slots: append([]uint64{d}, others...), Tr: f.trust()})
			if accepted(ob) && oracle04 == "" {
				oracle04 = "third-party caveat accepted with a token minted under a key the caveat does not embed (ticket re-used in a second caveat)"
			}
			b.do(sym.Op{Kind: "OVerify", S: t, K: keyRoot, Slots: append(append([]uint64{d}, pool...), d), Tr: f.trust()})
			class += "reused-ticket+"
		}
		// presentation orders: as built, with the genuine ones first, and last
		b.do(sym.Op{Kind: "OVerify", S: last, K: keyRoot, Slots: present, Tr: f.trust()})
		b.do(sym.Op{Kind: "OVerify", S: last, K: keyRoot, Slots: append(append([]uint64{}, pool...), present...), Tr: f.trust()})
		o3 := b.do(sym.Op{Kind: "OVerify", S: last, K: keyRoot, Slots: append(append([]uint64{}, present...), pool...), Tr: f.trust()})
		b.do(sym.Op{Kind: "OVerify", S: last, K: keyRoot, Slots: nil, Tr: f.trust()})
		_ = o3
		b.emit(st, "3p/"+class, true, oracle04)
	}
	// "sealing the same content twice never yields the same bytes": no AEAD nonce may repeat across the seals of this run
	if sym.TicketHelperFail != "" {
		b := newBuilder(c.r.Fork())
		b.emit(st, "ticket-helpers", true, sym.TicketHelperFail)
	}
	c.set.Notes["seals"] = map[string]any{"distinct_sealed_values": sym.Seals, "violation": sym.DupSeal}
	if sym.DupSeal != "" {
		b := newBuilder(c.r.Fork())
		b.emit(st, "seal-nonce-reuse", true, sym.DupSeal)
	}
	emitCacheDischarge(c, st)
	{
		b := newBuilder(c.r.Fork())
		b.emit(st, "3p/truncated-sealed-values", true, truncatedSealOracle(c.r.Fork()))
	}
	{
		b := newBuilder(c.r.Fork())
		b.emit(st, "3p/one-caveat-object-many-tokens", true, caveatObjectReuseOracle())
	}
}

// truncatedSealOracle (C04, "tampered with ... never satisfies it"): third-party caveats whose sealed values (ticket,
// verifier key) were cut to every length from 0 up: verification answers with an error, the ticket is refused by the third
// party, and nothing panics
func truncatedSealOracle(r *rng.R) (fail string) {
	what := ""
	defer func() {
		if p := recover(); p != nil {
			fail = fmt.Sprintf("panic on %s: %v", what, p)
		}
	}()
	key, ka := macaroon.NewSigningKey(), macaroon.NewEncryptionKey()
	m, _ := macaroon.New([]byte("k"), "https://perm.trunc.test", key)
	if err := m.Add3P(ka, "https://tp.trunc.test"); err != nil {
		return "setup: " + err.Error()
	}
	ticket, _ := m.ThirdPartyTicket("https://tp.trunc.test")
	_, dm, err := macaroon.DischargeTicket(ka, "https://tp.trunc.test", ticket)
	if err != nil {
		return "setup: " + err.Error()
	}
	c3 := m.UnsafeCaveats.Caveats[0].(*macaroon.Caveat3P)
	for n := 0; n <= 44; n++ {
		for _, field := range []string{"verifier key", "ticket"} {
			what = fmt.Sprintf("a third-party caveat whose %s is cut to %d bytes", field, n)
			cut := *c3
			src := c3.VerifierKey
			if field == "ticket" {
				src = c3.Ticket
			}
			if n >= len(src) {
				continue
			}
			if field == "ticket" {
				cut.Ticket = append([]byte{}, src[:n]...)
				if _, _, err := macaroon.DischargeTicket(ka, "https://tp.trunc.test", cut.Ticket); err == nil {
					return "the third party opens " + what
				}
			} else {
				cut.VerifierKey = append([]byte{}, src[:n]...)
			}
			forged := *m
			forged.UnsafeCaveats = *macaroon.NewCaveatSet(&cut)
			forged.Tail = append([]byte{}, m.Tail...)
			fw, err := macaroon.VerifEncode(&forged)
			if err != nil {
				continue
			}
			fm, err := macaroon.Decode(fw)
			if err != nil {
				continue
			}
			d := *dm
			if field == "ticket" {
				// a discharge whose key-id is the cut ticket, so that it is looked up and its verifier key unsealed
				d.Nonce.KID = cut.Ticket
			}
			if _, err := fm.VerifyParsed(key, []*macaroon.Macaroon{&d}, nil); err == nil {
				return "accepted: " + what
			}
		}
	}
	return ""
}

// the C04/C06/C07 claims have to hold for a verifier that caches, too: see cacheDischargeOracle
func emitCacheDischarge(c *ctx, st *cs.Stream) {
	n := 12
	if c.thorough {
		n = 200
	}
	f := ""
	for i := 0; i < n && f == ""; i++ {
		f = cacheDischargeOracle(c.r.Fork())
	}
	b := newBuilder(c.r.Fork())
	b.emit(st, "discharges/through-verification-cache", true, f)
}

// ---------------------------------------------------------------- C06: binding
func genC06(c *ctx) {
	st := c.set.Stream("sym-bind", "Corr.RunS", "run", 120)
	n := 300
	if c.thorough {
		n = 9000
	}
	for i := 0; i < n; i++ {
		b := newBuilder(c.r.Fork())
		root := b.slot()
		b.do(sym.Op{Kind: "OMint", S: root, K: keyRoot, Kid: []byte{'k'}, Loc: 0, V: 1})
		b.do(sym.Op{Kind: "OAdd", S: root, Adds: []sym.ACav{{D: sym.DOf(0)}, {Is3P: true, EncKey: keyTP1, Loc: 1}}})
		// attenuation tree
		nodes := []uint64{root}
		parentOf := map[int]int{0: -1}
		for k := 1 + b.r.Intn(6); k > 0; k-- {
			pi := b.r.Intn(len(nodes))
			nd := b.slot()
			b.do(sym.Op{Kind: "OClone", Dst: nd, Src: nodes[pi]})
			b.do(sym.Op{Kind: "OAdd", S: nd, Adds: b.randData(1)})
			// adding a duplicate of an existing caveat is a no-op: then the "child" equals its parent
			parentOf[len(nodes)] = pi
			nodes = append(nodes, nd)
		}
		unrelated := b.slot()
		b.do(sym.Op{Kind: "OMint", S: unrelated, K: keyRoot, Kid: []byte{'u'}, Loc: 0, V: 1})
		d := b.slot()
		b.do(sym.Op{Kind: "ODischarge", Dst: d, Src: root, I: 1, K: keyTP1, Loc: 1, Proof: false, Ds: nil})
		nb := 1 + b.r.Intn(2)
		var bound []int
		for k := 0; k < nb; k++ {
			bi := b.r.Intn(len(nodes))
			if b.r.P(1, 8) {
				b.do(sym.Op{Kind: "OBind", S: d, Src: unrelated})
				bound = append(bound, -2)
			} else {
				b.do(sym.Op{Kind: "OBind", S: d, Src: nodes[bi]})
				bound = append(bound, bi)
			}
		}
		oracle := ""
		sameTail := func(a, bb int) bool {
			return bytes.Equal(b.env.Slots[nodes[a]].Tail, b.env.Slots[nodes[bb]].Tail)
		}
		isDescOrSelf := func(n, anc int) bool {
			for x := n; x >= 0; x = parentOf[x] {
				if x == anc || sameTail(x, anc) {
					return true
				}
			}
			return false
		}
		wants := make([]bool, len(nodes))
		for ni := range nodes {
			ob := b.do(sym.Op{Kind: "OVerify", S: nodes[ni], K: keyRoot, Slots: []uint64{d}, Tr: nil})
			want := true
			for _, bi := range bound {
				want = want && bi >= 0 && isDescOrSelf(ni, bi)
			}
			wants[ni] = want
			if accepted(ob) != want && oracle == "" {
				oracle = fmt.Sprintf("bound discharge presented with node %d: accepted=%v, expected %v (bound to %v)", ni, accepted(ob), want, bound)
			}
		}
		// the same PARSED discharge object presented with several parents in turn (what bundle.KeyResolver does with one
		// header): the tokens it works with first, then the others -- an earlier acceptance must not carry over
		var order []int
		for ni := range nodes {
			if wants[ni] {
				order = append(order, ni)
			}
		}
		for ni := range nodes {
			if !wants[ni] {
				order = append(order, ni)
			}
		}
		for _, ni := range order {
			ob := b.do(sym.Op{Kind: "OVerifyObjs", S: nodes[ni], K: keyRoot, Slots: []uint64{d}})
			if accepted(ob) != wants[ni] && oracle == "" {
				oracle = fmt.Sprintf("parsed discharge object re-presented with node %d: accepted=%v, expected %v (bound to %v)", ni, accepted(ob), wants[ni], bound)
			}
		}
		// bind to a live token object, attenuate that same object in place, bind another discharge to it:
		// the second binding must be to the attenuated token (rejected with the earlier state, accepted with the later)
		live, early := b.slot(), b.slot()
		b.do(sym.Op{Kind: "OClone", Dst: live, Src: root})
		d1, d2 := b.slot(), b.slot()
		b.do(sym.Op{Kind: "ODischarge", Dst: d1, Src: root, I: 1, K: keyTP1, Loc: 1, Proof: false})
		b.do(sym.Op{Kind: "ODischarge", Dst: d2, Src: root, I: 1, K: keyTP1, Loc: 1, Proof: false})
		b.do(sym.Op{Kind: "OBind", S: d1, Src: live})
		b.do(sym.Op{Kind: "ODecodeRaw", Dst: early, Src: live})
		b.do(sym.Op{Kind: "OAdd", S: live, Adds: []sym.ACav{{D: sym.DOf(13)}}})
		b.do(sym.Op{Kind: "OBind", S: d2, Src: live})
		if ob := b.do(sym.Op{Kind: "OVerify", S: early, K: keyRoot, Slots: []uint64{d2}}); accepted(ob) && oracle == "" {
			oracle = "discharge bound to an attenuated token accepted with the less attenuated ancestor"
		}
		if ob := b.do(sym.Op{Kind: "OVerify", S: live, K: keyRoot, Slots: []uint64{d2}}); !accepted(ob) && oracle == "" {
			oracle = "discharge bound to a token rejected with that very token"
		}
		b.do(sym.Op{Kind: "OVerify", S: live, K: keyRoot, Slots: []uint64{d1}})
		// a token with TWO third-party caveats: the first one properly discharged and bound, the second one's discharge bound
		// to an unrelated token / a sibling -- the wrong binding must not ride on the first discharge's success
		{
			r2, ch, sib := b.slot(), b.slot(), b.slot()
			b.do(sym.Op{Kind: "OMint", S: r2, K: keyRoot, Kid: []byte{'t'}, Loc: 0, V: 1})
			b.do(sym.Op{Kind: "OAdd", S: r2, Adds: []sym.ACav{{D: sym.DOf(0)}, {Is3P: true, EncKey: keyTP1, Loc: 1}}})
			b.do(sym.Op{Kind: "OAdd", S: r2, Adds: []sym.ACav{{Is3P: true, EncKey: keyTP2, Loc: 2}}})
			b.do(sym.Op{Kind: "OClone", Dst: ch, Src: r2})
			b.do(sym.Op{Kind: "OAdd", S: ch, Adds: []sym.ACav{{D: sym.DOf(12)}}})
			b.do(sym.Op{Kind: "OClone", Dst: sib, Src: r2})
			b.do(sym.Op{Kind: "OAdd", S: sib, Adds: []sym.ACav{{D: sym.DOf(13)}}})
			da, db := b.slot(), b.slot()
			proof := b.r.Bool()
			b.do(sym.Op{Kind: "ODischarge", Dst: da, Src: r2, I: 1, K: keyTP1, Loc: 1, Proof: proof})
			b.do(sym.Op{Kind: "ODischarge", Dst: db, Src: r2, I: 2, K: keyTP2, Loc: 2, Proof: proof})
			b.do(sym.Op{Kind: "OBind", S: da, Src: ch})
			wrong := rng.Pick(b.r, []uint64{sib, unrelated})
			b.do(sym.Op{Kind: "OBind", S: db, Src: wrong})
			if b.r.Bool() {
				b.do(sym.Op{Kind: "OBind", S: db, Src: ch}) // stacked with a correct binding: all must hold
			}
			b.do(sym.Op{Kind: "OEncode", S: da})
			b.do(sym.Op{Kind: "OEncode", S: db})
			for _, order := range [][]uint64{{da, db}, {db, da}} {
				if ob := b.do(sym.Op{Kind: "OVerify", S: ch, K: keyRoot, Slots: order}); accepted(ob) && oracle == "" {
					oracle = "a discharge bound to a sibling / unrelated token was accepted because an earlier third-party caveat was properly discharged"
				}
			}
			b.do(sym.Op{Kind: "OVerify", S: sib, K: keyRoot, Slots: []uint64{da, db}})
		}
		// a proof discharge that was bound, published and read back cannot be bound again (it is final): a second Bind must
		// fail loudly, not report success while leaving the old binding in force
		{
			pd, pd2 := b.slot(), b.slot()
			na := b.r.Intn(len(nodes))
			b.do(sym.Op{Kind: "ODischarge", Dst: pd, Src: root, I: 1, K: keyTP1, Loc: 1, Proof: true})
			b.do(sym.Op{Kind: "OBind", S: pd, Src: nodes[na]})
			b.do(sym.Op{Kind: "OEncode", S: pd})
			b.do(sym.Op{Kind: "ODecodeRaw", Dst: pd2, Src: pd})
			nb := b.r.Intn(len(nodes))
			ob := b.do(sym.Op{Kind: "OBind", S: pd2, Src: nodes[nb]})
			if len(ob) == 1 && ob[0] == 1 && oracle == "" {
				oracle = "Bind reported success on a finalised proof discharge"
			}
			for ni := range nodes {
				b.do(sym.Op{Kind: "OVerify", S: nodes[ni], K: keyRoot, Slots: []uint64{pd2}})
			}
		}
		// a token carrying a binding presented as a permission token is rejected
		bt := b.slot()
		b.do(sym.Op{Kind: "OClone", Dst: bt, Src: nodes[len(nodes)-1]})
		b.do(sym.Op{Kind: "OBind", S: bt, Src: root})
		ob := b.do(sym.Op{Kind: "OVerify", S: bt, K: keyRoot, Slots: []uint64{d}})
		if accepted(ob) && oracle == "" {
			oracle = "permission token carrying a binding caveat was accepted"
		}
		b.emit(st, fmt.Sprintf("bind/%dnodes-%dbinds", len(nodes), nb), true, oracle)
	}
	if sym.TicketHelperFail != "" {
		b := newBuilder(c.r.Fork())
		b.emit(st, "binding-id", true, sym.TicketHelperFail)
	}
	emitCacheDischarge(c, st)
}

// ---------------------------------------------------------------- C07: attestations
func genC07(c *ctx) {
	st := c.set.Stream("sym-att", "Corr.RunS", "run", 120)
	n := 400
	if c.thorough {
		n = 12000
	}
	trusts := func(r *rng.R) []sym.Trust {
		switch r.Intn(6) {
		case 0:
			return nil
		case 1:
			return []sym.Trust{{Loc: 1, Keys: nil}}
		case 2:
			return []sym.Trust{{Loc: 1, Keys: []uint64{keyEvil2}}}
		case 3:
			return []sym.Trust{{Loc: 1, Keys: []uint64{keyEvil2, keyTP1, keyTP2}}}
		case 4:
			return []sym.Trust{{Loc: 2, Keys: []uint64{keyTP1}}}
		}
		return []sym.Trust{{Loc: 1, Keys: []uint64{keyTP1}}}
	}
	for i := 0; i < n; i++ {
		b := newBuilder(c.r.Fork())
		r := b.r
		root := b.slot()
		b.do(sym.Op{Kind: "OMint", S: root, K: keyRoot, Kid: []byte{'k'}, Loc: 0, V: 1})
		b.do(sym.Op{Kind: "OAdd", S: root, Adds: []sym.ACav{{D: sym.DOf(0)}, {Is3P: true, EncKey: keyTP1, Loc: 1}}})
		genuine := b.slot()
		b.do(sym.Op{Kind: "ODischarge", Dst: genuine, Src: root, I: 1, K: keyTP1, Loc: 1, Proof: true, Ds: []sym.D{sym.DOf(3)}})
		b.do(sym.Op{Kind: "OEncode", S: genuine})
		class := ""
		tok := root
		dis := []uint64{genuine}
		switch r.Intn(10) {
		case 0: // bearer adds attestation / wrapper directly
			t := b.slot()
			b.do(sym.Op{Kind: "OClone", Dst: t, Src: root})
			b.do(sym.Op{Kind: "OAdd", S: t, Adds: []sym.ACav{{D: sym.DOf(rng.Pick(r, append(append([]uint64{}, attIDs...), wrapIDs...)))}}})
			tok = t
			class = "bearer-add"
		case 1: // bearer appends it by hand with a correct MAC extension
			t := b.slot()
			b.do(sym.Op{Kind: "ODecodeRaw", Dst: t, Src: root})
			id := rng.Pick(r, append(append([]uint64{}, attIDs...), wrapIDs...))
			b.do(sym.Op{Kind: "OAppendData", S: t, Ds: []sym.D{sym.DOf(id)}})
			nc := uint64(len(b.env.Slots[t].UnsafeCaveats.Caveats))
			b.do(sym.Op{Kind: "OSetTail", S: t, X: &sym.TailX{Kind: "XMacCav", X: &sym.TailX{Kind: "XTail", S: root}, S: t, I: nc - 1}})
			tok = t
			class = "bearer-hand-extension"
		case 2: // own third-party caveat under own key, naming the trusted location; self-issued proof discharge with attestation
			t := b.slot()
			b.do(sym.Op{Kind: "OClone", Dst: t, Src: root})
			loc := uint64(2)
			if r.Bool() {
				loc = 1 // refused: second 3P for the same location
			}
			b.do(sym.Op{Kind: "OAdd", S: t, Adds: []sym.ACav{{Is3P: true, EncKey: keyEvil, Loc: loc}}})
			d := b.slot()
			idx := b.threePIdx(t)
			b.do(sym.Op{Kind: "ODischarge", Dst: d, Src: t, I: idx[len(idx)-1], K: keyEvil, Loc: rng.Pick(r, []uint64{1, 2}), Proof: true, Ds: []sym.D{sym.DOf(4)}})
			b.do(sym.Op{Kind: "OEncode", S: d})
			tok = t
			dis = append(dis, d)
			class = "own-3p-spoofed-location"
		case 3: // copied ticket of the trusted party inside an own 3P caveat, self-issued discharge keyed with own secret
			t := b.slot()
			b.do(sym.Op{Kind: "ODecodeRaw", Dst: t, Src: root})
			b.do(sym.Op{Kind: "ODropCav", S: t, I: 1}) // work from a token without the genuine 3P: not possible for a holder -> rejected anyway
			b.do(sym.Op{Kind: "OAdd3PWithTicket", S: t, Loc: 1, K: keyEvil2, Src: root, J: 1})
			d := b.slot()
			b.do(sym.Op{Kind: "OMintForTicket", Dst: d, Src: root, J: 1, K: keyEvil2, Loc: 1, Proof: true})
			b.do(sym.Op{Kind: "OAdd", S: d, Adds: []sym.ACav{{D: sym.DOf(4)}}})
			b.do(sym.Op{Kind: "OEncode", S: d})
			tok = t
			dis = []uint64{d}
			class = "copied-ticket-dropped-genuine"
		case 4: // same but on an unrelated token minted for the attacker by the issuer (holder of a legit token)
			t := b.slot()
			b.do(sym.Op{Kind: "OMint", S: t, K: keyRoot, Kid: []byte{'a'}, Loc: 0, V: 1})
			// the key he seals: one of his own, or the empty key (what Add seals into a hand-built Caveat3P{Location, Ticket});
			// the ticket: the trusted party's, or one that no trusted key opens (sealed under his own key)
			ek := rng.Pick(r, []uint64{keyEvil2, sym.KeyEmpty, sym.KeyEmpty})
			tsrc, tj := root, uint64(1)
			if r.Bool() {
				own := b.slot()
				b.do(sym.Op{Kind: "OMint", S: own, K: keyEvil, Kid: []byte{'e'}, Loc: 0, V: 1})
				b.do(sym.Op{Kind: "OAdd", S: own, Adds: []sym.ACav{{Is3P: true, EncKey: keyEvil, Loc: 1}}})
				tsrc, tj = own, 0
			}
			b.do(sym.Op{Kind: "OAdd3PWithTicket", S: t, Loc: uint64(1 + r.Intn(2)), K: ek, Src: tsrc, J: tj})
			d := b.slot()
			b.do(sym.Op{Kind: "OMintForTicket", Dst: d, Src: tsrc, J: tj, K: ek, Loc: uint64(1 + r.Intn(2)), Proof: true})
			b.do(sym.Op{Kind: "OAdd", S: d, Adds: []sym.ACav{{D: sym.DOf(4)}}})
			b.do(sym.Op{Kind: "OEncode", S: d})
			tok = t
			dis = []uint64{d}
			class = "copied-ticket-own-verifier-key"
		case 9: // the honest caveat (ticket T) stays; the bearer appends an own caveat RE-USING T under his own key and presents the
			// honest discharge together with a self-minted proof for T carrying an attestation
			t := b.slot()
			b.do(sym.Op{Kind: "ODecodeRaw", Dst: t, Src: root})
			ek := rng.Pick(r, []uint64{keyEvil2, sym.KeyEmpty})
			b.do(sym.Op{Kind: "OAdd3PWithTicket", S: t, Loc: uint64(1 + r.Intn(2)), K: ek, Src: root, J: 1})
			d := b.slot()
			b.do(sym.Op{Kind: "OMintForTicket", Dst: d, Src: root, J: 1, K: ek, Loc: uint64(1 + r.Intn(2)), Proof: true})
			b.do(sym.Op{Kind: "OAdd", S: d, Adds: []sym.ACav{{D: sym.DOf(4)}}})
			b.do(sym.Op{Kind: "OEncode", S: d})
			tok = t
			dis = []uint64{genuine, d}
			if r.Bool() {
				dis = []uint64{d, genuine}
			}
			class = "reused-trusted-ticket"
		case 5: // non-proof discharge extended by hand with an attestation
			d := b.slot()
			b.do(sym.Op{Kind: "ODischarge", Dst: d, Src: root, I: 1, K: keyTP1, Loc: 1, Proof: false})
			b.do(sym.Op{Kind: "OAdd", S: d, Adds: []sym.ACav{{D: sym.DOf(3)}}})
			b.do(sym.Op{Kind: "OAppendData", S: d, Ds: []sym.D{sym.DOf(3)}})
			nc := uint64(len(b.env.Slots[d].UnsafeCaveats.Caveats))
			if r.Bool() {
				cp := b.slot()
				b.do(sym.Op{Kind: "ODecodeRaw", Dst: cp, Src: d})
				b.do(sym.Op{Kind: "ODropCav", S: cp, I: nc - 1})
				b.do(sym.Op{Kind: "OSetTail", S: d, X: &sym.TailX{Kind: "XMacCav", X: &sym.TailX{Kind: "XTail", S: cp}, S: d, I: nc - 1}})
			}
			if r.Bool() {
				b.do(sym.Op{Kind: "OFlipProof", S: d})
			}
			dis = []uint64{d}
			class = "nonproof-discharge-extended"
		case 6: // proof discharge extended by hand after finalisation
			d := b.slot()
			b.do(sym.Op{Kind: "ODecodeRaw", Dst: d, Src: genuine})
			b.do(sym.Op{Kind: "OAppendData", S: d, Ds: []sym.D{sym.DOf(4)}})
			nc := uint64(len(b.env.Slots[d].UnsafeCaveats.Caveats))
			x := &sym.TailX{Kind: "XMacCav", X: &sym.TailX{Kind: "XTail", S: genuine}, S: d, I: nc - 1}
			if r.Bool() {
				x = &sym.TailX{Kind: "XFin", X: x}
			}
			b.do(sym.Op{Kind: "OSetTail", S: d, X: x})
			dis = []uint64{d}
			class = "proof-discharge-extended"
		case 7: // proof root token signed with the verifier's own key carrying attestations
			t := b.slot()
			b.do(sym.Op{Kind: "OMint", S: t, K: keyRoot, Kid: []byte{'p'}, Loc: 0, Proof: true, V: 1})
			b.do(sym.Op{Kind: "OAdd", S: t, Adds: []sym.ACav{{D: sym.DOf(3)}, {D: sym.DOf(0)}, {D: sym.DOf(5)}}})
			b.do(sym.Op{Kind: "OEncode", S: t})
			tok = t
			dis = nil
			class = "own-proof"
		default: // genuine, discharge location rewritten
			d := b.slot()
			b.do(sym.Op{Kind: "ODecodeRaw", Dst: d, Src: genuine})
			b.do(sym.Op{Kind: "OSetLoc", S: d, Loc: uint64(r.Intn(3))})
			dis = []uint64{d}
			class = "genuine-relocated"
		}
		for k := 0; k < 3; k++ {
			b.do(sym.Op{Kind: "OVerify", S: tok, K: keyRoot, Slots: dis, Tr: trusts(r)})
		}
		b.do(sym.Op{Kind: "OVerify", S: tok, K: keyRoot, Slots: dis, Tr: []sym.Trust{{Loc: 1, Keys: []uint64{keyTP1}}}})
		b.emit(st, "att/"+class, true, "")
	}
	emitCacheDischarge(c, st)
	{
		b := newBuilder(c.r.Fork())
		b.emit(st, "att/old-format-token-repeated-nonce-field", true, staleNonceForgeryOracle())
	}
}

// ---------------------------------------------------------------- C08: proofs are final
func genC08(c *ctx) {
	st := c.set.Stream("sym-proof", "Corr.RunS", "run", 120)
	n := 400
	if c.thorough {
		n = 12000
	}
	for i := 0; i < n; i++ {
		b := newBuilder(c.r.Fork())
		r := b.r
		root := b.slot()
		b.do(sym.Op{Kind: "OMint", S: root, K: keyRoot, Kid: []byte{'k'}, Loc: 0, V: 1})
		b.do(sym.Op{Kind: "OAdd", S: root, Adds: []sym.ACav{{Is3P: true, EncKey: keyTP1, Loc: 1}}})
		p := b.slot()
		b.do(sym.Op{Kind: "ODischarge", Dst: p, Src: root, I: 0, K: keyTP1, Loc: 1, Proof: true, Ds: []sym.D{sym.DOf(1)}})
		slots := []uint64{p}
		encoded := false           // some object has been encoded (a first wire form exists)
		final := map[uint64]bool{} // per object: it has been encoded / cloned / decoded, i.e. it is final
		var firstWire uint64
		oracle := ""
		for k := 1 + r.Intn(7); k > 0; k-- {
			s := rng.Pick(r, slots)
			switch r.Intn(10) {
			case 9: // a by-value copy of the object (shares the tail's backing array): each copy finalises for itself, once
				nd := b.slot()
				b.do(sym.Op{Kind: "OCopyVal", Dst: nd, Src: s})
				final[nd] = final[s]
				slots = append(slots, nd)
			case 7: // the helpers that build the caveat themselves: binding, Add3P
				ob := b.do(sym.Op{Kind: "OBind", S: s, Src: root})
				if final[s] && len(ob) == 1 && ob[0] == 1 && oracle == "" {
					oracle = "Bind succeeded on a proof after it was encoded"
				}
			case 8:
				ob := b.do(sym.Op{Kind: "OAdd", S: s, Adds: []sym.ACav{{Is3P: true, EncKey: keyTP2, Loc: uint64(2 + r.Intn(2))}}})
				if final[s] && len(ob) == 1 && ob[0] == 1 && oracle == "" {
					oracle = "Add3P succeeded on a proof after it was encoded"
				}
			case 0:
				ob := b.do(sym.Op{Kind: "OAdd", S: s, Adds: b.randData(1)})
				if final[s] && len(ob) == 1 && ob[0] == 1 && oracle == "" {
					oracle = "Add succeeded on a proof after it was encoded"
				}
			case 1:
				b.do(sym.Op{Kind: "OEncode", S: s})
				final[s] = true
				if !encoded {
					encoded = true
					firstWire = b.slot()
					b.do(sym.Op{Kind: "ODecodeRaw", Dst: firstWire, Src: s})
				}
			case 2:
				nd := b.slot()
				b.do(sym.Op{Kind: "OClone", Dst: nd, Src: s})
				final[s], final[nd] = true, true
				if !encoded {
					encoded = true
					firstWire = b.slot()
					b.do(sym.Op{Kind: "ODecodeRaw", Dst: firstWire, Src: s})
				}
				slots = append(slots, nd)
			case 3:
				b.do(sym.Op{Kind: "OVerify", S: root, K: keyRoot, Slots: []uint64{s}, Tr: []sym.Trust{{Loc: 1, Keys: []uint64{keyTP1}}}, Direct: false})
			case 4:
				// VerifyParsed on the live objects: a never-encoded (unfinalised) proof must not verify
				live := b.env.Slots[s]
				unfinal := live.Nonce.Proof && live.VerifNewProof()
				ob := b.do(sym.Op{Kind: "OVerifyObjs", S: root, K: keyRoot, Slots: []uint64{s}, Tr: []sym.Trust{{Loc: 1, Keys: []uint64{keyTP1}}}})
				if unfinal && accepted(ob) && oracle == "" {
					oracle = "an unfinalised proof object was accepted by VerifyParsed"
				}
			case 5:
				if final[s] {
					// hand-built extension from the published tail (the tail of an object that was never encoded is not
					// published: extending THAT by hand is what Add does; with by-value copies around, "some slot was
					// encoded" does not mean this one was)
					e := b.slot()
					b.do(sym.Op{Kind: "ODecodeRaw", Dst: e, Src: s})
					b.do(sym.Op{Kind: "OAppendData", S: e, Ds: []sym.D{sym.DOf(rng.Pick(r, dataIDs))}})
					nc := uint64(len(b.env.Slots[e].UnsafeCaveats.Caveats))
					var x *sym.TailX = &sym.TailX{Kind: "XTail", S: s}
					switch r.Intn(5) {
					case 0:
						x = &sym.TailX{Kind: "XMacCav", X: x, S: e, I: nc - 1}
					case 1:
						x = &sym.TailX{Kind: "XFin", X: &sym.TailX{Kind: "XMacCav", X: x, S: e, I: nc - 1}}
					case 2:
						x = &sym.TailX{Kind: "XFin", X: x}
					case 3:
						x = &sym.TailX{Kind: "XMacCav", X: &sym.TailX{Kind: "XDigest", X: x}, S: e, I: nc - 1}
					}
					b.do(sym.Op{Kind: "OSetTail", S: e, X: x})
					ob := b.do(sym.Op{Kind: "OVerify", S: root, K: keyRoot, Slots: []uint64{e}})
					if accepted(ob) && oracle == "" {
						oracle = "hand-extended proof accepted"
					}
				}
			case 6:
				if encoded {
					ob := b.do(sym.Op{Kind: "OSameWire", S: s, Src: firstWire})
					_ = ob
				}
			}
		}
		// stability: every slot derived from p by encode/clone only must equal the first wire form,
		// unless a (refused) Add happened in between -- the model decides; here just record
		b.emit(st, "proof-ops", true, oracle)
	}
	{
		b := newBuilder(c.r.Fork())
		b.emit(st, "proof-stable-under-unrelated-activity", true, unrelatedActivityOracle(false))
	}
}
