package main

import (
	"bytes"
	"context"
	"encoding/json"
	"fmt"
	"io"
	"net/http"
	"net/url"
	"sort"
	"strings"
	"sync"
	"time"

	"github.com/superfly/macaroon"
	"github.com/superfly/macaroon/tp"

	"verifharness/internal/coqw"
	"verifharness/internal/cs"
	"verifharness/internal/rng"
)

func init() { props["C20"] = genC20 }

const c20FirstParty = "https://api.first.test/v1"

type c20Reply struct {
	Kind string // RDischarge RPoll RUser RRedirect RError (RUser: user-interactive answer; on the wire side of the client it is a poll)
	Host string // poll host / redirect target (authority as written in the URL)
	N    int
	Next *c20Reply
}

func (r *c20Reply) clone() *c20Reply {
	if r == nil {
		return nil
	}
	c := *r
	c.Next = r.Next.clone()
	return &c
}

func (r *c20Reply) coq(hn func(string) string) string {
	switch r.Kind {
	case "RDischarge", "RError":
		return r.Kind
	case "REmpty":
		return "RError" // an answer with neither a discharge nor an error is a failed flow
	case "RPoll", "RUser":
		return coqw.App("RPoll", coqw.Str(hn(r.Host)), coqw.Nat(r.N), r.Next.coq(hn))
	case "RRedirect":
		return coqw.App("RRedirect", coqw.Str(hn(r.Host)), r.Next.coq(hn))
	}
	panic("reply")
}

type c20Req struct {
	Transport uint64
	Host      string
	Auth      string
	HasAuth   bool
	URL       string
}

// c20World is the scripted third-party side shared by all capturing transports
type c20World struct {
	mu       sync.Mutex
	reqs     []c20Req
	keys     map[string]macaroon.EncryptionKey // location -> third-party key
	script   map[string]*c20Reply              // location -> reply script
	flows    map[string]*c20Flow
	nflow    int
	userURLs []string // user URLs handed out by the scripted third parties
	cbURLs   []string // user URLs the client passed to its callback
}

type c20Flow struct {
	loc    string
	ticket []byte
	rest   *c20Reply
	polls  int
}

type c20Transport struct {
	id     uint64
	w      *c20World
	shared bool // one of the long-lived http.Clients handed to many discharge clients: serves the current case's world
}

// Applications hand one http.Client to many discharge clients (one per user). c20Shared are such long-lived clients; the
// library must never write a credential-carrying transport into them, whatever the option order. c20Cur is the world of
// the case being run.
var (
	c20Shared = map[uint64]*http.Client{}
	c20Cur    *c20World
)

func c20HTTP(id uint64, w *c20World, shared bool) *http.Client {
	if !shared {
		return &http.Client{Transport: &c20Transport{id: id, w: w}}
	}
	if c20Shared[id] == nil {
		c20Shared[id] = &http.Client{Transport: &c20Transport{id: id, shared: true}}
	}
	return c20Shared[id]
}

func jsonResp(req *http.Request, status int, v any) *http.Response {
	b, _ := json.Marshal(v)
	return &http.Response{StatusCode: status, Status: fmt.Sprint(status), Body: io.NopCloser(bytes.NewReader(b)), Header: http.Header{"Content-Type": {"application/json"}}, Request: req, ProtoMajor: 1, ProtoMinor: 1}
}

func (t *c20Transport) RoundTrip(r *http.Request) (*http.Response, error) {
	w := t.w
	if t.shared {
		w = c20Cur
	}
	w.mu.Lock()
	defer w.mu.Unlock()
	auth, has := r.Header["Authorization"]
	rq := c20Req{Transport: t.id, Host: r.URL.Hostname(), HasAuth: has, URL: r.URL.String()}
	if has {
		rq.Auth = strings.Join(auth, "|")
		// net/http itself adds "Basic <userinfo>" for URLs carrying userinfo; that is not a configured credential
		if strings.HasPrefix(rq.Auth, "Basic ") {
			rq.HasAuth, rq.Auth = false, ""
		}
	}
	w.reqs = append(w.reqs, rq)
	path := r.URL.Path
	var fl *c20Flow
	switch {
	case strings.HasSuffix(path, tp.InitPath) && r.Method == http.MethodPost:
		var body struct {
			Ticket []byte `json:"ticket"`
		}
		if r.Body != nil {
			json.NewDecoder(r.Body).Decode(&body)
		}
		// which location? the one whose init URL this is
		loc := ""
		for l := range w.script {
			if initURLOf(l) == r.URL.String() {
				loc = l
			}
		}
		if loc == "" {
			return jsonResp(r, 404, map[string]string{"error": "unknown location"}), nil
		}
		w.nflow++
		fl = &c20Flow{loc: loc, ticket: body.Ticket, rest: w.script[loc].clone()}
		w.flows[fmt.Sprint(w.nflow)] = fl
		return w.serve(r, fmt.Sprint(w.nflow), fl), nil
	case strings.Contains(path, "/flow/"):
		id := path[strings.LastIndex(path, "/")+1:]
		fl = w.flows[id]
		if fl == nil {
			return jsonResp(r, 404, map[string]string{"error": "not found"}), nil
		}
		return w.serve(r, id, fl), nil
	}
	return jsonResp(r, 404, map[string]string{"error": "not found"}), nil
}

func initURLOf(loc string) string {
	if strings.HasSuffix(loc, "/") {
		return loc + tp.InitPath[1:]
	}
	return loc + tp.InitPath
}

func (w *c20World) serve(r *http.Request, id string, fl *c20Flow) *http.Response {
	switch fl.rest.Kind {
	case "RError":
		return jsonResp(r, 200, map[string]string{"error": "denied"})
	case "REmpty":
		return jsonResp(r, 200, map[string]string{})
	case "RDischarge":
		_, dm, err := macaroon.DischargeTicket(w.keys[fl.loc], fl.loc, fl.ticket)
		if err != nil {
			return jsonResp(r, 200, map[string]string{"error": "bad ticket"})
		}
		s, _ := dm.String()
		return jsonResp(r, 201, map[string]string{"discharge": s})
	case "RRedirect":
		target := "https://" + fl.rest.Host + "/flow/" + id
		fl.rest = fl.rest.Next
		resp := jsonResp(r, 307, map[string]string{})
		resp.Header.Set("Location", target)
		return resp
	case "RPoll", "RUser":
		if fl.polls < 0 { // poll URL already handed out
			if fl.rest.N > 0 {
				fl.rest.N--
				return jsonResp(r, 202, map[string]string{"error": "not ready"})
			}
			fl.rest = fl.rest.Next
			return w.serve(r, id, fl)
		}
		fl.polls = -1
		if fl.rest.Kind == "RUser" {
			// the user goes to user_url in a browser; the client is told the URL through its callback and only ever polls
			uu := "https://login." + fl.rest.Host + "/user/" + id
			w.userURLs = append(w.userURLs, uu)
			return jsonResp(r, 201, map[string]any{"user_interactive": map[string]string{"poll_url": "https://" + fl.rest.Host + "/flow/" + id, "user_url": uu}})
		}
		return jsonResp(r, 201, map[string]string{"poll_url": "https://" + fl.rest.Host + "/flow/" + id})
	}
	return jsonResp(r, 500, map[string]string{"error": "script"})
}

func hostnameOf(authority string) string {
	u, err := url.Parse("https://" + authority + "/")
	if err != nil {
		return authority
	}
	return u.Hostname()
}

// authKey mirrors nothing in the model: it is how net/url reduces a configured location to a host
func authKey(loc string) string {
	if u, err := url.Parse(loc); err == nil && u.IsAbs() {
		return u.Hostname()
	}
	return loc
}

var c20Authorities = []string{"auth.example", "auth.example:8443", "AUTH.example", "sub.auth.example", "auth.example.evil.test",
	"evil.test", "user@evil.test", "auth.example@evil.test", "xauth.example", "auth.exampl", "10.0.0.1", "[::1]:9000"}

func genC20(c *ctx) {
	st := c.set.Stream("client-opts", "Corr.RunC", "run", 150)
	n := 250
	if c.thorough {
		n = 6000
	}
	key := macaroon.NewSigningKey()
	for i := 0; i < n; i++ {
		r := c.r.Fork()
		// third-party locations of this case
		nl := 1 + r.Intn(3)
		var locs []string
		seenLoc := map[string]bool{}
		// one case in six is the shape of finding F13: the trusted host makes the client poll, answers "not ready" at least
		// once and then redirects the poll to a host BENEATH it (net/http forwards the original request's headers there)
		f13 := r.P(1, 6)
		if f13 {
			nl = 1
			locs = []string{"https://auth.example"}
			seenLoc[locs[0]] = true
		}
		for len(locs) < nl {
			a := rng.Pick(r, c20Authorities)
			l := "https://" + a
			if r.P(1, 4) {
				l += "/base/"
			}
			if !seenLoc[l] {
				seenLoc[l] = true
				locs = append(locs, l)
			}
		}
		w := &c20World{keys: map[string]macaroon.EncryptionKey{}, script: map[string]*c20Reply{}, flows: map[string]*c20Flow{}}
		c20Cur = w
		sharedHTTP := r.Bool()
		var mkReply func(depth int) *c20Reply
		mkReply = func(depth int) *c20Reply {
			switch k := r.Intn(8); {
			case k < 3 || depth > 2:
				return &c20Reply{Kind: "RDischarge"}
			case k < 5:
				// after the "not ready" answers the poll URL answers with the discharge, an error or a redirect
				next := &c20Reply{Kind: rng.Pick(r, []string{"RDischarge", "RDischarge", "RDischarge", "REmpty", "RError"})}
				if r.P(1, 3) {
					next = &c20Reply{Kind: "RRedirect", Host: rng.Pick(r, c20Authorities), Next: &c20Reply{Kind: "RDischarge"}}
				}
				return &c20Reply{Kind: rng.Pick(r, []string{"RPoll", "RPoll", "RUser"}), Host: rng.Pick(r, c20Authorities), N: r.Intn(3), Next: next}
			case k < 7:
				return &c20Reply{Kind: "RRedirect", Host: rng.Pick(r, c20Authorities), Next: mkReply(depth + 1)}
			}
			return &c20Reply{Kind: rng.Pick(r, []string{"RError", "RError", "REmpty"})}
		}
		// the caller's header: 1-2 permission tokens, each with a 3P caveat for some of the locations
		nperm := 1 + r.Intn(2)
		tickets := map[string]int{}
		var toks []string
		for p := 0; p < nperm; p++ {
			m, _ := macaroon.New([]byte{byte(p)}, c20FirstParty, key)
			for _, l := range locs {
				if p == 0 || r.Bool() {
					if _, ok := w.keys[l]; !ok {
						w.keys[l] = macaroon.NewEncryptionKey()
					}
					if err := m.Add3P(w.keys[l], l); err == nil {
						tickets[l]++
					}
				}
			}
			s, _ := m.String()
			toks = append(toks, s)
		}
		// an unrelated discharge-looking token that DefaultFilter drops, and a non-macaroon entry that is kept
		hdrToks := append([]string{}, toks...)
		if r.P(1, 3) {
			hdrToks = append(hdrToks, "fo1_abc")
		}
		scheme := r.Bool()
		hdr := strings.Join(hdrToks, ",")
		if scheme {
			hdr = rng.Pick(r, []string{"FlyV1 ", "Bearer ", "flyv1 "}) + hdr
		}
		var tpsCoq []string
		for li, l := range locs {
			w.script[l] = mkReply(0)
			if f13 {
				w.script[l] = &c20Reply{Kind: rng.Pick(r, []string{"RPoll", "RUser"}), Host: "auth.example", N: 1 + r.Intn(2),
					Next: &c20Reply{Kind: "RRedirect", Host: rng.Pick(r, []string{"sub.auth.example", "a.b.auth.example"}), Next: &c20Reply{Kind: "RDischarge"}}}
			}
			u, _ := url.Parse(initURLOf(l))
			tpsCoq = append(tpsCoq, coqw.App("mkTP", coqw.N(uint64(li+1)), coqw.Str(u.Hostname()), w.script[l].coq(hostnameOf), coqw.Nat(tickets[l])))
		}
		// options in random order and repetition
		var opts []tp.ClientOption
		var optsCoq []string
		var optsDesc []string
		ignored := map[string]bool{}
		nopt := r.Intn(7)
		if f13 {
			cred := fmt.Sprintf("tok%d", r.Intn(3))
			opts = append(opts, tp.WithAuthentication("https://auth.example", cred))
			optsCoq = append(optsCoq, coqw.App("WithAuth", coqw.Str(authKey("https://auth.example")), coqw.Str(cred)))
			optsDesc = append(optsDesc, fmt.Sprintf("WithAuthentication(%q,%q)", "https://auth.example", cred))
		}
		for k := 0; k < nopt; k++ {
			switch r.Intn(6) {
			case 0, 1:
				id := uint64(1 + r.Intn(3))
				opts = append(opts, tp.WithHTTP(c20HTTP(id, w, sharedHTTP)))
				optsCoq = append(optsCoq, coqw.App("WithHTTP", coqw.N(id)))
				optsDesc = append(optsDesc, fmt.Sprintf("WithHTTP(#%d)", id))
			case 2, 3:
				loc := rng.Pick(r, locs)
				if r.P(1, 3) {
					loc = "https://" + rng.Pick(r, c20Authorities)
				}
				if r.P(1, 8) {
					loc = rng.Pick(r, []string{"auth.example", "evil.test"}) // not an absolute URL: used verbatim
				}
				cred := fmt.Sprintf("tok%d", r.Intn(3))
				if r.Bool() {
					opts = append(opts, tp.WithBearerAuthentication(loc, cred))
					cred = "Bearer " + cred
				} else {
					if r.P(1, 6) {
						cred = ""
					}
					opts = append(opts, tp.WithAuthentication(loc, cred))
				}
				optsCoq = append(optsCoq, coqw.App("WithAuth", coqw.Str(authKey(loc)), coqw.Str(cred)))
				optsDesc = append(optsDesc, fmt.Sprintf("WithAuthentication(%q,%q)", loc, cred))
			case 4:
				var ig []string
				var igN []uint64
				for li, l := range locs {
					if r.P(1, 3) {
						ig = append(ig, l)
						igN = append(igN, uint64(li+1))
					}
				}
				for _, l := range ig {
					ignored[l] = true
				}
				opts = append(opts, tp.WithIgnoredThirdParties(ig...))
				optsCoq = append(optsCoq, coqw.App("WithIgnored", coqw.ListOf(igN, coqw.N)))
				optsDesc = append(optsDesc, fmt.Sprintf("WithIgnoredThirdParties(%v)", ig))
			case 5:
				opts = append(opts, tp.WithPollingBackoff(func(time.Duration) time.Duration { return time.Millisecond }))
				optsCoq = append(optsCoq, "WithOther")
				optsDesc = append(optsDesc, "WithPollingBackoff")
			}
		}
		// the harness must see every request: if no WithHTTP was given the library default transport would be used;
		// so always end with (or start with) a capturing client — position chosen at random
		id := uint64(1 + r.Intn(3))
		capOpt := tp.WithHTTP(c20HTTP(id, w, sharedHTTP))
		// fast polling
		fast := tp.WithPollingBackoff(func(time.Duration) time.Duration { return time.Millisecond })
		pos := r.Intn(len(opts) + 1)
		opts = append(opts[:pos], append([]tp.ClientOption{capOpt}, opts[pos:]...)...)
		optsCoq = append(optsCoq[:pos], append([]string{coqw.App("WithHTTP", coqw.N(id))}, optsCoq[pos:]...)...)
		optsDesc = append(optsDesc[:pos], append([]string{fmt.Sprintf("WithHTTP(#%d)", id)}, optsDesc[pos:]...)...)
		opts = append(opts, fast)
		optsCoq = append(optsCoq, "WithOther")
		opts = append(opts, tp.WithUserURLCallback(func(_ context.Context, u string) error {
			w.mu.Lock()
			w.cbURLs = append(w.cbURLs, u)
			w.mu.Unlock()
			return nil
		}))
		optsCoq = append(optsCoq, "WithOther")
		// a WithHTTP placed before the capturing one may be the library default? no: every WithHTTP here captures.
		// but if the first option is WithAuthentication the wrapper is built around cleanhttp's transport and later re-based by WithHTTP.
		client := tp.NewClient(c20FirstParty, opts...)
		// the http.Clients handed to WithHTTP belong to the caller (and to every other discharge client he gave them to)
		aliasFail := ""
		for id, hc := range c20Shared {
			if _, own := hc.Transport.(*c20Transport); !own {
				if aliasFail == "" {
					aliasFail = fmt.Sprintf("NewClient replaced the Transport of the caller's http.Client #%d by %T: every request made through that client by anyone (other users' discharge clients, the application itself) now carries this client's credentials", id, hc.Transport)
				}
				hc.Transport = &c20Transport{id: id, shared: true}
			}
		}
		// NeedsDischarge before the fetch: some third party that is not ignored still has an undischarged ticket
		needWant := false
		for _, l := range locs {
			needWant = needWant || (tickets[l] > 0 && !ignored[l])
		}
		needGot, needErr := client.NeedsDischarge(hdr)
		ctx2, cancel := context.WithTimeout(context.Background(), 5*time.Second)
		out, ferr := client.FetchDischargeTokens(ctx2, hdr)
		cancel()
		w.mu.Lock()
		reqs := append([]c20Req{}, w.reqs...)
		w.mu.Unlock()
		sort.Slice(reqs, func(a, b int) bool { return reqs[a].URL < reqs[b].URL })
		var reqCoq []string
		var reqDesc []string
		for _, q := range reqs {
			au := "None"
			if q.HasAuth {
				au = "(Some " + coqw.Str(q.Auth) + ")"
			}
			reqCoq = append(reqCoq, coqw.Pair(coqw.Pair(coqw.N(q.Transport), coqw.Str(q.Host)), au))
			reqDesc = append(reqDesc, fmt.Sprintf("#%d %s auth=%q", q.Transport, q.URL, q.Auth))
		}
		// result header: caller's kept tokens in order, then the collected discharges; scheme prefix kept
		outBody, outScheme := macaroon.StripAuthorizationScheme(out)
		outToks := strings.Split(outBody, ",")
		if outBody == "" {
			outToks = nil
		}
		oracle := aliasFail
		if oracle == "" && (needErr != nil || needGot != needWant) {
			oracle = fmt.Sprintf("NeedsDischarge = %v (err %v) but the header has undischarged, non-ignored third-party caveats: %v", needGot, needErr, needWant)
		}
		if oracle == "" && ferr == nil {
			if again, aerr := client.NeedsDischarge(out); aerr != nil || again {
				oracle = fmt.Sprintf("after a successful fetch NeedsDischarge(result) = %v (err %v)", again, aerr)
			}
		}
		if oracle == "" {
			// every user URL the client reported through its callback is one a third party handed out, and the client
			// fetched none of them itself
			w.mu.Lock()
			for _, u := range w.cbURLs {
				ok := false
				for _, h := range w.userURLs {
					ok = ok || h == u
				}
				if !ok {
					oracle = "the user-URL callback was given a URL no third party sent: " + u
				}
			}
			for _, q := range w.reqs {
				if strings.Contains(q.URL, "/user/") {
					oracle = "the client itself requested a user-interactive URL: " + q.URL
				}
			}
			w.mu.Unlock()
		}
		if outScheme != scheme && oracle == "" {
			oracle = fmt.Sprintf("scheme prefix not kept: input had scheme=%v, output %q", scheme, out)
		}
		if len(outToks) < len(hdrToks) {
			if oracle == "" {
				oracle = "caller's tokens missing from the result"
			}
		} else {
			for k := range hdrToks {
				if outToks[k] != hdrToks[k] && oracle == "" {
					oracle = fmt.Sprintf("caller's token %d changed or moved", k)
				}
			}
		}
		// the refresh before every request: the client is handed its own previous result, again and again: nothing is left to
		// fetch, nobody is contacted, and the header comes back as it is (tokens, order, scheme prefix)
		if oracle == "" && ferr == nil {
			w.mu.Lock()
			before := len(w.reqs)
			w.mu.Unlock()
			cur := out
			for pass := 2; pass <= 4 && oracle == ""; pass++ {
				ctx3, cancel3 := context.WithTimeout(context.Background(), 5*time.Second)
				nxt, nerr := client.FetchDischargeTokens(ctx3, cur)
				cancel3()
				w.mu.Lock()
				after := len(w.reqs)
				w.mu.Unlock()
				switch {
				case nerr != nil:
					oracle = fmt.Sprintf("pass %d over the client's own result fails: %v", pass, nerr)
				case nxt != cur:
					oracle = fmt.Sprintf("pass %d over the client's own complete result changes the header: %.60q -> %.60q", pass, cur, nxt)
				case after != before:
					oracle = fmt.Sprintf("pass %d over a complete header contacted a third party (%d further requests)", pass, after-before)
				}
				cur = nxt
			}
		}
		ndis := len(outToks) - len(hdrToks)
		if ndis < 0 {
			ndis = 0
		}
		st.Add(&cs.Case{
			Coq:        coqw.App("KFetch", coqw.List(optsCoq), coqw.List(tpsCoq), coqw.List(reqCoq), coqw.Nat(ndis)),
			Desc:       map[string]any{"op": "FetchDischargeTokens", "options": optsDesc, "locations": locs, "requests": reqDesc, "impl_new_discharges": ndis, "impl_err": errStr(ferr), "scheme": scheme, "shared_http_clients": sharedHTTP},
			Class:      fmt.Sprintf("fetch/%dlocs-%dopts", nl, nopt),
			Nontrivial: len(reqs) > 0,
			OracleFail: oracle,
		})
	}
}
