package main

import (
	"bytes"
	"encoding/base64"
	"errors"
	"fmt"
	"strings"

	"github.com/superfly/macaroon"
	"github.com/superfly/macaroon/bundle"
	"github.com/superfly/macaroon/flyio"

	"verifharness/internal/coqw"
	"verifharness/internal/cs"
	"verifharness/internal/rng"
)

// the issuer location of the find/parse cases: the flyio permission location, so that the flyio wrappers can be compared
const permLoc = flyio.LocationPermission

func init() { props["C19"] = genC19 }

func pk(s string) string { return coqw.Packed([]byte(s)) }

func isASCII(s string) bool {
	for i := 0; i < len(s); i++ {
		if s[i] >= 128 {
			return false
		}
	}
	return true
}

func randCase(r *rng.R, s string) string {
	b := []byte(s)
	for i := range b {
		if r.Bool() {
			if b[i] >= 'a' && b[i] <= 'z' {
				b[i] -= 32
			} else if b[i] >= 'A' && b[i] <= 'Z' {
				b[i] += 32
			}
		}
	}
	return string(b)
}

var wsChars = []string{" ", " ", "\t", "\n", "\r", "\v", "\f"}

func randWS(r *rng.R, max int) string {
	n := r.Intn(max + 1)
	var sb strings.Builder
	for i := 0; i < n; i++ {
		sb.WriteString(rng.Pick(r, wsChars))
	}
	return sb.String()
}

// decorate wraps a header body with schemes (any case, repeated) and whitespace.
func decorate(r *rng.R, body string) string {
	h := body
	for k := r.Intn(4); k > 0; k-- {
		sch := rng.Pick(r, []string{"FlyV1", "Bearer"})
		h = randWS(r, 2) + randCase(r, sch) + " " + randWS(r, 2) + h
	}
	return randWS(r, 2) + h + randWS(r, 2)
}

func randTokBytes(r *rng.R) []byte {
	var n int
	switch r.Intn(5) {
	case 0:
		n = 1 + r.Intn(3)
	case 1:
		n = 3 * (1 + r.Intn(10))
	case 2:
		n = 3*(1+r.Intn(10)) + 1
	case 3:
		n = 3*(1+r.Intn(10)) + 2
	default:
		n = 1 + r.Intn(200)
	}
	return r.Bytes(n)
}

func genC19(c *ctx) {
	st := c.set.Stream("header", "Corr.RunH", "run", 400)
	r := c.r
	addParse := func(hdr, class string, nt bool) *cs.Case {
		toks, err := macaroon.Parse(hdr)
		if err != nil && !errors.Is(err, macaroon.ErrUnrecognizedToken) {
			panic("unexpected error class")
		}
		cse := &cs.Case{
			Coq:        coqw.App("KParse", pk(hdr), coqw.Bool(err == nil), coqw.ListOf(toks, func(b []byte) string { return coqw.Packed(b) })),
			Desc:       map[string]any{"op": "Parse", "header": hdr, "impl_ok": err == nil, "impl_ntoks": len(toks), "impl_err": errStr(err)},
			Class:      class,
			Nontrivial: nt,
		}
		st.Add(cse)
		return cse
	}
	addStrip := func(hdr string) {
		out, s := macaroon.StripAuthorizationScheme(hdr)
		st.Add(&cs.Case{Coq: coqw.App("KStrip", pk(hdr), pk(out), coqw.Bool(s)),
			Desc: map[string]any{"op": "StripAuthorizationScheme", "header": hdr, "impl_out": out, "impl_stripped": s}, Class: "strip", Nontrivial: s})
	}
	addParts := func(hdr, class string) {
		b, _ := bundle.ParseBundleWithFilter("loc", hdr, bundle.KeepAll)
		var parts []string
		var descs []string
		bundle.ForEach(b, func(t bundle.Token) {
			code := 2
			switch tt := t.(type) {
			case bundle.NonMacaroon:
				code = 0
			case *bundle.MalformedMacaroon:
				if errors.Is(tt.Err, macaroon.ErrUnrecognizedToken) {
					code = 1
				}
			}
			parts = append(parts, coqw.Pair(coqw.N(uint64(code)), pk(t.String())))
			descs = append(descs, fmt.Sprintf("%d:%q", code, t.String()))
		})
		// printing the bundle and reading it back yields the same entries (empty ones included, wherever they stand)
		printFail := ""
		if b.Len() > 0 {
			re, _ := bundle.ParseBundleWithFilter("loc", b.Header(), bundle.KeepAll)
			var again []string
			bundle.ForEach(re, func(t bundle.Token) { again = append(again, t.String()) })
			var first []string
			bundle.ForEach(b, func(t bundle.Token) { first = append(first, t.String()) })
			single := len(first) == 1 && (first[0] == "" || strings.EqualFold(first[0], "FlyV1") || strings.EqualFold(first[0], "Bearer"))
			if !single && strings.Join(first, "\x00") != strings.Join(again, "\x00") {
				printFail = fmt.Sprintf("printing a bundle of %d entries and parsing the header back yields %d entries: %q -> %q", len(first), len(again), b.Header(), again)
			}
			if b.String() != strings.Join(first, ",") {
				printFail = fmt.Sprintf("bundle.String() = %q, its entries joined are %q", b.String(), strings.Join(first, ","))
			}
		}
		st.Add(&cs.Case{Coq: coqw.App("KParts", pk(hdr), coqw.List(parts)), OracleFail: printFail,
			Desc: map[string]any{"op": "bundle.parseToks", "header": hdr, "impl_parts": descs}, Class: class, Nontrivial: true})
	}
	// scale: tokens of several KiB (around 4096 bytes and beyond), alone and between small ones: formatted, then parsed back
	for _, sz := range []int{4095, 4096, 4097, 6144, 8193, 12289, 20000} {
		big := make([]byte, sz)
		for k := range big {
			big[k] = byte(k*7 + sz)
		}
		for vi, toks := range [][][]byte{{big}, {{1, 2, 3}, big, {4, 5}}, {big, big[:sz-1]}} {
			hdr := macaroon.ToAuthorizationHeader(toks...)
			var cse *cs.Case
			if sz <= 4097 && vi < 2 {
				// around the threshold the model evaluates the header too (its base64 is quadratic in Coq: larger ones are
				// judged by the round-trip oracle alone)
				st.Add(&cs.Case{Coq: coqw.App("KToHeader", coqw.ListOf(toks, func(b []byte) string { return coqw.Packed(b) }), pk(hdr)),
					Desc: map[string]any{"op": "ToAuthorizationHeader", "ntoks": len(toks), "token_bytes": sz}, Class: "format/large", Nontrivial: true})
				cse = addParse(hdr, "roundtrip/large", true)
			} else {
				cse = addParse(macaroon.ToAuthorizationHeader([]byte{1, 2, 3}), "roundtrip/large-oracle-only", true)
				cse.Desc.(map[string]any)["large_token_bytes"] = sz
			}
			if back, err := macaroon.Parse(hdr); err != nil || len(back) != len(toks) {
				cse.OracleFail = fmt.Sprintf("a header formatted from %d tokens (one of %d bytes) does not parse back: %v", len(toks), sz, err)
			} else {
				for k := range toks {
					if !bytes.Equal(back[k], toks[k]) {
						cse.OracleFail = fmt.Sprintf("token %d (%d bytes) comes back different from a format/parse round trip", k, len(toks[k]))
					}
				}
			}
		}
	}
	n := 500
	if c.thorough {
		n = 12000
	}
	for i := 0; i < n; i++ {
		nt := 1 + r.Intn(5)
		toks := make([][]byte, 0, nt)
		for j := 0; j < nt; j++ {
			toks = append(toks, randTokBytes(r))
		}
		if nt >= 2 && r.P(1, 4) {
			toks[r.Intn(nt)] = toks[r.Intn(nt)] // the same token more than once (a header may carry a discharge twice)
		}
		hdr := macaroon.ToAuthorizationHeader(toks...)
		st.Add(&cs.Case{Coq: coqw.App("KToHeader", coqw.ListOf(toks, func(b []byte) string { return coqw.Packed(b) }), pk(hdr)),
			Desc: map[string]any{"op": "ToAuthorizationHeader", "ntoks": nt, "impl_header": hdr}, Class: "format", Nontrivial: true})
		body := strings.TrimPrefix(hdr, "FlyV1 ")
		// label choice per token
		parts := strings.Split(body, ",")
		for k := range parts {
			parts[k] = rng.Pick(r, []string{"fm2", "fm1r", "fm1a"}) + strings.TrimPrefix(parts[k], "fm2")
		}
		body = strings.Join(parts, ",")
		dec := decorate(r, body)
		cse := addParse(dec, "roundtrip/decorated", true)
		// implementation-side oracle: the round trip itself
		got, err := macaroon.Parse(dec)
		same := err == nil && len(got) == len(toks)
		for k := 0; same && k < len(toks); k++ {
			same = bytes.Equal(got[k], toks[k])
		}
		if !same {
			cse.OracleFail = fmt.Sprintf("format/parse round trip lost tokens: err=%v got %d tokens for %d", err, len(got), len(toks))
		}
		addStrip(dec)
		addParts(dec, "parts/decorated")
		// corruptions
		cor := body
		class := ""
		switch r.Intn(12) {
		case 0:
			cor = strings.Replace(body, "fm", "fx", 1)
			class = "unknown-label"
		case 1:
			cor = strings.Replace(body, "_", "", 1)
			class = "missing-separator"
		case 2:
			p := r.Intn(len(body))
			cor = body[:p] + rng.Pick(r, []string{"!", "*", "-", "=", " ", "\x00", "~"}) + body[p:]
			class = "bad-alphabet"
		case 3:
			cor = strings.TrimRight(body, "=")
			if r.Bool() {
				cor = body + "="
			}
			class = "bad-padding"
		case 4:
			p := r.Intn(len(body))
			cor = body[:p] + rng.Pick(r, []string{"\r\n", "\n", "\r"}) + body[p:]
			class = "embedded-newline"
		case 5:
			cor = body + ","
			if r.Bool() {
				cor = "," + body
			}
			class = "empty-element"
		case 6:
			cor = strings.Replace(body, ",", ", ", -1)
			if r.Bool() {
				cor = strings.Replace(body, ",", " ,", -1)
			}
			class = "spaces-around-commas"
		case 7:
			cor = body + ",fo1_" + base64.StdEncoding.EncodeToString(r.Bytes(5))
			if r.Bool() {
				cor = "fo1_abc," + body
			}
			class = "oauth-entry"
		case 8:
			cor = "fm2_," + body
			if r.Bool() {
				cor = body + ",fm1r_"
			}
			if r.Bool() {
				// base64 text made only of line breaks: decodes to zero bytes without an error
				cor = rng.Pick(r, []string{"fm2_\n,", "fm1r_\r\n,", "fm1a_\n\n,"}) + body
			}
			class = "empty-token"
		case 9:
			cor = "fo1_x"
			if r.Bool() {
				cor = "fo1_x,fo1_y"
			}
			class = "only-oauth"
		case 10:
			cor = strings.Replace(body, "fm2_", "fm2__", 1)
			if r.Bool() {
				cor = strings.Replace(body, "fm", "FM", 1)
			}
			class = "label-variant"
		case 11:
			b := []byte(body)
			b[r.Intn(len(b))] = byte(r.Intn(128))
			cor = string(b)
			class = "random-byte"
		}
		if !isASCII(cor) {
			continue
		}
		cd := decorate(r, cor)
		if r.P(1, 3) {
			cd = cor
		}
		addParse(cd, "corrupt/"+class, true)
		addParts(cd, "parts/"+class)
		addStrip(cd)
	}
	// scheme-stripping corner cases
	for _, h := range []string{"", " ", "FlyV1", "FlyV1 ", " FlyV1  ", "Bearer FlyV1 x", "bearer\tx", "Bearer\t x", "FLYV1 bEARER fm2_QQ==", "Basic fm2_QQ==",
		"FlyV1 FlyV1 FlyV1", "x y", "FlyV1  fm2_QQ==", "FlyV1\nfm2_QQ==", "FlyV1 \n fm2_QQ== \t", "Bearerx fm2_QQ==", "Bear er fm2_QQ==", "FlyV1 fm2_QQ==,fm2_QUI=", "fm2_QQ== FlyV1",
		",fm2_QQ==", "FlyV1 ,,fm2_QQ==", "fm2_QQ==,,", ",", ",,x", "FlyV1 ,fm2_QQ==,", "x,,y", ", ,fm2_QQ=="} {
		addStrip(h)
		addParse(h, "strip-corner", true)
		addParts(h, "parts/strip-corner")
	}
	// base64 decoder directly (Go's decoder is what Parse relies on)
	nb := 300
	if c.thorough {
		nb = 8000
	}
	alphabet := "ABCDEFGHIJKLMNOPQRSTUVWXYZabcdefghijklmnopqrstuvwxyz0123456789+/"
	for i := 0; i < nb; i++ {
		var sb strings.Builder
		ln := r.Intn(14)
		for j := 0; j < ln; j++ {
			switch r.Intn(12) {
			case 0:
				sb.WriteByte('=')
			case 1:
				sb.WriteString(rng.Pick(r, []string{"\n", "\r", " ", "-", "_", ","}))
			default:
				sb.WriteByte(alphabet[r.Intn(64)])
			}
		}
		s := sb.String()
		if r.Bool() {
			s = base64.StdEncoding.EncodeToString(r.Bytes(r.Intn(8)))
			if r.P(1, 3) && len(s) > 0 {
				p := r.Intn(len(s) + 1)
				s = s[:p] + rng.Pick(r, []string{"\n", "\r\n", "=", "A"}) + s[p:]
			}
		}
		out, err := base64.StdEncoding.DecodeString(s)
		if err != nil {
			out = nil
		}
		st.Add(&cs.Case{Coq: coqw.App("KB64", pk(s), coqw.Bool(err == nil), coqw.Packed(out)),
			Desc: map[string]any{"op": "base64.StdEncoding.DecodeString", "input": s, "impl_ok": err == nil}, Class: "base64", Nontrivial: err == nil && len(out) > 0})
	}
	// permission/discharge split is by location only
	key := macaroon.NewSigningKey()
	nf := 150
	if c.thorough {
		nf = 3000
	}
	for i := 0; i < nf; i++ {
		k := 1 + r.Intn(6)
		var toks [][]byte
		var desc []string
		var coqToks []string
		for j := 0; j < k; j++ {
			loc := rng.Pick(r, []string{permLoc, permLoc, "other", flyio.LocationAuthentication, permLoc[:len(permLoc)-1], ""})
			var tok []byte
			var dec string
			if r.P(1, 6) {
				tok = r.Bytes(1 + r.Intn(6))
				tok[0] = 0xc1 // never a valid msgpack value
				dec = "None"
			} else {
				mm, _ := macaroon.New(r.Bytes(3), loc, key)
				tok, _ = mm.Encode()
				dec = "(Some " + coqw.Bool(loc == permLoc) + ")"
			}
			toks = append(toks, tok)
			coqToks = append(coqToks, coqw.Pair(coqw.N(uint64(j)), dec))
			desc = append(desc, fmt.Sprintf("%d:%s", j, dec))
		}
		pm, pt, dm, dt, _ := macaroon.FindPermissionAndDischargeTokens(toks, permLoc)
		idx := func(l [][]byte) []uint64 {
			var o []uint64
			for _, x := range l {
				for j, t := range toks {
					if bytes.Equal(x, t) {
						o = append(o, uint64(j))
						break
					}
				}
			}
			return o
		}
		findFail := ""
		if len(pm) != len(pt) || len(dm) != len(dt) {
			findFail = fmt.Sprintf("FindPermissionAndDischargeTokens returns %d/%d parsed tokens for %d/%d raw ones", len(pm), len(dm), len(pt), len(dt))
		}
		for q := range pm {
			if findFail == "" && (pm[q] == nil || pm[q].Location != permLoc) {
				findFail = "a parsed permission token returned by FindPermissionAndDischargeTokens is not at the issuer's location"
			}
		}
		st.Add(&cs.Case{Coq: coqw.App("KFind", coqw.List(coqToks), coqw.ListOf(idx(pt), coqw.N), coqw.ListOf(idx(dt), coqw.N)),
			Desc: map[string]any{"op": "FindPermissionAndDischargeTokens", "tokens": desc, "impl_perm": idx(pt), "impl_dis": idx(dt)}, Class: "find", Nontrivial: true, OracleFail: findFail})
		// the same tokens as a header through ParsePermissionAndDischargeTokens: exactly one permission token, for any number of tokens
		hdr := macaroon.ToAuthorizationHeader(toks...)
		one, ds, err := macaroon.ParsePermissionAndDischargeTokens(hdr, permLoc)
		// the flyio wrappers are the same functions at the flyio permission location
		wrapFail := ""
		if fone, fds, ferr := flyio.ParsePermissionAndDischargeTokens(hdr); (ferr == nil) != (err == nil) || !bytes.Equal(fone, one) || len(fds) != len(ds) {
			wrapFail = "flyio.ParsePermissionAndDischargeTokens disagrees with macaroon.ParsePermissionAndDischargeTokens at flyio.LocationPermission"
		}
		fb, ferr := flyio.ParseBundle(hdr)
		bb, berr := bundle.ParseBundle(permLoc, hdr)
		if (ferr == nil) != (berr == nil) || (fb != nil && bb != nil && fb.Header() != bb.Header()) {
			wrapFail = "flyio.ParseBundle disagrees with bundle.ParseBundle at flyio.LocationPermission"
		}
		if fb != nil && wrapFail == "" {
			// UUIDs / NonceEmails list exactly the permission tokens, in order
			if got, want := len(flyio.UUIDs(fb)), fb.Count(flyio.IsPermissionToken); got != want {
				wrapFail = fmt.Sprintf("flyio.UUIDs lists %d tokens, the bundle has %d permission tokens", got, want)
			}
			if got, want := len(flyio.NonceEmails(fb)), fb.Count(flyio.IsPermissionToken); got != want {
				wrapFail = fmt.Sprintf("flyio.NonceEmails lists %d tokens, the bundle has %d permission tokens", got, want)
			}
		}
		// the same header read for OTHER issuers right afterwards (and for this one again): the split follows the location asked
		// for in THIS call, whatever was asked before
		allDecode := true
		for _, t := range toks {
			if _, e := macaroon.Decode(t); e != nil {
				allDecode = false // what happens to undecodable entries is the model's business (KFindOne), not this oracle's
			}
		}
		if wrapFail == "" && allDecode {
			locs := []string{"https://nobody.test", permLoc}
			for _, t := range toks {
				if dm, e := macaroon.Decode(t); e == nil && dm.Location != permLoc {
					locs = append([]string{dm.Location}, locs...)
					break
				}
			}
			for _, l2 := range locs {
				var want [][]byte
				var rest [][]byte
				for _, t := range toks {
					if dm, e := macaroon.Decode(t); e == nil && dm.Location == l2 {
						want = append(want, t)
					} else {
						rest = append(rest, t)
					}
				}
				one2, ds2, err2 := macaroon.ParsePermissionAndDischargeTokens(hdr, l2)
				switch {
				case len(want) == 1 && err2 != nil:
					wrapFail = fmt.Sprintf("the header has exactly one token of %s, ParsePermissionAndDischargeTokens(hdr, %q) fails: %v (the same header was read for %s before)", l2, l2, err2, permLoc)
				case len(want) == 1 && (!bytes.Equal(one2, want[0]) || len(ds2) != len(rest)):
					wrapFail = fmt.Sprintf("ParsePermissionAndDischargeTokens(hdr, %q) does not return the header's token of that location with the %d others (the same header was read for %s before)", l2, len(rest), permLoc)
				case len(want) != 1 && err2 == nil:
					wrapFail = fmt.Sprintf("the header has %d tokens of %s, yet ParsePermissionAndDischargeTokens(hdr, %q) succeeds (the same header was read for %s before)", len(want), l2, l2, permLoc)
				}
			}
		}
		var pi uint64
		if err == nil {
			if ix := idx([][]byte{one}); len(ix) == 1 {
				pi = ix[0]
			} else {
				pi = 999
			}
		}
		st.Add(&cs.Case{Coq: coqw.App("KFindOne", coqw.List(coqToks), coqw.Bool(err == nil), coqw.N(pi), coqw.ListOf(idx(ds), coqw.N)),
			Desc: map[string]any{"op": "ParsePermissionAndDischargeTokens", "tokens": desc, "header": hdr, "impl_ok": err == nil, "impl_perm": pi, "impl_dis": idx(ds)}, Class: fmt.Sprintf("find-one/%d", k), Nontrivial: true, OracleFail: wrapFail})
	}
}
