//go:build verif

package main

// Typed lenient decoding of the NON-scalar caveat types, of unregistered caveats and of whole caveat sets (extension of C11).
// Every body is fed to the library as the one-caveat set `92 <type> <body>` (case kind KDecBody2 of Corr.RunM, model:
// Model.TypedDec2.dec_body2 followed by enc_one); multi-caveat inputs go through DecodeCaveats as they are (KDecSet, model:
// dec_set_typed followed by enc_set).
//
// The model's resource sets are association lists: a nil Go map and an empty one are the same value there, while the library
// writes the former as c0 and the latter as 80.  The re-encoding that is compared is therefore taken after replacing nil
// resource sets by empty ones (t2Norm); whether the top-level caveat held a nil map is compared separately (dec_nilrs).

import (
	"bytes"
	"fmt"
	"math/big"
	"reflect"
	"strings"

	"github.com/superfly/macaroon"
	"github.com/superfly/macaroon/auth"
	"github.com/superfly/macaroon/flyio"
	"github.com/superfly/macaroon/resset"

	"verifharness/internal/coqw"
	"verifharness/internal/cs"
	"verifharness/internal/rng"
)

// C11T2: this stream alone, as the first thing the process does with msgpack.  The process then DECODES before it ever
// encodes, which gives the other of the two decoders msgpack can build for *CaveatSet (pz = false; see Model/TypedDec2.v).
func init() {
	props["C11T2"] = func(c *ctx) { genTypedBodies2(c, c.set.Stream("typed2", "Corr.RunM", "run", 500)) }
}

type t2Type struct {
	ty   uint64
	name string
	kind string // "rss" string-keyed resource set, "rsn" integer-keyed, "mut", "3p", "ifp", "cmd"
	fld  string // Go field name of the single-field structs
}

var t2Types = []t2Type{
	{2, "Volumes", "rss", "Volumes"}, {3, "Apps", "rsn", "Apps"}, {5, "FeatureSet", "rss", "Features"}, {6, "Mutations", "mut", "Mutations"},
	{7, "Machines", "rss", "Machines"}, {11, "3P", "3p", ""}, {13, "IfPresent", "ifp", ""}, {14, "MachineFeatureSet", "rss", "Features"},
	{16, "Clusters", "rss", "Clusters"}, {27, "Commands", "cmd", ""}, {28, "AppFeatureSet", "rss", "Features"}, {29, "StorageObjects", "rss", "Prefixes"},
}

// the bodies quoted in coq/Proofs/TypedDec2Proofs.v (Examples surprise2_*) and in the report
var t2Documented = []struct {
	ty   uint64
	body string
}{
	{2, "91 81 a1 61 01"}, {2, "91 d4 00 81 a1 61 01"}, {2, "91 c7 05 00 81 a1 61 01"}, {2, "91 c8 00 05 00 81 a1 61 01"}, {2, "91 c9 00 00 00 05 00 81 a1 61 01"},
	{2, "91 d8 07 c0"}, {2, "91 82 a1 62 01 a1 61 02"}, {2, "91 82 a1 61 01 a1 61 02"}, {2, "91 82 a1 61 01 c4 01 61 ce 00 01 00 07"},
	{2, "91 c0"}, {2, "c0"}, {2, "90"}, {2, "80"}, {2, "91 80"}, {2, "91 81 c0 01"}, {2, "91 81 01 01"},
	{2, "82 a7 56 6f 6c 75 6d 65 73 81 a1 61 01 a7 56 6f 6c 75 6d 65 73 81 a1 62 02"},
	{2, "82 a7 56 6f 6c 75 6d 65 73 81 a1 61 01 a7 56 6f 6c 75 6d 65 73 c0"},
	{2, "83 a7 56 6f 6c 75 6d 65 73 81 a1 61 01 a7 56 6f 6c 75 6d 65 73 c0 a7 56 6f 6c 75 6d 65 73 81 a1 62 02"},
	{2, "82 a7 56 6f 6c 75 6d 65 73 81 a1 61 01 a7 56 6f 6c 75 6d 65 73 80"},
	{3, "91 82 01 01 cc 01 02"}, {3, "91 81 ff 01"}, {3, "91 81 c0 c0"}, {3, "91 81 a1 61 01"}, {3, "91 82 02 01 01 02"},
	{6, "91 92 a1 61 a1 62"}, {6, "91 c0"}, {6, "91 90"}, {6, "c0"}, {6, "90"}, {6, "80"}, {6, "91 91 c0"}, {6, "91 92 c4 01 61 d9 01 62"}, {6, "91 91 01"},
	{6, "82 a9 4d 75 74 61 74 69 6f 6e 73 91 a1 61 a9 4d 75 74 61 74 69 6f 6e 73 c0"},
	{6, "82 a9 4d 75 74 61 74 69 6f 6e 73 91 a1 61 a9 4d 75 74 61 74 69 6f 6e 73 90"},
	{6, "82 a9 4d 75 74 61 74 69 6f 6e 73 92 a1 61 a1 62 a9 4d 75 74 61 74 69 6f 6e 73 91 a1 63"},
	{6, "91 dc 00 01 a1 61"}, {6, "91 81 a1 61 01"},
	{11, "93 a1 6c c4 01 01 c4 01 02"}, {11, "93 a1 6c c0 c0"}, {11, "93 c0 a1 61 d9 01 62"}, {11, "94 a1 6c c0 c0 c0"}, {11, "92 a1 6c c0"}, {11, "c0"}, {11, "90"},
	{11, "93 a1 6c c4 00 a0"}, {11, "82 a6 54 69 63 6b 65 74 c4 01 09 a2 72 6e c4 01 07"}, {11, "82 a6 54 69 63 6b 65 74 c4 01 09 a6 54 69 63 6b 65 74 c0"},
	{11, "82 a6 54 69 63 6b 65 74 c4 01 09 a6 54 69 63 6b 65 74 c4 00"}, {11, "81 a1 2d c4 01 07"},
	{13, "92 92 08 91 05 03"}, {13, "92 c0 03"}, {13, "92 90 03"}, {13, "c0"}, {13, "90"}, {13, "92 91 08 03"}, {13, "92 92 63 c0 03"}, {13, "92 92 63 c7 00 05 03"},
	{13, "92 92 63 d6 ff 00 00 00 01 03"}, {13, "92 92 63 d6 05 00 00 00 01 03"}, {13, "92 92 63 81 90 01 03"}, {13, "92 92 63 81 c4 00 01 03"}, {13, "92 92 63 81 80 01 03"},
	{13, "92 92 63 81 c0 01 03"}, {13, "92 92 63 81 cb 7f f8 00 00 00 00 00 01 01 03"}, {13, "92 92 63 c1 03"}, {13, "92 92 63 81 d6 ff 00 00 00 01 01 03"},
	{13, "82 a3 49 66 73 92 08 91 05 a3 49 66 73 92 09 91 06"}, {13, "83 a3 49 66 73 92 08 91 05 a3 49 66 73 c0 a4 45 6c 73 65 ce 00 01 00 03"},
	{13, "83 a3 49 66 73 92 08 91 05 a3 49 66 73 c0 a3 49 66 73 92 09 91 06"}, {13, "82 a3 49 66 73 92 08 91 05 a3 49 66 73 90"},
	{13, "92 92 0d 92 92 0d 92 c0 01 02 03"}, {13, "92 92 08 91 a1 61 03"}, {13, "92 92 c0 91 05 03"}, {13, "92 92 ff 91 05 03"}, {13, "92 dc 00 02 08 91 05 03"}, {13, "92 94 08 91 05 03"},
	{13, "92 92 02 91 d4 00 81 a1 61 01 03"}, {13, "92 94 02 91 d4 00 81 a1 61 01 08 91 05 03"},
	{27, "91 92 91 a1 61 c3"}, {27, "c0"}, {27, "90"}, {27, "91 c0"}, {27, "91 90"}, {27, "91 80"}, {27, "91 92 c0 c0"}, {27, "91 92 90 c2"}, {27, "91 91 90"}, {27, "91 93 90 c2 c0"},
	{27, "91 92 90 01"}, {27, "91 82 a4 41 72 67 73 91 a1 78 a5 45 78 61 63 74 c3"}, {27, "92 92 c0 c3 92 91 a1 61 c2"}, {27, "80"},
	{27, "91 82 a5 45 78 61 63 74 c3 a5 45 78 61 63 74 c0"}, {27, "91 82 a4 41 72 67 73 91 a1 78 a4 41 72 67 73 c0"},
	{99, "c0"}, {99, "a1 61"}, {17, "01"}, {18, "01"}, {1, "01"}, {99, "d7 ff 00 00 00 00 00 00 00 01"}, {99, "c7 0c ff 00 00 00 00 00 00 00 00 00 00 00 01"},
	{99, "c7 00 ff"}, {99, "c7 03 ff 01 02 03"}, {99, "d4 ff 00"}, {99, "d5 ff 00 01"}, {99, "d8 ff 00 00 00 00 00 00 00 00 00 00 00 00 00 00 00 01"},
	{99, "c8 00 04 ff 00 00 00 01"}, {99, "c9 00 00 00 04 ff 00 00 00 01"}, {99, "92 c7 00 05 01"}, {99, "ca 00 00 00 00"}, {99, "81 ca 00 00 00 00 01"},
	{99, "81 c3 01"}, {99, "81 a1 61 81 90 01"}, {99, "82 01 02 01 03"}, {99, "de 00 01 01 02"}, {99, "91 81 91 01 02"}, {99, "c1"}, {99, "81 d6 ff 00 00 00 01 01"},
	{99, "d6 ff 00 00 00 01"}, {99, "d6 05 00 00 00 01"}, {99, "81 90 01"}, {99, "81 80 01"}, {99, "81 c4 00 01"}, {99, "81 c0 01"},
}

var t2DocumentedSets = []string{
	"c0", "c0 01", "90", "", "91 08", "92 08 91 05 ff ff", "dc 00 02 08 91 05", "dd 00 00 00 02 08 91 05", "92 cf 00 00 00 00 00 00 00 08 91 05",
	"92 d3 ff ff ff ff ff ff ff ff c0", "94 08 91 05", "94 02 91 d4 00 81 a1 61 01 08 91 05", "94 02 91 81 a1 61 01 08 91 05", "94 63 c0 63 c0", "94 08 91 05 08 91 05",
	"96 08 91 05 0d 92 92 02 91 82 a1 62 01 a1 61 02 01 1a ff", "92 c0 92 01 02", "94 1b 91 c0 06 91 91 c0",
}

// does the input contain, anywhere, the 8 big-endian bytes (or the negative fixint) of a type number this binary registers?
func t2MentionsHarnessType(b []byte) bool {
	for ty := range t2HarnessTypes {
		if bytes.Contains(b, tdBE(ty, 8)) {
			return true
		}
	}
	return bytes.IndexByte(b, 0xfe) >= 0 // fe = -2 = CavMaxUserDefined as a fixint (or a byte of a wider form of it)
}

func t2Hex(s string) []byte {
	var b []byte
	for _, f := range strings.Fields(s) {
		var v byte
		fmt.Sscanf(f, "%02x", &v)
		b = append(b, v)
	}
	return b
}

// ---- nil resource sets -> empty ones (the model's rset cannot tell them apart), through IfPresent
func t2Norm(c macaroon.Caveat) {
	switch v := c.(type) {
	case *flyio.Volumes:
		if v.Volumes == nil {
			v.Volumes = resset.ResourceSet[string, resset.Action]{}
		}
	case *flyio.Apps:
		if v.Apps == nil {
			v.Apps = resset.ResourceSet[uint64, resset.Action]{}
		}
	case *flyio.FeatureSet:
		if v.Features == nil {
			v.Features = resset.ResourceSet[string, resset.Action]{}
		}
	case *flyio.Machines:
		if v.Machines == nil {
			v.Machines = resset.ResourceSet[string, resset.Action]{}
		}
	case *flyio.MachineFeatureSet:
		if v.Features == nil {
			v.Features = resset.ResourceSet[string, resset.Action]{}
		}
	case *flyio.Clusters:
		if v.Clusters == nil {
			v.Clusters = resset.ResourceSet[string, resset.Action]{}
		}
	case *flyio.AppFeatureSet:
		if v.Features == nil {
			v.Features = resset.ResourceSet[string, resset.Action]{}
		}
	case *flyio.StorageObjects:
		if v.Prefixes == nil {
			v.Prefixes = resset.ResourceSet[resset.Prefix, resset.Action]{}
		}
	case *resset.IfPresent:
		if v.Ifs != nil {
			for _, cc := range v.Ifs.Caveats {
				t2Norm(cc)
			}
		}
	}
}

func t2NilRS(c macaroon.Caveat) bool {
	switch v := c.(type) {
	case *flyio.Volumes:
		return v.Volumes == nil
	case *flyio.Apps:
		return v.Apps == nil
	case *flyio.FeatureSet:
		return v.Features == nil
	case *flyio.Machines:
		return v.Machines == nil
	case *flyio.MachineFeatureSet:
		return v.Features == nil
	case *flyio.Clusters:
		return v.Clusters == nil
	case *flyio.AppFeatureSet:
		return v.Features == nil
	case *flyio.StorageObjects:
		return v.Prefixes == nil
	}
	return false
}

// equality of decoded values (what is cleared): unregistered caveats by type and raw bytes (their generic Body may hold NaN)
func t2SameCav(a, b macaroon.Caveat) bool {
	if reflect.TypeOf(a) != reflect.TypeOf(b) || a.CaveatType() != b.CaveatType() {
		return false
	}
	switch x := a.(type) {
	case *macaroon.UnregisteredCaveat:
		y := b.(*macaroon.UnregisteredCaveat)
		return x.Type == y.Type && bytes.Equal(x.RawMsgpack, y.RawMsgpack)
	case *auth.GoogleUserID:
		// big.Int keeps an empty or a nil magnitude for zero depending on how it was set: compare the numbers
		return (*big.Int)(x).Cmp((*big.Int)(b.(*auth.GoogleUserID))) == 0
	case *resset.IfPresent:
		y := b.(*resset.IfPresent)
		if x.Else != y.Else || (x.Ifs == nil) != (y.Ifs == nil) {
			return false
		}
		if x.Ifs == nil {
			return true
		}
		return t2SameSet(x.Ifs, y.Ifs)
	}
	return reflect.DeepEqual(a, b)
}

func t2SameSet(a, b *macaroon.CaveatSet) bool {
	if len(a.Caveats) != len(b.Caveats) {
		return false
	}
	for i := range a.Caveats {
		if !t2SameCav(a.Caveats[i], b.Caveats[i]) {
			return false
		}
	}
	return true
}

// decode, check the library-side oracles, return (ok, normalised re-encoding, nil-resource-set flag of the first caveat)
func t2Decode(input []byte, wantOne bool, wantTy uint64) (ok bool, reenc []byte, nilrs bool, impl string, oracle string) {
	defer func() {
		if p := recover(); p != nil {
			ok, reenc, nilrs = false, nil, false
			oracle = fmt.Sprintf("panic while decoding %x: %v", input, p)
		}
	}()
	set, err := macaroon.DecodeCaveats(input)
	if err != nil {
		return false, nil, false, err.Error(), ""
	}
	if wantOne {
		if len(set.Caveats) != 1 {
			return false, nil, false, "", fmt.Sprintf("DecodeCaveats(%x) gives %d caveats", input, len(set.Caveats))
		}
		if got := uint64(set.Caveats[0].CaveatType()); got != wantTy {
			return false, nil, false, "", fmt.Sprintf("DecodeCaveats(%x) gives a caveat of type %d", input, got)
		}
	}
	re, rerr := set.MarshalMsgpack()
	if rerr != nil {
		return false, nil, false, "", fmt.Sprintf("DecodeCaveats(%x) succeeds but the result does not re-encode: %v", input, rerr)
	}
	// what is signed (the re-encoding) decodes to what is cleared (the decoded value), and is a fixed point
	set2, err2 := macaroon.DecodeCaveats(re)
	if err2 != nil {
		oracle = fmt.Sprintf("re-encoding %x of the accepted input %x does not decode: %v", re, input, err2)
	} else if re2, err3 := set2.MarshalMsgpack(); err3 != nil || !bytes.Equal(re2, re) {
		oracle = fmt.Sprintf("re-encoding %x of the accepted input %x is not a fixed point (%x, %v)", re, input, re2, err3)
	} else if !t2SameSet(set, set2) {
		oracle = fmt.Sprintf("the accepted input %x decodes to a value that differs from the one its re-encoding %x decodes to", input, re)
	}
	if len(set.Caveats) > 0 {
		nilrs = t2NilRS(set.Caveats[0])
	}
	for _, c := range set.Caveats {
		t2Norm(c)
	}
	nre, nerr := set.MarshalMsgpack()
	if nerr != nil {
		return false, nil, false, "", fmt.Sprintf("normalised value of %x does not re-encode: %v", input, nerr)
	}
	return true, nre, nilrs, fmt.Sprintf("%x", re[:imin(len(re), 48)]), oracle
}

// ---- generators of (mostly valid, mostly non-canonical) bodies
type t2Gen struct {
	r                 *rng.R
	ints, strs, wrong []tdTok
}

func (g *t2Gen) intTok() []byte { return rng.Pick(g.r, g.ints).b }
func (g *t2Gen) strTok() []byte {
	t := rng.Pick(g.r, g.strs)
	for len(t.b) > 80 { // keep nested inputs small
		t = rng.Pick(g.r, g.strs)
	}
	return t.b
}
func (g *t2Gen) bad() []byte { return rng.Pick(g.r, g.wrong).b }

// a string in any of the containers that can hold it
func (g *t2Gen) strAny(s string) []byte {
	n := len(s)
	for {
		switch g.r.Intn(8) {
		case 0, 1:
			if n < 32 {
				return tdCat([]byte{byte(0xa0 + n)}, []byte(s))
			}
		case 2:
			if n < 256 {
				return tdCat([]byte{0xd9, byte(n)}, []byte(s))
			}
		case 3:
			if n < 256 {
				return tdCat([]byte{0xc4, byte(n)}, []byte(s))
			}
		case 4:
			return tdCat([]byte{0xda}, tdBE(uint64(n), 2), []byte(s))
		case 5:
			return tdCat([]byte{0xc5}, tdBE(uint64(n), 2), []byte(s))
		case 6:
			if g.r.Bool() {
				return tdCat([]byte{0xdb}, tdBE(uint64(n), 4), []byte(s))
			}
			return tdCat([]byte{0xc6}, tdBE(uint64(n), 4), []byte(s))
		default:
			if n == 0 {
				return []byte{0xc0}
			}
		}
	}
}

// an unsigned 64-bit value in any of the codes that decode to it
func (g *t2Gen) uintAny(v uint64) []byte {
	for {
		switch g.r.Intn(12) {
		case 0, 1:
			if v < 128 {
				return []byte{byte(v)}
			}
		case 2:
			if v < 1<<8 {
				return []byte{0xcc, byte(v)}
			}
		case 3:
			if v < 1<<16 {
				return tdCat([]byte{0xcd}, tdBE(v, 2))
			}
		case 4:
			if v < 1<<32 {
				return tdCat([]byte{0xce}, tdBE(v, 4))
			}
		case 5:
			return tdCat([]byte{0xcf}, tdBE(v, 8))
		case 6:
			if v < 1<<7 || v >= 1<<64-1<<7 {
				return []byte{0xd0, byte(v)}
			}
		case 7:
			if v < 1<<15 || v >= 1<<64-1<<15 {
				return tdCat([]byte{0xd1}, tdBE(v, 2))
			}
		case 8:
			if v < 1<<31 || v >= 1<<64-1<<31 {
				return tdCat([]byte{0xd2}, tdBE(v, 4))
			}
		case 9:
			return tdCat([]byte{0xd3}, tdBE(v, 8))
		case 10:
			if v >= 1<<64-32 {
				return []byte{byte(v)}
			}
		default:
			if v == 0 {
				return []byte{0xc0}
			}
		}
	}
}

var t2KeyPool = []string{"", "a", "b", "ab", "a\x00", "app", "\xff", "B", "volume-0123456789-0123456789-0123456789", "*"}
var t2NKeyPool = []uint64{0, 1, 2, 3, 127, 128, 255, 256, 65535, 65536, 1 << 32, 1<<63 - 1, 1 << 63, 1<<64 - 1, 1<<64 - 32, 1<<64 - 129}

func (g *t2Gen) extPrefix() []byte {
	t := byte(g.r.U64())
	switch g.r.Intn(8) {
	case 0:
		return []byte{0xd4, t}
	case 1:
		return []byte{0xd5, t}
	case 2:
		return []byte{0xd6, t}
	case 3:
		return []byte{0xd7, t}
	case 4:
		return []byte{0xd8, t}
	case 5:
		return []byte{0xc7, byte(g.r.U64()), t}
	case 6:
		return append([]byte{0xc8}, g.r.Bytes(3)...)
	}
	return append([]byte{0xc9}, g.r.Bytes(5)...)
}

// a Go map of masks: any key order, duplicate keys, any header, an ext header in front, nil
func (g *t2Gen) rsMap(intKeys bool, pBad int) []byte {
	r := g.r
	var b []byte
	if r.P(1, 7) {
		b = g.extPrefix()
	}
	if r.P(1, 12) {
		return append(b, 0xc0)
	}
	n := r.Intn(6)
	if r.P(1, 25) {
		n = 16 + r.Intn(4)
	}
	form := rng.Pick(r, []int{0, 0, 0, 1, 2})
	if n > 15 && form == 0 {
		form = 1
	}
	ann := n
	if r.P(1, 25) {
		ann = n + 1 + r.Intn(2)
	}
	b = append(b, tdMapHdr(form, ann)...)
	for i := 0; i < n; i++ {
		var k []byte
		if intKeys {
			k = g.uintAny(rng.Pick(r, t2NKeyPool))
		} else {
			k = g.strAny(rng.Pick(r, t2KeyPool))
		}
		v := g.intTok()
		if r.P(1, pBad) {
			if r.Bool() {
				k = g.bad()
			} else {
				v = g.bad()
			}
		}
		b = append(b, k...)
		b = append(b, v...)
	}
	return b
}

func (g *t2Gen) strList(pBad int) []byte {
	r := g.r
	if r.P(1, 6) {
		return []byte{0xc0}
	}
	n := r.Intn(4)
	b := tdArrHdr(rng.Pick(r, []int{0, 0, 0, 1, 2}), n)
	for i := 0; i < n; i++ {
		if r.P(1, pBad) {
			b = append(b, g.bad()...)
		} else {
			b = append(b, g.strTok()...)
		}
	}
	return b
}

func (g *t2Gen) boolTok(pBad int) []byte {
	if g.r.P(1, pBad) {
		return rng.Pick(g.r, [][]byte{{0x01}, {0x00}, {0xa0}, {0x90}, {0xc1}})
	}
	return []byte{rng.Pick(g.r, []byte{0xc2, 0xc3, 0xc2, 0xc3, 0xc0})}
}

type t2Field struct {
	name string
	gen  func() []byte
}

// a struct in any accepted form: array of all fields, nil, empty array, map with known / unknown / repeated keys
func (g *t2Gen) structAny(fields []t2Field, pBad int) []byte {
	r := g.r
	k := len(fields)
	switch r.Intn(10) {
	case 0:
		if r.P(1, 2) {
			return []byte{0xc0}
		}
		return tdArrHdr(r.Intn(3), 0)
	case 1, 2, 3:
		// map form
		cnt := r.Intn(k + 3)
		b := tdMapHdr(rng.Pick(r, []int{0, 0, 0, 1, 2}), cnt)
		for e := 0; e < cnt; e++ {
			switch {
			case !r.P(1, 4):
				fd := rng.Pick(r, fields)
				b = append(b, g.strAny(fd.name)...)
				b = append(b, fd.gen()...)
			case r.P(1, 5):
				b = append(b, 0xc0)
				b = append(b, randMsgpack(r, 2)...)
			default:
				name := rng.Pick(r, []string{"rn", "-", "ifs", "else", "Volumes ", "volumes", "x", "", "Arg", "exact", "Features\x00"})
				b = append(b, g.strAny(name)...)
				b = append(b, randMsgpack(r, 2)...)
			}
		}
		return b
	}
	if r.P(1, 4*pBad) {
		// wrong number of elements
		n := k + 1
		if k > 1 && r.Bool() {
			n = k - 1
		}
		b := tdArrHdr(0, n)
		for i := 0; i < n; i++ {
			b = append(b, fields[i%k].gen()...)
		}
		return b
	}
	b := tdArrHdr(rng.Pick(r, []int{0, 0, 0, 1, 2}), k)
	for _, fd := range fields {
		b = append(b, fd.gen()...)
	}
	return b
}

var t2HarnessTypes = map[uint64]bool{uint64(macaroon.CavMinUserDefined): true, uint64(macaroon.CavMinUserDefined) + 41: true, 1<<63 + 7: true, uint64(macaroon.CavMaxUserDefined): true}

// the body of one caveat of a non-scalar type
func (g *t2Gen) body(t t2Type, depth int, pBad int) []byte {
	switch t.kind {
	case "rss":
		return g.structAny([]t2Field{{t.fld, func() []byte { return g.rsMap(false, pBad) }}}, pBad)
	case "rsn":
		return g.structAny([]t2Field{{t.fld, func() []byte { return g.rsMap(true, pBad) }}}, pBad)
	case "mut":
		return g.structAny([]t2Field{{"Mutations", func() []byte { return g.strList(pBad) }}}, pBad)
	case "3p":
		return g.structAny([]t2Field{{"Location", g.strTok}, {"VerifierKey", g.strTok}, {"Ticket", g.strTok}}, pBad)
	case "ifp":
		return g.structAny([]t2Field{{"Ifs", func() []byte {
			if g.r.P(1, 6) || depth <= 0 {
				return []byte{0xc0}
			}
			return g.set(depth-1, 3, pBad)
		}}, {"Else", g.intTok}}, pBad)
	case "cmd":
		if g.r.P(1, 8) {
			return []byte{0xc0}
		}
		n := g.r.Intn(4)
		b := tdArrHdr(rng.Pick(g.r, []int{0, 0, 0, 1, 2}), n)
		for i := 0; i < n; i++ {
			b = append(b, g.structAny([]t2Field{{"Args", func() []byte { return g.strList(pBad) }}, {"Exact", func() []byte { return g.boolTok(pBad) }}}, pBad)...)
		}
		return b
	}
	panic("t2Gen.body")
}

// type and body of one member of a caveat set
func (g *t2Gen) member(depth int, pBad int) []byte {
	r := g.r
	switch r.Intn(10) {
	case 0, 1, 2:
		// a caveat the library built itself (canonical)
		for {
			c := edgeCav(r, imin(depth, 2))
			if c.Kind == "CUnregistered" && (t2HarnessTypes[c.ID] || c.ID < 32) {
				continue
			}
			b, err := encOne(c.Go())
			if err != nil || len(b) > 400 {
				continue
			}
			return b[1:]
		}
	case 3, 4, 5:
		t := rng.Pick(r, t2Types)
		return tdCat(g.uintAny(t.ty), g.body(t, depth, pBad))
	case 6:
		// a scalar-bodied type in a non-canonical form
		t := rng.Pick(r, tdTypes)
		var body []byte
		switch t.shape {
		case "uint":
			body = g.intTok()
		case "str", "bytes", "big":
			body = g.strTok()
		default:
			var fs []t2Field
			for _, fd := range t.fields {
				if fd.kind == 's' {
					fs = append(fs, t2Field{fd.name, g.strTok})
				} else {
					fs = append(fs, t2Field{fd.name, g.intTok})
				}
			}
			if len(fs) == 0 {
				body = rng.Pick(r, [][]byte{{0x90}, {0xc0}, {0x80}})
			} else {
				body = g.structAny(fs, pBad)
			}
		}
		return tdCat(g.uintAny(uint64(t.ty)), body)
	case 7, 8:
		// an unregistered type: the body passes through if the generic decoder takes it
		ty := rng.Pick(r, []uint64{1, 17, 18, 32, 99, 127, 128, 255, 256, 1 << 16, 1 << 40, 1<<48 - 1, 1<<48 + 1, 1 << 63, 1<<64 - 1, 1<<64 - 3})
		mpExoticKeys = r.P(1, 3)
		body := randMsgpack(r, 3)
		mpExoticKeys = false
		if r.P(1, 8) {
			body = rng.Pick(r, [][]byte{{0xc0}, {0xd6, 0xff, 0, 0, 0, 1}, {0xd7, 0xff, 1, 2, 3, 4, 5, 6, 7, 8}, {0xc7, 12, 0xff, 0, 0, 0, 1, 0, 0, 0, 0, 0, 0, 0, 2},
				{0xd6, 0x01, 0, 0, 0, 1}, {0xc7, 0, 0xff}, {0xd4, 0xff, 0}, {0x81, 0xc0, 0x01}, {0x81, 0x80, 0x01}, {0x81, 0xc4, 0x00, 0x01}, {0x81, 0xd6, 0xff, 0, 0, 0, 1, 0x01},
				{0x91, 0x81, 0x90, 0x01}, {0xca, 0x7f, 0xc0, 0, 0}, {0x81, 0xcb, 0x7f, 0xf8, 0, 0, 0, 0, 0, 1, 1}, {0xdc, 0, 1, 0xc3}, {0xde, 0, 1, 0xa1, 'k', 0xc2}, {0xc1}})
		}
		return tdCat(g.uintAny(ty), body)
	}
	// a registered type with a body it cannot decode
	t := rng.Pick(r, t2Types)
	return tdCat(g.uintAny(t.ty), g.bad())
}

// a caveat set from the array header on
func (g *t2Gen) set(depth int, maxN int, pBad int) []byte {
	r := g.r
	n := r.Intn(maxN + 1)
	ann := 2 * n
	if r.P(1, 30) {
		ann = 2*n + 1
	} else if r.P(1, 30) {
		ann = 2*n + 2
	}
	b := tdArrHdr(rng.Pick(r, []int{0, 0, 0, 1, 2}), ann)
	for i := 0; i < n; i++ {
		b = append(b, g.member(depth, pBad)...)
	}
	return b
}

func genTypedBodies2(c *ctx, st *cs.Stream) {
	// an independent generator: the cases of the other C11 streams do not move
	r := rng.New(c.set.Seed ^ hashStr("C11/typed-bodies-2"))
	g := &t2Gen{r: r, ints: tdIntToks(r), strs: tdStrToks(r), wrong: tdWrongToks()}
	seen := map[string]bool{}
	accepted, refused := 0, 0
	// which decoder did msgpack build for *CaveatSet in this process?  (It depends on what the process did before: see
	// coq/Model/TypedDec2.v.)  A nil "Ifs" after a non-nil one tells.
	pz := false
	if set, err := macaroon.DecodeCaveats(t2Hex("92 0d 82 a3 49 66 73 92 08 91 05 a3 49 66 73 c0")); err == nil && len(set.Caveats) == 1 {
		if ip, isIP := set.Caveats[0].(*resset.IfPresent); isIP && ip.Ifs != nil {
			pz = true
		}
	}
	emit := func(ty uint64, name string, body []byte, form string) {
		k := string(append(mpUint(ty), body...))
		if seen[k] {
			return
		}
		seen[k] = true
		if t2MentionsHarnessType(body) {
			return // a type number that this binary registers (c11.go, layer_a.go): the library would decode the harness's struct
		}
		input := tdCat([]byte{0x92}, mpUint(ty), body)
		ok, reenc, nilrs, impl, oracle := t2Decode(input, true, ty)
		if ok {
			accepted++
		} else {
			refused++
		}
		st.Add(&cs.Case{Coq: coqw.App("KDecBody2", coqw.Bool(pz), coqw.N(ty), coqw.Packed(body), coqw.Bool(ok), coqw.Bool(nilrs), coqw.Packed(reenc)),
			Desc:  map[string]any{"op": "typed decode of one caveat body", "caveat": name, "type": ty, "form": form, "body_hex": fmt.Sprintf("%x", body[:imin(len(body), 96)]), "body_len": len(body), "ok": ok, "nil_resource_set": nilrs, "impl": impl},
			Class: "decbody2/" + name + "/" + form, Nontrivial: ok, OracleFail: oracle})
	}
	emitSet := func(input []byte, form string) {
		k := "set:" + string(input)
		if seen[k] {
			return
		}
		seen[k] = true
		if t2MentionsHarnessType(input) {
			return
		}
		ok, reenc, _, impl, oracle := t2Decode(input, false, 0)
		if ok {
			accepted++
		} else {
			refused++
		}
		st.Add(&cs.Case{Coq: coqw.App("KDecSet", coqw.Bool(pz), coqw.Packed(input), coqw.Bool(ok), coqw.Packed(reenc)),
			Desc:  map[string]any{"op": "typed decode of a caveat set", "form": form, "input_hex": fmt.Sprintf("%x", input[:imin(len(input), 96)]), "input_len": len(input), "ok": ok, "impl": impl},
			Class: "decset/" + form, Nontrivial: ok, OracleFail: oracle})
	}
	prefixes := func(ty uint64, name string, body []byte) {
		for i := 0; i < len(body); i++ {
			emit(ty, name, body[:i], "truncated")
		}
		emit(ty, name, tdCat(body, r.Bytes(1+r.Intn(3))), "trailing")
	}
	tyName := func(ty uint64) string {
		for _, t := range t2Types {
			if t.ty == ty {
				return t.name
			}
		}
		return "Unregistered"
	}
	for _, d := range t2Documented {
		emit(d.ty, tyName(d.ty), t2Hex(d.body), "documented")
	}
	for _, d := range t2DocumentedSets {
		emitSet(t2Hex(d), "documented")
	}
	nRand, nSets := 220, 700
	if c.thorough {
		nRand, nSets = 2500, 8000
	}
	toks := func(l []tdTok, max int) []tdTok {
		if len(l) > max {
			return l[:max]
		}
		return l
	}
	for _, t := range t2Types {
		// canonical bodies, as the library writes them
		for n := 0; n < 12; n++ {
			var kind string
			switch t.kind {
			case "rss":
				kind = "C" + t.name
			case "rsn":
				kind = "CApps"
			case "mut":
				kind = "CMutations"
			case "3p":
				kind = "C3P"
			case "ifp":
				kind = "CIfPresent"
			default:
				kind = "CCommands"
			}
			for tries := 0; tries < 200; tries++ {
				cv := edgeCav(r, 3)
				if cv.Kind != kind {
					continue
				}
				if b, err := encOne(cv.Go()); err == nil && len(b) < 600 {
					emit(t.ty, t.name, b[1+len(mpUint(t.ty)):], "canonical")
				}
				break
			}
		}
		// every token in every position, the rest canonical
		switch t.kind {
		case "rss", "rsn":
			key := []byte{0xa1, 'k'}
			if t.kind == "rsn" {
				key = []byte{0x07}
			}
			for _, tk := range g.ints {
				emit(t.ty, t.name, tdCat([]byte{0x91, 0x81}, key, tk.b), "mask-"+tk.form)
				if t.kind == "rsn" {
					emit(t.ty, t.name, tdCat([]byte{0x91, 0x82, 0x05, 0x01}, tk.b, []byte{0x02}), "key-"+tk.form)
				}
			}
			for _, tk := range g.strs {
				if t.kind == "rss" {
					emit(t.ty, t.name, tdCat([]byte{0x91, 0x82, 0xa1, 'k', 0x01}, tk.b, []byte{0x02}), "key-"+tk.form)
				} else if len(tk.b) < 8 {
					emit(t.ty, t.name, tdCat([]byte{0x91, 0x81}, tk.b, []byte{0x02}), "key-wrong-str")
				}
			}
			for _, tk := range g.wrong {
				emit(t.ty, t.name, tdCat([]byte{0x91, 0x81}, tk.b, []byte{0x02}), "key-wrong-"+tk.form)
				emit(t.ty, t.name, tdCat([]byte{0x91, 0x81}, key, tk.b), "mask-wrong-"+tk.form)
				emit(t.ty, t.name, tdCat([]byte{0x91}, tk.b), "map-wrong-"+tk.form)
				emit(t.ty, t.name, tk.b, "struct-wrong-"+tk.form)
			}
			for f := 0; f < 3; f++ {
				for n := 0; n < 3; n++ {
					b := tdCat(tdArrHdr(f, 1), tdMapHdr(f, n))
					for i := 0; i < n; i++ {
						b = tdCat(b, key, []byte{byte(i + 1)})
						if t.kind == "rsn" {
							key = []byte{byte(0x09 - i)}
						} else {
							key = []byte{0xa1, byte('j' - i)}
						}
					}
					emit(t.ty, t.name, b, "headers")
				}
			}
			for _, pre := range [][]byte{{0xd4, 0x00}, {0xd5, 0x7f}, {0xd6, 0xff}, {0xd7, 0x01}, {0xd8, 0x80}, {0xc7, 0x00, 0x00}, {0xc7, 0xff, 0x01}, {0xc8, 0x12, 0x34, 0x05}, {0xc9, 1, 2, 3, 4, 5},
				{0xd4}, {0xc7, 0x00}, {0xc8, 0x00}, {0xc9, 0, 0, 0, 0}, {0xd4, 0x00, 0xd4, 0x00}, {0xc1, 0x00}, {0xca, 0x00}} {
				emit(t.ty, t.name, tdCat([]byte{0x91}, pre, []byte{0x81}, key, []byte{0x03}), "ext-prefix")
				emit(t.ty, t.name, tdCat([]byte{0x91}, pre, []byte{0xc0}), "ext-prefix-nil")
				emit(t.ty, t.name, tdCat(pre, []byte{0x81}, g.strAny(t.fld), []byte{0x81}, key, []byte{0x03}), "ext-prefix-struct")
			}
			emit(t.ty, t.name, []byte{0x91, 0xde, 0xff, 0xff, 0xa1, 'x', 0x01}, "map-huge-count")
			emit(t.ty, t.name, []byte{0x91, 0xdf, 0x7f, 0xff, 0xff, 0xff}, "map-huge-count")
			prefixes(t.ty, t.name, tdCat([]byte{0xdc, 0, 1, 0xde, 0, 2}, key, []byte{0xcd, 0, 5}, g.strAny("zz"), []byte{0x01}))
		case "mut":
			for _, tk := range g.strs {
				emit(t.ty, t.name, tdCat([]byte{0x91, 0x92, 0xa1, 'x'}, tk.b), "elem-"+tk.form)
			}
			for _, tk := range toks(g.ints, 14) {
				emit(t.ty, t.name, tdCat([]byte{0x91, 0x91}, tk.b), "elem-wrong-int")
				emit(t.ty, t.name, tdCat([]byte{0x91}, tk.b), "list-wrong-int")
			}
			for _, tk := range g.wrong {
				emit(t.ty, t.name, tdCat([]byte{0x91, 0x91}, tk.b), "elem-wrong-"+tk.form)
				emit(t.ty, t.name, tdCat([]byte{0x91}, tk.b), "list-wrong-"+tk.form)
				emit(t.ty, t.name, tk.b, "struct-wrong-"+tk.form)
			}
			emit(t.ty, t.name, []byte{0x91, 0xdc, 0xff, 0xff, 0xa1, 'x'}, "list-huge-count")
			emit(t.ty, t.name, []byte{0x91, 0xdd, 0x7f, 0xff, 0xff, 0xff}, "list-huge-count")
			prefixes(t.ty, t.name, []byte{0xdc, 0, 1, 0xdd, 0, 0, 0, 2, 0xd9, 2, 'a', 'b', 0xc4, 1, 'c'})
		case "3p":
			for i := 0; i < 3; i++ {
				for _, tk := range g.strs {
					fs := [][]byte{{0xa1, 'l'}, {0xc4, 1, 7}, {0xc4, 1, 8}}
					fs[i] = tk.b
					emit(t.ty, t.name, tdCat([]byte{0x93}, fs[0], fs[1], fs[2]), fmt.Sprintf("field%d-%s", i, tk.form))
				}
				for _, tk := range append(append([]tdTok{}, g.wrong...), toks(g.ints, 12)...) {
					fs := [][]byte{{0xa1, 'l'}, {0xc4, 1, 7}, {0xc4, 1, 8}}
					fs[i] = tk.b
					emit(t.ty, t.name, tdCat([]byte{0x93}, fs[0], fs[1], fs[2]), fmt.Sprintf("field%d-wrong-%s", i, tk.form))
				}
			}
			prefixes(t.ty, t.name, []byte{0xdc, 0, 3, 0xda, 0, 2, 'h', 'i', 0xc5, 0, 1, 9, 0xc6, 0, 0, 0, 2, 1, 2})
			prefixes(t.ty, t.name, tdCat([]byte{0x83}, g.strAny("Ticket"), []byte{0xc4, 1, 1}, g.strAny("Location"), []byte{0xa1, 'x'}, g.strAny("VerifierKey"), []byte{0xc0}))
		case "ifp":
			for _, tk := range g.ints {
				emit(t.ty, t.name, tdCat([]byte{0x92, 0xc0}, tk.b), "else-"+tk.form)
				emit(t.ty, t.name, tdCat([]byte{0x92, 0x92}, tk.b, []byte{0xc0, 0x01}), "nested-type-"+tk.form)
			}
			for _, tk := range append(append([]tdTok{}, g.wrong...), toks(g.strs, 8)...) {
				emit(t.ty, t.name, tdCat([]byte{0x92, 0xc0}, tk.b), "else-wrong-"+tk.form)
				emit(t.ty, t.name, tdCat([]byte{0x92}, tk.b, []byte{0x01}), "ifs-wrong-"+tk.form)
				emit(t.ty, t.name, tdCat([]byte{0x92, 0x92}, tk.b, []byte{0xc0, 0x01}), "nested-type-wrong-"+tk.form)
			}
			// nesting 0..6 deep, each level in a different struct form
			inner := []byte{0x92, 0xc0, 0x01}
			for d := 0; d < 7; d++ {
				emit(t.ty, t.name, inner, fmt.Sprintf("depth-%d", d))
				switch d % 3 {
				case 0:
					inner = tdCat([]byte{0x92, 0x92, 0x0d}, inner, []byte{byte(d + 2)})
				case 1:
					inner = tdCat([]byte{0x82}, g.strAny("Else"), []byte{byte(d + 2)}, g.strAny("Ifs"), []byte{0xdc, 0, 2, 0xcc, 0x0d}, inner)
				default:
					inner = tdCat([]byte{0xdc, 0, 2, 0x94, 0x63, 0xa1, 'u', 0x0d}, inner, []byte{byte(d + 2)})
				}
			}
			prefixes(t.ty, t.name, []byte{0x92, 0x94, 0x08, 0x91, 0x05, 0x0d, 0x92, 0x92, 0x63, 0x81, 0xa1, 'k', 0x90, 0xcd, 0, 3, 0xd1, 0xff, 0xff})
		case "cmd":
			for _, tk := range g.strs {
				emit(t.ty, t.name, tdCat([]byte{0x91, 0x92, 0x92, 0xa1, 'x'}, tk.b, []byte{0xc3}), "arg-"+tk.form)
			}
			for _, tk := range append(append(append([]tdTok{}, g.wrong...), toks(g.ints, 14)...), toks(g.strs, 6)...) {
				emit(t.ty, t.name, tdCat([]byte{0x91, 0x92, 0x90}, tk.b), "exact-"+tk.form)
				emit(t.ty, t.name, tdCat([]byte{0x91, 0x92}, tk.b, []byte{0xc2}), "args-"+tk.form)
				emit(t.ty, t.name, tdCat([]byte{0x91}, tk.b), "command-"+tk.form)
				emit(t.ty, t.name, tk.b, "commands-"+tk.form)
			}
			emit(t.ty, t.name, []byte{0xdc, 0xff, 0xff, 0x92, 0x90, 0xc2}, "huge-count")
			emit(t.ty, t.name, []byte{0xdd, 0x7f, 0xff, 0xff, 0xff}, "huge-count")
			prefixes(t.ty, t.name, tdCat([]byte{0xdc, 0, 2, 0x92, 0x91, 0xa1, 'a', 0xc3, 0x82}, g.strAny("Exact"), []byte{0xc3}, g.strAny("Args"), []byte{0xdc, 0, 1, 0xc4, 1, 'b'}))
		}
		// struct forms shared by the struct-shaped types
		if t.kind != "cmd" {
			emit(t.ty, t.name, []byte{0xc0}, "nil")
			for f := 0; f < 3; f++ {
				emit(t.ty, t.name, tdArrHdr(f, 0), "array-empty")
				emit(t.ty, t.name, tdMapHdr(f, 0), "map-empty")
			}
		}
		emit(t.ty, t.name, nil, "empty")
		// random non-canonical forms; about one in three carries a defect somewhere
		for n := 0; n < nRand; n++ {
			pBad := 40
			if n%3 == 0 {
				pBad = 6
			}
			emit(t.ty, t.name, g.body(t, 4, pBad), "random")
		}
	}
	// unregistered types: what Skip delimits and the generic decoder takes
	for n := 0; n < nRand; n++ {
		ty := rng.Pick(r, []uint64{1, 17, 18, 32, 99, 200, 1 << 20, 1<<64 - 1})
		mpExoticKeys = r.P(1, 2)
		body := randMsgpack(r, 3)
		mpExoticKeys = false
		if r.P(1, 6) {
			body = append(body, r.Bytes(1+r.Intn(2))...)
		}
		if r.P(1, 8) && len(body) > 1 {
			body = body[:len(body)-1]
		}
		emit(ty, "Unregistered", body, "unregistered-random")
	}
	for _, tk := range g.wrong {
		emit(99, "Unregistered", tk.b, "unregistered-"+tk.form)
		emit(99, "Unregistered", tdCat([]byte{0x81}, tk.b, []byte{0x01}), "unregistered-key-"+tk.form)
		emit(99, "Unregistered", tdCat([]byte{0x92, 0x01}, tk.b), "unregistered-elem-"+tk.form)
	}
	for _, tk := range toks(g.strs, 16) {
		emit(99, "Unregistered", tdCat([]byte{0x81}, tk.b, []byte{0x01}), "unregistered-key-"+tk.form)
	}
	for _, n := range []int{0, 1, 2, 3, 4, 5, 8, 11, 12, 13, 16} {
		pay := r.Bytes(n)
		for _, ext := range []byte{0xff, 0x00, 0x01, 0x7f, 0x80} {
			emit(99, "Unregistered", tdCat([]byte{0xc7, byte(n), ext}, pay), "unregistered-ext8")
			emit(99, "Unregistered", tdCat([]byte{0xc8, 0, byte(n), ext}, pay), "unregistered-ext16")
			emit(99, "Unregistered", tdCat([]byte{0xc9, 0, 0, 0, byte(n), ext}, pay), "unregistered-ext32")
			emit(99, "Unregistered", tdCat([]byte{0x81, 0xc7, byte(n), ext}, pay, []byte{0x01}), "unregistered-ext-key")
		}
	}
	for i, code := range []byte{0xd4, 0xd5, 0xd6, 0xd7, 0xd8} {
		for _, ext := range []byte{0xff, 0x00, 0xfe} {
			emit(99, "Unregistered", tdCat([]byte{code, ext}, r.Bytes(1<<uint(i))), "unregistered-fixext")
		}
	}
	// whole sets: several caveats, every header, announced counts off by one or two, nil, trailing bytes
	for n := 0; n < nSets; n++ {
		pBad := 60
		if n%4 == 0 {
			pBad = 8
		}
		b := g.set(3, 5, pBad)
		switch {
		case r.P(1, 40):
			b = []byte{0xc0}
		case r.P(1, 25):
			b = append(b, r.Bytes(1+r.Intn(3))...)
		case r.P(1, 30) && len(b) > 1:
			b = b[:len(b)-1-r.Intn(imin(len(b)-1, 3))]
		}
		emitSet(b, "random")
	}
	c.set.Notes["typed_bodies_2"] = map[string]any{"cases": accepted + refused, "types": len(t2Types), "accepted": accepted, "refused": refused, "nil_keeps_ifs_pointer": pz}
}
