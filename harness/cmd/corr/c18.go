package main

import (
	"fmt"
	"math"
	"math/big"
	"time"

	"github.com/superfly/macaroon"
	"github.com/superfly/macaroon/auth"

	"verifharness/internal/coqw"
	"verifharness/internal/cs"
	"verifharness/internal/m"
	"verifharness/internal/rng"
)

func init() { props["C18"] = genC18 }

var runStart = func() m.T { n := time.Now(); return m.T{Sec: n.Unix(), Nsec: 0} }()

var idU = []uint64{0, 1, 2, 3} // 0 is the zero value a pre-sized, badly filled list would contain
var hdU = []string{"a.com", "b.org", ""}

// durOfSecs mirrors nothing: it is computed by the library itself below.

// mkDR builds a discharge request whose true lifetime (Expiry - now) is
// deltaSec seconds (or an extreme expiry).
func mkDR(r *rng.R, nF, nG, nH int, mode string, deltaSec int64) m.Acc {
	a := m.Acc{Kind: "ADischarge"}
	for i := 0; i < nF; i++ {
		fa := m.FlyioAuth{User: rng.Pick(r, idU)}
		for j := r.Intn(3); j > 0; j-- {
			fa.Orgs = append(fa.Orgs, rng.Pick(r, idU))
		}
		a.Flyio = append(a.Flyio, fa)
	}
	for i := 0; i < nG; i++ {
		a.Google = append(a.Google, rng.Pick(r, hdU))
	}
	for i := 0; i < nH; i++ {
		var o []uint64
		for j := r.Intn(3); j > 0; j-- {
			o = append(o, rng.Pick(r, idU))
		}
		a.GitHub = append(a.GitHub, o)
	}
	now := time.Now()
	a.Now = runStart // the model's clock for this request: only ValidityWindow reads it
	switch mode {
	case "zero":
		a.Expiry = time.Time{}
	case "max":
		a.Expiry = time.Unix(1<<62, 0)
	default:
		a.Expiry = time.Unix(now.Unix()+deltaSec, int64(now.Nanosecond()))
	}
	// nominal lifetime; the library's own time.Now() is a few ms later, which the
	// generators' 10 s margins (and the 1e19-scale extremes) make irrelevant
	d := new(big.Int).Sub(big.NewInt(a.Expiry.Unix()), big.NewInt(now.Unix()))
	if mode == "zero" || mode == "max" {
		d = new(big.Int).Sub(big.NewInt(a.Expiry.Unix()), big.NewInt(runStart.Sec))
	}
	d.Mul(d, big.NewInt(1000000000))
	a.DeltaNs = d
	return a
}

// durNs is what the library computes for MaxValidity(c).duration(), obtained
// from the library itself through GetMaxValidity on a singleton set.
func libDur(c uint64) (int64, bool) {
	v := auth.MaxValidity(c)
	d, f := auth.GetMaxValidity(macaroon.NewCaveatSet(&v))
	return int64(d), f
}

var mvBoundaries = []uint64{0, 1, 59, 60, 3600, 86400, 9223372035, 9223372036, 9223372037, 18446744073, 18446744074,
	1 << 32, 1 << 40, 1 << 62, 1<<63 - 1, 1 << 63, 1<<63 + 1, math.MaxUint64 - 1, math.MaxUint64}

// safe reports whether deltaSec is at least 10 s away from the duration the
// library uses for c (so that the few ms between sampling now and the
// library's own time.Now() cannot change the verdict).
func safeDelta(c uint64, deltaSec int64) bool {
	d, _ := libDur(c)
	dd := new(big.Int).Mul(big.NewInt(deltaSec), big.NewInt(1000000000))
	diff := new(big.Int).Sub(dd, big.NewInt(d))
	diff.Abs(diff)
	return diff.Cmp(big.NewInt(10_000_000_000)) > 0
}

func randAuthCav(r *rng.R, depth int) m.Cav {
	switch k := r.Intn(8); {
	case k == 0:
		return m.Cav{Kind: "CConfineUser", ID: rng.Pick(r, idU)}
	case k == 1:
		return m.Cav{Kind: "CConfineOrganization", ID: rng.Pick(r, idU)}
	case k == 2:
		return m.Cav{Kind: "CConfineGoogleHD", S: [3]string{rng.Pick(r, hdU)}}
	case k == 3:
		return m.Cav{Kind: "CConfineGitHubOrg", ID: rng.Pick(r, idU)}
	case k == 4 || k == 5:
		return m.Cav{Kind: "CMaxValidity", ID: rng.Pick(r, mvBoundaries)}
	case k == 6 && depth > 0:
		n := r.Intn(3)
		ifs := make([]m.Cav, 0, n)
		for i := 0; i < n; i++ {
			ifs = append(ifs, randAuthCav(r, depth-1))
		}
		return m.Cav{Kind: "CIfPresent", Ifs: &ifs, Mask: uint64(r.Intn(32))}
	default:
		return m.Cav{Kind: "CMaxValidity", ID: uint64(r.Intn(100000))}
	}
}

func maxValsIn(cs []m.Cav) []uint64 {
	var o []uint64
	for _, c := range cs {
		if c.Kind == "CMaxValidity" {
			o = append(o, c.ID)
		}
		if c.Kind == "CIfPresent" && c.Ifs != nil {
			o = append(o, maxValsIn(*c.Ifs)...)
		}
	}
	return o
}

func genC18(c *ctx) {
	st := c.set.Stream("auth-cond", "Corr.RunA", "run", 1500)
	r := c.r
	addProhibits := func(cv m.Cav, a m.Acc, class string, nontrivial bool) {
		err := cv.Go().Prohibits(a.Go())
		code := m.ErrCode(err)
		st.Add(&cs.Case{
			Coq:        coqw.App("KProhibits", cv.Coq(), a.Coq(), coqw.N(code)),
			Desc:       map[string]any{"op": "Prohibits", "caveat": cv.Coq(), "access": a.Coq(), "impl_err_code": code, "impl_err": errStr(err)},
			Class:      class,
			Nontrivial: nontrivial,
		})
	}
	// 1. identity conditions: exhaustive over small identity configurations
	confines := []m.Cav{}
	for _, id := range idU {
		confines = append(confines, m.Cav{Kind: "CConfineUser", ID: id}, m.Cav{Kind: "CConfineOrganization", ID: id}, m.Cav{Kind: "CConfineGitHubOrg", ID: id})
	}
	for _, hd := range hdU {
		confines = append(confines, m.Cav{Kind: "CConfineGoogleHD", S: [3]string{hd}})
	}
	reps := 6
	if c.thorough {
		reps = 120
	}
	for _, cv := range confines {
		for nF := 0; nF <= 3; nF++ {
			for nO := 0; nO <= 3; nO++ {
				for k := 0; k < reps/3+1; k++ {
					a := mkDR(r, nF, nO, nO, "rel", 60)
					addProhibits(cv, a, "confine/"+cv.Kind, true)
				}
			}
		}
		// wrong kind of request
		now := time.Now()
		t := m.T{Sec: now.Unix(), Nsec: 5}
		org := uint64(1)
		addProhibits(cv, m.Acc{Kind: "AFlyio", Org: &org, Action: 1, Now: t}, "confine/wrong-access", false)
		addProhibits(cv, m.Acc{Kind: "ABare", Valid: true, Now: t}, "confine/wrong-access", false)
		addProhibits(cv, m.Acc{Kind: "AActionOnly", Action: 3, Now: t}, "confine/wrong-access", false)
	}
	// 1b. a request object is evaluated more than once (one per caveat, per token, per retry) and applications build the next
	// request by editing the previous one: every evaluation must look at the identities the object holds NOW
	for _, cv := range confines {
		for k := 0; k < reps/3+1; k++ {
			a1 := mkDR(r, 1+r.Intn(2), 1+r.Intn(2), 1+r.Intn(2), "rel", 60)
			a2 := mkDR(r, len(a1.Flyio), len(a1.Google), len(a1.GitHub), "rel", 60) // same number of identities per provider
			obj := a1.Go().(*auth.DischargeRequest)
			cv.Go().Prohibits(obj)
			cv.Go().Prohibits(obj)
			fresh := a2.Go().(*auth.DischargeRequest)
			if r.Bool() {
				obj.Flyio, obj.Google, obj.GitHub = fresh.Flyio, fresh.Google, fresh.GitHub // slices replaced
			} else {
				copy(obj.Flyio, fresh.Flyio) // edited in place
				copy(obj.Google, fresh.Google)
				copy(obj.GitHub, fresh.GitHub)
			}
			obj.Expiry = fresh.Expiry
			err := cv.Go().Prohibits(obj)
			code := m.ErrCode(err)
			oracle := ""
			if want := m.ErrCode(cv.Go().Prohibits(fresh)); want != code {
				oracle = fmt.Sprintf("a request object evaluated again after its identities were changed answers code %d; a fresh object with the same identities answers %d", code, want)
			}
			st.Add(&cs.Case{
				Coq:        coqw.App("KProhibits", cv.Coq(), a2.Coq(), coqw.N(code)),
				Desc:       map[string]any{"op": "Prohibits on a re-used request object", "caveat": cv.Coq(), "access_before": a1.Coq(), "access": a2.Coq(), "impl_err_code": code, "impl_err": errStr(err)},
				Class:      "confine-reused-request/" + cv.Kind,
				Nontrivial: true,
				OracleFail: oracle,
			})
		}
	}
	// 2. lifetime limits at their boundaries
	for _, mv := range mvBoundaries {
		cv := m.Cav{Kind: "CMaxValidity", ID: mv}
		d, _ := libDur(mv)
		dsec := d / 1000000000
		for _, off := range []int64{-100000, -3600, -11, 11, 3600, 100000} {
			for _, base := range []int64{dsec, 0, 3600} {
				ds := base + off
				if !safeDelta(mv, ds) || ds > 1<<40 || ds < -(1<<40) {
					continue
				}
				addProhibits(cv, mkDR(r, 1, 0, 0, "rel", ds), "maxvalidity/boundary", true)
			}
		}
		addProhibits(cv, mkDR(r, 1, 0, 0, "zero", 0), "maxvalidity/zero-expiry", true)
		addProhibits(cv, mkDR(r, 1, 0, 0, "max", 0), "maxvalidity/max-expiry", true)
		now := time.Now()
		addProhibits(cv, m.Acc{Kind: "ABare", Valid: true, Now: m.T{Sec: now.Unix()}}, "maxvalidity/wrong-access", false)
	}
	nRand := 300
	if c.thorough {
		nRand = 12000
	}
	for i := 0; i < nRand; i++ {
		mv := uint64(r.Intn(200000))
		if r.P(1, 4) {
			mv = r.U64()
		}
		ds := int64(r.Intn(400000)) - 100000
		if !safeDelta(mv, ds) {
			continue
		}
		addProhibits(m.Cav{Kind: "CMaxValidity", ID: mv}, mkDR(r, r.Intn(2), 0, 0, "rel", ds), "maxvalidity/random", true)
	}
	// 1b. scale: requests with many identities and long organisation lists (33, 100, 300 distinct ids): the required one is
	// the first, a middle one, the last, or absent; asked three times each (id sets are built from Go maps)
	for _, k := range []int{33, 100, 300} {
		base := mkDR(r, 0, 0, 0, "rel", 60)
		var fl []m.FlyioAuth
		var gh [][]uint64
		var gg []string
		for j := 0; j < k; j++ {
			if j%10 == 0 {
				fl = append(fl, m.FlyioAuth{User: uint64(5000 + j)})
				gh = append(gh, nil)
			}
			fl[len(fl)-1].Orgs = append(fl[len(fl)-1].Orgs, uint64(1000+j))
			gh[len(gh)-1] = append(gh[len(gh)-1], uint64(1000+j))
			gg = append(gg, fmt.Sprintf("d%04d.example", j))
		}
		a := base
		a.Flyio, a.GitHub, a.Google = fl, gh, gg
		for rep := 0; rep < 3; rep++ {
			for _, j := range []int{0, k / 2, k - 1, k, k + 5} {
				addProhibits(m.Cav{Kind: "CConfineOrganization", ID: uint64(1000 + j)}, a, "identity/scale", true)
				addProhibits(m.Cav{Kind: "CConfineGitHubOrg", ID: uint64(1000 + j)}, a, "identity/scale", true)
				addProhibits(m.Cav{Kind: "CConfineUser", ID: uint64(5000 + j - j%10)}, a, "identity/scale", true)
				addProhibits(m.Cav{Kind: "CConfineUser", ID: uint64(1000 + j)}, a, "identity/scale", true)
				addProhibits(m.Cav{Kind: "CConfineGoogleHD", S: [3]string{fmt.Sprintf("d%04d.example", j)}}, a, "identity/scale", true)
			}
		}
		// a small request right after the big one (pooled or memoised id sets must not carry over)
		small := mkDR(r, 1, 1, 1, "rel", 60)
		for _, j := range []int{0, k - 1} {
			addProhibits(m.Cav{Kind: "CConfineOrganization", ID: uint64(1000 + j)}, small, "identity/after-scale", true)
			addProhibits(m.Cav{Kind: "CConfineGitHubOrg", ID: uint64(1000 + j)}, small, "identity/after-scale", true)
			addProhibits(m.Cav{Kind: "CConfineUser", ID: uint64(5000 + j - j%10)}, small, "identity/after-scale", true)
			addProhibits(m.Cav{Kind: "CConfineGitHubOrg", ID: uint64(5000 + j - j%10)}, small, "identity/after-scale", true)
		}
	}
	// 2b. the limit that counts can sit under any number of conditional wrappers
	for _, depth := range []int{1, 2, 31, 32, 33, 34, 64, 100} {
		inner := m.Cav{Kind: "CMaxValidity", ID: 60}
		for k := 0; k < depth; k++ {
			ifs := []m.Cav{inner}
			inner = m.Cav{Kind: "CIfPresent", Ifs: &ifs, Mask: 1}
		}
		set := []m.Cav{{Kind: "CMaxValidity", ID: 5000}, inner}
		d, f := auth.GetMaxValidity(macaroon.NewCaveatSet(m.CavsGo(set)...))
		st.Add(&cs.Case{
			Coq:        coqw.App("KMaxValidity", m.CavsCoq(set), coqw.Z(int64(d)), coqw.Bool(f)),
			Desc:       map[string]any{"op": "GetMaxValidity", "nesting_depth": depth, "impl_duration_ns": int64(d), "impl_found": f},
			Class:      "getmaxvalidity/deep",
			Nontrivial: true,
		})
	}
	// 3. effective maximum over nested sets, and clearing of whole sets
	nSets := 400
	if c.thorough {
		nSets = 15000
	}
	for i := 0; i < nSets; i++ {
		n := r.Intn(5)
		set := make([]m.Cav, 0, n)
		for j := 0; j < n; j++ {
			set = append(set, randAuthCav(r, 3))
		}
		gs := macaroon.NewCaveatSet(m.CavsGo(set)...)
		d, f := auth.GetMaxValidity(gs)
		mvs := maxValsIn(set)
		st.Add(&cs.Case{
			Coq:        coqw.App("KMaxValidity", m.CavsCoq(set), coqw.Z(int64(d)), coqw.Bool(f)),
			Desc:       map[string]any{"op": "GetMaxValidity", "caveats": m.CavsCoq(set), "impl_duration_ns": int64(d), "impl_found": f},
			Class:      "getmaxvalidity",
			Nontrivial: len(mvs) >= 2,
		})
		ds := int64(r.Intn(400000)) - 100000
		ok := true
		for _, mv := range mvs {
			ok = ok && safeDelta(mv, ds)
		}
		if !ok {
			continue
		}
		a := mkDR(r, r.Intn(3), r.Intn(3), r.Intn(3), "rel", ds)
		err := gs.Validate(a.Go())
		code := m.ErrCode(err)
		st.Add(&cs.Case{
			Coq:        coqw.App("KValidate", m.CavsCoq(set), m.AccsCoq([]m.Acc{a}), coqw.N(code)),
			Desc:       map[string]any{"op": "Validate", "caveats": m.CavsCoq(set), "access": a.Coq(), "impl_err_code": code, "impl_err": errStr(err)},
			Class:      "validate-set",
			Nontrivial: n > 0,
		})
	}
}

func errStr(e error) string {
	if e == nil {
		return ""
	}
	s := e.Error()
	if len(s) > 200 {
		s = s[:200]
	}
	return s
}
