// Command corr runs the implementation on generated cases and writes the Coq
// case files that evaluate the model on the same cases.
package main

import (
	"encoding/hex"
	"flag"
	"fmt"
	"os"
	"runtime/debug"
	"strconv"

	"github.com/superfly/macaroon"

	"verifharness/internal/cs"
	"verifharness/internal/m"
	"verifharness/internal/rng"
)

type ctx struct {
	set      *cs.Set
	r        *rng.R
	thorough bool
}

var props = map[string]func(*ctx){}

func mpUint(x uint64) []byte {
	switch {
	case x <= 127:
		return []byte{byte(x)}
	case x <= 0xff:
		return []byte{0xcc, byte(x)}
	case x <= 0xffff:
		return []byte{0xcd, byte(x >> 8), byte(x)}
	case x <= 0xffffffff:
		return []byte{0xce, byte(x >> 24), byte(x >> 16), byte(x >> 8), byte(x)}
	}
	b := []byte{0xcf}
	for i := 7; i >= 0; i-- {
		b = append(b, byte(x>>(8*uint(i))))
	}
	return b
}

func init() {
	m.UnregisteredMaker = func(ty uint64, body []byte) macaroon.Caveat {
		buf := append([]byte{0x92}, mpUint(ty)...)
		buf = append(buf, body...)
		set, err := macaroon.DecodeCaveats(buf)
		if err == nil && len(set.Caveats) == 1 {
			if _, ok := set.Caveats[0].(*macaroon.UnregisteredCaveat); ok {
				return set.Caveats[0]
			}
		}
		if ty < 64 {
			// this binary registers the number (or the body does not fit its type): build the value that a binary which
			// does not register it would decode
			return &macaroon.UnregisteredCaveat{Type: macaroon.CaveatType(ty), RawMsgpack: body}
		}
		panic(fmt.Sprintf("UnregisteredMaker: %v", err))
	}
}

func main() {
	prop := flag.String("prop", "", "property id")
	tier := flag.String("tier", "quick", "quick|thorough")
	seedS := flag.String("seed", "1", "seed")
	out := flag.String("out", "", "output directory")
	decodeHex := flag.String("decode-hex", "", "child mode: decode this input with every decoder and exit 0 (run by the C12 stream under a memory limit)")
	flag.Parse()
	if *decodeHex != "" {
		in, err := hex.DecodeString(*decodeHex)
		if err != nil {
			os.Exit(3)
		}
		debug.SetGCPercent(100)
		macaroon.Decode(in)
		macaroon.DecodeCaveats(in)
		macaroon.DecodeNonce(in)
		os.Exit(0)
	}
	seed, _ := strconv.ParseUint(*seedS, 10, 64)
	f, ok := props[*prop]
	if !ok {
		fmt.Fprintf(os.Stderr, "corr: unknown property %q\n", *prop)
		os.Exit(2)
	}
	c := &ctx{set: cs.NewSet(*prop, *tier, seed), r: rng.New(seed ^ hashStr(*prop)), thorough: *tier == "thorough"}
	f(c)
	if err := c.set.Write(*out); err != nil {
		fmt.Fprintln(os.Stderr, "corr:", err)
		os.Exit(2)
	}
}

func hashStr(s string) uint64 {
	var h uint64 = 1469598103934665603
	for i := 0; i < len(s); i++ {
		h ^= uint64(s[i])
		h *= 1099511628211
	}
	return h
}
