//go:build verif

package main

import (
	"context"
	"fmt"
	"net/http"
	"net/http/httptest"
	"strings"

	"github.com/superfly/macaroon/tp"

	"verifharness/internal/coqw"
	"verifharness/internal/cs"
	"verifharness/internal/rng"
	"verifharness/internal/sym"
)

// recStore is the library's MemoryStore with one addition: it remembers the two secrets of every Insert. The service
// discloses the user secret of a poll-only flow to nobody, yet its key occupies a slot of the cache like any other; with
// the recorded secret the harness can also present that secret. Every store call is forwarded unchanged.
type recStore struct {
	*tp.MemoryStore
	us, ps  []string
	evicted int // keys pushed out by Insert calls so far
	cap     int
	fail    string
}

func (s *recStore) Insert(ctx context.Context, sd *tp.StoreData) (string, string, error) {
	before := s.Cache.Len()
	u, p, err := s.MemoryStore.Insert(ctx, sd)
	s.us = append(s.us, u)
	s.ps = append(s.ps, p)
	after := s.Cache.Len()
	s.evicted += before + 2 - after
	if after > s.cap && s.fail == "" {
		s.fail = fmt.Sprintf("the cache holds %d keys, its capacity is %d", after, s.cap)
	}
	return u, p, err
}

type lruWorld struct {
	*c16World
	st  *recStore
	cap int
}

func newLRUWorld(r *rng.R, capacity int) *lruWorld {
	w := newC16World(r)
	ms, err := tp.NewMemoryStore(tp.PrefixMunger(c16UserPref), capacity)
	if err != nil {
		panic(err)
	}
	st := &recStore{MemoryStore: ms, cap: capacity}
	w.tp.Store = st
	return &lruWorld{c16World: w, st: st, cap: capacity}
}

// do runs one action; after an accepted init the secrets the store created replace what the response disclosed (the
// poll secret must be the one in the URL)
func (w *lruWorld) do(a c16Act, r *rng.R) []int64 {
	ob := w.c16World.do(a, r)
	for f := range w.pollSec {
		if f >= len(w.st.ps) {
			w.st.fail = "a poll URL was handed out without an Insert"
			break
		}
		if w.pollSec[f] != w.st.ps[f] && w.st.fail == "" {
			w.st.fail = fmt.Sprintf("the poll URL of flow %d does not carry the poll secret the store created", f)
		}
		if w.userSec[f] != "" && w.userSec[f] != w.st.us[f] && w.st.fail == "" {
			w.st.fail = fmt.Sprintf("the user URL of flow %d does not carry the user secret the store created", f)
		}
		w.userSec[f] = w.st.us[f]
	}
	return ob
}

// hookStore runs a hook right after a successful lookup, i.e. between the two store calls a handler makes. It stands in
// for a concurrent request: sequentially nothing can come between them (the model proves the second call then hits).
type hookStore struct {
	*recStore
	after func()
}

func (h *hookStore) GetByPollSecret(ctx context.Context, s string) (*tp.StoreData, error) {
	sd, err := h.recStore.GetByPollSecret(ctx, s)
	if err == nil && h.after != nil {
		f := h.after
		h.after = nil
		f()
	}
	return sd, err
}

func (h *hookStore) GetByUserSecret(ctx context.Context, s string) (*tp.StoreData, error) {
	sd, err := h.recStore.GetByUserSecret(ctx, s)
	if err == nil && h.after != nil {
		f := h.after
		h.after = nil
		f()
	}
	return sd, err
}

// evictBetweenCallsOracle: the branches the model marks "not sequentially" (Model/TPStoreLRU.v: h_poll answering 500,
// h_decide failing after a successful Get). A flow is created in a store of 2 keys and, between the lookup and the second
// store call of the handler, another flow is inserted, which pushes both keys out. Expected from the code: the poll
// handler answers 500 and releases nothing; Discharge*/Abort* return an error; afterwards the secrets answer not found.
func evictBetweenCallsOracle(r *rng.R) string {
	for _, variant := range []string{"poll", "approve-poll", "approve-user", "visit"} {
		w := newLRUWorld(r, 2)
		hs := &hookStore{recStore: w.st}
		w.tp.Store = hs
		w.do(c16Act{Kind: "AInit", T: "TValid", TI: 0, Mode: "MUser"}, r)
		if variant == "poll" {
			w.do(c16Act{Kind: "AApprovePoll", S: "SPoll", F: 0, Cavs: []uint64{1}}, r)
		}
		intruder := func() {
			hs.MemoryStore.Insert(context.Background(), &tp.StoreData{Ticket: w.tickets[1]})
		}
		hs.after = intruder
		switch variant {
		case "poll":
			req := httptest.NewRequest(http.MethodGet, c16TPLoc+tp.PollPathPrefix+w.pollSec[0], nil)
			rec := httptest.NewRecorder()
			w.tp.HandlePollRequest(rec, req)
			if rec.Code != http.StatusInternalServerError || strings.Contains(rec.Body.String(), "discharge") {
				return fmt.Sprintf("poll whose key is pushed out between lookup and delete answered %d %q (the model's unreachable branch says 500, nothing released)", rec.Code, rec.Body.String())
			}
		case "approve-poll":
			if err := w.tp.DischargePoll(context.Background(), w.pollSec[0], cavList([]uint64{1})...); err == nil {
				return "DischargePoll succeeded although the key was pushed out between Get and Update"
			}
		case "approve-user":
			if err := w.tp.DischargeUserInteractive(context.Background(), w.userSec[0], cavList([]uint64{1})...); err == nil {
				return "DischargeUserInteractive succeeded although the key was pushed out between Get and Update"
			}
		case "visit":
			// the intruder runs between the middleware's lookup and the application's decision
			ob := w.do(c16Act{Kind: "AUserVisit", S: "SUser", F: 0, Dec: "DApprove", Cavs: []uint64{2}}, r)
			if !(len(ob) == 3 && ob[0] == 1001 && ob[1] == 1 && ob[2] == 0) {
				return fmt.Sprintf("user page whose key is pushed out after the middleware's lookup: %v, expected the application to run and its decision to fail", ob)
			}
		}
		if hs.after != nil {
			return variant + ": the hook did not run (the handler made no successful lookup)"
		}
		for _, a := range []c16Act{{Kind: "APoll", S: "SPoll", F: 0}, {Kind: "AUserVisit", S: "SUser", F: 0, Dec: "DNone"},
			{Kind: "AApprovePoll", S: "SPoll", F: 0}, {Kind: "AApproveUser", S: "SUser", F: 0}} {
			ob := w.do(a, r)
			if !((len(ob) == 2 && ob[0] == 404) || (len(ob) == 2 && ob[0] == 1000 && ob[1] == 0)) {
				return fmt.Sprintf("%s: after both keys of flow 0 were pushed out, %s was answered %v", variant, a.Coq(), ob)
			}
		}
	}
	return ""
}

// genLRUStore: histories against servers whose MemoryStore holds 1..6 keys, with enough flows that keys are evicted.
// The harness keeps every secret it was ever given (and the undisclosed ones) and goes on presenting them: each answer
// must be the one the capacity-bounded model (Model/TPStoreLRU.v) computes.
func genLRUStore(c *ctx, st *cs.Stream) {
	if f := evictBetweenCallsOracle(c.r.Fork()); f != "" {
		st.Add(&cs.Case{Coq: "(KTPLRU 2%nat [] [])", Class: "lru/evicted-between-store-calls", Nontrivial: true, Desc: map[string]any{"what": "another flow is inserted between the two store calls of one handler (capacity 2)"}, OracleFail: f})
	}
	n := 600
	if c.thorough {
		n = 6000
	}
	cavPool := []uint64{1, 2, 6, 7, 13, 14}
	for i := 0; i < n; i++ {
		r := c.r.Fork()
		capacity := 1 + i%6
		w := newLRUWorld(r, capacity)
		var acts []c16Act
		var obs [][]int64
		var desc []string
		approved := map[uint64]bool{}
		delivered := map[uint64]int{}
		oracle := ""
		randCavs := func() []uint64 {
			var o []uint64
			seen := map[uint64]bool{}
			for k := r.Intn(3); k > 0; k-- {
				id := rng.Pick(r, cavPool)
				if !seen[id] {
					seen[id] = true
					o = append(o, id)
				}
			}
			return o
		}
		// a secret of an existing flow: recent flows more often than old ones (old ones are the evicted ones)
		sref := func(kind string) (string, uint64) {
			nf := len(w.pollSec)
			if nf == 0 || r.P(1, 12) {
				return "SGuess", 0
			}
			var f uint64
			switch x := r.Intn(10); {
			case x < 5:
				back := r.Intn(capacity/2 + 2)
				if back >= nf {
					back = nf - 1
				}
				f = uint64(nf - 1 - back)
			default:
				f = uint64(r.Intn(nf))
			}
			k := kind
			if r.P(1, 10) { // crossed secret
				if k == "SPoll" {
					k = "SUser"
				} else {
					k = "SPoll"
				}
			}
			return k, f
		}
		initAct := func() c16Act {
			a := c16Act{Kind: "AInit", T: "TValid", TI: uint64(r.Intn(3)), Mode: rng.Pick(r, []string{"MPoll", "MUser", "MPoll", "MUser", "MPoll", "MUser", "MImmediate", "MError"})}
			if r.P(1, 10) {
				a.T = rng.Pick(r, []string{"TTampered", "TForeign", "TEmpty"})
			}
			a.Cavs, a.Status, a.Msg = randCavs(), rng.Pick(r, []uint64{400, 403, 500}), uint64(r.Intn(5))
			return a
		}
		var script []c16Act
		switch i % 5 {
		case 1:
			// one flow kept warm through its poll secret only while other flows arrive: its user key ages out
			script = append(script, c16Act{Kind: "AInit", T: "TValid", TI: 0, Mode: "MUser"})
			for k := 0; k < capacity; k++ {
				script = append(script, c16Act{Kind: "AInit", T: "TValid", TI: uint64(k % 3), Mode: rng.Pick(r, []string{"MPoll", "MUser"})},
					c16Act{Kind: "APoll", S: "SPoll", F: 0})
			}
			script = append(script, c16Act{Kind: "AUserVisit", S: "SUser", F: 0, Dec: "DApprove", Cavs: randCavs()},
				c16Act{Kind: "APoll", S: "SPoll", F: 0})
		case 2:
			// the mirror image: kept warm through the user secret, decided through it, poll key aged out
			script = append(script, c16Act{Kind: "AInit", T: "TValid", TI: 1, Mode: "MUser"})
			for k := 0; k < capacity; k++ {
				script = append(script, c16Act{Kind: "AInit", T: "TValid", TI: uint64(k % 3), Mode: rng.Pick(r, []string{"MPoll", "MUser"})},
					c16Act{Kind: "AUserVisit", S: "SUser", F: 0, Dec: "DNone"})
			}
			script = append(script, c16Act{Kind: "AApproveUser", S: "SUser", F: 0, Cavs: randCavs()},
				c16Act{Kind: "APoll", S: "SPoll", F: 0}, c16Act{Kind: "AUserVisit", S: "SUser", F: 0, Dec: "DNone"})
		case 3:
			// decided, then pushed out before it is collected; and collected, then everything about it presented again
			script = append(script, c16Act{Kind: "AInit", T: "TValid", TI: 2, Mode: "MPoll"},
				c16Act{Kind: "AInit", T: "TValid", TI: 0, Mode: "MUser"},
				c16Act{Kind: "AApprovePoll", S: "SPoll", F: 0, Cavs: randCavs()},
				c16Act{Kind: "AApproveUser", S: "SUser", F: 1, Cavs: randCavs()})
			if r.Bool() {
				script = append(script, c16Act{Kind: "APoll", S: "SPoll", F: 1})
			}
			for k := 0; k < 1+r.Intn(capacity/2+1); k++ {
				script = append(script, c16Act{Kind: "AInit", T: "TValid", TI: 1, Mode: rng.Pick(r, []string{"MPoll", "MUser"})})
			}
			script = append(script, c16Act{Kind: "APoll", S: "SPoll", F: 0}, c16Act{Kind: "APoll", S: "SPoll", F: 1},
				c16Act{Kind: "APoll", S: "SPoll", F: 0}, c16Act{Kind: "AApproveUser", S: "SUser", F: 0, Cavs: randCavs()},
				c16Act{Kind: "AUserVisit", S: "SUser", F: 1, Dec: "DAbort", Msg: 3}, c16Act{Kind: "APoll", S: "SPoll", F: 1})
		}
		steps := len(script) + 8 + r.Intn(30)
		for k := 0; k < steps; k++ {
			var a c16Act
			if k < len(script) {
				a = script[k]
			} else {
				switch x := r.Intn(16); {
				case x < 5:
					a = initAct()
				case x < 9:
					a = c16Act{Kind: "APoll"}
					a.S, a.F = sref("SPoll")
				case x < 11:
					a = c16Act{Kind: "AUserVisit", Dec: rng.Pick(r, []string{"DApprove", "DAbort", "DNone", "DNone"}), Cavs: randCavs(), Msg: uint64(r.Intn(5))}
					a.S, a.F = sref("SUser")
				case x < 14:
					a = c16Act{Kind: rng.Pick(r, []string{"AApprovePoll", "AApprovePoll", "AAbortPoll"}), Cavs: randCavs(), Msg: uint64(r.Intn(5))}
					a.S, a.F = sref("SPoll")
				default:
					a = c16Act{Kind: rng.Pick(r, []string{"AApproveUser", "AApproveUser", "AAbortUser"}), Cavs: randCavs(), Msg: uint64(r.Intn(5))}
					a.S, a.F = sref("SUser")
				}
			}
			if a.Kind != "AInit" && a.S != "SGuess" && int(a.F) >= len(w.pollSec) {
				a.S, a.F = "SGuess", 0 // scripted step about a flow that an earlier scripted init failed to create: cannot happen
			}
			ob := w.do(a, r)
			acts = append(acts, a)
			obs = append(obs, ob)
			desc = append(desc, fmt.Sprintf("%s -> %v (keys in cache: %d)", a.Coq(), ob, w.st.Cache.Len()))
			// implementation-side oracles, valid for every capacity: nothing is delivered that was not approved, and nothing twice
			switch a.Kind {
			case "AApprovePoll":
				if ob[1] == 1 && a.S == "SPoll" {
					approved[a.F] = true
				}
			case "AApproveUser":
				if ob[1] == 1 && a.S == "SUser" {
					approved[a.F] = true
				}
			case "AUserVisit":
				if a.Dec == "DApprove" && a.S == "SUser" && len(ob) == 3 && ob[0] == 1001 && ob[2] == 1 {
					approved[a.F] = true
				}
			case "APoll":
				if len(ob) > 2 && (ob[2] == 1 || ob[2] == 2) {
					if a.S != "SPoll" {
						if oracle == "" {
							oracle = "a guessed or crossed secret obtained a stored answer"
						}
						break
					}
					delivered[a.F]++
					if delivered[a.F] > 1 && oracle == "" {
						oracle = fmt.Sprintf("the answer of flow %d was handed out twice", a.F)
					}
					if ob[2] == 1 && !approved[a.F] && oracle == "" {
						oracle = fmt.Sprintf("poll on flow %d delivered a discharge although the application never approved it", a.F)
					}
				}
			}
			if a.S != "SGuess" && a.Kind != "AInit" && delivered[a.F] > 0 && !(a.Kind == "APoll" && delivered[a.F] == 1 && len(ob) > 2) {
				// after the answer was collected every use of either secret is refused
				refused := (len(ob) == 2 && ob[0] == 404) || (len(ob) == 2 && ob[0] == 1000 && ob[1] == 0)
				if !refused && oracle == "" {
					oracle = fmt.Sprintf("flow %d was collected, yet %s was answered %v", a.F, a.Coq(), ob)
				}
			}
		}
		if oracle == "" {
			oracle = w.cavFail
		}
		if oracle == "" {
			oracle = w.st.fail
		}
		st.Add(&cs.Case{
			Coq:        coqw.App("KTPLRU", coqw.Nat(capacity), coqw.ListOf(acts, c16Act.Coq), sym.ObsCoq(obs)),
			Desc:       map[string]any{"capacity": capacity, "history": desc, "evicted_keys": w.st.evicted},
			Class:      fmt.Sprintf("lru/cap%d/evicted=%v", capacity, w.st.evicted > 0),
			Nontrivial: w.st.evicted > 0,
			OracleFail: oracle,
		})
	}
}
