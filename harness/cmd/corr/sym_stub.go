//go:build !verif

package main

// the symbolic-layer streams need the verif hooks in /repo (go build -tags verif)
