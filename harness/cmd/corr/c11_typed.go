//go:build verif

package main

// Typed lenient decoding of the scalar-bodied caveat types (extension of C11): every body below is fed to the library as
// the one-caveat set `92 <type> <body>`; what the library decoded is re-encoded canonically and compared with
// Model.TypedDec.dec_body followed by enc_one (case kind KDecBody of Corr.RunM).

import (
	"fmt"
	"strings"

	"github.com/superfly/macaroon"

	"verifharness/internal/coqw"
	"verifharness/internal/cs"
	"verifharness/internal/rng"
)

type tdField struct {
	name string
	kind byte // 'u' unsigned (any width), 'i' int64, 's' string
}

type tdType struct {
	ty     byte
	name   string
	shape  string // "struct", "uint", "str", "bytes", "big"
	fields []tdField
}

var tdTypes = []tdType{
	{0, "Organization", "struct", []tdField{{"ID", 'u'}, {"Mask", 'u'}}},
	{4, "ValidityWindow", "struct", []tdField{{"NotBefore", 'i'}, {"NotAfter", 'i'}}},
	{8, "ConfineUser", "struct", []tdField{{"ID", 'u'}}},
	{9, "ConfineOrganization", "struct", []tdField{{"ID", 'u'}}},
	{10, "IsUser", "struct", []tdField{{"ID", 'u'}}},
	{12, "BindToParentToken", "bytes", nil},
	{15, "FromMachineSource", "struct", []tdField{{"ID", 's'}}},
	{19, "ConfineGoogleHD", "str", nil},
	{20, "ConfineGitHubOrg", "uint", nil},
	{21, "MaxValidity", "uint", nil},
	{22, "IsMember", "struct", nil},
	{23, "FlyioUserID", "uint", nil},
	{24, "GitHubUserID", "uint", nil},
	{25, "GoogleUserID", "big", nil},
	{26, "Action", "uint", nil},
	{30, "AllowedRoles", "uint", nil},
	{31, "FlySrc", "struct", []tdField{{"Organization", 's'}, {"App", 's'}, {"Instance", 's'}}},
}

// the bodies quoted in coq/Proofs/TypedDecProofs.v (Examples surprise_*): the library is asked about each of them too
var tdDocumented = []struct {
	ty   byte
	body []byte
}{
	{26, []byte{0xce, 0, 1, 0, 1}}, {0, []byte{0x92, 1, 0xce, 0, 1, 0, 0x1f}}, {30, []byte{0xcf, 0, 0, 0, 1, 0, 0, 0, 5}},
	{26, []byte{0xff}}, {20, []byte{0xff}}, {8, []byte{0x91, 0xd0, 0x80}},
	{4, []byte{0x92, 0xcf, 0xff, 0xff, 0xff, 0xff, 0xff, 0xff, 0xff, 0xff, 0}},
	{12, []byte{0xa1, 'A'}}, {19, []byte{0xc4, 1, 'A'}}, {25, []byte{0xa3, 0, 0, 7}},
	{0, []byte{0x90}}, {0, []byte{0x91, 1}}, {0, []byte{0x93, 1, 2, 3}}, {22, []byte{0x91, 1}},
	{0, []byte{0x82, 0xa4, 'M', 'a', 's', 'k', 3, 0xa2, 'I', 'D', 9}}, {8, []byte{0x82, 0xa2, 'I', 'D', 1, 0xa2, 'I', 'D', 2}},
	{8, []byte{0x82, 0xa1, 'x', 0x92, 1, 2, 0xa2, 'I', 'D', 5}}, {0, []byte{0x81, 0xa2, 'I', 'D', 9}}, {8, []byte{0x81, 0xa2, 'i', 'd', 9}},
	{0, []byte{0x92, 0xc0, 5}}, {0, []byte{0x92, 7, 0xc0}}, {4, []byte{0x92, 0xc0, 0xc0}}, {31, []byte{0x93, 0xc0, 0xa1, 'a', 0xc0}},
}

type tdTok struct {
	b    []byte
	form string
}

func tdBE(n uint64, k int) []byte {
	b := make([]byte, k)
	for i := k - 1; i >= 0; i-- {
		b[i] = byte(n)
		n >>= 8
	}
	return b
}

func tdCat(parts ...[]byte) []byte {
	var o []byte
	for _, p := range parts {
		o = append(o, p...)
	}
	return o
}

// every integer form: nil, fixints of both signs, all eight width codes with payloads on the sign / truncation boundaries
func tdIntToks(r *rng.R) []tdTok {
	out := []tdTok{{[]byte{0xc0}, "nil"}}
	for _, c := range []byte{0x00, 0x01, 0x1f, 0x7f, 0xe0, 0xf0, 0xff} {
		out = append(out, tdTok{[]byte{c}, "fixint"})
	}
	out = append(out, tdTok{[]byte{byte(r.Intn(128))}, "fixint"}, tdTok{[]byte{byte(0xe0 + r.Intn(32))}, "fixint"})
	codes := []struct {
		c byte
		k int
	}{{0xcc, 1}, {0xcd, 2}, {0xce, 4}, {0xcf, 8}, {0xd0, 1}, {0xd1, 2}, {0xd2, 4}, {0xd3, 8}}
	for _, cd := range codes {
		bits := uint(8 * cd.k)
		all := ^uint64(0) >> (64 - bits)
		vals := []uint64{0, 1, 0x7f, 0x80, all >> 1, all>>1 + 1, all, all - 1, r.U64() & all, r.U64() & all}
		if cd.k >= 2 {
			vals = append(vals, 0xff, 0x100, 0x101, 0xffff&all, 0x8000)
		}
		if cd.k >= 4 {
			vals = append(vals, 0x10000, 0x10001, 0x1ffff, 0xffff0000, 0x80000000, 0xffffffff&all)
		}
		if cd.k == 8 {
			vals = append(vals, 1<<32, 1<<32+5, 1<<48+0x1234, 0xffffffff00000000, 0xffffffffffff0001)
		}
		for _, v := range vals {
			out = append(out, tdTok{append([]byte{cd.c}, tdBE(v, cd.k)...), fmt.Sprintf("%02x", cd.c)})
		}
	}
	return out
}

func tdPayload(r *rng.R, n int) []byte {
	b := make([]byte, n)
	switch r.Intn(3) {
	case 0: // printable
		for i := range b {
			b[i] = byte('a' + r.Intn(26))
		}
	case 1: // any byte (not UTF-8, NUL, quotes)
		copy(b, r.Bytes(n))
	default:
		for i := range b {
			b[i] = rng.Pick(r, []byte{0, '"', 0x7f, 0x80, 0xff, 'x', ' '})
		}
	}
	return b
}

// every string / byte-string form: nil, fixstr, str8/16/32, bin8/16/32, lengths on the header boundaries
func tdStrToks(r *rng.R) []tdTok {
	out := []tdTok{{[]byte{0xc0}, "nil"}}
	for _, n := range []int{0, 1, 5, 31} {
		out = append(out, tdTok{append([]byte{byte(0xa0 + n)}, tdPayload(r, n)...), "fixstr"})
	}
	for _, n := range []int{0, 1, 7, 32, 255} {
		out = append(out, tdTok{tdCat([]byte{0xd9, byte(n)}, tdPayload(r, n)), "str8"}, tdTok{tdCat([]byte{0xc4, byte(n)}, tdPayload(r, n)), "bin8"})
	}
	for _, n := range []int{0, 3, 256, 300} {
		out = append(out, tdTok{tdCat([]byte{0xda}, tdBE(uint64(n), 2), tdPayload(r, n)), "str16"}, tdTok{tdCat([]byte{0xc5}, tdBE(uint64(n), 2), tdPayload(r, n)), "bin16"})
	}
	for _, n := range []int{0, 2, 40} {
		out = append(out, tdTok{tdCat([]byte{0xdb}, tdBE(uint64(n), 4), tdPayload(r, n)), "str32"}, tdTok{tdCat([]byte{0xc6}, tdBE(uint64(n), 4), tdPayload(r, n)), "bin32"})
	}
	// magnitudes with leading zero bytes (GoogleUserID), one value in several containers
	out = append(out, tdTok{[]byte{0xc4, 3, 0, 0, 7}, "bin8"}, tdTok{[]byte{0xa3, 0, 0, 7}, "fixstr"}, tdTok{[]byte{0xc4, 1, 7}, "bin8"}, tdTok{[]byte{0xd9, 9, 1, 2, 3, 4, 5, 6, 7, 8, 9}, "str8"},
		tdTok{[]byte{0xc4, 1, 0}, "bin8"}, tdTok{[]byte{0xc4, 2, 0, 0}, "bin8"})
	return out
}

// values of another family, reserved codes, truncated payloads
func tdWrongToks() []tdTok {
	return []tdTok{
		{[]byte{0xc2}, "false"}, {[]byte{0xc3}, "true"}, {[]byte{0xc1}, "c1"},
		{[]byte{0xca, 0x3f, 0x80, 0, 0}, "float32"}, {[]byte{0xcb, 0x3f, 0xf0, 0, 0, 0, 0, 0, 0}, "float64"},
		{[]byte{0xd4, 1, 0}, "fixext1"}, {[]byte{0xd6, 0xff, 0, 0, 0, 1}, "timestamp"}, {[]byte{0xc7, 1, 5, 9}, "ext8"},
		{[]byte{0x90}, "array0"}, {[]byte{0x91, 0x01}, "array1"}, {[]byte{0x92, 0x01, 0x02}, "array2"}, {[]byte{0xdc, 0, 1, 0x01}, "array16"},
		{[]byte{0x80}, "map0"}, {[]byte{0x81, 0xa1, 'a', 0x01}, "map1"}, {[]byte{0xde, 0, 0}, "map16"},
		{[]byte{0xcc}, "cut"}, {[]byte{0xcd, 1}, "cut"}, {[]byte{0xcf, 1, 2, 3, 4, 5, 6, 7}, "cut"}, {[]byte{0xd3, 1, 2, 3}, "cut"}, {[]byte{0xd0}, "cut"},
		{[]byte{0xa3, 'a', 'b'}, "cut"}, {[]byte{0xd9}, "cut"}, {[]byte{0xd9, 5, 'a'}, "cut"}, {[]byte{0xc4, 2, 1}, "cut"}, {[]byte{0xda, 0}, "cut"}, {[]byte{0xc6, 0, 0, 0}, "cut"},
		{[]byte{0xdb, 0xff, 0xff, 0xff, 0xff, 'a'}, "cut"}, {[]byte{0xc5, 0xff, 0xff}, "cut"},
	}
}

func tdArrHdr(form int, n int) []byte {
	switch form {
	case 1:
		return append([]byte{0xdc}, tdBE(uint64(n), 2)...)
	case 2:
		return append([]byte{0xdd}, tdBE(uint64(n), 4)...)
	}
	return []byte{byte(0x90 + n)}
}

func tdMapHdr(form int, n int) []byte {
	switch form {
	case 1:
		return append([]byte{0xde}, tdBE(uint64(n), 2)...)
	case 2:
		return append([]byte{0xdf}, tdBE(uint64(n), 4)...)
	}
	return []byte{byte(0x80 + n)}
}

func tdKey(r *rng.R, name string) []byte {
	n := len(name)
	switch r.Intn(5) {
	case 0:
		return tdCat([]byte{0xd9, byte(n)}, []byte(name))
	case 1:
		return tdCat([]byte{0xc4, byte(n)}, []byte(name))
	case 2:
		return tdCat([]byte{0xda}, tdBE(uint64(n), 2), []byte(name))
	}
	return tdCat([]byte{byte(0xa0 + n)}, []byte(name))
}

func genTypedBodies(c *ctx, st *cs.Stream) {
	// an independent generator: the cases of the other C11 streams do not move
	r := rng.New(c.set.Seed ^ hashStr("C11/typed-bodies"))
	ints, strs, wrong := tdIntToks(r), tdStrToks(r), tdWrongToks()
	toksFor := func(kind byte) []tdTok {
		if kind == 's' {
			return strs
		}
		return ints
	}
	canon := func(kind byte) []byte {
		switch kind {
		case 's':
			return []byte{0xa2, 'o', 'k'}
		case 'i':
			return []byte{0xd0, 0xfb}
		}
		return []byte{0x2a}
	}
	seen := map[string]bool{}
	emit := func(t tdType, body []byte, form string) {
		k := string(append([]byte{t.ty}, body...))
		if seen[k] {
			return
		}
		seen[k] = true
		input := tdCat([]byte{0x92}, mpUint(uint64(t.ty)), body)
		var (
			ok     bool
			reenc  []byte
			oracle string
			impl   string
		)
		func() {
			defer func() {
				if p := recover(); p != nil {
					oracle = fmt.Sprintf("panic while decoding %x: %v", input, p)
				}
			}()
			set, err := macaroon.DecodeCaveats(input)
			if err != nil {
				impl = err.Error()
				return
			}
			if len(set.Caveats) != 1 {
				oracle = fmt.Sprintf("DecodeCaveats(%x) gives %d caveats", input, len(set.Caveats))
				return
			}
			if got := uint64(set.Caveats[0].CaveatType()); got != uint64(t.ty) {
				oracle = fmt.Sprintf("DecodeCaveats(%x) gives a caveat of type %d", input, got)
				return
			}
			re, rerr := set.MarshalMsgpack()
			if rerr != nil {
				oracle = fmt.Sprintf("DecodeCaveats(%x) succeeds but the result does not re-encode: %v", input, rerr)
				return
			}
			// the canonical form is a fixed point: it decodes, and re-encodes to itself
			if set2, err2 := macaroon.DecodeCaveats(re); err2 != nil {
				oracle = fmt.Sprintf("re-encoding %x of the accepted input %x does not decode: %v", re, input, err2)
			} else if re2, err3 := set2.MarshalMsgpack(); err3 != nil || string(re2) != string(re) {
				oracle = fmt.Sprintf("re-encoding %x of the accepted input %x is not a fixed point (%x, %v)", re, input, re2, err3)
			}
			ok, reenc = true, re
			impl = fmt.Sprintf("%x", re[:imin(len(re), 48)])
		}()
		st.Add(&cs.Case{Coq: coqw.App("KDecBody", coqw.N(uint64(t.ty)), coqw.Packed(body), coqw.Bool(ok), coqw.Packed(reenc)),
			Desc:  map[string]any{"op": "typed decode of one caveat body", "caveat": t.name, "type": t.ty, "form": form, "body_hex": fmt.Sprintf("%x", body[:imin(len(body), 64)]), "body_len": len(body), "ok": ok, "impl": impl},
			Class: "decbody/" + t.name + "/" + form, Nontrivial: ok, OracleFail: oracle})
	}
	prefixes := func(t tdType, body []byte) {
		for i := 0; i < len(body); i++ {
			emit(t, body[:i], "truncated")
		}
		emit(t, tdCat(body, r.Bytes(1+r.Intn(3))), "trailing")
	}
	for _, d := range tdDocumented {
		for _, t := range tdTypes {
			if t.ty == d.ty {
				emit(t, d.body, "documented")
			}
		}
	}
	nRand := 60
	if c.thorough {
		nRand = 1500
	}
	for _, t := range tdTypes {
		switch t.shape {
		case "uint":
			for _, tk := range ints {
				emit(t, tk.b, "int-"+tk.form)
			}
			for _, tk := range strs[:6] {
				emit(t, tk.b, "wrong-str")
			}
			for _, tk := range wrong {
				emit(t, tk.b, "wrong-"+tk.form)
			}
			prefixes(t, []byte{0xcf, 1, 2, 3, 4, 5, 6, 7, 8})
			prefixes(t, []byte{0xd2, 0xff, 2, 3, 4})
		case "str", "bytes", "big":
			for _, tk := range strs {
				emit(t, tk.b, "str-"+tk.form)
			}
			for _, tk := range ints[:12] {
				emit(t, tk.b, "wrong-int")
			}
			for _, tk := range wrong {
				emit(t, tk.b, "wrong-"+tk.form)
			}
			prefixes(t, []byte{0xdb, 0, 0, 0, 3, 'a', 'b', 'c'})
			prefixes(t, []byte{0xc5, 0, 2, 0xff, 0x00})
			if t.shape == "big" {
				// magnitudes beyond 64 bits, in every container
				for _, n := range []int{8, 9, 16, 33} {
					mag := r.Bytes(n)
					mag[0] |= 0x80
					emit(t, tdCat([]byte{0xc4, byte(n)}, mag), "big-bin8")
					emit(t, tdCat([]byte{0xd9, byte(n)}, mag), "big-str8")
					emit(t, tdCat([]byte{0xc5, 0, byte(n + 2), 0, 0}, mag), "big-leading-zeros")
				}
			}
		case "struct":
			k := len(t.fields)
			emit(t, []byte{0xc0}, "nil")
			for f := 0; f < 3; f++ {
				emit(t, tdArrHdr(f, 0), "array-empty")
				emit(t, tdMapHdr(f, 0), "map-empty")
			}
			full := func(f int, repl int, tk []byte) []byte {
				b := tdArrHdr(f, k)
				for i, fd := range t.fields {
					if i == repl {
						b = append(b, tk...)
					} else {
						b = append(b, canon(fd.kind)...)
					}
				}
				return b
			}
			for f := 0; f < 3; f++ {
				emit(t, full(f, -1, nil), "array-canonical-fields")
			}
			// each field in every form, the others canonical
			for i, fd := range t.fields {
				for _, tk := range toksFor(fd.kind) {
					emit(t, full(0, i, tk.b), fmt.Sprintf("array-field%d-%s", i, tk.form))
				}
				other := strs[:8]
				if fd.kind == 's' {
					other = ints[:12]
				}
				for _, tk := range other {
					emit(t, full(0, i, tk.b), fmt.Sprintf("array-field%d-wrong-family", i))
				}
				for _, tk := range wrong {
					emit(t, full(0, i, tk.b), fmt.Sprintf("array-field%d-wrong-%s", i, tk.form))
				}
			}
			// random combinations of forms, all three array headers
			for n := 0; n < nRand && k > 0; n++ {
				b := tdArrHdr(rng.Pick(r, []int{0, 0, 0, 1, 2}), k)
				for _, fd := range t.fields {
					b = append(b, rng.Pick(r, toksFor(fd.kind)).b...)
				}
				emit(t, b, "array-random-forms")
			}
			// arrays shorter and longer than the field count (v5.3.5 refuses them all, except the empty one)
			for n := 1; n <= k+3; n++ {
				if n == k {
					continue
				}
				for f := 0; f < 3; f++ {
					b := tdArrHdr(f, n)
					for i := 0; i < n; i++ {
						if i < k {
							b = append(b, canon(t.fields[i].kind)...)
						} else {
							b = append(b, randMsgpack(r, 1)...)
						}
					}
					form := "array-long"
					if n < k {
						form = "array-short"
					}
					emit(t, b, form)
				}
			}
			emit(t, []byte{0xdc, 0xff, 0xff, 0x01}, "array-huge-count")
			emit(t, []byte{0xdd, 0x7f, 0xff, 0xff, 0xff}, "array-huge-count")
			// map-encoded: known keys in any order and container, duplicates, unknown keys, missing fields, bad keys
			nMap := nRand
			for n := 0; n < nMap; n++ {
				cnt := r.Intn(k + 3)
				var ents [][]byte
				for e := 0; e < cnt; e++ {
					switch {
					case k > 0 && !r.P(1, 4):
						fd := rng.Pick(r, t.fields)
						val := rng.Pick(r, toksFor(fd.kind)).b
						if r.P(1, 12) {
							val = rng.Pick(r, wrong).b
						}
						ents = append(ents, tdCat(tdKey(r, fd.name), val))
					case r.P(1, 6):
						ents = append(ents, tdCat([]byte{0xc0}, randMsgpack(r, 2))) // nil key = "" = unknown
					case r.P(1, 8):
						ents = append(ents, tdCat([]byte{byte(r.Intn(100))}, randMsgpack(r, 1))) // integer key: refused
					default:
						name := rng.Pick(r, []string{"id", "Id", "IDX", "mask", "", "NotBefore ", "not_before", "Organization\x00", "x"})
						ents = append(ents, tdCat(tdKey(r, name), randMsgpack(r, 2)))
					}
				}
				b := tdMapHdr(rng.Pick(r, []int{0, 0, 0, 1, 2}), cnt)
				if r.P(1, 15) {
					b = tdMapHdr(r.Intn(3), cnt+1+r.Intn(2)) // announces more than follow
				}
				emit(t, tdCat(append([][]byte{b}, ents...)...), "map")
			}
			// every field once, in declaration order and reversed
			{
				b, rev := tdMapHdr(0, k), tdMapHdr(0, k)
				for i := range t.fields {
					fd, fr := t.fields[i], t.fields[k-1-i]
					b = tdCat(b, []byte{byte(0xa0 + len(fd.name))}, []byte(fd.name), canon(fd.kind))
					rev = tdCat(rev, []byte{byte(0xa0 + len(fr.name))}, []byte(fr.name), canon(fr.kind))
				}
				emit(t, b, "map-all-fields")
				emit(t, rev, "map-all-fields")
				prefixes(t, b)
			}
			emit(t, []byte{0xde, 0xff, 0xff, 0xa1, 'x', 0x01}, "map-huge-count")
			emit(t, []byte{0xdf, 0x7f, 0xff, 0xff, 0xff}, "map-huge-count")
			for _, tk := range wrong {
				if !strings.HasPrefix(tk.form, "array") && !strings.HasPrefix(tk.form, "map") {
					emit(t, tk.b, "wrong-"+tk.form)
				}
			}
			for _, tk := range ints[:10] {
				emit(t, tk.b, "wrong-int")
			}
			for _, tk := range strs[:6] {
				emit(t, tk.b, "wrong-str")
			}
			// truncations of a wide, valid array form
			if k > 0 {
				b := tdArrHdr(1, k)
				for _, fd := range t.fields {
					switch fd.kind {
					case 's':
						b = append(b, 0xda, 0, 2, 'h', 'i')
					case 'i':
						b = append(b, 0xd3, 0xff, 0xff, 0xff, 0xff, 0xff, 0xff, 0xff, 0xfe)
					default:
						b = append(b, 0xcf, 0, 0, 0, 0, 0, 0, 1, 2)
					}
				}
				prefixes(t, b)
			}
		}
		emit(t, nil, "empty")
	}
	c.set.Notes["typed_bodies"] = map[string]any{"cases": len(seen), "types": len(tdTypes)}
}
