//go:build verif

package main

// Oracles about HISTORY and SCALE (seeding round 6): the same answers on the n-th use of an object, after unrelated activity
// of the process, and for large inputs, as on a first, small use.

import (
	"bytes"
	"context"
	"encoding/json"
	"fmt"
	"time"

	"github.com/superfly/macaroon"
	"github.com/superfly/macaroon/bundle"
	"github.com/superfly/macaroon/flyio"
	"github.com/superfly/macaroon/resset"
)

func guard(fail *string, what *string) {
	if p := recover(); p != nil {
		*fail = fmt.Sprintf("panic on %s: %v", *what, p)
	}
}

// failedBatchOracle (C02): an Add that is refused as a whole leaves nothing behind: the caveats of the refused batch can be
// added afterwards, one call or several later, and then restrict the token.
func failedBatchOracle() (fail string) {
	what := "Add after a refused Add"
	defer guard(&fail, &what)
	key, ka := macaroon.NewSigningKey(), macaroon.NewEncryptionKey()
	for round := 0; round < 3; round++ {
		m, _ := macaroon.New([]byte("k"), "https://perm.batch.test", key)
		m.Add(&flyio.Organization{ID: 1, Mask: resset.ActionAll})
		if err := m.Add3P(ka, "https://tp.batch.test"); err != nil {
			return "setup: " + err.Error()
		}
		expired := &macaroon.ValidityWindow{NotBefore: 1, NotAfter: 2}
		rd := resset.ActionRead
		dup, _ := macaroon.NewCaveat3P(ka, "https://tp.batch.test")
		batch := [][]macaroon.Caveat{{dup, expired}, {&rd, dup, expired}, {dup, &rd, expired}}[round]
		before := len(m.UnsafeCaveats.Caveats)
		if err := m.Add(batch...); err == nil {
			return "setup: a second third-party caveat for one location was accepted"
		}
		mid := len(m.UnsafeCaveats.Caveats)
		for k := 0; k <= round; k++ { // the refused caveats again, now without the offending one, possibly several times
			if err := m.Add(expired); err != nil {
				return "Add(expired window) after a refused batch fails: " + err.Error()
			}
		}
		has := false
		for _, c := range m.UnsafeCaveats.Caveats {
			if vw, ok := c.(*macaroon.ValidityWindow); ok && vw.NotAfter == 2 {
				has = true
			}
		}
		if !has {
			return fmt.Sprintf("Add returned nil but the token does not carry the caveat (it was part of a batch refused earlier on the same object; %d caveats before the batch, %d after it, %d now)", before, mid, len(m.UnsafeCaveats.Caveats))
		}
		ticket, _ := m.ThirdPartyTicket("https://tp.batch.test")
		_, dm, err := macaroon.DischargeTicket(ka, "https://tp.batch.test", ticket)
		if err != nil {
			return "setup: " + err.Error()
		}
		enc, _ := m.Encode()
		denc, _ := dm.Encode()
		pm, _ := macaroon.Decode(enc)
		set, err := pm.Verify(key, [][]byte{denc}, nil)
		if err != nil {
			return "token attenuated after a refused batch is rejected: " + err.Error()
		}
		one := uint64(1)
		if set.Validate(&flyio.Access{OrgID: &one, Action: resset.ActionRead}) == nil {
			return "a token attenuated with an expired window (after a refused batch) still clears a request"
		}
	}
	return ""
}

// sameLengthMutationOracle (C03): clearing looks at the caveats the set holds NOW: a set that was validated before and whose
// members were then replaced (same length), or that was re-filled from JSON, decides by its current members.
func sameLengthMutationOracle() (fail string) {
	what := "re-validation of a changed set"
	defer guard(&fail, &what)
	one := uint64(1)
	acc := &flyio.Access{OrgID: &one, Action: resset.ActionRead}
	permit := func() macaroon.Caveat { return &flyio.Organization{ID: 1, Mask: resset.ActionAll} }
	deny := func() macaroon.Caveat { return &macaroon.ValidityWindow{NotBefore: 1, NotAfter: 2} }
	for _, n := range []int{1, 2, 5} {
		cs := macaroon.NewCaveatSet()
		for i := 0; i < n; i++ {
			cs.Caveats = append(cs.Caveats, permit())
		}
		for k := 0; k < 3; k++ {
			if err := cs.Validate(acc); err != nil {
				return "setup: permitting set denies: " + err.Error()
			}
		}
		cs.Caveats[n-1] = deny()
		if cs.Validate(acc) == nil {
			return fmt.Sprintf("a set of %d caveats validated before, whose last member was replaced by an expired window, still clears", n)
		}
		cs.Caveats[n-1] = &macaroon.UnregisteredCaveat{Type: 1 << 40, RawMsgpack: []byte{0x01}}
		if cs.Validate(acc) == nil {
			return "a set validated before, one member replaced by a caveat of unknown type, still clears"
		}
		cs.Caveats = append(cs.Caveats[:n-1], permit())
		if err := cs.Validate(acc); err != nil {
			return "a set whose denying member was replaced by a permitting one still denies: " + err.Error()
		}
		cs.Caveats = append(cs.Caveats[:n-1], deny())
		if cs.Validate(acc) == nil {
			return "a set re-sliced to the same length with a denying last member still clears"
		}
		// the same variable re-used for the next token's equally long list
		js, _ := json.Marshal(macaroon.NewCaveatSet(func() []macaroon.Caveat {
			o := []macaroon.Caveat{}
			for i := 0; i < n; i++ {
				o = append(o, deny())
			}
			return o
		}()...))
		good := macaroon.NewCaveatSet()
		for i := 0; i < n; i++ {
			good.Caveats = append(good.Caveats, permit())
		}
		if good.Validate(acc) != nil {
			return "setup"
		}
		if err := json.Unmarshal(js, good); err != nil {
			return "setup: " + err.Error()
		}
		if len(good.Caveats) == n && good.Validate(acc) == nil {
			return "a CaveatSet variable re-filled from JSON with denying caveats (same count) still clears"
		}
	}
	return ""
}

// caveatObjectReuseOracle (C04, C05): one prepared third-party caveat object added to several tokens (documented use; also what
// Bundle.Attenuate does): every one of the tokens accepts the discharge minted from its ticket and none accepts a token minted
// for the ticket under a made-up (all-zero, empty, random) key.
func caveatObjectReuseOracle() (fail string) {
	what := "a third-party caveat object added to several tokens"
	defer guard(&fail, &what)
	key, ka := macaroon.NewSigningKey(), macaroon.NewEncryptionKey()
	loc, tp := "https://perm.reuse.test", "https://tp.reuse.test"
	c3, err := macaroon.NewCaveat3P(ka, tp, &macaroon.ValidityWindow{NotBefore: 0, NotAfter: 1 << 40})
	if err != nil {
		return "setup: " + err.Error()
	}
	for i := 0; i < 6; i++ {
		m, _ := macaroon.New([]byte("k"), loc, key)
		m.Add(&flyio.Organization{ID: uint64(i + 1), Mask: resset.ActionAll})
		if err := m.Add(c3); err != nil {
			return fmt.Sprintf("use %d of one caveat object: Add fails: %v", i+1, err)
		}
		enc, _ := m.Encode()
		pm, _ := macaroon.Decode(enc)
		ticket, err := pm.ThirdPartyTicket(tp)
		if err != nil {
			return "setup: " + err.Error()
		}
		_, dm, err := macaroon.DischargeTicket(ka, tp, ticket)
		if err != nil {
			return fmt.Sprintf("use %d of one caveat object: the third party cannot open the ticket: %v", i+1, err)
		}
		denc, _ := dm.Encode()
		if _, err := pm.Verify(key, [][]byte{denc}, nil); err != nil {
			return fmt.Sprintf("the %d. token a prepared third-party caveat object was added to rejects the genuine discharge: %v", i+1, err)
		}
		for _, fk := range []macaroon.SigningKey{make(macaroon.SigningKey, 32), {}, macaroon.NewSigningKey()} {
			fm, err := macaroon.New(ticket, tp, fk)
			if err != nil {
				continue
			}
			fenc, _ := fm.Encode()
			pm2, _ := macaroon.Decode(enc)
			if _, err := pm2.Verify(key, [][]byte{fenc}, nil); err == nil {
				return fmt.Sprintf("the %d. token a prepared third-party caveat object was added to accepts a token minted for its ticket under a made-up key of %d bytes", i+1, len(fk))
			}
		}
	}
	return ""
}

// repeatedDischargeNonceOracle (C05): one process verifies, with the byte-slice API, several presentations whose non-proof
// discharges share a nonce but differ in content (further attenuated; bound to another attenuation of the token): each is
// accepted and yields its own caveats.
func repeatedDischargeNonceOracle() (fail string) {
	what := "repeated presentations of one discharge nonce"
	defer guard(&fail, &what)
	key, ka := macaroon.NewSigningKey(), macaroon.NewEncryptionKey()
	loc, tp := "https://perm.rep.test", "https://tp.rep.test"
	m, _ := macaroon.New([]byte("k"), loc, key)
	m.Add(&flyio.Organization{ID: 1, Mask: resset.ActionAll})
	m.Add3P(ka, tp)
	ticket, _ := m.ThirdPartyTicket(tp)
	_, d0, err := macaroon.VerifDischargeTicket(ka, tp, ticket, false)
	if err != nil {
		return "setup: " + err.Error()
	}
	menc, _ := m.Encode()
	verify := func(perm []byte, d *macaroon.Macaroon) (int, error) {
		denc, _ := d.Encode()
		pm, err := macaroon.Decode(perm)
		if err != nil {
			return 0, err
		}
		set, err := pm.Verify(key, [][]byte{denc}, nil)
		if err != nil {
			return 0, err
		}
		return len(set.Caveats), nil
	}
	n0, err := verify(menc, d0)
	if err != nil {
		return "setup: genuine non-proof discharge rejected: " + err.Error()
	}
	for k := 1; k <= 3; k++ {
		dk, _ := d0.Clone()
		for j := 0; j < k; j++ {
			dk.Add(&macaroon.ValidityWindow{NotBefore: int64(j), NotAfter: 1 << 40})
		}
		n, err := verify(menc, dk)
		if err != nil {
			return fmt.Sprintf("presentation %d of a discharge nonce (the discharge attenuated by %d caveats) is rejected: %v", k+1, k, err)
		}
		if n != n0+k {
			return fmt.Sprintf("presentation %d of a discharge nonce: the discharge carries %d more caveats, verification yields %d instead of %d", k+1, k, n, n0+k)
		}
	}
	for k := 0; k < 3; k++ {
		child, _ := macaroon.Decode(menc)
		child.Add(&macaroon.ValidityWindow{NotBefore: int64(100 + k), NotAfter: 1 << 40})
		cenc, _ := child.Encode()
		db, _ := d0.Clone()
		if err := db.Bind(cenc); err != nil {
			return "setup: bind: " + err.Error()
		}
		if _, err := verify(cenc, db); err != nil {
			return fmt.Sprintf("a copy of an already presented discharge, bound to attenuation %d of the token and presented with it, is rejected: %v", k+1, err)
		}
	}
	return ""
}

// unrelatedActivityOracle (C08, C11): what a caller holds - a finalised proof object, the bytes an encoding returned - is not
// changed by anything the process does afterwards (minting, sealing, encoding other tokens of any size).
func unrelatedActivityOracle(large bool) (fail string) {
	what := "unrelated activity after a token was finalised / encoded"
	defer guard(&fail, &what)
	key, ka := macaroon.NewSigningKey(), macaroon.NewEncryptionKey()
	loc, tp := "https://perm.act.test", "https://tp.act.test"
	perm, _ := macaroon.New([]byte("k"), loc, key)
	perm.Add(&flyio.Organization{ID: 1, Mask: resset.ActionAll})
	if large { // an encoding of several KiB
		apps := resset.ResourceSet[uint64, resset.Action]{}
		for i := uint64(1); i <= 900; i++ {
			apps[i] = resset.ActionAll
		}
		perm.Add(&flyio.Apps{Apps: apps})
	}
	perm.Add3P(ka, tp)
	ticket, _ := perm.ThirdPartyTicket(tp)
	_, proof, err := macaroon.DischargeTicket(ka, tp, ticket)
	if err != nil {
		return "setup: " + err.Error()
	}
	penc, _ := perm.Encode()
	pkeep := append([]byte{}, penc...)
	denc, _ := proof.Encode()
	dkeep := append([]byte{}, denc...)
	str1, _ := proof.String()
	check := func(after string) string {
		if !bytes.Equal(penc, pkeep) {
			return "the bytes Encode returned for a token changed " + after
		}
		if !bytes.Equal(denc, dkeep) {
			return "the bytes Encode returned for a proof changed " + after
		}
		again, _ := proof.Encode()
		if !bytes.Equal(again, dkeep) {
			return "re-encoding a finalised proof gives different bytes " + after
		}
		cl, err := proof.Clone()
		if err != nil {
			return "Clone of a finalised proof fails " + after + ": " + err.Error()
		}
		if cenc, _ := cl.Encode(); !bytes.Equal(cenc, dkeep) {
			return "the Clone of a finalised proof encodes differently " + after
		}
		if s, _ := proof.String(); s != str1 {
			return "a finalised proof prints differently " + after
		}
		if proof.Add(&macaroon.ValidityWindow{NotBefore: 1, NotAfter: 2}) == nil {
			return "a finalised proof accepts a caveat " + after
		}
		pm, _ := macaroon.Decode(pkeep)
		if _, err := pm.Verify(key, [][]byte{again}, nil); err != nil {
			return "a finalised proof, re-encoded " + after + ", no longer verifies: " + err.Error()
		}
		return ""
	}
	if f := check("immediately"); f != "" {
		return f
	}
	for round := 1; round <= 3; round++ {
		for i := 0; i < 300; i++ {
			o, _ := macaroon.New([]byte("other"), loc, macaroon.NewSigningKey())
			if i%50 == 0 {
				o.Add3P(macaroon.NewEncryptionKey(), tp)
			}
			if large && i%100 == 0 {
				apps := resset.ResourceSet[uint64, resset.Action]{}
				for j := uint64(1); j <= 1100; j++ {
					apps[j+uint64(i)] = resset.ActionRead
				}
				o.Add(&flyio.Apps{Apps: apps})
			}
			o.Encode()
		}
		if f := check(fmt.Sprintf("after the process minted and encoded %d other tokens", 300*round)); f != "" {
			return f
		}
	}
	return ""
}

// callerSliceOracle (C11): a caveat set built from a caller's list does not change when the caller re-uses that list: what
// was signed stays what is encoded and cleared.
func callerSliceOracle() (fail string) {
	what := "NewCaveatSet and the caller's list"
	defer guard(&fail, &what)
	key := macaroon.NewSigningKey()
	rd, wr := resset.ActionRead, resset.ActionWrite
	list := make([]macaroon.Caveat, 0, 8)
	list = append(list, &flyio.Organization{ID: 1, Mask: resset.ActionAll}, &rd)
	set := macaroon.NewCaveatSet(list...)
	before, _ := set.MarshalMsgpack()
	list[1] = &wr
	list = append(list, &macaroon.ValidityWindow{NotBefore: 1, NotAfter: 2})
	if after, _ := set.MarshalMsgpack(); !bytes.Equal(before, after) {
		return fmt.Sprintf("a set made by NewCaveatSet(list...) encodes differently after the caller changed its list: %x -> %x", before, after)
	}
	inner := []macaroon.Caveat{&flyio.Apps{Apps: resset.ResourceSet[uint64, resset.Action]{7: resset.ActionRead}}}
	m, _ := macaroon.New([]byte("k"), "https://perm.slice.test", key)
	if err := m.Add(&resset.IfPresent{Ifs: macaroon.NewCaveatSet(inner...), Else: resset.ActionRead}); err != nil {
		return "setup: " + err.Error()
	}
	inner[0] = &flyio.Apps{Apps: resset.ResourceSet[uint64, resset.Action]{7: resset.ActionAll}} // the scratch list, re-used for the next token
	enc, _ := m.Encode()
	pm, err := macaroon.Decode(enc)
	if err != nil {
		return "setup: " + err.Error()
	}
	if _, err := pm.Verify(key, nil, nil); err != nil {
		return "a token whose conditional was built from a list the caller re-used afterwards no longer verifies: " + err.Error()
	}
	a := make([]macaroon.Caveat, 1, 4)
	a[0] = &rd
	s1 := macaroon.NewCaveatSet(append(a, &flyio.Organization{ID: 1, Mask: resset.ActionRead})...)
	s2 := macaroon.NewCaveatSet(append(a, &flyio.Organization{ID: 1, Mask: resset.ActionAll})...)
	e1, _ := s1.MarshalMsgpack()
	e2, _ := s2.MarshalMsgpack()
	if bytes.Equal(e1, e2) {
		return "two sets built from one list with spare capacity are the same set"
	}
	return ""
}

// cacheVsPlainOnAliases (C14): bundles that share token objects (Select) and are verified / attenuated in turn: for every
// one of them verification through the cache and directly agree, before and after.
func cacheVsPlainOnAliases() (fail string) {
	what := "cached and direct verification of bundles sharing token objects"
	defer guard(&fail, &what)
	key := macaroon.NewSigningKey()
	plain := bundle.WithKey([]byte("k"), key, nil)
	cache := bundle.NewVerificationCache(plain, time.Hour, 64)
	m, _ := macaroon.New([]byte("k"), bLocs[0], key)
	m.Add(&flyio.Organization{ID: 1, Mask: resset.ActionAll})
	hdr, _ := m.String()
	sets := func(b *bundle.Bundle, v bundle.Verifier) string {
		cp := b.Select(bundle.KeepAll) // same token objects, own slice: verification replaces entries of the copy only
		ss, err := cp.Verify(context.Background(), v)
		if err != nil {
			return "rejected"
		}
		out := cp.Header()
		for _, s := range ss {
			e, _ := s.MarshalMsgpack()
			out += fmt.Sprintf(" %x", e)
		}
		return out
	}
	for variant := 0; variant < 2; variant++ {
		A, _ := bundle.ParseBundle(bLocs[0], hdr)
		if variant == 1 {
			A.Verify(context.Background(), cache)
		}
		B := A.Select(bundle.KeepAll)
		if _, err := A.Verify(context.Background(), cache); err != nil {
			return "setup: " + err.Error()
		}
		if err := A.Attenuate(&macaroon.ValidityWindow{NotBefore: 1, NotAfter: 2}); err != nil {
			return "setup: " + err.Error()
		}
		for name, b := range map[string]*bundle.Bundle{"the bundle derived before Verify/Attenuate": B, "the attenuated bundle": A} {
			for k := 0; k < 2; k++ {
				viaCache, direct := sets(b, cache), sets(b, plain)
				if viaCache != direct {
					return fmt.Sprintf("%s (variant %d): through the cache %.90q, directly %.90q", name, variant, viaCache, direct)
				}
			}
			fresh, _ := bundle.ParseBundle(bLocs[0], b.Header())
			if f, d := sets(fresh, plain), sets(b, plain); f != d {
				return fmt.Sprintf("%s (variant %d) verifies to %.90q, a fresh parse of its own header to %.90q", name, variant, d, f)
			}
		}
	}
	return ""
}
