//go:build verif

package main

// Oracles about HISTORY and SCALE (seeding round 6): the same answers on the n-th use of an object, after unrelated activity
// of the process, and for large inputs, as on a first, small use.

import (
	"bytes"
	"context"
	"encoding/json"
	"fmt"
	"strings"
	"time"

	"github.com/superfly/macaroon"
	"github.com/superfly/macaroon/auth"
	"github.com/superfly/macaroon/bundle"
	"github.com/superfly/macaroon/flyio"
	"github.com/superfly/macaroon/resset"
	"github.com/vmihailenco/msgpack/v5"
)

func guard(fail *string, what *string) {
	if p := recover(); p != nil {
		*fail = fmt.Sprintf("panic on %s: %v", *what, p)
	}
}

// failedBatchOracle (C02): an Add that is refused as a whole leaves nothing behind: the caveats of the refused batch can be
// added afterwards, one call or several later, and then restrict the token.
func failedBatchOracle() (fail string) {
	what := "Add after a refused Add"
	defer guard(&fail, &what)
	key, ka := macaroon.NewSigningKey(), macaroon.NewEncryptionKey()
	for round := 0; round < 3; round++ {
		m, _ := macaroon.New([]byte("k"), "https://perm.batch.test", key)
		m.Add(&flyio.Organization{ID: 1, Mask: resset.ActionAll})
		if err := m.Add3P(ka, "https://tp.batch.test"); err != nil {
			return "setup: " + err.Error()
		}
		expired := &macaroon.ValidityWindow{NotBefore: 1, NotAfter: 2}
		rd := resset.ActionRead
		dup, _ := macaroon.NewCaveat3P(ka, "https://tp.batch.test")
		batch := [][]macaroon.Caveat{{dup, expired}, {&rd, dup, expired}, {dup, &rd, expired}}[round]
		before := len(m.UnsafeCaveats.Caveats)
		if err := m.Add(batch...); err == nil {
			return "setup: a second third-party caveat for one location was accepted"
		}
		mid := len(m.UnsafeCaveats.Caveats)
		for k := 0; k <= round; k++ { // the refused caveats again, now without the offending one, possibly several times
			if err := m.Add(expired); err != nil {
				return "Add(expired window) after a refused batch fails: " + err.Error()
			}
		}
		has := false
		for _, c := range m.UnsafeCaveats.Caveats {
			if vw, ok := c.(*macaroon.ValidityWindow); ok && vw.NotAfter == 2 {
				has = true
			}
		}
		if !has {
			return fmt.Sprintf("Add returned nil but the token does not carry the caveat (it was part of a batch refused earlier on the same object; %d caveats before the batch, %d after it, %d now)", before, mid, len(m.UnsafeCaveats.Caveats))
		}
		ticket, _ := m.ThirdPartyTicket("https://tp.batch.test")
		_, dm, err := macaroon.DischargeTicket(ka, "https://tp.batch.test", ticket)
		if err != nil {
			return "setup: " + err.Error()
		}
		enc, _ := m.Encode()
		denc, _ := dm.Encode()
		pm, _ := macaroon.Decode(enc)
		set, err := pm.Verify(key, [][]byte{denc}, nil)
		if err != nil {
			return "token attenuated after a refused batch is rejected: " + err.Error()
		}
		one := uint64(1)
		if set.Validate(&flyio.Access{OrgID: &one, Action: resset.ActionRead}) == nil {
			return "a token attenuated with an expired window (after a refused batch) still clears a request"
		}
	}
	return ""
}

// sameLengthMutationOracle (C03): clearing looks at the caveats the set holds NOW: a set that was validated before and whose
// members were then replaced (same length), or that was re-filled from JSON, decides by its current members.
func sameLengthMutationOracle() (fail string) {
	what := "re-validation of a changed set"
	defer guard(&fail, &what)
	one := uint64(1)
	acc := &flyio.Access{OrgID: &one, Action: resset.ActionRead}
	permit := func() macaroon.Caveat { return &flyio.Organization{ID: 1, Mask: resset.ActionAll} }
	deny := func() macaroon.Caveat { return &macaroon.ValidityWindow{NotBefore: 1, NotAfter: 2} }
	for _, n := range []int{1, 2, 5} {
		cs := macaroon.NewCaveatSet()
		for i := 0; i < n; i++ {
			cs.Caveats = append(cs.Caveats, permit())
		}
		for k := 0; k < 3; k++ {
			if err := cs.Validate(acc); err != nil {
				return "setup: permitting set denies: " + err.Error()
			}
		}
		cs.Caveats[n-1] = deny()
		if cs.Validate(acc) == nil {
			return fmt.Sprintf("a set of %d caveats validated before, whose last member was replaced by an expired window, still clears", n)
		}
		cs.Caveats[n-1] = &macaroon.UnregisteredCaveat{Type: 1 << 40, RawMsgpack: []byte{0x01}}
		if cs.Validate(acc) == nil {
			return "a set validated before, one member replaced by a caveat of unknown type, still clears"
		}
		cs.Caveats = append(cs.Caveats[:n-1], permit())
		if err := cs.Validate(acc); err != nil {
			return "a set whose denying member was replaced by a permitting one still denies: " + err.Error()
		}
		cs.Caveats = append(cs.Caveats[:n-1], deny())
		if cs.Validate(acc) == nil {
			return "a set re-sliced to the same length with a denying last member still clears"
		}
		// the same variable re-used for the next token's equally long list
		js, _ := json.Marshal(macaroon.NewCaveatSet(func() []macaroon.Caveat {
			o := []macaroon.Caveat{}
			for i := 0; i < n; i++ {
				o = append(o, deny())
			}
			return o
		}()...))
		good := macaroon.NewCaveatSet()
		for i := 0; i < n; i++ {
			good.Caveats = append(good.Caveats, permit())
		}
		if good.Validate(acc) != nil {
			return "setup"
		}
		if err := json.Unmarshal(js, good); err != nil {
			return "setup: " + err.Error()
		}
		if len(good.Caveats) == n && good.Validate(acc) == nil {
			return "a CaveatSet variable re-filled from JSON with denying caveats (same count) still clears"
		}
	}
	return ""
}

// caveatObjectReuseOracle (C04, C05): one prepared third-party caveat object added to several tokens (documented use; also what
// Bundle.Attenuate does): every one of the tokens accepts the discharge minted from its ticket and none accepts a token minted
// for the ticket under a made-up (all-zero, empty, random) key.
func caveatObjectReuseOracle() (fail string) {
	what := "a third-party caveat object added to several tokens"
	defer guard(&fail, &what)
	key, ka := macaroon.NewSigningKey(), macaroon.NewEncryptionKey()
	loc, tp := "https://perm.reuse.test", "https://tp.reuse.test"
	c3, err := macaroon.NewCaveat3P(ka, tp, &macaroon.ValidityWindow{NotBefore: 0, NotAfter: 1 << 40})
	if err != nil {
		return "setup: " + err.Error()
	}
	for i := 0; i < 6; i++ {
		m, _ := macaroon.New([]byte("k"), loc, key)
		m.Add(&flyio.Organization{ID: uint64(i + 1), Mask: resset.ActionAll})
		if err := m.Add(c3); err != nil {
			return fmt.Sprintf("use %d of one caveat object: Add fails: %v", i+1, err)
		}
		enc, _ := m.Encode()
		pm, _ := macaroon.Decode(enc)
		ticket, err := pm.ThirdPartyTicket(tp)
		if err != nil {
			return "setup: " + err.Error()
		}
		_, dm, err := macaroon.DischargeTicket(ka, tp, ticket)
		if err != nil {
			return fmt.Sprintf("use %d of one caveat object: the third party cannot open the ticket: %v", i+1, err)
		}
		denc, _ := dm.Encode()
		if _, err := pm.Verify(key, [][]byte{denc}, nil); err != nil {
			return fmt.Sprintf("the %d. token a prepared third-party caveat object was added to rejects the genuine discharge: %v", i+1, err)
		}
		for _, fk := range []macaroon.SigningKey{make(macaroon.SigningKey, 32), {}, macaroon.NewSigningKey()} {
			fm, err := macaroon.New(ticket, tp, fk)
			if err != nil {
				continue
			}
			fenc, _ := fm.Encode()
			pm2, _ := macaroon.Decode(enc)
			if _, err := pm2.Verify(key, [][]byte{fenc}, nil); err == nil {
				return fmt.Sprintf("the %d. token a prepared third-party caveat object was added to accepts a token minted for its ticket under a made-up key of %d bytes", i+1, len(fk))
			}
		}
	}
	return ""
}

// repeatedDischargeNonceOracle (C05): one process verifies, with the byte-slice API, several presentations whose non-proof
// discharges share a nonce but differ in content (further attenuated; bound to another attenuation of the token): each is
// accepted and yields its own caveats.
func repeatedDischargeNonceOracle() (fail string) {
	what := "repeated presentations of one discharge nonce"
	defer guard(&fail, &what)
	key, ka := macaroon.NewSigningKey(), macaroon.NewEncryptionKey()
	loc, tp := "https://perm.rep.test", "https://tp.rep.test"
	m, _ := macaroon.New([]byte("k"), loc, key)
	m.Add(&flyio.Organization{ID: 1, Mask: resset.ActionAll})
	m.Add3P(ka, tp)
	ticket, _ := m.ThirdPartyTicket(tp)
	_, d0, err := macaroon.VerifDischargeTicket(ka, tp, ticket, false)
	if err != nil {
		return "setup: " + err.Error()
	}
	menc, _ := m.Encode()
	verify := func(perm []byte, d *macaroon.Macaroon) (int, error) {
		denc, _ := d.Encode()
		pm, err := macaroon.Decode(perm)
		if err != nil {
			return 0, err
		}
		set, err := pm.Verify(key, [][]byte{denc}, nil)
		if err != nil {
			return 0, err
		}
		return len(set.Caveats), nil
	}
	n0, err := verify(menc, d0)
	if err != nil {
		return "setup: genuine non-proof discharge rejected: " + err.Error()
	}
	for k := 1; k <= 3; k++ {
		dk, _ := d0.Clone()
		for j := 0; j < k; j++ {
			dk.Add(&macaroon.ValidityWindow{NotBefore: int64(j), NotAfter: 1 << 40})
		}
		n, err := verify(menc, dk)
		if err != nil {
			return fmt.Sprintf("presentation %d of a discharge nonce (the discharge attenuated by %d caveats) is rejected: %v", k+1, k, err)
		}
		if n != n0+k {
			return fmt.Sprintf("presentation %d of a discharge nonce: the discharge carries %d more caveats, verification yields %d instead of %d", k+1, k, n, n0+k)
		}
	}
	for k := 0; k < 3; k++ {
		child, _ := macaroon.Decode(menc)
		child.Add(&macaroon.ValidityWindow{NotBefore: int64(100 + k), NotAfter: 1 << 40})
		cenc, _ := child.Encode()
		db, _ := d0.Clone()
		if err := db.Bind(cenc); err != nil {
			return "setup: bind: " + err.Error()
		}
		if _, err := verify(cenc, db); err != nil {
			return fmt.Sprintf("a copy of an already presented discharge, bound to attenuation %d of the token and presented with it, is rejected: %v", k+1, err)
		}
	}
	return ""
}

// unrelatedActivityOracle (C08, C11): what a caller holds - a finalised proof object, the bytes an encoding returned - is not
// changed by anything the process does afterwards (minting, sealing, encoding other tokens of any size).
func unrelatedActivityOracle(large bool) (fail string) {
	what := "unrelated activity after a token was finalised / encoded"
	defer guard(&fail, &what)
	key, ka := macaroon.NewSigningKey(), macaroon.NewEncryptionKey()
	loc, tp := "https://perm.act.test", "https://tp.act.test"
	perm, _ := macaroon.New([]byte("k"), loc, key)
	perm.Add(&flyio.Organization{ID: 1, Mask: resset.ActionAll})
	if large { // an encoding of several KiB
		apps := resset.ResourceSet[uint64, resset.Action]{}
		for i := uint64(1); i <= 900; i++ {
			apps[i] = resset.ActionAll
		}
		perm.Add(&flyio.Apps{Apps: apps})
	}
	perm.Add3P(ka, tp)
	ticket, _ := perm.ThirdPartyTicket(tp)
	_, proof, err := macaroon.DischargeTicket(ka, tp, ticket)
	if err != nil {
		return "setup: " + err.Error()
	}
	penc, _ := perm.Encode()
	pkeep := append([]byte{}, penc...)
	denc, _ := proof.Encode()
	dkeep := append([]byte{}, denc...)
	str1, _ := proof.String()
	check := func(after string) string {
		if !bytes.Equal(penc, pkeep) {
			return "the bytes Encode returned for a token changed " + after
		}
		if !bytes.Equal(denc, dkeep) {
			return "the bytes Encode returned for a proof changed " + after
		}
		again, _ := proof.Encode()
		if !bytes.Equal(again, dkeep) {
			return "re-encoding a finalised proof gives different bytes " + after
		}
		cl, err := proof.Clone()
		if err != nil {
			return "Clone of a finalised proof fails " + after + ": " + err.Error()
		}
		if cenc, _ := cl.Encode(); !bytes.Equal(cenc, dkeep) {
			return "the Clone of a finalised proof encodes differently " + after
		}
		if s, _ := proof.String(); s != str1 {
			return "a finalised proof prints differently " + after
		}
		if proof.Add(&macaroon.ValidityWindow{NotBefore: 1, NotAfter: 2}) == nil {
			return "a finalised proof accepts a caveat " + after
		}
		pm, _ := macaroon.Decode(pkeep)
		if _, err := pm.Verify(key, [][]byte{again}, nil); err != nil {
			return "a finalised proof, re-encoded " + after + ", no longer verifies: " + err.Error()
		}
		return ""
	}
	if f := check("immediately"); f != "" {
		return f
	}
	for round := 1; round <= 3; round++ {
		for i := 0; i < 300; i++ {
			o, _ := macaroon.New([]byte("other"), loc, macaroon.NewSigningKey())
			if i%50 == 0 {
				o.Add3P(macaroon.NewEncryptionKey(), tp)
			}
			if large && i%100 == 0 {
				apps := resset.ResourceSet[uint64, resset.Action]{}
				for j := uint64(1); j <= 1100; j++ {
					apps[j+uint64(i)] = resset.ActionRead
				}
				o.Add(&flyio.Apps{Apps: apps})
			}
			o.Encode()
		}
		if f := check(fmt.Sprintf("after the process minted and encoded %d other tokens", 300*round)); f != "" {
			return f
		}
	}
	return ""
}

// callerSliceOracle (C11): a caveat set built from a caller's list does not change when the caller re-uses that list: what
// was signed stays what is encoded and cleared.
func callerSliceOracle() (fail string) {
	what := "NewCaveatSet and the caller's list"
	defer guard(&fail, &what)
	key := macaroon.NewSigningKey()
	rd, wr := resset.ActionRead, resset.ActionWrite
	list := make([]macaroon.Caveat, 0, 8)
	list = append(list, &flyio.Organization{ID: 1, Mask: resset.ActionAll}, &rd)
	set := macaroon.NewCaveatSet(list...)
	before, _ := set.MarshalMsgpack()
	list[1] = &wr
	list = append(list, &macaroon.ValidityWindow{NotBefore: 1, NotAfter: 2})
	if after, _ := set.MarshalMsgpack(); !bytes.Equal(before, after) {
		return fmt.Sprintf("a set made by NewCaveatSet(list...) encodes differently after the caller changed its list: %x -> %x", before, after)
	}
	inner := []macaroon.Caveat{&flyio.Apps{Apps: resset.ResourceSet[uint64, resset.Action]{7: resset.ActionRead}}}
	m, _ := macaroon.New([]byte("k"), "https://perm.slice.test", key)
	if err := m.Add(&resset.IfPresent{Ifs: macaroon.NewCaveatSet(inner...), Else: resset.ActionRead}); err != nil {
		return "setup: " + err.Error()
	}
	inner[0] = &flyio.Apps{Apps: resset.ResourceSet[uint64, resset.Action]{7: resset.ActionAll}} // the scratch list, re-used for the next token
	enc, _ := m.Encode()
	pm, err := macaroon.Decode(enc)
	if err != nil {
		return "setup: " + err.Error()
	}
	if _, err := pm.Verify(key, nil, nil); err != nil {
		return "a token whose conditional was built from a list the caller re-used afterwards no longer verifies: " + err.Error()
	}
	a := make([]macaroon.Caveat, 1, 4)
	a[0] = &rd
	s1 := macaroon.NewCaveatSet(append(a, &flyio.Organization{ID: 1, Mask: resset.ActionRead})...)
	s2 := macaroon.NewCaveatSet(append(a, &flyio.Organization{ID: 1, Mask: resset.ActionAll})...)
	e1, _ := s1.MarshalMsgpack()
	e2, _ := s2.MarshalMsgpack()
	if bytes.Equal(e1, e2) {
		return "two sets built from one list with spare capacity are the same set"
	}
	return ""
}

// cacheVsPlainOnAliases (C14): bundles that share token objects (Select) and are verified / attenuated in turn: for every
// one of them verification through the cache and directly agree, before and after.
func cacheVsPlainOnAliases() (fail string) {
	what := "cached and direct verification of bundles sharing token objects"
	defer guard(&fail, &what)
	key := macaroon.NewSigningKey()
	plain := bundle.WithKey([]byte("k"), key, nil)
	cache := bundle.NewVerificationCache(plain, time.Hour, 64)
	m, _ := macaroon.New([]byte("k"), bLocs[0], key)
	m.Add(&flyio.Organization{ID: 1, Mask: resset.ActionAll})
	hdr, _ := m.String()
	sets := func(b *bundle.Bundle, v bundle.Verifier) string {
		cp := b.Select(bundle.KeepAll) // same token objects, own slice: verification replaces entries of the copy only
		ss, err := cp.Verify(context.Background(), v)
		if err != nil {
			return "rejected"
		}
		out := cp.Header()
		for _, s := range ss {
			e, _ := s.MarshalMsgpack()
			out += fmt.Sprintf(" %x", e)
		}
		return out
	}
	for variant := 0; variant < 2; variant++ {
		A, _ := bundle.ParseBundle(bLocs[0], hdr)
		if variant == 1 {
			A.Verify(context.Background(), cache)
		}
		B := A.Select(bundle.KeepAll)
		if _, err := A.Verify(context.Background(), cache); err != nil {
			return "setup: " + err.Error()
		}
		if err := A.Attenuate(&macaroon.ValidityWindow{NotBefore: 1, NotAfter: 2}); err != nil {
			return "setup: " + err.Error()
		}
		for name, b := range map[string]*bundle.Bundle{"the bundle derived before Verify/Attenuate": B, "the attenuated bundle": A} {
			for k := 0; k < 2; k++ {
				viaCache, direct := sets(b, cache), sets(b, plain)
				if viaCache != direct {
					return fmt.Sprintf("%s (variant %d): through the cache %.90q, directly %.90q", name, variant, viaCache, direct)
				}
			}
			fresh, _ := bundle.ParseBundle(bLocs[0], b.Header())
			if f, d := sets(fresh, plain), sets(b, plain); f != d {
				return fmt.Sprintf("%s (variant %d) verifies to %.90q, a fresh parse of its own header to %.90q", name, variant, d, f)
			}
		}
	}
	return ""
}

// repeatedFieldForms: a token sent as a msgpack MAP whose field names repeat (legal input: the decoder takes structs as maps):
// every combination of a decoy and the genuine value for Nonce (2- and 3-field decoys, proof flag set), caveats, location, tail.
func repeatedFieldForms(nonceRaw, cavsRaw []byte, loc string, tail []byte) [][]byte {
	var out [][]byte
	decoys := [][]byte{
		{0x93, 0xc4, 0x01, 'x', 0xc4, 0x01, 'y', 0xc3}, // three fields, proof = true
		{0x93, 0xc4, 0x01, 'x', 0xc4, 0x01, 'y', 0xc2},
		{0x92, 0xc4, 0x01, 'x', 0xc4, 0x01, 'y'},
	}
	str := func(s string) []byte { return append([]byte{0xa0 | byte(len(s))}, s...) }
	bin := func(b []byte) []byte { return append([]byte{0xc4, byte(len(b))}, b...) }
	for _, d := range decoys {
		for _, genuineLast := range []bool{true, false} {
			b := []byte{0x85}
			first, second := d, nonceRaw
			if !genuineLast {
				first, second = nonceRaw, d
			}
			b = append(append(b, str("Nonce")...), first...)
			b = append(append(b, str("Nonce")...), second...)
			b = append(append(b, str("Location")...), str(loc)...)
			b = append(append(b, str("UnsafeCaveats")...), cavsRaw...)
			b = append(append(b, str("Tail")...), bin(tail)...)
			out = append(out, b)
		}
	}
	return out
}

// staleNonceForgeryOracle (C07, C01): the holder of an old-format (two-field nonce) token, without the key, appends an
// attestation, finalises the tail the way proofs are finalised, and presents the result in every wire form he can think of -
// arrays, maps, maps naming the Nonce field twice with a three-field decoy carrying proof = true: none is accepted, none yields
// the attestation.
func staleNonceForgeryOracle() (fail string) {
	what := "forged attestation on an old-format token"
	defer guard(&fail, &what)
	key := macaroon.NewSigningKey()
	kid, rnd := []byte("k"), bytes.Repeat([]byte{7}, 16)
	for _, withCav := range []bool{false, true} {
		nonce0 := append(append([]byte{0x92, 0xc4, byte(len(kid))}, kid...), append([]byte{0xc4, byte(len(rnd))}, rnd...)...)
		tail := macaroon.VerifSign(key, nonce0)
		var cavs []macaroon.Caveat
		if withCav {
			cavs = append(cavs, &flyio.Organization{ID: 1, Mask: resset.ActionAll})
			opc, _ := macaroon.NewCaveatSet(cavs[0]).MarshalMsgpack()
			tail = macaroon.VerifSign(tail, opc)
		}
		uid := auth.FlyioUserID(42)
		opc, _ := macaroon.NewCaveatSet(&uid).MarshalMsgpack()
		ftail := macaroon.VerifFinalize(macaroon.VerifSign(tail, opc))
		fcavs, _ := macaroon.NewCaveatSet(append(append([]macaroon.Caveat{}, cavs...), &uid)...).MarshalMsgpack()
		loc := "https://perm.stale.test"
		forms := repeatedFieldForms(nonce0, fcavs, loc, ftail)
		// plain array forms with a 3-field nonce claiming proof
		n3 := append(append([]byte{0x93}, nonce0[1:]...), 0xc3)
		arr := append([]byte{0x94}, n3...)
		arr = append(append(arr, append([]byte{0xa0 | byte(len(loc))}, loc...)...), fcavs...)
		arr = append(arr, append([]byte{0xc4, byte(len(ftail))}, ftail...)...)
		forms = append(forms, arr)
		for _, f := range forms {
			tok, err := macaroon.Decode(f)
			if err != nil {
				continue
			}
			set, err := tok.Verify(key, nil, nil)
			if err != nil {
				continue
			}
			if n := len(macaroon.GetCaveats[*auth.FlyioUserID](set)); n > 0 {
				return fmt.Sprintf("the holder of an old-format token, without the key, obtained an accepted token carrying %d attestation(s): wire form %x", n, f)
			}
			return fmt.Sprintf("a hand-extended old-format token is accepted: wire form %x", f)
		}
	}
	return ""
}

// repeatedFieldReencodeOracle (C11): whatever wire form of a token is accepted - including maps whose field names repeat -
// the verdict does not change when the decoded token is encoded and decoded again (what is signed is what was decoded).
func repeatedFieldReencodeOracle() (fail string) {
	what := "re-encoding a token decoded from a map with repeated fields"
	defer guard(&fail, &what)
	key := macaroon.NewSigningKey()
	for _, v := range []int{0, 1} {
		for _, proof := range []bool{false, true} {
			if v == 0 && proof {
				continue
			}
			kid, rnd := []byte("k"), bytes.Repeat([]byte{9}, 16)
			n := macaroon.VerifNonce(kid, rnd, proof, v)
			nonceRaw, err := macaroon.VerifEncode(&n)
			if err != nil {
				return "setup: " + err.Error()
			}
			tail := macaroon.VerifSign(key, nonceRaw)
			org := &flyio.Organization{ID: 1, Mask: resset.ActionAll}
			opc, _ := macaroon.NewCaveatSet(org).MarshalMsgpack()
			tail = macaroon.VerifSign(tail, opc)
			for _, claimFinal := range []bool{false, true} {
				t := tail
				if claimFinal {
					t = macaroon.VerifFinalize(tail)
				}
				for _, f := range repeatedFieldForms(nonceRaw, opc, "https://perm.rep.test", t) {
					tok, err := macaroon.Decode(f)
					if err != nil {
						continue
					}
					_, err1 := tok.Verify(key, nil, nil)
					re, err := macaroon.VerifEncode(tok)
					if err != nil {
						continue
					}
					tok2, err := macaroon.Decode(re)
					if err != nil {
						return fmt.Sprintf("the re-encoding of an accepted wire form does not decode: %x", f)
					}
					_, err2 := tok2.Verify(key, nil, nil)
					if (err1 == nil) != (err2 == nil) {
						return fmt.Sprintf("a token decoded from %x verifies with %v, its own re-encoding with %v (nonce version %d, proof %v)", f, err1, err2, v, proof)
					}
					if err1 == nil && (tok.Nonce.Proof != proof) {
						return fmt.Sprintf("an accepted token decoded from %x has proof flag %v, the signed nonce says %v", f, tok.Nonce.Proof, proof)
					}
				}
			}
		}
	}
	return ""
}

// smallCacheOracle (C13, C14): caches of capacity 1, 2 and "exactly full": headers with more valid permission tokens than the
// cache holds, tokens verified before alone, in both orders: every answer is the plain verifier's (how many verified sets,
// what each bundle then clears).
func smallCacheOracle() (fail string) {
	what := "verification through a cache smaller than the header"
	defer guard(&fail, &what)
	key := macaroon.NewSigningKey()
	plain := bundle.WithKey([]byte("k"), key, nil)
	var hdrs []string
	for i := 0; i < 4; i++ {
		m, _ := macaroon.New([]byte("k"), bLocs[0], key)
		m.Add(&flyio.Organization{ID: uint64(i + 1), Mask: resset.ActionAll})
		s, _ := m.String()
		hdrs = append(hdrs, s)
	}
	answer := func(v bundle.Verifier, hdr string) string {
		b, err := bundle.ParseBundle(bLocs[0], hdr)
		if err != nil {
			return "parse error"
		}
		sets, err := b.Verify(context.Background(), v)
		out := fmt.Sprintf("%d verified (err %v);", len(sets), err != nil)
		for i := uint64(1); i <= 4; i++ {
			o := i
			out += fmt.Sprintf(" org%d=%v", i, b.Validate(&flyio.Access{OrgID: &o, Action: resset.ActionRead}) == nil)
		}
		return out
	}
	for _, capacity := range []int{1, 2, 3} {
		for _, warm := range [][]int{nil, {1}, {0, 1}, {2, 1, 0}} {
			cache := bundle.NewVerificationCache(plain, time.Hour, capacity)
			for _, w := range warm {
				answer(cache, hdrs[w])
			}
			for _, pick := range [][]int{{0, 1}, {1, 0}, {0, 1, 2}, {2, 0, 1, 3}, {0}} {
				var parts []string
				for _, p := range pick {
					parts = append(parts, hdrs[p])
				}
				hdr := strings.Join(parts, ",")
				for rep := 0; rep < 2; rep++ {
					if got, want := answer(cache, hdr), answer(plain, hdr); got != want {
						return fmt.Sprintf("cache of capacity %d (warmed with %v), header of %d valid tokens, presentation %d: through the cache %q, directly %q", capacity, warm, len(pick), rep+1, got, want)
					}
				}
			}
		}
	}
	return ""
}

// nonCanonicalInBundleOracle (C13): a header whose tokens come in wire forms the library would not write (map-encoded,
// full-width integers, trailing bytes) authorises through a bundle exactly what each token authorises when verified alone.
func nonCanonicalInBundleOracle() (fail string) {
	what := "non-canonical token encodings in a bundle"
	defer guard(&fail, &what)
	key := macaroon.NewSigningKey()
	mm, _ := macaroon.New([]byte("k"), bLocs[0], key)
	mm.Add(&flyio.Organization{ID: 1, Mask: resset.ActionAll}, &macaroon.ValidityWindow{NotBefore: 0, NotAfter: 1 << 40})
	canon, _ := mm.Encode()
	variants := [][]byte{append(append([]byte{}, canon...), 0x00)}
	if v, err := msgpack.Marshal(mm); err == nil {
		variants = append(variants, v)
	}
	var buf bytes.Buffer
	enc := msgpack.NewEncoder(&buf)
	enc.UseArrayEncodedStructs(true)
	enc.UseCompactInts(false)
	if enc.Encode(mm) == nil {
		variants = append(variants, buf.Bytes())
	}
	one := uint64(1)
	acc := &flyio.Access{OrgID: &one, Action: resset.ActionRead}
	for vi, v := range variants {
		dm, err := macaroon.Decode(v)
		if err != nil {
			continue
		}
		set, verr := dm.Verify(key, nil, nil)
		alone := verr == nil && set.Validate(acc) == nil
		b, err := bundle.ParseBundle(bLocs[0], macaroon.ToAuthorizationHeader(v))
		if err != nil {
			if alone {
				return fmt.Sprintf("variant %d of a valid token is accepted alone, its header does not parse as a bundle: %v", vi, err)
			}
			continue
		}
		_, berr := b.Verify(context.Background(), bundle.WithKey([]byte("k"), key, nil))
		if got := berr == nil && b.Validate(acc) == nil; got != alone {
			return fmt.Sprintf("variant %d of a valid token (%d bytes, canonical %d): verified alone it clears the request: %v; in a bundle: %v (bundle error %v)", vi, len(v), len(canon), alone, got, b.Error())
		}
		ab, _ := bundle.ParseBundle(bLocs[0], "")
		if err := ab.AddTokens(macaroon.ToAuthorizationHeader(v)); err != nil && alone {
			return fmt.Sprintf("AddTokens refuses variant %d of a valid token: %v", vi, err)
		}
	}
	return ""
}

// nilKeyIDOracle (C11, C05): a token minted with a nil (or empty) key-id round-trips byte for byte and verifies.
func nilKeyIDOracle() (fail string) {
	what := "token with a nil key-id"
	defer guard(&fail, &what)
	key := macaroon.NewSigningKey()
	for _, kid := range [][]byte{nil, {}, {0}} {
		m, err := macaroon.New(kid, "https://perm.nilkid.test", key)
		if err != nil {
			continue
		}
		m.Add(&flyio.Organization{ID: 1, Mask: resset.ActionAll})
		enc, _ := m.Encode()
		dm, err := macaroon.Decode(enc)
		if err != nil {
			return fmt.Sprintf("a token minted with key-id %#v does not decode: %v", kid, err)
		}
		if re, _ := dm.Encode(); !bytes.Equal(re, enc) {
			return fmt.Sprintf("a token minted with key-id %#v re-encodes differently after decoding: %x -> %x", kid, enc, re)
		}
		if _, err := dm.Verify(key, nil, nil); err != nil {
			return fmt.Sprintf("a token minted with key-id %#v is rejected after a decode: %v", kid, err)
		}
		nb, _ := macaroon.VerifEncode(&dm.Nonce)
		n2, err := macaroon.DecodeNonce(enc) // reads the nonce off the front of an encoded token
		if err != nil {
			return "DecodeNonce of an encoded token fails: " + err.Error()
		}
		if nb2, _ := macaroon.VerifEncode(&n2); !bytes.Equal(nb, nb2) {
			return fmt.Sprintf("the nonce DecodeNonce reads off a token encodes as %x, the token's own as %x", nb2, nb)
		}
	}
	return ""
}

// spareCapacityAliasOracle (C14, C13): token objects that share one parsed macaroon whose caveat list has spare capacity (65+
// caveats off the wire, or attenuated before): attenuating through two bundles in turn leaves each bundle a token that still
// verifies, through the cache and directly alike.
func spareCapacityAliasOracle() (fail string) {
	what := "attenuating bundles that share a parsed macaroon with spare capacity"
	defer guard(&fail, &what)
	key := macaroon.NewSigningKey()
	plain := bundle.WithKey([]byte("k"), key, nil)
	for _, ncav := range []int{0, 2, 65, 70} {
		for _, prior := range []int{0, 1, 3} {
			m, _ := macaroon.New([]byte("k"), bLocs[0], key)
			for i := 0; i < ncav; i++ {
				m.Add(&macaroon.ValidityWindow{NotBefore: int64(i), NotAfter: 1 << 40})
			}
			hdr, _ := m.String()
			b, _ := bundle.ParseBundle(bLocs[0], hdr)
			for i := 0; i < prior; i++ {
				b.Attenuate(&macaroon.ValidityWindow{NotBefore: int64(1000 + i), NotAfter: 1 << 40})
			}
			cache := bundle.NewVerificationCache(plain, time.Hour, 16)
			s := b.Select(bundle.KeepAll)
			if _, err := b.Verify(context.Background(), cache); err != nil {
				return "setup: " + err.Error()
			}
			s.Verify(context.Background(), cache)
			rd, wr := resset.ActionRead, resset.ActionAll
			if err := s.Attenuate(&rd); err != nil {
				return "setup: " + err.Error()
			}
			if err := b.Attenuate(&wr); err != nil {
				return "setup: " + err.Error()
			}
			for name, x := range map[string]*bundle.Bundle{"derived": s, "parent": b} {
				for _, v := range []bundle.Verifier{cache, plain} {
					cp := x.Select(bundle.KeepAll)
					if _, err := cp.Verify(context.Background(), v); err != nil {
						return fmt.Sprintf("token of %d caveats, %d earlier attenuations: after both bundles attenuated, the %s bundle's own token no longer verifies: %v", ncav, prior, name, err)
					}
				}
				fresh, _ := bundle.ParseBundle(bLocs[0], x.Header())
				if _, err := fresh.Verify(context.Background(), plain); err != nil {
					return fmt.Sprintf("token of %d caveats, %d earlier attenuations: the %s bundle prints a header that does not verify: %v", ncav, prior, name, err)
				}
			}
		}
	}
	return ""
}
